package main

// Schema-level stream: the date-time functions called through a schema (custom_func inside
// FINAL_OUTPUT, directly and through a template), on xml / json / csv records whose value is
// valid, empty or unparsable, with lenient ("ignore_error": true) and strict members side by side
// in both name orders.  Oracle: every member behaves as the function called on its own does -
// the value the function returns; nothing for an empty result; for an error nothing if the member
// is lenient, a failed record (ErrTransformFailed) if it is strict: unparsable input yields an
// error, never a different time and never silence.

import (
	"encoding/json"
	"fmt"
	"io"
	"sort"
	"strings"

	"github.com/jf-tech/omniparser"
	"github.com/jf-tech/omniparser/errs"
	"github.com/jf-tech/omniparser/transformctx"

	"verifharness/vh"
)

var allZones = []string{"UTC", "America/New_York", "Asia/Kolkata", "Asia/Tokyo", "Europe/London", "Australia/Lord_Howe", "America/St_Johns", ""}

type member struct {
	Name     string `json:"name"`
	Ignore   bool   `json:"ignore_error"`
	Template bool   `json:"through_template,omitempty"`
}

type schemaCase struct {
	Fn      string   `json:"fn"` // always "schema"
	Format  string   `json:"format"`
	Func    string   `json:"func"`
	Consts  []string `json:"const_args"` // the arguments after the record's value
	Members []member `json:"members"`
	Values  []string `json:"values"` // one record per value
	// several transforms from ONE Schema: argument i comes from {"external": "arg<i>"} where
	// External[i], and Runs[k] are the arguments of the k-th transform (Consts is Runs[0]);
	// Alive: all transforms are created before any is read, then read round-robin
	External []bool     `json:"external_args,omitempty"`
	Runs     [][]string `json:"runs,omitempty"`
	Alive    bool       `json:"alive_at_once,omitempty"`
}

func callDirect(fn string, v string, c []string) (string, error) {
	switch fn {
	case "dateTimeToRFC3339":
		return fnToRFC3339(nil, v, c[0], c[1])
	case "dateTimeLayoutToRFC3339":
		return fnLayout(nil, v, c[0], c[1], c[2], c[3])
	case "dateTimeToEpoch":
		return fnToEpoch(nil, v, c[0], c[1])
	default:
		return fnFromEpoch(nil, v, c[0], c[1:]...)
	}
}

func jsonStr(s string) string { b, _ := json.Marshal(s); return string(b) }

func (c schemaCase) funcDecl(ignore bool) string {
	args := []string{`{ "xpath": "v" }`}
	for i, a := range c.Consts {
		if i < len(c.External) && c.External[i] {
			args = append(args, fmt.Sprintf(`{ "external": "arg%d", "keep_empty_or_null": true }`, i))
		} else {
			args = append(args, `{ "const": `+jsonStr(a)+`, "keep_empty_or_null": true }`)
		}
	}
	ig := ""
	if ignore {
		ig = `, "ignore_error": true`
	}
	return `{ "custom_func": { "name": "` + c.Func + `", "args": [ ` + strings.Join(args, ", ") + ` ]` + ig + ` } }`
}

func (c schemaCase) schema() string {
	var ms []string
	for _, m := range c.Members {
		if m.Template {
			ms = append(ms, jsonStr(m.Name)+`: { "template": "tpl_`+fmt.Sprint(m.Ignore)+`" }`)
		} else {
			ms = append(ms, jsonStr(m.Name)+": "+c.funcDecl(m.Ignore))
		}
	}
	decls := `"tpl_true": ` + c.funcDecl(true) + `, "tpl_false": ` + c.funcDecl(false)
	switch c.Format {
	case "xml":
		return `{ "parser_settings": { "version": "omni.2.1", "file_format_type": "xml" },
 "transform_declarations": { "FINAL_OUTPUT": { "xpath": "/Root/Rec", "object": { ` + strings.Join(ms, ", ") + ` } }, ` + decls + ` } }`
	case "json":
		return `{ "parser_settings": { "version": "omni.2.1", "file_format_type": "json" },
 "transform_declarations": { "FINAL_OUTPUT": { "xpath": "/*", "object": { ` + strings.Join(ms, ", ") + ` } }, ` + decls + ` } }`
	}
	return `{ "parser_settings": { "version": "omni.2.1", "file_format_type": "csv" },
 "file_declaration": { "delimiter": "|", "header_row_index": 1, "data_row_index": 2, "columns": [ { "name": "v" }, { "name": "w" } ] },
 "transform_declarations": { "FINAL_OUTPUT": { "object": { ` + strings.Join(ms, ", ") + ` } }, ` + decls + ` } }`
}

func (c schemaCase) input() string {
	var b strings.Builder
	switch c.Format {
	case "xml":
		b.WriteString("<Root>\n")
		for _, v := range c.Values {
			var x strings.Builder
			_ = xmlEscape(&x, v)
			b.WriteString("<Rec><v>" + x.String() + "</v><w>1</w></Rec>\n")
		}
		b.WriteString("</Root>")
	case "json":
		b.WriteString("[")
		for i, v := range c.Values {
			if i > 0 {
				b.WriteString(",")
			}
			b.WriteString(`{"v":` + jsonStr(v) + `,"w":"1"}`)
		}
		b.WriteString("]")
	default:
		b.WriteString("v|w\n")
		for _, v := range c.Values {
			b.WriteString(v + "|1\n")
		}
	}
	return b.String()
}

func xmlEscape(b *strings.Builder, s string) error {
	for _, r := range s {
		switch r {
		case '<':
			b.WriteString("&lt;")
		case '>':
			b.WriteString("&gt;")
		case '&':
			b.WriteString("&amp;")
		default:
			b.WriteRune(r)
		}
	}
	return nil
}

type recObs struct {
	Failed  bool              `json:"failed,omitempty"`
	Members map[string]string `json:"members,omitempty"` // members present with a non-empty string
}

// readAll reads t to the end; nil, reason if it does not end properly.
func readOne(t omniparser.Transform) (ro recObs, eof bool, fatal string) {
	b, err := t.Read()
	if err == io.EOF {
		return ro, true, ""
	}
	if err != nil {
		if !errs.IsErrTransformFailed(err) {
			return ro, false, "fatal: " + err.Error()
		}
		return recObs{Failed: true}, false, ""
	}
	var m map[string]interface{}
	if json.Unmarshal(b, &m) != nil {
		return ro, false, "output is not a JSON object: " + string(b)
	}
	ro = recObs{Members: map[string]string{}}
	for k, v := range m {
		if s, ok := v.(string); ok && s != "" {
			ro.Members[k] = s
		} else if v != nil && !ok {
			ro.Members[k] = fmt.Sprint(v)
		}
	}
	return ro, false, ""
}

func (e *env) runSchema(c schemaCase) {
	c.Fn = "schema"
	vh.Current(e.o, c)
	e.sum.Hist("fn:schema")
	e.sum.Hist("schema:format=" + c.Format)
	e.sum.Hist("schema:func=" + c.Func)
	fail := func(what string, detail interface{}) { e.sum.Fail(what, c, detail) }
	runs := c.Runs
	if len(runs) == 0 {
		runs = [][]string{c.Consts}
	} else {
		e.sum.Hist(fmt.Sprintf("schema:one-schema-%d-transforms-external-args", len(runs)))
		if c.Alive {
			e.sum.Hist("schema:transforms-alive-at-once")
		}
	}
	got := make([][]recObs, len(runs))
	var fatal string
	func() {
		defer func() {
			if r := recover(); r != nil {
				fatal = fmt.Sprint("panic: ", r)
			}
		}()
		s, err := omniparser.NewSchema("c19-schema", strings.NewReader(c.schema()))
		if err != nil {
			fatal = "NewSchema: " + err.Error()
			return
		}
		mk := func(k int) omniparser.Transform {
			ctx := &transformctx.Ctx{ExternalProperties: map[string]string{}}
			for i, v := range runs[k] {
				ctx.ExternalProperties[fmt.Sprintf("arg%d", i)] = v
			}
			t, err := s.NewTransform("c19-input", strings.NewReader(c.input()), ctx)
			if err != nil {
				fatal = "NewTransform: " + err.Error()
				return nil
			}
			return t
		}
		if c.Alive {
			ts := make([]omniparser.Transform, len(runs))
			for k := range runs {
				if ts[k] = mk(k); ts[k] == nil {
					return
				}
			}
			done := make([]bool, len(runs))
			for step := 0; step < (len(c.Values)+5)*len(runs); step++ {
				k := step % len(runs)
				if done[k] {
					continue
				}
				ro, eof, f := readOne(ts[k])
				if f != "" {
					fatal = f
					return
				}
				if eof {
					done[k] = true
					continue
				}
				got[k] = append(got[k], ro)
			}
			for _, d := range done {
				if !d {
					fatal = "Read did not reach EOF"
				}
			}
			return
		}
		for k := range runs {
			t := mk(k)
			if t == nil {
				return
			}
			ended := false
			for i := 0; i < len(c.Values)+5 && !ended; i++ {
				ro, eof, f := readOne(t)
				if f != "" {
					fatal = f
					return
				}
				if eof {
					ended = true
				} else {
					got[k] = append(got[k], ro)
				}
			}
			if !ended {
				fatal = "Read did not reach EOF"
				return
			}
		}
	}()
	if e.verbose {
		b, _ := json.Marshal(c)
		fmt.Printf("schema case %s\n  schema: %s\n  input: %q\n  observed: %+v %s\n", b, c.schema(), c.input(), got, fatal)
	}
	if fatal != "" {
		fail("schema-level run of a date-time function did not complete", fatal)
		return
	}
	names := []string{}
	for _, m := range c.Members {
		names = append(names, m.Name)
	}
	sort.Strings(names)
	var coqRecs []string
	nontrivial := len(runs) > 1
	for k, consts := range runs {
		if len(got[k]) != len(c.Values) {
			fail("number of Read results differs from the number of records", map[string]int{"transform": k, "records": len(c.Values), "results": len(got[k])})
			return
		}
		for i, v := range c.Values {
			out, err := callDirect(c.Func, v, consts)
			wantFail := false
			want := map[string]string{}
			kind := "RVal tt"
			switch {
			case err != nil:
				kind = "RError"
				e.sum.Hist("schema:value=unparsable")
			case out == "":
				kind = "REmpty"
				e.sum.Hist("schema:value=empty")
			default:
				e.sum.Hist("schema:value=valid")
			}
			var ms []string
			for _, m := range c.Members {
				ms = append(ms, fmt.Sprintf("(%s, %s)", vh.CoqBool(m.Ignore), kind))
				if err != nil && !m.Ignore {
					wantFail = true
					nontrivial = true
				}
				if err == nil && out != "" {
					want[m.Name] = out
				}
			}
			// model case: members (ignore_error, kind of the function's result) -> observed record
			obsCoq := "None"
			if !got[k][i].Failed {
				var flags []string
				for _, m := range c.Members {
					_, present := got[k][i].Members[m.Name]
					flags = append(flags, vh.CoqBool(present))
				}
				obsCoq = "(Some " + vh.CoqList(flags) + ")"
			}
			coqRecs = append(coqRecs, fmt.Sprintf("(%s, %s)", vh.CoqList(ms), obsCoq))
			where := map[string]interface{}{"transform": k, "arguments": consts, "record": i, "value": v}
			switch {
			case wantFail && !got[k][i].Failed:
				where["function_error"], where["observed"] = err.Error(), got[k][i]
				fail("a strict member (no ignore_error) was given unparsable input but the record did not fail: unparsable input must yield an error", where)
				return
			case !wantFail && got[k][i].Failed:
				where["direct_call"] = out
				fail("the record failed although no strict member's function call fails", where)
				return
			case !wantFail:
				for _, n := range names {
					if got[k][i].Members[n] != want[n] {
						where["member"], where["observed"], where["direct_call"] = n, got[k][i].Members[n], want[n]
						fail("a member's value differs from what the function returns when called on its own with this transform's arguments", where)
						return
					}
				}
			}
		}
	}
	canon, _ := json.Marshal(c)
	e.sum.Count(string(canon), nontrivial)
	if !e.skipModel {
		e.cw.Add("SchemaCase "+vh.CoqList(coqRecs), c)
	}
}

func (e *env) schemaStream(r *vh.Rng, n int) {
	twins := [][]member{
		{{"a_lenient", true, false}, {"b_strict", false, false}},
		{{"a_strict", false, false}, {"b_lenient", true, false}},
		{{"only_lenient", true, false}},
		{{"only_strict", false, false}},
		{{"a_tpl_lenient", true, true}, {"b_strict", false, false}},
		{{"a_strict", false, false}, {"b_tpl_lenient", true, true}},
		{{"a_lenient", true, false}, {"b_tpl_strict", false, true}},
		{{"a_lenient", true, false}, {"b_strict", false, false}, {"c_lenient", true, false}, {"d_tpl_strict", false, true}},
		{{"t_lenient", true, true}},
	}
	dateVals := []string{"2020/09/22 12:34:56", "2020-09-22T12:34:56Z", "09/22/2020 12:34 PM", "2020-09-22T12:34:56.789-07:00", "9999-12-31T23:59:59Z",
		"20200922", "1969-12-31T23:59:58.5Z", "2020/09/22 12:34:56-America/New_York"}
	dateBad := []string{"2020/02/30 12:34:56", "not a date", "2020-13-01", "12:34:56", "2020-01-01T25:00:00", "22.09.2020"}
	epochVals := []string{"1600778096", "-1500", "0", "253402300799", "0000001600000000", "+1600000000", "-0001", "017", "1600778096123"}
	epochBad := []string{"16oo778096", "0x5f5e100", "1_600_000_000", "1.5e9", "0b101", "0o17", "9223372036854775808", "abc", "12 34"}
	zones := []string{"", "UTC", "America/New_York", "Asia/Kolkata"}
	for i := 0; i < n; i++ {
		c := schemaCase{Format: []string{"xml", "json", "csv"}[i%3], Members: twins[(i/3)%len(twins)]}
		good, bad := dateVals, dateBad
		switch (i / 27) % 4 {
		case 0:
			c.Func, c.Consts = "dateTimeToRFC3339", []string{zones[r.Pick(4)], zones[r.Pick(4)]}
		case 1:
			c.Func, c.Consts = "dateTimeToEpoch", []string{zones[r.Pick(4)], []string{"SECOND", "MILLISECOND"}[r.Pick(2)]}
		case 2:
			c.Func, c.Consts = "dateTimeLayoutToRFC3339", []string{"2006-01-02 15:04:05", "false", zones[r.Pick(4)], zones[r.Pick(4)]}
			good, bad = []string{"2020-09-22 12:34:56", "1600-02-29 00:00:00", "9999-12-31 23:59:59"}, []string{"2020/09/22 12:34:56", "2020-02-30 12:34:56", "x"}
		default:
			c.Func, c.Consts = "epochToDateTimeRFC3339", []string{[]string{"SECOND", "MILLISECOND"}[r.Pick(2)]}
			if r.Chance(0.5) {
				c.Consts = append(c.Consts, zones[1+r.Pick(3)])
			}
			good, bad = epochVals, epochBad
		}
		for k, nrec := 0, r.Between(2, 5); k < nrec; k++ {
			switch r.Pick(5) {
			case 0, 1:
				c.Values = append(c.Values, good[r.Pick(len(good))])
			case 2:
				c.Values = append(c.Values, "")
			default:
				c.Values = append(c.Values, bad[r.Pick(len(bad))])
			}
		}
		// always: a valid record first and an unparsable one after it (the order the cache bug needs)
		c.Values = append([]string{good[r.Pick(len(good))]}, append(c.Values, bad[r.Pick(len(bad))])...)
		if c.Format == "csv" {
			for k, v := range c.Values {
				c.Values[k] = strings.TrimSpace(strings.NewReplacer("|", "/", "\"", "'").Replace(v))
			}
		}
		e.runSchema(c)
	}
	// ONE Schema, several transforms whose zone / unit / layout arguments come from their own
	// transformctx.Ctx.ExternalProperties
	for i := 0; i < n/4; i++ {
		c := schemaCase{Format: []string{"xml", "json", "csv"}[i%3], Members: twins[[]int{0, 1, 2, 3, 4}[(i/3)%5]], Alive: i%4 == 3}
		nruns := r.Between(2, 4)
		c.Values = []string{"2020/09/22 12:34:56", "2021-03-14 01:59:59", "1999-12-31T23:59:59.999", ""}
		mkRun := func() []string { return nil }
		switch (i / 3) % 3 {
		case 0:
			c.Func, c.External = "dateTimeToRFC3339", []bool{r.Chance(0.8), r.Chance(0.8)}
			mkRun = func() []string { return []string{allZones[r.Pick(len(allZones))], allZones[r.Pick(len(allZones))]} }
		case 1:
			c.Func, c.External = "dateTimeToEpoch", []bool{true, true}
			mkRun = func() []string {
				return []string{allZones[r.Pick(len(allZones))], []string{"SECOND", "MILLISECOND"}[r.Pick(2)]}
			}
		default:
			c.Func, c.External = "epochToDateTimeRFC3339", []bool{true, true}
			c.Values = []string{"1600778096", "-1500", "253402300799", "1600778096123", ""}
			mkRun = func() []string {
				return []string{[]string{"SECOND", "MILLISECOND"}[r.Pick(2)], allZones[r.Pick(len(allZones)-1)]}
			}
		}
		if !c.External[0] && !c.External[1] {
			c.External[0] = true
		}
		first := mkRun()
		for k := 0; k < nruns; k++ {
			run := mkRun()
			for j := range run {
				if !c.External[j] {
					run[j] = first[j] // a const argument is the same for every transform
				}
			}
			c.Runs = append(c.Runs, run)
		}
		c.Runs[0], c.Consts = first, first
		c.Values = append(c.Values, "not a date")
		e.runSchema(c)
	}
	// many distinct declarations on one node: each member must return its own conversion
	for i := 0; i < 3; i++ {
		c := schemaCase{Format: []string{"xml", "json", "csv"}[i%3], Func: "dateTimeToRFC3339", Consts: []string{"", ""},
			Values: []string{"2020/09/22 12:34:56", "2021-03-14 01:59:59"}}
		// the members differ in their zone arguments: emitted as separate single-function cases over
		// the same input would not share a node, so they are put into ONE object via per-member consts
		e.runManyMembers(c, allZones, r)
	}
}

// runManyMembers: one object with a member for every (fromTZ, toTZ) pair of zones; every member
// must carry the result of its own arguments.
func (e *env) runManyMembers(c schemaCase, zones []string, r *vh.Rng) {
	c.Fn = "schema-many"
	vh.Current(e.o, c)
	e.sum.Hist("fn:schema")
	e.sum.Hist("schema:many-distinct-members-on-one-node")
	type pair struct{ name, from, to string }
	var pairs []pair
	var ms []string
	for i, f := range zones {
		for j, t := range zones {
			p := pair{fmt.Sprintf("m_%02d_%02d", i, j), f, t}
			pairs = append(pairs, p)
			cc := c
			cc.Consts = []string{f, t}
			ms = append(ms, jsonStr(p.name)+": "+cc.funcDecl(false))
		}
	}
	cc := c
	cc.Members = nil
	schema := cc.schema()
	schema = strings.Replace(schema, `"object": {  }`, `"object": { `+strings.Join(ms, ", ")+` }`, 1)
	var fatal string
	var got []recObs
	func() {
		defer func() {
			if rr := recover(); rr != nil {
				fatal = fmt.Sprint("panic: ", rr)
			}
		}()
		s, err := omniparser.NewSchema("c19-many", strings.NewReader(schema))
		if err != nil {
			fatal = "NewSchema: " + err.Error()
			return
		}
		t, err := s.NewTransform("in", strings.NewReader(c.input()), &transformctx.Ctx{})
		if err != nil {
			fatal = "NewTransform: " + err.Error()
			return
		}
		for i := 0; i < len(c.Values)+3; i++ {
			ro, eof, f := readOne(t)
			if f != "" {
				fatal = f
				return
			}
			if eof {
				return
			}
			got = append(got, ro)
		}
	}()
	if fatal != "" || len(got) != len(c.Values) {
		e.sum.Fail("schema-level run of a date-time function did not complete", c, fmt.Sprint(fatal, " results=", len(got)))
		return
	}
	for i, v := range c.Values {
		for _, p := range pairs {
			want, err := fnToRFC3339(nil, v, p.from, p.to)
			if err != nil {
				continue
			}
			if got[i].Failed || got[i].Members[p.name] != want {
				e.sum.Fail("a member's value differs from what the function returns when called on its own with the member's arguments", c,
					map[string]interface{}{"record": i, "value": v, "member": p.name, "from_tz": p.from, "to_tz": p.to, "observed": got[i].Members[p.name], "direct_call": want})
				return
			}
		}
	}
	canon, _ := json.Marshal(c)
	e.sum.Count(string(canon), true)
}
