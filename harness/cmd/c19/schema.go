package main

// Schema-level stream: the date-time functions called through a schema (custom_func inside
// FINAL_OUTPUT, directly and through a template), on xml / json / csv records whose value is
// valid, empty or unparsable, with lenient ("ignore_error": true) and strict members side by side
// in both name orders.  Oracle: every member behaves as the function called on its own does -
// the value the function returns; nothing for an empty result; for an error nothing if the member
// is lenient, a failed record (ErrTransformFailed) if it is strict: unparsable input yields an
// error, never a different time and never silence.

import (
	"encoding/json"
	"fmt"
	"io"
	"sort"
	"strings"

	"github.com/jf-tech/omniparser"
	"github.com/jf-tech/omniparser/errs"
	"github.com/jf-tech/omniparser/transformctx"

	"verifharness/vh"
)

type member struct {
	Name     string `json:"name"`
	Ignore   bool   `json:"ignore_error"`
	Template bool   `json:"through_template,omitempty"`
}

type schemaCase struct {
	Fn      string   `json:"fn"` // always "schema"
	Format  string   `json:"format"`
	Func    string   `json:"func"`
	Consts  []string `json:"const_args"` // the arguments after the record's value
	Members []member `json:"members"`
	Values  []string `json:"values"` // one record per value
}

func callDirect(fn string, v string, c []string) (string, error) {
	switch fn {
	case "dateTimeToRFC3339":
		return fnToRFC3339(nil, v, c[0], c[1])
	case "dateTimeLayoutToRFC3339":
		return fnLayout(nil, v, c[0], c[1], c[2], c[3])
	case "dateTimeToEpoch":
		return fnToEpoch(nil, v, c[0], c[1])
	default:
		return fnFromEpoch(nil, v, c[0], c[1:]...)
	}
}

func jsonStr(s string) string { b, _ := json.Marshal(s); return string(b) }

func (c schemaCase) funcDecl(ignore bool) string {
	args := []string{`{ "xpath": "v" }`}
	for _, a := range c.Consts {
		args = append(args, `{ "const": `+jsonStr(a)+`, "keep_empty_or_null": true }`)
	}
	ig := ""
	if ignore {
		ig = `, "ignore_error": true`
	}
	return `{ "custom_func": { "name": "` + c.Func + `", "args": [ ` + strings.Join(args, ", ") + ` ]` + ig + ` } }`
}

func (c schemaCase) schema() string {
	var ms []string
	for _, m := range c.Members {
		if m.Template {
			ms = append(ms, jsonStr(m.Name)+`: { "template": "tpl_`+fmt.Sprint(m.Ignore)+`" }`)
		} else {
			ms = append(ms, jsonStr(m.Name)+": "+c.funcDecl(m.Ignore))
		}
	}
	decls := `"tpl_true": ` + c.funcDecl(true) + `, "tpl_false": ` + c.funcDecl(false)
	switch c.Format {
	case "xml":
		return `{ "parser_settings": { "version": "omni.2.1", "file_format_type": "xml" },
 "transform_declarations": { "FINAL_OUTPUT": { "xpath": "/Root/Rec", "object": { ` + strings.Join(ms, ", ") + ` } }, ` + decls + ` } }`
	case "json":
		return `{ "parser_settings": { "version": "omni.2.1", "file_format_type": "json" },
 "transform_declarations": { "FINAL_OUTPUT": { "xpath": "/*", "object": { ` + strings.Join(ms, ", ") + ` } }, ` + decls + ` } }`
	}
	return `{ "parser_settings": { "version": "omni.2.1", "file_format_type": "csv" },
 "file_declaration": { "delimiter": "|", "header_row_index": 1, "data_row_index": 2, "columns": [ { "name": "v" }, { "name": "w" } ] },
 "transform_declarations": { "FINAL_OUTPUT": { "object": { ` + strings.Join(ms, ", ") + ` } }, ` + decls + ` } }`
}

func (c schemaCase) input() string {
	var b strings.Builder
	switch c.Format {
	case "xml":
		b.WriteString("<Root>\n")
		for _, v := range c.Values {
			var x strings.Builder
			_ = xmlEscape(&x, v)
			b.WriteString("<Rec><v>" + x.String() + "</v><w>1</w></Rec>\n")
		}
		b.WriteString("</Root>")
	case "json":
		b.WriteString("[")
		for i, v := range c.Values {
			if i > 0 {
				b.WriteString(",")
			}
			b.WriteString(`{"v":` + jsonStr(v) + `,"w":"1"}`)
		}
		b.WriteString("]")
	default:
		b.WriteString("v|w\n")
		for _, v := range c.Values {
			b.WriteString(v + "|1\n")
		}
	}
	return b.String()
}

func xmlEscape(b *strings.Builder, s string) error {
	for _, r := range s {
		switch r {
		case '<':
			b.WriteString("&lt;")
		case '>':
			b.WriteString("&gt;")
		case '&':
			b.WriteString("&amp;")
		default:
			b.WriteRune(r)
		}
	}
	return nil
}

type recObs struct {
	Failed  bool              `json:"failed,omitempty"`
	Members map[string]string `json:"members,omitempty"` // members present with a non-empty string
}

func (e *env) runSchema(c schemaCase) {
	c.Fn = "schema"
	vh.Current(e.o, c)
	e.sum.Hist("fn:schema")
	e.sum.Hist("schema:format=" + c.Format)
	e.sum.Hist("schema:func=" + c.Func)
	fail := func(what string, detail interface{}) { e.sum.Fail(what, c, detail) }
	var got []recObs
	var fatal string
	func() {
		defer func() {
			if r := recover(); r != nil {
				fatal = fmt.Sprint("panic: ", r)
			}
		}()
		s, err := omniparser.NewSchema("c19-schema", strings.NewReader(c.schema()))
		if err != nil {
			fatal = "NewSchema: " + err.Error()
			return
		}
		t, err := s.NewTransform("c19-input", strings.NewReader(c.input()), &transformctx.Ctx{})
		if err != nil {
			fatal = "NewTransform: " + err.Error()
			return
		}
		for i := 0; i < len(c.Values)+5; i++ {
			b, err := t.Read()
			if err == io.EOF {
				return
			}
			if err != nil {
				if !errs.IsErrTransformFailed(err) {
					fatal = "fatal: " + err.Error()
					return
				}
				got = append(got, recObs{Failed: true})
				continue
			}
			var m map[string]interface{}
			if json.Unmarshal(b, &m) != nil {
				fatal = "output is not a JSON object: " + string(b)
				return
			}
			ro := recObs{Members: map[string]string{}}
			for k, v := range m {
				if s, ok := v.(string); ok && s != "" {
					ro.Members[k] = s
				} else if v != nil && !ok {
					ro.Members[k] = fmt.Sprint(v)
				}
			}
			got = append(got, ro)
		}
		fatal = "Read did not reach EOF"
	}()
	if e.verbose {
		b, _ := json.Marshal(c)
		fmt.Printf("schema case %s\n  schema: %s\n  input: %q\n  observed: %+v %s\n", b, c.schema(), c.input(), got, fatal)
	}
	if fatal != "" {
		fail("schema-level run of a date-time function did not complete", fatal)
		return
	}
	if len(got) != len(c.Values) {
		fail("number of Read results differs from the number of records", map[string]int{"records": len(c.Values), "results": len(got)})
		return
	}
	names := []string{}
	for _, m := range c.Members {
		names = append(names, m.Name)
	}
	sort.Strings(names)
	var coqRecs []string
	nontrivial := false
	for i, v := range c.Values {
		out, err := callDirect(c.Func, v, c.Consts)
		wantFail := false
		want := map[string]string{}
		kind := "RVal tt"
		switch {
		case err != nil:
			kind = "RError"
			e.sum.Hist("schema:value=unparsable")
		case out == "":
			kind = "REmpty"
			e.sum.Hist("schema:value=empty")
		default:
			e.sum.Hist("schema:value=valid")
		}
		var ms []string
		for _, m := range c.Members {
			ms = append(ms, fmt.Sprintf("(%s, %s)", vh.CoqBool(m.Ignore), kind))
			if err != nil && !m.Ignore {
				wantFail = true
				nontrivial = true
			}
			if err == nil && out != "" {
				want[m.Name] = out
			}
		}
		// model case: members (ignore_error, kind of the function's result) -> observed record
		obsCoq := "None"
		if !got[i].Failed {
			var flags []string
			for _, m := range c.Members {
				_, present := got[i].Members[m.Name]
				flags = append(flags, vh.CoqBool(present))
			}
			obsCoq = "(Some " + vh.CoqList(flags) + ")"
		}
		coqRecs = append(coqRecs, fmt.Sprintf("(%s, %s)", vh.CoqList(ms), obsCoq))
		switch {
		case wantFail && !got[i].Failed:
			fail("a strict member (no ignore_error) was given unparsable input but the record did not fail: unparsable input must yield an error",
				map[string]interface{}{"record": i, "value": v, "function_error": err.Error(), "observed": got[i]})
			return
		case !wantFail && got[i].Failed:
			fail("the record failed although no strict member's function call fails",
				map[string]interface{}{"record": i, "value": v, "direct_call": out})
			return
		case !wantFail:
			for _, n := range names {
				if got[i].Members[n] != want[n] {
					fail("a member's value differs from what the function returns when called on its own",
						map[string]interface{}{"record": i, "value": v, "member": n, "observed": got[i].Members[n], "direct_call": want[n]})
					return
				}
			}
		}
	}
	canon, _ := json.Marshal(c)
	e.sum.Count(string(canon), nontrivial)
	if !e.skipModel {
		e.cw.Add("SchemaCase "+vh.CoqList(coqRecs), c)
	}
}

func (e *env) schemaStream(r *vh.Rng, n int) {
	twins := [][]member{
		{{"a_lenient", true, false}, {"b_strict", false, false}},
		{{"a_strict", false, false}, {"b_lenient", true, false}},
		{{"only_lenient", true, false}},
		{{"only_strict", false, false}},
		{{"a_tpl_lenient", true, true}, {"b_strict", false, false}},
		{{"a_strict", false, false}, {"b_tpl_lenient", true, true}},
		{{"a_lenient", true, false}, {"b_tpl_strict", false, true}},
		{{"a_lenient", true, false}, {"b_strict", false, false}, {"c_lenient", true, false}, {"d_tpl_strict", false, true}},
		{{"t_lenient", true, true}},
	}
	dateVals := []string{"2020/09/22 12:34:56", "2020-09-22T12:34:56Z", "09/22/2020 12:34 PM", "2020-09-22T12:34:56.789-07:00", "9999-12-31T23:59:59Z",
		"20200922", "1969-12-31T23:59:58.5Z", "2020/09/22 12:34:56-America/New_York"}
	dateBad := []string{"2020/02/30 12:34:56", "not a date", "2020-13-01", "12:34:56", "2020-01-01T25:00:00", "22.09.2020"}
	epochVals := []string{"1600778096", "-1500", "0", "253402300799", "0000001600000000", "+1600000000", "-0001", "017", "1600778096123"}
	epochBad := []string{"16oo778096", "0x5f5e100", "1_600_000_000", "1.5e9", "0b101", "0o17", "9223372036854775808", "abc", "12 34"}
	zones := []string{"", "UTC", "America/New_York", "Asia/Kolkata"}
	for i := 0; i < n; i++ {
		c := schemaCase{Format: []string{"xml", "json", "csv"}[i%3], Members: twins[(i/3)%len(twins)]}
		good, bad := dateVals, dateBad
		switch (i / 27) % 4 {
		case 0:
			c.Func, c.Consts = "dateTimeToRFC3339", []string{zones[r.Pick(4)], zones[r.Pick(4)]}
		case 1:
			c.Func, c.Consts = "dateTimeToEpoch", []string{zones[r.Pick(4)], []string{"SECOND", "MILLISECOND"}[r.Pick(2)]}
		case 2:
			c.Func, c.Consts = "dateTimeLayoutToRFC3339", []string{"2006-01-02 15:04:05", "false", zones[r.Pick(4)], zones[r.Pick(4)]}
			good, bad = []string{"2020-09-22 12:34:56", "1600-02-29 00:00:00", "9999-12-31 23:59:59"}, []string{"2020/09/22 12:34:56", "2020-02-30 12:34:56", "x"}
		default:
			c.Func, c.Consts = "epochToDateTimeRFC3339", []string{[]string{"SECOND", "MILLISECOND"}[r.Pick(2)]}
			if r.Chance(0.5) {
				c.Consts = append(c.Consts, zones[1+r.Pick(3)])
			}
			good, bad = epochVals, epochBad
		}
		for k, nrec := 0, r.Between(2, 5); k < nrec; k++ {
			switch r.Pick(5) {
			case 0, 1:
				c.Values = append(c.Values, good[r.Pick(len(good))])
			case 2:
				c.Values = append(c.Values, "")
			default:
				c.Values = append(c.Values, bad[r.Pick(len(bad))])
			}
		}
		// always: a valid record first and an unparsable one after it (the order the cache bug needs)
		c.Values = append([]string{good[r.Pick(len(good))]}, append(c.Values, bad[r.Pick(len(bad))])...)
		if c.Format == "csv" {
			for k, v := range c.Values {
				c.Values[k] = strings.TrimSpace(strings.NewReplacer("|", "/", "\"", "'").Replace(v))
			}
		}
		e.runSchema(c)
	}
}
