// c19: correspondence + oracle harness for property C19 (date-time functions preserve the
// instant and invert each other).
//
// The four custom functions are called as registered in customfuncs.CommonCustomFuncs.  Every
// case is a replayable description (function, arguments, expectations).  Expectations are
// computed from the generated instant with Go's own time arithmetic (time.Date, Time.In,
// time.Parse of Go's own time.Format output, math/big for the millisecond count) - that is the
// property oracle, evaluated on the implementation.  The model (Model/Time.v) gets: the abstract
// parse result (what times.SmartParse / time.Parse make of the text), the zone behaviour at the
// points the case needs (Go's time package), and the observed result.
package main

import (
	"archive/zip"
	"encoding/json"
	"fmt"
	"io/ioutil"
	"math/big"
	"os"
	"path/filepath"
	"runtime"
	"sort"
	"strconv"
	"strings"
	"time"

	"github.com/jf-tech/go-corelib/caches"
	"github.com/jf-tech/go-corelib/strs"
	"github.com/jf-tech/go-corelib/times"
	"github.com/jf-tech/omniparser/customfuncs"
	"github.com/jf-tech/omniparser/transformctx"

	"verifharness/vh"
)

const (
	minSec = int64(-62135596800) // 0001-01-01T00:00:00Z
	maxSec = int64(253402300799) // 9999-12-31T23:59:59Z
)

// ---- the functions under test, as registered ---------------------------------------------------------

var (
	fnToRFC3339 func(*transformctx.Ctx, string, string, string) (string, error)
	fnLayout    func(*transformctx.Ctx, string, string, string, string, string) (string, error)
	fnToEpoch   func(*transformctx.Ctx, string, string, string) (string, error)
	fnFromEpoch func(*transformctx.Ctx, string, string, ...string) (string, error)
)

func bindFuncs() error {
	var ok bool
	if fnToRFC3339, ok = customfuncs.CommonCustomFuncs["dateTimeToRFC3339"].(func(*transformctx.Ctx, string, string, string) (string, error)); !ok {
		return fmt.Errorf("dateTimeToRFC3339 not registered with the expected signature")
	}
	if fnLayout, ok = customfuncs.CommonCustomFuncs["dateTimeLayoutToRFC3339"].(func(*transformctx.Ctx, string, string, string, string, string) (string, error)); !ok {
		return fmt.Errorf("dateTimeLayoutToRFC3339 not registered with the expected signature")
	}
	if fnToEpoch, ok = customfuncs.CommonCustomFuncs["dateTimeToEpoch"].(func(*transformctx.Ctx, string, string, string) (string, error)); !ok {
		return fmt.Errorf("dateTimeToEpoch not registered with the expected signature")
	}
	if fnFromEpoch, ok = customfuncs.CommonCustomFuncs["epochToDateTimeRFC3339"].(func(*transformctx.Ctx, string, string, ...string) (string, error)); !ok {
		return fmt.Errorf("epochToDateTimeRFC3339 not registered with the expected signature")
	}
	return nil
}

// ---- zones -------------------------------------------------------------------------------------------------

var zoneNames = []string{
	"UTC", "America/New_York", "Europe/London", "Australia/Lord_Howe", "Asia/Kolkata", "Asia/Kathmandu",
	"Pacific/Chatham", "America/St_Johns", "Pacific/Apia", "Asia/Tokyo", "America/Sao_Paulo", "Europe/Moscow",
	"Africa/Casablanca", "America/Los_Angeles", "Pacific/Kiritimati",
	// the tz database's legacy names: fixed-offset zones that look like abbreviations (MST, HST, EST
	// never observe daylight saving), rule-only zones, and the Etc/ area with its inverted signs
	"MST", "HST", "EST", "EST5EDT", "CST6CDT", "MST7MDT", "PST8PDT", "WET", "CET", "MET", "EET", "GMT",
	"Etc/GMT+5", "Etc/GMT-14", "Etc/GMT+12", "America/Denver", "Pacific/Honolulu",
}

type zones struct {
	ids  map[string]int
	locs map[string]*time.Location
}

func newZones() *zones { return &zones{ids: map[string]int{}, locs: map[string]*time.Location{}} }

// id registers a loadable zone name and returns its model id (>= 1); 0 if it does not load.
func (z *zones) id(name string) int {
	if id, ok := z.ids[name]; ok {
		return id
	}
	loc, err := caches.GetTimeLocation(name)
	if err != nil {
		z.ids[name] = 0
		return 0
	}
	id := len(z.locs) + 1
	z.ids[name] = id
	z.locs[name] = loc
	return id
}

func offsetAt(loc *time.Location, sec int64) int64 {
	_, off := time.Unix(sec, 0).In(loc).Zone()
	return int64(off)
}

// dateIn is time.Date of the wall reading w (seconds, the reading taken as UTC) in loc.
func dateIn(loc *time.Location, w int64) int64 {
	u := time.Unix(w, 0).UTC()
	return time.Date(u.Year(), u.Month(), u.Day(), u.Hour(), u.Minute(), u.Second(), 0, loc).Unix()
}

func minuteAligned(off int64) bool { return off%60 == 0 }

// ---- case description ------------------------------------------------------------------------------------

type caseDesc struct {
	Fn       string   `json:"fn"` // rfc | layout | toepoch | fromepoch
	Datetime string   `json:"datetime,omitempty"`
	Layout   string   `json:"layout,omitempty"`
	LayoutTZ string   `json:"layout_tz,omitempty"`
	FromTZ   string   `json:"from_tz,omitempty"`
	ToTZ     string   `json:"to_tz,omitempty"`
	Unit     string   `json:"unit,omitempty"`
	Epoch    string   `json:"epoch,omitempty"`
	TZ       []string `json:"tz,omitempty"`
	// expectations (the property oracle); absent = not constrained
	ExpectInstant *int64 `json:"expect_instant,omitempty"` // Unix seconds the RFC3339 output denotes
	ExpectOffset  *int64 `json:"expect_offset,omitempty"`  // offset printed
	// the wall reading printed (as seconds) and, where the zone offset has a seconds part (F23),
	// the instant the output must denote to within that seconds part (strictly less than 60 s)
	ExpectPrintedWall *int64  `json:"expect_printed_wall,omitempty"`
	ExpectNear        *int64  `json:"expect_instant_within_60s,omitempty"`
	ExpectWall        *int64  `json:"expect_wall,omitempty"` // output without offset: its reading, as seconds
	ExpectOut         *string `json:"expect_out,omitempty"`  // exact output (epoch numbers)
	ExpectEmpty       bool    `json:"expect_empty,omitempty"`
	ExpectError       bool    `json:"expect_error,omitempty"`
	Note              string  `json:"note,omitempty"`
	// generated outside the guard "wall reading of the result within years 1..9999"
	GuardWallYear bool `json:"guard_wall_year,omitempty"`
}

func i64(v int64) *int64   { return &v }
func str(s string) *string { return &s }

type env struct {
	o         *vh.Opts
	sum       *vh.Summary
	cw        *vh.CaseWriter
	z         *zones
	verbose   bool
	skipModel bool            // evaluate the oracle only
	ianaOK    map[string]bool // zone names SmartParse accepts as a "-Area/City" suffix
}

// ---- projections -----------------------------------------------------------------------------------------

type obs struct {
	Kind string `json:"kind"` // zoned | wall | num | empty | error | unreadable
	Wall int64  `json:"wall,omitempty"`
	Off  int64  `json:"off,omitempty"`
	Num  int64  `json:"num,omitempty"`
	Text string `json:"text,omitempty"`
}

func projectRFC(out string, err error) obs {
	if err != nil {
		return obs{Kind: "error", Text: err.Error()}
	}
	if out == "" {
		return obs{Kind: "empty"}
	}
	if t, e := time.Parse(time.RFC3339, out); e == nil {
		_, off := t.Zone()
		return obs{Kind: "zoned", Wall: t.Unix() + int64(off), Off: int64(off), Text: out}
	}
	if t, e := time.ParseInLocation("2006-01-02T15:04:05", out, time.UTC); e == nil {
		return obs{Kind: "wall", Wall: t.Unix(), Text: out}
	}
	return obs{Kind: "unreadable", Text: out}
}

func projectNum(out string, err error) obs {
	if err != nil {
		return obs{Kind: "error", Text: err.Error()}
	}
	if out == "" {
		return obs{Kind: "empty"}
	}
	n, e := strconv.ParseInt(out, 10, 64)
	if e != nil {
		return obs{Kind: "unreadable", Text: out}
	}
	return obs{Kind: "num", Num: n, Text: out}
}

func (o obs) coqRFC() string {
	switch o.Kind {
	case "zoned":
		return fmt.Sprintf("(RVal (ObsZoned %s %s))", vh.CoqZ(o.Wall), vh.CoqZ(o.Off))
	case "wall":
		return fmt.Sprintf("(RVal (ObsWall %s))", vh.CoqZ(o.Wall))
	case "empty":
		return "REmpty"
	}
	return "RError"
}
func (o obs) coqNum() string {
	switch o.Kind {
	case "num":
		return fmt.Sprintf("(RVal %s)", vh.CoqZ(o.Num))
	case "empty":
		return "REmpty"
	}
	return "RError"
}

// ---- model inputs ------------------------------------------------------------------------------------------

type ztab struct {
	inst map[[2]int64]int64
	wall map[[2]int64]int64
}

func newZtab() *ztab { return &ztab{inst: map[[2]int64]int64{}, wall: map[[2]int64]int64{}} }

func coqTab(m map[[2]int64]int64) string {
	keys := make([][2]int64, 0, len(m))
	for k := range m {
		keys = append(keys, k)
	}
	sort.Slice(keys, func(i, j int) bool {
		if keys[i][0] != keys[j][0] {
			return keys[i][0] < keys[j][0]
		}
		return keys[i][1] < keys[j][1]
	})
	var xs []string
	for _, k := range keys {
		xs = append(xs, fmt.Sprintf("(%s, %s, %s)", vh.CoqN(int(k[0])), vh.CoqZ(k[1]), vh.CoqZ(m[k])))
	}
	return vh.CoqList(xs)
}

func (e *env) tzarg(s string) (string, *time.Location) {
	if s == "" {
		return "TzEmpty", nil
	}
	if !strs.IsStrNonBlank(s) {
		return "TzBlank", nil
	}
	if id := e.z.id(s); id > 0 {
		return "(TzZone " + vh.CoqN(id) + ")", e.z.locs[s]
	}
	return "TzBad", nil
}

// parseResult is the abstract parse the model starts from.
func (e *env) parseResult(datetime, layout string) (coq string, t time.Time, ok bool, loc *time.Location) {
	if datetime == "" {
		return "None", time.Time{}, false, nil
	}
	var has bool
	var err error
	if layout == "" {
		t, has, err = times.SmartParse(datetime)
	} else {
		t, err = time.Parse(layout, datetime)
	}
	if err != nil {
		return "(Some PErr)", time.Time{}, false, nil
	}
	l := "LUTC"
	name := t.Location().String()
	_, off := t.Zone()
	switch {
	case t.Location() == time.UTC:
	case name != "" && name != "Local" && e.z.id(name) > 0 && t.Location() == e.z.locs[name]:
		// the very *time.Location caches.GetTimeLocation hands out (a zone time.Parse fabricates for
		// an abbreviation has the same name but is a different location)
		l = "(LZone " + vh.CoqN(e.z.id(name)) + ")"
		loc = e.z.locs[name]
	default:
		l = "(LFixed " + vh.CoqZ(int64(off)) + ")"
	}
	return fmt.Sprintf("(Some (POk (mkG %s %s %s) %s))", vh.CoqZ(t.Unix()), vh.CoqZ(int64(t.Nanosecond())), l, vh.CoqBool(has)), t, true, loc
}

// coqUnit: the unit argument goes to the model as the string it is; Gen/DateTime.v's
// unit_of_string (extracted from the source) interprets it.
func coqUnit(u string) string { return coqString(u) }

func coqString(s string) string { return `"` + strings.ReplaceAll(s, `"`, `""`) + `"` }

// fillTables records the zone behaviour at every point the model can ask about in this case.
func (e *env) fillTables(zt *ztab, t time.Time, parsed bool, parseLoc *time.Location, locs ...*time.Location) {
	all := []*time.Location{}
	for _, l := range append(locs, parseLoc) {
		if l != nil {
			all = append(all, l)
		}
	}
	if !parsed || len(all) == 0 {
		return
	}
	_, off0 := t.Zone()
	s0 := t.Unix()
	w0 := s0 + int64(off0)
	instants := []int64{s0}
	for _, l := range all {
		id := int64(e.z.id(l.String()))
		i := dateIn(l, w0)
		zt.wall[[2]int64{id, w0}] = w0 - i
		instants = append(instants, i)
	}
	for _, l := range all {
		id := int64(e.z.id(l.String()))
		for _, s := range instants {
			zt.inst[[2]int64{id, s}] = offsetAt(l, s)
		}
	}
}

// ---- running one case -----------------------------------------------------------------------------------

func (e *env) run(d caseDesc, nontrivial bool) {
	vh.Current(e.o, d)
	var o obs
	var term string
	func() {
		defer func() {
			if r := recover(); r != nil {
				o = obs{Kind: "panic", Text: fmt.Sprint(r)}
			}
		}()
		zt := newZtab()
		switch d.Fn {
		case "rfc", "layout":
			var out string
			var err error
			if d.Fn == "rfc" {
				out, err = fnToRFC3339(nil, d.Datetime, d.FromTZ, d.ToTZ)
			} else {
				out, err = fnLayout(nil, d.Datetime, d.Layout, d.LayoutTZ, d.FromTZ, d.ToTZ)
			}
			o = projectRFC(out, err)
			layout := ""
			if d.Fn == "layout" {
				layout = d.Layout
			}
			dt, t, ok, ploc := e.parseResult(d.Datetime, layout)
			f, floc := e.tzarg(d.FromTZ)
			to, tloc := e.tzarg(d.ToTZ)
			e.fillTables(zt, t, ok, ploc, floc, tloc)
			if d.Fn == "rfc" {
				term = fmt.Sprintf("RfcCase %s %s %s %s %s %s", coqTab(zt.inst), coqTab(zt.wall), dt, f, to, o.coqRFC())
			} else {
				ltz := "LtzBad"
				if d.LayoutTZ == "" {
					ltz = "LtzEmpty"
				} else if b, err := strconv.ParseBool(d.LayoutTZ); err == nil {
					ltz = "(LtzBool " + vh.CoqBool(b) + ")"
				}
				term = fmt.Sprintf("LayoutCase %s %s %s %s %s %s %s %s", coqTab(zt.inst), coqTab(zt.wall), dt, vh.CoqBool(d.Layout == ""), ltz, f, to, o.coqRFC())
			}
		case "toepoch":
			out, err := fnToEpoch(nil, d.Datetime, d.FromTZ, d.Unit)
			o = projectNum(out, err)
			dt, t, ok, ploc := e.parseResult(d.Datetime, "")
			f, floc := e.tzarg(d.FromTZ)
			e.fillTables(zt, t, ok, ploc, floc)
			term = fmt.Sprintf("ToEpochCase %s %s %s %s %s %s", coqTab(zt.inst), coqTab(zt.wall), dt, f, coqUnit(d.Unit), o.coqNum())
		case "fromepoch":
			out, err := fnFromEpoch(nil, d.Epoch, d.Unit, d.TZ...)
			o = projectRFC(out, err)
			ep := "None"
			var n int64
			var nok bool
			if d.Epoch != "" {
				if v, err := strconv.ParseInt(d.Epoch, 10, 64); err == nil {
					ep, n, nok = "(Some (Some "+vh.CoqZ(v)+"))", v, true
				} else {
					ep = "(Some None)"
				}
			}
			var tzs []string
			for _, name := range d.TZ {
				if id := e.z.id(name); id > 0 {
					tzs = append(tzs, "(Some "+vh.CoqN(id)+")")
					if nok {
						s := n
						if d.Unit == "MILLISECOND" {
							s = floorDiv(n, 1000)
						}
						zt.inst[[2]int64{int64(id), s}] = offsetAt(e.z.locs[name], s)
					}
				} else {
					tzs = append(tzs, "None")
				}
			}
			term = fmt.Sprintf("FromEpochCase %s %s %s %s %s", coqTab(zt.inst), ep, coqUnit(d.Unit), vh.CoqList(tzs), o.coqRFC())
		}
	}()
	if e.verbose {
		b, _ := json.Marshal(d)
		fmt.Printf("case %s\n  observed: %+v\n", b, o)
	}
	e.sum.Hist("fn:" + d.Fn)
	e.sum.Hist("result:" + o.Kind)
	canon, _ := json.Marshal(d)
	e.sum.Count(string(canon), nontrivial)
	// ---- the oracle ----
	fail := func(what string) {
		e.sum.Fail(what, d, o)
	}
	switch {
	case o.Kind == "panic":
		fail("the function panicked")
	case o.Kind == "unreadable" && (d.GuardWallYear || yearOverflowText(o.Text) && d.ExpectInstant == nil && d.ExpectOffset == nil && d.ExpectWall == nil && d.ExpectNear == nil):
		// outside the guard of the known finding "year 10000": nothing to compare
		e.sum.Hist("guarded:output-year-outside-0000-9999")
	case o.Kind == "unreadable":
		fail("the output is neither an RFC3339 date-time, a zone-less date-time nor a number")
	case d.ExpectEmpty && o.Kind != "empty":
		fail("empty input did not yield empty output")
	case d.ExpectError && o.Kind != "error":
		fail("unparsable / invalid input did not yield an error")
	case d.ExpectInstant != nil && (o.Kind != "zoned" || o.Wall-o.Off != *d.ExpectInstant):
		fail("the output does not denote the input instant")
	case d.ExpectOffset != nil && (o.Kind != "zoned" || o.Off != *d.ExpectOffset):
		fail("the output is not in the requested zone (printed offset differs from Go's own RFC3339 text: sign, hours or minutes)")
	case d.ExpectPrintedWall != nil && (o.Kind != "zoned" || o.Wall != *d.ExpectPrintedWall):
		fail("the wall-clock reading printed is not the instant's reading in the requested zone")
	case d.ExpectNear != nil && (o.Kind != "zoned" || o.Wall-o.Off-*d.ExpectNear >= 60 || o.Wall-o.Off-*d.ExpectNear <= -60):
		fail("the output denotes an instant 60 s or more away from the input instant (more than the seconds part of the zone offset)")
	case d.ExpectWall != nil && (o.Kind != "wall" || o.Wall != *d.ExpectWall):
		fail("zone-less input did not keep its wall-clock reading (or an offset was printed)")
	case d.ExpectOut != nil && o.Text != *d.ExpectOut:
		fail("the epoch number is not the Unix time of the instant in the requested unit")
	}
	if term != "" && o.Kind != "panic" && o.Kind != "unreadable" && !e.skipModel {
		e.cw.Add(term, d)
	}
	if nontrivial {
		e.sum.Sample(map[string]interface{}{"case": d, "observed": o})
	}
}

// yearOverflowText: RFC3339-shaped text whose year has five digits (wall reading in year 10000).
func yearOverflowText(s string) bool {
	return len(s) > 6 && strings.HasPrefix(s, "10000-")
}

func floorDiv(a, b int64) int64 {
	q := a / b
	if a%b != 0 && (a < 0) != (b < 0) {
		q--
	}
	return q
}

// ---- generators ----------------------------------------------------------------------------------------

type layoutSpec struct {
	Fmt  string // Go layout the harness renders the instant with (Go's own time.Format)
	Base string // Fmt without its zone part
	Off  string // the offset part of Fmt (TZ == "off")
	TZ   string // "", "Z", "off", "iana"
	Date bool   // date only
	YY   bool   // two-digit year
}

var dateLayouts = []string{"2006-01-02", "01-02-2006", "2006/01/02", "01/02/2006", "1/02/2006", "1/2/2006", "01/2/2006", "01/02/06", "20060102"}

func fracs(base, suffix string) []string {
	out := []string{base + suffix}
	for n := 1; n <= 9; n++ {
		out = append(out, base+"."+strings.Repeat("0", n)+suffix)
	}
	return out
}

func timeLayouts() []string {
	var ls []string
	ls = append(ls, fracs("15:04:05", "")...)
	ls = append(ls, "15:04", "150405", "1504")
	for _, ap := range []string{" PM", "PM"} {
		ls = append(ls, fracs("03:04:05", ap)...)
		ls = append(ls, "03:04"+ap, "030405"+ap, "0304"+ap)
	}
	return ls
}

var offLayouts = []string{"-07", "-0700", "-07:00", " -07", " -0700", " -07:00"}

// allLayouts enumerates everything times.SmartParse advertises (its pattern table rebuilt from
// the documented pieces): 9 dates x {date only | delimiter x time x {none, Z, 6 offset forms}},
// and the "-Area/City" suffix on every zone-less form.
func allLayouts() []layoutSpec {
	var out []layoutSpec
	tls := timeLayouts()
	for _, dl := range dateLayouts {
		yy := dl == "01/02/06"
		out = append(out, layoutSpec{Fmt: dl, Base: dl, Date: true, YY: yy}, layoutSpec{Fmt: dl, Base: dl, Date: true, YY: yy, TZ: "iana"})
		delims := []string{"T", " "}
		if dl == "20060102" {
			delims = append(delims, "")
		}
		for _, dd := range delims {
			for _, tl := range tls {
				base := dl + dd + tl
				out = append(out, layoutSpec{Fmt: base, Base: base, YY: yy}, layoutSpec{Fmt: base, Base: base, YY: yy, TZ: "iana"},
					layoutSpec{Fmt: base + "Z", Base: base, YY: yy, TZ: "Z"})
				for _, ol := range offLayouts {
					out = append(out, layoutSpec{Fmt: base + ol, Base: base, Off: ol, YY: yy, TZ: "off"})
				}
			}
		}
	}
	return out
}

// knownRejected: advertised forms the pattern table of go-corelib v0.0.14 lacks (its " PM" group
// has no 4-digit fraction entry).  They must fail with an error - never give a different time.
func knownRejected(l layoutSpec) bool {
	return strings.Contains(l.Fmt, "03:04:05.0000 PM")
}

// ---- the installed zone database: eras with an offset strictly between -01:00 and 00:00 -------------

func listZoneNames() []string {
	seen := map[string]bool{}
	var names []string
	add := func(n string) {
		n = filepath.ToSlash(n)
		if seen[n] || !strings.Contains(n, "/") || strings.HasPrefix(n, "posix/") || strings.HasPrefix(n, "right/") ||
			strings.HasPrefix(n, "Etc/") || n[0] < 'A' || n[0] > 'Z' || strings.Contains(n, ".") {
			return
		}
		seen[n] = true
		names = append(names, n)
	}
	for _, dir := range []string{os.Getenv("ZONEINFO"), "/usr/share/zoneinfo", "/usr/share/lib/zoneinfo", "/usr/lib/locale/TZ"} {
		if st, err := os.Stat(dir); dir == "" || err != nil || !st.IsDir() {
			continue
		}
		_ = filepath.Walk(dir, func(p string, info os.FileInfo, err error) error {
			if err == nil && info.Mode().IsRegular() {
				if rel, e := filepath.Rel(dir, p); e == nil {
					add(rel)
				}
			}
			return nil
		})
		if len(names) > 0 {
			break
		}
	}
	if len(names) == 0 {
		if zr, err := zip.OpenReader(filepath.Join(runtime.GOROOT(), "lib", "time", "zoneinfo.zip")); err == nil {
			for _, f := range zr.File {
				add(f.Name)
			}
			zr.Close()
		}
	}
	for _, n := range []string{"Africa/Monrovia", "Europe/Lisbon", "Africa/Abidjan", "Europe/Dublin", "Atlantic/Reykjavik", "Africa/Freetown", "Africa/Accra", "Africa/Bamako"} {
		add(n)
	}
	sort.Strings(names)
	return names
}

type era struct {
	Zone       string
	Start, End int64 // instants [Start, End) in which Off is in force
	Off        int64
}

// negSubHourEras: for every loadable zone, the periods in which its offset lies strictly between
// -3600 and 0 (all of them local-mean-time style offsets; most have a seconds part).  One era per
// distinct (offset, period); link names of the same zone are dropped.
func negSubHourEras(names []string) []era {
	lo := time.Date(1800, 1, 1, 0, 0, 0, 0, time.UTC).Unix()
	hi := time.Date(2100, 1, 1, 0, 0, 0, 0, time.UTC).Unix()
	seen := map[[3]int64]bool{}
	var out []era
	for _, n := range names {
		loc, err := time.LoadLocation(n)
		if err != nil {
			continue
		}
		t := time.Unix(lo, 0).In(loc)
		for step := 0; step < 400; step++ {
			_, off := t.Zone()
			start, end := t.ZoneBounds()
			s, e := lo, hi
			if !start.IsZero() && start.Unix() > s {
				s = start.Unix()
			}
			if !end.IsZero() && end.Unix() < e {
				e = end.Unix()
			}
			if off > -3600 && off < 0 && e > s {
				k := [3]int64{int64(off), s, e}
				if !seen[k] {
					seen[k] = true
					out = append(out, era{Zone: n, Start: s, End: e, Off: int64(off)})
				}
			}
			if end.IsZero() || end.Unix() >= hi {
				break
			}
			t = end
		}
	}
	return out
}

type instantGen struct {
	r     *vh.Rng
	trans map[string][]int64 // zone -> transition instants
}

func (g *instantGen) transitions(loc *time.Location) []int64 {
	if ts, ok := g.trans[loc.String()]; ok {
		return ts
	}
	var ts []int64
	for _, y := range []int{1919, 1945, 1974, 1987, 2007, 2011, 2021, 2036} {
		t := time.Date(y, 1, 1, 0, 0, 0, 0, time.UTC).In(loc)
		for k := 0; k < 3; k++ {
			_, end := t.ZoneBounds()
			if end.IsZero() {
				break
			}
			ts = append(ts, end.Unix())
			t = end
		}
	}
	g.trans[loc.String()] = ts
	return ts
}

var sentinels = []string{
	"0001-01-01T00:00:00Z", "0001-01-01T00:00:01Z", "0001-12-31T23:59:59Z", "9999-12-31T23:59:59Z", "9999-12-31T00:00:00Z",
	"9999-01-01T00:00:00Z", "1677-09-21T00:12:43Z", "1677-09-21T00:12:44Z", "2262-04-11T23:47:16Z", "2262-04-11T23:47:17Z",
	"1969-12-31T23:59:59Z", "1970-01-01T00:00:00Z", "2038-01-19T03:14:07Z", "2038-01-19T03:14:08Z", "1901-12-13T20:45:52Z",
	"1582-10-04T12:00:00Z", "1582-10-15T12:00:00Z", "1752-09-02T12:00:00Z", "1900-02-28T23:59:59Z", "1900-03-01T00:00:00Z",
	"2000-02-29T12:00:00Z", "2020-02-29T23:59:59Z", "1600-02-29T00:00:00Z", "0004-02-29T06:00:00Z", "9996-02-29T18:30:00Z",
	"2016-12-31T23:59:59Z", "2100-02-28T23:59:59Z", "2400-02-29T00:00:00Z",
}

// instant returns a generated instant (Unix sec, nsec) and its class (for the histogram).
func (g *instantGen) instant(loc *time.Location) (time.Time, string) {
	r := g.r
	nsec := int64(0)
	switch r.Pick(5) {
	case 0:
		nsec = int64(r.Intn(1000000000))
	case 1:
		nsec = int64(r.Intn(1000)) * 1000000
	case 2:
		nsec = []int64{1, 999999, 1000000, 499999999, 500000000, 999000000, 999999999}[r.Pick(7)]
	}
	switch k := r.Pick(10); {
	case k < 4:
		return time.Unix(minSec+r.Int63n(maxSec-minSec+1), nsec).UTC(), "uniform-years-1-9999"
	case k < 6:
		return time.Unix(-2208988800+r.Int63n(2*2208988800+2145916800), nsec).UTC(), "years-1900-2100"
	case k < 8 && loc != nil:
		ts := g.transitions(loc)
		if len(ts) > 0 {
			d := []int64{-3601, -3600, -1801, -1, 0, 1, 1799, 3599, 3600}[r.Pick(9)]
			return time.Unix(ts[r.Pick(len(ts))]+d, nsec).UTC(), "dst-transition"
		}
		fallthrough
	case k < 9:
		t, _ := time.Parse(time.RFC3339, sentinels[r.Pick(len(sentinels))])
		return t.Add(time.Duration(nsec)), "sentinel-or-leap-day"
	default:
		y := []int{4, 400, 1600, 1996, 2000, 2024, 2400, 9996}[r.Pick(8)]
		return time.Date(y, 2, 29, r.Intn(24), r.Intn(60), r.Intn(60), int(nsec), time.UTC), "leap-day"
	}
}

func yearOK(t time.Time) bool { return t.Year() >= 1 && t.Year() <= 9999 }

// rfcCase renders instant t with layout l (source zone src for offset / iana forms and for the
// reading of zone-less forms) and computes what the property demands of DateTimeToRFC3339.
func (e *env) rfcCase(t time.Time, l layoutSpec, src, from, to string) (caseDesc, bool, string) {
	var srcLoc *time.Location
	if strings.HasPrefix(src, "fixed:") {
		// a numeric offset carried by the text itself (only meaningful for the offset forms)
		sec, _ := strconv.Atoi(src[6:])
		srcLoc = time.FixedZone("", sec)
	} else if srcLoc = e.z.locs[src]; srcLoc == nil {
		e.z.id(src)
		srcLoc = e.z.locs[src]
	}
	shown := t.In(srcLoc)
	if l.TZ == "Z" {
		shown = t.UTC()
	}
	_, srcOff := shown.Zone()
	if l.TZ == "off" {
		// the printed offset must be exact: whole hours for -07, whole minutes otherwise
		hoursOnly := strings.TrimSpace(l.Off) == "-07"
		if srcOff%60 != 0 || (hoursOnly && srcOff%3600 != 0) {
			shown = t.UTC()
			srcOff = 0
		}
	}
	if !yearOK(shown) || (l.YY && (shown.Year() < 1969 || shown.Year() > 2068)) {
		return caseDesc{}, false, ""
	}
	text := shown.Format(l.Fmt)
	if l.TZ == "iana" {
		text += "-" + src
	}
	d := caseDesc{Fn: "rfc", Datetime: text, FromTZ: from, ToTZ: to}
	// the reading as printed (fields the layout drops are gone), by Go's parse of Go's format
	rd, err := time.ParseInLocation(l.Base, shown.Format(l.Base), time.UTC)
	if err != nil {
		return caseDesc{}, false, ""
	}
	w := rd.Unix()
	fromLoc, toLoc := e.z.locs[from], e.z.locs[to]
	var inst int64
	var outLoc *time.Location
	hasZone := l.TZ != ""
	switch {
	case l.TZ == "Z":
		inst, outLoc = w, time.UTC
	case l.TZ == "off":
		inst, outLoc = w-int64(srcOff), time.FixedZone("", srcOff)
	case l.TZ == "iana":
		inst, outLoc = dateIn(srcLoc, w), srcLoc
	case from != "":
		inst, outLoc, hasZone = dateIn(fromLoc, w), fromLoc, true
	case to != "":
		inst, outLoc, hasZone = dateIn(toLoc, w), toLoc, true
	}
	if !hasZone {
		d.ExpectWall = i64(w)
		return d, true, "no-zone-anywhere"
	}
	if to != "" {
		outLoc = toLoc
	}
	class := "zone-in-input"
	if l.TZ == "" {
		class = "zone-from-argument"
	}
	class += expectZoned(&d, inst, outLoc)
	return d, true, class
}

// expectZoned states what the property demands of an RFC3339 result that must denote instant
// inst in outLoc.  Where the zone offset is a whole number of minutes: exactly that instant,
// that offset.  Where it has a seconds part (known finding F23: RFC3339 text cannot carry it):
// the text must still be Go's own t.In(loc).Format(time.RFC3339) - wall reading, sign, hours and
// minutes of the offset - so the instant it denotes is off by the seconds part only (< 60 s).
func expectZoned(d *caseDesc, inst int64, outLoc *time.Location) string {
	shown := time.Unix(inst, 0).In(outLoc)
	if !yearOK(shown) {
		d.Note = "guard: wall reading in the output zone outside years 1..9999 (not RFC3339 text)"
		d.GuardWallYear = true
		return "/guarded-wall-year"
	}
	back, err := time.Parse(time.RFC3339, shown.Format(time.RFC3339))
	if err != nil {
		return "/go-cannot-read-its-own-text"
	}
	_, poff := back.Zone()
	d.ExpectPrintedWall, d.ExpectOffset = i64(back.Unix()+int64(poff)), i64(int64(poff))
	if minuteAligned(offsetAt(outLoc, inst)) {
		d.ExpectInstant = i64(inst)
		return ""
	}
	d.ExpectNear = i64(inst)
	d.Note = "zone offset has a seconds part (F23): text must be Go's own, instant within the seconds part"
	return "/subminute-offset"
}

func bigMillis(t time.Time) string {
	n := new(big.Int).Mul(big.NewInt(t.Unix()), big.NewInt(1000000000))
	n.Add(n, big.NewInt(int64(t.Nanosecond())))
	q := new(big.Int)
	q.Div(n, big.NewInt(1000000)) // Euclidean = floor for a positive divisor
	return q.String()
}

func main() {
	o := vh.ParseOpts()
	r := vh.NewRng(o.Seed)
	sum := vh.NewSummary("C19", o,
		"calls of the four date-time custom functions on texts rendered by Go's time.Format from generated instants (uniform over years 1..9999, DST transitions of IANA zones, leap days, sentinels) x every form times.SmartParse advertises x from/to zones x both epoch units; non-trivial = the call involves a zone conversion/binding, a fraction of a second, or an instant outside 1970..2038; distinct by the full argument tuple")
	cw := vh.NewCaseWriter(o, "C19", "Model.Time", "c19case", "check_case")
	e := &env{o: o, sum: sum, cw: cw, z: newZones()}
	if err := bindFuncs(); err != nil {
		sum.Fail(err.Error(), caseDesc{Fn: "registry"}, nil)
		sum.Write(o)
		return
	}
	for _, n := range zoneNames {
		if e.z.id(n) == 0 {
			fmt.Fprintln(os.Stderr, "zone not loadable:", n)
			os.Exit(2)
		}
	}
	e.ianaOK = map[string]bool{}
	var ianaNames []string
	for _, n := range zoneNames {
		if _, tz, err := times.SmartParse("2020-06-01T00:00:00-" + n); err == nil && tz {
			e.ianaOK[n] = true
			ianaNames = append(ianaNames, n)
		}
	}
	sum.Extra["zones"] = zoneNames
	sum.Extra["zones_accepted_as_suffix"] = ianaNames
	if o.Replay != "" {
		e.verbose = true
		e.replayFile(o.Replay, false)
		cw.Flush()
		sum.CaseFiles = cw.Files
		sum.Write(o)
		return
	}
	if o.Corpus != "" {
		files, _ := ioutil.ReadDir(o.Corpus)
		for _, f := range files {
			if strings.HasSuffix(f.Name(), ".json") {
				e.replayFile(o.Corpus+"/"+f.Name(), true)
			}
		}
	}
	g := &instantGen{r: r, trans: map[string][]int64{}}
	layouts := allLayouts()
	sum.Extra["smartparse_forms_enumerated"] = len(layouts)
	pickZone := func() string { return zoneNames[r.Pick(len(zoneNames))] }
	optZone := func() string {
		if r.Chance(0.45) {
			return ""
		}
		return pickZone()
	}
	nontrivialT := func(t time.Time) bool { return t.Nanosecond() != 0 || t.Unix() < 0 || t.Unix() > 2145916800 }

	// 1. every advertised form, once each on its own instant (oracle + model on a sample)
	formsSeen := map[string]bool{}
	for li, l := range layouts {
		src := pickZone()
		if l.TZ == "iana" {
			src = ianaNames[r.Pick(len(ianaNames))]
		}
		t, class := g.instant(e.z.locs[src])
		from, to := optZone(), optZone()
		d, ok, cls := e.rfcCase(t, l, src, from, to)
		if !ok {
			// e.g. two-digit year outside 1969..2068: retry on a modern instant
			t = time.Unix(r.Int63n(2145916800), int64(r.Intn(1000))*1000000).UTC()
			d, ok, cls = e.rfcCase(t, l, src, from, to)
			class = "years-1970-2038"
		}
		if !ok {
			continue
		}
		if knownRejected(l) {
			d.ExpectInstant, d.ExpectOffset, d.ExpectWall, d.ExpectPrintedWall, d.ExpectNear = nil, nil, nil, nil, nil
			d.Note = "form advertised by SmartParse's doc comment but absent from its pattern table (go-corelib v0.0.14)"
			sum.Hist("form:advertised-but-rejected-by-table")
		}
		sum.Hist("instant:" + class)
		sum.Hist("rfc:" + cls)
		formsSeen[l.Fmt+"|"+l.TZ] = true
		// the model is evaluated on every 4th form here (all pieces recur); the oracle on all
		if li%4 == int(o.Seed%4) {
			e.run(d, true)
		} else {
			e.runOracleOnly(d)
		}
	}
	sum.Extra["smartparse_forms_exercised"] = len(formsSeen)

	// 2. random instants x random forms x from/to zones
	n2 := o.Count(1800, 50000)
	for i := 0; i < n2; i++ {
		src := pickZone()
		t, class := g.instant(e.z.locs[src])
		l := layouts[r.Pick(len(layouts))]
		if r.Chance(0.3) {
			// full precision, numeric offset: nothing is lost in the text
			l = layoutSpec{Fmt: "2006-01-02T15:04:05.000000000-07:00", Base: "2006-01-02T15:04:05.000000000", Off: "-07:00", TZ: "off"}
		}
		if l.TZ == "iana" {
			src = ianaNames[r.Pick(len(ianaNames))]
		}
		d, ok, cls := e.rfcCase(t, l, src, optZone(), optZone())
		if !ok || knownRejected(l) {
			continue
		}
		sum.Hist("instant:" + class)
		sum.Hist("rfc:" + cls)
		e.run(d, d.FromTZ != "" || d.ToTZ != "" || l.TZ != "" || nontrivialT(t))
	}

	// 2b. zones and eras whose offset lies strictly between -01:00 and 00:00 (found by scanning the
	// installed zone database), and numeric offsets of that kind carried by the text itself: the
	// sign of the printed offset is carried by the minutes alone there
	eras := negSubHourEras(listZoneNames())
	var eraNames []string
	for _, er := range eras {
		eraNames = append(eraNames, fmt.Sprintf("%s %+ds", er.Zone, er.Off))
	}
	sum.Extra["negative_sub_hour_eras_in_zone_database"] = eraNames
	maxEras := o.Count(14, 60)
	stepE := 1
	if len(eras) > maxEras {
		stepE = (len(eras) + maxEras - 1) / maxEras
	}
	for ei := int(o.Seed) % stepE; ei < len(eras); ei += stepE {
		er := eras[ei]
		if e.z.id(er.Zone) == 0 {
			continue
		}
		loc := e.z.locs[er.Zone]
		for k := 0; k < o.Count(8, 60); k++ {
			sec := er.Start + r.Int63n(er.End-er.Start)
			switch k {
			case 0:
				sec = er.End - 1
			case 1:
				sec = er.Start
			}
			t := time.Unix(sec, int64(r.Intn(1000))*1000000).UTC()
			sum.Hist("instant:negative-sub-hour-offset-era")
			// zone in the text (Z), shown in the zone
			d := caseDesc{Fn: "rfc", Datetime: t.Format("2006-01-02T15:04:05.000Z"), ToTZ: er.Zone}
			sum.Hist("rfc:neg-sub-hour/to" + expectZoned(&d, sec, loc))
			e.run(d, true)
			// zone-less reading bound to the zone
			shown := t.In(loc)
			rd, _ := time.ParseInLocation("2006-01-02T15:04:05", shown.Format("2006-01-02T15:04:05"), time.UTC)
			d = caseDesc{Fn: "rfc", Datetime: shown.Format("2006-01-02 15:04:05"), FromTZ: er.Zone}
			sum.Hist("rfc:neg-sub-hour/from" + expectZoned(&d, dateIn(loc, rd.Unix()), loc))
			e.run(d, true)
			if _, tz, err := times.SmartParse("2020-06-01T00:00:00-" + er.Zone); err == nil && tz {
				d = caseDesc{Fn: "rfc", Datetime: shown.Format("01/02/2006 15:04:05") + "-" + er.Zone}
				sum.Hist("rfc:neg-sub-hour/suffix" + expectZoned(&d, dateIn(loc, rd.Unix()), loc))
				e.run(d, true)
			}
			d = caseDesc{Fn: "layout", Datetime: t.Format(time.RFC3339Nano), Layout: time.RFC3339Nano, LayoutTZ: "true", ToTZ: er.Zone}
			expectZoned(&d, sec, loc)
			e.run(d, true)
			unit := []string{"SECOND", "MILLISECOND"}[k%2]
			n := sec
			if unit == "MILLISECOND" {
				n = sec*1000 + int64(t.Nanosecond()/1000000)
			}
			d = caseDesc{Fn: "fromepoch", Epoch: strconv.FormatInt(n, 10), Unit: unit, TZ: []string{er.Zone}}
			sum.Hist("fromepoch:neg-sub-hour" + expectZoned(&d, sec, loc))
			e.run(d, true)
		}
	}
	// numeric offsets in the text, kept in the output (no toTZ) or converted
	fixedOffs := []int{-1800, -60, -3540, -2640, -2700, -900, 1800, 60, 3540, -3600, 3600, -5400, 5400, -34200, 45900, -43200, 50400, 0}
	offForms := []layoutSpec{}
	for _, l := range layouts {
		if l.TZ == "off" && strings.TrimSpace(l.Off) != "-07" && !knownRejected(l) {
			offForms = append(offForms, l)
		}
	}
	for i := 0; i < o.Count(360, 20000); i++ {
		off := fixedOffs[i%len(fixedOffs)]
		if i >= 2*len(fixedOffs) && r.Chance(0.5) {
			off = (r.Intn(28*60+1) - 14*60) * 60
		}
		t, class := g.instant(nil)
		to := ""
		if r.Chance(0.3) {
			to = pickZone()
		}
		d, ok, cls := e.rfcCase(t, offForms[r.Pick(len(offForms))], fmt.Sprintf("fixed:%d", off), optZone(), to)
		if !ok {
			continue
		}
		sum.Hist("instant:" + class)
		sum.Hist("rfc:numeric-offset-in-text/" + cls)
		if off > -3600 && off < 0 {
			sum.Hist("rfc:numeric-offset-between--01:00-and-00:00")
		}
		e.run(d, true)
	}

	// 3. epoch: instant -> number -> text, both units, every instant class
	n3 := o.Count(1200, 30000)
	for i := 0; i < n3; i++ {
		zn := pickZone()
		t, class := g.instant(e.z.locs[zn])
		sum.Hist("instant:" + class)
		unit := []string{"SECOND", "MILLISECOND"}[r.Pick(2)]
		text := t.UTC().Format("2006-01-02T15:04:05.000000000Z")
		from := ""
		if r.Chance(0.3) {
			from = pickZone() // ignored: the text has a zone
		}
		if r.Chance(0.25) {
			shown := t.In(e.z.locs[zn])
			if _, off := shown.Zone(); off%60 == 0 && yearOK(shown) {
				text = shown.Format("2006-01-02T15:04:05.000000000-07:00")
			}
		}
		want := strconv.FormatInt(t.Unix(), 10)
		if unit == "MILLISECOND" {
			want = bigMillis(t)
		}
		e.run(caseDesc{Fn: "toepoch", Datetime: text, FromTZ: from, Unit: unit, ExpectOut: str(want)}, true)
		// and back
		back := caseDesc{Fn: "fromepoch", Epoch: want, Unit: unit}
		outLoc := time.UTC
		if r.Chance(0.6) {
			back.TZ = []string{zn}
			outLoc = e.z.locs[zn]
		}
		sum.Hist("fromepoch" + expectZoned(&back, t.Unix(), outLoc))
		e.run(back, true)
	}
	// zone-less text bound by fromTZ, then to epoch
	for i := 0; i < o.Count(300, 8000); i++ {
		zn := pickZone()
		t, _ := g.instant(e.z.locs[zn])
		shown := t.In(e.z.locs[zn])
		if !yearOK(shown) {
			continue
		}
		text := shown.Format("2006-01-02T15:04:05.000")
		rd, _ := time.ParseInLocation("2006-01-02T15:04:05.000", text, time.UTC)
		inst := dateIn(e.z.locs[zn], rd.Unix())
		unit := []string{"SECOND", "MILLISECOND"}[r.Pick(2)]
		want := strconv.FormatInt(inst, 10)
		if unit == "MILLISECOND" {
			want = bigMillis(time.Unix(inst, int64(rd.Nanosecond())))
		}
		e.run(caseDesc{Fn: "toepoch", Datetime: text, FromTZ: zn, Unit: unit, ExpectOut: str(want)}, true)
	}
	// raw numbers (negative, with and without a millisecond remainder)
	for i := 0; i < o.Count(400, 12000); i++ {
		unit := []string{"SECOND", "MILLISECOND"}[r.Pick(2)]
		sec := minSec + r.Int63n(maxSec-minSec+1)
		if r.Chance(0.4) {
			sec = -r.Int63n(4000000000)
		}
		n := sec
		if unit == "MILLISECOND" {
			n = sec*1000 + int64(r.Intn(1000))
			if r.Chance(0.3) {
				n = sec * 1000
			}
			sec = floorDiv(n, 1000)
		}
		d := caseDesc{Fn: "fromepoch", Epoch: strconv.FormatInt(n, 10), Unit: unit}
		outLoc := time.UTC
		if r.Chance(0.5) {
			zn := pickZone()
			d.TZ, outLoc = []string{zn}, e.z.locs[zn]
		}
		sum.Hist("fromepoch" + expectZoned(&d, sec, outLoc))
		e.run(d, true)
	}

	// 4. explicit layouts.  What the function documents: the text is read by time.Parse(layout,
	// text) - so a zone ABBREVIATION (layout element MST) denotes whatever Go's time.Parse makes of
	// it in this process (offset 0 unless the process's Local zone knows it), independent of
	// fromTZ/toTZ; layoutTZ alone says whether that reading carries a zone (then fromTZ is ignored)
	// or is a bare wall-clock reading (then fromTZ, else toTZ, binds it - even if the layout had
	// an offset in it).
	expl := []struct {
		layout string
		zone   string // "", "num", "abbr"
	}{
		{time.RFC3339Nano, "num"}, {time.RFC1123Z, "num"}, {"2006-01-02 15:04:05 -0700", "num"}, {"02/01/2006 15:04:05.000 -07:00", "num"},
		{"Jan _2 2006 15:04:05", ""}, {"2006-01-02T15:04:05.000", ""}, {"Monday, 02-Jan-2006 15:04", ""}, {time.ANSIC, ""},
		{"2006-01-02 15:04:05 MST", "abbr"}, {time.RFC1123, "abbr"}, {time.UnixDate, "abbr"}, {"Jan 2, 2006 at 3:04pm (MST)", "abbr"},
		{"2006-01-02 15:04:05 -0700 MST", "abbr"}, {"02 Jan 2006 15:04 MST", "abbr"},
	}
	for i := 0; i < o.Count(400, 12000); i++ {
		x := expl[r.Pick(len(expl))]
		src := pickZone()
		t, class := g.instant(e.z.locs[src])
		if x.zone == "abbr" && r.Chance(0.5) {
			// the modern era, where zones have letter abbreviations (EST, EDT, JST, BST, IST ...)
			t = time.Unix(r.Int63n(2145916800), 0).UTC()
			class = "years-1970-2038"
		}
		shown := t.In(e.z.locs[src])
		if _, off := shown.Zone(); off%60 != 0 {
			shown = t.UTC()
		}
		if !yearOK(shown) {
			continue
		}
		text := shown.Format(x.layout)
		rd, err := time.Parse(x.layout, text) // the documented reading of the text
		if err != nil {
			continue
		}
		sum.Hist("instant:" + class)
		sum.Hist("layout:zone-in-layout=" + map[string]string{"": "none", "num": "numeric", "abbr": "abbreviation"}[x.zone])
		from, to := optZone(), optZone()
		if x.zone != "" && r.Chance(0.4) {
			from = src // the zone whose abbreviation / offset the text carries
		}
		// the same (text, layout) is called under both flag values in one process, in either order,
		// and the first once more: every call is judged as if it were made alone
		flags := [][]string{{"true", "false", "true"}, {"false", "true", "false"}, {"", "T", "0"}, {"T", ""}, {"0", "true"}}[r.Pick(5)]
		sum.Hist(fmt.Sprintf("layout:sequence-same-text-%d-flags", len(flags)))
		for _, flag := range flags {
			d := caseDesc{Fn: "layout", Datetime: text, Layout: x.layout, LayoutTZ: flag, FromTZ: from, ToTZ: to}
			fb, _ := strconv.ParseBool(flag)
			_, rdOff := rd.Zone()
			wall := rd.Unix() + int64(rdOff)
			switch {
			case fb:
				// the reading carries its zone: the instant time.Parse gives, whatever fromTZ is
				outLoc := rd.Location()
				if to != "" {
					outLoc = e.z.locs[to]
				}
				sum.Hist("layout:flag=true" + expectZoned(&d, rd.Unix(), outLoc))
			case from == "" && to == "":
				d.ExpectWall = i64(wall)
				sum.Hist("layout:flag=false/no-zone-arguments")
			default:
				bind := from
				if bind == "" {
					bind = to
				}
				inst := dateIn(e.z.locs[bind], wall)
				outLoc := e.z.locs[bind]
				if to != "" {
					outLoc = e.z.locs[to]
				}
				sum.Hist("layout:flag=false/bound" + expectZoned(&d, inst, outLoc))
			}
			e.run(d, true)
		}
	}

	// 4b. the functions called through schemas (lenient / strict twins, templates)
	e.schemaStream(r, o.Count(216, 6000))

	// 5. empty and invalid inputs
	bads := []string{"not a date", "2020-13-01", "2020-02-30T00:00:00Z", "12:34:56", "2020-01-01T25:00:00", "20200101T1234567", "2021-02-29", "1/1/20 10:00", "2020-01-01T00:00:00+25:00x"}
	for _, from := range []string{"", "America/New_York", " "} {
		for _, to := range []string{"", "Asia/Tokyo"} {
			e.run(caseDesc{Fn: "rfc", Datetime: "", FromTZ: from, ToTZ: to, ExpectEmpty: true}, false)
			e.run(caseDesc{Fn: "layout", Datetime: "", Layout: "2006-01-02", LayoutTZ: "false", FromTZ: from, ToTZ: to, ExpectEmpty: true}, false)
			e.run(caseDesc{Fn: "layout", Datetime: "", Layout: "", LayoutTZ: "junk", FromTZ: from, ToTZ: to, ExpectEmpty: true}, false)
			for _, b := range bads {
				e.run(caseDesc{Fn: "rfc", Datetime: b, FromTZ: from, ToTZ: to, ExpectError: true}, false)
				e.run(caseDesc{Fn: "layout", Datetime: b, Layout: "2006-01-02T15:04:05Z07:00", LayoutTZ: "true", FromTZ: from, ToTZ: to, ExpectError: true}, false)
			}
		}
		for _, u := range []string{"SECOND", "MILLISECOND", "MINUTE", ""} {
			e.run(caseDesc{Fn: "toepoch", Datetime: "", FromTZ: from, Unit: u, ExpectEmpty: true}, false)
			for _, b := range bads {
				e.run(caseDesc{Fn: "toepoch", Datetime: b, FromTZ: from, Unit: u, ExpectError: true}, false)
			}
		}
	}
	// ParseBool is consulted before the empty check: an error, not empty (model: layout_empty_input_bad_flag)
	e.run(caseDesc{Fn: "layout", Datetime: "", Layout: "2006-01-02", LayoutTZ: "junk", Note: "bad layoutTZ with empty datetime"}, false)
	for _, u := range []string{"SECOND", "MILLISECOND", "MINUTE", ""} {
		e.run(caseDesc{Fn: "fromepoch", Epoch: "", Unit: u, ExpectEmpty: true}, false)
		e.run(caseDesc{Fn: "fromepoch", Epoch: "", Unit: u, TZ: []string{"Asia/Tokyo"}, ExpectEmpty: true}, false)
		for _, b := range []string{"abc", "1.5", " 12", "9223372036854775808", "-9223372036854775809", "0x10", "1e3",
			"0x5f5e100", "0X1F", "1_600_000_000", "0b101", "0o17", "1600000000 ", "١٦٠٠"} {
			e.run(caseDesc{Fn: "fromepoch", Epoch: b, Unit: u, ExpectError: true}, false)
		}
	}
	// decimal only: zero-padded and explicitly signed numbers are decimal numbers, not octal
	for _, p := range []struct {
		s string
		n int64
	}{{"0000001600000000", 1600000000}, {"+1600000000", 1600000000}, {"-0001", -1}, {"017", 17}, {"0000000000", 0}, {"00001600000089", 1600000089}, {"-00", 0}} {
		e.run(caseDesc{Fn: "fromepoch", Epoch: p.s, Unit: "SECOND", ExpectInstant: i64(p.n), ExpectOffset: i64(0)}, true)
		e.run(caseDesc{Fn: "fromepoch", Epoch: p.s, Unit: "MILLISECOND", ExpectInstant: i64(floorDiv(p.n, 1000)), ExpectOffset: i64(0)}, true)
	}
	e.run(caseDesc{Fn: "fromepoch", Epoch: "0", Unit: "MINUTE", ExpectError: true}, false)
	e.run(caseDesc{Fn: "fromepoch", Epoch: "0", Unit: "SECOND", TZ: []string{"UTC", "UTC"}, ExpectError: true}, false)
	e.run(caseDesc{Fn: "fromepoch", Epoch: "0", Unit: "SECOND", TZ: []string{"Mars/Olympus"}, ExpectError: true}, false)
	e.run(caseDesc{Fn: "fromepoch", Epoch: "0", Unit: "SECOND", TZ: []string{""}, ExpectInstant: i64(0), ExpectOffset: i64(0)}, false)
	e.run(caseDesc{Fn: "rfc", Datetime: "2020-01-01T00:00:00Z", ToTZ: "Mars/Olympus", ExpectError: true}, false)
	e.run(caseDesc{Fn: "rfc", Datetime: "2020-01-01T00:00:00", FromTZ: "Mars/Olympus", ExpectError: true}, false)
	// a zone in the text: fromTZ is not looked at, not even an unloadable one
	e.run(caseDesc{Fn: "rfc", Datetime: "2020-01-01T00:00:00Z", FromTZ: "Mars/Olympus", ExpectInstant: i64(1577836800), ExpectOffset: i64(0)}, true)
	// blank zone arguments (model correspondence only)
	e.run(caseDesc{Fn: "rfc", Datetime: "2020-01-01T00:00:00", FromTZ: " ", Note: "blank fromTZ"}, false)
	e.run(caseDesc{Fn: "rfc", Datetime: "2020-01-01T00:00:00", ToTZ: " ", Note: "blank toTZ"}, false)
	e.run(caseDesc{Fn: "rfc", Datetime: "2020-01-01T00:00:00+05:00", ToTZ: "\t", Note: "blank toTZ, zoned input"}, false)
	// readings inside a forward clock change: time.Date normalises them (model correspondence only)
	for _, gp := range [][2]string{{"2021-03-14T02:30:00", "America/New_York"}, {"2011-12-30T12:00:00", "Pacific/Apia"}, {"2021-10-03T02:15:00", "Australia/Lord_Howe"}, {"2021-11-07T01:30:00", "America/New_York"}} {
		e.run(caseDesc{Fn: "rfc", Datetime: gp[0], FromTZ: gp[1], Note: "reading in a gap / fold"}, true)
		e.run(caseDesc{Fn: "rfc", Datetime: gp[0], ToTZ: gp[1], Note: "reading in a gap / fold"}, true)
		e.run(caseDesc{Fn: "toepoch", Datetime: gp[0], FromTZ: gp[1], Unit: "SECOND", Note: "reading in a gap / fold"}, true)
	}

	cw.Flush()
	sum.CaseFiles = cw.Files
	sum.Write(o)
}

// runOracleOnly evaluates the property oracle on the implementation without adding a model case.
func (e *env) runOracleOnly(d caseDesc) {
	e.skipModel = true
	e.run(d, true)
	e.skipModel = false
}

// replayFile runs the case of a replay file / corpus file.  Corpus files may carry
// "known_finding": true - then a failure is reported with the key of the stored case, which
// KNOWN_FINDINGS.txt lists.
func (e *env) replayFile(path string, corpus bool) {
	raw, err := ioutil.ReadFile(path)
	if err != nil {
		fmt.Fprintln(os.Stderr, err)
		os.Exit(2)
	}
	var f struct {
		Case caseDesc `json:"case"`
	}
	var sf struct {
		Case schemaCase `json:"case"`
	}
	if json.Unmarshal(raw, &sf) == nil && sf.Case.Fn == "schema" {
		e.runSchema(sf.Case)
		return
	}
	if sf.Case.Fn == "schema-many" {
		e.runManyMembers(sf.Case, allZones, nil)
		return
	}
	if err := json.Unmarshal(raw, &f); err != nil || f.Case.Fn == "" {
		fmt.Fprintln(os.Stderr, "no C19 case in", path, err)
		os.Exit(2)
	}
	if corpus {
		e.sum.Hist("corpus-case")
	}
	e.run(f.Case, true)
}
