package pipe

import (
	"encoding/json"
	"fmt"
	"reflect"
	"strconv"
	"strings"
)

// CheckOutputs evaluates, on every delivered record of a transcript, the relations between
// generated FINAL_OUTPUT fields that hold by construction of the generated schemas ("each
// declaration behaves as written"), whatever the cache configuration or process history:
//   - probe / probe2 read globals they were not passed: always 0 / "none/none"
//   - w4 (newline after return: ASI) yields undefined -> ignored error -> absent; w1, w2, w5 differ
//     only in whitespace inside a string literal: pairwise different, equal after removing blanks
//   - the template leaf2 / obj2 referenced under xpath_dynamic "a" / "c" equals the same template
//     referenced under xpath "a" / "c"
//   - typed externals show the externals of THIS transform
//   - a record binds one namespace prefix: qa and qb are never both present
// Variant of the custom function table a case was compiled with (0 or 1): normalize is bound to a
// different function in each.
var CheckVariant int

func CheckOutputs(feats Features, ext map[string]string, t Transcript) []string {
	var bad []string
	dtfByFlag := map[string]interface{}{}
	add := func(i int, f string, a ...interface{}) {
		if len(bad) < 5 {
			bad = append(bad, fmt.Sprintf("result %d: ", i)+fmt.Sprintf(f, a...))
		}
	}
	for i, e := range t {
		if e.Kind != "rec" {
			continue
		}
		var m map[string]interface{}
		if err := json.Unmarshal([]byte(e.JSON), &m); err != nil {
			continue
		}
		same := func(x, y string) {
			if feats.Has(x) && feats.Has(y) && !reflect.DeepEqual(m[x], m[y]) {
				add(i, "%s = %v but %s = %v (same template, same anchor node)", x, m[x], y, m[y])
			}
		}
		if feats.Has("dtf") && feats.Has("dtflag") {
			if fl, ok := m["dtflag"].(string); ok && (fl == "true" || fl == "false") {
				if prev, seen := dtfByFlag[fl]; seen && !reflect.DeepEqual(prev, m["dtf"]) {
					add(i, "dtf = %v for flag %s, an earlier record with the same flag got %v", m["dtf"], fl, prev)
				}
				dtfByFlag[fl] = m["dtf"]
				other := map[string]string{"true": "false", "false": "true"}[fl]
				if o, seen := dtfByFlag[other]; seen && reflect.DeepEqual(o, m["dtf"]) {
					add(i, "dtf = %v for layout_tz %s equals the value a record with layout_tz %s got (the flag decides how the offset is used)", m["dtf"], fl, other)
				}
			}
		}
		if feats.Has("nz") {
			want := []string{"nA:", "nB:"}[CheckVariant]
			if s, ok := m["nz"].(string); !ok || !strings.HasPrefix(s, want) {
				add(i, "nz = %v, want the result of THIS schema's normalize (prefix %s)", m["nz"], want)
			}
		}
		same("ea1", "ea2")
		same("eb1", "eb2")
		same("ec1", "ec2")
		for _, g := range []string{"zglob", "zglob2"} {
			if feats.Has(g) && !reflect.DeepEqual(m[g], "g:") {
				add(i, "%s (enumerates the global object without having been passed any arg) = %v, want g:", g, m[g])
			}
		}
		if feats.Has("probe") && !reflect.DeepEqual(m["probe"], float64(0)) {
			add(i, "probe (reads the global 'discount' it was not passed) = %v, want 0", m["probe"])
		}
		if feats.Has("probe2") && !reflect.DeepEqual(m["probe2"], "none/none") {
			add(i, "probe2 (reads globals 'leak' and '_node' it was not passed) = %v, want none/none", m["probe2"])
		}
		if feats.Has("probe3") && !reflect.DeepEqual(m["probe3"], "json/math") {
			add(i, "probe3 (uses the built-ins JSON and Math) = %v, want json/math", m["probe3"])
		}
		if feats.Has("w4") && m["w4"] != nil {
			add(i, "w4 (newline after return) = %v, want the call to fail (undefined) and be ignored", m["w4"])
		}
		if feats.Has("w3") {
			if s, ok := m["w3"].(string); !ok || !strings.HasPrefix(s, "r:") {
				add(i, "w3 = %v, want a string starting with r:", m["w3"])
			}
		}
		ws := []string{"w1", "w2", "w5"}
		for a := 0; a < len(ws); a++ {
			for b := a + 1; b < len(ws); b++ {
				if !feats.Has(ws[a]) || !feats.Has(ws[b]) {
					continue
				}
				x, _ := m[ws[a]].(string)
				y, _ := m[ws[b]].(string)
				strip := func(s string) string { return strings.NewReplacer(" ", "", "\t", "").Replace(s) }
				if x == y || strip(x) != strip(y) {
					add(i, "%s = %q and %s = %q: scripts differing only in blanks inside a string literal", ws[a], x, ws[b], y)
				}
			}
		}
		same("tda", "txa")
		same("tdc", "txc")
		if feats.Has("tda") && feats.Has("tdc") && feats.Has("a") && feats.Has("c") && m["a"] != m["c"] && m["a"] != nil && m["c"] != nil {
			if reflect.DeepEqual(m["tda"], m["tdc"]) {
				add(i, "tda = tdc = %v although a = %v and c = %v differ", m["tda"], m["a"], m["c"])
			}
		}
		if feats.Has("tdarr") && feats.Has("tda") && feats.Has("tdc") {
			var want []interface{}
			for _, k := range []string{"tda", "tdc"} {
				if m[k] != nil {
					want = append(want, m[k])
				}
			}
			got, _ := m["tdarr"].([]interface{})
			if !reflect.DeepEqual(got, want) && !(len(got) == 0 && len(want) == 0) {
				add(i, "tdarr = %v, want [tda, tdc] = %v", m["tdarr"], want)
			}
		}
		if a2, ok := m["anc2"].(map[string]interface{}); ok {
			var first interface{}
			started := false
			for k, v := range a2 {
				if !started {
					first, started = v, true
				} else if !reflect.DeepEqual(first, v) {
					add(i, "anc2.%s = %v differs from another anc2 field = %v (all select the record's c)", k, v, first)
					break
				}
			}
		}
		if feats.Has("qa") && feats.Has("qb") && m["qa"] != nil && m["qb"] != nil {
			add(i, "qa = %v and qb = %v both present: the record binds one prefix only", m["qa"], m["qb"])
		}
		if ext != nil {
			if feats.Has("ei") {
				if v, err := strconv.ParseFloat(ext["ext_i"], 64); err == nil && !reflect.DeepEqual(m["ei"], v) {
					add(i, "ei = %v, want this transform's external ext_i = %s", m["ei"], ext["ext_i"])
				}
			}
			if feats.Has("ef") {
				if v, err := strconv.ParseFloat(ext["ext_f"], 64); err == nil && !reflect.DeepEqual(m["ef"], v) {
					add(i, "ef = %v, want this transform's external ext_f = %s", m["ef"], ext["ext_f"])
				}
			}
			if feats.Has("eb") {
				if v, err := strconv.ParseBool(ext["ext_b"]); err == nil && !reflect.DeepEqual(m["eb"], v) {
					add(i, "eb = %v, want this transform's external ext_b = %s", m["eb"], ext["ext_b"])
				}
			}
			if feats.Has("es") && ext["ext_s"] != "" && !reflect.DeepEqual(m["es"], ext["ext_s"]) {
				add(i, "es = %v, want this transform's external ext_s = %s", m["es"], ext["ext_s"])
			}
		}
	}
	return bad
}

// GenExt draws external properties for the typed-externals / external-const groups.
func GenExt(pick func(n int) int) map[string]string {
	is := []string{"7", "-12", "0", "4096"}
	fs := []string{"1.5", "-0.25", "3", "1000.125"}
	bs := []string{"true", "false"}
	ss := []string{"E1", "other", "x y"}
	return map[string]string{"ext1": ss[pick(len(ss))], "ext_i": is[pick(len(is))], "ext_f": fs[pick(len(fs))],
		"ext_b": bs[pick(len(bs))], "ext_s": ss[pick(len(ss))]}
}
