package pipe

import (
	"encoding/json"
	"fmt"
	"sort"
	"strconv"
	"strings"

	"verifharness/vh"
)

// ---- record-structured inputs for the seven fixtures of vh.Fixtures ------------------------------

// Rec is one target record: the three fields every fixture declares, plus (xml/json only) a
// nested variant (<a>outer<a>inner</a></a>, an attribute on the record element).
type Rec struct {
	A, B, C string
	Nest    bool   // xml/json: field a contains a nested a
	Attr    string // xml: attribute k on the record element (which has element children)
	Attr2   string // xml: a second attribute j (two attributes: a Go map in idr.JSONify2)
	Deep    bool   // json with Env.Deep: the record is the value of a key "n"
	Wrap    bool   // xml/json with Env.Deep: the record sits one level deeper (inside a <batch>)
	RootQ   bool   // xml with Env.RootNS: the record has a child <p:rq>
	Redecl  bool   // xml with Env.RootNS: the record re-declares xmlns:p="uri://root" on itself
	NS      string // xml: the record binds this prefix to uri://items and has a child <NS:q>
	Fill    [3]int // multi-line fixedlength2: filler lengths at the ends of the record's lines
	Raw     string // csv: the row as written (reader-level failures: bare quote, garbage after quote)
}

// Env is the part of an input around the records; fixed within one algebra case.
type Env struct {
	Header  bool   // csv2 H line, edi HDR, fixedlength2 H line, xml/json context element
	Trailer bool   // edi TRL
	Ctx     string // xml/json: value of the context element (only when Header)
	Filter  string // flat formats: FINAL_OUTPUT.xpath used as per-record target filter (records with a = SKIPME are dropped)
	RootNS  bool   // xml: the root declares xmlns:p="uri://root"; records have a child <p:rq> relying on it and
	// some records redundantly re-declare the same prefix on themselves (Rec.Redecl)
	Deep    bool   // xml/json: the stream target matches at more than one depth (//n) and the
	// records really sit at different depths (Rec.Wrap)
}

type Fmt struct {
	Idx     int
	Name    string
	Fixture vh.Fixture
}

func Formats() []Fmt {
	var out []Fmt
	for i, f := range vh.Fixtures() {
		if f.Format == "edi" {
			// a repetition delimiter: an element written 300^301 becomes two element nodes of one name
			f.Schema = strings.Replace(f.Schema, `"element_delimiter": "*",`, `"element_delimiter": "*", "repetition_delimiter": "^",`, 1)
		}
		out = append(out, Fmt{Idx: i, Name: f.Format, Fixture: f})
	}
	return out
}

// MultiLineFormats: fixedlength2 envelopes spanning several lines (rows = 3; header/footer with
// three data lines), for long inputs that make the reader's bufio refill many times.
func MultiLineFormats() []Fmt {
	hdr := `"parser_settings": { "version": "omni.2.1", "file_format_type": "fixedlength2" }`
	fo := `"transform_declarations": { "FINAL_OUTPUT": { "object": { "a": { "xpath": "a" } } } }`
	rows3 := `{` + hdr + `, "file_declaration": { "envelopes": [ { "rows": 3, "columns": [
  {"name":"a","start_pos":2,"length":6,"line_pattern":"^1"}, {"name":"b","start_pos":2,"length":5,"line_pattern":"^2"},
  {"name":"c","start_pos":2,"length":6,"line_pattern":"^3"} ] } ] }, ` + fo + `}`
	hf := `{` + hdr + `, "file_declaration": { "envelopes": [ { "name": "REC", "header": "^B", "footer": "^E", "is_target": true, "columns": [
  {"name":"a","start_pos":2,"length":6,"line_pattern":"^1"}, {"name":"b","start_pos":2,"length":5,"line_pattern":"^2"},
  {"name":"c","start_pos":2,"length":6,"line_pattern":"^3"} ] } ] }, ` + fo + `}`
	return []Fmt{
		{Idx: 4, Name: "fl2-rows3", Fixture: vh.Fixture{Format: "fixedlength2", Schema: rows3}},
		{Idx: 4, Name: "fl2-hf", Fixture: vh.Fixture{Format: "fixedlength2", Schema: hf}},
	}
}

func padr(s string, n int) string {
	rs := []rune(s)
	if len(rs) > n {
		return string(rs[:n])
	}
	return s + strings.Repeat(" ", n-len(rs))
}

func xmlEsc(s string) string {
	r := strings.NewReplacer("&", "&amp;", "<", "&lt;", ">", "&gt;", "\"", "&quot;")
	return r.Replace(s)
}

func jstr(s string) string {
	b, _ := json.Marshal(s)
	return string(b)
}

// RenderRec renders one record in the format's syntax (including its own terminator).
func (f Fmt) RenderRec(r Rec) string {
	switch f.Name {
	case "csv":
		if r.Raw != "" {
			return r.Raw + "\n"
		}
		return fmt.Sprintf("%s,%s,\"%s\"\n", strings.ReplaceAll(r.A, " ", "_"), r.B, r.C)
	case "csv2":
		return fmt.Sprintf("R|%s|%s|%s\n", r.A, r.B, r.C)
	case "edi":
		return fmt.Sprintf("DAT*%s*%s*%s~\n", r.A, r.B, r.C)
	case "fixed-length":
		return padr(r.A, 6) + padr(r.B, 5) + padr(r.C, 6) + "\n"
	case "fixedlength2":
		return "R" + padr(r.A, 6) + padr(r.B, 5) + padr(r.C, 6) + "\n"
	case "fl2-rows3", "fl2-hf":
		x := "1" + padr(r.A, 6) + strings.Repeat("x", r.Fill[0]) + "\n" +
			"2" + padr(r.B, 5) + strings.Repeat("y", r.Fill[1]) + "\n" +
			"3" + padr(r.C, 6) + strings.Repeat("z", r.Fill[2]) + "\n"
		if f.Name == "fl2-hf" {
			x = "B\n" + x + "E\n"
		}
		return x
	case "json":
		a := jstr(r.A)
		if r.Nest {
			a = `{"t":` + jstr(r.A) + `,"a":"in"}`
		}
		b := jstr(r.B)
		if _, err := strconv.Atoi(r.B); err == nil && len(r.B)%2 == 0 {
			b = r.B // a JSON number (typed value node) instead of a string
		}
		x := fmt.Sprintf(`{"a":%s,"b":%s,"c":%s,"z":[true,null,1.5]}`, a, b, jstr(r.C))
		if r.Deep {
			x = `{"n":` + x + `}`
			if r.Wrap {
				x = `{"batch":` + x + `}`
			}
		}
		return x
	case "xml":
		attr := ""
		if r.Attr != "" {
			attr = ` k="` + xmlEsc(r.Attr) + `"`
		}
		if r.Attr2 != "" {
			attr += ` j="` + xmlEsc(r.Attr2) + `"`
		}
		a := xmlEsc(r.A)
		if r.Nest {
			a += "<a>in</a>"
		}
		q := ""
		if r.NS != "" {
			// every record is self-contained for namespaces; different records may bind the SAME
			// URI to DIFFERENT prefixes
			attr += ` xmlns:` + r.NS + `="uri://items"`
			q = "<" + r.NS + ":q>q" + xmlEsc(r.C) + "</" + r.NS + ":q>"
		}
		if r.Redecl {
			attr += ` xmlns:p="uri://root"`
		}
		if r.RootQ {
			q += "<p:rq>r" + xmlEsc(r.C) + "</p:rq>"
		}
		x := fmt.Sprintf("<n%s><a>%s</a><b>%s</b><c>%s</c>%s</n>", attr, a, xmlEsc(r.B), xmlEsc(r.C), q)
		if r.Wrap {
			x = "<batch>" + x + "</batch>"
		}
		return x
	}
	panic("unknown format " + f.Name)
}

// Render renders a whole input: envelope prefix, the records, envelope suffix.
func (f Fmt) Render(env Env, recs []Rec) []byte {
	var sb strings.Builder
	switch f.Name {
	case "csv":
		sb.WriteString("a,b,c\n")
	case "csv2":
		if env.Header {
			sb.WriteString("H|head\n")
		}
	case "edi":
		if env.Header {
			sb.WriteString("HDR*1~\n")
		}
	case "fixedlength2":
		if env.Header {
			sb.WriteString("Hhead\n")
		}
	case "json":
		if env.Header {
			sb.WriteString(`{"h":` + jstr(env.Ctx) + `,"recs":[`)
		} else {
			sb.WriteString("[")
		}
	case "xml":
		if env.RootNS {
			sb.WriteString(`<r xmlns:p="uri://root">`)
		} else {
			sb.WriteString("<r>")
		}
		if env.Header {
			sb.WriteString("<h>" + xmlEsc(env.Ctx) + "</h>")
		}
	}
	for i, r := range recs {
		if f.Name == "json" && i > 0 {
			sb.WriteString(",")
		}
		sb.WriteString(f.RenderRec(r))
	}
	switch f.Name {
	case "edi":
		if env.Trailer {
			sb.WriteString("TRL*9~")
		}
	case "json":
		if env.Header {
			sb.WriteString("]}")
		} else {
			sb.WriteString("]")
		}
	case "xml":
		sb.WriteString("</r>")
	}
	return []byte(sb.String())
}

var wordsA = []string{"x", "abc", "héllo", "a b", "Q9", "zz top", "日本", "", "0", "w", "a", "c", "BOOM", "k7"}
var wordsC = []string{"x", "abc", "héllo", "a b", "Q9", "zz top", "日本", "", "0", "w", "a", "b", "BOOM", "p", "true", "false", "true", "false"}

// GenRec draws a record.  ok=true asks for one on which none of the three fuses of the
// generated schemas blows (b is an integer, a is not FAIL, a and c are not both BOOM).
func GenRec(r *vh.Rng, f Fmt, ok bool) Rec {
	rec := Rec{A: wordsA[r.Pick(len(wordsA))], C: wordsC[r.Pick(len(wordsC))]}
	rec.B = fmt.Sprint(r.Between(-50, 5000))
	if !ok {
		switch r.Pick(8) {
		case 0:
			rec.B = r.PickStr("x1", "", "1.5", "--", "9z")
		case 1:
			rec.A = "FAIL"
		case 2:
			rec.A, rec.C = "BOOM", "BOOM"
		}
	}
	if rec.A == "BOOM" && rec.C == "BOOM" && ok {
		rec.C = "x"
	}
	if f.Name == "xml" || f.Name == "json" {
		rec.Nest = r.Chance(0.3)
	}
	if f.Name == "xml" && r.Chance(0.6) {
		rec.NS = r.PickStr("a", "b", "a", "b", "zz")
	}
	if f.Name == "xml" && r.Chance(0.4) {
		rec.Attr = r.PickStr("1", "2", "k", "v w")
		if r.Chance(0.5) {
			rec.Attr2 = r.PickStr("7", "8", "jj")
		}
	}
	return rec
}

// Filters are per-record target filters for the flat formats: boolean / comparison / arithmetic
// expressions whose operand has a filter followed by a positional predicate, and node-set
// forms.  All are true exactly for records whose field a is not SKIPME.  (Function-call filters such
// as not(...) and node-set = node-set comparisons select nothing on HEAD and are left out.)
var Filters = []string{
	"a[. != 'SKIPME'][1] != 'NEVER'",
	"count(a[. != 'SKIPME'][1]) > 0",
	".[a != 'SKIPME']",
	"a[. != 'SKIPME'][1] != 'SKIPME'",
	"*[. != 'SKIPME'][1][name() = 'a'] != 'NEVER'",
}

// WithNoise inserts records the filter drops (a = SKIPME) at random places.
func (f Fmt) WithNoise(r *vh.Rng, env Env, recs []Rec) []Rec {
	if env.Filter == "" || f.Name == "json" || f.Name == "xml" {
		return recs
	}
	var out []Rec
	for _, rec := range recs {
		for r.Chance(0.3) {
			out = append(out, Rec{A: "SKIPME", B: "7", C: "x"})
		}
		out = append(out, rec)
	}
	if r.Chance(0.3) {
		out = append(out, Rec{A: "SKIPME", B: "7", C: "x"})
	}
	return out
}

// Place puts a record into the envelope's layout (depth) - call after GenRec / MakeFailing.
func (f Fmt) Place(r *vh.Rng, env Env, rec Rec) Rec {
	if env.RootNS && f.Name == "xml" {
		rec.RootQ = true
		rec.Redecl = r.Chance(0.35)
	}
	if env.Deep && (f.Name == "xml" || f.Name == "json") {
		rec.Deep = f.Name == "json"
		rec.Wrap = r.Chance(0.4)
	}
	return rec
}

// FailKinds are the three per-record TRANSFORM failure kinds C10 names.
var FailKinds = []string{"cast", "multi-match", "custom-func"}

// ReaderFailKinds are rows the old csv reader reports as continuable failures (encoding/csv
// ParseError); none of them contains an unterminated quote, so each stays one row.
var ReaderFailKinds = []string{"csv-bare-quote", "csv-garbage-after-quote", "csv-bare-quote-last-field"}

// FailKindsFor lists the failure kinds usable for a format.
func (f Fmt) FailKindsFor() []string {
	if f.Name == "csv" {
		return append(append([]string(nil), FailKinds...), ReaderFailKinds...)
	}
	if f.Name == "edi" {
		return append(append([]string(nil), FailKinds...), "edi-repeated-element")
	}
	return FailKinds
}

// MakeFailing turns a record into one on which the named fuse blows.
func MakeFailing(rec Rec, kind string) Rec {
	rec.Nest = false
	switch kind {
	case "cast":
		rec.B = "9z"
	case "multi-match":
		rec.A, rec.C = "BOOM", "BOOM"
	case "custom-func":
		rec.A = "FAIL"
	case "edi-repeated-element":
		rec.A = "300^301" // two element nodes named a: the plain-name xpath a matches twice
	case "csv-bare-quote":
		rec.Raw = `q"uo,1,2`
	case "csv-garbage-after-quote":
		rec.Raw = `"fig"s,6,green`
	case "csv-bare-quote-last-field":
		rec.Raw = `x,7,gre"en`
	}
	return rec
}

// ---- transform_declarations generator --------------------------------------------------------------

// Features a generated schema has (for the non-triviality rules and the histogram).
type Features map[string]bool

func (f Features) Keys() []string {
	var ks []string
	for k := range f {
		if !strings.HasPrefix(k, "field:") {
			ks = append(ks, k)
		}
	}
	sort.Strings(ks)
	return ks
}

const jsIIFE = `(function(){var n=JSON.parse(_node);return (n.a===undefined?'-':(typeof n.a==='object'?'obj':n.a))+'|'+n.c})()`

// fieldGroups: each group is a set of FINAL_OUTPUT fields (and templates) exercising one
// mechanism.  All xpaths stay inside the record's own subtree.
type group struct {
	feature   string
	fields    []string
	templates []string
	only      string // format the group is restricted to ("" = all)
}

var groups = []group{
	{"plain", []string{`"a": {"xpath":"a"}`, `"c": {"xpath":"c","keep_empty_or_null":true}`}, nil, ""},
	{"cast", []string{`"b": {"xpath":"b","type":"int"}`}, nil, ""},
	{"identical-decls", []string{`"d1": {"xpath":"a"}`, `"d2": {"xpath":"a"}`,
		`"o1": {"object":{"v":{"xpath":"c"}}}`, `"o2": {"object":{"v":{"xpath":"c"}}}`}, nil, ""},
	// the F2 shape: {"xpath":"a"} as an array element (query skipped, evaluated ON node a) and
	// as an object field evaluated AT cursor a (query a/a) - same text, same node ID
	{"identical-decls-anchoring", []string{`"arr": {"array":[{"xpath":"a"},{"xpath":"c"}]}`,
		`"nest": {"xpath":"a","object":{"in":{"xpath":"a"},"self":{"xpath":"."}}}`}, nil, ""},
	{"template", []string{`"t1": {"template":"tpl"}`, `"t2": {"xpath":".","template":"tpl"}`,
		`"ta": {"xpath":"a","template":"leaf"}`, `"tc": {"xpath":"c","template":"leaf"}`,
		`"tarr": {"array":[{"xpath":"a","template":"leaf"},{"xpath":"c","template":"leaf"}]}`},
		[]string{`"tpl": {"object":{"x":{"xpath":"a"},"y":{"xpath":"c"}}}`, `"leaf": {"custom_func":{"name":"upper","args":[{"xpath":"."}]}}`}, ""},
	{"xpath_dynamic", []string{`"dyn1": {"xpath_dynamic":{"const":"c"}}`,
		`"dyn2": {"xpath_dynamic":{"custom_func":{"name":"concat","args":[{"const":"*[.='"},{"xpath":"c"},{"const":"'][1]"}]}}}`,
		`"dyn3": {"xpath_dynamic":{"xpath":"c"}}`}, nil, ""},
	{"javascript", []string{
		`"js1": {"custom_func":{"name":"javascript","args":[{"const":"x+'!'+y"},{"const":"x"},{"xpath":"a"},{"const":"y"},{"xpath":"c"}]}}`,
		`"js2": {"custom_func":{"name":"javascript","args":[{"const":"x.length*2"},{"const":"x"},{"xpath":"c","keep_empty_or_null":true}]}}`,
		`"jsdyn": {"xpath_dynamic":{"custom_func":{"name":"javascript","args":[{"const":"v.length%2==0?'a':'c'"},{"const":"v"},{"xpath":"a","keep_empty_or_null":true}]}}}`}, nil, ""},
	{"javascript_with_context", []string{
		`"ctx": {"custom_func":{"name":"javascript_with_context","args":[{"const":` + jstr(jsIIFE) + `}]}}`,
		`"ctxa": {"xpath":"a","custom_func":{"name":"javascript_with_context","args":[{"const":"_node"}]}}`,
		`"ctx2": {"custom_func":{"name":"javascript_with_context","args":[{"const":"_node.length"}]}}`}, nil, ""},
	{"fuses", []string{`"m": {"xpath":"*[normalize-space(.)='BOOM']"}`, `"f": {"custom_func":{"name":"failif","args":[{"xpath":"a"}]}}`}, nil, ""},
	{"external-const", []string{`"e": {"external":"ext1"}`, `"k": {"const":"K"}`}, nil, ""},
	// externals with a result type: one Schema object, several transforms with different externals
	{"typed-externals", []string{`"ei": {"external":"ext_i","type":"int"}`, `"ef": {"external":"ext_f","type":"float"}`,
		`"eb": {"external":"ext_b","type":"boolean"}`, `"es": {"external":"ext_s"}`}, nil, ""},
	// the SAME template referenced several times at one cursor under DIFFERENT xpath_dynamic (and
	// xpath) anchors: no reference may be a copy of another
	{"template-dynamic-anchors", []string{
		`"tda": {"xpath_dynamic":{"const":"a"},"template":"leaf2"}`,
		`"tdc": {"xpath_dynamic":{"const":"c"},"template":"leaf2"}`,
		`"tdb": {"xpath_dynamic":{"custom_func":{"name":"concat","args":[{"const":"*[position()="},{"const":"2"},{"const":"]"}]}},"template":"leaf2"}`,
		`"txa": {"xpath":"a","template":"leaf2"}`, `"txc": {"xpath":"c","template":"leaf2"}`,
		`"tdo": {"xpath_dynamic":{"const":"c"},"template":"obj2"}`, `"txo": {"xpath":"a","template":"obj2"}`,
		`"tdarr": {"array":[{"xpath_dynamic":{"const":"a"},"template":"leaf2"},{"xpath_dynamic":{"const":"c"},"template":"leaf2"}]}`},
		[]string{`"leaf2": {"custom_func":{"name":"concat","args":[{"const":"<"},{"xpath":"."},{"const":">"}]}}`,
			`"obj2": {"object":{"self":{"xpath":"."}}}`}, ""},
	// pairs of scripts that differ only in significant whitespace (inside a string literal; a
	// newline after return: ASI makes the function return undefined)
	{"js-whitespace", []string{
		`"w1": {"no_trim":true,"custom_func":{"name":"javascript","args":[{"const":"x+' - '+y"},{"const":"x"},{"xpath":"a","keep_empty_or_null":true},{"const":"y"},{"xpath":"c","keep_empty_or_null":true}]}}`,
		`"w2": {"no_trim":true,"custom_func":{"name":"javascript","args":[{"const":"x+'   -   '+y"},{"const":"x"},{"xpath":"a","keep_empty_or_null":true},{"const":"y"},{"xpath":"c","keep_empty_or_null":true}]}}`,
		`"w3": {"custom_func":{"name":"javascript","ignore_error":true,"args":[{"const":"(function(){return 'r:'+x})()"},{"const":"x"},{"xpath":"a","keep_empty_or_null":true}]}}`,
		`"w4": {"custom_func":{"name":"javascript","ignore_error":true,"args":[{"const":"(function(){return\n'r:'+x})()"},{"const":"x"},{"xpath":"a","keep_empty_or_null":true}]}}`,
		`"w5": {"no_trim":true,"custom_func":{"name":"javascript","args":[{"const":"x+'\t-\t'+y"},{"const":"x"},{"xpath":"a","keep_empty_or_null":true},{"const":"y"},{"xpath":"c","keep_empty_or_null":true}]}}`}, nil, ""},
	// scripts that THROW at run time while their args are set
	{"js-throw", []string{
		`"thr1": {"custom_func":{"name":"javascript","ignore_error":true,"args":[{"const":"(function(){throw new Error('boom')})()"},{"const":"discount"},{"xpath":"b"},{"const":"leak"},{"const":"L"}]}}`,
		`"thr2": {"custom_func":{"name":"javascript","ignore_error":true,"args":[{"const":"nosuchfunction(discount)"},{"const":"discount"},{"xpath":"c","keep_empty_or_null":true}]}}`,
		`"thr3": {"custom_func":{"name":"javascript_with_context","ignore_error":true,"args":[{"const":"null.x"},{"const":"discount"},{"const":"77","type":"int"}]}}`,
		`"thr4": {"custom_func":{"name":"javascript","ignore_error":true,"args":[{"const":"(function(){throw 'x'})()"},{"const":"Math"},{"xpath":"c","keep_empty_or_null":true},{"const":"JSON"},{"const":"J"}]}}`}, nil, ""},
	// a failing field whose name sorts AFTER the ancestor-anchored declarations (anc, up)
	{"late-cast", []string{`"zcast": {"xpath":"b","type":"int"}`}, nil, ""},
	// declarations that FAIL inside an xpath_dynamic (errors there are swallowed: the field is
	// null) together with the textually identical declarations m and f used as ordinary members
	// later in name order on the same node (they must still fail the record)
	{"dyn-failing", []string{
		`"da": {"xpath_dynamic":{"xpath":"*[normalize-space(.)='BOOM']"}}`,
		`"dc": {"xpath_dynamic":{"custom_func":{"name":"failif","args":[{"xpath":"a"}]}}}`,
		`"dd": {"xpath_dynamic":{"custom_func":{"name":"concat","args":[{"xpath":"*[normalize-space(.)='BOOM']"},{"const":""}]}}}`}, nil, ""},
	// a custom function with several args mixing externals of the transform and fields of the record
	{"multi-arg", []string{
		`"key": {"custom_func":{"name":"concat","args":[{"external":"ext_s"},{"const":"/"},{"xpath":"a","keep_empty_or_null":true},{"const":"/"},{"xpath":"c","keep_empty_or_null":true},{"const":"/"},{"external":"ext_i"}]}}`,
		`"key2": {"custom_func":{"name":"javascript","args":[{"const":"p+'|'+q+'|'+s"},{"const":"p"},{"external":"ext_s"},{"const":"q"},{"xpath":"a","keep_empty_or_null":true},{"const":"s"},{"external":"ext_f"}]}}`}, nil, ""},
	// a custom function whose FLAG argument depends on the record (c = true / false) while its
	// other arguments are the same for all records: each record must get the result for ITS flag
	{"flag-arg", []string{
		`"dtf": {"custom_func":{"name":"dateTimeLayoutToRFC3339","ignore_error":true,"args":[{"const":"2021-05-06T07:08:09-05:00"},{"const":"2006-01-02T15:04:05-07:00"},{"xpath":"c","keep_empty_or_null":true},{"const":""},{"const":"America/Los_Angeles"}]}}`,
		`"dtflag": {"xpath":"c","keep_empty_or_null":true}`}, nil, ""},
	// custom functions that take the current node IMPLICITLY (copy, javascript_with_context) with
	// no xpath of their own, as members of the object that is the element of an array: evaluated
	// on several nodes of ONE record
	{"implicit-node", []string{
		`"impl": {"array":[{"xpath":"*","object":{"cp":{"custom_func":{"name":"copy"}},"nj":{"custom_func":{"name":"javascript_with_context","args":[{"const":"_node"}]}},"ne":{"custom_func":{"name":"javascript_with_context","args":[{"const":"_node + '/' + x"},{"const":"x"},{"external":"ext_s"}]}},"k":{"const":"K"}}}]}`}, nil, ""},
	// output field names containing '.' / '%' that share the text after their last '.'; two of
	// them fail on a non-numeric b
	{"dotted-names", []string{
		`"qty.value": {"xpath":"b","type":"int"}`, `"price.value": {"xpath":"b","type":"int"}`, `"x%.value": {"xpath":"b","type":"int"}`,
		`"a.id": {"xpath":"a"}`, `"b.id": {"xpath":"c"}`, `"value": {"xpath":"a"}`}, nil, ""},
	// a custom function NAME that different Extensions bind to different functions
	{"normalize", []string{
		`"nz": {"custom_func":{"name":"normalize","args":[{"xpath":"a","keep_empty_or_null":true}]}}`}, nil, ""},
	// UNION xpaths on array elements: two or more matches per record, in the engine's order
	{"union", []string{
		`"un1": {"array":[{"xpath":"a | c"}]}`, `"un2": {"array":[{"xpath":"c | a"}]}`,
		`"un3": {"array":[{"xpath":"*[1] | *[last()]"}]}`, `"un4": {"array":[{"xpath":"c | b | a"}]}`,
		`"un5": {"array":[{"xpath":"b | a","object":{"v":{"xpath":"."}}}]}`}, nil, ""},
	// textually identical ARRAY declarations with keep_empty_or_null (one template referenced twice;
	// two literal copies) on the same node, matching nothing on most records: null both times
	{"empty-arrays", []string{
		`"ea1": {"template":"earr"}`, `"ea2": {"template":"earr"}`,
		`"eb1": {"array":[{"xpath":"nosuch"}],"keep_empty_or_null":true}`, `"eb2": {"array":[{"xpath":"nosuch"}],"keep_empty_or_null":true}`,
		`"ec1": {"array":[{"xpath":"*[normalize-space(.)='BOOM']"}],"keep_empty_or_null":true}`, `"ec2": {"array":[{"xpath":"*[normalize-space(.)='BOOM']"}],"keep_empty_or_null":true}`},
		[]string{`"earr": {"array":[{"xpath":"nosuch/deeper"}],"keep_empty_or_null":true}`}, ""},
	// calls whose args are named like built-in globals, followed (name order, later records) by
	// scripts that ENUMERATE the global object: a new VM has no enumerable globals
	{"js-enumerate", []string{
		`"bi": {"custom_func":{"name":"javascript","args":[{"const":"'x' + Date"},{"const":"Date"},{"xpath":"a","keep_empty_or_null":true},{"const":"Symbol"},{"const":"S"},{"const":"JSON"},{"const":"J"},{"const":"Map"},{"const":"M"}]}}`,
		`"zglob": {"custom_func":{"name":"javascript","args":[{"const":"'g:' + Object.keys(this).sort().join()"}]}}`,
		`"zglob2": {"custom_func":{"name":"javascript","args":[{"const":"(function(){var k=[];for(var x in this){k.push(x)};return 'g:'+k.sort().join()}).call(this)"}]}}`}, nil, ""},
	// xml: a prefix the ROOT declares (records may redundantly re-declare it)
	{"rootns", []string{`"rq": {"xpath":"p:rq"}`}, nil, "xml"},
	// a script reading globals it was not passed
	{"js-global-probe", []string{
		`"probe": {"custom_func":{"name":"javascript","args":[{"const":"typeof discount === 'undefined' ? 0 : discount"}]}}`,
		`"probe2": {"custom_func":{"name":"javascript","args":[{"const":"(typeof leak === 'undefined' ? 'none' : leak) + '/' + (typeof _node === 'undefined' ? 'none' : 'node')"}]}}`,
		`"probe3": {"custom_func":{"name":"javascript","args":[{"const":"(typeof JSON === 'object' && typeof JSON.stringify === 'function' ? 'json' : 'nojson') + '/' + (typeof Math === 'object' && typeof Math.max === 'function' ? 'math' : 'nomath')"}]}}`}, nil, ""},
	// xml: the same namespace URI under different prefixes in different records
	{"xmlns", []string{`"qa": {"xpath":"a:q"}`, `"qb": {"xpath":"b:q"}`, `"qany": {"xpath":"*[local-name()='q']"}`}, nil, "xml"},
}

// GenDecls draws a transform_declarations object.  must lists feature groups that have to be
// present; finalXPath is the FINAL_OUTPUT xpath of the fixture ("" for the flat formats).
// Skip lists FINAL_OUTPUT field names the next GenDecls calls leave out (C10 leaves out dyn3,
// which uses raw record data as an xpath and so fails on records the algebra treats as good).
var Skip = map[string]bool{}

// OnlyMust makes GenDecls use exactly the required groups (no random extras).
var OnlyMust bool

func skipped(field string) bool {
	for k := range Skip {
		if strings.HasPrefix(field, `"`+k+`"`) {
			return true
		}
	}
	return false
}

func GenDecls(r *vh.Rng, format string, finalXPath string, must []string, extra []string) (string, Features) {
	feats := Features{}
	var fields, templates []string
	want := map[string]bool{}
	for _, m := range must {
		want[m] = true
	}
	for _, g := range groups {
		if g.only != "" && g.only != format {
			continue
		}
		if !want[g.feature] && (OnlyMust || !r.Chance(0.4)) {
			continue
		}
		feats[g.feature] = true
		// random subset of the group's fields (whole group when required)
		for _, fl := range g.fields {
			if skipped(fl) {
				continue
			}
			if want[g.feature] || r.Chance(0.8) {
				feats["field:"+fl[1:strings.Index(fl[1:], `"`)+1]] = true
				fields = append(fields, fl)
			}
		}
		templates = append(templates, g.templates...)
	}
	fields = append(fields, extra...)
	if len(fields) == 0 {
		fields = append(fields, groups[0].fields...)
		feats["plain"] = true
	}
	// declared order is irrelevant to the result (children are sorted at schema load): shuffle
	r.Shuffle(len(fields), func(i, j int) { fields[i], fields[j] = fields[j], fields[i] })
	xp := ""
	if finalXPath != "" {
		xp = `"xpath": ` + jstr(finalXPath) + `, `
	}
	decls := `{ "FINAL_OUTPUT": { ` + xp + `"object": { ` + strings.Join(fields, ", ") + ` } }`
	for _, t := range templates {
		decls += ", " + t
	}
	decls += " }"
	return decls, feats
}

// SchemaWith replaces the transform_declarations of a fixture schema.  header selects the
// enveloped variant of json (target /recs/*) where the records sit under a context object.
func (f Fmt) SchemaWith(r *vh.Rng, must []string, extra []string, env Env) (string, Features) {
	var top map[string]json.RawMessage
	if err := json.Unmarshal([]byte(f.Fixture.Schema), &top); err != nil {
		panic("fixture schema is not JSON: " + err.Error())
	}
	var td map[string]map[string]json.RawMessage
	_ = json.Unmarshal(top["transform_declarations"], &td)
	finalXPath := ""
	if x, ok := td["FINAL_OUTPUT"]["xpath"]; ok {
		_ = json.Unmarshal(x, &finalXPath)
	}
	if f.Name == "json" && env.Header {
		finalXPath = "/recs/*"
	}
	if (f.Name == "json" || f.Name == "xml") && env.Deep {
		finalXPath = "//n"
	}
	if env.Filter != "" && f.Name != "json" && f.Name != "xml" {
		finalXPath = env.Filter
	}
	decls, feats := GenDecls(r, f.Name, finalXPath, must, extra)
	s := `{"parser_settings": ` + string(top["parser_settings"])
	if fd, ok := top["file_declaration"]; ok {
		s += `, "file_declaration": ` + string(fd)
	}
	s += `, "transform_declarations": ` + decls + `}`
	return s, feats
}

// AncestorField is a FINAL_OUTPUT field that evaluates a child declaration AT an ancestor of the
// record (a node that keeps its ID over the whole transform) and from there addresses the
// record's own data: under streaming the ancestor has exactly one target child, the current
// record.  Visible if the previous record is not released or a result memo outlives a record.
func (f Fmt) AncestorField() string {
	switch f.Name {
	case "xml":
		return `"up": {"xpath":"..","object":{"first":{"xpath":"n/a"},"cnt":{"xpath":"n/c"}}}, "anc": {"xpath":"..","object":{"k1":{"xpath":"n/c"},"k2":{"xpath":"n/a"},"k3":{"xpath":"n/b"}}}`
	case "json":
		return `"up": {"xpath":"..","object":{"first":{"xpath":"*/a"},"cnt":{"xpath":"*/c"}}}, "anc": {"xpath":"..","object":{"k1":{"xpath":"*/c"},"k2":{"xpath":"*/a"},"k3":{"xpath":"*/b"}}}`
	}
	return ""
}

// Has reports whether the generated FINAL_OUTPUT has the named field.
func (f Features) Has(field string) bool { return f["field:"+field] }

// AncestorManyField: k distinct declarations (distinct texts, hence distinct hashes), all evaluated
// on the long-lived ancestor and all yielding the record's c.
func (f Fmt) AncestorManyField(k int) string {
	sel := ""
	switch f.Name {
	case "xml":
		sel = "n/c"
	case "json":
		sel = "*/c"
	default:
		return ""
	}
	var ks []string
	for i := 1; i <= k; i++ {
		ks = append(ks, fmt.Sprintf(`"k%02d": {"xpath":"%s[%d > 0]","keep_empty_or_null":true}`, i, sel, i))
	}
	return `"anc2": {"xpath":"..","object":{` + strings.Join(ks, ",") + `}}`
}

// CtxField is a FINAL_OUTPUT field addressing the non-target context (xml/json with Env.Header).
func (f Fmt) CtxField() string {
	switch f.Name {
	case "xml":
		return `"h": {"xpath":"../h"}`
	case "json":
		return `"h": {"xpath":"../../h"}`
	}
	return ""
}
