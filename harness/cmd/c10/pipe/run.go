// Package pipe is the shared part of the C10 / C13 / C15 harnesses: running one (schema, input)
// pair through the real omniparser pipeline into a projected transcript, either through the
// public Transform API or through an own copy of the ingester loop (needed to switch the
// per-record transform memo off), switching the process-wide caches and pools, and generators
// of schemas and record-structured inputs for the seven built-in formats.
package pipe

import (
	"bytes"
	"encoding/hex"
	"encoding/json"
	"fmt"
	"io"
	"os"
	"strings"
	"sort"
	"strconv"
	"time"

	"github.com/jf-tech/go-corelib/caches"
	"github.com/jf-tech/omniparser"
	"github.com/jf-tech/omniparser/customfuncs"
	"github.com/jf-tech/omniparser/errs"
	"github.com/jf-tech/omniparser/extensions/omniv21"
	v21 "github.com/jf-tech/omniparser/extensions/omniv21/customfuncs"
	"github.com/jf-tech/omniparser/extensions/omniv21/fileformat"
	"github.com/jf-tech/omniparser/extensions/omniv21/fileformat/csv"
	"github.com/jf-tech/omniparser/extensions/omniv21/fileformat/edi"
	"github.com/jf-tech/omniparser/extensions/omniv21/fileformat/fixedlength"
	csv2 "github.com/jf-tech/omniparser/extensions/omniv21/fileformat/flatfile/csv"
	fixedlength2 "github.com/jf-tech/omniparser/extensions/omniv21/fileformat/flatfile/fixedlength"
	fjson "github.com/jf-tech/omniparser/extensions/omniv21/fileformat/json"
	fxml "github.com/jf-tech/omniparser/extensions/omniv21/fileformat/xml"
	"github.com/jf-tech/omniparser/extensions/omniv21/transform"
	"github.com/jf-tech/omniparser/idr"
	"github.com/jf-tech/omniparser/schemahandler"
	"github.com/jf-tech/omniparser/transformctx"

	"verifharness/vh"
)

// Entry is one projected Read result: a record (output JSON bytes + raw record checksum), a
// per-record failure, or the terminal result (EOF / fatal).  Error texts are carried for the
// replay file only (Msg is never compared).
type Entry struct {
	Kind string `json:"k"` // "rec" | "fail" | "eof" | "fatal" | "panic" | "cap"
	JSON string `json:"j,omitempty"`
	Sum  string `json:"s,omitempty"`
	Msg  string `json:"m,omitempty"` // error text: compared only between runs of one implementation
}

type Transcript []Entry

func (t Transcript) Equal(u Transcript) bool {
	if len(t) != len(u) {
		return false
	}
	for i := range t {
		if t[i].Kind != u[i].Kind || t[i].JSON != u[i].JSON || t[i].Sum != u[i].Sum {
			return false
		}
	}
	return true
}

// ---- retained result slices ---------------------------------------------------------------------
// The []byte Transform.Read returned is kept WITHOUT copying, next to a copy taken at return
// time.  CheckRetained compares the two after more Reads (of the same and of other transforms)
// have happened: a result that changed after it was handed out is a failure.
type retainedRec struct {
	raw  []byte
	copy string
	what string
}

var retainedAll []retainedRec

func retain(raw []byte, what string) string {
	cp := string(raw)
	retainedAll = append(retainedAll, retainedRec{raw: raw, copy: cp, what: what})
	return cp
}

// CheckRetained reports every retained slice whose content no longer equals what Read returned,
// and forgets the slices checked.
func CheckRetained() []string {
	var bad []string
	for _, x := range retainedAll {
		if string(x.raw) != x.copy && len(bad) < 5 {
			bad = append(bad, fmt.Sprintf("%s: Read returned %q, the same slice now holds %q", x.what, x.copy, string(x.raw)))
		}
	}
	retainedAll = retainedAll[:0]
	return bad
}

// normMsg makes an error text valid UTF-8 the way encoding/json does (U+FFFD per invalid byte), so
// that a text that went through a JSON file (fresh-process runs) compares equal to the same text
// kept in memory.
func normMsg(s string) string { return string([]rune(s)) }

// EqualMsg is Equal plus the error texts: only for comparing runs of ONE implementation with each
// other (determinism), never against a model.
func (t Transcript) EqualMsg(u Transcript) bool {
	if !t.Equal(u) {
		return false
	}
	for i := range t {
		if t[i].Msg != u[i].Msg {
			return false
		}
	}
	return true
}

// FirstDiffMsg: first index where kind, bytes, checksum or error text differ.
func FirstDiffMsg(t, u Transcript) int {
	if i := FirstDiff(t, u); i >= 0 {
		return i
	}
	for i := range t {
		if t[i].Msg != u[i].Msg {
			return i
		}
	}
	return -1
}

// Records drops the terminal entry.
func (t Transcript) Records() Transcript {
	if n := len(t); n > 0 && (t[n-1].Kind == "eof" || t[n-1].Kind == "fatal") {
		return t[:n-1]
	}
	return t
}

func (t Transcript) String() string {
	b, _ := json.Marshal(t)
	return string(b)
}

// FirstDiff returns the first index where two transcripts differ (or -1).
func FirstDiff(t, u Transcript) int {
	for i := 0; i < len(t) && i < len(u); i++ {
		if t[i].Kind != u[i].Kind || t[i].JSON != u[i].JSON || t[i].Sum != u[i].Sum {
			return i
		}
	}
	if len(t) != len(u) {
		if len(t) < len(u) {
			return len(t)
		}
		return len(u)
	}
	return -1
}

// ---- case description (what a replay file carries) -------------------------------------------

type Case struct {
	Format   string            `json:"format"`
	Schema   string            `json:"schema"`
	InputHex string            `json:"input_hex"`
	Ext      map[string]string `json:"ext,omitempty"`
	Funcs    int               `json:"funcs,omitempty"` // which Extension (custom function table): 0 = Funcs, 1 = FuncsB
}

func NewCase(format, schema string, input []byte) Case {
	return Case{Format: format, Schema: schema, InputHex: hex.EncodeToString(input)}
}

func (c Case) Input() []byte {
	b, _ := hex.DecodeString(c.InputHex)
	return b
}

// ---- compiled schema with the capture layer --------------------------------------------------

// FailIf is the extra custom function of the harness: a custom function error on demand.
func FailIf(_ *transformctx.Ctx, s string) (string, error) {
	if s == "FAIL" {
		return "", fmt.Errorf("failif: asked to fail")
	}
	return "ok:" + s, nil
}

// NormalizeA / NormalizeB: two different functions that two Extensions bind to the same name.
func NormalizeA(_ *transformctx.Ctx, s string) (string, error) { return "nA:" + s, nil }
func NormalizeB(_ *transformctx.Ctx, s string) (string, error) {
	return "nB:" + strings.ToUpper(s) + "!", nil
}

var Funcs = customfuncs.Merge(customfuncs.CommonCustomFuncs, v21.OmniV21CustomFuncs,
	customfuncs.CustomFuncs{"failif": FailIf, "normalize": NormalizeA})
var FuncsB = customfuncs.Merge(customfuncs.CommonCustomFuncs, v21.OmniV21CustomFuncs,
	customfuncs.CustomFuncs{"failif": FailIf, "normalize": NormalizeB})

type capture struct {
	decl   *transform.Decl
	reader fileformat.FormatReader
}

type capFormat struct {
	inner fileformat.FileFormat
	cap   *capture
}

func (f *capFormat) ValidateSchema(format string, content []byte, decl *transform.Decl) (interface{}, error) {
	rt, err := f.inner.ValidateSchema(format, content, decl)
	if err == nil {
		f.cap.decl = decl
	}
	return rt, err
}

func (f *capFormat) CreateFormatReader(name string, input io.Reader, rt interface{}) (fileformat.FormatReader, error) {
	r, err := f.inner.CreateFormatReader(name, input, rt)
	if err != nil {
		return nil, err
	}
	f.cap.reader = r
	return r, nil
}

func builtinFormats(name string) []fileformat.FileFormat {
	return []fileformat.FileFormat{
		csv.NewCSVFileFormat(name),
		csv2.NewCSVFileFormat(name),
		edi.NewEDIFileFormat(name),
		fixedlength.NewFixedLengthFileFormat(name),
		fixedlength2.NewFixedLengthFileFormat(name),
		fjson.NewJSONFileFormat(name),
		fxml.NewXMLFileFormat(name),
	}
}

type Compiled struct {
	Schema omniparser.Schema
	cap    *capture
}

// Compile runs NewSchema with the built-in handler whose seven file formats are wrapped by a
// layer that remembers the validated FINAL_OUTPUT declaration and the FormatReader of the next
// transform (public extension points only).
func Compile(schema string) (c *Compiled, err error) { return CompileV(schema, 0) }

// CompileV: variant 1 uses an Extension that binds the name normalize to another function.
func CompileV(schema string, variant int) (c *Compiled, err error) {
	defer func() {
		if r := recover(); r != nil {
			c, err = nil, fmt.Errorf("panic in NewSchema: %v", r)
		}
	}()
	cp := &capture{}
	ext := omniparser.Extension{
		CreateSchemaHandler: func(ctx *schemahandler.CreateCtx) (schemahandler.SchemaHandler, error) {
			var wrapped []fileformat.FileFormat
			for _, f := range builtinFormats(ctx.Name) {
				wrapped = append(wrapped, &capFormat{inner: f, cap: cp})
			}
			c2 := *ctx
			c2.CreateParams = &omniv21.CreateParams{CustomFileFormats: wrapped}
			return omniv21.CreateSchemaHandler(&c2)
		},
		CustomFuncs: []customfuncs.CustomFuncs{Funcs, FuncsB}[variant],
	}
	s, err := omniparser.NewSchema("s", bytes.NewReader([]byte(schema)), ext)
	if err != nil {
		return nil, err
	}
	return &Compiled{Schema: s, cap: cp}, nil
}

// DeclDump renders the validated declaration tree (hashes as equivalence classes).
func (c *Compiled) DeclDump() string { return transform.VerifDeclDump(c.cap.decl) }

// ---- running -------------------------------------------------------------------------------------

var watchdog *time.Timer

// Watch arms a per-case watchdog: a Read that never returns ends the harness with exit code 3.
func Watch(what string) {
	if watchdog != nil {
		watchdog.Stop()
	}
	watchdog = time.AfterFunc(240*time.Second, func() {
		fmt.Fprintln(os.Stderr, "watchdog: case did not finish within 240s:", what)
		os.Exit(3)
	})
}

func Unwatch() {
	if watchdog != nil {
		watchdog.Stop()
	}
}

func maxReads(input []byte) int { return len(input) + 10 }

// RunRealCtx is RunReal with a caller-owned *transformctx.Ctx (which may have been used for
// other NewTransform calls before).
func (c *Compiled) RunRealCtx(ctx *transformctx.Ctx, name string, input []byte) (tr Transcript) {
	defer func() {
		if r := recover(); r != nil {
			tr = append(tr, Entry{Kind: "panic", Msg: fmt.Sprint(r)})
		}
	}()
	t, err := c.Schema.NewTransform(name, bytes.NewReader(input), ctx)
	if err != nil {
		return Transcript{{Kind: "fatal", Msg: normMsg(err.Error())}}
	}
	for i := 0; i < maxReads(input); i++ {
		b, err := t.Read()
		switch {
		case err == nil:
			e := Entry{Kind: "rec", JSON: retain(b, fmt.Sprintf("result %d", i))}
			if raw, rerr := t.RawRecord(); rerr == nil && raw != nil {
				e.Sum = raw.Checksum()
			}
			tr = append(tr, e)
		case errs.IsErrTransformFailed(err):
			tr = append(tr, Entry{Kind: "fail", Msg: normMsg(err.Error())})
		case err == io.EOF:
			return append(tr, Entry{Kind: "eof"})
		default:
			return append(tr, Entry{Kind: "fatal", Msg: normMsg(err.Error())})
		}
	}
	return append(tr, Entry{Kind: "cap"})
}

// RunReal drives the public API: Schema.NewTransform, Read until a terminal result, and
// RawRecord().Checksum() after every successful Read.
func (c *Compiled) RunReal(input []byte, ext map[string]string) (tr Transcript) {
	defer func() {
		if r := recover(); r != nil {
			tr = append(tr, Entry{Kind: "panic", Msg: fmt.Sprint(r)})
		}
	}()
	t, err := c.Schema.NewTransform("in", bytes.NewReader(input), &transformctx.Ctx{ExternalProperties: ext})
	if err != nil {
		return Transcript{{Kind: "fatal", Msg: normMsg(err.Error())}}
	}
	for i := 0; i < maxReads(input); i++ {
		b, err := t.Read()
		switch {
		case err == nil:
			e := Entry{Kind: "rec", JSON: retain(b, fmt.Sprintf("result %d", i))}
			if raw, rerr := t.RawRecord(); rerr == nil && raw != nil {
				e.Sum = raw.Checksum()
			} else {
				e.Sum = "<no raw record>"
			}
			tr = append(tr, e)
		case errs.IsErrTransformFailed(err):
			tr = append(tr, Entry{Kind: "fail", Msg: normMsg(err.Error())})
		case err == io.EOF:
			return append(tr, Entry{Kind: "eof"})
		default:
			return append(tr, Entry{Kind: "fatal", Msg: normMsg(err.Error())})
		}
	}
	return append(tr, Entry{Kind: "cap"})
}

// RunUnretained is RunReal without the (unsynchronised) retained-slice bookkeeping: for runs in
// several goroutines at once.
func (c *Compiled) RunUnretained(input []byte, ext map[string]string) (tr Transcript) {
	defer func() {
		if r := recover(); r != nil {
			tr = append(tr, Entry{Kind: "panic", Msg: fmt.Sprint(r)})
		}
	}()
	t, err := c.Schema.NewTransform("in", bytes.NewReader(input), &transformctx.Ctx{ExternalProperties: ext})
	if err != nil {
		return Transcript{{Kind: "fatal", Msg: normMsg(err.Error())}}
	}
	for i := 0; i < maxReads(input); i++ {
		b, err := t.Read()
		switch {
		case err == nil:
			e := Entry{Kind: "rec", JSON: string(b)}
			if raw, rerr := t.RawRecord(); rerr == nil && raw != nil {
				e.Sum = raw.Checksum()
			}
			tr = append(tr, e)
		case errs.IsErrTransformFailed(err):
			tr = append(tr, Entry{Kind: "fail", Msg: normMsg(err.Error())})
		case err == io.EOF:
			return append(tr, Entry{Kind: "eof"})
		default:
			return append(tr, Entry{Kind: "fatal", Msg: normMsg(err.Error())})
		}
	}
	return append(tr, Entry{Kind: "cap"})
}

// RunInterleaved reads two transforms alternately (k1 Reads of the first, then k2 of the second,
// and so on), keeping every returned slice; the transcripts must be the ones of the solo runs.
func RunInterleaved(c1 *Compiled, in1 []byte, ext1 map[string]string, c2 *Compiled, in2 []byte, ext2 map[string]string, k1, k2 int) (tr1, tr2 Transcript) {
	defer func() {
		if r := recover(); r != nil {
			tr1 = append(tr1, Entry{Kind: "panic", Msg: fmt.Sprint(r)})
		}
	}()
	t1, err1 := c1.Schema.NewTransform("in1", bytes.NewReader(in1), &transformctx.Ctx{ExternalProperties: ext1})
	t2, err2 := c2.Schema.NewTransform("in2", bytes.NewReader(in2), &transformctx.Ctx{ExternalProperties: ext2})
	if err1 != nil || err2 != nil {
		return Transcript{{Kind: "fatal"}}, Transcript{{Kind: "fatal"}}
	}
	done1, done2 := false, false
	step := func(t omniparser.Transform, tr *Transcript, done *bool, what string) {
		if *done {
			return
		}
		b, err := t.Read()
		switch {
		case err == nil:
			e := Entry{Kind: "rec", JSON: retain(b, what)}
			if raw, rerr := t.RawRecord(); rerr == nil && raw != nil {
				e.Sum = raw.Checksum()
			} else {
				e.Sum = "<no raw record>"
			}
			*tr = append(*tr, e)
		case errs.IsErrTransformFailed(err):
			*tr = append(*tr, Entry{Kind: "fail", Msg: normMsg(err.Error())})
		case err == io.EOF:
			*tr = append(*tr, Entry{Kind: "eof"})
			*done = true
		default:
			*tr = append(*tr, Entry{Kind: "fatal", Msg: normMsg(err.Error())})
			*done = true
		}
	}
	for n := 0; n < maxReads(in1)+maxReads(in2) && !(done1 && done2); n++ {
		for i := 0; i < k1; i++ {
			step(t1, &tr1, &done1, "interleaved transform 1")
		}
		for i := 0; i < k2; i++ {
			step(t2, &tr2, &done2, "interleaved transform 2")
		}
	}
	return tr1, tr2
}

// BurnIDs advances the process-wide node ID counter by about n (create + recycle).
func BurnIDs(n int) {
	for n > 0 {
		k := 64
		if n < k {
			k = n
		}
		root := idr.CreateNode(idr.ElementNode, "burn")
		for i := 1; i < k/2; i++ {
			idr.AddChild(root, idr.CreateNode(idr.TextNode, "x"))
		}
		idr.RemoveAndReleaseTree(root)
		n -= k
	}
}

// RunOwn is the ingester loop of extensions/omniv21/ingester.go + the classification of
// transform.go, executed by the harness on the real FormatReader and the real ParseNode, so that
// the per-record transform memo can be switched off (hook VerifSetDisableTransformCache) and
// - for the mutation experiments - the loop structure is pinned: release previous, read, parse
// with a fresh ParseCtx per record, marshal.
func (c *Compiled) RunOwn(input []byte, ext map[string]string, memoOff bool) (tr Transcript) {
	defer func() {
		if r := recover(); r != nil {
			tr = append(tr, Entry{Kind: "panic", Msg: fmt.Sprint(r)})
		}
	}()
	ctx := &transformctx.Ctx{ExternalProperties: ext}
	c.cap.reader = nil
	if _, err := c.Schema.NewTransform("in", bytes.NewReader(input), ctx); err != nil {
		return Transcript{{Kind: "fatal", Msg: normMsg(err.Error())}}
	}
	reader, decl := c.cap.reader, c.cap.decl
	if reader == nil || decl == nil {
		return Transcript{{Kind: "panic", Msg: "capture layer saw no reader/declaration"}}
	}
	var cur *idr.Node
	for i := 0; i < maxReads(input); i++ {
		if cur != nil {
			reader.Release(cur)
			cur = nil
		}
		n, err := reader.Read()
		if n != nil {
			cur = n
		}
		if err != nil {
			switch {
			case err == io.EOF:
				return append(tr, Entry{Kind: "eof"})
			case errs.IsErrTransformFailed(err) || reader.IsContinuableError(err):
				tr = append(tr, Entry{Kind: "fail", Msg: normMsg(err.Error())})
				continue
			default:
				return append(tr, Entry{Kind: "fatal", Msg: normMsg(err.Error())})
			}
		}
		pc := transform.NewParseCtx(ctx, Funcs, nil)
		pc.VerifSetDisableTransformCache(memoOff)
		res, err := pc.ParseNode(n, decl)
		if err != nil {
			tr = append(tr, Entry{Kind: "fail", Msg: normMsg(err.Error())})
			continue
		}
		b, err := json.Marshal(res)
		if err != nil {
			// a marshal error is returned by the ingester as is; the reader decides
			if errs.IsErrTransformFailed(err) || reader.IsContinuableError(err) {
				tr = append(tr, Entry{Kind: "fail", Msg: normMsg(err.Error())})
				continue
			}
			return append(tr, Entry{Kind: "fatal", Msg: normMsg(err.Error())})
		}
		sum, _ := customfuncs.UUIDv3(nil, idr.JSONify2(n))
		tr = append(tr, Entry{Kind: "rec", JSON: string(b), Sum: sum})
	}
	return append(tr, Entry{Kind: "cap"})
}

// RawNodes runs a case through the public API and hands every delivered raw record node to f
// (while the node is still current).
func (c *Compiled) RawNodes(input []byte, ext map[string]string, f func(n *idr.Node)) {
	defer func() { _ = recover() }()
	t, err := c.Schema.NewTransform("in", bytes.NewReader(input), &transformctx.Ctx{ExternalProperties: ext})
	if err != nil {
		return
	}
	for i := 0; i < maxReads(input); i++ {
		_, err := t.Read()
		if err == nil {
			if raw, rerr := t.RawRecord(); rerr == nil {
				if n, ok := raw.Raw().(*idr.Node); ok {
					f(n)
				}
			}
			continue
		}
		if !errs.IsErrTransformFailed(err) {
			return
		}
	}
}

// CoqJV prints what idr.J2NodeToInterface returned as a Model.Pipeline.jv term, object keys
// sorted bytewise (the order json.Marshal emits them in).
func CoqJV(v interface{}) string {
	switch x := v.(type) {
	case nil:
		return "JNull"
	case string:
		return "(JStr " + vh.CoqHex([]byte(x)) + ")"
	case float64:
		return "(JNum " + vh.CoqHex([]byte(strconv.FormatFloat(x, 'f', -1, 64))) + ")"
	case bool:
		return "(JBool " + vh.CoqHex([]byte(strconv.FormatBool(x))) + ")"
	case []interface{}:
		var xs []string
		for _, e := range x {
			xs = append(xs, CoqJV(e))
		}
		return "(JArr " + vh.CoqList(xs) + ")"
	case map[string]interface{}:
		keys := make([]string, 0, len(x))
		for k := range x {
			keys = append(keys, k)
		}
		sort.Strings(keys)
		var xs []string
		for _, k := range keys {
			xs = append(xs, "("+vh.CoqHex([]byte(k))+", "+CoqJV(x[k])+")")
		}
		return "(JObj " + vh.CoqList(xs) + ")"
	}
	return "(JStr " + vh.CoqHex([]byte(fmt.Sprintf("<%T>", v))) + ")"
}

// ---- hidden process state switches ----------------------------------------------------------------

// Config names one setting of the four cache/pool switches.
type Config struct {
	Pool bool `json:"node_pool"`  // idr node pool on
	Memo bool `json:"memo"`       // per-record transform result memo on
	JS   int  `json:"js_caches"`  // 0 on (default capacity), 1 off, 2 capacity one
	XP   int  `json:"xpath_cache"` // 0 default capacity, 1 capacity one
}

func (c Config) String() string {
	return fmt.Sprintf("pool=%v memo=%v js=%s xpath=%s", c.Pool, c.Memo, []string{"on", "off", "cap1"}[c.JS], []string{"default", "cap1"}[c.XP])
}

func AllConfigs() []Config {
	var out []Config
	for _, pool := range []bool{true, false} {
		for _, memo := range []bool{true, false} {
			for js := 0; js < 3; js++ {
				for xp := 0; xp < 2; xp++ {
					out = append(out, Config{pool, memo, js, xp})
				}
			}
		}
	}
	return out
}

var jsCapOne, xpCapOne bool

// Apply switches the process-wide state.  fresh additionally empties pool and caches (otherwise
// whatever earlier runs left behind stays: the warm state is part of what is quantified over).
func Apply(c Config, fresh bool) {
	idr.VerifSetNodeCaching(c.Pool)
	if fresh {
		idr.VerifResetNodePool()
	}
	switch c.JS {
	case 0:
		v21.VerifSetDisableCaching(false)
		if jsCapOne || fresh {
			v21.VerifResetCaches(0, 0)
			jsCapOne = false
		}
	case 1:
		v21.VerifSetDisableCaching(true)
	case 2:
		v21.VerifSetDisableCaching(false)
		if !jsCapOne || fresh {
			v21.VerifResetCaches(1, 1)
			jsCapOne = true
		}
	}
	switch c.XP {
	case 0:
		if xpCapOne || fresh {
			caches.XPathExprCache = caches.NewLoadingCache()
			xpCapOne = false
		}
	case 1:
		if !xpCapOne || fresh {
			caches.XPathExprCache = caches.NewLoadingCache(1)
			xpCapOne = true
		}
	}
}

// Default restores the production setting.
func Default() { Apply(Config{Pool: true, Memo: true}, false) }

// Run runs a case under a configuration: memo on goes through the public API, memo off through
// the own loop.
func (c *Compiled) Run(cfg Config, input []byte, ext map[string]string) Transcript {
	if cfg.Memo {
		return c.RunReal(input, ext)
	}
	return c.RunOwn(input, ext, true)
}
