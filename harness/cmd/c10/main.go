// c10: oracle + correspondence harness for property C10 (records are transformed independently;
// a failing record affects only itself).  Transcript algebra on the real implementation:
//   app:   results(A ++ B) = results(A) ++ results(B)           (same envelope)
//   perm:  results(permute pi R) = permute pi (results R)       (schemas addressing own data only)
//   repl:  results(R[i := failing]) = results(R)[i := ErrTransformFailed]
// for all seven formats, the three failure kinds (type cast, multiple xpath matches, custom
// function error).
package main

import (
	"encoding/json"
	"fmt"

	"verifharness/cmd/c10/pipe"
	"verifharness/vh"
)

type interner map[string]int

func (m interner) list(t pipe.Transcript) (string, []int) {
	var xs []string
	var raw []int
	for _, e := range t {
		id := 0
		if e.Kind == "rec" {
			k := e.JSON + "\x00" + e.Sum
			var ok bool
			if id, ok = m[k]; !ok {
				id = len(m) + 1
				m[k] = id
			}
		} else if e.Kind != "fail" {
			id = 999999 // anything else inside the record part is unexpected
		}
		xs = append(xs, vh.CoqN(id))
		raw = append(raw, id)
	}
	return vh.CoqList(xs), raw
}

func eqEntry(a, b pipe.Entry) bool { return a.Kind == b.Kind && a.JSON == b.JSON && a.Sum == b.Sum }

func cleanEOF(t pipe.Transcript) bool { return len(t) > 0 && t[len(t)-1].Kind == "eof" }

func countFail(recs []pipe.Rec, t pipe.Transcript) int {
	n := 0
	for _, e := range t {
		if e.Kind == "fail" {
			n++
		}
	}
	return n
}

func main() {
	o := vh.ParseOpts()
	r := vh.NewRng(o.Seed)
	sum := vh.NewSummary("C10", o,
		"record sequences of the seven formats under a fixed envelope: (A, B, A++B), (R, permutation of R), (R, R with record i replaced by a failing one: cast / multi-match / custom-func); non-trivial = the sequence has >= 3 records of which >= 1 fails; distinct by (kind, schema, inputs)")
	cw := vh.NewCaseWriter(o, "C10", "Model.Pipeline", "c10case", "check_c10")
	fmts := pipe.Formats()
	pipe.Default()
	pipe.Skip["dyn3"] = true
	pipe.Skip["dc"] = true // builds an xpath from record data: fails on records the algebra treats as good
	total := o.Count(1200, 24000)

	for c := 0; c < total; c++ {
		f := fmts[r.Pick(len(fmts))]
		env := pipe.Env{Header: r.Chance(0.5), Trailer: r.Chance(0.5), Ctx: r.PickStr("H1", "ctx")}
		kind := []string{"app", "perm", "repl"}[r.Pick(3)]
		if (f.Name == "xml" || f.Name == "json") && r.Chance(0.35) {
			// the stream target matches at more than one depth and records sit at different depths
			env.Deep = true
			if f.Name == "json" {
				env.Header = false
			}
		}
		var extra []string
		if env.Header && f.CtxField() != "" && kind != "perm" {
			// the non-target context the schema can address (same envelope in all runs)
			extra = append(extra, f.CtxField())
		}
		if f.AncestorField() != "" && kind != "perm" && r.Chance(0.4) {
			extra = append(extra, f.AncestorField())
		}
		if f.Name != "xml" && f.Name != "json" && r.Chance(0.45) {
			// FINAL_OUTPUT.xpath as per-record target filter; dropped noise records are interspersed
			env.Filter = pipe.Filters[r.Pick(len(pipe.Filters))]
			sum.Hist("target-filter:" + env.Filter)
		}
		if f.Name == "xml" && r.Chance(0.4) {
			env.RootNS = true
			sum.Hist("layout:root-namespace-redeclared-on-records")
		}
		must := []string{"fuses", "cast"}
		if env.RootNS {
			must = append(must, "rootns")
		}
		if f.Name == "edi" {
			must = append(must, "plain")
		}
		if r.Chance(0.3) {
			must = append(must, "flag-arg")
		}
		if f.Name == "xml" && r.Chance(0.6) {
			must = append(must, "xmlns")
		}
		schema, feats := f.SchemaWith(r, must, extra, env)
		comp, err := pipe.Compile(schema)
		if err != nil {
			sum.Fail("generated schema rejected by NewSchema", map[string]string{"format": f.Name, "schema": schema}, err.Error())
			continue
		}
		ext := pipe.GenExt(r.Pick)
		fkinds := f.FailKindsFor()
		run := func(recs []pipe.Rec) ([]byte, pipe.Transcript) {
			in := f.Render(env, f.WithNoise(r, env, recs))
			vh.Current(o, map[string]interface{}{"kind": kind, "format": f.Name, "schema": schema, "ext": ext, "input_hex": fmt.Sprintf("%x", in)})
			pipe.Watch(f.Name + " " + kind)
			t := comp.RunReal(in, ext)
			pipe.Unwatch()
			if bad := pipe.CheckOutputs(feats, ext, t); len(bad) > 0 {
				sum.Fail("output relation violated: "+bad[0], map[string]interface{}{"format": f.Name, "schema": schema, "ext": ext, "input_hex": fmt.Sprintf("%x", in)},
					map[string]interface{}{"violations": bad, "transcript": t})
			}
			return in, t
		}
		gen := func(n int, pOK float64) []pipe.Rec {
			recs := make([]pipe.Rec, n)
			for i := range recs {
				recs[i] = pipe.GenRec(r, f, r.Chance(pOK))
				// reader-level continuable failures among the records (old csv)
				if len(fkinds) > len(pipe.FailKinds) && r.Chance(0.12) {
					recs[i] = pipe.MakeFailing(recs[i], pipe.ReaderFailKinds[r.Pick(len(pipe.ReaderFailKinds))])
				}
				if f.Name == "edi" && r.Chance(0.12) {
					recs[i] = pipe.MakeFailing(recs[i], "edi-repeated-element")
				}
				recs[i] = f.Place(r, env, recs[i])
			}
			return recs
		}
		sum.Hist("kind:" + kind)
		sum.Hist("format:" + f.Name)
		if env.Deep {
			sum.Hist("layout:records-at-different-depths")
		}
		for _, k := range feats.Keys() {
			sum.Hist("feature:" + k)
		}
		base := map[string]interface{}{"kind": kind, "format": f.Name, "schema": schema, "ext": ext}
		ids := interner{}
		switch kind {
		case "app":
			a, b := gen(r.Between(0, 4), 0.6), gen(r.Between(0, 4), 0.6)
			if r.Chance(0.2) && len(a) > 0 {
				b = append(b, a[r.Pick(len(a))]) // the same record in both halves
			}
			ab := append(append([]pipe.Rec(nil), a...), b...)
			ia, ta := run(a)
			ib, tb := run(b)
			iab, tab := run(ab)
			base["a_hex"], base["b_hex"], base["ab_hex"] = fmt.Sprintf("%x", ia), fmt.Sprintf("%x", ib), fmt.Sprintf("%x", iab)
			nf := countFail(ab, tab)
			canon, _ := json.Marshal(base)
			sum.Count(string(canon), len(ab) >= 3 && nf >= 1)
			sum.Hist(fmt.Sprintf("records:%d", len(ab)))
			sum.Sample(map[string]interface{}{"case": base, "A": ta, "B": tb, "AB": tab})
			detail := map[string]interface{}{"A": ta, "B": tb, "AB": tab}
			if !cleanEOF(ta) || !cleanEOF(tb) || !cleanEOF(tab) {
				sum.Fail("app: a run did not end with a clean EOF (the generated records are well-formed for the reader)", base, detail)
				break
			}
			ra, rb, rab := ta.Records(), tb.Records(), tab.Records()
			if len(ra) != len(a) || len(rb) != len(b) {
				sum.Fail("app: number of results differs from the number of records", base, detail)
				break
			}
			want := append(append(pipe.Transcript(nil), ra...), rb...)
			if !want.Equal(rab) {
				sum.Fail(fmt.Sprintf("results(A++B) differ from results(A)++results(B) at position %d", pipe.FirstDiff(want, rab)), base, detail)
			}
			la, _ := ids.list(ra)
			lb, _ := ids.list(rb)
			lab, _ := ids.list(rab)
			cw.Add(fmt.Sprintf("C10App %s %s %s", la, lb, lab), base)
		case "perm":
			recs := gen(r.Between(3, 6), 0.65)
			if r.Chance(0.7) {
				recs[r.Pick(len(recs))] = pipe.MakeFailing(recs[r.Pick(len(recs))], fkinds[r.Pick(len(fkinds))])
			}
			pi := r.Perm(len(recs))
			prm := make([]pipe.Rec, len(recs))
			for j, k := range pi {
				prm[j] = recs[k]
			}
			i1, t1 := run(recs)
			i2, t2 := run(prm)
			base["input_hex"], base["permuted_hex"], base["pi"] = fmt.Sprintf("%x", i1), fmt.Sprintf("%x", i2), pi
			canon, _ := json.Marshal(base)
			sum.Count(string(canon), len(recs) >= 3 && countFail(recs, t1) >= 1)
			sum.Hist(fmt.Sprintf("records:%d", len(recs)))
			sum.Sample(map[string]interface{}{"case": base, "R": t1, "permuted": t2})
			detail := map[string]interface{}{"R": t1, "permuted": t2}
			if !cleanEOF(t1) || !cleanEOF(t2) || len(t1.Records()) != len(recs) || len(t2.Records()) != len(recs) {
				sum.Fail("perm: a run did not deliver one result per record and a clean EOF", base, detail)
				break
			}
			r1, r2 := t1.Records(), t2.Records()
			for j, k := range pi {
				if !eqEntry(r2[j], r1[k]) {
					sum.Fail(fmt.Sprintf("result %d of the permuted sequence differs from result %d of the original (the same record)", j, k), base, detail)
					break
				}
			}
			l1, _ := ids.list(r1)
			l2, _ := ids.list(r2)
			var ps []string
			for _, k := range pi {
				ps = append(ps, vh.CoqNat(k))
			}
			cw.Add(fmt.Sprintf("C10Perm %s %s %s", l1, vh.CoqList(ps), l2), base)
		case "repl":
			recs := gen(r.Between(3, 6), 0.85)
			i := r.Pick(len(recs))
			switch r.Pick(4) { // every position, first and last in particular
			case 0:
				i = 0
			case 1:
				i = len(recs) - 1
			}
			// the record to be replaced is one that succeeds
			recs[i] = pipe.GenRec(r, f, true)
			if recs[i].A == "FAIL" {
				recs[i].A = "ok"
			}
			recs[i] = f.Place(r, env, recs[i])
			fk := fkinds[r.Pick(len(fkinds))]
			rep := append([]pipe.Rec(nil), recs...)
			rep[i] = pipe.MakeFailing(rep[i], fk)
			sum.Hist("failure-kind:" + fk)
			i1, t1 := run(recs)
			i2, t2 := run(rep)
			base["input_hex"], base["replaced_hex"], base["position"], base["failure"] = fmt.Sprintf("%x", i1), fmt.Sprintf("%x", i2), i, fk
			canon, _ := json.Marshal(base)
			sum.Count(string(canon), len(recs) >= 3)
			sum.Hist(fmt.Sprintf("records:%d", len(recs)))
			sum.Sample(map[string]interface{}{"case": base, "R": t1, "replaced": t2})
			detail := map[string]interface{}{"R": t1, "replaced": t2}
			if !cleanEOF(t1) || !cleanEOF(t2) || len(t1.Records()) != len(recs) || len(t2.Records()) != len(recs) {
				sum.Fail("repl: a run did not deliver one result per record and a clean EOF", base, detail)
				break
			}
			r1, r2 := t1.Records(), t2.Records()
			if r1[i].Kind != "rec" {
				sum.Fail("repl: the record to be replaced did not transform successfully", base, detail)
				break
			}
			for j := range r1 {
				if j == i {
					if r2[j].Kind != "fail" {
						sum.Fail(fmt.Sprintf("position %d was replaced by a record failing by %s but its result is not ErrTransformFailed", i, fk), base, detail)
					}
				} else if !eqEntry(r1[j], r2[j]) {
					sum.Fail(fmt.Sprintf("result %d changed although only record %d was replaced by a failing one", j, i), base, detail)
				}
			}
			l1, _ := ids.list(r1)
			l2, _ := ids.list(r2)
			cw.Add(fmt.Sprintf("C10Repl %s %s %s", l1, vh.CoqNat(i), l2), base)
		}
		retainedCheck(sum, base)
	}
	longCases(o, r, sum, cw)
	cw.Flush()
	sum.CaseFiles = cw.Files
	sum.Write(o)
}

// longCases: fixedlength2 records spanning several lines in inputs of several hundred records
// (tens of KiB: the reader's bufio refills many times).  Every record's in-stream result must be
// the result of that record transformed ALONE.
func longCases(o *vh.Opts, r *vh.Rng, sum *vh.Summary, cw *vh.CaseWriter) {
	mls := pipe.MultiLineFormats()
	n := o.Count(10, 60)
	if o.N > 0 {
		n = 2
	}
	for c := 0; c < n; c++ {
		f := mls[r.Pick(len(mls))]
		env := pipe.Env{}
		pipe.OnlyMust = true
		schema, feats := f.SchemaWith(r, []string{"plain", "cast", "fuses", "identical-decls"}, nil, env)
		pipe.OnlyMust = false
		comp, err := pipe.Compile(schema)
		if err != nil {
			sum.Fail("generated schema rejected by NewSchema", map[string]string{"format": f.Name, "schema": schema}, err.Error())
			continue
		}
		ext := pipe.GenExt(r.Pick)
		nrec := r.Between(250, 500)
		recs := make([]pipe.Rec, nrec)
		for i := range recs {
			recs[i] = pipe.GenRec(r, f, r.Chance(0.9))
			recs[i].A = fmt.Sprintf("%s%d", []string{"k", "q", "v"}[i%3], i%1000) // distinct neighbours
			recs[i].Fill = [3]int{r.Pick(40), r.Pick(25), r.Pick(60)}
		}
		in := f.Render(env, recs)
		base := map[string]interface{}{"kind": "long", "format": f.Name, "schema": schema, "ext": ext, "input_hex": fmt.Sprintf("%x", in), "records": nrec}
		vh.Current(o, base)
		pipe.Watch("long " + f.Name)
		t := comp.RunReal(in, ext)
		cut := r.Between(1, nrec-1)
		ta := comp.RunReal(f.Render(env, recs[:cut]), ext)
		tb := comp.RunReal(f.Render(env, recs[cut:]), ext)
		canon, _ := json.Marshal(base)
		nf := 0
		for _, e := range t {
			if e.Kind == "fail" {
				nf++
			}
		}
		sum.Count(string(canon), nf >= 1)
		sum.Hist("kind:long")
		sum.Hist("format:" + f.Name)
		sum.Hist(fmt.Sprintf("long-input-bytes:%dk", len(in)/1024))
		_ = feats
		rt := t.Records()
		if !cleanEOF(t) || len(rt) != nrec {
			sum.Fail("long: the run did not deliver one result per record and a clean EOF", base, map[string]interface{}{"results": len(rt), "last": t[len(t)-1]})
			pipe.Unwatch()
			continue
		}
		for i := range recs {
			solo := comp.RunReal(f.Render(env, recs[i:i+1]), ext)
			if len(solo) != 2 || !eqEntry(solo[0], rt[i]) {
				var s0 interface{}
				if len(solo) > 0 {
					s0 = solo[0]
				}
				sum.Fail(fmt.Sprintf("record %d of %d: its result in the stream differs from its result when transformed alone", i, nrec), base,
					map[string]interface{}{"in_stream": rt[i], "alone": s0, "record": f.RenderRec(recs[i])})
				break
			}
		}
		pipe.Unwatch()
		want := append(append(pipe.Transcript(nil), ta.Records()...), tb.Records()...)
		if !want.Equal(rt) {
			sum.Fail(fmt.Sprintf("long: results(A++B) differ from results(A)++results(B) at position %d", pipe.FirstDiff(want, rt)), base, nil)
		}
		ids := interner{}
		la, _ := ids.list(ta.Records())
		lb, _ := ids.list(tb.Records())
		lab, _ := ids.list(rt)
		cw.Add(fmt.Sprintf("C10App %s %s %s", la, lb, lab), map[string]interface{}{"kind": "long", "format": f.Name, "records": nrec})
		retainedCheck(sum, base)
	}
}

// retainedCheck: every []byte Read handed out during this case is still what it was
func retainedCheck(sum *vh.Summary, base interface{}) {
	if bad := pipe.CheckRetained(); len(bad) > 0 {
		sum.Fail("a result slice returned by Transform.Read changed after later Reads: "+bad[0], base, map[string]interface{}{"violations": bad})
	}
}
