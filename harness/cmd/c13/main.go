// c13: oracle + correspondence harness for property C13 (caches and pools are semantically
// invisible).  The same (schema, multi-record input) pair runs under every combination of
// {node pool on/off} x {per-record transform memo on/off} x {JS caches on/off/capacity one} x
// {xpath expression cache default/capacity one}; all transcripts must be identical.
package main

import (
	"encoding/json"
	"fmt"
	"os"
	"path/filepath"
	"sort"
	"strings"
	"sync"

	"github.com/jf-tech/omniparser/idr"

	"verifharness/cmd/c10/pipe"
	"verifharness/vh"
)

type corpusCase struct {
	Name   string `json:"name"`
	Expect string `json:"expect"` // "known-finding" | "pass"
	Run    string `json:"run"`    // "last": replayed after everything else (the case leaves global bindings in the pooled JS VMs)
	What   string `json:"what"`
	pipe.Case
	InputText string `json:"input,omitempty"` // alternative to input_hex
}

type runOut struct {
	Config     string          `json:"config"`
	Transcript pipe.Transcript `json:"transcript"`
}

// runAll runs the case under all configurations, in an order drawn from r, and returns the
// transcripts indexed like pipe.AllConfigs().
func runAll(r *vh.Rng, comp *pipe.Compiled, c pipe.Case) []pipe.Transcript {
	cfgs := pipe.AllConfigs()
	order := r.Perm(len(cfgs))
	out := make([]pipe.Transcript, len(cfgs))
	in := c.Input()
	for _, k := range order {
		pipe.Apply(cfgs[k], r.Chance(0.15))
		out[k] = comp.Run(cfgs[k], in, c.Ext)
	}
	pipe.Default()
	return out
}

// differing returns the index of the first configuration whose transcript differs from the
// transcript of configuration 0 (everything on, production setting), or -1.
func differing(ts []pipe.Transcript) int {
	for k := 1; k < len(ts); k++ {
		if !ts[0].Equal(ts[k]) {
			return k
		}
	}
	return -1
}

func coqTranscripts(ts []pipe.Transcript) string {
	ids := map[string]int{}
	var rows []string
	for _, t := range ts {
		var xs []string
		for _, e := range t {
			k := e.Kind + "\x00" + e.JSON + "\x00" + e.Sum
			id, ok := ids[k]
			if !ok {
				id = len(ids) + 1
				ids[k] = id
			}
			xs = append(xs, vh.CoqN(id))
		}
		rows = append(rows, vh.CoqList(xs))
	}
	return "mkC13 " + vh.CoqList(rows)
}

func main() {
	o := vh.ParseOpts()
	r := vh.NewRng(o.Seed)
	sum := vh.NewSummary("C13", o,
		"(schema, multi-record input) pairs of the seven formats, each run under all 24 settings of {node pool, transform memo, JS caches on/off/cap 1, xpath expression cache default/cap 1}; non-trivial = the schema contains two textually identical declarations (incl. a template used at two positions) or a javascript call; distinct by (schema, input)")
	cw := vh.NewCaseWriter(o, "C13", "Model.Pipeline", "c13case", "check_c13")
	fmts := pipe.Formats()
	cfgs := pipe.AllConfigs()
	sum.Extra["configs"] = len(cfgs)

	// ---- corpus first (known findings and regression cases); cases marked "run": "last" pollute
	// the pooled JavaScript VMs of this process and are replayed after everything else ----
	var deferred []corpusCase
	runCorpus := func(cc corpusCase) {
		comp, err := pipe.Compile(cc.Schema)
		if err != nil {
			sum.Fail("corpus schema rejected: "+cc.Name, cc.Case, err.Error())
			return
		}
		vh.Current(o, cc.Case)
		pipe.Watch("corpus " + cc.Name)
		ts := runAll(r, comp, cc.Case)
		pipe.Unwatch()
		_ = pipe.CheckRetained()
		k := differing(ts)
		sum.Hist("corpus:" + cc.Name)
		fmt.Printf("corpus %s key=%s differs=%v\n", cc.Name, vh.KeyOf(cc.Case), k >= 0)
		if k >= 0 {
			sum.Fail(cc.What, cc.Case, map[string]interface{}{
				"all_on": runOut{cfgs[0].String(), ts[0]}, "differs": runOut{cfgs[k].String(), ts[k]}})
		} else if cc.Expect == "known-finding" {
			fmt.Printf("corpus %s no longer fails (finding repaired?)\n", cc.Name)
		}
	}
	if o.Corpus != "" {
		files, _ := filepath.Glob(filepath.Join(o.Corpus, "*.json"))
		sort.Strings(files)
		for _, f := range files {
			b, err := os.ReadFile(f)
			if err != nil {
				continue
			}
			var cc corpusCase
			if err := json.Unmarshal(b, &cc); err != nil {
				sum.Fail("corpus file unreadable: "+filepath.Base(f), nil, err.Error())
				continue
			}
			if cc.InputHex == "" {
				cc.Case = pipe.NewCase(cc.Format, cc.Schema, []byte(cc.InputText))
			}
			if cc.Run == "last" {
				deferred = append(deferred, cc)
				continue
			}
			runCorpus(cc)
		}
	}

	total := o.Count(300, 3000)
	for c := 0; c < total; c++ {
		f := fmts[r.Pick(len(fmts))]
		env := pipe.Env{Header: r.Chance(0.5), Trailer: r.Chance(0.5), Ctx: "H1"}
		var must []string
		lateFail := false
		dynFail := false
		switch r.Pick(19) {
		case 16, 17:
			// identical element-less arrays with keep_empty_or_null on one node
			must = []string{"empty-arrays", "plain"}
		case 18:
			// args named like built-ins, then scripts enumerating the global object
			must = []string{"js-enumerate", "js-throw"}
		case 14, 15:
			// union xpaths on array elements (element order must not depend on the node pool)
			must = []string{"union", "plain"}
		case 12, 13:
			// custom functions taking the node implicitly, evaluated on several nodes of one record
			must = []string{"implicit-node", "plain"}
		case 10, 11:
			// failing declarations inside xpath_dynamic + the identical declarations as members
			must = []string{"dyn-failing", "fuses", "plain"}
			dynFail = true
		case 7, 8:
			// a record failing late (after the ancestor-anchored declarations were evaluated)
			must = []string{"late-cast", "plain"}
			lateFail = true
		case 0:
			must = []string{"identical-decls-anchoring"}
		case 1:
			must = []string{"javascript_with_context"}
		case 2:
			must = []string{"template", "xpath_dynamic"}
		case 3, 4:
			must = []string{"template-dynamic-anchors", "plain"}
		case 5:
			must = []string{"js-whitespace"}
		case 6:
			must = []string{"js-throw", "js-global-probe"}
		}
		var extra []string
		if env.Header && f.CtxField() != "" && r.Chance(0.5) {
			extra = append(extra, f.CtxField())
		}
		if f.AncestorField() != "" && (lateFail || r.Chance(0.4)) {
			extra = append(extra, f.AncestorField())
			if r.Chance(0.4) {
				extra = append(extra, f.AncestorManyField(r.Between(12, 30)))
			}
		}
		if (f.Name == "xml" || f.Name == "json") && r.Chance(0.25) {
			env.Deep = true
			if f.Name == "json" {
				env.Header = false
			}
		}
		if f.Name != "json" && f.Name != "xml" {
			env.Ctx = ""
		}
		schema, feats := f.SchemaWith(r, must, extra, env)
		comp, err := pipe.Compile(schema)
		if err != nil {
			sum.Fail("generated schema rejected by NewSchema", map[string]string{"format": f.Name, "schema": schema}, err.Error())
			continue
		}
		// input: record-structured (with failing records) or the fixture generator, sometimes damaged
		var in []byte
		var recs []pipe.Rec
		kind := "records"
		if lateFail || dynFail || env.Deep || r.Chance(0.7) || (f.Name == "json" && env.Header) {
			n := r.Between(2, 7)
			recs = make([]pipe.Rec, n)
			for i := range recs {
				recs[i] = pipe.GenRec(r, f, false)
				if lateFail && i > 0 && i < n-1 && r.Chance(0.5) {
					recs[i].B = "9z" // fails in zcast, the last field evaluated
				}
				if dynFail && r.Chance(0.4) {
					recs[i] = pipe.MakeFailing(recs[i], r.PickStr("multi-match", "custom-func"))
				}
				recs[i] = f.Place(r, env, recs[i])
			}
			// equal records now and then: same content under different node IDs
			if r.Chance(0.3) {
				recs[r.Pick(n)] = recs[r.Pick(n)]
			}
			in = f.Render(env, recs)
		} else {
			in, kind = vh.Mutate(r, f.Fixture.Gen(r, r.Between(2, 8)))
			kind = "fixture-" + kind
		}
		cs := pipe.NewCase(f.Name, schema, in)
		cs.Ext = pipe.GenExt(r.Pick)
		vh.Current(o, cs)
		pipe.Watch(f.Name)
		ts := runAll(r, comp, cs)
		// the own ingester loop with the memo ON must reproduce the public API (validates the loop
		// the memo-off runs go through)
		pipe.Default()
		own := comp.RunOwn(in, cs.Ext, false)
		pipe.Unwatch()

		nontrivial := feats["identical-decls"] || feats["identical-decls-anchoring"] || feats["template"] ||
			feats["javascript"] || feats["javascript_with_context"] || feats["template-dynamic-anchors"] ||
			feats["js-whitespace"] || feats["js-throw"] || feats["js-global-probe"] || feats["implicit-node"] ||
			feats["empty-arrays"] || feats["js-enumerate"]
		canon, _ := json.Marshal(cs)
		sum.Count(string(canon), nontrivial)
		sum.Hist("format:" + f.Name)
		sum.Hist("input:" + kind)
		for _, k := range feats.Keys() {
			sum.Hist("feature:" + k)
		}
		nrec, nfail := 0, 0
		for _, e := range ts[0] {
			switch e.Kind {
			case "rec":
				nrec++
			case "fail":
				nfail++
			}
		}
		sum.Hist(fmt.Sprintf("records-delivered:%d", nrec))
		if nfail > 0 {
			sum.Hist("has-failing-record")
		}
		if n := len(ts[0]); n > 0 {
			sum.Hist("terminal:" + ts[0][n-1].Kind)
		}
		sum.Sample(map[string]interface{}{"case": cs, "features": feats.Keys(), "transcript_all_on": ts[0], "configs": len(cfgs)})

		for _, t := range ts {
			for _, e := range t {
				if e.Kind == "panic" || e.Kind == "cap" {
					sum.Fail("run ended with "+e.Kind, cs, e.Msg)
				}
			}
		}
		if k := differing(ts); k >= 0 {
			// shrink: drop records while the two configurations still disagree
			shrunkFrom := len(recs)
			for changed := recs != nil; changed; {
				changed = false
				for j := 0; j < len(recs) && len(recs) > 1; j++ {
					cand := append(append([]pipe.Rec(nil), recs[:j]...), recs[j+1:]...)
					cin := f.Render(env, cand)
					pipe.Apply(cfgs[0], true)
					a := comp.Run(cfgs[0], cin, cs.Ext)
					pipe.Apply(cfgs[k], true)
					b := comp.Run(cfgs[k], cin, cs.Ext)
					if !a.Equal(b) {
						recs, changed = cand, true
						ts[0], ts[k] = a, b
						ext := cs.Ext
						cs = pipe.NewCase(f.Name, schema, cin)
						cs.Ext = ext
						break
					}
				}
			}
			pipe.Default()
			_ = shrunkFrom
			i := pipe.FirstDiff(ts[0], ts[k])
			sum.Fail("transcript under ["+cfgs[k].String()+"] differs from the transcript with everything on (first difference at result "+fmt.Sprint(i)+")",
				cs, map[string]interface{}{"all_on": runOut{cfgs[0].String(), ts[0]}, "differs": runOut{cfgs[k].String(), ts[k]},
					"features": strings.Join(feats.Keys(), ",")})
		}
		// every declaration behaves as written, under every configuration
		for k, t := range ts {
			if bad := pipe.CheckOutputs(feats, cs.Ext, t); len(bad) > 0 {
				sum.Fail("output relation violated under ["+cfgs[k].String()+"]: "+bad[0], cs,
					map[string]interface{}{"violations": bad, "transcript": runOut{cfgs[k].String(), t}})
				break
			}
		}
		if bad := pipe.CheckRetained(); len(bad) > 0 {
			sum.Fail("a result slice returned by Transform.Read changed after later Reads: "+bad[0], cs, map[string]interface{}{"violations": bad})
		}
		if lateFail {
			sum.Hist("late-failing-record-with-ancestor-declarations")
		}
		if dynFail {
			sum.Hist("failing-declaration-inside-xpath_dynamic")
		}
		if !own.Equal(ts[0]) {
			sum.Fail("harness ingester loop (memo on) differs from Transform.Read: the built-in ingester no longer is release-read-parse(fresh ParseCtx)-marshal",
				cs, map[string]interface{}{"public_api": ts[0], "own_loop": own})
		}
		cw.Add(coqTranscripts(append(ts, own)), map[string]interface{}{"case": cs})
	}
	concurrentProbes(o, r, sum, fmts)
	for _, cc := range deferred { // nothing runs after these
		runCorpus(cc)
	}
	cw.Flush()
	sum.CaseFiles = cw.Files
	sum.Write(o)
}

// concurrentProbes: what makes the ID-keyed caches safe is that node IDs are unique process-wide,
// also when several transforms run in different goroutines.  (1) IDs handed out to goroutines
// creating and recycling nodes at the same time are pairwise distinct; (2) transforms with
// javascript_with_context on the record node, run concurrently, give their sequential transcripts.
func concurrentProbes(o *vh.Opts, r *vh.Rng, sum *vh.Summary, fmts []pipe.Fmt) {
	pipe.Default()
	const G, K = 8, 40000
	vh.Current(o, map[string]interface{}{"probe": "concurrent node ID uniqueness", "goroutines": G, "acquisitions_each": K})
	ids := make([][]int64, G)
	var wg sync.WaitGroup
	for g := 0; g < G; g++ {
		wg.Add(1)
		go func(g int) {
			defer wg.Done()
			out := make([]int64, 0, K)
			for len(out) < K {
				root := idr.CreateNode(idr.ElementNode, "p")
				out = append(out, root.ID)
				for j := 0; j < 6 && len(out) < K; j++ {
					c := idr.CreateNode(idr.TextNode, "x")
					out = append(out, c.ID)
					idr.AddChild(root, c)
				}
				idr.RemoveAndReleaseTree(root)
			}
			ids[g] = out
		}(g)
	}
	wg.Wait()
	seen := make(map[int64]int, G*K)
	dups := 0
	var example int64
	for g := range ids {
		for _, id := range ids[g] {
			if _, dup := seen[id]; dup {
				dups++
				example = id
			}
			seen[id] = g
		}
	}
	sum.Hist("concurrent-id-probe")
	if dups > 0 {
		sum.Fail(fmt.Sprintf("node IDs handed out to concurrently running goroutines are not unique: %d duplicates among %d acquisitions (e.g. ID %d)", dups, G*K, example),
			map[string]interface{}{"probe": "concurrent node ID uniqueness", "goroutines": G, "acquisitions_each": K}, nil)
	}

	// (2) concurrent transforms
	f := fmts[1] // csv2
	env := pipe.Env{Header: true}
	schema, feats := f.SchemaWith(r, []string{"javascript_with_context", "plain"}, nil, env)
	comp, err := pipe.Compile(schema)
	if err != nil {
		return
	}
	const W = 6
	inputs := make([][]byte, W)
	seq := make([]pipe.Transcript, W)
	ext := pipe.GenExt(r.Pick)
	for w := 0; w < W; w++ {
		recs := make([]pipe.Rec, 400)
		for i := range recs {
			recs[i] = pipe.GenRec(r, f, true)
			recs[i].A = fmt.Sprintf("w%d-%d", w, i)
		}
		inputs[w] = f.Render(env, recs)
		seq[w] = comp.RunReal(inputs[w], ext)
	}
	_ = pipe.CheckRetained()
	vh.Current(o, map[string]interface{}{"probe": "concurrent transforms", "schema": schema, "workers": W})
	par := make([]pipe.Transcript, W)
	for w := 0; w < W; w++ {
		wg.Add(1)
		go func(w int) {
			defer wg.Done()
			par[w] = comp.RunUnretained(inputs[w], ext)
		}(w)
	}
	wg.Wait()
	sum.Hist("concurrent-transforms-probe")
	for w := 0; w < W; w++ {
		if !par[w].Equal(seq[w]) {
			i := pipe.FirstDiff(par[w], seq[w])
			sum.Fail(fmt.Sprintf("a transform run concurrently with %d others differs from its sequential transcript (first difference at result %d)", W-1, i),
				pipe.NewCase(f.Name, schema, inputs[w]), map[string]interface{}{"features": feats.Keys(), "worker": w})
			break
		}
	}
}
