// c01: correspondence + oracle harness for property C01 (Read/RawRecord result-stream contract).
package main

import (
	"encoding/hex"
	"encoding/json"
	"errors"
	"fmt"
	"io"
	"os"
	"sync/atomic"
	"time"
	"unicode/utf8"

	"github.com/jf-tech/omniparser"
	"github.com/jf-tech/omniparser/errs"
	"github.com/jf-tech/omniparser/idr"
	"github.com/jf-tech/omniparser/schemahandler"
	"github.com/jf-tech/omniparser/transformctx"

	"verifharness/vh"
)

// ---- scripted (caller-supplied) handler ------------------------------------------------------

type valErr struct{ s string }

func (e valErr) Error() string { return e.s }

type ptrErr struct{ s string }

func (e *ptrErr) Error() string { return e.s }

type mockRaw struct{ id int }

func (m *mockRaw) Raw() interface{} { return m.id }
func (m *mockRaw) Checksum() string  { return fmt.Sprint(m.id) }

type mockStep struct {
	Kind  string `json:"kind"`
	Cont  bool   `json:"cont"`
	raw   schemahandler.RawRecord
	bytes []byte
	err   error
}

type mockIngester struct {
	script []mockStep
	pos    int
	last   *mockStep
	log    *vh.Log
}

func (m *mockIngester) Read() (schemahandler.RawRecord, []byte, error) {
	var st *mockStep
	if m.pos < len(m.script) {
		st = &m.script[m.pos]
		m.pos++
	} else {
		st = &mockStep{Kind: "eof", err: io.EOF}
	}
	m.last = st
	m.log.Ing = append(m.log.Ing, vh.IngEvent{Raw: st.raw, Bytes: st.bytes, Err: st.err, Cont: st.Cont && st.err != nil})
	m.log.IngCall++
	return st.raw, st.bytes, st.err
}
func (m *mockIngester) IsContinuableError(err error) bool { return m.last != nil && m.last.Cont }
func (m *mockIngester) FmtErr(f string, a ...interface{}) error {
	return fmt.Errorf(f, a...)
}

type mockHandler struct{ mk func() *mockIngester }

func (h *mockHandler) NewIngester(ctx *transformctx.Ctx, input io.Reader) (schemahandler.Ingester, error) {
	return h.mk(), nil
}

const mockSchema = `{"parser_settings": {"version": "verif.mock", "file_format_type": "mock"}}`

func genScript(r *vh.Rng) []mockStep {
	n := r.Between(0, 12)
	var sc []mockStep
	sharedPtr := &ptrErr{"shared pointer error"}
	for i := 0; i < n; i++ {
		switch r.Pick(11) {
		case 0, 1, 2, 3:
			sc = append(sc, mockStep{Kind: "ok", raw: &mockRaw{i + 1}, bytes: []byte(fmt.Sprintf(`{"i":%d}`, i))})
		case 4:
			sc = append(sc, mockStep{Kind: "failed", Cont: true, err: errs.ErrTransformFailed(fmt.Sprintf("failed %d", r.Pick(3)))})
		case 5:
			sc = append(sc, mockStep{Kind: "plain-cont", Cont: true, err: errors.New("plain continuable")})
		case 6:
			// bytes and raw returned together with an error: the transform must drop them
			sc = append(sc, mockStep{Kind: "err-with-bytes", Cont: r.Chance(0.5), raw: &mockRaw{100 + i}, bytes: []byte(`{"bad":1}`), err: valErr{"value error"}})
		case 7:
			sc = append(sc, mockStep{Kind: "ptr-fatal", Cont: false, err: sharedPtr})
		case 8:
			// ErrTransformFailed that the ingester itself declares non-continuable: still not terminal
			sc = append(sc, mockStep{Kind: "failed-noncont", Cont: false, err: errs.ErrTransformFailed("failed, ingester says stop")})
		case 9:
			if r.Chance(0.5) {
				// a fatal error that wraps the per-record failure which caused it: still terminal
				sc = append(sc, mockStep{Kind: "fatal-wraps-failed", Cont: false, err: fmt.Errorf("giving up, too many bad records: %w", errs.ErrTransformFailed("bad record"))})
			} else {
				sc = append(sc, mockStep{Kind: "fatal-wraps-eof", Cont: false, err: fmt.Errorf("unexpected end: %w", io.EOF)})
			}
		default:
			sc = append(sc, mockStep{Kind: "eof", Cont: r.Chance(0.1), err: io.EOF})
		}
	}
	return sc
}

// ---- driving a transform and checking the contract on the implementation ---------------------

type opOut struct {
	Op    string   `json:"op"`
	Bytes *string  `json:"bytes,omitempty"`
	Err   *vh.ErrV `json:"err,omitempty"`
	Raw   int      `json:"raw,omitempty"`
	Calls int      `json:"calls"` // ingester calls made so far
	coq   string
}

type runResult struct {
	retained  [][]byte // the raw slices Read returned (not copied)
	copies    []string // their content at return time
	Ops       []string
	Outs      []opOut
	Violation string
	AfterTerm int // operations issued after the first terminal result
	Terminal  bool
	RawDescs  []string // built-in handler: what each successful RawRecord call described (checksum + node as JSON)
}

// drive issues ops on t; ops is extended with Reads until a terminal result (bounded) and a
// forced tail of >=5 mixed calls after it.
func drive(r *vh.Rng, t omniparser.Transform, log *vh.Log, ei *vh.ErrIntern, builtin bool, maxReads int, fixed []string) *runResult {
	res := &runResult{}
	raws := map[schemahandler.RawRecord]int{}
	bytesIDs := map[string]int{}
	rawID := func(x schemahandler.RawRecord) int {
		if builtin {
			return 1
		}
		if m, ok := x.(*mockRaw); ok {
			return m.id
		}
		id, ok := raws[x]
		if !ok {
			id = len(raws) + 1
			raws[x] = id
		}
		return id
	}
	var lastReadErr error
	var lastReadOK, anyRead bool
	var termErr error
	var termCalls int
	fail := func(f string, a ...interface{}) {
		if res.Violation == "" {
			res.Violation = fmt.Sprintf(f, a...)
		}
	}
	doOp := func(op string) {
		res.Ops = append(res.Ops, op)
		if termErr != nil {
			res.AfterTerm++
		}
		if op == "Read" {
			b, err := t.Read()
			o := opOut{Op: op, Calls: log.IngCall}
			be, ee := "None", "None"
			if b != nil {
				s := string(b)
				res.retained = append(res.retained, b)
				res.copies = append(res.copies, s)
				o.Bytes = &s
				id, ok := bytesIDs[s]
				if !ok {
					id = len(bytesIDs) + 1
					bytesIDs[s] = id
				}
				be = "(Some " + vh.CoqN(id) + ")"
			}
			if err != nil {
				v := ei.Of(err)
				o.Err = &v
				ee = "(Some " + v.Coq() + ")"
			}
			o.coq = "OutRead " + be + " " + ee
			res.Outs = append(res.Outs, o)
			// -- oracle, on the implementation --
			if err == nil {
				if b == nil {
					fail("Read returned nil bytes with nil error")
				} else if !json.Valid(b) || !utf8.Valid(b) {
					fail("Read returned bytes that are not valid UTF-8 JSON: %q", b)
				}
			} else if b != nil {
				fail("Read returned bytes together with error %v", err)
			}
			if termErr != nil {
				if !vh.SameErr(err, termErr) {
					fail("Read after terminal error %q returned a different result: %v", termErr, err)
				}
				if log.IngCall != termCalls {
					fail("ingester consulted again after terminal error %q", termErr)
				}
			} else if err != nil && !vh.IsFailed(err) {
				termErr, termCalls = err, log.IngCall
				res.Terminal = true
			}
			anyRead, lastReadErr, lastReadOK = true, err, err == nil
		} else {
			raw, err := t.RawRecord()
			o := opOut{Op: op, Calls: log.IngCall}
			switch {
			case err == nil && raw != nil:
				o.Raw = rawID(raw)
				o.coq = "OutRaw (RROk " + vh.CoqN(o.Raw) + ")"
				if builtin {
					d := raw.Checksum()
					if n, ok := raw.Raw().(*idr.Node); ok && n != nil {
						d += " " + idr.JSONify2(n)
					}
					res.RawDescs = append(res.RawDescs, d)
				}
			case err != nil && anyRead && lastReadErr != nil:
				v := ei.Of(err)
				o.Err = &v
				o.coq = "OutRaw (RRErr " + v.Coq() + ")"
			default:
				if err != nil {
					v := ei.Of(err)
					o.Err = &v
				}
				o.coq = "OutRaw RRCallFirst"
			}
			res.Outs = append(res.Outs, o)
			// -- oracle --
			switch {
			case !anyRead:
				if err == nil || raw != nil {
					fail("RawRecord before any Read did not return an error")
				}
			case lastReadOK:
				if err != nil || raw == nil {
					fail("RawRecord after a successful Read failed: %v", err)
				} else if n := len(log.Ing); n > 0 && log.Ing[n-1].Raw != raw {
					fail("RawRecord does not describe the record of the most recent Read")
				}
			default:
				if raw != nil || !vh.SameErr(err, lastReadErr) {
					fail("RawRecord after a failed Read returned (%v, %v), want that Read's error %v", raw, err, lastReadErr)
				}
			}
		}
	}
	defer func() {
		// the bytes of a returned record must stay what they were, whatever is read afterwards
		for i, b := range res.retained {
			if string(b) != res.copies[i] {
				fail("a record returned by Read changed after later calls: was %q, is now %q", res.copies[i], b)
				break
			}
		}
	}()
	if fixed != nil {
		for _, op := range fixed {
			doOp(op)
		}
		return res
	}
	n := r.Between(0, 40)
	reads := 0
	for i := 0; i < n; i++ {
		if r.Chance(0.6) {
			doOp("Read")
			reads++
		} else {
			doOp("RawRecord")
		}
	}
	for termErr == nil && reads < maxReads {
		doOp("Read")
		reads++
		if r.Chance(0.3) {
			doOp("RawRecord")
		}
	}
	if termErr != nil {
		for i, k := 0, r.Between(5, 9); i < k; i++ {
			if r.Chance(0.6) {
				doOp("Read")
			} else {
				doOp("RawRecord")
			}
		}
	}
	return res
}

func coqOps(ops []string) string {
	var xs []string
	for _, o := range ops {
		if o == "Read" {
			xs = append(xs, "OpRead")
		} else {
			xs = append(xs, "OpRaw")
		}
	}
	return vh.CoqList(xs)
}

func coqOuts(outs []opOut) string {
	var xs []string
	for _, o := range outs {
		xs = append(xs, o.coq)
	}
	return vh.CoqList(xs)
}

func main() {
	o := vh.ParseOpts()
	r := vh.NewRng(o.Seed)
	sum := vh.NewSummary("C01", o,
		"histories of Read/RawRecord calls on real Transforms (seven built-in formats over generated and damaged inputs, plus a scripted caller-supplied handler); non-trivial = the history reaches a terminal result and issues >=1 further call after it; distinct by (handler kind, input/script, op list)")
	cw := vh.NewCaseWriter(o, "C01", "Base.ErrClass Model.Latch", "c01case", "check_case")
	// the same latch cases once more, through the interpretation of the statements extracted from
	// transform.go (Gen/LatchShape.v); separate files, so that the hand-written model is still
	// compared when the extracted shape is no longer recognised
	cwSrc = vh.NewCaseWriter(o, "C01s", "Base.ErrClass Model.Latch Model.LatchShape", "c01case", "check_case_src")
	fixtures := append(vh.Fixtures(), vh.ExtraFixtures()...)
	total := o.Count(1500, 40000)
	// a call into the library that never returns is a violation too ("every Read call returns"):
	// leave the case marker of vh.Current in place and stop, bin/check reports that case
	var progress int64
	go func() {
		last, since := int64(-1), time.Now()
		for {
			time.Sleep(time.Second)
			if p := atomic.LoadInt64(&progress); p != last {
				last, since = p, time.Now()
			} else if time.Since(since) > 40*time.Second {
				fmt.Println("watchdog: a call into the library did not return within 40 s (hang); the case being run is in current.json")
				os.Exit(3)
			}
		}
	}()

	schemas := make([]*vh.LoggedSchema, len(fixtures))
	for i, f := range fixtures {
		ls, err := vh.NewLoggedSchema("fx-"+f.Format, []byte(f.Schema), nil)
		if err != nil {
			fmt.Println("fixture schema rejected:", f.Format, err)
			sum.Fail("fixture schema for "+f.Format+" rejected by NewSchema", map[string]string{"format": f.Format}, err.Error())
			continue
		}
		schemas[i] = ls
	}

	if o.Replay != "" {
		replay(o, sum, cw, fixtures, schemas)
		cw.Flush()
		cwSrc.Flush()
		sum.CaseFiles = append(cw.Files, cwSrc.Files...)
		sum.Write(o)
		return
	}
	for c := 0; c < total; c++ {
		atomic.AddInt64(&progress, 1)
		ei := vh.NewErrIntern()
		if r.Chance(0.3) {
			// ---- caller-supplied handler with a scripted ingester ----
			script := genScript(r)
			log := &vh.Log{FmtIdx: -1}
			ext := omniparser.Extension{CreateSchemaHandler: func(ctx *schemahandler.CreateCtx) (schemahandler.SchemaHandler, error) {
				if ctx.Header.ParserSettings.Version != "verif.mock" {
					return nil, errs.ErrSchemaNotSupported
				}
				return &mockHandler{mk: func() *mockIngester { return &mockIngester{script: script, log: log} }}, nil
			}}
			s, err := omniparser.NewSchema("mock", stringsReader(mockSchema), ext)
			if err != nil {
				sum.Fail("mock schema rejected", nil, err.Error())
				continue
			}
			t, err := s.NewTransform("mock-input", stringsReader(""), &transformctx.Ctx{})
			if err != nil {
				sum.Fail("mock NewTransform failed", nil, err.Error())
				continue
			}
			res := drive(r, t, log, ei, false, len(script)+3, nil)
			kinds := []string{}
			for _, st := range script {
				kinds = append(kinds, st.Kind)
				sum.Hist("mock-step:" + st.Kind)
			}
			desc := map[string]interface{}{"handler": "mock", "script": script, "ops": res.Ops}
			finish(sum, cw, ei, "mock", desc, log, res, -1)
			continue
		}
		// ---- built-in handler ----
		fi := r.Pick(len(fixtures))
		if schemas[fi] == nil {
			continue
		}
		in, kind := vh.Mutate(r, fixtures[fi].Gen(r, r.Between(0, 8)))
		sum.Hist("input:" + kind)
		sum.Hist("format:" + fixtures[fi].Format)
		vh.Current(o, map[string]interface{}{"handler": "builtin", "format": fixtures[fi].Format, "schema": fixtures[fi].Schema, "input_hex": fmt.Sprintf("%x", in)})
		t, log, err := schemas[fi].NewTransform("in", bytesReader(in))
		if err != nil {
			sum.Hist("newtransform-error")
			continue
		}
		res := drive(r, t, log, ei, true, len(in)+5, nil)
		desc := map[string]interface{}{"handler": "builtin", "format": fixtures[fi].Format, "schema": fixtures[fi].Schema,
			"input_hex": fmt.Sprintf("%x", in), "ops": res.Ops}
		if res.Violation == "" && r.Chance(0.15) {
			// What Read returns and what RawRecord describes belongs to the record, not to what the
			// process did before: transform inputs of other formats (their nodes go back to the node
			// pool), then the same input again with the same calls, and compare.
			sum.Hist("rerun-after-other-formats")
			for _, oi := range []int{5, 6, len(fixtures) - 1} { // json, xml fixtures and the last extra one (xml)
				if oi == fi || schemas[oi] == nil {
					continue
				}
				if ot, _, oerr := schemas[oi].NewTransform("other", bytesReader(fixtures[oi].Gen(r, 6))); oerr == nil {
					for k := 0; k < 12; k++ {
						if _, e := ot.Read(); e != nil && !vh.IsFailed(e) {
							break
						}
					}
				}
			}
			// ... and an XML document with namespace prefixes, read and released node by node
			if xr, xerr := idr.NewXMLStreamReader(bytesReader([]byte(`<p:r xmlns:p="urn:p"><p:n p:k="1"><p:a>x</p:a><p:b>2</p:b></p:n><p:n><p:a>y</p:a></p:n><p:n p:k="3"/></p:r>`)), "/p:r/p:n"); xerr == nil {
				for {
					xn, e := xr.Read()
					if e != nil {
						break
					}
					xr.Release(xn)
				}
			}
			if t2, log2, err2 := schemas[fi].NewTransform("in", bytesReader(in)); err2 == nil {
				res2 := drive(r, t2, log2, vh.NewErrIntern(), true, len(in)+5, res.Ops)
				same := len(res.copies) == len(res2.copies) && len(res.RawDescs) == len(res2.RawDescs)
				for i := 0; same && i < len(res.copies); i++ {
					same = res.copies[i] == res2.copies[i]
				}
				for i := 0; same && i < len(res.RawDescs); i++ {
					same = res.RawDescs[i] == res2.RawDescs[i]
				}
				if !same && res2.Violation == "" {
					res.Violation = fmt.Sprintf("the same input transformed again later in the process (after inputs of other formats) gives different records or RawRecord descriptions: first %q / %q, then %q / %q",
						res.copies, res.RawDescs, res2.copies, res2.RawDescs)
				}
			}
		}
		finish(sum, cw, ei, fixtures[fi].Format, desc, log, res, log.FmtIdx)
	}
	cw.Flush()
	cwSrc.Flush()
	sum.CaseFiles = append(cw.Files, cwSrc.Files...)
	sum.Write(o)
}

func finish(sum *vh.Summary, cw *vh.CaseWriter, ei *vh.ErrIntern, kind string, desc map[string]interface{}, log *vh.Log, res *runResult, fmtIdx int) {
	canon, _ := json.Marshal(desc)
	sum.Count(string(canon), res.Terminal && res.AfterTerm >= 1)
	if res.Terminal {
		sum.Hist("reached-terminal")
	} else {
		sum.Hist("no-terminal-within-cap")
	}
	sum.Hist(fmt.Sprintf("ops:%d-%d", len(res.Ops)/10*10, len(res.Ops)/10*10+9))
	// what the ingester returned on each call the transform made (the paths of the extracted
	// statements of transform.Read that the logged runs drive the model and the interpreter through)
	for _, ev := range log.Ing {
		switch {
		case ev.Err == nil:
			sum.Hist("ingester-call:success")
		case ev.Cont && (ev.Bytes != nil || ev.Raw != nil):
			sum.Hist("ingester-call:continuable-error-with-bytes-or-raw")
		case ev.Cont:
			sum.Hist("ingester-call:continuable-error")
		case vh.IsFailed(ev.Err):
			sum.Hist("ingester-call:failed-but-declared-noncontinuable")
		case ev.Bytes != nil || ev.Raw != nil:
			sum.Hist("ingester-call:terminal-error-with-bytes-or-raw")
		default:
			sum.Hist("ingester-call:terminal-error")
		}
	}
	for i, op := range res.Ops {
		if op != "RawRecord" {
			continue
		}
		switch {
		case i == 0 || !contains(res.Ops[:i], "Read"):
			sum.Hist("rawrecord:before-any-read")
		case res.Outs[i].Err != nil:
			sum.Hist("rawrecord:after-failed-read")
		default:
			sum.Hist("rawrecord:after-successful-read")
		}
	}
	desc["outs"] = res.Outs
	sum.Sample(desc)

	// ---- built-in: reader-level expectations (EOF and fatal surface unwrapped) ----
	if fmtIdx >= 0 && res.Violation == "" {
		for _, ev := range log.Reader {
			if ev.Release || ev.Err == nil {
				continue
			}
			wantTerminal := ev.Err == io.EOF || vh.IsFatal(fmtIdx, ev.Err)
			// find the Read output that followed: the first error output equal/wrapping
			found := false
			for _, o := range res.Outs {
				if o.Op != "Read" || o.Err == nil {
					continue
				}
				if wantTerminal && o.Err.Cls != "CFailed" && o.Err.Txt == ev.Err.Error() {
					found = true
				}
				if !wantTerminal && o.Err.Cls == "CFailed" && o.Err.Txt == ev.Err.Error() {
					found = true
				}
			}
			if !found {
				if wantTerminal {
					res.Violation = fmt.Sprintf("reader returned terminal error %q but no Read surfaced it unchanged", ev.Err)
				} else {
					res.Violation = fmt.Sprintf("reader returned continuable error %q but no Read reported it as ErrTransformFailed", ev.Err)
				}
			}
		}
	}
	if res.Violation != "" {
		sum.Fail(res.Violation, desc, nil)
	}

	// ---- latch case: logged ingester results + ops + outputs ----
	var script []string
	rawIDs := map[schemahandler.RawRecord]int{}
	bytesIDs := map[string]int{}
	// the same interning as drive(): bytes by content in order of first appearance in outputs;
	// rebuild from outputs so ids agree.
	for _, o := range res.Outs {
		if o.Op == "Read" && o.Bytes != nil {
			if _, ok := bytesIDs[*o.Bytes]; !ok {
				bytesIDs[*o.Bytes] = len(bytesIDs) + 1
			}
		}
	}
	nextB := 100000
	_ = rawIDs
	rawOf := func(x schemahandler.RawRecord) string {
		if x == nil {
			return "None"
		}
		if fmtIdx >= 0 {
			return "(Some 1%N)"
		}
		if m, ok := x.(*mockRaw); ok {
			return "(Some " + vh.CoqN(mockRawID(m, res)) + ")"
		}
		return "(Some 999%N)"
	}
	for _, ev := range log.Ing {
		b := "None"
		if ev.Bytes != nil {
			id, ok := bytesIDs[string(ev.Bytes)]
			if !ok {
				nextB++
				id = nextB
			}
			b = "(Some " + vh.CoqN(id) + ")"
		}
		script = append(script, fmt.Sprintf("mkIng %s %s %s %s", rawOf(ev.Raw), b, vh.CoqOptErr(ei, ev.Err), vh.CoqBool(ev.Cont)))
	}
	term := fmt.Sprintf("LCase (mkLCase %s %s %s %s)", vh.CoqList(script), coqOps(res.Ops), coqOuts(res.Outs), vh.CoqN(log.IngCall))
	cw.Add(term, desc)
	cwSrc.Add(term, desc)

	// ---- built-in ingester case: logged reader steps -> ingester results and reader calls ----
	if fmtIdx >= 0 {
		var steps, results, events []string
		nodeIDs := map[interface{}]int{}
		nid := func(n interface{}) int {
			id, ok := nodeIDs[n]
			if !ok {
				id = len(nodeIDs) + 1
				nodeIDs[n] = id
			}
			return id
		}
		ingIdx := 0
		for _, ev := range log.Reader {
			if ev.Release {
				events = append(events, "EvRelease "+vh.CoqN(nid(ev.Node)))
				continue
			}
			events = append(events, "EvRead")
			node := "None"
			if ev.Node != nil {
				node = "(Some " + vh.CoqN(nid(ev.Node)) + ")"
			}
			parse, marshal := "PROk 0%N", "MOk 0%N"
			if ingIdx < len(log.Ing) {
				ie := log.Ing[ingIdx]
				if ev.Err == nil {
					switch {
					case ie.Err != nil && ie.Raw == nil:
						parse = "PRErr " + vh.CoqN(ei.Of(ie.Err).Msg)
					case ie.Err != nil:
						marshal = "MErr " + ei.Of(ie.Err).Coq()
					default:
						id, ok := bytesIDs[string(ie.Bytes)]
						if !ok {
							nextB++
							id = nextB
						}
						marshal = "MOk " + vh.CoqN(id)
					}
				}
			}
			ingIdx++
			steps = append(steps, fmt.Sprintf("mkRdStep (mkRd %s %s) %s (%s) (%s)", node, vh.CoqOptErr(ei, ev.Err), vh.CoqBool(ev.Cont), parse, marshal))
		}
		// bytes ids of ingester results must be consistent with the marshal ids above
		nextB2 := 100000
		for _, ev := range log.Ing {
			b := "None"
			if ev.Bytes != nil {
				id, ok := bytesIDs[string(ev.Bytes)]
				if !ok {
					nextB2++
					id = nextB2
				}
				b = "(Some " + vh.CoqN(id) + ")"
			}
			results = append(results, fmt.Sprintf("mkIng %s %s %s %s", rawOf(ev.Raw), b, vh.CoqOptErr(ei, ev.Err), vh.CoqBool(ev.Cont)))
		}
		fatalTy := ei.TypeID(fatalTypeName(fmtIdx))
		for _, ev := range log.Reader {
			if !ev.Release && ev.Err != nil && vh.IsFatal(fmtIdx, ev.Err) {
				fatalTy = ei.Of(ev.Err).Ty
			}
		}
		term := fmt.Sprintf("ICase (mkICase %s %s %s %s %s)", vh.CoqNat(fmtIdx), vh.CoqN(fatalTy), vh.CoqList(steps), vh.CoqList(results), vh.CoqList(events))
		cw.Add(term, desc)
	}
}

// fatalTypeName is the reflect type string of each format's fatal error type.
func fatalTypeName(fmtIdx int) string {
	return []string{"csv.ErrInvalidHeader", "csv.ErrInvalidCSV", "edi.ErrInvalidEDI", "fixedlength.ErrInvalidEnvelope",
		"fixedlength.ErrInvalidFixedLength", "json.ErrNodeReadingFailed", "xml.ErrNodeReadingFailed"}[fmtIdx]
}

var cwSrc *vh.CaseWriter

func mockRawID(m *mockRaw, res *runResult) int { return m.id }

func contains(xs []string, x string) bool {
	for _, y := range xs {
		if y == x {
			return true
		}
	}
	return false
}

// replay re-runs exactly the case stored in a replay file on the current tree and prints both
// the operations and what the implementation returned.
func replay(o *vh.Opts, sum *vh.Summary, cw *vh.CaseWriter, fixtures []vh.Fixture, schemas []*vh.LoggedSchema) {
	var rf struct {
		Case struct {
			Handler  string     `json:"handler"`
			Format   string     `json:"format"`
			Schema   string     `json:"schema"`
			InputHex string     `json:"input_hex"`
			Ops      []string   `json:"ops"`
			Script   []mockStep `json:"script"`
		} `json:"case"`
	}
	b, err := os.ReadFile(o.Replay)
	if err != nil || json.Unmarshal(b, &rf) != nil {
		fmt.Println("cannot read replay file", o.Replay, err)
		os.Exit(2)
	}
	ei := vh.NewErrIntern()
	r := vh.NewRng(o.Seed)
	c := rf.Case
	if c.Handler == "builtin" {
		for fi, f := range fixtures {
			if f.Format != c.Format || (c.Schema != "" && f.Schema != c.Schema) || schemas[fi] == nil {
				continue
			}
			in, _ := hex.DecodeString(c.InputHex)
			t, log, err := schemas[fi].NewTransform("in", bytesReader(in))
			if err != nil {
				fmt.Println("NewTransform:", err)
				return
			}
			res := drive(r, t, log, ei, true, 0, c.Ops)
			desc := map[string]interface{}{"handler": "builtin", "format": f.Format, "schema": f.Schema, "input_hex": c.InputHex, "ops": res.Ops}
			finish(sum, cw, ei, f.Format, desc, log, res, log.FmtIdx)
			printRun(res)
		}
		return
	}
	script := c.Script
	for i := range script {
		st := &script[i]
		switch st.Kind {
		case "ok":
			st.raw, st.bytes = &mockRaw{i + 1}, []byte(fmt.Sprintf(`{"i":%d}`, i))
		case "failed":
			st.err = errs.ErrTransformFailed("failed")
		case "plain-cont":
			st.err = errors.New("plain continuable")
		case "err-with-bytes":
			st.raw, st.bytes, st.err = &mockRaw{100 + i}, []byte(`{"bad":1}`), valErr{"value error"}
		case "ptr-fatal":
			st.err = &ptrErr{"pointer error"}
		case "failed-noncont":
			st.err = errs.ErrTransformFailed("failed, ingester says stop")
		case "fatal-wraps-failed":
			st.err = fmt.Errorf("giving up, too many bad records: %w", errs.ErrTransformFailed("bad record"))
		case "fatal-wraps-eof":
			st.err = fmt.Errorf("unexpected end: %w", io.EOF)
		default:
			st.err = io.EOF
		}
	}
	log := &vh.Log{FmtIdx: -1}
	ext := omniparser.Extension{CreateSchemaHandler: func(ctx *schemahandler.CreateCtx) (schemahandler.SchemaHandler, error) {
		return &mockHandler{mk: func() *mockIngester { return &mockIngester{script: script, log: log} }}, nil
	}}
	s, err := omniparser.NewSchema("mock", stringsReader(mockSchema), ext)
	if err != nil {
		fmt.Println("NewSchema:", err)
		return
	}
	t, _ := s.NewTransform("mock-input", stringsReader(""), &transformctx.Ctx{})
	res := drive(r, t, log, ei, false, 0, c.Ops)
	desc := map[string]interface{}{"handler": "mock", "script": script, "ops": res.Ops}
	finish(sum, cw, ei, "mock", desc, log, res, -1)
	printRun(res)
}

func printRun(res *runResult) {
	for i, o := range res.Outs {
		b, _ := json.Marshal(o)
		fmt.Printf("%3d %s\n", i, b)
	}
	if res.Violation != "" {
		fmt.Println("ORACLE FAILS:", res.Violation)
	} else {
		fmt.Println("oracle holds on this case")
	}
}
