package main

import (
	"bytes"
	"io"
	"strings"
)

func stringsReader(s string) io.Reader { return strings.NewReader(s) }
func bytesReader(b []byte) io.Reader   { return bytes.NewReader(b) }
