package main

import (
	"bytes"
	"encoding/json"
	"fmt"
	"regexp"
	"strings"
	"unicode/utf8"

	"verifharness/vh"
)

// chex prints a byte string as a Model.Delim.hxi term: bytes packed seven to a 63-bit integer
// literal (string literals are ~20 times slower for Coq to elaborate).
func chex(b []byte) string {
	if len(b) == 0 {
		return "[]"
	}
	var sb strings.Builder
	last := len(b) % 7
	if last == 0 {
		last = 7
	}
	fmt.Fprintf(&sb, "(hxi %d%%nat [", last)
	for i := 0; i < len(b); i += 7 {
		j := i + 7
		if j > len(b) {
			j = len(b)
		}
		if i > 0 {
			sb.WriteString("; ")
		}
		sb.WriteString("0x")
		for _, c := range b[i:j] {
			fmt.Fprintf(&sb, "%02x", c)
		}
	}
	sb.WriteString("]%uint63)")
	return sb.String()
}

// ---- values ------------------------------------------------------------------------------------

var delimiters = []rune{',', '|', '\t', ' ', ';', ':', 'a', '\'', '\\', '.', 0x01, 0x7f, 0x80, 0xa0, 'é', 'ß', 0x7ff, 0x800,
	'€', '日', 0xfffc, 0xfffe, 0x10000, '😀', 0x10ffff}

func pickDelim(r *vh.Rng) rune {
	if r.Chance(0.35) {
		return ','
	}
	return delimiters[r.Pick(len(delimiters))]
}

var plainTokens = []string{"a", "b", "Z", "0", "7", "x y", " ", "  ", "\t", "é", "日本", "😀", " ", "'", "''", "-", "_", "ab", "q"}

// genField produces a field value made of the tokens that stress a delimited reader.
func genField(r *vh.Rng, enc []byte, allowBreaks, allowInvalid bool) []byte {
	if r.Chance(0.15) {
		return []byte{}
	}
	n := r.Between(1, 6)
	var b []byte
	for i := 0; i < n; i++ {
		switch k := r.Pick(20); {
		case k < 9:
			b = append(b, plainTokens[r.Pick(len(plainTokens))]...)
		case k < 11:
			b = append(b, enc...)
		case k < 13:
			b = append(b, '"')
		case k == 13 && allowBreaks:
			b = append(b, '\r')
		case k == 14 && allowBreaks:
			b = append(b, '\n')
		case k == 15 && allowBreaks:
			b = append(b, '\r', '\n')
		case k == 16 && allowBreaks:
			b = append(b, '\r', '\r', '\n')
		case k == 17 && allowInvalid:
			b = append(b, []byte{0xff, 0x80, 0xc3, 0xe2, 0x82, 0x00}[r.Pick(6)])
		default:
			b = append(b, plainTokens[r.Pick(len(plainTokens))]...)
		}
	}
	return b
}

// filler produces about n bytes of mixed-width text without line breaks, quotes or enc.
func filler(r *vh.Rng, n int, enc []byte) []byte {
	var b []byte
	for len(b) < n {
		t := []string{"abcdefghij", "é", "日本語", "😀", "0123456789", " ", "ß", "\r", "x"}[r.Pick(9)]
		if bytes.Contains([]byte(t), enc) || (len(enc) > 0 && bytes.Contains(enc, []byte(t))) {
			continue
		}
		b = append(b, t...)
	}
	return b
}

// ---- csv encoder (mirrors Model/Csv.v csv_encode; CaseEnc checks the two agree) ---------------------

type efield struct {
	Q bool   `json:"q"`
	V []byte `json:"v"`
}
type erow struct {
	Blanks []bool   `json:"blanks"`
	Fields []efield `json:"fields"`
	CRLF   bool     `json:"crlf"`
	Raw    []byte   `json:"raw,omitempty"` // written as is instead of the fields (malformed lines)
}

func needsQuote(enc, f []byte) bool {
	return bytes.Contains(f, enc) || bytes.IndexByte(f, '"') >= 0 || bytes.IndexByte(f, '\r') >= 0 || bytes.IndexByte(f, '\n') >= 0
}

func eol(crlf bool) string {
	if crlf {
		return "\r\n"
	}
	return "\n"
}

func encRow(enc []byte, row erow) []byte {
	var b []byte
	for _, x := range row.Blanks {
		b = append(b, eol(x)...)
	}
	if row.Raw != nil {
		b = append(b, row.Raw...)
		return append(b, eol(row.CRLF)...)
	}
	for i, f := range row.Fields {
		if i > 0 {
			b = append(b, enc...)
		}
		if f.Q {
			b = append(b, '"')
			b = append(b, bytes.ReplaceAll(f.V, []byte{'"'}, []byte{'"', '"'})...)
			b = append(b, '"')
		} else {
			b = append(b, f.V...)
		}
	}
	return append(b, eol(row.CRLF)...)
}

func encTable(enc []byte, t []erow, trailing []bool) []byte {
	var b []byte
	for _, row := range t {
		b = append(b, encRow(enc, row)...)
	}
	for _, x := range trailing {
		b = append(b, eol(x)...)
	}
	return b
}

// crlf2lf is what a reader makes of quoted text: CRLF reads as LF (left to right, once).
func crlf2lf(s []byte) []byte {
	var b []byte
	for i := 0; i < len(s); i++ {
		if s[i] == '\r' && i+1 < len(s) && s[i+1] == '\n' {
			continue
		}
		b = append(b, s[i])
	}
	return b
}

func mkRow(r *vh.Rng, enc []byte, vals [][]byte, blanks bool) erow {
	row := erow{CRLF: r.Chance(0.3)}
	if blanks && r.Chance(0.15) {
		for i, k := 0, r.Between(1, 3); i < k; i++ {
			row.Blanks = append(row.Blanks, r.Chance(0.4))
		}
	}
	for _, v := range vals {
		q := needsQuote(enc, v) || (len(vals) == 1 && len(v) == 0) || r.Chance(0.12)
		row.Fields = append(row.Fields, efield{Q: q, V: v})
	}
	return row
}

func rowNontrivial(enc []byte, row erow) bool {
	for _, f := range row.Fields {
		if needsQuote(enc, f.V) {
			return true
		}
	}
	return false
}

func coqERow(row erow) string {
	var bl, fs []string
	for _, b := range row.Blanks {
		bl = append(bl, vh.CoqBool(b))
	}
	for _, f := range row.Fields {
		fs = append(fs, "("+vh.CoqBool(f.Q)+", "+chex(f.V)+")")
	}
	return "mkRow " + vh.CoqList(bl) + " " + vh.CoqList(fs) + " " + vh.CoqBool(row.CRLF)
}

func coqBools(bs []bool) string {
	var xs []string
	for _, b := range bs {
		xs = append(xs, vh.CoqBool(b))
	}
	return vh.CoqList(xs)
}

// ---- patterns --------------------------------------------------------------------------------------

type pat struct {
	Prefix bool   `json:"prefix"`
	Suffix bool   `json:"suffix,omitempty"`
	Lit    string `json:"lit"`
}

func (p *pat) regex() string {
	if p.Suffix {
		return regexp.QuoteMeta(p.Lit) + "$"
	}
	if p.Prefix {
		return "^" + regexp.QuoteMeta(p.Lit)
	}
	return regexp.QuoteMeta(p.Lit)
}
func (p *pat) coq() string {
	if p.Suffix {
		return "(PSuffix " + chex([]byte(p.Lit)) + ")"
	}
	if p.Prefix {
		return "(PPrefix " + chex([]byte(p.Lit)) + ")"
	}
	return "(PContains " + chex([]byte(p.Lit)) + ")"
}
func (p *pat) match(line []byte) bool {
	if p.Suffix {
		return bytes.HasSuffix(line, []byte(p.Lit))
	}
	if p.Prefix {
		return bytes.HasPrefix(line, []byte(p.Lit))
	}
	return bytes.Contains(line, []byte(p.Lit))
}
func coqOptPat(p *pat) string {
	if p == nil {
		return "None"
	}
	return "(Some " + p.coq() + ")"
}
func coqOptNat(p *int) string {
	if p == nil {
		return "None"
	}
	return "(Some " + vh.CoqNat(*p) + ")"
}

// ---- schema text --------------------------------------------------------------------------------------

func schemaJSON(format string, fileDecl interface{}) []byte {
	s := map[string]interface{}{
		"parser_settings":        map[string]interface{}{"version": "omni.2.1", "file_format_type": format},
		"file_declaration":       fileDecl,
		"transform_declarations": map[string]interface{}{"FINAL_OUTPUT": map[string]interface{}{"object": map[string]interface{}{"k": map[string]interface{}{"const": "1"}}}},
	}
	b, err := json.Marshal(s)
	if err != nil {
		panic(err)
	}
	return b
}

var colNames = []string{"a", "b", "c", "d", "e", "col f", "g_7", "été", "日", "h-h", "i.i", "J"}

func pickNames(r *vh.Rng, n int) []string {
	perm := r.Perm(len(colNames))
	var out []string
	for i := 0; i < n; i++ {
		out = append(out, colNames[perm[i%len(perm)]]+strings.Repeat("x", i/len(perm)))
	}
	return out
}

// ---- fixed-length text ---------------------------------------------------------------------------------

// A unit is what utf8.DecodeRune consumes in one step: a valid rune's encoding, or one byte that
// cannot be part of any valid encoding.
type unit []byte

var invalidUnits = []byte{0xff, 0xfe, 0xc0, 0xc1, 0xf8}
var fixedRunes = []rune{'a', 'b', 'c', 'X', '0', '9', ' ', ' ', '-', 'é', 'ß', 0x7ff, 0x800, '日', '本', '€', 0xfffd, 0x10000, '😀', '\t', '\r', '"', ','}

func genUnits(r *vh.Rng, n int, allowInvalid bool) []unit {
	us := make([]unit, 0, n)
	for i := 0; i < n; i++ {
		if allowInvalid && r.Chance(0.04) {
			us = append(us, unit{invalidUnits[r.Pick(len(invalidUnits))]})
			continue
		}
		var rn rune
		if r.Chance(0.6) {
			rn = rune('a' + r.Pick(26))
		} else {
			rn = fixedRunes[r.Pick(len(fixedRunes))]
		}
		buf := make([]byte, 4)
		k := utf8.EncodeRune(buf, rn)
		us = append(us, unit(buf[:k]))
	}
	if n > 0 && r.Chance(0.06) { // the text itself ends with CR (on the wire: CR CR LF)
		us[len(us)-1] = unit{'\r'}
	}
	return us
}

// lineEOL: the terminator written after a line's text.  A text that ends with CR must be followed by
// CRLF (a lone LF would make the CR part of the terminator).
func lineEOL(r *vh.Rng, us []unit, crlfChance float64) string {
	if len(us) > 0 && us[len(us)-1][0] == '\r' {
		return "\r\n"
	}
	return eol(r.Chance(crlfChance))
}

func tagUnits(tag string) []unit {
	var us []unit
	for i := 0; i < len(tag); i++ {
		us = append(us, unit{tag[i]})
	}
	return us
}

func joinUnits(us []unit) []byte {
	var b []byte
	for _, u := range us {
		b = append(b, u...)
	}
	return b
}

// sliceUnits is the specification of a fixed-length column: units [start-1, start-1+length).
func sliceUnits(us []unit, start, length int) []byte {
	a := start - 1
	if a > len(us) {
		a = len(us)
	}
	if length > len(us) { // "rest of the line" lengths up to MaxInt64
		length = len(us)
	}
	b := a + length
	if b > len(us) {
		b = len(us)
	}
	return joinUnits(us[a:b])
}

func multibyteBefore(us []unit, pos int) bool {
	for i := 0; i < len(us) && i < pos; i++ {
		if len(us[i]) > 1 {
			return true
		}
	}
	return false
}

type fcol struct {
	Name      string `json:"name"`
	Start     int    `json:"start_pos"`
	Len       int    `json:"length"`
	LineIndex *int   `json:"line_index,omitempty"`
	LinePat   *pat   `json:"line_pattern,omitempty"`
}

// coq prints the column for the model.  The model counts the length in unary; a declared length
// beyond every line of the input is printed as `bound` (any number >= the input size): by
// Props.C06.fixed_slice_huge_length every length >= the line's size gives the same slice.
func (c fcol) coq(bound int) string {
	l := c.Len
	if l > bound {
		l = bound
	}
	return fmt.Sprintf("mkFCol %s %s %s %s %s", chex([]byte(c.Name)), vh.CoqNat(c.Start), vh.CoqNat(l), coqOptNat(c.LineIndex), coqOptPat(c.LinePat))
}

// hugeLengths: "the rest of the line" written as a very large length (the JSON schema only asks for >= 1)
var hugeLengths = []int{9223372036854775807, 9223372036854775806, 9223372036854775807 - 5, 4611686018427387904, 4611686018427387903, 2147483648, 2147483647, 4294967296, 1 << 40}

func (c fcol) schema(allowLineIndex bool) map[string]interface{} {
	m := map[string]interface{}{"name": c.Name, "start_pos": c.Start, "length": c.Len}
	if c.LineIndex != nil && allowLineIndex {
		m["line_index"] = *c.LineIndex
	}
	if c.LinePat != nil {
		m["line_pattern"] = c.LinePat.regex()
	}
	return m
}

// genLayout: columns with gaps, overlaps and positions past the end of a line of about width units.
func genLayout(r *vh.Rng, width int) []fcol {
	n := r.Between(1, 5)
	names := pickNames(r, n)
	var cols []fcol
	pos := 1
	for i := 0; i < n; i++ {
		var c fcol
		c.Name = names[i]
		switch r.Pick(6) {
		case 0: // adjacent
			c.Start, c.Len = pos, r.Between(1, 6)
		case 1: // gap
			c.Start, c.Len = pos+r.Between(1, 4), r.Between(1, 6)
		case 2: // overlap with what came before
			c.Start, c.Len = maxInt(1, pos-r.Between(1, 4)), r.Between(1, 8)
		case 3: // reaches past the end
			c.Start, c.Len = maxInt(1, width-r.Between(0, 3)), r.Between(2, 9)
		case 4: // entirely past the end
			c.Start, c.Len = width+r.Between(1, 5), r.Between(1, 4)
		default:
			c.Start, c.Len = r.Between(1, maxInt(1, width)), r.Between(1, maxInt(1, width))
		}
		if r.Chance(0.12) { // rest of the line, from the first rune or from a later one
			c.Len = hugeLengths[r.Pick(len(hugeLengths))]
			if r.Chance(0.8) && c.Start < 2 {
				c.Start = r.Between(2, maxInt(2, width))
			}
			pos = c.Start
		} else {
			pos = c.Start + c.Len
		}
		cols = append(cols, c)
	}
	return cols
}

func maxInt(a, b int) int {
	if a > b {
		return a
	}
	return b
}
func intp(i int) *int { return &i }
