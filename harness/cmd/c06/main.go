// c06: correspondence + oracle harness for property C06 (delimited and fixed-length fields carry
// exactly the input text).  Logical tables are generated, encoded with the generator's encoder,
// run through the real readers (public Transform API, raw record = the reader's IDR node) and
// compared with the logical table on the Go side; the same inputs and observed outcomes are
// written as Coq cases for Model.Delim.check_case.
package main

import (
	"bytes"
	"encoding/hex"
	"encoding/json"
	"fmt"
	"io"
	"os"
	"path/filepath"
	"sort"
	"strings"
	"time"
	"unicode/utf8"

	"github.com/jf-tech/go-corelib/ios"
	"github.com/jf-tech/omniparser"
	"github.com/jf-tech/omniparser/errs"
	"github.com/jf-tech/omniparser/idr"
	"github.com/jf-tech/omniparser/transformctx"

	"verifharness/vh"
)

// ---- observed / expected outcomes ------------------------------------------------------------------

type kv struct {
	Name string
	Val  []byte
}

// outcome of one Transform.Read, projected: a node (root type/name + column children), or a class.
type outcome struct {
	Kind string // node | eof | fatal | cont | panic | hang
	Doc  bool   // node: root is a DocumentNode (old csv) rather than an element
	Name string // node: root element name
	Kids []kv
	Odd  string // node whose shape is not root/element/text
	Msg  string
}

func (o outcome) coq() string {
	switch o.Kind {
	case "node":
		ty := "ElementNode"
		if o.Doc {
			ty = "DocumentNode"
		}
		var ks []string
		for _, k := range o.Kids {
			ks = append(ks, "text_elem "+chex([]byte(k.Name))+" "+chex(k.Val))
		}
		return "ONode (T " + ty + " " + chex([]byte(o.Name)) + " FNone " + vh.CoqList(ks) + ")"
	case "eof":
		return "OEOF"
	case "fatal":
		return "OFatal"
	case "cont":
		return "OCont"
	default:
		return "OPanic 0%nat"
	}
}

func (o outcome) String() string {
	if o.Kind != "node" {
		return o.Kind + " " + o.Msg
	}
	var sb strings.Builder
	fmt.Fprintf(&sb, "node(%s)", o.Name)
	for _, k := range o.Kids {
		fmt.Fprintf(&sb, " %s=%q", k.Name, k.Val)
	}
	return sb.String() + o.Odd
}

func sameOutcome(a, b outcome) bool {
	if a.Kind != b.Kind {
		return false
	}
	if a.Kind != "node" {
		return true
	}
	if a.Doc != b.Doc || a.Name != b.Name || len(a.Kids) != len(b.Kids) || a.Odd != b.Odd {
		return false
	}
	for i := range a.Kids {
		if a.Kids[i].Name != b.Kids[i].Name || !bytes.Equal(a.Kids[i].Val, b.Kids[i].Val) {
			return false
		}
	}
	return true
}

func nodeOutcome(n *idr.Node) outcome {
	o := outcome{Kind: "node", Doc: n.Type == idr.DocumentNode, Name: n.Data}
	if n.Type != idr.DocumentNode && n.Type != idr.ElementNode {
		o.Odd = " root-type:" + n.Type.String()
	}
	for c := n.FirstChild; c != nil; c = c.NextSibling {
		t := c.FirstChild
		if c.Type != idr.ElementNode || t == nil || t.Type != idr.TextNode || t.NextSibling != nil || t.FirstChild != nil {
			o.Odd += " odd-child:" + c.Data
			continue
		}
		o.Kids = append(o.Kids, kv{Name: c.Data, Val: []byte(t.Data)})
	}
	return o
}

// runPipeline drives NewSchema/NewTransform/Read until a terminal result or maxReads.
func runPipeline(schema, input []byte, maxReads int) (outs []outcome, schemaErr error) {
	s, err := omniparser.NewSchema("c06", bytes.NewReader(schema))
	if err != nil {
		return nil, err
	}
	done := make(chan struct{})
	go func() {
		defer close(done)
		defer func() {
			if p := recover(); p != nil {
				outs = append(outs, outcome{Kind: "panic", Msg: fmt.Sprint(p)})
			}
		}()
		t, err := s.NewTransform("in", bytes.NewReader(input), &transformctx.Ctx{})
		if err != nil {
			outs = append(outs, outcome{Kind: "fatal", Msg: "NewTransform: " + err.Error()})
			return
		}
		for i := 0; i < maxReads; i++ {
			_, err := t.Read()
			switch {
			case err == nil:
				raw, rerr := t.RawRecord()
				if rerr != nil {
					outs = append(outs, outcome{Kind: "fatal", Msg: "RawRecord: " + rerr.Error()})
					return
				}
				outs = append(outs, nodeOutcome(raw.Raw().(*idr.Node)))
			case err == io.EOF:
				outs = append(outs, outcome{Kind: "eof"})
				return
			case errs.IsErrTransformFailed(err):
				outs = append(outs, outcome{Kind: "cont", Msg: err.Error()})
			default:
				outs = append(outs, outcome{Kind: "fatal", Msg: err.Error()})
				return
			}
		}
	}()
	select {
	case <-done:
	case <-time.After(20 * time.Second):
		return append([]outcome(nil), outcome{Kind: "hang"}), nil
	}
	return outs, nil
}

func coqOuts(outs []outcome) string {
	var xs []string
	for _, o := range outs {
		xs = append(xs, o.coq())
	}
	return vh.CoqList(xs)
}

func outStrings(outs []outcome) []string {
	var xs []string
	for _, o := range outs {
		xs = append(xs, o.String())
	}
	return xs
}

// ---- the harness state --------------------------------------------------------------------------------

type H struct {
	o   *vh.Opts
	r   *vh.Rng
	sum *vh.Summary
	cw  *vh.CaseWriter
}

// run marks the case as the one in flight (so that a process death is attributed to it) and
// drives the pipeline.
func (h *H) run(desc map[string]interface{}, schema, input []byte, maxReads int) ([]outcome, error) {
	vh.Current(h.o, desc)
	return runPipeline(schema, input, maxReads)
}

// judge compares observed with expected (nil expected: no logical oracle, correspondence only).
func (h *H) judge(kind string, desc map[string]interface{}, obs, exp []outcome, nontrivial bool) {
	canon, _ := json.Marshal(desc)
	h.sum.Count(string(canon), nontrivial)
	h.sum.Hist("kind:" + kind)
	for _, o := range obs {
		if o.Kind == "panic" || o.Kind == "hang" {
			h.sum.Fail(kind+": Read "+o.Kind, desc, o.Msg)
			return
		}
		if o.Odd != "" {
			h.sum.Fail(kind+": node shape is not element/text", desc, o.String())
			return
		}
	}
	if exp == nil {
		return
	}
	ok := len(obs) == len(exp)
	first := -1
	for i := 0; ok && i < len(exp); i++ {
		if !sameOutcome(obs[i], exp[i]) {
			ok, first = false, i
		}
	}
	if !ok {
		detail := map[string]interface{}{"observed": outStrings(obs), "expected": outStrings(exp), "first_difference": first}
		h.sum.Fail(kind+": delivered column values differ from the logical table (or order/termination differs)", desc, detail)
	}
}

// ---- stream 1: encoder / RFC reader against encoding/csv as configured -------------------------------------

func (h *H) genTable(enc []byte, nrows, maxw int, breaks, invalid, blanks, long bool) []erow {
	r := h.r
	var t []erow
	for i := 0; i < nrows; i++ {
		w := r.Between(1, maxw)
		var vals [][]byte
		for j := 0; j < w; j++ {
			vals = append(vals, genField(r, enc, breaks, invalid))
		}
		if r.Chance(0.06) {
			for j := range vals {
				vals[j] = []byte([]string{" ", "  ", "\t", " \t ", "   "}[r.Pick(5)])
			}
			if r.Chance(0.3) {
				vals = [][]byte{[]byte(" ")}
				w = 1
			}
			h.sum.Hist("csv-row-of-blank-cells")
		}
		if long && i == nrows/2 {
			j := r.Pick(w)
			vals[j] = append(vals[j], filler(r, r.Between(4000, 9000), enc)...)
			if breaks && r.Chance(0.5) {
				vals[j] = append(vals[j], "\r\n tail"...)
			}
		}
		t = append(t, mkRow(r, enc, vals, blanks))
	}
	return t
}

func stdlibRead(delim rune, input []byte) (recs [][]string, errsAt []int) {
	cr := ios.NewLineNumReportingCsvReader(bytes.NewReader(input))
	cr.Comma = delim
	cr.FieldsPerRecord = -1
	cr.ReuseRecord = true
	for i := 0; i < len(input)+2; i++ {
		rec, err := cr.Read()
		if err == io.EOF {
			return
		}
		if err != nil {
			errsAt = append(errsAt, len(recs))
			recs = append(recs, nil)
			continue
		}
		recs = append(recs, append([]string(nil), rec...))
	}
	return
}

func (h *H) encCase() {
	r := h.r
	delim := pickDelim(r)
	enc := []byte(string(delim))
	t := h.genTable(enc, r.Between(0, 6), 5, true, r.Chance(0.3), true, r.Chance(0.04))
	var trailing []bool
	if r.Chance(0.2) {
		trailing = []bool{r.Chance(0.5)}
	}
	input := encTable(enc, t, trailing)
	desc := map[string]interface{}{"stream": "encode", "delimiter": string(delim), "table": t, "trailing": trailing, "input_hex": hex.EncodeToString(input)}
	nt := false
	for _, row := range t {
		nt = nt || rowNontrivial(enc, row)
	}
	canon, _ := json.Marshal(desc)
	h.sum.Count(string(canon), nt)
	h.sum.Hist("kind:encode")
	h.sum.Hist(fmt.Sprintf("delimiter-bytes:%d", len(enc)))
	// oracle: encoding/csv, configured the way both readers configure it, returns the table
	recs, perr := stdlibRead(delim, input)
	ok := len(perr) == 0 && len(recs) == len(t)
	for i := 0; ok && i < len(t); i++ {
		ok = len(recs[i]) == len(t[i].Fields)
		for j := 0; ok && j < len(recs[i]); j++ {
			ok = recs[i][j] == string(crlf2lf(t[i].Fields[j].V))
		}
	}
	if !ok {
		h.sum.Fail("encode: encoding/csv does not return the logical table for its encoding", desc, fmt.Sprintf("%q errors at %v", recs, perr))
	}
	var rows []string
	for _, row := range t {
		rows = append(rows, coqERow(row))
	}
	h.cw.Add(fmt.Sprintf("CaseEnc %s %s %s %s", vh.CoqN(int(delim)), vh.CoqList(rows), coqBools(trailing), chex(input)), desc)
	h.sum.Sample(desc)
}

// ---- stream 2: old csv reader -------------------------------------------------------------------------------

type csvCol struct {
	Name  string  `json:"name"`
	Alias *string `json:"alias,omitempty"`
}

func (c csvCol) node() string {
	if c.Alias != nil {
		return *c.Alias
	}
	return c.Name
}

var spacePads = []string{"", "", " ", "  ", "\t", " ", "　", " \t "}

func (h *H) csvCase() {
	r := h.r
	delim := pickDelim(r)
	enc := []byte(string(delim))
	replace := r.Chance(0.12)
	ncols := r.Between(1, 5)
	names := pickNames(r, ncols)
	var cols []csvCol
	for i, n := range names {
		c := csvCol{Name: n}
		if r.Chance(0.3) {
			a := fmt.Sprintf("al_%d", i)
			c.Alias = &a
		}
		cols = append(cols, c)
	}
	var headerIdx *int
	dataIdx := 1
	if r.Chance(0.7) {
		headerIdx = intp(r.Between(1, 4))
		dataIdx = *headerIdx + r.Between(1, 4)
	} else {
		dataIdx = r.Between(1, 4)
	}
	simple := func() erow { // a single physical line
		var vals [][]byte
		for j, w := 0, r.Between(1, 4); j < w; j++ {
			vals = append(vals, genField(r, enc, false, false))
		}
		if len(vals) == 1 && len(vals[0]) == 0 {
			vals[0] = []byte("p")
		}
		row := mkRow(r, enc, vals, false)
		if replace {
			for i := range row.Fields {
				row.Fields[i] = efield{Q: false, V: []byte("pre")}
			}
		}
		return row
	}
	// rows that the reader has to skip are not one physical line each: quoted cells with embedded
	// line breaks, blank lines before a row, comment-like rows; jumpTo goes by the decoder's
	// physical line counter, and so does the expectation below (oldSpec)
	skipRow := func() erow {
		row := simple()
		if r.Chance(0.45) {
			switch k := r.Pick(4); {
			case k == 0 && !replace:
				row.Fields[r.Pick(len(row.Fields))] = efield{Q: true, V: []byte([]string{"two\nlines", "a\r\nb", "x\n\ny", "\n", "q\"\nz"}[r.Pick(5)])}
			case k == 1:
				for i, n := 0, r.Between(1, 2); i < n; i++ {
					row.Blanks = append(row.Blanks, r.Chance(0.4))
				}
			case k == 2:
				row.Fields[0] = efield{Q: false, V: []byte("#note")}
				if bytes.Contains(row.Fields[0].V, enc) {
					row.Fields[0].V = []byte("#")
				}
			default:
				if !replace {
					row.Fields = append(row.Fields, efield{Q: true, V: []byte("tail\nmore")})
				}
				row.Blanks = append(row.Blanks, false)
			}
		}
		return row
	}
	var pre []erow
	line := 1 // the decoder's line counter + 1 after the rows so far
	mismatch := ""
	if headerIdx != nil {
		for line < *headerIdx {
			row := skipRow()
			pre = append(pre, row)
			line += rowLines(row)
		}
		var vals [][]byte
		for _, c := range cols {
			vals = append(vals, []byte(spacePads[r.Pick(len(spacePads))]+c.Name+spacePads[r.Pick(len(spacePads))]))
		}
		for k := r.Between(0, 2); k > 0; k-- { // extra header columns are allowed
			vals = append(vals, []byte("extra"))
		}
		if r.Chance(0.15) {
			switch r.Pick(3) {
			case 0:
				mismatch = "short"
				vals = vals[:ncols-1]
				if len(vals) == 0 {
					vals = [][]byte{[]byte("")}
					mismatch = "short-empty"
				}
			case 1:
				mismatch = "renamed"
				j := r.Pick(ncols)
				vals[j] = append([]byte("x"), vals[j]...)
			default:
				mismatch = "swapped-or-case"
				j := r.Pick(ncols)
				vals[j] = []byte(strings.ToUpper(string(vals[j])) + "_")
			}
		}
		hr := mkRow(r, enc, vals, false)
		if replace {
			for i := range hr.Fields {
				if needsQuote(enc, hr.Fields[i].V) { // the delimiter is a letter of a column name
					return
				}
				hr.Fields[i].Q = false
			}
		} else if len(hr.Fields) == 1 && len(hr.Fields[0].V) == 0 {
			hr.Fields[0].Q = true
		}
		// a header line on which the csv decoder itself fails (whether or not the names would
		// match): the first error must be the fatal one, no record may follow
		if !replace && r.Chance(0.12) {
			j := r.Pick(len(hr.Fields))
			var raw []byte
			kind := r.Pick(2)
			for i, f := range hr.Fields {
				if i > 0 {
					raw = append(raw, enc...)
				}
				cell := encRow(enc, erow{Fields: []efield{f}})
				cell = cell[:len(cell)-1]
				if i == j {
					switch {
					case kind == 0 && !f.Q && len(f.V) > 0:
						cell = append(append([]byte{}, f.V...), '"', 'x') // a,b"x
						mismatch += "+bare-quote"
					default:
						cell = append(append(append([]byte{'"'}, bytes.ReplaceAll(f.V, []byte{'"'}, []byte{'"', '"'})...), '"'), 'x') // "a"x,b
						mismatch += "+text-after-quote"
					}
				}
				raw = append(raw, cell...)
			}
			hr.Raw = raw
		}
		if r.Chance(0.12) {
			hr.Blanks = append(hr.Blanks, r.Chance(0.4))
		}
		pre = append(pre, hr)
		line += rowLines(hr)
	}
	for line < dataIdx {
		row := skipRow()
		pre = append(pre, row)
		line += rowLines(row)
	}
	// data rows
	var data []erow
	nrows := r.Between(0, 7)
	if replace {
		for i := 0; i < nrows; i++ {
			var fs []efield
			for j, w := 0, r.Between(1, ncols+2); j < w; j++ {
				v := genField(r, []byte("\x00\x00never"), false, false)
				if bytes.Contains(bytes.ReplaceAll(v, []byte{'"'}, []byte{'\''}), enc) {
					v = []byte("v")
				}
				fs = append(fs, efield{V: v})
			}
			if len(fs) == 1 && len(fs[0].V) == 0 {
				fs[0].V = []byte("x")
			}
			data = append(data, erow{Fields: fs, CRLF: r.Chance(0.3)})
		}
	} else {
		data = h.genTable(enc, nrows, ncols+2, true, r.Chance(0.3), true, r.Chance(0.04))
	}
	input := encTable(enc, append(append([]erow(nil), pre...), data...), nil)
	if r.Chance(0.1) && !replace { // no terminator after the last record
		input = bytes.TrimRight(input, "\r\n")
	}
	decl := map[string]interface{}{"delimiter": string(delim), "data_row_index": dataIdx, "columns": cols}
	if replace {
		decl["replace_double_quotes"] = true
	}
	if headerIdx != nil {
		decl["header_row_index"] = *headerIdx
	}
	schema := schemaJSON("csv", decl)
	// expected deliveries: what the physical-line semantics of header_row_index / data_row_index
	// give for these rows (the Go twin of Proofs.DelimJump.old_spec)
	exp := oldSpec(append(append([]erow(nil), pre...), data...), cols, headerIdx, dataIdx, replace)
	for _, row := range data {
		if len(row.Fields) > ncols {
			h.sum.Hist("csv-row-wider-than-declared")
		}
		if n := len(row.Fields); n > 1 && !row.Fields[n-1].Q && len(row.Fields[n-1].V) == 0 {
			h.sum.Hist("csv-row-ends-with-delimiter")
		}
	}
	for _, row := range pre {
		if rowLines(row) > 1 {
			h.sum.Hist("csv-skipped-row-spans-lines")
		}
	}
	kind := "csv"
	damaged := ""
	if r.Chance(0.12) {
		input, damaged = vh.Mutate(r, input)
		if damaged != "wellformed" {
			exp = nil
			kind = "csv-damaged"
		}
	}
	desc := map[string]interface{}{"stream": kind, "schema": string(schema), "input_hex": hex.EncodeToString(input), "header_mismatch": mismatch, "damage": damaged}
	obs, serr := h.run(desc, schema, input, len(data)+len(pre)+len(input)+6)
	if serr != nil {
		h.sum.Fail("csv: generated schema rejected", desc, serr.Error())
		return
	}
	nt := false
	for _, row := range data {
		nt = nt || rowNontrivial(enc, row)
	}
	h.sum.Hist(fmt.Sprintf("delimiter-bytes:%d", len(enc)))
	if mismatch != "" {
		h.sum.Hist("csv-header-mismatch")
	}
	if replace {
		h.sum.Hist("csv-replace-double-quotes")
	}
	h.judge(kind, desc, obs, exp, nt && len(exp) > 1)
	var cs []string
	for _, c := range cols {
		cs = append(cs, "("+chex([]byte(c.Name))+", "+chex([]byte(c.node()))+")")
	}
	term := fmt.Sprintf("CaseCsv (mkCsvDecl %s %s %s %s %s) %s %s", vh.CoqN(int(delim)), vh.CoqBool(replace), coqOptNat(headerIdx),
		vh.CoqNat(dataIdx), vh.CoqList(cs), chex(input), coqOuts(obs))
	desc["observed"] = outStrings(obs)
	h.cw.Add(term, desc)
	h.sum.Sample(desc)
}

// rowLines is the number of physical lines a row takes: the empty lines before it, its own line,
// and the line breaks inside its quoted cells.
func rowLines(row erow) int {
	n := len(row.Blanks) + 1
	if row.Raw == nil {
		for _, f := range row.Fields {
			if f.Q {
				n += bytes.Count(f.V, []byte{'\n'})
			}
		}
	}
	return n
}

// jumpSpec: jumpTo(target) from line counter n reads whole rows while the counter is below target.
func jumpSpec(n, target int, rows []erow) (used, counter int, ok bool) {
	for n < target {
		if used == len(rows) {
			return used, n, false
		}
		n += rowLines(rows[used])
		used++
	}
	return used, n, true
}

func rowValues(row erow, replace bool) [][]byte {
	var vs [][]byte
	for _, f := range row.Fields {
		if replace {
			vs = append(vs, bytes.ReplaceAll(f.V, []byte{'"'}, []byte{'\''}))
		} else {
			vs = append(vs, crlf2lf(f.V))
		}
	}
	return vs
}

// oldSpec: the outcomes of the old csv reader on these rows.
func oldSpec(rows []erow, cols []csvCol, headerIdx *int, dataIdx int, replace bool) []outcome {
	n := 0
	if headerIdx != nil {
		used, c, ok := jumpSpec(0, *headerIdx-1, rows)
		if !ok || used == len(rows) {
			return []outcome{{Kind: "fatal"}}
		}
		hdr := rows[used]
		if hdr.Raw != nil {
			return []outcome{{Kind: "fatal"}}
		}
		vs := rowValues(hdr, replace)
		if len(vs) < len(cols) {
			return []outcome{{Kind: "fatal"}}
		}
		for i, col := range cols {
			if strings.TrimSpace(string(vs[i])) != strings.TrimSpace(col.Name) {
				return []outcome{{Kind: "fatal"}}
			}
		}
		n = c + rowLines(hdr)
		rows = rows[used+1:]
	}
	used, _, ok := jumpSpec(n, dataIdx-1, rows)
	if !ok {
		return []outcome{{Kind: "eof"}}
	}
	var exp []outcome
	for _, row := range rows[used:] {
		if row.Raw != nil {
			exp = append(exp, outcome{Kind: "cont"})
			continue
		}
		o := outcome{Kind: "node", Doc: true}
		for j, v := range rowValues(row, replace) {
			if j < len(cols) {
				o.Kids = append(o.Kids, kv{Name: cols[j].node(), Val: v})
			}
		}
		exp = append(exp, o)
	}
	return append(exp, outcome{Kind: "eof"})
}

// ---- streams 3-5: multi-line record templates shared by csv2, fixedlength2 (and old fixed-length) ---------

// A line of a record instance: the tag it starts with and, for csv2, its fields / for fixed-length
// its units.
type lline struct {
	fields [][]byte // csv2
	units  []unit   // fixed-length
}

// colSel is the line selection part of a column declaration.
type colSel struct {
	LineIndex *int
	LinePat   *pat
}

func (c colSel) match(i int, raw []byte) bool {
	if c.LineIndex != nil {
		return *c.LineIndex == i+1
	}
	if c.LinePat != nil {
		return c.LinePat.match(raw)
	}
	return true
}

// template of a flat declaration list
type tdecl struct {
	Name   string
	Rows   *int
	Header *pat
	Footer *pat
	Target bool
	Min    *int
	Max    *int
}

func (d tdecl) schema(colsKey string, cols []map[string]interface{}) map[string]interface{} {
	m := map[string]interface{}{"name": d.Name}
	if d.Rows != nil {
		m["rows"] = *d.Rows
	}
	if d.Header != nil {
		m["header"] = d.Header.regex()
	}
	if d.Footer != nil {
		m["footer"] = d.Footer.regex()
	}
	if d.Target {
		m["is_target"] = true
	}
	if d.Min != nil {
		m["min"] = *d.Min
	}
	if d.Max != nil {
		m["max"] = *d.Max
	}
	if cols != nil {
		m[colsKey] = cols
	}
	return m
}

func (d tdecl) coqShape() string {
	if d.Header != nil {
		return "(HeaderFooter " + d.Header.coq() + " " + coqOptPat(d.Footer) + ")"
	}
	if d.Rows != nil {
		return "(Rows " + vh.CoqNat(*d.Rows) + ")"
	}
	return "(Rows 1%nat)"
}
func (d tdecl) coqMin() string {
	if d.Min == nil {
		return vh.CoqNat(0)
	}
	return vh.CoqNat(*d.Min)
}
func (d tdecl) coqMax() string {
	if d.Max == nil || *d.Max < 0 {
		return "None"
	}
	return "(Some " + vh.CoqNat(*d.Max) + ")"
}

// plan: which declaration each instance belongs to and how many lines it has, in input order;
// lineTag gives the tag the k-th line of an instance must start with ("" = free).
type instance struct {
	decl  int
	tags  []string
	lines []lline
}

type plan struct {
	decls []tdecl
	insts []instance
	sel   []colSel // candidate line selections for columns of the target declaration
	tgt   int
}

func (h *H) genPlan() plan {
	r := h.r
	var p plan
	ninst := r.Between(0, 6)
	if r.Chance(0.08) {
		ninst = r.Between(20, 60)
	}
	switch r.Pick(4) {
	case 0: // one rows-based declaration
		n := r.Between(1, 3)
		d := tdecl{Name: "rec", Target: r.Chance(0.5)}
		if n > 1 || r.Chance(0.5) {
			d.Rows = intp(n)
		}
		p.decls = []tdecl{d}
		// untagged: the lines carry no marker, so a line may consist of blanks only (space padded
		// fields that are all empty) - such a line is data, only completely empty lines are ignored
		untagged := r.Chance(0.5)
		var tags []string
		for k := 0; k < n; k++ {
			if untagged {
				tags = append(tags, "")
			} else {
				tags = append(tags, fmt.Sprintf("T%d", k+1))
			}
		}
		for i := 0; i < ninst; i++ {
			p.insts = append(p.insts, instance{decl: 0, tags: tags})
		}
		for k := 1; k <= n+1; k++ {
			p.sel = append(p.sel, colSel{LineIndex: intp(k)})
		}
		if !untagged {
			for k := 1; k <= n; k++ {
				p.sel = append(p.sel, colSel{LinePat: &pat{Prefix: true, Lit: fmt.Sprintf("T%d", k)}})
			}
		}
		p.sel = append(p.sel, colSel{}, colSel{LinePat: &pat{Prefix: false, Lit: "zzNOzz"}})
	case 1: // optional single-line header record, then header/footer based target records
		p.decls = []tdecl{
			{Name: "hdr", Header: &pat{Prefix: true, Lit: "H0"}, Min: intp(0), Max: intp(1)},
			{Name: "body", Header: &pat{Prefix: true, Lit: "BG"}, Footer: &pat{Prefix: true, Lit: "EN"}, Target: true},
		}
		p.tgt = 1
		if r.Chance(0.6) {
			p.insts = append(p.insts, instance{decl: 0, tags: []string{"H0"}})
		}
		for i := 0; i < ninst; i++ {
			tags := []string{"BG"}
			for k, m := 0, r.Between(0, 3); k < m; k++ {
				tags = append(tags, []string{"M1", "M2", "BX", "", ""}[r.Pick(5)])
			}
			p.insts = append(p.insts, instance{decl: 1, tags: append(tags, "EN")})
		}
		for k := 1; k <= 4; k++ {
			p.sel = append(p.sel, colSel{LineIndex: intp(k)})
		}
		for _, t := range []string{"BG", "M1", "M2", "EN", "BX"} {
			p.sel = append(p.sel, colSel{LinePat: &pat{Prefix: true, Lit: t}})
		}
		p.sel = append(p.sel, colSel{}, colSel{LinePat: &pat{Prefix: false, Lit: "M"}})
	case 2: // header based single-line records without footer, two kinds alternating greedily
		p.decls = []tdecl{
			{Name: "a", Header: &pat{Prefix: true, Lit: "AA"}, Max: intp(-1)},
			{Name: "b", Header: &pat{Prefix: true, Lit: "BB"}, Target: true},
		}
		p.tgt = 1
		for i, k := 0, r.Between(0, 3); i < k; i++ {
			p.insts = append(p.insts, instance{decl: 0, tags: []string{"AA"}})
		}
		for i := 0; i < ninst; i++ {
			p.insts = append(p.insts, instance{decl: 1, tags: []string{"BB"}})
		}
		p.sel = []colSel{{}, {LineIndex: intp(1)}, {LineIndex: intp(2)}, {LinePat: &pat{Prefix: true, Lit: "BB"}}}
	default: // R-row records, then up to R-1 one-row trailer records: EOF inside a record leaves
		// lines in the buffer that are then popped one at a time (index shifting of the rest)
		rows := r.Between(2, 5)
		tailTarget := r.Chance(0.5)
		p.decls = []tdecl{
			{Name: "pair", Rows: intp(rows), Target: !tailTarget},
			{Name: "tail", Min: intp(0), Target: tailTarget},
		}
		var tags []string
		for k := 1; k <= rows; k++ {
			tags = append(tags, fmt.Sprintf("P%d", k))
		}
		for i := 0; i < ninst; i++ {
			p.insts = append(p.insts, instance{decl: 0, tags: tags})
		}
		for i, m := 0, r.Between(0, rows-1); i < m; i++ {
			p.insts = append(p.insts, instance{decl: 1, tags: []string{"TL"}})
		}
		p.sel = []colSel{{}, {LineIndex: intp(1)}, {LineIndex: intp(2)}, {LineIndex: intp(3)},
			{LineIndex: intp(4)}, {LineIndex: intp(5)},
			{LinePat: &pat{Prefix: true, Lit: "P2"}}, {LinePat: &pat{Prefix: true, Lit: "P1"}}, {LinePat: &pat{Prefix: true, Lit: "P4"}}, {LinePat: &pat{Prefix: true, Lit: "TL"}}}
	}
	// the target is the first declaration unless one says is_target (validation's rule)
	seen := false
	for i, d := range p.decls {
		if d.Target {
			p.tgt, seen = i, true
		}
	}
	if !seen {
		p.tgt = 0
	}
	return p
}

// ---- csv2 ----------------------------------------------------------------------------------------------------

type col2 struct {
	Name     string
	Index    int  // effective index
	Explicit bool // written in the schema
	Sel      colSel
}

func (h *H) csv2Case() {
	r := h.r
	delim := pickDelim(r)
	enc := []byte(string(delim))
	replace := r.Chance(0.08)
	p := h.genPlan()
	// tail markers: the text that header / footer / line_pattern regexps look for sits in a LAST,
	// additional field of the row - beyond every declared column index - so the patterns depend on
	// fields no column reads (and on the row being kept whole while it is buffered)
	tail := r.Chance(0.4)
	toTail := func(q *pat) *pat {
		if q == nil || !tail || !q.Prefix {
			return q
		}
		return &pat{Suffix: r.Chance(0.6), Lit: q.Lit}
	}
	if tail {
		for i := range p.decls {
			p.decls[i].Header, p.decls[i].Footer = toTail(p.decls[i].Header), toTail(p.decls[i].Footer)
		}
		for i := range p.sel {
			p.sel[i].LinePat = toTail(p.sel[i].LinePat)
		}
		h.sum.Hist("csv2-tail-markers")
	}
	// columns of the target declaration
	ncols := r.Between(1, 5)
	names := pickNames(r, ncols)
	var cols []col2
	prev := 0
	for i := 0; i < ncols; i++ {
		c := col2{Name: names[i], Sel: p.sel[r.Pick(len(p.sel))]}
		if r.Chance(0.6) {
			c.Index, c.Explicit = r.Between(1, 7), true
			if tail {
				c.Index = r.Between(1, 3)
			}
		} else {
			c.Index = prev + 1
		}
		prev = c.Index
		cols = append(cols, c)
	}
	long := r.Chance(0.05)
	// lines
	var rows []erow
	nt := false
	for ii := range p.insts {
		in := &p.insts[ii]
		for k, tag := range in.tags {
			w := r.Between(0, 6)
			vals := [][]byte{[]byte(tag)}
			if tail && tag != "" {
				w = r.Between(3, 7)
				vals = nil
			}
			for j := 0; j < w; j++ {
				v := genField(r, enc, !replace, r.Chance(0.2))
				if replace && needsQuote(enc, bytes.ReplaceAll(v, []byte{'"'}, []byte{'\''})) {
					v = []byte("v")
				}
				vals = append(vals, v)
			}
			if long && ii == len(p.insts)/2 && k == 0 {
				vals = append(vals, filler(r, r.Between(4000, 9000), enc))
			}
			if tail && tag != "" {
				vals = append(vals, []byte(tag))
			}
			if replace && len(vals) == 1 && len(vals[0]) == 0 { // would be an empty line
				vals = append(vals, []byte("v"))
			}
			if bytes.Contains([]byte(tag), enc) { // the delimiter is a letter of the tag
				return
			}
			row := mkRow(r, enc, vals, true)
			if replace {
				for i := range row.Fields {
					row.Fields[i].Q = false
				}
			}
			nt = nt || rowNontrivial(enc, row)
			rows = append(rows, row)
			in.lines = append(in.lines, lline{fields: vals})
		}
	}
	input := encTable(enc, rows, nil)
	// schema
	var recs []map[string]interface{}
	var coqDecls []string
	for i, d := range p.decls {
		var cs []map[string]interface{}
		var coqCols []string
		if i == p.tgt {
			for _, c := range cols {
				m := map[string]interface{}{"name": c.Name}
				if c.Explicit {
					m["index"] = c.Index
				}
				if c.Sel.LineIndex != nil {
					m["line_index"] = *c.Sel.LineIndex
				}
				if c.Sel.LinePat != nil {
					m["line_pattern"] = c.Sel.LinePat.regex()
				}
				cs = append(cs, m)
				coqCols = append(coqCols, fmt.Sprintf("mkCol2 %s %s %s %s", chex([]byte(c.Name)), vh.CoqNat(c.Index), coqOptNat(c.Sel.LineIndex), coqOptPat(c.Sel.LinePat)))
			}
		}
		recs = append(recs, d.schema("columns", cs))
		coqDecls = append(coqDecls, fmt.Sprintf("mkRec2 %s %s %s %s %s %s", chex([]byte(d.Name)), d.coqShape(), vh.CoqBool(i == p.tgt), d.coqMin(), d.coqMax(), vh.CoqList(coqCols)))
	}
	decl := map[string]interface{}{"delimiter": string(delim), "records": recs}
	if replace {
		decl["replace_double_quotes"] = true
	}
	schema := schemaJSON("csv2", decl)
	// expected
	var exp []outcome
	for _, in := range p.insts {
		if in.decl != p.tgt {
			continue
		}
		o := outcome{Kind: "node", Name: p.decls[p.tgt].Name}
		for _, c := range cols {
			for i, l := range in.lines {
				var fs [][]byte
				for _, f := range l.fields {
					if replace {
						fs = append(fs, bytes.ReplaceAll(f, []byte{'"'}, []byte{'\''}))
					} else {
						fs = append(fs, crlf2lf(f))
					}
				}
				raw := bytes.Join(fs, enc)
				if !c.Sel.match(i, raw) {
					continue
				}
				v := []byte{}
				if c.Index >= 1 && c.Index <= len(fs) {
					v = fs[c.Index-1]
				}
				o.Kids = append(o.Kids, kv{Name: c.Name, Val: v})
				break
			}
		}
		exp = append(exp, o)
	}
	exp = append(exp, outcome{Kind: "eof"})
	kind := "csv2"
	damaged := ""
	if r.Chance(0.12) {
		input, damaged = vh.Mutate(r, input)
		if damaged != "wellformed" {
			exp, kind = nil, "csv2-damaged"
		}
	}
	desc := map[string]interface{}{"stream": kind, "schema": string(schema), "input_hex": hex.EncodeToString(input), "damage": damaged}
	obs, serr := h.run(desc, schema, input, len(rows)+len(input)+6)
	if serr != nil {
		h.sum.Fail("csv2: generated schema rejected", desc, serr.Error())
		return
	}
	h.sum.Hist(fmt.Sprintf("delimiter-bytes:%d", len(enc)))
	h.sum.Hist(fmt.Sprintf("csv2-template:%s", p.decls[len(p.decls)-1].Name))
	if len(input) > 4096 {
		h.sum.Hist("input>4096")
	}
	h.judge(kind, desc, obs, exp, nt)
	term := fmt.Sprintf("CaseCsv2 %s %s %s %s %s", vh.CoqN(int(delim)), vh.CoqBool(replace), vh.CoqList(coqDecls), chex(input), coqOuts(obs))
	desc["observed"] = outStrings(obs)
	h.cw.Add(term, desc)
	h.sum.Sample(desc)
}

// ---- fixed-length text of a plan ---------------------------------------------------------------------------------

// boundaryUnits builds a line of exactly (or one around) a multiple of the 4096-byte bufio buffer,
// optionally with a CR or a multi-byte rune sitting on the boundary.
func boundaryUnits(r *vh.Rng, tag string) []unit {
	target := 4096*r.Between(1, 3) + r.Between(-2, 2)
	us := tagUnits(tag)
	n := len(tag)
	special := r.Pick(4)
	for n < target {
		switch {
		case special == 1 && n == 4095:
			us = append(us, unit{'\r'}) // CR as the last byte of the first fragment
			n++
		case special == 2 && n >= 4093 && n <= 4095:
			us = append(us, unit("\xf0\x9f\x98\x80")) // a rune straddling the boundary
			n += 4
		case special == 3 && n%7 == 3:
			us = append(us, unit("é"))
			n += 2
		default:
			us = append(us, unit{byte('a' + n%26)})
			n++
		}
	}
	for len(us) > 0 && us[len(us)-1][0] == '\r' {
		us[len(us)-1] = unit{'~'}
	}
	return us
}

func (h *H) fixedLines(p *plan, width int, long bool) (input []byte, nlines int, nt func(cols []fcol) bool) {
	r := h.r
	var all [][]unit
	lastLen := 0
	for ii := range p.insts {
		in := &p.insts[ii]
		for k, tag := range in.tags {
			n := r.Between(0, width+3)
			var us []unit
			if long && ii == len(p.insts)/2 && k == 0 {
				if r.Chance(0.5) {
					us = boundaryUnits(r, tag)
				} else {
					n = r.Between(4000, 12500)
				}
			}
			if us == nil && tag == "" {
				us = blankOrText(r, width)
			}
			if us == nil {
				us = append(tagUnits(tag), genUnits(r, n, r.Chance(0.3))...)
			}
			in.lines = append(in.lines, lline{units: us})
			all = append(all, us)
			if r.Chance(0.08) {
				for i, m := 0, r.Between(1, 2); i < m; i++ {
					input = append(input, eol(r.Chance(0.4))...)
				}
			}
			input = append(input, joinUnits(us)...)
			input = append(input, lineEOL(r, us, 0.3)...)
			lastLen = len(joinUnits(us))
			nlines++
		}
	}
	// last line without terminator - inside the guard of known finding F22: an unterminated last
	// line must be shorter than the reader's 4096-byte buffer
	if r.Chance(0.1) && len(input) > 0 && lastLen < 4096 {
		input = bytes.TrimSuffix(bytes.TrimSuffix(input, []byte("\n")), []byte("\r"))
	}
	nt = func(cols []fcol) bool {
		for _, us := range all {
			for _, c := range cols {
				if multibyteBefore(us, c.Start+c.Len-1) {
					return true
				}
			}
		}
		return false
	}
	return
}

// blankOrText: an untagged (never empty) line - often made of blanks only, sometimes one space
func blankOrText(r *vh.Rng, width int) []unit {
	switch k := r.Pick(10); {
	case k < 2:
		return []unit{{' '}}
	case k < 5:
		n := r.Between(1, width+3)
		us := make([]unit, n)
		for i := range us {
			us[i] = unit{" \t "[r.Pick(3)]}
		}
		return us
	case k == 5:
		return [][]unit{{{'\t'}}, {{'\r'}}, {{'\r'}, {'\r'}}, {{' '}, {'\r'}}}[r.Pick(4)]
	default:
		us := genUnits(r, r.Between(1, width+3), r.Chance(0.3))
		if r.Chance(0.3) { // leading blanks
			us = append([]unit{{' '}, {' '}}, us...)
		}
		return us
	}
}

func (h *H) fixedCols(p *plan, width int, lineIndexOK, long bool) []fcol {
	cols := genLayout(h.r, width)
	if long && h.r.Chance(0.5) {
		cols[0].Start, cols[0].Len = h.r.Between(3900, 4200), h.r.Between(1, 60)
	}
	for i := range cols {
		s := p.sel[h.r.Pick(len(p.sel))]
		if s.LineIndex != nil && !lineIndexOK {
			s = colSel{}
		}
		cols[i].LineIndex, cols[i].LinePat = s.LineIndex, s.LinePat
	}
	return cols
}

func (h *H) fixed2Case() {
	r := h.r
	p := h.genPlan()
	width := r.Between(2, 24)
	long := r.Chance(0.04)
	cols := h.fixedCols(&p, width, true, long)
	input, nlines, ntf := h.fixedLines(&p, width, long)
	if long {
		h.sum.Hist("line>4096")
	}
	h.fixed2Finish(&p, cols, input, nlines, ntf(cols), "fixedlength2", r.Chance(0.12))
}

// fixed2Finish: schema, expected deliveries from the logical lines, run, judge, Coq case.
func (h *H) fixed2Finish(p *plan, cols []fcol, input []byte, nlines int, nontrivial bool, kind string, damage bool) {
	r := h.r
	var envs []map[string]interface{}
	var coqDecls []string
	for i, d := range p.decls {
		var cs []map[string]interface{}
		var coqCols []string
		if i == p.tgt {
			for _, c := range cols {
				cs = append(cs, c.schema(true))
				coqCols = append(coqCols, c.coq(len(input)+64))
			}
		}
		envs = append(envs, d.schema("columns", cs))
		coqDecls = append(coqDecls, fmt.Sprintf("mkEnv2 %s %s %s %s %s %s", chex([]byte(d.Name)), d.coqShape(), vh.CoqBool(i == p.tgt), d.coqMin(), d.coqMax(), vh.CoqList(coqCols)))
	}
	schema := schemaJSON("fixedlength2", map[string]interface{}{"envelopes": envs})
	var exp []outcome
	for _, in := range p.insts {
		if in.decl != p.tgt {
			continue
		}
		o := outcome{Kind: "node", Name: p.decls[p.tgt].Name}
		for _, c := range cols {
			for i, l := range in.lines {
				if !(colSel{c.LineIndex, c.LinePat}).match(i, joinUnits(l.units)) {
					continue
				}
				o.Kids = append(o.Kids, kv{Name: c.Name, Val: sliceUnits(l.units, c.Start, c.Len)})
				break
			}
		}
		exp = append(exp, o)
	}
	exp = append(exp, outcome{Kind: "eof"})
	damaged := ""
	if damage {
		input, damaged = vh.Mutate(r, input)
		if damaged != "wellformed" {
			exp, kind = nil, kind+"-damaged"
		}
	}
	desc := map[string]interface{}{"stream": kind, "schema": string(schema), "input_hex": hex.EncodeToString(input), "damage": damaged}
	obs, serr := h.run(desc, schema, input, nlines+len(input)+6)
	if serr != nil {
		h.sum.Fail("fixedlength2: generated schema rejected", desc, serr.Error())
		return
	}
	h.sum.Hist(fmt.Sprintf("fixed2-template:%s", p.decls[len(p.decls)-1].Name))
	if len(input) > 4096 {
		h.sum.Hist("input>4096")
	}
	h.judge(kind, desc, obs, exp, nontrivial)
	term := fmt.Sprintf("CaseFixed2 %s %s %s", vh.CoqList(coqDecls), chex(input), coqOuts(obs))
	desc["observed"] = outStrings(obs)
	h.cw.Add(term, desc)
	h.sum.Sample(desc)
}

// fixed2AlignFamilies: long inputs (well over the 4096-byte bufio buffer) of multi-line envelopes
// (3 and 5 rows; header/footer envelopes of 3..6 lines) whose lines have varying lengths, behind a
// leading filler line whose length is swept so that every refill boundary of the buffer moves
// through an envelope line by line: an earlier line of an envelope sits entirely inside the
// buffer while a later line of the same envelope straddles its end - the situation in which a
// line handed out as a reference into the buffer is overwritten unless the reader copied it
// (upstream issue 213; fixed2_no_poison).  Runs in every check; columns read every line of the
// envelope, so a corrupted earlier line shows up as a wrong column value.
func (h *H) fixed2AlignFamilies() {
	r := h.r
	for fam := 0; fam < 3; fam++ {
		var p plan
		hdr := tdecl{Name: "hdr", Header: &pat{Prefix: true, Lit: "H0"}, Min: intp(0), Max: intp(1)}
		var maxLines int
		nEnv := 0
		switch fam {
		case 0:
			p.decls = []tdecl{hdr, {Name: "rec3", Rows: intp(3), Target: true}}
			maxLines, nEnv = 3, 70
		case 1:
			p.decls = []tdecl{hdr, {Name: "rec5", Rows: intp(5), Target: true}}
			maxLines, nEnv = 5, 40
		default:
			p.decls = []tdecl{hdr, {Name: "body", Header: &pat{Prefix: true, Lit: "BG"}, Footer: &pat{Prefix: true, Lit: "EN"}, Target: true}}
			maxLines, nEnv = 6, 45
		}
		p.tgt = 1
		// columns: two per line position, near the start of the line (so they exist on every line)
		var cols []fcol
		for k := 1; k <= maxLines; k++ {
			cols = append(cols, fcol{Name: fmt.Sprintf("l%d", k), Start: r.Between(1, 6), Len: r.Between(8, 14), LineIndex: intp(k)})
		}
		if fam == 2 {
			cols = append(cols, fcol{Name: "foot", Start: 1, Len: 12, LinePat: &pat{Prefix: true, Lit: "EN"}},
				fcol{Name: "mid", Start: 2, Len: 10, LinePat: &pat{Prefix: true, Lit: "M1"}})
		}
		// the envelopes (fixed for the family)
		var body []byte
		nlines := 1
		firstLen := 0
		for e := 0; e < nEnv; e++ {
			var tags []string
			switch fam {
			case 0:
				tags = []string{"T1", "T2", "T3"}
			case 1:
				tags = []string{"T1", "T2", "T3", "T4", "T5"}
			default:
				tags = []string{"BG"}
				for k, m := 0, r.Between(1, 4); k < m; k++ {
					tags = append(tags, "M1")
				}
				tags = append(tags, "EN")
			}
			in := instance{decl: 1, tags: tags}
			start := len(body)
			for _, tag := range tags {
				us := append(tagUnits(fmt.Sprintf("%s%04d", tag, e)), genUnits(r, r.Between(10, 70), false)...)
				in.lines = append(in.lines, lline{units: us})
				body = append(body, joinUnits(us)...)
				body = append(body, lineEOL(r, us, 0.2)...)
				nlines++
			}
			if e == 0 {
				firstLen = len(body) - start
			}
			p.insts = append(p.insts, in)
		}
		// sweep the filler so that the first refill boundary (and with it the later ones) moves
		// through one whole envelope
		step := firstLen/28 + 1
		base := r.Between(0, 40)
		for f := 0; f <= firstLen+step; f += step {
			filler := append(tagUnits("H0"), genUnitsASCII(base+f)...)
			pp := p
			pp.insts = append([]instance{{decl: 0, tags: []string{"H0"}, lines: []lline{{units: filler}}}}, p.insts...)
			input := append(append(joinUnits(filler), '\n'), body...)
			h.sum.Hist("fixed2-align-family")
			h.fixed2Finish(&pp, cols, input, nlines, true, "fixedlength2", false)
		}
	}
}

func genUnitsASCII(n int) []unit {
	us := make([]unit, n)
	for i := range us {
		us[i] = unit{byte('a' + i%26)}
	}
	return us
}

// ---- old fixed-length ------------------------------------------------------------------------------------------------

func (h *H) fixed1Case() {
	r := h.r
	width := r.Between(2, 24)
	long := r.Chance(0.04)
	var p plan
	ninst := r.Between(0, 6)
	if r.Chance(0.08) {
		ninst = r.Between(20, 60)
	}
	byRows := r.Chance(0.5)
	var envs []map[string]interface{}
	var coqEnvs []string
	var cols []fcol
	if byRows {
		n := r.Between(1, 3)
		untagged := r.Chance(0.4)
		var tags []string
		for k := 0; k < n; k++ {
			if untagged {
				tags = append(tags, "")
				continue
			}
			tags = append(tags, fmt.Sprintf("T%d", k+1))
			p.sel = append(p.sel, colSel{LinePat: &pat{Prefix: true, Lit: fmt.Sprintf("T%d", k+1)}})
		}
		p.sel = append(p.sel, colSel{}, colSel{}, colSel{LinePat: &pat{Prefix: false, Lit: "zzNOzz"}}, colSel{LinePat: &pat{Prefix: false, Lit: "a"}})
		for i := 0; i < ninst; i++ {
			p.insts = append(p.insts, instance{decl: 0, tags: tags})
		}
		cols = h.fixedCols(&p, width, false, long)
		e := map[string]interface{}{}
		if n > 1 || r.Chance(0.5) {
			e["by_rows"] = n
		}
		var cs []map[string]interface{}
		var coqCols []string
		for _, c := range cols {
			cs = append(cs, c.schema(false))
			coqCols = append(coqCols, "%COL"+fmt.Sprint(len(coqCols))+"%")
		}
		e["columns"] = cs
		envs = append(envs, e)
		// the envelope name is generated by validation ("1", "2", ... per file format instance):
		// it is read back from the first delivered node and pinned in the model term below
		coqEnvs = append(coqEnvs, fmt.Sprintf("mkEnv1 %%NAME%% None %s false %s", vh.CoqNat(n), vh.CoqList(coqCols)))
	} else {
		p.sel = []colSel{{}, {}, {LinePat: &pat{Prefix: true, Lit: "BG"}}, {LinePat: &pat{Prefix: true, Lit: "M1"}}, {LinePat: &pat{Prefix: true, Lit: "EN"}},
			{LinePat: &pat{Prefix: false, Lit: "M"}}, {LinePat: &pat{Prefix: false, Lit: "zzNOzz"}}}
		hasHdr := r.Chance(0.5)
		if hasHdr {
			hp := &pat{Prefix: true, Lit: "H0"}
			envs = append(envs, map[string]interface{}{"name": "hdr", "by_header_footer": map[string]interface{}{"header": hp.regex(), "footer": hp.regex()}, "not_target": true,
				"columns": []map[string]interface{}{{"name": "h", "start_pos": 1, "length": 3}}})
			coqEnvs = append(coqEnvs, fmt.Sprintf("mkEnv1 %s (Some (%s, %s)) 1%%nat true [mkFCol %s 1%%nat 3%%nat None None]", chex([]byte("hdr")), hp.coq(), hp.coq(), chex([]byte("h"))))
			if r.Chance(0.7) {
				p.insts = append(p.insts, instance{decl: 0, tags: []string{"H0"}})
			}
		}
		tgt := 0
		if hasHdr {
			tgt = 1
		}
		p.tgt = tgt
		for i := 0; i < ninst; i++ {
			tags := []string{"BG"}
			for k, m := 0, r.Between(0, 3); k < m; k++ {
				tags = append(tags, []string{"M1", "M2", "BX", "", ""}[r.Pick(5)])
			}
			p.insts = append(p.insts, instance{decl: tgt, tags: append(tags, "EN")})
		}
		cols = h.fixedCols(&p, width, false, long)
		bp, ep := &pat{Prefix: true, Lit: "BG"}, &pat{Prefix: true, Lit: "EN"}
		var cs []map[string]interface{}
		var coqCols []string
		for _, c := range cols {
			cs = append(cs, c.schema(false))
			coqCols = append(coqCols, "%COL"+fmt.Sprint(len(coqCols))+"%")
		}
		envs = append(envs, map[string]interface{}{"name": "body", "by_header_footer": map[string]interface{}{"header": bp.regex(), "footer": ep.regex()}, "columns": cs})
		coqEnvs = append(coqEnvs, fmt.Sprintf("mkEnv1 %s (Some (%s, %s)) 1%%nat false %s", chex([]byte("body")), bp.coq(), ep.coq(), vh.CoqList(coqCols)))
	}
	input, nlines, ntf := h.fixedLines(&p, width, long)
	schema := schemaJSON("fixed-length", map[string]interface{}{"envelopes": envs})
	var exp []outcome
	for _, in := range p.insts {
		if in.decl != p.tgt {
			continue
		}
		o := outcome{Kind: "node", Name: "body"}
		done := make([]bool, len(cols))
		for _, l := range in.lines {
			for ci, c := range cols {
				if done[ci] || !(colSel{nil, c.LinePat}).match(0, joinUnits(l.units)) {
					continue
				}
				o.Kids = append(o.Kids, kv{Name: c.Name, Val: sliceUnits(l.units, c.Start, c.Len)})
				done[ci] = true
			}
		}
		exp = append(exp, o)
	}
	exp = append(exp, outcome{Kind: "eof"})
	kind := "fixed-length"
	damaged := ""
	if r.Chance(0.12) {
		input, damaged = vh.Mutate(r, input)
		if damaged != "wellformed" {
			exp, kind = nil, "fixed-length-damaged"
		}
	}
	desc := map[string]interface{}{"stream": kind, "schema": string(schema), "input_hex": hex.EncodeToString(input), "damage": damaged}
	obs, serr := h.run(desc, schema, input, nlines+len(input)+6)
	if serr != nil {
		h.sum.Fail("fixed-length: generated schema rejected", desc, serr.Error())
		return
	}
	// by_rows envelopes get a generated name (a process-wide counter): project it away
	name := "body"
	if byRows {
		name = "?"
		for i := range obs {
			if obs[i].Kind == "node" {
				if name == "?" {
					name = obs[i].Name
				} else if obs[i].Name != name {
					h.sum.Fail("fixed-length: envelope name changes between records", desc, outStrings(obs))
				}
			}
		}
		for i := range exp {
			if exp[i].Kind == "node" {
				exp[i].Name = name
			}
		}
	}
	if byRows {
		h.sum.Hist("fixed1:by_rows")
	} else {
		h.sum.Hist("fixed1:by_header_footer")
	}
	if len(input) > 4096 {
		h.sum.Hist("input>4096")
	}
	if long {
		h.sum.Hist("line>4096")
	}
	h.judge(kind, desc, obs, exp, ntf(cols))
	envsTerm := strings.ReplaceAll(vh.CoqList(coqEnvs), "%NAME%", chex([]byte(name)))
	for i, c := range cols {
		envsTerm = strings.ReplaceAll(envsTerm, "%COL"+fmt.Sprint(i)+"%", c.coq(len(input)+64))
	}
	term := fmt.Sprintf("CaseFixed1 %s %s %s", envsTerm, chex(input), coqOuts(obs))
	desc["observed"] = outStrings(obs)
	h.cw.Add(term, desc)
	h.sum.Sample(desc)
}

// ---- corpus / replay ---------------------------------------------------------------------------------------------------

// A corpus or replay file: {"case": {"stream", "schema", "input_hex"}, "what": "...",
// "expected": [[["column", "value-hex"], ...], ...]} - the case is run; when "expected" is present
// the delivered records are compared with it and a difference is reported through sum.Fail
// with key KeyOf(case) (this is how a known finding is recognised).
func (h *H) replayFile(path string, verbose bool) {
	b, err := os.ReadFile(path)
	if err != nil {
		return
	}
	var f struct {
		Case     map[string]interface{} `json:"case"`
		What     string                 `json:"what"`
		Expected [][][2]string          `json:"expected"`
	}
	if json.Unmarshal(b, &f) != nil || f.Case == nil {
		return
	}
	schema, _ := f.Case["schema"].(string)
	inHex, _ := f.Case["input_hex"].(string)
	input, _ := hex.DecodeString(inHex)
	if schema == "" {
		return
	}
	vh.Current(h.o, f.Case)
	obs, serr := runPipeline([]byte(schema), input, len(input)+10)
	if verbose {
		fmt.Printf("replay %s\n  schema: %s\n  input (%d bytes): %.300q\n", path, schema, len(input), input)
		if serr != nil {
			fmt.Println("  schema rejected:", serr)
		}
		for i, o := range obs {
			fmt.Printf("  read %d: %.400s\n", i+1, o)
		}
	}
	if serr != nil {
		return
	}
	h.sum.Hist("corpus")
	for _, o := range obs {
		if o.Kind == "panic" || o.Kind == "hang" {
			h.sum.Fail("replay: Read "+o.Kind, f.Case, o.Msg)
			return
		}
	}
	if f.Expected == nil {
		return
	}
	var got [][][2]string
	for _, o := range obs {
		if o.Kind == "node" {
			rec := [][2]string{}
			for _, k := range o.Kids {
				rec = append(rec, [2]string{k.Name, hex.EncodeToString(k.Val)})
			}
			got = append(got, rec)
		}
	}
	gb, _ := json.Marshal(got)
	eb, _ := json.Marshal(f.Expected)
	last := "none"
	if len(obs) > 0 {
		last = obs[len(obs)-1].Kind
	}
	if string(gb) != string(eb) || last != "eof" {
		what := f.What
		if what == "" {
			what = "corpus case: delivered records differ from the expected ones"
		}
		h.sum.Fail(what, f.Case, map[string]interface{}{"delivered_records": len(got), "expected_records": len(f.Expected), "last_result": last})
		if verbose {
			fmt.Printf("  FAILS: %d records delivered, %d expected; key=%s\n", len(got), len(f.Expected), vh.KeyOf(f.Case))
		}
	} else if verbose {
		fmt.Println("  passes")
	}
}

func main() {
	o := vh.ParseOpts()
	h := &H{o: o, r: vh.NewRng(o.Seed)}
	h.sum = vh.NewSummary("C06", o,
		"logical tables / line sets run through csv, csv2, fixed-length and fixedlength2 via Transform.Read + RawRecord, plus the csv encoder against encoding/csv; "+
			"non-trivial = (delimited) at least one field needs quoting, (fixed-length) at least one multi-byte rune lies before a column boundary; distinct by (schema, input)")
	h.cw = vh.NewCaseWriter(o, "C06", "Base.Utf8 Base.Tree Model.Csv Model.Fixed Model.Delim Model.DelimPack.\nFrom Coq Require Import Uint63", "c06case", "check_case")
	h.cw.PerFile = 200
	if o.Replay != "" {
		// a replay file written by bin/check has the case under "case"; corpus files too
		h.replayFile(o.Replay, true)
		h.sum.Write(o)
		return
	}
	if o.Corpus != "" {
		files, _ := filepath.Glob(filepath.Join(o.Corpus, "*.json"))
		sort.Strings(files)
		for _, f := range files {
			h.replayFile(f, false)
		}
	}
	total := o.Count(1800, 100000)
	h.cw.PerFile = 14 // the alignment families are heavy cases: spread them over several shards
	h.fixed2AlignFamilies()
	h.cw.Flush()
	h.cw.PerFile = 200
	for c := 0; c < total; c++ {
		switch k := h.r.Pick(10); {
		case k < 2:
			h.encCase()
		case k < 4:
			h.csvCase()
		case k < 6:
			h.csv2Case()
		case k < 8:
			h.fixed1Case()
		default:
			h.fixed2Case()
		}
	}
	h.cw.Flush()
	h.sum.CaseFiles = h.cw.Files
	h.sum.Write(o)
	_ = utf8.RuneError
}
