package main

import (
	"encoding/json"
	"fmt"
	"strings"

	"verifharness/vh"
)

// Random HIERARCHIES for the csv2 / fixedlength2 / EDI readers (flatfile/hierarchyReader.go,
// edi/reader.go), driven through the public Transform API with the full audit on (plain, pool
// drained after every Read, second owner, both; extra Reads after the terminal result).
// Directed shapes: a target with a bounded max (1 or 2) as the LAST child of a repeating
// non-target wrapper (group or record, max -1 or >= 2), with input that reaches the target's max,
// so that the wrapper instance completes in the same recDone cascade that marked the target;
// targets that are groups; wrappers with several children; nested wrappers.  Plus undirected
// random hierarchies.  A FINAL_OUTPUT filter rejects units flagged 'X' in half of the cases.

type hdecl struct {
	Name   string   `json:"name"`
	Group  bool     `json:"group,omitempty"`
	Target bool     `json:"target,omitempty"`
	Min    int      `json:"min"`
	Max    int      `json:"max"` // -1 = unbounded
	Kids   []*hdecl `json:"kids,omitempty"`
}

type hgen struct {
	r     *vh.Rng
	nrec  int
	ngrp  int
	decls []*hdecl // all declarations, for picking a target
}

func (g *hgen) rec(min, max int, kids ...*hdecl) *hdecl {
	g.nrec++
	d := &hdecl{Name: string(rune('A' + (g.nrec-1)%23)), Min: min, Max: max, Kids: kids}
	g.decls = append(g.decls, d)
	return d
}

func (g *hgen) grp(min, max int, kids ...*hdecl) *hdecl {
	g.ngrp++
	if len(kids) == 0 {
		kids = []*hdecl{g.rec(1, 1)}
	} else if kids[0].Group && len(kids[0].Kids) == 0 {
		kids[0].Kids = []*hdecl{g.rec(1, 1)}
	}
	d := &hdecl{Name: fmt.Sprintf("g%d", g.ngrp), Group: true, Min: min, Max: max, Kids: kids}
	g.decls = append(g.decls, d)
	return d
}

func (g *hgen) wrapperMax() int { return []int{-1, -1, 2, 3}[g.r.Pick(4)] }

func (g *hgen) either(min, max int, kids ...*hdecl) *hdecl {
	if g.r.Chance(0.5) && len(kids) > 0 {
		return g.grp(min, max, kids...)
	}
	return g.rec(min, max, kids...)
}

// directed builds: [H?] W{ sib* T } [trailer?], optionally W nested in another wrapper.
func (g *hgen) directed() []*hdecl {
	r := g.r
	// the target: a record, a record with child records, or a group
	var t *hdecl
	tmax := 1 + r.Pick(2)
	switch r.Pick(4) {
	case 0:
		t = g.grp(r.Pick(2), tmax, g.rec(1, 1), g.rec(0, 1+r.Pick(2)))
	case 1:
		t = g.rec(r.Pick(2), tmax, g.rec(0, 2))
	default:
		t = g.rec(r.Pick(2), tmax)
	}
	t.Target = true
	var kids []*hdecl
	for i, n := 0, r.Pick(3); i < n; i++ {
		kids = append(kids, g.rec(r.Pick(2), []int{1, 2, -1}[r.Pick(3)]))
	}
	kids = append(kids, t)
	if r.Chance(0.15) { // sometimes the target is not the last child
		kids = append(kids, g.rec(0, 1))
	}
	var w *hdecl
	if kids[0].Group || r.Chance(0.5) {
		w = g.rec(r.Pick(2), g.wrapperMax(), kids...) // a record with child records
	} else {
		w = g.grp(r.Pick(2), g.wrapperMax(), kids...)
	}
	if r.Chance(0.4) { // nested wrappers
		outer := []*hdecl{}
		if r.Chance(0.5) {
			outer = append(outer, g.rec(0, 1))
		}
		outer = append(outer, w)
		if r.Chance(0.5) {
			w = g.rec(r.Pick(2), g.wrapperMax(), outer...)
		} else if !outer[0].Group || len(outer[0].Kids) > 0 {
			w = g.grp(r.Pick(2), g.wrapperMax(), outer...)
		}
	}
	top := []*hdecl{}
	if r.Chance(0.4) {
		top = append(top, g.rec(0, 1))
	}
	top = append(top, w)
	if r.Chance(0.4) {
		top = append(top, g.rec(0, 1+r.Pick(2)))
	}
	return top
}

func (g *hgen) random(depth int) []*hdecl {
	r := g.r
	var out []*hdecl
	for i, n := 0, 1+r.Pick(3); i < n; i++ {
		min, max := r.Pick(2), []int{1, 1, 2, 3, -1}[r.Pick(5)]
		var kids []*hdecl
		if depth > 0 && r.Chance(0.5) {
			kids = g.random(depth - 1)
		}
		if len(kids) > 0 && r.Chance(0.4) {
			out = append(out, g.grp(min, max, kids...))
		} else {
			out = append(out, g.rec(min, max, kids...))
		}
	}
	return out
}

// a group is recognised by its first non-group descendant: make sure every group has one
func fixGroups(g *hgen, ds []*hdecl) {
	for _, d := range ds {
		if d.Group && (len(d.Kids) == 0 || (d.Kids[0].Group && len(d.Kids[0].Kids) == 0)) {
			d.Kids = append([]*hdecl{g.rec(1, 1)}, d.Kids...)
		}
		fixGroups(g, d.Kids)
	}
}

type hunit struct {
	name string
	id   int
	rej  bool
}

// derive writes an input the hierarchy accepts: every declaration gets a number of instances,
// bounded ones mostly exactly their max.
func derive(r *vh.Rng, ds []*hdecl, filter bool, out *[]hunit, id *int, budget *int) {
	for _, d := range ds {
		var n int
		switch {
		case d.Max < 0:
			n = d.Min + r.Pick(4)
		case r.Chance(0.75):
			n = d.Max
		default:
			n = r.Between(d.Min, d.Max)
		}
		for i := 0; i < n && *budget > 0; i++ {
			if !d.Group {
				*id++
				*budget--
				*out = append(*out, hunit{name: d.Name, id: *id, rej: filter && r.Chance(0.3)})
			}
			derive(r, d.Kids, filter, out, id, budget)
		}
	}
}

type jo map[string]interface{}

func hierDecls(format string, ds []*hdecl) []jo {
	out := []jo{}
	for _, d := range ds {
		o := jo{"name": d.Name, "min": d.Min, "max": d.Max}
		if d.Target {
			o["is_target"] = true
		}
		kidsKey := map[string]string{"csv2": "child_records", "fixedlength2": "child_envelopes", "edi": "child_segments"}[format]
		switch format {
		case "csv2":
			if d.Group {
				o["type"] = "record_group"
			} else {
				o["header"] = "^" + d.Name + ","
				o["columns"] = []jo{{"name": "c1", "index": 2}, {"name": "f", "index": 3}}
			}
		case "fixedlength2":
			if d.Group {
				o["type"] = "envelope_group"
			} else {
				o["header"] = "^" + d.Name
				o["columns"] = []jo{{"name": "c1", "start_pos": 2, "length": 4}, {"name": "f", "start_pos": 6, "length": 1}}
			}
		default:
			if d.Group {
				o["type"] = "segment_group"
			} else {
				o["elements"] = []jo{{"name": "c1", "index": 1, "default": ""}, {"name": "f", "index": 2, "default": "K"}}
			}
		}
		if len(d.Kids) > 0 {
			o[kidsKey] = hierDecls(format, d.Kids)
		}
		out = append(out, o)
	}
	return out
}

func hierSchema(format string, ds []*hdecl, filter bool) string {
	var fd jo
	switch format {
	case "csv2":
		fd = jo{"delimiter": ",", "records": hierDecls(format, ds)}
	case "fixedlength2":
		fd = jo{"envelopes": hierDecls(format, ds)}
	default:
		fd = jo{"segment_delimiter": "~", "element_delimiter": "*", "segment_declarations": hierDecls(format, ds)}
	}
	fo := jo{"object": jo{"v": jo{"xpath": "c1", "keep_empty_or_null": true}, "n": jo{"xpath": ".//c1", "keep_empty_or_null": true}}}
	if filter {
		fo["xpath"] = ".[not(.//f = 'X')]"
	}
	b, _ := json.Marshal(jo{
		"parser_settings":        jo{"version": "omni.2.1", "file_format_type": format},
		"file_declaration":       fd,
		"transform_declarations": jo{"FINAL_OUTPUT": fo},
	})
	return string(b)
}

func hierInput(format string, us []hunit) []byte {
	var sb strings.Builder
	for _, u := range us {
		f := "K"
		if u.rej {
			f = "X"
		}
		switch format {
		case "csv2":
			fmt.Fprintf(&sb, "%s,%d,%s\n", u.name, u.id, f)
		case "fixedlength2":
			fmt.Fprintf(&sb, "%s%04d%s\n", u.name, u.id%10000, f)
		default:
			fmt.Fprintf(&sb, "%s*%d*%s~", u.name, u.id, f)
		}
	}
	return []byte(sb.String())
}

func hierarchyReaders(r *vh.Rng, sum *vh.Summary, cw *vh.CaseWriter, n int) {
	for i := 0; i < n; i++ {
		g := &hgen{r: r}
		var ds []*hdecl
		shape := "directed"
		if r.Chance(0.65) {
			ds = g.directed()
		} else {
			shape = "random"
			ds = g.random(2)
			fixGroups(g, ds)
			// exactly one target
			t := g.decls[r.Pick(len(g.decls))]
			t.Target = true
		}
		fixGroups(g, ds)
		filter := r.Chance(0.5)
		var us []hunit
		id, budget := 0, 60
		derive(r, ds, filter, &us, &id, &budget)
		switch r.Pick(6) {
		case 0: // an undeclared unit at the end: the readers end with a fatal error
			us = append(us, hunit{name: "Z", id: 9999})
		case 1: // the last units are rejected by the filter
			for k := len(us) - 1; k >= 0 && k >= len(us)-3; k-- {
				us[k].rej = filter
			}
		}
		for _, format := range []string{"csv2", "fixedlength2", "edi"} {
			if r.Chance(0.4) {
				continue
			}
			schema := hierSchema(format, ds, filter)
			in := hierInput(format, us)
			kind := "hierarchy-" + shape
			sum.Hist("hierarchy:" + format + ":" + shape)
			mode := r.Pick(4)
			auditTransform(sum, cw, format, schema, in, kind, nil, mode&1 == 1, mode&2 == 2)
			if r.Chance(0.5) {
				auditTransform(sum, cw, format, schema, in, kind+"+direct", nil, mode&1 == 0, true, true)
			}
		}
	}
}


// fatalAfterTarget: inputs that END IN A FATAL ERROR right after >= 1 delivered target instance,
// while the stack frame of the target declaration is still on top: the unit right after a target
// instance is corrupted (EDI: a segment without a name; csv2: an unterminated quote), or fits no
// declaration, or the target's min occurs is not met when a non-matching unit or EOF arrives.
// The target is top-level or inside a (repeating) wrapper; target records, target groups.
func fatalAfterTarget(r *vh.Rng, sum *vh.Summary, cw *vh.CaseWriter, n int) {
	for i := 0; i < n; i++ {
		g := &hgen{r: r}
		ending := []string{"corrupted", "undeclared", "min-unmet-other", "min-unmet-eof", "corrupted-then-more"}[r.Pick(5)]
		minT := 1 + r.Pick(3)
		if ending == "min-unmet-other" || ending == "min-unmet-eof" {
			minT = 2 + r.Pick(2)
		}
		maxT := []int{-1, minT, minT + 1}[r.Pick(3)]
		var t *hdecl
		switch r.Pick(4) {
		case 0:
			t = g.grp(minT, maxT, g.rec(1, 1), g.rec(0, 1))
		case 1:
			t = g.rec(minT, maxT, g.rec(0, 1))
		default:
			t = g.rec(minT, maxT)
		}
		t.Target = true
		var top []*hdecl
		hdr := r.Chance(0.6)
		if hdr {
			top = append(top, g.rec(0, 1))
		}
		wrapped := r.Chance(0.5)
		var w *hdecl
		if wrapped {
			w = g.rec(0, g.wrapperMax(), t)
			top = append(top, w)
		} else {
			top = append(top, t)
		}
		trailer := g.rec(0, 1)
		top = append(top, trailer)
		fixGroups(g, top)
		// the input: header?, [wrapper line], k target instances, the ending
		var us []hunit
		id := 0
		add := func(name string) { id++; us = append(us, hunit{name: name, id: id}) }
		var inst func(d *hdecl)
		inst = func(d *hdecl) {
			if !d.Group {
				add(d.Name)
			}
			for _, k := range d.Kids {
				if k.Min > 0 || r.Chance(0.5) {
					inst(k)
				}
			}
		}
		if hdr {
			add(top[0].Name)
		}
		rounds := 1
		if wrapped && r.Chance(0.5) {
			rounds = 2 // a complete wrapper instance first, the failing one second
		}
		for round := 0; round < rounds; round++ {
			if wrapped {
				add(w.Name)
			}
			k := minT
			if round == rounds-1 && (ending == "min-unmet-other" || ending == "min-unmet-eof") {
				k = 1 + r.Pick(minT-1) // at least one delivered instance, fewer than min
			} else if maxT < 0 || maxT > minT {
				k = minT + r.Pick(2)
			}
			for j := 0; j < k; j++ {
				inst(t)
			}
		}
		switch ending {
		case "corrupted":
			us = append(us, hunit{name: "!corrupt"})
		case "corrupted-then-more":
			us = append(us, hunit{name: "!corrupt"})
			add(t.Kids0Name())
			add(trailer.Name)
		case "undeclared":
			us = append(us, hunit{name: "Z", id: 9999})
		case "min-unmet-other":
			add(trailer.Name)
		}
		filter := r.Chance(0.3)
		for _, format := range []string{"edi", "csv2", "fixedlength2"} {
			if format != "edi" && r.Chance(0.5) {
				continue
			}
			schema := hierSchema(format, top, filter)
			in := hierInputCorrupt(format, us)
			kind := "fatal-after-target:" + ending
			sum.Hist("hierarchy:" + format + ":" + kind)
			auditTransform(sum, cw, format, schema, in, kind, nil, r.Chance(0.5), true)
			auditTransform(sum, cw, format, schema, in, kind+"+direct", nil, r.Chance(0.5), true, true)
			if r.Chance(0.3) {
				auditTransform(sum, cw, format, schema, in, kind, nil)
			}
		}
	}
}

// Kids0Name: the name of the unit an instance of d starts with
func (d *hdecl) Kids0Name() string {
	for d.Group && len(d.Kids) > 0 {
		d = d.Kids[0]
	}
	return d.Name
}

// hierInputCorrupt renders units; the pseudo unit "!corrupt" is a unit the format's tokenizer rejects
func hierInputCorrupt(format string, us []hunit) []byte {
	var out []byte
	for _, u := range us {
		if u.name != "!corrupt" {
			out = append(out, hierInput(format, []hunit{u})...)
			continue
		}
		switch format {
		case "edi":
			out = append(out, []byte("*oops~")...) // a segment without a name
		case "csv2":
			out = append(out, []byte("\"unterminated,1,K\n")...)
		default:
			out = append(out, []byte("?\n")...) // fits no declaration (too short for any column, unknown name)
		}
	}
	return out
}
