package main

import (
	"fmt"
	"sort"
	"strings"

	"github.com/jf-tech/omniparser/idr"

	"verifharness/vh"
)

// opDesc is one operation of a history in its replayable form.  Nodes are named by the number
// the create operation gave them (not by address), so that a replay does not depend on which
// node sync.Pool happens to hand back.
type opDesc struct {
	Op   string `json:"op"`             // create | add | remove
	Kind string `json:"kind,omitempty"` // node | xml | json        (create)
	Ty   int    `json:"ty"`             // idr.NodeType             (create)
	Data string `json:"data,omitempty"` //                          (create)
	A    string `json:"a,omitempty"`    // XMLSpecific prefix       (create xml)
	B    string `json:"b,omitempty"`    // XMLSpecific uri          (create xml)
	J    int    `json:"j,omitempty"`    // JSONType                 (create json)
	P    int    `json:"p,omitempty"`    // parent name              (add)
	N    int    `json:"n"`              // node name                (create, add, remove)
}

type histCase struct {
	Caching bool     `json:"caching"`
	Ops     []opDesc `json:"ops"`
}

type rec struct { // link-level record of a node, pointers as labels (0 = nil); no ID
	par, first, last, prev, next int
	ty                           int
	data                         string
	fs                           string // Coq term
	fsN                          uint64 // Model.Heap.N_of_fs
}

// nOfBytes is Model.Heap.N_of_bytes: base-256 digits behind a leading 1.
func nOfBytes(s string) uint64 {
	acc := uint64(1)
	for i := 0; i < len(s); i++ {
		acc = acc*256 + uint64(s[i])
	}
	return acc
}

// nOfFs is Model.Heap.N_of_fs (exact for prefixes <= 2 bytes and URIs <= 5 bytes, which is all
// the generator produces; longer values would wrap and show up as a mismatch).
func nOfFs(n *idr.Node) uint64 {
	switch fs := n.FormatSpecific.(type) {
	case nil:
		return 0
	case idr.JSONType:
		return 4*uint64(fs) + 1
	case idr.XMLSpecific:
		return 4*(nOfBytes(fs.NamespacePrefix)*2199023255552+nOfBytes(fs.NamespaceURI)) + 2
	}
	return 3
}

func (r rec) fields() [8]uint64 {
	return [8]uint64{uint64(r.par), uint64(r.first), uint64(r.last), uint64(r.prev), uint64(r.next), uint64(r.ty), nOfBytes(r.data), r.fsN}
}

type hist struct {
	caching bool
	// labels: the k-th distinct *idr.Node seen gets label k (the model allocates addresses the
	// same way); every pointer is kept alive here, so an address never denotes two nodes
	lab   map[*idr.Node]int
	byLab []*idr.Node
	snap  []rec
	// live names
	ptr      map[int]*idr.Node
	owner    map[*idr.Node]int // live pointer -> name
	released map[*idr.Node]bool
	want     map[int]opDesc
	// the harness's own ordered forest over names (the expectation of the property oracle)
	kids   map[int][]int
	parent map[int]int
	roots  []int
	// ID bookkeeping: (pointer, generation) <-> ID
	gen    map[*idr.Node]int
	curID  map[*idr.Node]int64
	curGen map[*idr.Node]int
	idSeen map[int64]bool

	ops      []opDesc // executed operations
	coqOps   []string
	coqObs   []string
	fail     string
	failOp   int
	reused   bool // some create after a removal got a pooled node back
	removals map[string]int
	adds     map[string]int // AddChild calls by shape of the parent's child list
	maxLive  int
}

func newHist(caching bool) *hist {
	return &hist{caching: caching, lab: map[*idr.Node]int{}, ptr: map[int]*idr.Node{}, owner: map[*idr.Node]int{},
		released: map[*idr.Node]bool{}, want: map[int]opDesc{}, kids: map[int][]int{}, parent: map[int]int{},
		gen: map[*idr.Node]int{}, curID: map[*idr.Node]int64{}, curGen: map[*idr.Node]int{}, idSeen: map[int64]bool{},
		removals: map[string]int{}, adds: map[string]int{}}
}

func (h *hist) failf(f string, a ...interface{}) {
	if h.fail == "" {
		h.fail = fmt.Sprintf(f, a...)
		h.failOp = len(h.ops)
	}
}

func (h *hist) label(n *idr.Node) int {
	if n == nil {
		return 0
	}
	l, ok := h.lab[n]
	if !ok {
		l = len(h.byLab) + 1
		h.lab[n] = l
		h.byLab = append(h.byLab, n)
		h.snap = append(h.snap, rec{}) // a blank node
	}
	return l
}

func fsTerm(n *idr.Node) string {
	switch fs := n.FormatSpecific.(type) {
	case nil:
		return "FNone"
	case idr.XMLSpecific:
		return "(FXml " + vh.CoqHex([]byte(fs.NamespacePrefix)) + " " + vh.CoqHex([]byte(fs.NamespaceURI)) + ")"
	case idr.JSONType:
		return "(FJson " + vh.CoqN(int(fs)) + ")"
	default:
		return fmt.Sprintf("(FUnknown %T)", fs) // not a Coq term: the case will not check
	}
}

func (h *hist) record(n *idr.Node) rec {
	return rec{par: h.label(n.Parent), first: h.label(n.FirstChild), last: h.label(n.LastChild),
		prev: h.label(n.PrevSibling), next: h.label(n.NextSibling), ty: int(n.Type), data: n.Data, fs: fsTerm(n), fsN: nOfFs(n)}
}

func coqPos(l int) string { return fmt.Sprintf("%d", l) } // positive_scope is bound by Arguments in Model/Heap.v
func (r rec) coq() string {
	return fmt.Sprintf("nd %d %d %d %d %d %d %s %s", r.par, r.first, r.last, r.prev, r.next, r.ty, vh.CoqHex([]byte(r.data)), r.fs)
}

// observeID enforces: a node keeps its ID while it is held, and every new (node, generation)
// pair - a fresh allocation or a reset - shows an ID no other acquisition has shown.
func (h *hist) observeID(n *idr.Node, when string) {
	g := h.gen[n]
	if id, ok := h.curID[n]; ok && h.curGen[n] == g {
		if id != n.ID {
			h.failf("%s: the ID of node %d changed from %d to %d while it was held", when, h.lab[n], id, n.ID)
		}
		return
	}
	if h.idSeen[n.ID] {
		h.failf("%s: ID %d of node %d was already observed on another acquisition", when, n.ID, h.lab[n])
	}
	h.idSeen[n.ID] = true
	h.curID[n], h.curGen[n] = n.ID, g
}

func (h *hist) subtreeNames(x int, out *[]int) {
	*out = append(*out, x)
	for _, c := range h.kids[x] {
		h.subtreeNames(c, out)
	}
}

func (h *hist) inTree(root, x int) bool {
	for x != 0 {
		if x == root {
			return true
		}
		x = h.parent[x]
	}
	return false
}

// valid says whether op meets the API preconditions in the current state.
func (h *hist) valid(o opDesc) bool {
	switch o.Op {
	case "create":
		_, used := h.want[o.N]
		return !used && o.N > 0
	case "add":
		pn, ok1 := h.ptr[o.P]
		nn, ok2 := h.ptr[o.N]
		return ok1 && ok2 && pn != nil && nn != nil && h.parent[o.N] == 0 && !h.inTree(o.N, o.P)
	case "remove":
		_, ok := h.ptr[o.N]
		return ok
	}
	return false
}

func (h *hist) removalKind(n int) string {
	p := h.parent[n]
	if p == 0 {
		if len(h.kids[n]) > 0 {
			return "root-with-children"
		}
		return "root-leaf"
	}
	ks := h.kids[p]
	switch {
	case len(ks) == 1:
		return "only-child"
	case ks[0] == n:
		return "first-child"
	case ks[len(ks)-1] == n:
		return "last-child"
	}
	return "middle-child"
}

// exec runs one valid operation on the real idr API, evaluates the oracle and records what the
// model will be asked to reproduce.  checkpoint: also dump the forest.
func (h *hist) exec(o opDesc, checkpoint bool) {
	var coqOp string
	ret := 0
	panicked := func(f func()) (p interface{}) {
		defer func() { p = recover() }()
		f()
		return nil
	}
	switch o.Op {
	case "create":
		var n *idr.Node
		if p := panicked(func() {
			switch o.Kind {
			case "xml":
				n = idr.CreateXMLNode(idr.NodeType(o.Ty), o.Data, idr.XMLSpecific{NamespacePrefix: o.A, NamespaceURI: o.B})
			case "json":
				n = idr.CreateJSONNode(idr.NodeType(o.Ty), o.Data, idr.JSONType(o.J))
			default:
				n = idr.CreateNode(idr.NodeType(o.Ty), o.Data)
			}
		}); p != nil || n == nil {
			h.ops = append(h.ops, o)
			h.failf("create panicked or returned nil: %v", p)
			return
		}
		choice := "Fresh"
		if l, known := h.lab[n]; known {
			choice = "(FromPool " + coqPos(l) + ")"
			if name, live := h.owner[n]; live {
				h.failf("create handed out node %d, which is still held as live node #%d (aliasing)", l, name)
			} else if !h.released[n] {
				h.failf("create handed out node %d, which was never released", l)
			} else if !h.caching {
				h.failf("create returned an old node although pooling is off")
			}
			h.reused = true
		}
		ret = h.label(n)
		// fresh_blank: no links, requested type/data/format-specific
		if n.Parent != nil || n.FirstChild != nil || n.LastChild != nil || n.PrevSibling != nil || n.NextSibling != nil {
			h.failf("node returned by create is not blank: it has links")
		}
		fsWant := "FNone"
		switch o.Kind {
		case "xml":
			fsWant = "(FXml " + vh.CoqHex([]byte(o.A)) + " " + vh.CoqHex([]byte(o.B)) + ")"
		case "json":
			fsWant = "(FJson " + vh.CoqN(o.J) + ")"
		}
		if int(n.Type) != o.Ty || n.Data != o.Data || fsTerm(n) != fsWant {
			h.failf("node returned by create does not carry the requested type/data/format-specific")
		}
		delete(h.released, n)
		h.ptr[o.N], h.owner[n], h.want[o.N] = n, o.N, o
		h.roots = append(h.roots, o.N)
		h.observeID(n, "create")
		coqOp = fmt.Sprintf("OCreate %s %d %s %s", choice, o.Ty, vh.CoqHex([]byte(o.Data)), fsWant)
	case "add":
		pp, nn := h.ptr[o.P], h.ptr[o.N]
		if p := panicked(func() { idr.AddChild(pp, nn) }); p != nil {
			h.ops = append(h.ops, o)
			h.failf("AddChild panicked although the preconditions hold: %v", p)
			return
		}
		for i, r := range h.roots {
			if r == o.N {
				h.roots = append(h.roots[:i:i], h.roots[i+1:]...)
				break
			}
		}
		if len(h.kids[o.P]) == 0 {
			h.adds["parent-without-children"]++
		} else {
			h.adds["parent-with-children"]++
		}
		h.kids[o.P] = append(h.kids[o.P], o.N)
		h.parent[o.N] = o.P
		coqOp = fmt.Sprintf("OAdd %s %s", coqPos(h.lab[pp]), coqPos(h.lab[nn]))
	case "remove":
		nn := h.ptr[o.N]
		h.removals[h.removalKind(o.N)]++
		var names []int
		h.subtreeNames(o.N, &names)
		if p := panicked(func() { idr.RemoveAndReleaseTree(nn) }); p != nil {
			h.ops = append(h.ops, o)
			h.failf("RemoveAndReleaseTree panicked although the node is live: %v", p)
			return
		}
		if p := h.parent[o.N]; p != 0 {
			ks := h.kids[p]
			for i, k := range ks {
				if k == o.N {
					h.kids[p] = append(ks[:i:i], ks[i+1:]...)
					break
				}
			}
		} else {
			for i, r := range h.roots {
				if r == o.N {
					h.roots = append(h.roots[:i:i], h.roots[i+1:]...)
					break
				}
			}
		}
		for _, x := range names {
			pn := h.ptr[x]
			delete(h.ptr, x)
			delete(h.owner, pn)
			delete(h.kids, x)
			delete(h.parent, x)
			h.released[pn] = true
			if h.caching {
				h.gen[pn]++
				h.observeID(pn, "reset on release")
			}
		}
		coqOp = "ORemove " + coqPos(h.lab[nn])
	}
	h.ops = append(h.ops, o)
	if len(h.ptr) > h.maxLive {
		h.maxLive = len(h.ptr)
	}
	h.audit()

	forest := "None"
	if checkpoint {
		forest = "(Some " + h.coqForest() + ")"
	}
	h.observe(coqOp, ret, forest)
}

// observe records what the model has to reproduce for one operation: the returned label, the
// changed link-level fields of all labelled nodes, and (at check points) the forest.
func (h *hist) observe(coqOp string, ret int, forest string) {
	var delta []string
	for i, n := range h.byLab {
		r := h.record(n)
		nf, of := r.fields(), h.snap[i].fields()
		for k := 0; k < 8; k++ {
			if nf[k] != of[k] {
				delta = append(delta, fmt.Sprintf("(%d,%d,%d)", i+1, k, nf[k]))
			}
		}
	}
	// h.record may have labelled new pointers (a link to an unknown node): snapshot those too
	for i := 0; i < len(h.byLab); i++ {
		h.snap[i] = h.record(h.byLab[i])
	}
	h.coqOps = append(h.coqOps, coqOp)
	h.coqObs = append(h.coqObs, fmt.Sprintf("mkObs %d %s%%N %s", ret, vh.CoqList(delta), forest))
}

// execRaw performs an operation WITHOUT regard to the API preconditions (re-attaching an
// attached node, making a node its own child, releasing twice) and without any oracle: such
// scripts only check that the model transcribes node.go faithfully where the property's
// guarantees do not apply.  Nodes are named by creation number and never forgotten.
func (h *hist) execRaw(o opDesc, names map[int]*idr.Node) {
	switch o.Op {
	case "create":
		n := idr.CreateNode(idr.NodeType(o.Ty), o.Data)
		choice := "Fresh"
		if l, known := h.lab[n]; known {
			choice = "(FromPool " + coqPos(l) + ")"
		}
		names[o.N] = n
		h.observe(fmt.Sprintf("OCreate %s %d %s FNone", choice, o.Ty, vh.CoqHex([]byte(o.Data))), h.label(n), "None")
	case "add":
		idr.AddChild(names[o.P], names[o.N])
		h.observe(fmt.Sprintf("OAdd %s %s", coqPos(h.lab[names[o.P]]), coqPos(h.lab[names[o.N]])), 0, "None")
	case "remove":
		idr.RemoveAndReleaseTree(names[o.N])
		h.observe("ORemove "+coqPos(h.lab[names[o.N]]), 0, "None")
	}
	h.ops = append(h.ops, o)
}

// coqLooseCase prints a history that is replayed without the precondition / representation
// checks (hc_strict = false).
func (h *hist) coqLooseCase() string {
	return fmt.Sprintf("HCase (mkHCase %s false %s %s [])", vh.CoqBool(h.caching), vh.CoqList(h.coqOps), vh.CoqList(h.coqObs))
}

func (h *hist) coqShape(x int, sb *strings.Builder) {
	sb.WriteString("AT " + coqPos(h.lab[h.ptr[x]]) + " [")
	for i, c := range h.kids[x] {
		if i > 0 {
			sb.WriteString("; ")
		}
		h.coqShape(c, sb)
	}
	sb.WriteString("]")
}

func (h *hist) coqForest() string {
	var ts []string
	for _, r := range h.roots {
		var sb strings.Builder
		h.coqShape(r, &sb)
		ts = append(ts, sb.String())
	}
	return vh.CoqList(ts)
}

// coqPayload prints the Base.Tree tree of a live tree: shape from the harness's forest,
// content from the real nodes.
func (h *hist) coqPayload(x int, sb *strings.Builder) {
	n := h.ptr[x]
	sb.WriteString("(T " + idr.NodeType(n.Type).String() + " " + vh.CoqHex([]byte(n.Data)) + " " + fsTerm(n) + " [")
	for i, c := range h.kids[x] {
		if i > 0 {
			sb.WriteString("; ")
		}
		h.coqPayload(c, sb)
	}
	sb.WriteString("])")
}

// audit is the property oracle on the implementation after one operation.
func (h *hist) audit() {
	if h.fail != "" {
		return
	}
	// (a) against the harness's own forest: every link of every live node is what the ordered
	// forest dictates (consistency, order, exactly the attached nodes)
	var check func(x int, par, prev, next *idr.Node)
	check = func(x int, par, prev, next *idr.Node) {
		n := h.ptr[x]
		if n.Parent != par || n.PrevSibling != prev || n.NextSibling != next {
			h.failf("node #%d (label %d): parent/prev/next links are not those of its place in the tree", x, h.lab[n])
		}
		ks := h.kids[x]
		var first, last *idr.Node
		if len(ks) > 0 {
			first, last = h.ptr[ks[0]], h.ptr[ks[len(ks)-1]]
		}
		if n.FirstChild != first || n.LastChild != last {
			h.failf("node #%d (label %d): FirstChild/LastChild are not its first/last attached child", x, h.lab[n])
		}
		w := h.want[x]
		if int(n.Type) != w.Ty || n.Data != w.Data {
			h.failf("node #%d (label %d): type/data changed while live", x, h.lab[n])
		}
		for i, c := range ks {
			var pv, nx *idr.Node
			if i > 0 {
				pv = h.ptr[ks[i-1]]
			}
			if i+1 < len(ks) {
				nx = h.ptr[ks[i+1]]
			}
			check(c, n, pv, nx)
		}
	}
	for _, r := range h.roots {
		check(r, nil, nil, nil)
	}
	// (b) from the pointers alone: consistent, acyclic, unshared; reaches exactly the live nodes
	reached := map[*idr.Node]bool{}
	for _, r := range h.roots {
		nodes, bad := auditTree(h.ptr[r], len(h.byLab)+1)
		if bad != "" {
			h.failf("tree of root #%d: %s", r, bad)
		}
		for _, n := range nodes {
			if reached[n] {
				h.failf("node %d is reachable from two live trees", h.lab[n])
			}
			reached[n] = true
			if h.released[n] {
				h.failf("released node %d is still reachable from the live tree of root #%d", h.lab[n], r)
			}
		}
	}
	if len(reached) != len(h.owner) {
		h.failf("live trees reach %d nodes, %d are attached", len(reached), len(h.owner))
	}
	// (c) released nodes are blank (pooling on) and all held IDs are stable / distinct
	if h.caching {
		var rel []int
		for n := range h.released {
			rel = append(rel, h.lab[n])
		}
		sort.Ints(rel)
		for _, l := range rel {
			n := h.byLab[l-1]
			if n.Parent != nil || n.FirstChild != nil || n.LastChild != nil || n.PrevSibling != nil || n.NextSibling != nil ||
				n.Type != 0 || n.Data != "" || n.FormatSpecific != nil {
				h.failf("released node %d is not blank", l)
			}
			h.observeID(n, "pooled")
		}
	}
	ids := map[int64]int{}
	names := make([]int, 0, len(h.ptr))
	for x := range h.ptr {
		names = append(names, x)
	}
	sort.Ints(names)
	for _, x := range names {
		n := h.ptr[x]
		h.observeID(n, "live")
		if y, dup := ids[n.ID]; dup {
			h.failf("live nodes #%d and #%d carry the same ID %d", y, x, n.ID)
		}
		ids[n.ID] = x
	}
}

// coqCase prints the history as a Model.Heap.hcase.
func (h *hist) coqCase() string {
	var finals []string
	for _, r := range h.roots {
		var sb strings.Builder
		h.coqPayload(r, &sb)
		finals = append(finals, sb.String())
	}
	return fmt.Sprintf("HCase (mkHCase %s true %s %s %s)", vh.CoqBool(h.caching), vh.CoqList(h.coqOps), vh.CoqList(h.coqObs), vh.CoqList(finals))
}

// ---- generation ---------------------------------------------------------------------------------

var dataWords = []string{"", "a", "b", "rec", "x1", "é", "v"}

func genCreate(r *vh.Rng, name int) opDesc {
	o := opDesc{Op: "create", N: name, Ty: r.Pick(4), Data: dataWords[r.Pick(len(dataWords))]}
	switch r.Pick(5) {
	case 0:
		o.Kind = "xml"
		o.A, o.B = r.PickStr("", "ns", "p"), r.PickStr("", "urn:x", "u")
	case 1:
		o.Kind = "json"
		o.J = 1 << uint(r.Pick(8))
	default:
		o.Kind = "node"
	}
	return o
}

// genOp picks the next operation inside the API preconditions.
func (h *hist) genOp(r *vh.Rng, nextName *int) opDesc {
	live := make([]int, 0, len(h.ptr))
	for x := range h.ptr {
		live = append(live, x)
	}
	sort.Ints(live)
	for try := 0; try < 20; try++ {
		k := r.Pick(100)
		switch {
		case len(live) < 2 || k < 36 || len(live) > 40 && k < 10:
			if len(live) > 40 {
				continue
			}
			*nextName++
			return genCreate(r, *nextName)
		case k < 80:
			// attach a detached root somewhere outside its own tree; half of the time below a
			// node that already has children, so that child lists get long
			if len(h.roots) == 0 {
				continue
			}
			n := h.roots[r.Pick(len(h.roots))]
			p := live[r.Pick(len(live))]
			if r.Chance(0.5) {
				var busy []int
				for _, x := range live {
					if len(h.kids[x]) > 0 {
						busy = append(busy, x)
					}
				}
				if len(busy) > 0 {
					p = busy[r.Pick(len(busy))]
				}
			}
			o := opDesc{Op: "add", P: p, N: n}
			if h.valid(o) {
				return o
			}
		default:
			// pick the kind of removal first, then a node of that kind: all four unlink cases
			// and roots with and without children are about equally frequent
			want := []string{"first-child", "middle-child", "last-child", "only-child", "root-with-children", "root-leaf"}[r.Pick(6)]
			var cands []int
			for _, x := range live {
				if h.removalKind(x) == want {
					cands = append(cands, x)
				}
			}
			if len(cands) == 0 {
				if r.Chance(0.85) {
					continue
				}
				cands = live
			}
			return opDesc{Op: "remove", N: cands[r.Pick(len(cands))]}
		}
	}
	*nextName++
	return genCreate(r, *nextName)
}
