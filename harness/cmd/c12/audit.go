package main

import (
	"fmt"

	"github.com/jf-tech/omniparser/idr"
)

// auditTree is the structural oracle on the implementation for one tree, using nothing but the
// pointers: it walks FirstChild/NextSibling from root (bounded, so that a cycle cannot hang it)
// and checks that parent, first/last-child and sibling links are mutually consistent, that no
// node is visited twice (acyclic, no sharing) and that the IDs inside the tree are pairwise
// distinct.  It returns the nodes in pre-order and "" or a description of the first defect.
func auditTree(root *idr.Node, bound int) ([]*idr.Node, string) {
	if root == nil {
		return nil, "nil root"
	}
	if root.Parent != nil || root.PrevSibling != nil || root.NextSibling != nil {
		return nil, "root has a parent or a sibling link"
	}
	seen := map[*idr.Node]bool{}
	ids := map[int64]*idr.Node{}
	var order []*idr.Node
	var bad string
	fail := func(f string, a ...interface{}) {
		if bad == "" {
			bad = fmt.Sprintf(f, a...)
		}
	}
	var walk func(n *idr.Node)
	walk = func(n *idr.Node) {
		if bad != "" {
			return
		}
		if seen[n] {
			fail("node %q reached twice (cycle or shared node)", n.Data)
			return
		}
		if len(order) >= bound {
			fail("more than %d nodes reachable (cycle?)", bound)
			return
		}
		seen[n] = true
		order = append(order, n)
		if o, ok := ids[n.ID]; ok && o != n {
			fail("two nodes of one tree carry ID %d", n.ID)
		}
		ids[n.ID] = n
		if (n.FirstChild == nil) != (n.LastChild == nil) {
			fail("node %q: exactly one of FirstChild/LastChild is nil", n.Data)
			return
		}
		if n.FirstChild != nil && n.FirstChild.PrevSibling != nil {
			fail("node %q: FirstChild has a PrevSibling", n.Data)
		}
		var prev *idr.Node
		steps := 0
		for c := n.FirstChild; c != nil; c = c.NextSibling {
			steps++
			if steps > bound {
				fail("node %q: sibling chain longer than %d (cycle?)", n.Data, bound)
				return
			}
			if c.Parent != n {
				fail("node %q: child %q has a different Parent", n.Data, c.Data)
			}
			if c.PrevSibling != prev {
				fail("node %q: child %q has a wrong PrevSibling", n.Data, c.Data)
			}
			walk(c)
			if bad != "" {
				return
			}
			prev = c
		}
		if n.LastChild != prev {
			fail("node %q: LastChild is not the end of the sibling chain", n.Data)
		}
	}
	walk(root)
	return order, bad
}
