package main

import (
	"bytes"
	"encoding/json"
	"fmt"
	"os"
	"runtime"
	"strings"
	"time"

	"github.com/jf-tech/omniparser"
	"github.com/jf-tech/omniparser/errs"
	"github.com/jf-tech/omniparser/idr"
	"github.com/jf-tech/omniparser/transformctx"

	"verifharness/vh"
)

// ---- reader unreachable, node still held ---------------------------------------------------------
//
// A node a reader returned (or the *idr.Node of a RawRecord) belongs to the caller until the next
// Read / Release.  Nothing in that contract says the caller has to keep the reader - or the
// Transform - reachable meanwhile: a helper that parses a document and returns the first matching
// node, or a loop that handles the last record after it has dropped the transform, are legal.  So
// the lifetime of a handed-out tree must not hang on the reachability of the reader object (a
// finalizer on the reader that gives the tree back to the node pool would tie the two together).
//
// The audit: obtain a node in one of three ways (through Transform + RawRecord, through the
// format's FormatReader, for XML and JSON also straight from the idr stream reader), stop after
// the k-th delivered node, drop every reference to reader / transform / schema, run the garbage
// collector until all finalizers that became due have run, let a second owner acquire nodes,
// and compare the held tree - every field of every node, from the root - with what it was.

// settleGC runs the collector and waits until the finalizers it made due have run: the
// finalizer goroutine runs them one after the other, so once the sentinel of the SECOND round has
// run, everything queued by the first round is done.
func settleGC() {
	for round := 0; round < 2; round++ {
		done := make(chan struct{})
		armSentinel(done)
		runtime.GC()
		select {
		case <-done:
		case <-time.After(2 * time.Second):
		}
		runtime.Gosched()
	}
}

type sentinel struct {
	p   *int
	pad [48]byte
}

//go:noinline
func armSentinel(done chan struct{}) {
	s := &sentinel{}
	runtime.SetFinalizer(s, func(*sentinel) { close(done) })
}

func schemaXPath(schema string) string {
	var sch struct {
		TD struct {
			FO struct {
				XPath *string `json:"xpath"`
			} `json:"FINAL_OUTPUT"`
		} `json:"transform_declarations"`
	}
	_ = json.Unmarshal([]byte(schema), &sch)
	if sch.TD.FO.XPath != nil {
		return *sch.TD.FO.XPath
	}
	return "."
}

// obtainThenDrop returns the k-th node delivered (or the last one before the terminal result,
// whichever comes first would have been released by the next Read - so it stops right after a
// delivery).  Everything else it created is unreachable once it has returned.
//
//go:noinline
func obtainThenDrop(via, format, schema string, in []byte, k int) (held *idr.Node, opened bool) {
	defer func() {
		if recover() != nil {
			held = nil
		}
	}()
	switch via {
	case "transform":
		s, err := omniparser.NewSchema("drop-"+format, strings.NewReader(schema))
		if err != nil {
			return nil, false
		}
		t, err := s.NewTransform("in", bytes.NewReader(in), &transformctx.Ctx{})
		if err != nil {
			return nil, false
		}
		got := 0
		for reads := 0; reads < 40; reads++ {
			if _, err := t.Read(); err != nil {
				if errs.IsErrTransformFailed(err) {
					continue
				}
				return nil, true
			}
			raw, err := t.RawRecord()
			if err != nil {
				continue
			}
			n, _ := raw.Raw().(*idr.Node)
			if n == nil {
				continue
			}
			if got++; got == k {
				return n, true
			}
		}
	case "format-reader":
		next := openDirect(format, schema, in)
		if next == nil {
			return nil, false
		}
		got := 0
		for reads := 0; reads < 40; reads++ {
			n, err, cont := next()
			if err != nil {
				if cont {
					continue
				}
				return nil, true
			}
			if n == nil {
				continue
			}
			if got++; got == k {
				return n, true
			}
		}
	case "stream-reader":
		type streamReader interface {
			Read() (*idr.Node, error)
			Release(*idr.Node)
		}
		var sp streamReader
		var err error
		switch format {
		case "xml":
			sp, err = idr.NewXMLStreamReader(bytes.NewReader(in), schemaXPath(schema))
		case "json":
			sp, err = idr.NewJSONStreamReader(bytes.NewReader(in), schemaXPath(schema))
		default:
			return nil, false
		}
		if err != nil {
			return nil, false
		}
		var cur *idr.Node
		for got := 0; got < k; got++ {
			if cur != nil {
				sp.Release(cur)
			}
			n, err := sp.Read()
			if err != nil || n == nil {
				return nil, true
			}
			cur = n
		}
		return cur, true
	}
	return nil, true
}

// droppedReaderAudit: one audit of the "reader unreachable, node still held" kind.
func droppedReaderAudit(sum *vh.Summary, via, format, schema string, in []byte, k int, kind string) {
	rc := readerCase{Kind: "reader", Format: format, Schema: schema, InputHex: fmt.Sprintf("%x", in), Dropped: via, HeldAfter: k}
	if progressFile != "" {
		pb, _ := json.Marshal(map[string]interface{}{"case": rc})
		_ = os.WriteFile(progressFile, pb, 0o644)
		wd := time.AfterFunc(20*time.Second, func() {
			fmt.Println("WATCHDOG: the reader did not return within 10 s on the input named in current.json")
			os.Exit(3)
		})
		defer wd.Stop()
	}
	n, opened := obtainThenDrop(via, format, schema, in, k)
	if !opened {
		sum.Hist("reader-dropped-schema-rejected:" + format)
		return
	}
	if n == nil && k > 1 {
		k = 1
		rc.HeldAfter = 1
		n, _ = obtainThenDrop(via, format, schema, in, 1)
	}
	if n == nil {
		sum.Hist("reader-dropped-no-delivery:" + format)
		return
	}
	root := vh.Root(n)
	nodes, bad := auditTree(root, 100000)
	if bad != "" {
		sum.Fail(fmt.Sprintf("tree handed out by the %s reader (%s, delivery %d) is not sound: %s", format, via, k, bad), rc, nil)
		return
	}
	mine := &heldTree{nodes: nodes, after: k}
	for _, x := range nodes {
		mine.snap = append(mine.snap, *x)
		heldNow[x] = true
	}
	defer func() {
		for _, x := range nodes {
			delete(heldNow, x)
		}
	}()
	sum.Count(fmt.Sprintf("dropped|%s|%s|%x|%d", via, format, in, k), false)
	sum.Hist("reader-dropped-node-held:" + via + ":" + format)
	sum.Hist("reader-input:" + kind + "+reader-dropped")
	failed := false
	check := func(when string) {
		if failed {
			return
		}
		if msg := mine.changed(); msg != "" {
			failed = true
			sum.Fail(fmt.Sprintf("the caller still holds the node the %s reader returned (%s, delivery %d) but has dropped the reader; %s: %s", format, via, k, when, msg), rc, nil)
			return
		}
		again, bad := auditTree(root, 100000)
		if bad == "" && len(again) != len(nodes) {
			bad = fmt.Sprintf("it had %d nodes and now has %d", len(nodes), len(again))
		}
		if bad != "" {
			failed = true
			sum.Fail(fmt.Sprintf("the tree of the node the %s reader returned (%s, delivery %d), held by the caller after it dropped the reader, is no longer sound %s: %s", format, via, k, when, bad), rc, nil)
		}
	}
	for round := 1; round <= 2 && !failed; round++ {
		settleGC()
		check(fmt.Sprintf("after garbage collection %d", round))
		// a second owner acquires nodes: none may be one of the held tree, and its writes must not
		// show up there
		for j := 0; j < 2 && !failed; j++ {
			h := newHeldTree(fmt.Sprintf("owner2-drop-%d-%d", round, j), 2000+round)
			if h.aliased != "" {
				failed = true
				sum.Fail(fmt.Sprintf("the caller still holds the node the %s reader returned (%s, delivery %d) but has dropped the reader; after garbage collection %d a second owner acquiring nodes got one of that tree: %s", format, via, k, round, h.aliased), rc, nil)
			}
			everHeld = append(everHeld, h)
		}
		check(fmt.Sprintf("after garbage collection %d and a second owner's acquisitions", round))
	}
	if !failed {
		// the pool must not contain a node of the held tree either
		in := map[*idr.Node]bool{}
		for _, x := range nodes {
			in[x] = true
		}
		for _, x := range drainPool(100000) {
			if in[x] {
				sum.Fail(fmt.Sprintf("the node pool contains a node of the tree the caller still holds (%s reader, %s, delivery %d, reader dropped and garbage collected)", format, via, k), rc, nil)
				break
			}
		}
	}
	runtime.KeepAlive(n)
}

// droppedReaders: all seven formats, the fixtures' inputs and some root / descendant targets for
// the two stream formats, each way of obtaining the node, k = 1..3.
func droppedReaders(r *vh.Rng, sum *vh.Summary, perFormat int) {
	t0 := time.Now()
	defer func() { sum.Extra["reader_dropped_part_s"] = time.Since(t0).Seconds() }()
	vias := []string{"transform", "format-reader"}
	for _, fx := range vh.Fixtures() {
		for i := 0; i < perFormat; i++ {
			in := fx.Gen(r, r.Between(2, 6))
			kind := "valid"
			if r.Chance(0.3) {
				in, kind = vh.Mutate(r, in)
			}
			droppedReaderAudit(sum, vias[i%2], fx.Format, fx.Schema, in, 1+r.Pick(3), kind)
			if (fx.Format == "xml" || fx.Format == "json") && i%2 == 0 {
				droppedReaderAudit(sum, "stream-reader", fx.Format, fx.Schema, in, 1+r.Pick(3), kind)
			}
		}
	}
	streamSchema := func(format, target string) string {
		return `{"parser_settings": { "version": "omni.2.1", "file_format_type": "` + format + `" },
 "transform_declarations": { "FINAL_OUTPUT": { "xpath": "` + target + `", "object": {
   "a": { "xpath": "a", "keep_empty_or_null": true } } } } }`
	}
	xmlDocs := []string{`<r><n><a>1</a></n><n><a>2</a><b x="y">t</b></n><n><a>3</a></n></r>`, `<r a="1"><n><a>2</a></n></r>`}
	jsonDocs := []string{`{"n":[{"a":"1"},{"a":"2","x":{"a":"p"}},{"a":"3"}]}`, `[{"a":"1"},{"a":"2"}]`, "{\"a\":\"1\"}\n{\"a\":\"2\"}\n"}
	for _, via := range []string{"transform", "format-reader", "stream-reader"} {
		for _, target := range []string{".", "/*", "//n", "/r/n", "//a"} {
			for _, d := range xmlDocs {
				droppedReaderAudit(sum, via, "xml", streamSchema("xml", target), []byte(d), 1+r.Pick(2), "stream-targets")
			}
		}
		for _, target := range []string{".", "/*", "//n/*", "//a", "/n/*"} {
			for _, d := range jsonDocs {
				droppedReaderAudit(sum, via, "json", streamSchema("json", target), []byte(d), 1+r.Pick(2), "stream-targets")
			}
		}
	}
}
