package main

import (
	"fmt"

	"verifharness/vh"
)

// Inputs the format fixtures never produce: several concatenated top-level values (JSON lines),
// trailing data after the document, for the JSON and XML stream readers, with targets that
// select the root itself (".", "/", the default) as well as "/*" and "//x".  Every transform is
// audited three ways: plainly, with the pool drained after every Read, and with a second owner
// that takes pooled nodes between the Reads and holds them.
func specialReaderInputs(r *vh.Rng, sum *vh.Summary, cw *vh.CaseWriter) {
	jsonSchema := func(target string) string {
		x := ""
		if target != "" {
			x = fmt.Sprintf(`"xpath": %q,`, target)
		}
		return `{"parser_settings": { "version": "omni.2.1", "file_format_type": "json" },
 "transform_declarations": { "FINAL_OUTPUT": { ` + x + ` "object": {
   "a": { "xpath": "a", "keep_empty_or_null": true }, "v": { "xpath": ".", "keep_empty_or_null": true },
   "xa": { "xpath": "x/a", "keep_empty_or_null": true } } } } }`
	}
	xmlSchema := func(target string) string {
		x := ""
		if target != "" {
			x = fmt.Sprintf(`"xpath": %q,`, target)
		}
		return `{"parser_settings": { "version": "omni.2.1", "file_format_type": "xml" },
 "transform_declarations": { "FINAL_OUTPUT": { ` + x + ` "object": {
   "a": { "xpath": "a", "keep_empty_or_null": true }, "na": { "xpath": "n/a", "keep_empty_or_null": true } } } } }`
	}
	jsonInputs := []string{
		`{"a":"1","b":2}{"a":"3"}`,
		"{\"a\":\"1\"}\n{\"a\":\"2\"}\n{\"a\":\"3\"}\n",
		"{\"a\":\"1\",\"x\":{\"a\":\"p\"}}\n{\"a\":\"2\",\"x\":{\"a\":\"q\"}}\n{\"a\":\"3\",\"x\":{\"a\":\"r\"}}\n{\"a\":\"4\"}\n",
		`[{"a":"1"},{"a":"2"}][{"a":"3"},{"a":"4"}]`,
		`{"x":{"a":"1"},"y":{"x":{"a":"2"}}} {"x":{"a":"3"}} {"x":{"a":"4"}}`,
		`{"a":"1"} xyz`, `{"a":"1"}}`, `{"a":"1"}]`, `[1,2] 3 [4]`, `1 2 3`, `"s" "t" "u"`, `null {"a":"1"} null`,
		`{"a":"1"}` + "\n\n" + `{"a":"2"`, `{"a":{"a":"deep"}}{"a":{"a":"deeper"}}{"a":"flat"}`,
	}
	xmlInputs := []string{
		`<r><n><a>1</a></n><n><a>2</a></n></r><r><n><a>3</a></n></r>`,
		`<r><n><a>1</a></n></r>` + "\n" + `<r><n><a>2</a></n></r>` + "\n" + `<r><n><a>3</a></n></r>`,
		`<r><n><a>1</a></n></r>xyz`, `<r><n><a>1</a></n></r></r>`, `<r><n><a>1</a></n></r><!-- c --><q><n><a>9</a></n></q>`,
		`<n><a>1</a></n><n><a>2</a></n><n><a>3</a></n>`, `<r><n><a>1</a></n></r><r>`,
	}
	run := func(format, schema, in, kind string) {
		// plainly, and in two of the three other modes (which two: by the PRNG)
		auditTransform(sum, cw, format, schema, []byte(in), kind, nil)
		skip := r.Pick(3)
		if skip != 0 {
			auditTransform(sum, cw, format, schema, []byte(in), kind+"+drain-every-read", nil, true, false)
		}
		if skip != 1 {
			auditTransform(sum, cw, format, schema, []byte(in), kind+"+second-owner", nil, false, true)
		}
		if skip != 2 {
			auditTransform(sum, cw, format, schema, []byte(in), kind+"+second-owner+drain", nil, true, true)
		}
		// the format's reader driven directly; Read is called again after its terminal result
		auditTransform(sum, cw, format, schema, []byte(in), kind+"+direct", nil, skip == 0, true, true)
	}
	// root-selecting targets that END WITH A FILTER, over documents the filter rejects (and some
	// it accepts), read to EOF: the filter-miss path removes the root, EOF must not release it again
	for _, target := range []string{".[a='nope']", ".[a='1']", "/[a='nope']", "/*[a='nope']", ".[x/a='p']", "//x[a='nope']", ".[a!='1'][a!='2']"} {
		for _, in := range append(jsonInputs, `{"a":"1"}`, `{"a":"nope"}`, `[{"a":"1"}]`, `"scalar"`, `{"a":"2","x":{"a":"p"}}`) {
			run("json", jsonSchema(target), in, "root-target-with-filter")
		}
	}
	for _, target := range []string{"/*[a='nope']", "/*[n/a='1']", ".[r/n/a='nope']", "/r[n/a='nope']", "/r/n[a='nope']", "/*[a='1'][a='2']"} {
		for _, in := range append(xmlInputs, `<r><a>1</a></r>`, `<r><a>nope</a></r>`, `<r a="1"><n><a>2</a></n></r>`, `<r/>`) {
			run("xml", xmlSchema(target), in, "root-target-with-filter")
		}
	}
	// old fixed-length (v1) and old csv with a FINAL_OUTPUT filter; the LAST envelopes / rows are rejected
	flSchema := func(target string, byHF bool) string {
		env := `{ "columns": [ {"name":"a","start_pos":1,"length":3}, {"name":"f","start_pos":4,"length":1} ] }`
		if byHF {
			env = `{ "name": "e", "by_header_footer": { "header": "^H", "footer": "^T" },
  "columns": [ {"name":"a","start_pos":2,"length":3,"line_pattern":"^H"}, {"name":"f","start_pos":5,"length":1,"line_pattern":"^H"} ] }`
		}
		return `{"parser_settings": { "version": "omni.2.1", "file_format_type": "fixed-length" },
 "file_declaration": { "envelopes": [ ` + env + ` ] },
 "transform_declarations": { "FINAL_OUTPUT": { "xpath": "` + target + `", "object": { "a": { "xpath": "a", "keep_empty_or_null": true } } } } }`
	}
	csvSchema := func(target string) string {
		return `{"parser_settings": { "version": "omni.2.1", "file_format_type": "csv" },
 "file_declaration": { "delimiter": ",", "header_row_index": 1, "data_row_index": 2, "columns": [ {"name":"a"}, {"name":"f"} ] },
 "transform_declarations": { "FINAL_OUTPUT": { "xpath": "` + target + `", "object": { "a": { "xpath": "a", "keep_empty_or_null": true } } } } }`
	}
	for _, target := range []string{".[f!='X']", ".[f='K']", ".[a='zzz']"} {
		for _, in := range []string{"001K\n002K\n003X\n", "001X\n", "001K\n002X\n003X\n004X\n", "001X\n002X\n", "001K\n", "", "001X\n002K\n\n003X\n"} {
			run("fixed-length", flSchema(target, false), in, "v1-filter-last-rejected")
		}
		for _, in := range []string{"H001K\nx\nT\nH002X\nT\n", "H001X\nT\n", "H001K\nT\nH002X\nT\nH003X\nx\ny\nT\n", "H001X\nT\nH002K\n", "H001K\nT\ngarbage\n"} {
			run("fixed-length", flSchema(target, true), in, "v1-filter-last-rejected")
		}
		for _, in := range []string{"a,f\n1,K\n2,X\n", "a,f\n1,X\n", "a,f\n1,K\n2,X\n3,X\n", "a,f\n", "a,f\n1,K\n\"bad\n"} {
			run("csv", csvSchema(target), in, "v1-filter-last-rejected")
		}
	}
	for _, target := range []string{"", ".", "/", "/*", "//x", "//a", "/*/x"} {
		for _, in := range jsonInputs {
			run("json", jsonSchema(target), in, "concatenated-or-trailing")
		}
	}
	for _, target := range []string{"", ".", "/", "/*", "//n", "/r/n", "/r"} {
		for _, in := range xmlInputs {
			run("xml", xmlSchema(target), in, "concatenated-or-trailing")
		}
	}
}
