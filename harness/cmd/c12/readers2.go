package main

import (
	"fmt"

	"verifharness/vh"
)

// Inputs the format fixtures never produce: several concatenated top-level values (JSON lines),
// trailing data after the document, for the JSON and XML stream readers, with targets that
// select the root itself (".", "/", the default) as well as "/*" and "//x".  Every transform is
// audited three ways: plainly, with the pool drained after every Read, and with a second owner
// that takes pooled nodes between the Reads and holds them.
func specialReaderInputs(r *vh.Rng, sum *vh.Summary, cw *vh.CaseWriter) {
	jsonSchema := func(target string) string {
		x := ""
		if target != "" {
			x = fmt.Sprintf(`"xpath": %q,`, target)
		}
		return `{"parser_settings": { "version": "omni.2.1", "file_format_type": "json" },
 "transform_declarations": { "FINAL_OUTPUT": { ` + x + ` "object": {
   "a": { "xpath": "a", "keep_empty_or_null": true }, "v": { "xpath": ".", "keep_empty_or_null": true },
   "xa": { "xpath": "x/a", "keep_empty_or_null": true } } } } }`
	}
	xmlSchema := func(target string) string {
		x := ""
		if target != "" {
			x = fmt.Sprintf(`"xpath": %q,`, target)
		}
		return `{"parser_settings": { "version": "omni.2.1", "file_format_type": "xml" },
 "transform_declarations": { "FINAL_OUTPUT": { ` + x + ` "object": {
   "a": { "xpath": "a", "keep_empty_or_null": true }, "na": { "xpath": "n/a", "keep_empty_or_null": true } } } } }`
	}
	jsonInputs := []string{
		`{"a":"1","b":2}{"a":"3"}`,
		"{\"a\":\"1\"}\n{\"a\":\"2\"}\n{\"a\":\"3\"}\n",
		"{\"a\":\"1\",\"x\":{\"a\":\"p\"}}\n{\"a\":\"2\",\"x\":{\"a\":\"q\"}}\n{\"a\":\"3\",\"x\":{\"a\":\"r\"}}\n{\"a\":\"4\"}\n",
		`[{"a":"1"},{"a":"2"}][{"a":"3"},{"a":"4"}]`,
		`{"x":{"a":"1"},"y":{"x":{"a":"2"}}} {"x":{"a":"3"}} {"x":{"a":"4"}}`,
		`{"a":"1"} xyz`, `{"a":"1"}}`, `{"a":"1"}]`, `[1,2] 3 [4]`, `1 2 3`, `"s" "t" "u"`, `null {"a":"1"} null`,
		`{"a":"1"}` + "\n\n" + `{"a":"2"`, `{"a":{"a":"deep"}}{"a":{"a":"deeper"}}{"a":"flat"}`,
	}
	xmlInputs := []string{
		`<r><n><a>1</a></n><n><a>2</a></n></r><r><n><a>3</a></n></r>`,
		`<r><n><a>1</a></n></r>` + "\n" + `<r><n><a>2</a></n></r>` + "\n" + `<r><n><a>3</a></n></r>`,
		`<r><n><a>1</a></n></r>xyz`, `<r><n><a>1</a></n></r></r>`, `<r><n><a>1</a></n></r><!-- c --><q><n><a>9</a></n></q>`,
		`<n><a>1</a></n><n><a>2</a></n><n><a>3</a></n>`, `<r><n><a>1</a></n></r><r>`,
	}
	run := func(format, schema, in, kind string) {
		auditTransform(sum, cw, format, schema, []byte(in), kind, nil)
		auditTransform(sum, cw, format, schema, []byte(in), kind+"+drain-every-read", nil, true, false)
		auditTransform(sum, cw, format, schema, []byte(in), kind+"+second-owner", nil, false, true)
		auditTransform(sum, cw, format, schema, []byte(in), kind+"+second-owner+drain", nil, true, true)
	}
	for _, target := range []string{"", ".", "/", "/*", "//x", "//a", "/*/x"} {
		for _, in := range jsonInputs {
			run("json", jsonSchema(target), in, "concatenated-or-trailing")
		}
	}
	for _, target := range []string{"", ".", "/", "/*", "//n", "/r/n", "/r"} {
		for _, in := range xmlInputs {
			run("xml", xmlSchema(target), in, "concatenated-or-trailing")
		}
	}
	_ = r
}
