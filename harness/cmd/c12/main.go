// c12: correspondence + oracle harness for property C12 (node trees stay structurally sound,
// pooled nodes are never aliased, IDs are unique per acquisition).
package main

import (
	"encoding/hex"
	"encoding/json"
	"flag"
	"fmt"
	"os"
	"os/exec"
	"path/filepath"
	"sort"
	"strings"
	"sync"
	"time"

	"github.com/jf-tech/omniparser"
	"github.com/jf-tech/omniparser/errs"
	"github.com/jf-tech/omniparser/idr"
	"github.com/jf-tech/omniparser/transformctx"

	"verifharness/vh"
)

// runCase replays a list of operations (skipping the ones whose preconditions do not hold,
// which makes shrinking by deletion trivial) on a fresh pool.
func runCase(c histCase, r *vh.Rng) *hist {
	idr.VerifResetNodePool()
	old := idr.VerifSetNodeCaching(c.Caching)
	defer idr.VerifSetNodeCaching(old)
	h := newHist(c.Caching)
	for i, o := range c.Ops {
		if !h.valid(o) {
			continue
		}
		h.exec(o, i == len(c.Ops)-1 || (r != nil && r.Chance(0.12)))
		if h.fail != "" {
			break
		}
	}
	return h
}

// genHistory generates and runs a random history of at most maxOps operations.
func genHistory(r *vh.Rng, caching bool, maxOps int) *hist {
	idr.VerifResetNodePool()
	old := idr.VerifSetNodeCaching(caching)
	defer idr.VerifSetNodeCaching(old)
	h := newHist(caching)
	n := r.Between(4, maxOps)
	name := 0
	for i := 0; i < n && h.fail == ""; i++ {
		o := h.genOp(r, &name)
		h.exec(o, i == n-1 || r.Chance(0.12))
	}
	// drain the pool with plain creates until one allocates: whatever sync.Pool still holds is
	// handed out now, so a node that was pooled twice, or pooled while live, shows up as aliasing
	if caching && r.Chance(0.5) {
		for k := len(h.released) + 2; k > 0 && h.fail == ""; k-- {
			before := idr.VerifNodeIDCounter()
			name++
			h.exec(opDesc{Op: "create", Kind: "node", N: name}, k == 1)
			if idr.VerifNodeIDCounter() != before {
				break
			}
		}
	}
	return h
}

// drainPool takes nodes out of the pool until a create has to allocate (the ID counter moves
// only when a node is reset, and a pooled node was reset when it was put there).
func drainPool(limit int) []*idr.Node {
	var out []*idr.Node
	for i := 0; i < limit; i++ {
		before := idr.VerifNodeIDCounter()
		n := idr.CreateNode(idr.DocumentNode, "")
		if idr.VerifNodeIDCounter() != before {
			break
		}
		out = append(out, n)
	}
	return out
}

// shrink deletes operations greedily while the history still fails (any oracle clause).
func shrink(c histCase) histCase {
	budget := 400
	for changed := true; changed && budget > 0; {
		changed = false
		for i := len(c.Ops) - 1; i >= 0 && budget > 0; i-- {
			budget--
			d := histCase{Caching: c.Caching, Ops: append(append([]opDesc{}, c.Ops[:i]...), c.Ops[i+1:]...)}
			if h := runCase(d, nil); h.fail != "" {
				c = histCase{Caching: c.Caching, Ops: h.ops}
				changed = true
				if i > len(c.Ops) {
					i = len(c.Ops)
				}
			}
		}
	}
	return c
}

func report(sum *vh.Summary, h *hist) {
	c := shrink(histCase{Caching: h.caching, Ops: h.ops})
	h2 := runCase(c, nil)
	what, at := h2.fail, h2.failOp
	if what == "" { // not reproducible after shrinking (should not happen): report the original
		c, what, at = histCase{Caching: h.caching, Ops: h.ops}, h.fail, h.failOp
	}
	sum.Fail("node tree / pool oracle failed: "+what, c, map[string]interface{}{"failed_after_op_index": at, "shrunk_from_ops": len(h.ops)})
}

// finishHist records one evaluated history; toModel says whether it is also written out as a
// Coq case (elaborating the case terms is what costs time, so the quick tier sends a sample of
// the histories to the model while the oracle on the implementation sees all of them).
func finishHist(sum *vh.Summary, cw *vh.CaseWriter, h *hist, src string, toModel bool) {
	c := histCase{Caching: h.caching, Ops: h.ops}
	canon, _ := json.Marshal(c)
	sum.Count(string(canon), h.reused)
	sum.Hist("history:" + src)
	sum.Hist(fmt.Sprintf("pooling:%v", h.caching))
	sum.Hist(fmt.Sprintf("ops:%02d-%02d", len(h.ops)/20*20, len(h.ops)/20*20+19))
	sum.Hist(fmt.Sprintf("max-live-nodes:%02d-%02d", h.maxLive/10*10, h.maxLive/10*10+9))
	if h.reused {
		sum.Hist("reuses-pooled-node")
	}
	for k, v := range h.removals {
		sum.Histogram["remove:"+k] += v
	}
	sum.Sample(map[string]interface{}{"case": c, "labels": len(h.byLab), "forest_at_end": h.coqForest()})
	if h.fail != "" {
		report(sum, h)
	}
	if toModel || h.fail != "" {
		sum.Hist("history-sent-to-model")
		// check_case_src replays these with the programs extracted from node.go (Gen/NodeOps.v)
		for k, v := range h.adds {
			sum.Histogram["model runs extracted add_child_prog:"+k] += v
		}
		for k, v := range h.removals {
			sum.Histogram["model runs extracted remove_unlink_prog:"+k] += v
		}
		cw.Add(h.coqCase(), map[string]interface{}{"kind": "history", "case": c})
	}
}

// misuseScripts are fixed histories OUTSIDE the API preconditions (none of them makes recycle
// walk a cyclic structure).  The property promises nothing for them; they are replayed in the
// model without precondition and representation checks, so what is compared is only that the
// transcription of node.go does, pointer update by pointer update, what the Go code does.
func misuseScripts(sum *vh.Summary, cw *vh.CaseWriter) {
	cr := func(n int) opDesc { return opDesc{Op: "create", Kind: "node", Ty: 1, Data: "m", N: n} }
	scripts := map[string][]opDesc{
		"double-release": {cr(1), {Op: "remove", N: 1}, {Op: "remove", N: 1}, cr(2), cr(3)},
		"attach-attached-node": {cr(1), cr(2), cr(3), cr(4), {Op: "add", P: 1, N: 3}, {Op: "add", P: 1, N: 4}, {Op: "add", P: 2, N: 3}},
		"node-as-its-own-child": {cr(1), {Op: "add", P: 1, N: 1}},
		"attach-ancestor-below-descendant": {cr(1), cr(2), {Op: "add", P: 1, N: 2}, {Op: "add", P: 2, N: 1}},
		"use-after-release": {cr(1), cr(2), {Op: "add", P: 1, N: 2}, {Op: "remove", N: 2}, cr(3), {Op: "add", P: 2, N: 3}},
	}
	var keys []string
	for k := range scripts {
		keys = append(keys, k)
	}
	sort.Strings(keys)
	for _, k := range keys {
		for _, caching := range []bool{true, false} {
			idr.VerifResetNodePool()
			old := idr.VerifSetNodeCaching(caching)
			h := newHist(caching)
			names := map[int]*idr.Node{}
			func() {
				defer func() { _ = recover() }()
				for _, o := range scripts[k] {
					h.execRaw(o, names)
				}
			}()
			idr.VerifSetNodeCaching(old)
			sum.Count("misuse|"+k+fmt.Sprint(caching), false)
			sum.Hist("misuse-script:" + k)
			cw.Add(h.coqLooseCase(), map[string]interface{}{"kind": "misuse-script (model faithfulness outside the preconditions)", "name": k,
				"case": histCase{Caching: caching, Ops: h.ops}})
		}
	}
	idr.VerifResetNodePool()
}

// ---- trees handed out by the seven readers ------------------------------------------------------

// readerCase is the replayable description of one audited transform.
type readerCase struct {
	Kind     string  `json:"kind"`
	Format   string  `json:"format"`
	Schema   string  `json:"schema"`
	InputHex string  `json:"input_hex"`
	Drains   []int   `json:"pool_audits_after_reads"` // record indices after which the pool was drained
	DrainAll bool    `json:"pool_audit_after_every_read,omitempty"`
	Second   bool    `json:"second_owner,omitempty"` // a second owner takes nodes from the pool between Reads and holds them
	Direct   bool    `json:"direct_format_reader,omitempty"` // the FormatReader is driven directly (Read is called again after its terminal result)
	// Dropped: "transform" | "format-reader" | "stream-reader" - the node of delivery number HeldAfter is
	// kept, every reference to the reader / transform is dropped, the garbage collector runs, a second
	// owner acquires nodes (dropped.go)
	Dropped   string `json:"reader_dropped_while_node_held,omitempty"`
	HeldAfter int    `json:"held_delivery,omitempty"`
}

// heldTree is a small tree a second owner built from pooled (or fresh) nodes between two Reads
// of the reader under audit, with a snapshot of every field of every node.
type heldTree struct {
	nodes   []*idr.Node
	snap    []idr.Node
	after   int    // built after this Read
	aliased string // set if the pool handed this owner a node that is already held
}

// heldNow: every node some second owner of this process holds; a create that returns one of them
// again means the node was in the pool although it is owned (it was released twice, or released
// by someone who did not own it)
var heldNow = map[*idr.Node]bool{}

func newHeldTree(tag string, after int) *heldTree {
	h := &heldTree{after: after}
	take := func(ty idr.NodeType, data string) *idr.Node {
		n := idr.CreateNode(ty, data)
		if heldNow[n] && h.aliased == "" {
			h.aliased = fmt.Sprintf("CreateNode(%q) returned a node that an owner already holds (it carried data %q before): the node was pooled while owned - released twice, or released through a stale pointer", data, "?")
		}
		heldNow[n] = true
		return n
	}
	root := take(idr.ElementNode, tag)
	h.nodes = []*idr.Node{root}
	for i := 0; i < 3; i++ {
		c := take(idr.TextNode, fmt.Sprintf("%s.%d", tag, i))
		if h.aliased == "" {
			idr.AddChild(root, c)
		}
		h.nodes = append(h.nodes, c)
	}
	for _, n := range h.nodes {
		h.snap = append(h.snap, *n)
	}
	return h
}

// changed reports the first field of a held node that is no longer what its owner left there.
func (h *heldTree) changed() (msg string) {
	defer func() {
		// under a broken allocator two goroutines write the same node: a string header can be torn
		if p := recover(); p != nil {
			msg = fmt.Sprintf("a held node could not even be read (%v): it is being written concurrently", p)
		}
	}()
	for i, n := range h.nodes {
		s := h.snap[i]
		if n.ID != s.ID || n.Type != s.Type || n.Data != s.Data || n.FormatSpecific != s.FormatSpecific ||
			n.Parent != s.Parent || n.FirstChild != s.FirstChild || n.LastChild != s.LastChild ||
			n.PrevSibling != s.PrevSibling || n.NextSibling != s.NextSibling {
			return fmt.Sprintf("node %d (%q) of a tree its owner holds was modified by someone else: ID %d -> %d, type %d -> %d, data %d -> %d bytes, parent %v -> %v, first child %v -> %v",
				i, s.Data, s.ID, n.ID, s.Type, n.Type, len(s.Data), len(n.Data), s.Parent != nil, n.Parent != nil, s.FirstChild != nil, n.FirstChild != nil)
		}
	}
	return ""
}

// auditTransform runs one transform through the public API, audits every tree it hands out
// (RawRecord().Raw().(*idr.Node), from its root) and what the node pool holds between records
// (after the reads listed in drains) and at the end.
func auditTransform(sum *vh.Summary, cw *vh.CaseWriter, format, schema string, in []byte, kind string, drains map[int]bool, opt ...bool) {
	drainAll, second := len(opt) > 0 && opt[0], len(opt) > 1 && opt[1]
	direct := len(opt) > 2 && opt[2]
	// next: the next record node (nil, err, continuable) - through Transform.Read / RawRecord, or, in
	// direct mode, through the format's own FormatReader driven the way the ingester drives it
	var next func() (*idr.Node, error, bool)
	if direct {
		next = openDirect(format, schema, in)
		if next == nil {
			sum.Hist("reader-direct-schema-rejected:" + format)
			return
		}
	} else {
		s, err := omniparser.NewSchema("fx-"+format, strings.NewReader(schema))
		if err != nil {
			if second || drainAll || lenientSchema {
				sum.Hist("reader-special-schema-rejected:" + format) // e.g. a target xpath the schema validation refuses
				return
			}
			sum.Fail("fixture schema for "+format+" rejected by NewSchema", map[string]string{"format": format}, err.Error())
			return
		}
		t, err := s.NewTransform("in", strings.NewReader(string(in)), &transformctx.Ctx{})
		if err != nil {
			return
		}
		next = func() (*idr.Node, error, bool) {
			if _, err := t.Read(); err != nil {
				return nil, err, errs.IsErrTransformFailed(err)
			}
			raw, err := t.RawRecord()
			if err != nil {
				return nil, nil, true
			}
			n, _ := raw.Raw().(*idr.Node)
			return n, nil, true
		}
	}
	var dl []int
	for k := range drains {
		dl = append(dl, k)
	}
	sort.Ints(dl)
	rc := readerCase{Kind: "reader", Format: format, Schema: schema, InputHex: fmt.Sprintf("%x", in), Drains: dl, DrainAll: drainAll, Second: second, Direct: direct}
	var held []*heldTree
	heldPtr := map[*idr.Node]bool{}
	// the second owner: re-audit everything it holds (any change = the reader wrote into a node it
	// had released), then take four more nodes out of the pool and hold them
	secondOwner := func(after int, failed *bool) {
		if !second {
			return
		}
		for _, h := range held {
			if msg := h.changed(); msg != "" && !*failed {
				*failed = true
				sum.Fail("the "+format+" reader modified nodes it no longer owns (after read "+fmt.Sprint(after)+"): "+msg, rc, nil)
			}
		}
		h := newHeldTree(fmt.Sprintf("owner2-%d", after), after)
		if h.aliased != "" && !*failed {
			*failed = true
			sum.Fail("a second owner acquiring nodes next to the "+format+" reader (after read "+fmt.Sprint(after)+"): "+h.aliased, rc, nil)
		}
		held = append(held, h)
		for _, n := range h.nodes {
			heldPtr[n] = true
		}
	}
	failedSecond := false
	if progressFile != "" {
		pb, _ := json.Marshal(map[string]interface{}{"case": rc})
		_ = os.WriteFile(progressFile, pb, 0o644)
		// watchdog: a reader that walks a cyclic tree never returns; the child then exits and the
		// parent reports this input
		wd := time.AfterFunc(10*time.Second, func() {
			fmt.Println("WATCHDOG: the reader did not return within 10 s on the input named in current.json")
			os.Exit(3)
		})
		defer wd.Stop()
	}
	idOwner := map[int64]*idr.Node{}
	var lastTree []*idr.Node
	ended := false
	poolAudit := func(when string) {
		// what the pool holds now: no node twice (double release), none that the tree just
		// handed out still reaches (released while live)
		seen := map[*idr.Node]bool{}
		live := map[*idr.Node]bool{}
		if !ended {
			for _, x := range lastTree {
				live[x] = true
			}
		}
		for _, x := range drainPool(100000) {
			if seen[x] {
				sum.Fail("the "+format+" reader released a node twice: sync.Pool handed the same node out twice ("+when+")", rc, nil)
				return
			}
			seen[x] = true
			if heldNow[x] {
				sum.Fail("the node pool contains a node that another owner holds ("+when+"): the "+format+" reader released it twice or through a stale pointer", rc, nil)
				return
			}
			if live[x] {
				sum.Fail("the "+format+" reader released a node that the tree it handed out still reaches ("+when+")", rc, nil)
				return
			}
		}
		sum.Hist("reader-pool-audit")
	}
	for reads := 0; reads < 40; reads++ {
		n, err, cont := next()
		if err != nil {
			if cont {
				secondOwner(reads, &failedSecond)
				continue
			}
			ended = true
			break // io.EOF or another terminal error
		}
		if n == nil {
			continue
		}
		root := vh.Root(n)
		nodes, bad := auditTree(root, 100000)
		for _, x := range nodes {
			if o, seen := idOwner[x.ID]; seen && o != x && bad == "" {
				bad = fmt.Sprintf("ID %d seen on two different nodes of one transform", x.ID)
			}
			idOwner[x.ID] = x
		}
		for _, x := range nodes {
			if heldPtr[x] && bad == "" {
				bad = fmt.Sprintf("it reaches node %q, which the reader released earlier and a second owner has since acquired and holds", x.Data)
			}
		}
		sum.Count(fmt.Sprintf("%s|%x|%d|%v|%v", format, in, reads, second, direct), false)
		sum.Hist("reader-tree:" + format)
		sum.Hist("reader-input:" + kind)
		if bad != "" {
			sum.Fail(fmt.Sprintf("tree handed out by the %s reader (record %d) is not sound: %s", format, reads, bad), rc, nil)
			continue
		}
		lab := map[*idr.Node]int{}
		for i, x := range nodes {
			lab[x] = i + 1
		}
		var recs []string
		for _, x := range nodes {
			r := rec{par: lab[x.Parent], first: lab[x.FirstChild], last: lab[x.LastChild], prev: lab[x.PrevSibling],
				next: lab[x.NextSibling], ty: int(x.Type), data: x.Data, fs: fsTerm(x)}
			recs = append(recs, r.coq())
		}
		treeNo++
		if !drainAll && !second && !direct && (!lenientSchema || treeNo%2 == 0) { // the same trees are sent to the model once; of the generated-schema runs every other tree
			cw.Add(fmt.Sprintf("TCase (mkTCase %s %s)", vh.CoqList(recs), vh.CoqTree(root)),
				map[string]interface{}{"kind": "reader-tree", "format": format, "schema": schema, "input_hex": rc.InputHex, "record_index": reads})
		}
		lastTree = nodes
		if drains[reads] || drainAll {
			poolAudit(fmt.Sprintf("after record %d", reads))
		}
		secondOwner(reads, &failedSecond)
	}
	secondOwner(-1, &failedSecond)
	if ended {
		// Read after a terminal result is legal and must not touch any node: someone else acquires
		// nodes, then Read is called again, three times
		for k := 0; k < 3; k++ {
			extra := newHeldTree(fmt.Sprintf("after-end-%d", k), 1000+k)
			if extra.aliased != "" && !failedSecond {
				failedSecond = true
				sum.Fail(fmt.Sprintf("after the terminal result of the %s reader and %d further Read call(s): %s", format, k, extra.aliased), rc, nil)
			}
			held = append(held, extra)
			if n, err, _ := next(); err == nil && n != nil {
				sum.Hist("reader-read-after-terminal-returned-a-record")
			}
			for _, h := range held {
				if msg := h.changed(); msg != "" && !failedSecond {
					failedSecond = true
					sum.Fail(fmt.Sprintf("Read number %d after the terminal result of the %s reader modified nodes it does not own: %s", k+1, format, msg), rc, nil)
				}
			}
		}
	}
	poolAudit("at the end")
	for _, h := range everHeld {
		if msg := h.changed(); msg != "" && !failedSecond {
			failedSecond = true
			sum.Fail("a "+format+" transform modified nodes that another owner acquired during an earlier transform: "+msg, rc, nil)
		}
	}
	everHeld = append(everHeld, held...)
	if len(everHeld) > 4000 {
		for _, h := range everHeld[:len(everHeld)-4000] {
			for _, n := range h.nodes {
				delete(heldNow, n)
			}
		}
		everHeld = everHeld[len(everHeld)-4000:]
	}
}

// progressFile, when set, receives the transform about to be audited (see runLate).
var progressFile string

// lenientSchema: generated schemas (hierarchies, unusual targets) may be refused by validation
var lenientSchema bool

// everHeld: trees second owners took from the pool in EARLIER transforms of this process; they
// stay held, and are re-audited at the end of every later transform (a reader that gives nodes
// back twice, or writes into nodes it released, damages them)
var everHeld []*heldTree

// runLate runs the readers / misuse scripts / race part in a child process and merges what it
// found.  If the child dies (the Go runtime cannot recover from a stack overflow), the
// transform it was auditing is reported as the failing input.
func runLate(o *vh.Opts, sum *vh.Summary, cw *vh.CaseWriter) {
	dir := filepath.Join(o.Out, "late")
	_ = os.MkdirAll(dir, 0o755)
	args := []string{"-part", "late", "-seed", fmt.Sprint(o.Seed), "-tier", o.Tier, "-out", dir}
	if o.Replay != "" {
		args = append(args, "-replay", o.Replay)
	}
	cmd := exec.Command(os.Args[0], args...)
	out, err := cmd.CombinedOutput()
	b, rerr := os.ReadFile(filepath.Join(dir, "summary.json"))
	var child vh.Summary
	merge := func() {
		sum.Evaluations += child.Evaluations
		for k, v := range child.Histogram {
			sum.Histogram[k] += v
		}
		for k, v := range child.Extra {
			sum.Extra[k] = v
		}
		sum.Failures = append(sum.Failures, child.Failures...)
		cw.Flush()
		for _, f := range child.CaseFiles {
			cw.Files = append(cw.Files, filepath.Join("late", f))
		}
	}
	partial := rerr == nil && json.Unmarshal(b, &child) == nil
	if err != nil || !partial {
		if partial {
			merge() // what the child had found before it died (it writes its summary before the risky parts)
		}
		var body struct {
			Case readerCase `json:"case"`
		}
		cb, _ := os.ReadFile(filepath.Join(dir, "current.json"))
		_ = json.Unmarshal(cb, &body)
		tail := string(out)
		if len(tail) > 600 {
			tail = tail[:600]
		}
		if body.Case.Kind == "reader" && strings.Contains(string(out), "WATCHDOG") {
			sum.Fail("the "+body.Case.Format+" reader did not return within 10 s on this input (it walks a tree that has become cyclic)", body.Case, tail)
		} else if body.Case.Kind == "reader" {
			sum.Fail("the process died with a fatal runtime error while the "+body.Case.Format+" reader handled this input (a tree it built or released is not sound)", body.Case, tail)
		} else {
			sum.Fail("the process died with a fatal runtime error in the misuse / racing part", map[string]interface{}{"kind": "race", "seed": o.Seed}, tail)
		}
		return
	}
	merge()
}

var hierCount = 120
var treeNo int

func readerTrees(r *vh.Rng, sum *vh.Summary, cw *vh.CaseWriter, perFormat int) {
	idr.VerifResetNodePool()
	for _, fx := range vh.Fixtures() {
		for k := 0; k < perFormat; k++ {
			in, kind := vh.Mutate(r, fx.Gen(r, r.Between(1, 6)))
			drains := map[int]bool{}
			for i := 0; i < 8; i++ {
				if r.Chance(0.25) {
					drains[i] = true
				}
			}
			auditTransform(sum, cw, fx.Format, fx.Schema, in, kind, drains)
			if k%3 == 1 {
				// the format's reader driven directly, with Read called again after its terminal result
				auditTransform(sum, cw, fx.Format, fx.Schema, in, kind+"+direct", nil, r.Chance(0.5), true, true)
			}
			if k%3 == 0 {
				// the same input again with a second owner taking pooled nodes between the Reads
				auditTransform(sum, cw, fx.Format, fx.Schema, in, kind+"+second-owner", nil, r.Chance(0.5), true)
			}
		}
	}
	lenientSchema = true
	specialReaderInputs(r, sum, cw)
	hierarchyReaders(r, sum, cw, hierCount)
	fatalAfterTarget(r, sum, cw, 60)
	lenientSchema = false
	dropN := perFormat / 2
	if dropN > 40 {
		dropN = 40
	}
	droppedReaders(r, sum, dropN)
}

// ---- racing acquisitions ------------------------------------------------------------------------

// raceIDs lets G goroutines create, attach and release nodes concurrently (each on its own
// trees; the pool and the ID counter are shared) and checks that every acquisition observed an
// ID no other acquisition observed, and that each goroutine's own trees stay sound.
func raceIDs(seed int64, G, iters int) (acq int, dupID int64, bad string) {
	idr.VerifResetNodePool()
	old := idr.VerifSetNodeCaching(true)
	defer idr.VerifSetNodeCaching(old)
	ids := make([][]int64, G)
	bads := make([]string, G)
	var wg sync.WaitGroup
	start := make(chan struct{})
	for g := 0; g < G; g++ {
		wg.Add(1)
		go func(g int) {
			defer wg.Done()
			defer func() {
				if p := recover(); p != nil {
					bads[g] = fmt.Sprintf("panic: %v", p)
				}
			}()
			r := vh.NewRng(seed*1000 + int64(g))
			// phase 1, maximal contention on the ID counter: all goroutines start together and do
			// nothing but acquire and release single nodes (every release resets = one newNodeID)
			<-start
			for it := 0; it < iters*60; it++ {
				n := idr.CreateNode(idr.ElementNode, "t")
				ids[g] = append(ids[g], n.ID)
				idr.RemoveAndReleaseTree(n)
			}
			// phase 2: small trees built and released concurrently
			for it := 0; it < iters; it++ {
				root := idr.CreateNode(idr.DocumentNode, "r")
				ids[g] = append(ids[g], root.ID)
				nodes := []*idr.Node{root}
				for k, m := 0, r.Between(1, 8); k < m; k++ {
					c := idr.CreateNode(idr.ElementNode, "c")
					ids[g] = append(ids[g], c.ID)
					idr.AddChild(nodes[r.Pick(len(nodes))], c)
					nodes = append(nodes, c)
				}
				if _, b := auditTree(root, 1000); b != "" && bads[g] == "" {
					bads[g] = b
				}
				if r.Chance(0.5) && len(nodes) > 1 {
					idr.RemoveAndReleaseTree(nodes[1+r.Pick(len(nodes)-1)])
					if _, b := auditTree(root, 1000); b != "" && bads[g] == "" {
						bads[g] = b
					}
				}
				idr.RemoveAndReleaseTree(root)
			}
		}(g)
	}
	close(start)
	wg.Wait()
	seen := map[int64]bool{}
	for g := 0; g < G; g++ {
		if bads[g] != "" && bad == "" {
			bad = fmt.Sprintf("goroutine %d: %s", g, bads[g])
		}
		for _, id := range ids[g] {
			acq++
			if seen[id] && dupID == 0 {
				dupID = id
			}
			seen[id] = true
		}
	}
	return
}

// raceReplaySeed returns the seed of a replay file that records a failure of the racing part.
func raceReplaySeed(p string) (int64, bool) {
	var body struct {
		Case struct {
			Kind string `json:"kind"`
			Seed int64  `json:"seed"`
		} `json:"case"`
	}
	b, err := os.ReadFile(p)
	if err != nil || json.Unmarshal(b, &body) != nil || body.Case.Kind != "race" {
		return 0, false
	}
	return body.Case.Seed, true
}

func soakReplay(p string) (soakCase, bool) {
	var body struct {
		Case soakCase `json:"case"`
	}
	b, err := os.ReadFile(p)
	if err != nil || json.Unmarshal(b, &body) != nil || body.Case.Kind != "soak" {
		return soakCase{}, false
	}
	return body.Case, true
}

func readerReplay(p string) (readerCase, bool) {
	var body struct {
		Case readerCase `json:"case"`
	}
	b, err := os.ReadFile(p)
	if err != nil || json.Unmarshal(b, &body) != nil || body.Case.Kind != "reader" {
		return readerCase{}, false
	}
	return body.Case, true
}

func loadCases(o *vh.Opts) (replay []histCase, corpus []histCase) {
	read := func(p string) (histCase, bool) {
		var body struct {
			Case histCase `json:"case"`
		}
		b, err := os.ReadFile(p)
		if err != nil || json.Unmarshal(b, &body) != nil || len(body.Case.Ops) == 0 {
			return histCase{}, false
		}
		return body.Case, true
	}
	if o.Replay != "" {
		if c, ok := read(o.Replay); ok {
			replay = append(replay, c)
		}
	}
	if o.Corpus != "" {
		fs, _ := filepath.Glob(filepath.Join(o.Corpus, "*.json"))
		sort.Strings(fs)
		for _, f := range fs {
			if c, ok := read(f); ok {
				corpus = append(corpus, c)
			}
		}
	}
	return
}

func main() {
	raceOnly := flag.Bool("raceonly", false, "run only the racing-acquisitions part (usable under go run -race)")
	soakOnly := flag.Bool("soakonly", false, "run only the recycle soak")
	part := flag.String("part", "", "internal: 'late' runs the readers / misuse scripts / race part in a child process")
	o := vh.ParseOpts()
	r := vh.NewRng(o.Seed)
	if *part == "late" {
		r = vh.NewRng(o.Seed + 7919)
	}
	sum := vh.NewSummary("C12", o,
		"operation histories (CreateNode/CreateXMLNode/CreateJSONNode, AddChild, RemoveAndReleaseTree) on the real idr API with pooling on and off, "+
			"plus trees handed out by the seven readers (also on concatenated / trailing JSON and XML input with root-selecting targets, with the pool drained after every Read and with a second owner that takes pooled nodes between the Reads and re-audits what it holds), racing acquisitions and build-hold-reverify stress from a cold pool on 16 goroutines (repeated in a child built with -race), and a recycle soak (one node, and a parent with 3 children, released and re-created 2^24+2^16 times next to nodes that stay live; every new ID compared with all held IDs); non-trivial = the history contains a removal followed by a creation that got a pooled node back; "+
			"distinct by (pooling, operation list)")
	cw := vh.NewCaseWriter(o, "C12", "Base.Tree Model.Heap Model.HeapOpsGen", "c12case", "check_case_src")
	cw.PerFile = 100 // elaborating the case terms dominates the cost of a shard

	// ---- racing acquisitions: 16 goroutines ----
	runRace := func() {
		G, iters := 16, o.Count(300, 6000)
		if *part == "race-child" {
			iters = 40
		}
		acq, dup, bad := raceIDs(o.Seed, G, iters)
		sum.Extra["race_goroutines"] = G
		sum.Extra["race_acquisitions"] = acq
		sum.Hist("race-run")
		desc := map[string]interface{}{"kind": "race", "goroutines": G, "iterations": iters, "seed": o.Seed}
		if dup != 0 {
			sum.Fail(fmt.Sprintf("two racing acquisitions observed the same node ID %d", dup), desc, nil)
		}
		if bad != "" {
			sum.Fail("a goroutine's own tree became unsound while others were acquiring/releasing nodes: "+bad, desc, nil)
		}
		// build / hold / re-verify from a cold pool
		trees, churn := o.Count(3000, 30000), o.Count(60000, 600000)
		if *part == "race-child" { // under the race detector everything is ~10x slower
			trees, churn = 400, 6000
		}
		hops, hbad := raceHold(o.Seed, G, trees, churn)
		sum.Extra["race_hold_operations"] = hops
		if hbad != "" {
			sum.Fail("nodes held by a goroutine changed, or were handed to two goroutines, while others allocate and release: "+hbad, desc, nil)
		}
		if *raceOnly {
			fmt.Printf("race: %d goroutines, %d acquisitions, duplicate ID: %d, defect: %q; hold/verify: %d operations, defect: %q\n", G, acq, dup, bad, hops, hbad)
			if dup != 0 || bad != "" || hbad != "" {
				os.Exit(1)
			}
			os.Exit(0)
		}
	}
	// ---- recycle soak: the same node(s) recycled millions of times ----
	runSoak := func(only *soakCase) {
		single, tree := 1<<24+1<<16, 1<<22
		if o.Tier == "thorough" {
			single, tree = 1<<26, 1<<25
		}
		plans := []soakCase{{Kind: "soak", Variant: "single-node", Iterations: single}, {Kind: "soak", Variant: "small-tree", Iterations: tree}}
		if only != nil {
			plans = []soakCase{*only}
		}
		for _, pl := range plans {
			at, what, reused := recycleSoak(pl.Variant, pl.Iterations)
			sum.Count(fmt.Sprintf("soak|%s|%d", pl.Variant, pl.Iterations), false)
			sum.Hist("soak:" + pl.Variant)
			sum.Extra["soak_"+pl.Variant+"_iterations"] = pl.Iterations
			sum.Extra["soak_"+pl.Variant+"_reacquisitions_of_the_first_nodes"] = reused
			if what != "" {
				pl.FailedAt = at
				sum.Fail("recycle soak ("+pl.Variant+"): held nodes must carry pairwise distinct IDs: "+what, pl, nil)
			}
		}
	}
	if *raceOnly {
		runRace()
	}
	if *soakOnly {
		runSoak(nil)
		fmt.Printf("soak: failures=%d extra=%v\n", len(sum.Failures), sum.Extra)
		for _, f := range sum.Failures {
			fmt.Println(f.What)
		}
		return
	}
	if *part == "race-child" {
		runRace()
		fmt.Printf("race child: %d failures\n", len(sum.Failures))
		for _, f := range sum.Failures {
			fmt.Println(f.What)
		}
		if len(sum.Failures) > 0 {
			os.Exit(5)
		}
		return
	}
	if *part == "late" && o.Replay != "" {
		if sc, ok := soakReplay(o.Replay); ok {
			if sc.FailedAt > 0 && sc.FailedAt+1 < sc.Iterations {
				sc.Iterations = sc.FailedAt + 1
			}
			sc.FailedAt = 0
			runSoak(&sc)
			sum.Write(o)
			return
		}
	}
	if *part == "late" && o.Replay != "" {
		// child process replaying one reader case
		rc, _ := readerReplay(o.Replay)
		in, _ := hex.DecodeString(rc.InputHex)
		drains := map[int]bool{}
		for _, k := range rc.Drains {
			drains[k] = true
		}
		idr.VerifResetNodePool()
		progressFile = filepath.Join(o.Out, "current.json")
		if rc.Dropped != "" {
			droppedReaderAudit(sum, rc.Dropped, rc.Format, rc.Schema, in, rc.HeldAfter, "replay")
		} else {
			auditTransform(sum, cw, rc.Format, rc.Schema, in, "replay", drains, rc.DrainAll, rc.Second, rc.Direct)
		}
		cw.Flush()
		sum.CaseFiles = cw.Files
		sum.Write(o)
		return
	}
	if *part == "late" {
		// child process: a broken node API can make the readers build cyclic trees on which the
		// library recurses until the Go runtime kills the process; the parent then reports the
		// transform named in current.json
		progressFile = filepath.Join(o.Out, "current.json")
		readerTrees(r, sum, cw, o.Count(12, 400))
		_ = os.Remove(progressFile)
		progressFile = ""
		misuseScripts(sum, cw)
		_ = os.Remove(filepath.Join(o.Out, "current.json"))
		runSoak(nil)
		raceDetectorChild(o, sum)
		// the summary so far survives a fatal runtime error in the racing part
		cw.Flush()
		sum.CaseFiles = cw.Files
		sum.Write(o)
		runRace()
		cw.Flush()
		sum.CaseFiles = cw.Files
		sum.Write(o)
		return
	}
	if o.Replay != "" {
		_, isSoak := soakReplay(o.Replay)
		if _, ok := readerReplay(o.Replay); ok || isSoak {
			// replay of a reader or soak failure: that case only, in a child process
			runLate(o, sum, cw)
			sum.CaseFiles = cw.Files
			sum.Write(o)
			return
		}
		if sd, ok := raceReplaySeed(o.Replay); ok {
			// replay of a racing-acquisitions failure: that part only, same seed
			o.Seed = sd
			runRace()
			raceDetectorChild(o, sum)
			sum.Count(fmt.Sprintf("race|%d", sd), false)
			sum.Write(o)
			return
		}
	}
	replay, corpus := loadCases(o)
	for _, c := range corpus {
		finishHist(sum, cw, runCase(c, r), "corpus", true)
	}
	if len(replay) > 0 {
		for _, c := range replay {
			h := runCase(c, r)
			fmt.Printf("replay: %d ops executed, pooling=%v\nforest at end: %s\noracle: %q (after op %d)\n", len(h.ops), c.Caching, h.coqForest(), h.fail, h.failOp)
			finishHist(sum, cw, h, "replay", true)
		}
	} else {
		total := o.Count(4000, 200000)
		modelled := 350
		if o.Tier == "thorough" {
			modelled = 9000
		}
		for c := 0; c < total; c++ {
			caching := !r.Chance(0.15)
			finishHist(sum, cw, genHistory(r, caching, 80), "generated", c < modelled)
		}
		if len(sum.Failures) == 0 {
			runLate(o, sum, cw)
		} else {
			// with the node API already shown broken the verdict is in
			sum.Hist("readers-and-race-skipped-after-history-failure")
		}
	}
	cw.Flush()
	sum.CaseFiles = cw.Files
	sum.Write(o)
}
