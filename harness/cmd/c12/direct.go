package main

import (
	"bytes"
	"encoding/json"
	"fmt"

	"github.com/jf-tech/omniparser/extensions/omniv21/fileformat"
	"github.com/jf-tech/omniparser/extensions/omniv21/fileformat/csv"
	"github.com/jf-tech/omniparser/extensions/omniv21/fileformat/edi"
	"github.com/jf-tech/omniparser/extensions/omniv21/fileformat/fixedlength"
	csv2 "github.com/jf-tech/omniparser/extensions/omniv21/fileformat/flatfile/csv"
	fixedlength2 "github.com/jf-tech/omniparser/extensions/omniv21/fileformat/flatfile/fixedlength"
	fjson "github.com/jf-tech/omniparser/extensions/omniv21/fileformat/json"
	fxml "github.com/jf-tech/omniparser/extensions/omniv21/fileformat/xml"
	"github.com/jf-tech/omniparser/extensions/omniv21/transform"
	"github.com/jf-tech/omniparser/idr"
)

func formatFor(name string) fileformat.FileFormat {
	switch name {
	case "csv":
		return csv.NewCSVFileFormat("c12")
	case "csv2":
		return csv2.NewCSVFileFormat("c12")
	case "edi":
		return edi.NewEDIFileFormat("c12")
	case "fixed-length":
		return fixedlength.NewFixedLengthFileFormat("c12")
	case "fixedlength2":
		return fixedlength2.NewFixedLengthFileFormat("c12")
	case "json":
		return fjson.NewJSONFileFormat("c12")
	case "xml":
		return fxml.NewXMLFileFormat("c12")
	}
	return nil
}

// openDirect validates the schema with the format's own ValidateSchema and opens its
// FormatReader, which is then driven the way the ingester drives it (Release of the node of the
// previous successful Read, then Read) - but, unlike Transform, which latches a terminal result,
// it goes on calling Read after the reader's terminal result.
func openDirect(format, schema string, in []byte) (next func() (*idr.Node, error, bool)) {
	defer func() {
		if recover() != nil {
			next = nil
		}
	}()
	ff := formatFor(format)
	if ff == nil {
		return nil
	}
	var sch struct {
		TD struct {
			FO struct {
				XPath *string `json:"xpath"`
			} `json:"FINAL_OUTPUT"`
		} `json:"transform_declarations"`
	}
	_ = json.Unmarshal([]byte(schema), &sch)
	rt, err := ff.ValidateSchema(format, []byte(schema), &transform.Decl{XPath: sch.TD.FO.XPath})
	if err != nil {
		return nil
	}
	rd, err := ff.CreateFormatReader("in", bytes.NewReader(in), rt)
	if err != nil {
		return nil
	}
	var cur *idr.Node
	return func() (n *idr.Node, err error, cont bool) {
		defer func() {
			// a reader that panics when Read is called again after its terminal result: that is for
			// the no-panic property to judge; here the audit of the node pool goes on
			if p := recover(); p != nil {
				n, err, cont = nil, fmt.Errorf("panic in FormatReader.Read: %v", p), false
			}
		}()
		if cur != nil {
			rd.Release(cur)
			cur = nil
		}
		n, err = rd.Read()
		if n != nil {
			cur = n
		}
		if err != nil {
			return nil, err, rd.IsContinuableError(err)
		}
		return n, nil, true
	}
}
