package main

import (
	"fmt"
	"runtime"
	"runtime/debug"

	"github.com/jf-tech/omniparser/idr"
)

// soakCase is the replayable description of a recycle soak.
type soakCase struct {
	Kind       string `json:"kind"`    // "soak"
	Variant    string `json:"variant"` // "single-node" | "small-tree"
	Iterations int    `json:"iterations"`
	FailedAt   int    `json:"failed_at_iteration,omitempty"`
}

const soakRing = 4096 // how many of the most recently handed-out IDs the sampled check looks at

// recycleSoak is held_ids_distinct (Props/C12.v) evaluated on the implementation over a very long
// history that recycles the SAME node(s) again and again: a few nodes are created and kept live,
// before and after the node (or small tree: parent + 3 children) that is then released and
// re-created `iters` times.  On every acquisition the new ID is compared, in O(1), with the IDs
// of all nodes currently held; every 251st iteration it is also compared with the last 4096 IDs
// handed out.  One P and no GC during the loop, so that sync.Pool keeps handing the same nodes
// back and each of them really is recycled `iters` times.
// Returns the iteration at which the oracle failed (-1 if it held) and what failed.
func recycleSoak(variant string, iters int) (failedAt int, what string, reused int) {
	oldProcs := runtime.GOMAXPROCS(1)
	oldGC := debug.SetGCPercent(-1)
	oldCaching := idr.VerifSetNodeCaching(true)
	defer func() {
		idr.VerifSetNodeCaching(oldCaching)
		debug.SetGCPercent(oldGC)
		runtime.GOMAXPROCS(oldProcs)
	}()
	defer func() {
		if p := recover(); p != nil && what == "" {
			what = fmt.Sprintf("panic during the soak: %v", p)
		}
	}()
	idr.VerifResetNodePool()

	// nodes that stay live for the whole soak, allocated right before and right after the
	// recycled ones (their IDs are the neighbours of the recycled nodes' first IDs)
	var keep []*idr.Node
	for i := 0; i < 3; i++ {
		keep = append(keep, idr.CreateNode(idr.ElementNode, "before"))
	}
	build := func() []*idr.Node {
		if variant == "single-node" {
			return []*idr.Node{idr.CreateNode(idr.ElementNode, "victim")}
		}
		p := idr.CreateNode(idr.ElementNode, "parent")
		ns := []*idr.Node{p}
		for i := 0; i < 3; i++ {
			c := idr.CreateNode(idr.TextNode, "child")
			idr.AddChild(p, c)
			ns = append(ns, c)
		}
		return ns
	}
	cur := build()
	for i := 0; i < 3; i++ {
		keep = append(keep, idr.CreateNode(idr.ElementNode, "after"))
	}
	heldIDs := make([]int64, len(keep)) // IDs of the nodes held throughout (they never change ...)
	for i, n := range keep {
		heldIDs[i] = n.ID
	}
	for i, a := range keep { // ... and are distinct to begin with
		for _, b := range cur {
			if a.ID == b.ID {
				return 0, fmt.Sprintf("two freshly created nodes carry the same ID %d", a.ID), 0
			}
		}
		for _, b := range keep[:i] {
			if a.ID == b.ID {
				return 0, fmt.Sprintf("two freshly created nodes carry the same ID %d", a.ID), 0
			}
		}
	}
	first := map[*idr.Node]bool{}
	for _, n := range cur {
		first[n] = true
	}
	var ring [soakRing]int64
	rp := 0
	failedAt = -1
	for it := 1; it <= iters; it++ {
		idr.RemoveAndReleaseTree(cur[0])
		cur = build()
		for k, n := range cur {
			id := n.ID
			// O(1): against everything held right now
			for j, h := range heldIDs {
				if id == h {
					return it, fmt.Sprintf("iteration %d: a re-acquired node carries ID %d, the ID of the live, never released node %q #%d", it, id, keep[j].Data, j), reused
				}
				if keep[j].ID != h {
					return it, fmt.Sprintf("iteration %d: the ID of a held node changed from %d to %d", it, h, keep[j].ID), reused
				}
			}
			for _, m := range cur[:k] {
				if m.ID == id {
					return it, fmt.Sprintf("iteration %d: two nodes of the tree just built carry the same ID %d", it, id), reused
				}
			}
			if first[n] {
				reused++
			}
			// sampled: against the recently handed-out IDs
			if it%251 == 0 {
				for _, old := range ring {
					if old == id && old != 0 {
						return it, fmt.Sprintf("iteration %d: ID %d was handed out again within the last %d acquisitions", it, id, soakRing), reused
					}
				}
			}
			ring[rp] = id
			rp = (rp + 1) % soakRing
		}
		if variant != "single-node" && it%65536 == 0 {
			if _, bad := auditTree(cur[0], 16); bad != "" {
				return it, fmt.Sprintf("iteration %d: the rebuilt tree is not sound: %s", it, bad), reused
			}
		}
	}
	return -1, "", reused
}
