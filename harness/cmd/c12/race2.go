package main

import (
	"bytes"
	"fmt"
	"os"
	"os/exec"
	"path/filepath"
	"regexp"
	"strings"
	"sync"
	"time"

	"github.com/jf-tech/omniparser/idr"

	"verifharness/vh"
)

// buildHeld builds a small tree (root + kids children) with AddChild and snapshots every field.
func buildHeld(tag string, kids int) *heldTree {
	root := idr.CreateNode(idr.ElementNode, tag)
	h := &heldTree{nodes: []*idr.Node{root}}
	for i := 0; i < kids; i++ {
		c := idr.CreateNode(idr.TextNode, tag+string(rune('a'+i)))
		idr.AddChild(root, c)
		h.nodes = append(h.nodes, c)
	}
	for _, n := range h.nodes {
		h.snap = append(h.snap, *n)
	}
	return h
}

// raceHold starts from a COLD pool.  Half of the goroutines build small trees with AddChild, HOLD
// them all (far more nodes than are ever released, so the allocation path runs concurrently on
// many goroutines) and re-verify everything they hold again and again (links, IDs, type, data);
// the other half create, attach and release in tight loops.  At the end every held node must be
// held by exactly one goroutine and all held IDs must be distinct.
func raceHold(seed int64, G, trees, churn int) (ops int, bad string) {
	idr.VerifResetNodePool()
	old := idr.VerifSetNodeCaching(true)
	defer idr.VerifSetNodeCaching(old)
	held := make([][]*heldTree, G)
	bads := make([]string, G)
	counts := make([]int, G)
	var wg sync.WaitGroup
	start := make(chan struct{})
	for g := 0; g < G; g++ {
		wg.Add(1)
		go func(g int) {
			defer wg.Done()
			defer func() {
				if p := recover(); p != nil && bads[g] == "" {
					bads[g] = fmt.Sprintf("panic: %v", p)
				}
			}()
			r := vh.NewRng(seed*7919 + int64(g))
			verify := func(when string) {
				for i, h := range held[g] {
					if msg := h.changed(); msg != "" && bads[g] == "" {
						bads[g] = fmt.Sprintf("%s: tree %d held by goroutine %d: %s", when, i, g, msg)
						return
					}
				}
			}
			<-start
			if g%2 == 0 { // holder
				for i := 0; i < trees; i++ {
					h := buildHeld(fmt.Sprintf("g%d.%d.", g, i), r.Between(1, 4))
					held[g] = append(held[g], h)
					counts[g] += 2 * len(h.nodes)
					if _, b := auditTree(h.nodes[0], 16); b != "" && bads[g] == "" {
						bads[g] = fmt.Sprintf("tree %d just built by goroutine %d is not sound: %s", i, g, b)
					}
					if i%128 == 127 {
						verify("while building")
					}
				}
				for k := 0; k < 4; k++ {
					time.Sleep(time.Millisecond)
					verify("while others churn")
				}
			} else { // churner
				for i := 0; i < churn; i++ {
					if i%4 == 0 {
						h := buildHeld("c", 2)
						if msg := h.changed(); msg != "" && bads[g] == "" {
							bads[g] = "a tree changed between its construction and its release: " + msg
						}
						idr.RemoveAndReleaseTree(h.nodes[0])
						counts[g] += 7
					} else {
						n := idr.CreateNode(idr.ElementNode, "c")
						idr.RemoveAndReleaseTree(n)
						counts[g] += 2
					}
				}
			}
		}(g)
	}
	close(start)
	wg.Wait()
	defer func() {
		if p := recover(); p != nil && bad == "" {
			bad = fmt.Sprintf("held nodes could not be read back (%v)", p)
		}
	}()
	owner := map[*idr.Node]int{}
	ids := map[int64]int{}
	for g := 0; g < G; g++ {
		ops += counts[g]
		if bads[g] != "" && bad == "" {
			bad = bads[g]
		}
		for i, h := range held[g] {
			if msg := h.changed(); msg != "" && bad == "" {
				bad = fmt.Sprintf("at the end: tree %d held by goroutine %d: %s", i, g, msg)
			}
			for _, n := range h.nodes {
				if o, dup := owner[n]; dup && bad == "" {
					bad = fmt.Sprintf("the same node (ID %d) was handed to goroutine %d and to goroutine %d", n.ID, o, g)
				}
				owner[n] = g
				if o, dup := ids[n.ID]; dup && bad == "" {
					bad = fmt.Sprintf("two held nodes (goroutines %d and %d) carry the same ID %d", o, g, n.ID)
				}
				ids[n.ID] = g
			}
		}
	}
	return
}

// raceDetectorChild builds this harness with -race and runs the racing parts in it; any DATA RACE
// report that involves the idr package is a failure, with the report as detail.
func raceDetectorChild(o *vh.Opts, sum *vh.Summary) {
	exe, err := os.Executable()
	if err != nil {
		sum.Extra["race_detector"] = "unavailable: " + err.Error()
		return
	}
	binDir := filepath.Dir(exe)
	root := filepath.Dir(filepath.Dir(binDir))
	modfile := filepath.Join(root, "work", "harness.mod")
	out := filepath.Join(binDir, "c12race")
	t0 := time.Now()
	cmd := exec.Command("go", "build", "-race", "-modfile", modfile, "-tags", "verif", "-o", out, "./cmd/c12")
	cmd.Dir = filepath.Join(root, "harness")
	cmd.Env = append(os.Environ(), "GOFLAGS=-mod=mod", "GOPROXY=off", "GOSUMDB=off", "GOTOOLCHAIN=local", "CGO_ENABLED=1")
	if b, err := cmd.CombinedOutput(); err != nil {
		msg := string(b) + err.Error()
		if len(msg) > 300 {
			msg = msg[:300]
		}
		sum.Extra["race_detector"] = "unavailable: go build -race failed: " + msg
		return
	}
	sum.Extra["race_build_s"] = time.Since(t0).Seconds()
	t1 := time.Now()
	child := exec.Command(out, "-part", "race-child", "-seed", fmt.Sprint(o.Seed), "-tier", o.Tier, "-out", filepath.Join(o.Out, "racedet"))
	child.Env = append(os.Environ(), "GORACE=halt_on_error=0 exitcode=66 history_size=2")
	var buf bytes.Buffer
	child.Stdout, child.Stderr = &buf, &buf
	err = child.Run()
	sum.Extra["race_run_s"] = time.Since(t1).Seconds()
	report := buf.String()
	desc := map[string]interface{}{"kind": "race", "seed": o.Seed, "detector": true}
	if i := strings.Index(report, "WARNING: DATA RACE"); i >= 0 {
		first := report[i:]
		if len(first) > 5000 {
			first = first[:5000]
		}
		var sites []string
		re := regexp.MustCompile(`(?m)^  (github\.com/jf-tech/omniparser/idr\.[^\s(]*)\(`)
		for _, m := range re.FindAllStringSubmatch(first, 6) {
			sites = append(sites, m[1])
		}
		if len(sites) > 0 {
			desc["racing"] = sites
			sum.Fail("the race detector reports a DATA RACE on state of the idr package while goroutines build, hold and release node trees", desc, first)
			sum.Extra["race_detector"] = "DATA RACE reported"
		} else {
			sum.Extra["race_detector"] = "a data race outside idr was reported (harness?): " + first[:200]
		}
		return
	}
	if err != nil {
		tail := report
		if len(tail) > 1500 {
			tail = tail[len(tail)-1500:]
		}
		sum.Fail("the -race build of the racing workload failed: "+err.Error(), desc, tail)
		return
	}
	sum.Extra["race_detector"] = "racing parts rebuilt with -race and run as a child process: no data race reported"
	sum.Hist("race-detector-run")
}
