// c04: correspondence + oracle harness for property C04 (streaming target selection equals
// whole-document selection, XML and JSON).
package main

import (
	"encoding/json"
	"fmt"
	"io"
	"os"
	"path/filepath"
	"sort"
	"strings"
	"time"

	"github.com/jf-tech/omniparser"
	"github.com/jf-tech/omniparser/errs"
	"github.com/jf-tech/omniparser/idr"
	"github.com/jf-tech/omniparser/transformctx"

	"verifharness/cmd/c04/sx"
	"verifharness/vh"
)

// Case is the replayable description of one run: document text, target, and after which
// deliveries the caller calls Release before the next Read.
type Case struct {
	Format string `json:"format"` // "xml" | "json"
	Text   string `json:"text"`
	Target sx.Target `json:"target"`
	Rel    []bool `json:"rel"`
}

type streamReader interface {
	Read() (*idr.Node, error)
	Release(*idr.Node)
}

func newReader(format, text, xpath string) (streamReader, error) {
	if format == "xml" {
		return idr.NewXMLStreamReader(strings.NewReader(text), xpath)
	}
	return idr.NewJSONStreamReader(strings.NewReader(text), xpath)
}

type delivery struct {
	Dump string // vh.CoqTree at delivery time
	Size int    // nodes reachable through parent links at delivery time
	Type string
}

type result struct {
	Deliveries []delivery
	Fin        string // "EOF" | "error: ..." | "panic: ..." | "hang"
}

// stream reads to the end, snapshotting every delivery when it is delivered.
func stream(c *Case, xpath string) (res result) {
	done := make(chan result, 1)
	go func() {
		var out result
		defer func() {
			if p := recover(); p != nil {
				out.Fin = fmt.Sprint("panic: ", p)
			}
			done <- out
		}()
		rd, err := newReader(c.Format, c.Text, xpath)
		if err != nil {
			out.Fin = "xpath-rejected: " + err.Error()
			return
		}
		for k := 0; ; k++ {
			n, err := rd.Read()
			if err != nil {
				if err.Error() == "EOF" {
					out.Fin = "EOF"
				} else {
					out.Fin = "error: " + err.Error()
				}
				return
			}
			out.Deliveries = append(out.Deliveries, delivery{Dump: vh.CoqTree(n), Size: vh.TreeSize(vh.Root(n)), Type: n.Type.String()})
			if k < len(c.Rel) && c.Rel[k] {
				rd.Release(n)
			}
			if k > len(c.Text)+10 {
				out.Fin = "error: more deliveries than input bytes"
				return
			}
		}
	}()
	select {
	case res = <-done:
	case <-time.After(20 * time.Second):
		res.Fin = "hang"
	}
	return res
}

// wholeDoc evaluates the property's right-hand side on the implementation: load the document
// completely, select with the path part from the root, keep the outermost matches, and of those
// the ones the full xpath selects.
func wholeDoc(c *Case) (dumps []string, nested, rejected int, err error) {
	defer func() {
		if p := recover(); p != nil {
			err = fmt.Errorf("panic: %v", p)
		}
	}()
	rd, e := newReader(c.Format, c.Text, ".")
	if e != nil {
		return nil, 0, 0, e
	}
	n, e := rd.Read()
	if e != nil {
		return nil, 0, 0, fmt.Errorf("whole-document load: %v", e)
	}
	root := vh.Root(n)
	cands, e := idr.MatchAll(root, c.Target.NoFilter())
	if e != nil {
		return nil, 0, 0, e
	}
	full, e := idr.MatchAll(root, c.Target.XPath())
	if e != nil {
		return nil, 0, 0, e
	}
	inC := map[*idr.Node]bool{}
	for _, x := range cands {
		inC[x] = true
	}
	inF := map[*idr.Node]bool{}
	for _, x := range full {
		inF[x] = true
	}
	// The xpath engine returns one result per way of matching ("//a//b" yields a node once per
	// ancestor a) and in the order of its own iteration; the property speaks of the SET of selected
	// nodes in document order, so walk the tree in document order and ask membership.
	var walk func(x *idr.Node, inside bool)
	walk = func(x *idr.Node, inside bool) {
		if inC[x] {
			if inside {
				nested++
			} else if inF[x] {
				dumps = append(dumps, vh.CoqTree(x))
			} else {
				rejected++
			}
			inside = true
		}
		for ch := x.FirstChild; ch != nil; ch = ch.NextSibling {
			walk(ch, inside)
		}
	}
	walk(root, false)
	return dumps, nested, rejected, nil
}

type caseInfo struct {
	Nontrivial bool
	Hist       []string
}

// runCase runs one case on the implementation, evaluates the oracle, and emits the Coq case.
// expect: "" (must hold), or "finding" (a corpus case of a known finding: reported through
// sum.Fail with the case as stable key while it fails).
var gOpts *vh.Opts

// every apiEvery-th case (by a hash of the case) also goes through the public Transform API
var apiEvery = 3

func runCase(c *Case, sum *vh.Summary, cw *vh.CaseWriter, verbose bool) caseInfo {
	var info caseInfo
	if gOpts != nil {
		vh.Current(gOpts, c)
	}
	xp := c.Target.XPath()
	res := stream(c, xp)
	want, nested, rejected, werr := wholeDoc(c)
	if verbose {
		fmt.Printf("format=%s xpath=%s\ntext=%q\nrel=%v\n", c.Format, xp, c.Text, c.Rel)
		fmt.Printf("implementation: %d deliveries, end=%s\n", len(res.Deliveries), res.Fin)
		for i, d := range res.Deliveries {
			fmt.Printf("  delivery %d (tree size %d): %s\n", i, d.Size, d.Dump)
		}
		fmt.Printf("whole-document selection (outermost of %q, kept if selected by the full xpath): %d nodes, %d nested candidates, %d rejected, err=%v\n",
			c.Target.NoFilter(), len(want), nested, rejected, werr)
		for i, d := range want {
			fmt.Printf("  selected %d: %s\n", i, d)
		}
	}
	if strings.HasPrefix(res.Fin, "xpath-rejected") {
		info.Hist = append(info.Hist, "xpath-rejected")
		if verbose {
			fmt.Println(res.Fin)
		}
		return info
	}
	if werr != nil {
		sum.Fail("whole-document evaluation failed: "+werr.Error(), c, nil)
		return info
	}
	// ---- the property oracle, on the implementation ----
	var got []string
	for _, d := range res.Deliveries {
		got = append(got, d.Dump)
	}
	what := ""
	switch {
	case res.Fin != "EOF":
		what = "streaming a well-formed document did not end with EOF: " + res.Fin
	case len(got) < len(want):
		what = "a node selected on the whole document is not delivered by the stream reader"
		for i := range got {
			if got[i] != want[i] {
				what = "delivery differs from the node selected on the whole document (wrong node, incomplete subtree or wrong order)"
			}
		}
	case len(got) > len(want):
		what = "the stream reader delivers a node that the xpath does not select on the whole document (or delivers one twice)"
	default:
		for i := range got {
			if got[i] != want[i] {
				what = "delivery differs from the node selected on the whole document (wrong node, incomplete subtree or wrong order)"
			}
		}
	}
	if what != "" {
		sum.Fail(what, c, map[string]interface{}{"xpath": xp, "delivered": got, "selected_on_whole_document": want, "end": res.Fin})
		if verbose {
			fmt.Println("ORACLE FAILS:", what)
		}
	} else if verbose {
		fmt.Println("oracle holds: deliveries equal whole-document selection")
	}
	if what == "" && apiEvery > 0 && (len(c.Text)+len(xp))%apiEvery == 0 {
		apiStream(c, want, sum)
	}
	info.Nontrivial = len(want)+rejected > 0
	info.Hist = append(info.Hist, "format:"+c.Format, fmt.Sprintf("deliveries:%s", bucket(len(want))))
	if nested > 0 {
		info.Hist = append(info.Hist, "has-nested-candidates")
	}
	if rejected > 0 {
		info.Hist = append(info.Hist, "has-rejected-candidates")
	}
	if rejected > 0 && len(want) > 0 {
		info.Hist = append(info.Hist, "rejected-and-accepted")
	}
	info.Hist = append(info.Hist, c.Target.Classify()...)
	if c.Format == "xml" {
		if strings.Contains(c.Text, `=""`) {
			info.Hist = append(info.Hist, "xml:attribute-with-empty-value")
		}
		if strings.Contains(c.Text, `="`) {
			info.Hist = append(info.Hist, "xml:attribute-loop-exercised")
		}
		if strings.Count(c.Text, "xmlns:") > 1 {
			info.Hist = append(info.Hist, "xml:namespace-rebound-on-inner-element")
		}
	}
	if len(c.Target.Filters) > 1 {
		info.Hist = append(info.Hist, "split:several-trailing-filters")
	}

	if !c.Target.InModelClass() {
		return info // union with trailing filters: compared with the whole-document selection only
	}
	// ---- the Coq case: same tokens, same target, observed deliveries ----
	fin := "ObsEOF"
	if res.Fin != "EOF" {
		fin = "ObsErr"
	}
	var ds []string
	for _, d := range res.Deliveries {
		ds = append(ds, "("+d.Dump+", "+vh.CoqNat(d.Size)+")")
	}
	var rel []string
	for _, b := range c.Rel {
		rel = append(rel, vh.CoqBool(b))
	}
	var term string
	if c.Format == "xml" {
		toks, ok := sx.XMLTokens(c.Text)
		doc, ok2 := sx.XMLFromTokens(toks)
		if !ok || !ok2 {
			info.Hist = append(info.Hist, "not-wellformed")
			return info
		}
		term = fmt.Sprintf("XCase (mkXCase %s %s %s %s %s %s %s %s)", sx.XDocCoq(doc), sx.XToksCoq(toks), c.Target.Coq(), c.Target.AltsCoq(),
			vh.CoqHex([]byte(xp)), vh.CoqList(rel), vh.CoqList(ds), fin)
	} else {
		toks, ok := sx.JSONTokens(c.Text)
		doc, ok2 := sx.JSONFromTokens(toks)
		if !ok || !ok2 {
			info.Hist = append(info.Hist, "not-wellformed")
			return info
		}
		var sb strings.Builder
		doc.Coq(&sb)
		term = fmt.Sprintf("JCase (mkJCase (%s) %s %s %s %s %s %s %s)", sb.String(), sx.JToksCoq(toks), c.Target.Coq(), c.Target.AltsCoq(),
			vh.CoqHex([]byte(xp)), vh.CoqList(rel), vh.CoqList(ds), fin)
	}
	cw.Add(term, c)
	return info
}

func bucket(n int) string {
	switch {
	case n == 0:
		return "0"
	case n == 1:
		return "1"
	case n <= 4:
		return "2-4"
	}
	return "5+"
}

func genRel(r *vh.Rng) []bool {
	rel := make([]bool, 64)
	p := r.PickStr("all", "none", "mixed")
	for i := range rel {
		rel[i] = p == "all" || (p == "mixed" && r.Chance(0.5))
	}
	return rel
}

// maxFilters is the guard the main generator stays inside: number of trailing predicates.
const maxFilters = 3

func genCase(r *vh.Rng) (*Case, bool) {
	if r.Chance(0.55) {
		return genXMLCase(r, sx.GenXMLDoc(r))
	}
	doc := sx.GenJSONDoc(r)
	text := sx.JSONText(r, doc)
	toks, ok := sx.JSONTokens(text)
	back, ok2 := sx.JSONFromTokens(toks)
	if !ok || !ok2 || !sx.SameJN(doc, back) {
		fmt.Fprintf(os.Stderr, "generator: json.Decoder does not give back the generated document: %q\n", text)
		return nil, false
	}
	return &Case{Format: "json", Text: text, Target: sx.GenTarget(r, sx.JSONVocab(doc), maxFilters, true), Rel: genRel(r)}, true
}

func genXMLCase(r *vh.Rng, doc []*sx.XN) (*Case, bool) {
	text := sx.XMLText(r, doc)
	toks, ok := sx.XMLTokens(text)
	back, ok2 := sx.XMLFromTokens(toks)
	if !ok || !ok2 {
		fmt.Fprintf(os.Stderr, "generator: not well-formed: %q\n", text)
		return nil, false
	}
	if sx.Rebinds(doc) {
		// declarations on inner elements: the prefix the reader stores comes from its document-wide
		// last-wins URI->prefix map (F11) and may differ from the prefix written; targets are aimed
		// at the names as stored (the token stream with the reader's name resolution)
		doc = back
	} else if !sx.SameXN(doc, back) {
		fmt.Fprintf(os.Stderr, "generator: xml.Decoder does not give back the generated document: %q\n", text)
		return nil, false
	}
	return &Case{Format: "xml", Text: text, Target: sx.GenTarget(r, sx.XMLVocab(doc), maxFilters, false), Rel: genRel(r)}, true
}

// ---- the same through the public Transform API ---------------------------------------------------

// apiStream runs the case through omniparser.NewSchema / NewTransform / Read / RawRecord with the
// target as FINAL_OUTPUT xpath.  The FINAL_OUTPUT object extracts one optional field (an array of
// the x children), so for many selected nodes the transform result is empty: every selected node
// must still surface as one record.  Oracle: the RawRecord nodes, in order, are the whole-document
// selection.
func apiStream(c *Case, want []string, sum *vh.Summary) {
	xp, _ := json.Marshal(c.Target.XPath())
	schema := `{"parser_settings": {"version": "omni.2.1", "file_format_type": "` + c.Format + `"},
 "transform_declarations": {"FINAL_OUTPUT": {"xpath": ` + string(xp) + `, "object": {
   "v": {"array": [{"xpath": "x"}]}, "w": {"xpath": "@id"}}}}}`
	var got []string
	fin := ""
	func() {
		defer func() {
			if p := recover(); p != nil {
				fin = fmt.Sprint("panic: ", p)
			}
		}()
		s, err := omniparser.NewSchema("c04-api", strings.NewReader(schema))
		if err != nil {
			fin = "schema-rejected"
			return
		}
		t, err := s.NewTransform("in", strings.NewReader(c.Text), &transformctx.Ctx{})
		if err != nil {
			fin = "newtransform: " + err.Error()
			return
		}
		for k := 0; k <= len(c.Text)+10; k++ {
			_, err := t.Read()
			if err == io.EOF {
				fin = "EOF"
				return
			}
			if err != nil {
				if errs.IsErrTransformFailed(err) {
					fin = "transform-failed" // a record the schema cannot transform: case not usable
					return
				}
				fin = "error: " + err.Error()
				return
			}
			raw, err := t.RawRecord()
			if err != nil {
				fin = "rawrecord: " + err.Error()
				return
			}
			n, _ := raw.Raw().(*idr.Node)
			if n == nil {
				fin = "rawrecord: no node"
				return
			}
			got = append(got, vh.CoqTree(n))
		}
	}()
	sum.Hist("api-stream:" + strings.SplitN(fin, ":", 2)[0])
	if fin == "schema-rejected" || fin == "transform-failed" {
		return
	}
	what := ""
	switch {
	case fin != "EOF":
		what = "Transform over a well-formed document did not end with EOF: " + fin
	case len(got) != len(want):
		what = fmt.Sprintf("the Transform surfaces %d records, the target selects %d nodes on the whole document", len(got), len(want))
	default:
		for i := range got {
			if got[i] != want[i] {
				what = "a record surfaced by the Transform differs from the node selected on the whole document"
			}
		}
	}
	if what != "" {
		sum.Fail("through the public Transform API: "+what, map[string]interface{}{"api": true, "case": c},
			map[string]interface{}{"xpath": c.Target.XPath(), "records": got, "selected_on_whole_document": want})
	}
}

// ---- several readers alive at once ---------------------------------------------------------------

// interleave creates one reader per case, all alive at once on this goroutine, and reads them
// alternately (random switch points).  Oracle: what each reader delivers is what it delivers when
// it runs alone.
func interleave(o *vh.Opts, cs []*Case, r *vh.Rng, sum *vh.Summary) bool {
	desc := map[string]interface{}{"interleaved": cs}
	vh.Current(o, desc)
	solo := make([]result, len(cs))
	for i, c := range cs {
		solo[i] = stream(c, c.Target.XPath())
		if strings.HasPrefix(solo[i].Fin, "xpath-rejected") {
			return false
		}
	}
	var schedule []int
	got := make([]result, len(cs))
	what := ""
	func() {
		defer func() {
			if p := recover(); p != nil {
				what = fmt.Sprint("panic while readers are interleaved: ", p)
			}
		}()
		rds := make([]streamReader, len(cs))
		for i, c := range cs {
			rd, err := newReader(c.Format, c.Text, c.Target.XPath())
			if err != nil {
				what = "reader creation failed: " + err.Error()
				return
			}
			rds[i] = rd
		}
		live := len(cs)
		for live > 0 && len(schedule) < 100000 {
			i := r.Pick(len(cs))
			if got[i].Fin != "" {
				continue
			}
			for k, burst := 0, r.Between(1, 3); k < burst && got[i].Fin == ""; k++ {
				schedule = append(schedule, i)
				n, err := rds[i].Read()
				if err != nil {
					if err.Error() == "EOF" {
						got[i].Fin = "EOF"
					} else {
						got[i].Fin = "error: " + err.Error()
					}
					live--
					break
				}
				d := len(got[i].Deliveries)
				got[i].Deliveries = append(got[i].Deliveries, delivery{Dump: vh.CoqTree(n), Size: vh.TreeSize(vh.Root(n)), Type: n.Type.String()})
				if d < len(cs[i].Rel) && cs[i].Rel[d] {
					rds[i].Release(n)
				}
			}
		}
	}()
	nontrivial := false
	for i := range cs {
		if len(solo[i].Deliveries) >= 2 {
			nontrivial = true
		}
		if what != "" {
			break
		}
		if got[i].Fin != solo[i].Fin || len(got[i].Deliveries) != len(solo[i].Deliveries) {
			what = fmt.Sprintf("reader %d delivers %d records (end: %s) while other readers are alive, but %d (end: %s) when it runs alone",
				i, len(got[i].Deliveries), got[i].Fin, len(solo[i].Deliveries), solo[i].Fin)
			break
		}
		for k := range got[i].Deliveries {
			if got[i].Deliveries[k] != solo[i].Deliveries[k] {
				what = fmt.Sprintf("delivery %d of reader %d differs from the delivery of the same reader running alone", k, i)
				break
			}
		}
	}
	if what != "" {
		desc["schedule"] = schedule
		sum.Fail("the deliveries of a stream reader depend on other readers alive in the process: "+what, desc, nil)
	}
	return nontrivial
}

// nsPair: documents that bind the SAME namespace URI to DIFFERENT prefixes (or one of them as the
// default namespace), targets written with those prefixes.
func nsPair(r *vh.Rng) []*Case {
	var cs []*Case
	prefixes := []string{"p", "q", "inv", ""}
	r.Shuffle(len(prefixes), func(i, j int) { prefixes[i], prefixes[j] = prefixes[j], prefixes[i] })
	for _, pfx := range prefixes[:r.Between(2, 3)] {
		item := func(v string) string {
			tag := "item"
			if pfx != "" {
				tag = pfx + ":item"
			}
			return "<" + tag + ">" + v + "</" + tag + ">"
		}
		decl, feed := `xmlns="urn:feed"`, "feed"
		if pfx != "" {
			decl, feed = "xmlns:"+pfx+`="urn:feed"`, pfx+":feed"
		}
		var sb strings.Builder
		sb.WriteString("<" + feed + " " + decl + ">")
		for i, n := 0, r.Between(3, 9); i < n; i++ {
			sb.WriteString(item(fmt.Sprint(r.Pick(100))))
		}
		sb.WriteString("</" + feed + ">")
		tg := sx.Target{Steps: []sx.Step{{NT: sx.NT{Prefix: pfx, Local: "feed"}}, {NT: sx.NT{Prefix: pfx, Local: "item"}}}}
		if r.Chance(0.3) {
			tg.Steps = []sx.Step{{Desc: true, NT: sx.NT{Prefix: pfx, Local: "item"}}}
		}
		cs = append(cs, &Case{Format: "xml", Text: sb.String(), Target: tg, Rel: genRel(r)})
	}
	return cs
}

type corpusFile struct {
	Case   Case   `json:"case"`
	Expect string `json:"expect"` // "pass" | "finding"
	Note   string `json:"note"`
}

func main() {
	o := vh.ParseOpts()
	gOpts = o
	r := vh.NewRng(o.Seed)
	sum := vh.NewSummary("C04", o,
		"(document, target xpath, release pattern) triples streamed through idr.NewXMLStreamReader / NewJSONStreamReader and compared with idr.MatchAll on the fully loaded document; non-trivial = the path part of the target matches at least one node of the document (candidate marking, closing check and pruning are exercised); distinct by (format, text, xpath, release pattern)")
	cw := vh.NewCaseWriter(o, "C04", "Base.Tree Model.Stream", "c04case", "check_case")

	if o.Replay != "" {
		var rf corpusFile
		b, err := os.ReadFile(o.Replay)
		if err != nil || json.Unmarshal(b, &rf) != nil {
			fmt.Println("cannot read replay file", o.Replay, err)
			os.Exit(2)
		}
		var il struct {
			Case struct {
				Interleaved []*Case `json:"interleaved"`
			} `json:"case"`
		}
		if json.Unmarshal(b, &il) == nil && len(il.Case.Interleaved) > 0 {
			for i, c := range il.Case.Interleaved {
				fmt.Printf("reader %d: format=%s xpath=%s text=%q\n", i, c.Format, c.Target.XPath(), c.Text)
			}
			nt := interleave(o, il.Case.Interleaved, r, sum)
			for _, f := range sum.Failures {
				fmt.Println("ORACLE FAILS:", f.What)
			}
			if len(sum.Failures) == 0 {
				fmt.Println("oracle holds: every reader delivers what it delivers alone")
			}
			sum.Count(o.Replay, nt)
			sum.Write(o)
			vh.Done(o)
			return
		}
		var ap struct {
			Case struct {
				API  bool  `json:"api"`
				Case *Case `json:"case"`
			} `json:"case"`
		}
		if json.Unmarshal(b, &ap) == nil && ap.Case.API && ap.Case.Case != nil {
			rf.Case = *ap.Case.Case
			apiEvery = 1 // replay of a public-API failure: run the Transform for this case
		}
		info := runCase(&rf.Case, sum, cw, true)
		for _, f := range sum.Failures {
			if strings.HasPrefix(f.What, "through the public Transform API") {
				fmt.Println("ORACLE FAILS:", f.What)
			}
		}
		sum.Count(o.Replay, info.Nontrivial)
		cw.Flush()
		sum.CaseFiles = cw.Files
		sum.Write(o)
		return
	}

	// ---- corpus first ----
	if o.Corpus != "" {
		files, _ := filepath.Glob(filepath.Join(o.Corpus, "*.json"))
		sort.Strings(files)
		for _, f := range files {
			var cf corpusFile
			b, err := os.ReadFile(f)
			if err != nil || json.Unmarshal(b, &cf) != nil {
				sum.Fail("unreadable corpus file "+filepath.Base(f), nil, fmt.Sprint(err))
				continue
			}
			info := runCase(&cf.Case, sum, cw, false)
			canon, _ := json.Marshal(cf.Case)
			sum.Count(string(canon), info.Nontrivial)
			sum.Hist("corpus")
		}
	}

	total := o.Count(2000, 100000)
	for i := 0; i < total; i++ {
		c, ok := genCase(r)
		if !ok {
			sum.Hist("generator-roundtrip-failed")
			continue
		}
		info := runCase(c, sum, cw, false)
		canon, _ := json.Marshal(c)
		sum.Count(string(canon), info.Nontrivial)
		for _, h := range info.Hist {
			sum.Hist(h)
		}
		if info.Nontrivial {
			sum.Sample(map[string]interface{}{"format": c.Format, "text": c.Text, "xpath": c.Target.XPath()})
		}
	}
	// ---- readers alive at once: same URI under different prefixes, and random pairs/triples ----
	pairs := o.Count(300, 6000)
	for i := 0; i < pairs; i++ {
		var cs []*Case
		if i%2 == 0 {
			cs = nsPair(r)
			sum.Hist("interleaved:same-uri-different-prefixes")
		} else {
			for k, n := 0, r.Between(2, 3); k < n; k++ {
				if c, ok := genCase(r); ok {
					cs = append(cs, c)
				}
			}
			sum.Hist("interleaved:random")
		}
		if len(cs) < 2 {
			continue
		}
		nt := interleave(o, cs, r, sum)
		canon, _ := json.Marshal(cs)
		sum.Count(string(canon), nt)
	}
	cw.Flush()
	sum.CaseFiles = cw.Files
	sum.Write(o)
	vh.Done(o)
}
