package sx

import (
	"encoding/xml"
	"fmt"
	"io"
	"strings"

	"verifharness/vh"
)

// XN is a generated / reconstructed XML node: an element with resolved name or character data.
type XN struct {
	IsText bool
	Text   string
	Local  string
	Prefix string // what the reader stores: XMLSpecific.NamespacePrefix
	URI    string // XMLSpecific.NamespaceURI
	HasFS  bool   // false: XMLSpecific{} (no namespace)
	Attrs  []XA
	Kids   []*XN
}

type XA struct {
	Local, Prefix, URI string
	Value              string
	// how it is written in the document text
	rawName string
}

type XTok struct {
	Kind  int // 0 start 1 end 2 text
	Local string
	Pfx   string
	URI   string
	Attrs []XA
	Text  string
}

func fsCoq(prefix, uri string) string {
	return "(FXml " + vh.CoqHex([]byte(prefix)) + " " + vh.CoqHex([]byte(uri)) + ")"
}

func attrsCoq(as []XA) string {
	var xs []string
	for _, a := range as {
		xs = append(xs, "("+vh.CoqHex([]byte(a.Local))+", "+fsCoq(a.Prefix, a.URI)+", "+vh.CoqHex([]byte(a.Value))+")")
	}
	return vh.CoqList(xs)
}

func (n *XN) coq(sb *strings.Builder) {
	if n.IsText {
		sb.WriteString("XT " + vh.CoqHex([]byte(n.Text)))
		return
	}
	sb.WriteString("XE " + vh.CoqHex([]byte(n.Local)) + " " + fsCoq(n.Prefix, n.URI) + " " + attrsCoq(n.Attrs) + " [")
	for i, k := range n.Kids {
		if i > 0 {
			sb.WriteString("; ")
		}
		k.coq(sb)
	}
	sb.WriteString("]")
}

func XDocCoq(content []*XN) string {
	var sb strings.Builder
	sb.WriteString("[")
	for i, k := range content {
		if i > 0 {
			sb.WriteString("; ")
		}
		k.coq(&sb)
	}
	sb.WriteString("]")
	return sb.String()
}

func XToksCoq(toks []XTok) string {
	var xs []string
	for _, t := range toks {
		switch t.Kind {
		case 0:
			xs = append(xs, "XStart "+vh.CoqHex([]byte(t.Local))+" "+fsCoq(t.Pfx, t.URI)+" "+attrsCoq(t.Attrs))
		case 1:
			xs = append(xs, "XEnd")
		default:
			xs = append(xs, "XText "+vh.CoqHex([]byte(t.Text)))
		}
	}
	return vh.CoqList(xs)
}

// XMLTokens runs an independent xml.Decoder over the text and resolves names the way
// idr/xmlreader.go does (updateNamespaces + the prefix lookup of addNonTextChild).  ok=false
// when the reader would fail (unknown namespace) or the text is not well-formed.
func XMLTokens(text string) (toks []XTok, ok bool) {
	d := xml.NewDecoder(strings.NewReader(text))
	space2prefix := map[string]string{"http://www.w3.org/XML/1998/namespace": "xml"}
	resolve := func(nm xml.Name, attr bool) (string, string, bool) {
		if nm.Space == "" {
			return "", "", true
		}
		if p, found := space2prefix[nm.Space]; found {
			return p, nm.Space, true
		}
		if attr && nm.Space == "xmlns" {
			return "xmlns", "", true
		}
		return "", "", false
	}
	for {
		tok, err := d.Token()
		if err == io.EOF {
			return toks, true
		}
		if err != nil {
			return toks, false
		}
		switch t := tok.(type) {
		case xml.StartElement:
			for _, a := range t.Attr {
				if a.Name.Local == "xmlns" {
					space2prefix[a.Value] = ""
				} else if a.Name.Space == "xmlns" {
					space2prefix[a.Value] = a.Name.Local
				}
			}
			p, u, k := resolve(t.Name, false)
			if !k {
				return toks, false
			}
			xt := XTok{Kind: 0, Local: t.Name.Local, Pfx: p, URI: u}
			for _, a := range t.Attr {
				ap, au, k := resolve(a.Name, true)
				if !k {
					return toks, false
				}
				xt.Attrs = append(xt.Attrs, XA{Local: a.Name.Local, Prefix: ap, URI: au, Value: a.Value})
			}
			toks = append(toks, xt)
		case xml.EndElement:
			toks = append(toks, XTok{Kind: 1})
		case xml.CharData:
			toks = append(toks, XTok{Kind: 2, Text: string(t)})
		}
	}
}

// XMLFromTokens rebuilds the document structure from the token stream.
func XMLFromTokens(toks []XTok) ([]*XN, bool) {
	root := &XN{}
	stack := []*XN{root}
	for _, t := range toks {
		cur := stack[len(stack)-1]
		switch t.Kind {
		case 0:
			n := &XN{Local: t.Local, Prefix: t.Pfx, URI: t.URI, Attrs: t.Attrs}
			cur.Kids = append(cur.Kids, n)
			stack = append(stack, n)
		case 1:
			if len(stack) < 2 {
				return nil, false
			}
			stack = stack[:len(stack)-1]
		default:
			cur.Kids = append(cur.Kids, &XN{IsText: true, Text: t.Text})
		}
	}
	return root.Kids, len(stack) == 1
}

func SameXN(a, b []*XN) bool {
	if len(a) != len(b) {
		return false
	}
	for i := range a {
		x, y := a[i], b[i]
		if x.IsText != y.IsText || x.Text != y.Text || x.Local != y.Local || x.Prefix != y.Prefix || x.URI != y.URI || len(x.Attrs) != len(y.Attrs) {
			return false
		}
		for j := range x.Attrs {
			p, q := x.Attrs[j], y.Attrs[j]
			if p.Local != q.Local || p.Prefix != q.Prefix || p.URI != q.URI || p.Value != q.Value {
				return false
			}
		}
		if !SameXN(x.Kids, y.Kids) {
			return false
		}
	}
	return true
}

// ---- generator -----------------------------------------------------------------------------------

var xmlEsc = strings.NewReplacer("&", "&amp;", "<", "&lt;", ">", "&gt;", `"`, "&quot;")

type xgen struct {
	r      *vh.Rng
	nsMode int // 0 none, 1 prefix declared on the root, 2 default namespace on the root,
	// 3 prefix declared on the root and re-bound (same URI, other prefix) on inner elements
	pfx string // the prefix bound to urn:p in the current scope (modes 1 and 3)
	names  []string
	budget int
}

func (g *xgen) text() string {
	return g.r.PickStr("1", "2", "x", "1", "a b", "\n", "  ", "\n  ", "it's", `say "hi"`, "a]b", "<&>", "héllo", "日本", "[x='1']", "0")
}

func (g *xgen) elem(depth, maxDepth int, top bool) *XN {
	r := g.r
	n := &XN{Local: g.names[r.Pick(len(g.names))]}
	outer := g.pfx
	defer func() { g.pfx = outer }()
	switch g.nsMode {
	case 1:
		if r.Chance(0.4) {
			n.Prefix, n.URI = g.pfx, "urn:p"
		}
	case 2:
		n.Prefix, n.URI = "", "urn:d"
	case 3:
		if !top && r.Chance(0.3) {
			// a declaration on an inner element: the same URI under another prefix (or the same one
			// again), in scope for this element and what is inside it
			np := r.PickStr("p", "i", "q", "inv")
			n.Attrs = append(n.Attrs, XA{Local: np, Prefix: "xmlns", URI: "", Value: "urn:p", rawName: "xmlns:" + np})
			g.pfx = np
			n.Prefix, n.URI = np, "urn:p"
		} else if r.Chance(0.7) {
			n.Prefix, n.URI = g.pfx, "urn:p"
		}
	}
	if top {
		switch g.nsMode {
		case 1, 3:
			n.Attrs = append(n.Attrs, XA{Local: g.pfx, Prefix: "xmlns", URI: "", Value: "urn:p", rawName: "xmlns:" + g.pfx})
		case 2:
			n.Attrs = append(n.Attrs, XA{Local: "xmlns", Value: "urn:d", rawName: "xmlns"})
		}
	}
	for i, k := 0, r.Pick(4)/2; i < k; i++ {
		an := r.PickStr("id", "k", "id", "t")
		dup := false
		for _, a := range n.Attrs {
			if a.rawName == an || strings.HasSuffix(a.rawName, ":"+an) {
				dup = true
			}
		}
		if dup {
			continue
		}
		a := XA{Local: an, Value: g.text(), rawName: an}
		if r.Chance(0.25) {
			a.Value = "" // x="": the attribute node still gets its (empty) text child
		}
		if (g.nsMode == 1 || g.nsMode == 3) && r.Chance(0.2) {
			a.Prefix, a.URI, a.rawName = g.pfx, "urn:p", g.pfx+":"+an
		}
		n.Attrs = append(n.Attrs, a)
	}
	if depth >= maxDepth {
		if r.Chance(0.7) {
			n.Kids = append(n.Kids, &XN{IsText: true, Text: g.text()})
		}
		return n
	}
	nk := r.Between(0, 4)
	if top {
		nk = r.Between(1, 5)
	}
	for i := 0; i < nk && g.budget > 0; i++ {
		g.budget--
		if r.Chance(0.3) {
			n.Kids = append(n.Kids, &XN{IsText: true, Text: g.text()})
		} else {
			n.Kids = append(n.Kids, g.elem(depth+1, maxDepth, false))
		}
	}
	if r.Chance(0.15) {
		for _, k := range n.Kids {
			if it := k.innerText(); !k.IsText && it != "" && !strings.ContainsAny(it, "\n\t") {
				dup := false
				for _, a := range n.Attrs {
					if a.rawName == "ref" {
						dup = true
					}
				}
				if !dup {
					n.Attrs = append(n.Attrs, XA{Local: "ref", Value: it, rawName: "ref"})
				}
				break
			}
		}
	}
	return n
}

func GenXMLDoc(r *vh.Rng) []*XN {
	switch r.Pick(10) {
	case 0, 1:
		return GenXMLDocNS(r, 1, "p")
	case 2:
		return GenXMLDocNS(r, 2, "")
	case 3, 4:
		return GenXMLDocNS(r, 3, r.PickStr("p", "inv"))
	}
	return GenXMLDocNS(r, 0, "")
}

// GenXMLDocNS generates a document in the given namespace mode (see xgen.nsMode); pfx is the prefix
// the root binds to urn:p in modes 1 and 3.
func GenXMLDocNS(r *vh.Rng, mode int, pfx string) []*XN {
	g := &xgen{r: r, budget: r.Between(3, 40), nsMode: mode, pfx: pfx}
	// few names: repeated and nested candidates are the point
	pool := []string{"n", "x", "r", "a", "b", "n", "x"}
	k := r.Between(2, 5)
	for i := 0; i < k; i++ {
		g.names = append(g.names, pool[r.Pick(len(pool))])
	}
	var content []*XN
	if r.Chance(0.3) {
		content = append(content, &XN{IsText: true, Text: "\n"})
	}
	content = append(content, g.elem(1, r.Between(1, 6), true))
	if r.Chance(0.3) {
		content = append(content, &XN{IsText: true, Text: "\n"})
	}
	return content
}

func writeXML(sb *strings.Builder, r *vh.Rng, kids []*XN) {
	prevText := false
	for _, k := range kids {
		if k.IsText {
			if prevText {
				sb.WriteString("<!--c-->") // a comment splits character data into two tokens
			}
			if k.Text == "[x='1']" && r.Chance(0.5) {
				sb.WriteString("<![CDATA[" + k.Text + "]]>")
			} else {
				sb.WriteString(xmlEsc.Replace(k.Text))
			}
			prevText = true
			continue
		}
		prevText = false
		name := k.Local
		if k.Prefix != "" && k.Prefix != "xmlns" {
			name = k.Prefix + ":" + k.Local
		}
		sb.WriteString("<" + name)
		for _, a := range k.Attrs {
			q := `"`
			fmt.Fprintf(sb, " %s=%s%s%s", a.rawName, q, xmlEsc.Replace(a.Value), q)
		}
		if len(k.Kids) == 0 && r.Chance(0.5) {
			sb.WriteString("/>")
			continue
		}
		sb.WriteString(">")
		writeXML(sb, r, k.Kids)
		sb.WriteString("</" + name + ">")
		if r.Chance(0.05) {
			sb.WriteString("<?pi x?>")
		}
	}
}

func XMLText(r *vh.Rng, content []*XN) string {
	var sb strings.Builder
	if r.Chance(0.3) {
		sb.WriteString(`<?xml version="1.0" encoding="UTF-8"?>`)
	}
	writeXML(&sb, r, content)
	return sb.String()
}

func XMLVocab(content []*XN) *Vocab {
	v := &Vocab{}
	seenN := map[NT]bool{}
	seenA := map[[2]string]bool{}
	seenV := map[string]bool{}
	addV := func(s string) {
		if !seenV[s] && !(strings.Contains(s, "'") && strings.Contains(s, `"`)) {
			seenV[s] = true
			v.values = append(v.values, s)
		}
	}
	var walk func(n *XN, chain []NT)
	walk = func(n *XN, chain []NT) {
		if n.IsText {
			addV(n.Text)
			return
		}
		nt := NT{Prefix: n.Prefix, Local: n.Local}
		ch := append(append([]NT(nil), chain...), nt)
		v.paths = append(v.paths, ch)
		v.facts = append(v.facts, xmlFacts(n))
		if !seenN[nt] {
			seenN[nt] = true
			v.names = append(v.names, nt)
		}
		for _, a := range n.Attrs {
			k := [2]string{a.Prefix, a.Local}
			if a.Prefix != "xmlns" && a.Local != "xmlns" && !seenA[k] {
				seenA[k] = true
				v.attrs = append(v.attrs, k)
			}
			addV(a.Value)
		}
		for _, k := range n.Kids {
			walk(k, ch)
		}
	}
	for _, n := range content {
		walk(n, nil)
	}
	return v
}

func okValue(s string) bool { return !(strings.Contains(s, "'") && strings.Contains(s, `"`)) }

func (n *XN) innerText() string {
	if n.IsText {
		return n.Text
	}
	var sb strings.Builder
	for _, k := range n.Kids {
		sb.WriteString(k.innerText())
	}
	return sb.String()
}

// xmlFacts lists atomic predicates of the class that hold of element n.
func xmlFacts(n *XN) []*PExp {
	var fs []*PExp
	for _, a := range n.Attrs {
		if a.Prefix == "xmlns" || a.Local == "xmlns" || !okValue(a.Value) {
			continue
		}
		nm := [2]string{a.Prefix, a.Local}
		fs = append(fs, &PExp{Op: "attreq", Name: &nm, V: a.Value}, &PExp{Op: "hasattr", Name: &nm})
	}
	cnt := map[NT]int{}
	var seen []NT
	for _, k := range n.Kids {
		if k.IsText {
			if okValue(k.Text) {
				fs = append(fs, &PExp{Op: "texteq", V: k.Text})
			}
			continue
		}
		nt := NT{Prefix: k.Prefix, Local: k.Local}
		if cnt[nt] == 0 {
			seen = append(seen, nt)
		}
		cnt[nt]++
		if it := k.innerText(); okValue(it) && cnt[nt] <= 3 {
			fs = append(fs, &PExp{Op: "childposeq", NT: &nt, N: cnt[nt], V: it})
		}
		for _, a := range n.Attrs {
			if a.Prefix != "xmlns" && a.Local != "xmlns" && a.Value == k.innerText() && cnt[nt] == 1 {
				nm := [2]string{a.Prefix, a.Local}
				fs = append(fs, &PExp{Op: "attreqchild", Name: &nm, NT: &nt})
			}
		}
		if it := k.innerText(); okValue(it) {
			fs = append(fs, &PExp{Op: "childeq", NT: &nt, V: it})
		}
		fs = append(fs, &PExp{Op: "haschild", NT: &nt})
	}
	for _, nt := range seen {
		if c := cnt[nt]; c <= 3 {
			nt := nt
			fs = append(fs, &PExp{Op: "count", NT: &nt, N: c})
		}
	}
	if it := n.innerText(); okValue(it) {
		fs = append(fs, &PExp{Op: "selfeq", V: it})
	}
	return fs
}

// Rebinds tells whether a namespace declaration stands on an element other than the top one: the
// prefix the reader stores for a node is then decided by its (document-global, last-wins) map and
// may differ from the prefix written in the text.
func Rebinds(content []*XN) bool {
	var inner func(n *XN, top bool) bool
	inner = func(n *XN, top bool) bool {
		if n.IsText {
			return false
		}
		for _, a := range n.Attrs {
			if !top && (a.Prefix == "xmlns" || a.rawName == "xmlns") {
				return true
			}
		}
		for _, k := range n.Kids {
			if inner(k, false) {
				return true
			}
		}
		return false
	}
	for _, n := range content {
		if inner(n, true) {
			return true
		}
	}
	return false
}
