package sx

import (
	"encoding/json"
	"io"
	"strconv"
	"strings"

	"verifharness/vh"
)

// JTok is one json.Decoder token as the reader sees it (numbers already formatted the way
// addTextChild formats them).
type JTok struct {
	Kind int // 0 { 1 } 2 [ 3 ] 4 string 5 number 6 bool 7 null
	S    string
	B    bool
}

func (t JTok) coq() string {
	switch t.Kind {
	case 0:
		return "JOpenObj"
	case 1:
		return "JCloseObj"
	case 2:
		return "JOpenArr"
	case 3:
		return "JCloseArr"
	case 4:
		return "JStrT " + vh.CoqHex([]byte(t.S))
	case 5:
		return "JNumT " + vh.CoqHex([]byte(t.S))
	case 6:
		return "JBoolT " + vh.CoqBool(t.B)
	}
	return "JNullT"
}

// JN is a JSON value with the key it has in its parent object ("" elsewhere).
type JN struct {
	Kind    byte // 's' scalar, 'o' object, 'a' array
	Key     string
	Tok     JTok   // scalars
	Lit     string // scalars: the literal written into the text
	Members []*JN
}

func (n *JN) Coq(sb *strings.Builder) {
	k := vh.CoqHex([]byte(n.Key))
	switch n.Kind {
	case 's':
		sb.WriteString("JS " + k + " (" + n.Tok.coq() + ")")
		return
	case 'o':
		sb.WriteString("JO " + k + " [")
	default:
		sb.WriteString("JA " + k + " [")
	}
	for i, m := range n.Members {
		if i > 0 {
			sb.WriteString("; ")
		}
		m.Coq(sb)
	}
	sb.WriteString("]")
}

func JToksCoq(toks []JTok) string {
	var xs []string
	for _, t := range toks {
		xs = append(xs, t.coq())
	}
	return vh.CoqList(xs)
}

// JSONTokens runs an independent json.Decoder over the text.  ok=false on a syntax error.
func JSONTokens(text string) (toks []JTok, ok bool) {
	d := json.NewDecoder(strings.NewReader(text))
	for {
		tok, err := d.Token()
		if err == io.EOF {
			return toks, true
		}
		if err != nil {
			return toks, false
		}
		switch v := tok.(type) {
		case json.Delim:
			toks = append(toks, JTok{Kind: strings.IndexRune("{}[]", rune(v))})
		case string:
			toks = append(toks, JTok{Kind: 4, S: v})
		case float64:
			toks = append(toks, JTok{Kind: 5, S: strconv.FormatFloat(v, 'f', -1, 64)})
		case bool:
			toks = append(toks, JTok{Kind: 6, B: v})
		case nil:
			toks = append(toks, JTok{Kind: 7})
		}
	}
}

// JSONFromTokens rebuilds the (single) top-level value from the token stream.
func JSONFromTokens(toks []JTok) (*JN, bool) {
	pos := 0
	var val func(key string) *JN
	val = func(key string) *JN {
		if pos >= len(toks) {
			return nil
		}
		t := toks[pos]
		pos++
		switch t.Kind {
		case 0:
			n := &JN{Kind: 'o', Key: key}
			for pos < len(toks) && toks[pos].Kind != 1 {
				if toks[pos].Kind != 4 {
					return nil
				}
				k := toks[pos].S
				pos++
				m := val(k)
				if m == nil {
					return nil
				}
				n.Members = append(n.Members, m)
			}
			pos++
			return n
		case 2:
			n := &JN{Kind: 'a', Key: key}
			for pos < len(toks) && toks[pos].Kind != 3 {
				m := val("")
				if m == nil {
					return nil
				}
				n.Members = append(n.Members, m)
			}
			pos++
			return n
		case 1, 3:
			return nil
		}
		return &JN{Kind: 's', Key: key, Tok: t}
	}
	n := val("")
	return n, n != nil && pos == len(toks)
}

func SameJN(a, b *JN) bool {
	if a.Kind != b.Kind || a.Key != b.Key || len(a.Members) != len(b.Members) {
		return false
	}
	if a.Kind == 's' && a.Tok != b.Tok {
		return false
	}
	for i := range a.Members {
		if !SameJN(a.Members[i], b.Members[i]) {
			return false
		}
	}
	return true
}

// ---- generator -----------------------------------------------------------------------------------

type jgen struct {
	r      *vh.Rng
	keys   []string
	budget int
}

func (g *jgen) scalar(key string) *JN {
	r := g.r
	n := &JN{Kind: 's', Key: key}
	switch r.Pick(8) {
	case 0, 1, 2:
		s := r.PickStr("1", "x", "a b", "", "it's", `say "hi"`, "a]b", "héllo", "日本", "[x='1']", "true", "\n")
		b, _ := json.Marshal(s)
		n.Lit = string(b)
		if s == "héllo" && r.Chance(0.5) {
			n.Lit = `"héllo"`
		}
		n.Tok = JTok{Kind: 4, S: s}
	case 3, 4, 5:
		n.Lit = r.PickStr("1", "2", "0", "-3", "3.5", "1e3", "1.0", "1E-2", "100000000000000000000", "0.000001", "1")
		f, _ := strconv.ParseFloat(n.Lit, 64)
		n.Tok = JTok{Kind: 5, S: strconv.FormatFloat(f, 'f', -1, 64)}
	case 6:
		b := r.Chance(0.5)
		n.Lit = strconv.FormatBool(b)
		n.Tok = JTok{Kind: 6, B: b}
	default:
		n.Lit = "null"
		n.Tok = JTok{Kind: 7}
	}
	return n
}

func (g *jgen) value(key string, depth, maxDepth int) *JN {
	r := g.r
	if depth >= maxDepth || g.budget <= 0 || r.Chance(0.35) {
		return g.scalar(key)
	}
	n := &JN{Key: key}
	k := r.Between(0, 4)
	if r.Chance(0.55) {
		n.Kind = 'o'
		for i := 0; i < k; i++ {
			g.budget--
			n.Members = append(n.Members, g.value(g.keys[r.Pick(len(g.keys))], depth+1, maxDepth))
		}
	} else {
		n.Kind = 'a'
		for i := 0; i < k; i++ {
			g.budget--
			n.Members = append(n.Members, g.value("", depth+1, maxDepth))
		}
	}
	return n
}

func GenJSONDoc(r *vh.Rng) *JN {
	g := &jgen{r: r, budget: r.Between(2, 40)}
	pool := []string{"n", "x", "r", "a", "b", "n", "x", "a b", ""}
	for i, k := 0, r.Between(2, 5); i < k; i++ {
		g.keys = append(g.keys, pool[r.Pick(len(pool))])
	}
	if r.Chance(0.06) {
		return g.scalar("")
	}
	d := g.value("", 0, r.Between(1, 6))
	return d
}

func writeJSON(sb *strings.Builder, r *vh.Rng, n *JN) {
	ws := func() {
		if r.Chance(0.15) {
			sb.WriteString(r.PickStr(" ", "\n", "\n  ", "\t"))
		}
	}
	switch n.Kind {
	case 's':
		sb.WriteString(n.Lit)
	case 'o':
		sb.WriteString("{")
		for i, m := range n.Members {
			if i > 0 {
				sb.WriteString(",")
			}
			ws()
			k, _ := json.Marshal(m.Key)
			sb.Write(k)
			ws()
			sb.WriteString(":")
			ws()
			writeJSON(sb, r, m)
		}
		ws()
		sb.WriteString("}")
	default:
		sb.WriteString("[")
		for i, m := range n.Members {
			if i > 0 {
				sb.WriteString(",")
			}
			ws()
			writeJSON(sb, r, m)
		}
		ws()
		sb.WriteString("]")
	}
}

func JSONText(r *vh.Rng, n *JN) string {
	var sb strings.Builder
	if r.Chance(0.1) {
		sb.WriteString("\n")
	}
	writeJSON(&sb, r, n)
	if r.Chance(0.2) {
		sb.WriteString("\n")
	}
	return sb.String()
}

func isXPathName(s string) bool {
	if s == "" {
		return false
	}
	for _, c := range s {
		if !(c >= 'a' && c <= 'z' || c >= 'A' && c <= 'Z' || c == '_') {
			return false
		}
	}
	return true
}

func JSONVocab(d *JN) *Vocab {
	v := &Vocab{}
	seenN := map[NT]bool{}
	seenV := map[string]bool{}
	var walk func(n *JN, chain []NT, keyed bool)
	walk = func(n *JN, chain []NT, keyed bool) {
		for _, m := range n.Members {
			nt := NT{Any: true}
			if n.Kind == 'o' && isXPathName(m.Key) {
				nt = NT{Local: m.Key}
				if !seenN[nt] {
					seenN[nt] = true
					v.names = append(v.names, nt)
				}
			}
			ch := append(append([]NT(nil), chain...), nt)
			v.paths = append(v.paths, ch)
			v.facts = append(v.facts, jsonFacts(m))
			if m.Kind == 's' {
				s := m.Tok.S
				if m.Tok.Kind == 6 {
					s = strconv.FormatBool(m.Tok.B)
				}
				if !seenV[s] && !(strings.Contains(s, "'") && strings.Contains(s, `"`)) {
					seenV[s] = true
					v.values = append(v.values, s)
				}
			}
			walk(m, ch, n.Kind == 'o')
		}
	}
	walk(d, nil, false)
	return v
}

func (n *JN) innerText() string {
	if n.Kind == 's' {
		if n.Tok.Kind == 6 {
			return strconv.FormatBool(n.Tok.B)
		}
		return n.Tok.S
	}
	var sb strings.Builder
	for _, m := range n.Members {
		sb.WriteString(m.innerText())
	}
	return sb.String()
}

// jsonFacts lists atomic predicates of the class that hold of value n.
func jsonFacts(n *JN) []*PExp {
	var fs []*PExp
	if it := n.innerText(); okValue(it) {
		fs = append(fs, &PExp{Op: "selfeq", V: it})
	}
	if n.Kind == 's' {
		if it := n.innerText(); okValue(it) {
			fs = append(fs, &PExp{Op: "texteq", V: it})
		}
		return fs
	}
	if len(n.Members) <= 3 {
		any := NT{Any: true}
		fs = append(fs, &PExp{Op: "count", NT: &any, N: len(n.Members)})
	}
	for i, m := range n.Members {
		if it := m.innerText(); i < 3 && okValue(it) {
			any := NT{Any: true}
			fs = append(fs, &PExp{Op: "childposeq", NT: &any, N: i + 1, V: it})
		}
		nt := NT{Any: true}
		if n.Kind == 'o' && isXPathName(m.Key) {
			nt = NT{Local: m.Key}
		}
		if it := m.innerText(); okValue(it) {
			fs = append(fs, &PExp{Op: "childeq", NT: &nt, V: it})
		}
		fs = append(fs, &PExp{Op: "haschild", NT: &nt})
	}
	return fs
}
