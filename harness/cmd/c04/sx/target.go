package sx

import (
	"fmt"
	"strings"

	"verifharness/vh"
)

// Targets of the property's class: a path part (child / descendant steps with name tests) and
// 0..n predicates on the last step that look only at the candidate itself.  The same structure
// is rendered as xpath text (for the implementation) and as a Coq term (for the model).

type NT struct {
	Any    bool   `json:"any,omitempty"`
	Prefix string `json:"prefix,omitempty"`
	Local  string `json:"local,omitempty"`
}

type Step struct {
	Desc bool `json:"desc,omitempty"`
	NT   NT   `json:"nt"`
}

type PExp struct {
	Op   string     `json:"op"` // childeq attreq selfeq texteq desceq haschild hasattr childpred attreqchild childposeq count and or not
	N    int        `json:"n,omitempty"` // childposeq: position (1..4); count: number (0..4)
	NT   *NT        `json:"nt,omitempty"`
	Name *[2]string `json:"name,omitempty"` // prefix, local (attribute tests)
	V    string     `json:"v,omitempty"`
	P    *PExp      `json:"p,omitempty"`
	Q    *PExp      `json:"q,omitempty"`
}

type Target struct {
	Steps   []Step  `json:"steps"`
	Filters []*PExp `json:"filters"`
	// Alts are further union branches written BEFORE the main path: "alt1 | alt2 | main[filters]"
	Alts [][]Step `json:"alts,omitempty"`
}

func (n NT) xpath() string {
	if n.Any {
		return "*"
	}
	if n.Prefix != "" {
		return n.Prefix + ":" + n.Local
	}
	return n.Local
}

func (n NT) coq() string {
	if n.Any {
		return "NTAny"
	}
	return "(NTName " + vh.CoqHex([]byte(n.Prefix)) + " " + vh.CoqHex([]byte(n.Local)) + ")"
}

func nameXPath(n *[2]string) string {
	if n[0] != "" {
		return n[0] + ":" + n[1]
	}
	return n[1]
}

func nameCoq(n *[2]string) string {
	return "(" + vh.CoqHex([]byte(n[0])) + ", " + vh.CoqHex([]byte(n[1])) + ")"
}

func quote(v string) string {
	if strings.Contains(v, "'") {
		return `"` + v + `"`
	}
	return "'" + v + "'"
}

func (p *PExp) xpath() string {
	switch p.Op {
	case "childeq":
		return p.NT.xpath() + "=" + quote(p.V)
	case "attreq":
		return "@" + nameXPath(p.Name) + "=" + quote(p.V)
	case "selfeq":
		return ".=" + quote(p.V)
	case "texteq":
		return "text()=" + quote(p.V)
	case "desceq":
		return ".//" + p.NT.xpath() + "=" + quote(p.V)
	case "haschild":
		return p.NT.xpath()
	case "hasattr":
		return "@" + nameXPath(p.Name)
	case "childpred":
		return p.NT.xpath() + "[" + p.P.xpath() + "]"
	case "attreqchild":
		return "@" + nameXPath(p.Name) + "=" + p.NT.xpath()
	case "childposeq":
		return p.NT.xpath() + "[" + fmt.Sprint(p.N) + "]=" + quote(p.V)
	case "count":
		return "count(" + p.NT.xpath() + ")=" + fmt.Sprint(p.N)
	case "and":
		return p.P.operand() + " and " + p.Q.operand()
	case "or":
		return p.P.operand() + " or " + p.Q.operand()
	case "not":
		return "not(" + p.P.xpath() + ")"
	}
	panic("bad pexp op " + p.Op)
}

// operand renders an operand of and/or: parenthesised only when it is and/or itself, so that a
// predicate can begin with an attribute test ([@type='web' and status='ok']).
func (p *PExp) operand() string {
	if p.Op == "and" || p.Op == "or" {
		return "(" + p.xpath() + ")"
	}
	return p.xpath()
}

func (p *PExp) coq() string {
	v := vh.CoqHex([]byte(p.V))
	switch p.Op {
	case "childeq":
		return "(PChildEq " + p.NT.coq() + " " + v + ")"
	case "attreq":
		return "(PAttrEq " + nameCoq(p.Name) + " " + v + ")"
	case "selfeq":
		return "(PSelfEq " + v + ")"
	case "texteq":
		return "(PTextEq " + v + ")"
	case "desceq":
		return "(PDescEq " + p.NT.coq() + " " + v + ")"
	case "haschild":
		return "(PHasChild " + p.NT.coq() + ")"
	case "hasattr":
		return "(PHasAttr " + nameCoq(p.Name) + ")"
	case "childpred":
		return "(PChildPred " + p.NT.coq() + " " + p.P.coq() + ")"
	case "attreqchild":
		return "(PAttrEqChild " + nameCoq(p.Name) + " " + p.NT.coq() + ")"
	case "childposeq":
		return "(PChildPosEq " + p.NT.coq() + " " + vh.CoqNat(p.N) + " " + v + ")"
	case "count":
		return "(PCount " + p.NT.coq() + " " + vh.CoqNat(p.N) + ")"
	case "and":
		return "(PAnd " + p.P.coq() + " " + p.Q.coq() + ")"
	case "or":
		return "(POr " + p.P.coq() + " " + p.Q.coq() + ")"
	case "not":
		return "(PNot " + p.P.coq() + ")"
	}
	panic("bad pexp op " + p.Op)
}

func (p *PExp) hasChildPred() bool {
	if p == nil {
		return false
	}
	return p.Op == "childpred" || p.Op == "childposeq" || p.P.hasChildPred() || p.Q.hasChildPred()
}

func (p *PExp) kinds(acc map[string]bool) {
	acc[p.Op] = true
	if p.P != nil {
		p.P.kinds(acc)
	}
	if p.Q != nil {
		p.Q.kinds(acc)
	}
}

func stepsXPath(steps []Step) string {
	var sb strings.Builder
	for _, s := range steps {
		if s.Desc {
			sb.WriteString("//")
		} else {
			sb.WriteString("/")
		}
		sb.WriteString(s.NT.xpath())
	}
	return sb.String()
}

func (t Target) altsXPath() string {
	var sb strings.Builder
	for _, a := range t.Alts {
		sb.WriteString(stepsXPath(a) + " | ")
	}
	return sb.String()
}

// AltsCoq prints the union branches as a Coq list of step lists.
func (t Target) AltsCoq() string {
	var as []string
	for _, a := range t.Alts {
		var st []string
		for _, s := range a {
			ax := "Child"
			if s.Desc {
				ax = "Desc"
			}
			st = append(st, "("+ax+", "+s.NT.coq()+")")
		}
		as = append(as, vh.CoqList(st))
	}
	return vh.CoqList(as)
}

// InModelClass: a union with trailing filters has a final predicate that depends on the branch;
// the class of the theorems (one predicate for all candidates) does not cover it.
func (t Target) InModelClass() bool { return len(t.Alts) == 0 || len(t.Filters) == 0 }

// NoFilter is the path part as xpath text.
func (t Target) NoFilter() string {
	if len(t.Steps) == 0 {
		return "."
	}
	var sb strings.Builder
	sb.WriteString(t.altsXPath())
	for _, s := range t.Steps {
		if s.Desc {
			sb.WriteString("//")
		} else {
			sb.WriteString("/")
		}
		sb.WriteString(s.NT.xpath())
	}
	return sb.String()
}

func (t Target) XPath() string {
	s := t.NoFilter()
	for _, f := range t.Filters {
		s += "[" + f.xpath() + "]"
	}
	return s
}

func (t Target) Coq() string {
	var st, fs []string
	for _, s := range t.Steps {
		ax := "Child"
		if s.Desc {
			ax = "Desc"
		}
		st = append(st, "("+ax+", "+s.NT.coq()+")")
	}
	for _, f := range t.Filters {
		fs = append(fs, f.coq())
	}
	return "(mkTarget " + vh.CoqList(st) + " " + vh.CoqList(fs) + ")"
}

// ---- generation ---------------------------------------------------------------------------------

// vocab is what a document offers to aim targets at.
type Vocab struct {
	paths  [][]NT      // name chains of all elements (root..node)
	facts  [][]*PExp   // per path: atomic predicates that hold of that element
	names  []NT        // element names seen
	attrs  [][2]string // attribute names seen
	values []string    // text / attribute / scalar values seen
}

func (v *Vocab) name(r *vh.Rng) NT {
	if len(v.names) == 0 || r.Chance(0.1) {
		return NT{Local: r.PickStr("n", "x", "zz")}
	}
	if r.Chance(0.15) {
		return NT{Any: true}
	}
	return v.names[r.Pick(len(v.names))]
}

func (v *Vocab) value(r *vh.Rng) string {
	if len(v.values) == 0 || r.Chance(0.15) {
		return r.PickStr("1", "", "no such", "a]b", "it's", `say "hi"`, "[x='1']")
	}
	return v.values[r.Pick(len(v.values))]
}

func genPExp(r *vh.Rng, v *Vocab, depth int) *PExp {
	k := r.Pick(16)
	if depth >= 2 && k >= 7 && k < 13 {
		k = r.Pick(7)
	}
	nt := v.name(r)
	var an [2]string
	if len(v.attrs) > 0 && !r.Chance(0.1) {
		an = v.attrs[r.Pick(len(v.attrs))]
	} else {
		an = [2]string{"", r.PickStr("id", "k")}
	}
	switch k {
	case 0, 1:
		return &PExp{Op: "childeq", NT: &nt, V: v.value(r)}
	case 2:
		return &PExp{Op: "attreq", Name: &an, V: v.value(r)}
	case 3:
		return &PExp{Op: "selfeq", V: v.value(r)}
	case 4:
		return &PExp{Op: "texteq", V: v.value(r)}
	case 5:
		return &PExp{Op: "desceq", NT: &nt, V: v.value(r)}
	case 6:
		if r.Chance(0.5) {
			return &PExp{Op: "haschild", NT: &nt}
		}
		return &PExp{Op: "hasattr", Name: &an}
	case 7, 8:
		return &PExp{Op: "childpred", NT: &nt, P: genPExp(r, v, depth+1)}
	case 9, 10:
		// antchfx/xpath v1.1.11 evaluates `(x[p]) and (z)` / `(x[p]) or (z)` wrongly when the LEFT
		// operand contains a filtered step (the right operand is then evaluated on a moved
		// context); that is the engine's business (C11), so the class generated here keeps
		// filtered steps out of left operands.
		op := "and"
		if k == 10 {
			op = "or"
		}
		a, b := genPExp(r, v, depth+1), genPExp(r, v, depth+1)
		if a.hasChildPred() {
			a, b = b, a
		}
		for a.hasChildPred() {
			a = genPExp(r, v, 2)
		}
		return &PExp{Op: op, P: a, Q: b}
	case 13:
		return &PExp{Op: "attreqchild", Name: &an, NT: &nt}
	case 14:
		return &PExp{Op: "childposeq", NT: &nt, N: r.Between(1, 3), V: v.value(r)}
	case 15:
		return &PExp{Op: "count", NT: &nt, N: r.Between(0, 3)}
	default:
		return &PExp{Op: "not", P: genPExp(r, v, depth+1)}
	}
}

// falsify turns an atomic fact into a predicate of the same kind that (most likely) does not hold.
func falsify(r *vh.Rng, f *PExp) *PExp {
	g := *f
	switch f.Op {
	case "childeq", "attreq", "selfeq", "texteq", "desceq", "childposeq":
		g.V = f.V + r.PickStr("~", "0", " x")
	case "count":
		g.N = f.N + 1
	case "haschild":
		n := NT{Local: "zz"}
		g.NT = &n
	case "hasattr":
		n := [2]string{"", "zz"}
		g.Name = &n
	default:
		return &PExp{Op: "not", P: f}
	}
	return &g
}

func isAttrAtom(p *PExp) bool { return p.Op == "attreq" || p.Op == "hasattr" || p.Op == "attreqchild" }

// mixedPExp builds ONE predicate that begins with an attribute test and goes on to inspect the
// element's content: @a='..' and x='..', @a or not(x), @ref=total and count(x)=2, ... with the
// attribute part and the content part independently true or false of the element aimed at.
func mixedPExp(r *vh.Rng, v *Vocab, facts []*PExp) *PExp {
	var attrs, content []*PExp
	for _, f := range facts {
		if isAttrAtom(f) {
			attrs = append(attrs, f)
		} else {
			content = append(content, f)
		}
	}
	pick := func(fs []*PExp, attr bool) *PExp {
		var a *PExp
		if len(fs) > 0 && !r.Chance(0.1) {
			a = fs[r.Pick(len(fs))]
		} else if attr {
			n := [2]string{"", r.PickStr("id", "k", "t")}
			a = &PExp{Op: "hasattr", Name: &n}
		} else {
			nt := v.name(r)
			a = &PExp{Op: "haschild", NT: &nt}
		}
		if r.Chance(0.4) {
			a = falsify(r, a)
		}
		return a
	}
	a, b := pick(attrs, true), pick(content, false)
	if r.Chance(0.2) {
		b = &PExp{Op: "not", P: b}
	}
	op := r.PickStr("and", "or", "and")
	p := &PExp{Op: op, P: a, Q: b}
	if r.Chance(0.25) { // a third operand: @a and b and c, @a or (b and c)
		c := pick(content, false)
		if r.Chance(0.5) && !b.hasChildPred() {
			p = &PExp{Op: r.PickStr("and", "or"), P: p, Q: c}
		} else {
			p = &PExp{Op: op, P: a, Q: &PExp{Op: r.PickStr("and", "or"), P: pick(attrs, true), Q: c}}
		}
	}
	return p
}

// GenTarget aims at an existing element most of the time: its absolute path with some steps
// turned into wildcards or collapsed into "//".
func GenTarget(r *vh.Rng, v *Vocab, maxFilters int, allowRoot bool) Target {
	var t Target
	if allowRoot && r.Chance(0.04) {
		return t // "."
	}
	var facts []*PExp
	var deep []int
	for i, p := range v.paths {
		plain := len(p) >= 3
		for _, n := range p {
			if n.Any || n.Prefix != "" {
				plain = false
			}
		}
		if plain {
			deep = append(deep, i)
		}
	}
	if len(deep) > 0 && r.Chance(0.12) {
		// a plain absolute path of three or more name steps (no wildcard, no "//"), the usual way a
		// record is addressed; with few element names the targets sit under several parents
		pi := deep[r.Pick(len(deep))]
		for _, n := range v.paths[pi] {
			t.Steps = append(t.Steps, Step{NT: n})
		}
		if pi < len(v.facts) {
			facts = v.facts[pi]
		}
		if r.Chance(0.6) {
			maxFilters = 0
		} else if maxFilters > 1 {
			maxFilters = 1
		}
	} else if len(v.paths) > 0 && !r.Chance(0.1) {
		pi := r.Pick(len(v.paths))
		p := v.paths[pi]
		if pi < len(v.facts) {
			facts = v.facts[pi]
		}
		desc := false
		for i, n := range p {
			last := i == len(p)-1
			if !last && r.Chance(0.25) {
				desc = true // drop this step, the next one becomes "//"
				continue
			}
			if i == 0 && len(p) > 1 && r.Chance(0.1) {
				desc = true
			}
			st := Step{Desc: desc, NT: n}
			desc = false
			if r.Chance(0.15) {
				st.NT = NT{Any: true}
			}
			t.Steps = append(t.Steps, st)
		}
		if r.Chance(0.1) && len(t.Steps) > 0 {
			t.Steps[0].Desc = true
		}
	} else {
		for i, k := 0, r.Between(1, 3); i < k; i++ {
			t.Steps = append(t.Steps, Step{Desc: r.Chance(0.3), NT: v.name(r)})
		}
	}
	if len(t.Steps) > 0 && len(v.paths) > 0 && r.Chance(0.15) {
		// a union: one or two further branches aimed at other elements of the document
		for i, n := 0, r.Between(1, 2); i < n; i++ {
			p := v.paths[r.Pick(len(v.paths))]
			var alt []Step
			if r.Chance(0.3) {
				alt = []Step{{Desc: true, NT: p[len(p)-1]}}
			} else {
				for _, n := range p {
					alt = append(alt, Step{NT: n})
				}
			}
			t.Alts = append(t.Alts, alt)
		}
	}
	if len(t.Alts) > 0 && r.Chance(0.5) {
		maxFilters = 0 // a plain union: inside the class of the theorems
	}
	nf := 0
	if maxFilters > 0 && r.Chance(0.6) {
		nf = r.Between(1, maxFilters)
	}
	for i := 0; i < nf; i++ {
		// most of the time a predicate that holds of the element aimed at, so that siblings
		// with the same path are told apart by it (rejected and accepted candidates mix)
		if r.Chance(0.3) {
			t.Filters = append(t.Filters, mixedPExp(r, v, facts))
			continue
		}
		if len(facts) > 0 && r.Chance(0.6) {
			f := facts[r.Pick(len(facts))]
			if r.Chance(0.2) {
				if f.hasChildPred() { // no filtered step in a left operand (engine, see genPExp)
					g := genPExp(r, v, 2)
					for g.hasChildPred() {
						g = genPExp(r, v, 2)
					}
					f = &PExp{Op: "and", P: g, Q: f}
				} else {
					f = &PExp{Op: "and", P: f, Q: genPExp(r, v, 1)}
				}
			} else if r.Chance(0.1) {
				f = &PExp{Op: "not", P: &PExp{Op: "not", P: f}}
			}
			t.Filters = append(t.Filters, f)
			continue
		}
		t.Filters = append(t.Filters, genPExp(r, v, 0))
	}
	return t
}

func (t Target) Classify() []string {
	var ks []string
	if len(t.Steps) == 0 {
		ks = append(ks, "target:root")
	}
	for _, s := range t.Steps {
		if s.Desc {
			ks = append(ks, "target:has-//")
			break
		}
	}
	for _, s := range t.Steps {
		if s.NT.Any {
			ks = append(ks, "target:has-*")
			break
		}
	}
	if len(t.Steps) >= 3 && len(t.Alts) == 0 {
		plain := true
		for _, s := range t.Steps {
			if s.Desc || s.NT.Any {
				plain = false
			}
		}
		if plain {
			ks = append(ks, "target:plain-path-of-3+-steps")
		}
	}
	ks = append(ks, "target:filters="+string(rune('0'+len(t.Filters))))
	if len(t.Alts) > 0 {
		ks = append(ks, "target:union")
		if len(t.Filters) > 0 {
			ks = append(ks, "target:union-with-trailing-filter(implementation-side only)")
		}
	}
	acc := map[string]bool{}
	for _, f := range t.Filters {
		f.kinds(acc)
	}
	for k := range acc {
		ks = append(ks, "pred:"+k)
	}
	return ks
}
