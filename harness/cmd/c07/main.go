// c07: correspondence + oracle harness for property C07 (EDI segments are tokenized exactly at
// unescaped delimiters).
//
// Two streams of cases, one PRNG:
//   - "ok" cases: a delimiter configuration inside the round-trip domain (see gen.go), logical
//     segments (elements x repetitions x components of arbitrary bytes), encoded by the
//     generator's inverse.  Oracle on the implementation: edi.NewNonValidatingReader returns
//     exactly the logical (ElemIndex, CompIndex, data), unescaping gives the data back, and the
//     full reader (edi.NewReader over one segment declaration with element declarations) builds
//     element nodes with the logical values / defaults / a fatal error as declared.
//   - "wild" cases: any configuration (overlapping delimiters, delimiter containing the release
//     character ...) over byte soup; no oracle, only model vs implementation.
// Every case is also written as a Coq term (Model.Edi.ecase) with the observed results.
package main

import (
	"bytes"
	"encoding/hex"
	"encoding/json"
	"fmt"
	"io"
	"os"
	"path/filepath"
	"sort"
	"strings"
	"testing/iotest"
	"time"

	"github.com/jf-tech/go-corelib/strs"
	"github.com/jf-tech/omniparser/extensions/omniv21/fileformat/edi"
	"github.com/jf-tech/omniparser/idr"

	"verifharness/vh"
)

// ---- replayable case description ---------------------------------------------------------------

type cfgJ struct {
	Seg        string  `json:"seg"` // hex
	Elem       string  `json:"elem"`
	Comp       *string `json:"comp"`
	Rep        *string `json:"rep"`
	Rel        *string `json:"rel"`
	IgnoreCRLF bool    `json:"ignore_crlf"`
}

type declJ struct {
	Index          int     `json:"index"`
	Comp           *int    `json:"comp"`
	EmptyIfMissing bool    `json:"empty_if_missing"`
	Default        *string `json:"default"` // hex
}

type lsegJ struct {
	Blanks []bool       `json:"blanks"`
	CR     bool         `json:"cr"`
	Elems  [][][]string `json:"elems"` // hex
}

type fullJ struct {
	Name  string  `json:"name"` // hex: the declared segment name (raw form)
	Decls []declJ `json:"decls"`
}

type sessionJ struct {
	Prelude *caseJ   `json:"prelude,omitempty"` // a case run alone, to io.EOF, before
	Others  []*caseJ `json:"others,omitempty"`  // cases whose readers are alive at the same time, taking turns
}

type caseJ struct {
	Mode     string  `json:"mode"`
	Cfg      cfgJ    `json:"cfg"`
	InputHex string  `json:"input_hex"`
	Reader   string  `json:"reader"` // full | half | one
	Logical  []lsegJ `json:"logical"`
	// InModel: the configuration satisfies the side condition of edi_roundtrip (all 'ok' cases now
	// that the model's encoder is rune-wise), so the Coq model's edi_encode must reproduce the input
	// from the logical segments and exp_seg / exp_full the observed results
	// DeclMode: how the FileDecl handed to the readers comes about: "" a fresh value, "mutate" the
	// harness-wide value changed in place, "copy" a copy of it changed
	DeclMode string `json:"decl_mode,omitempty"`
	// ReadsAfterEOF: further NonValidatingReader.Read calls issued after io.EOF (each must be io.EOF)
	ReadsAfterEOF int `json:"reads_after_eof,omitempty"`
	// Session: what ran before / together with this case when it was observed (replayed as such)
	Session *sessionJ `json:"session,omitempty"`
	InModel bool      `json:"in_model"`
	ASCII   bool   `json:"ascii_heads"`
	Full    *fullJ `json:"full"`
}

func hx(b []byte) string { return hex.EncodeToString(b) }
func unhx(s string) []byte {
	b, err := hex.DecodeString(s)
	if err != nil {
		panic(err)
	}
	return b
}
func unhxp(s *string) []byte {
	if s == nil {
		return nil
	}
	return unhx(*s)
}
func hxp(b []byte, present bool) *string {
	if !present {
		return nil
	}
	s := hx(b)
	return &s
}

// ---- running the implementation ------------------------------------------------------------------

type rawElemObs struct {
	EI, CI int
	Data   []byte
}
type segObs struct {
	Err   bool
	Name  []byte
	Elems []rawElemObs
}
type kidObs struct {
	K    int
	Text []byte
}
type readObs struct {
	Fatal bool
	Kids  []kidObs
}
type observed struct {
	Raw      []segObs
	Full     []readObs
	Fatal    []string // class of every fatal error returned: RcFatal (ErrInvalidEDI) or RcPlain
	Problems []string // things no model outcome stands for: panics, hangs, foreign error types
}

// sharedDecl is one FileDecl value the harness keeps across cases: cases with DeclMode "mutate"
// change its delimiters in place and hand it to the readers again, cases with DeclMode "copy" copy
// it as a template and change the copy (both are uses of the edi package's public API; a reader
// must tokenize with what the FileDecl it was given says at that moment).
var sharedDecl edi.FileDecl

func (c *caseJ) fileDecl() *edi.FileDecl {
	var d *edi.FileDecl
	switch c.DeclMode {
	case "mutate":
		d = &sharedDecl
	case "copy":
		cp := sharedDecl
		d = &cp
	default:
		d = &edi.FileDecl{}
	}
	d.SegDelim, d.ElemDelim, d.IgnoreCRLF = string(unhx(c.Cfg.Seg)), string(unhx(c.Cfg.Elem)), c.Cfg.IgnoreCRLF
	d.CompDelim, d.RepDelim, d.ReleaseChar, d.SegDecls = nil, nil, nil, nil
	if c.Cfg.Comp != nil {
		s := string(unhx(*c.Cfg.Comp))
		d.CompDelim = &s
	}
	if c.Cfg.Rep != nil {
		s := string(unhx(*c.Cfg.Rep))
		d.RepDelim = &s
	}
	if c.Cfg.Rel != nil {
		s := string(unhx(*c.Cfg.Rel))
		d.ReleaseChar = &s
	}
	return d
}

func (c *caseJ) reader() io.Reader {
	var r io.Reader = bytes.NewReader(unhx(c.InputHex))
	switch c.Reader {
	case "half":
		r = iotest.HalfReader(r)
	case "one":
		r = iotest.OneByteReader(r)
	case "dataerr":
		// the final bytes arrive together with io.EOF (allowed by the io.Reader contract)
		r = iotest.DataErrReader(r)
	}
	return r
}

func guarded(what string, o *observed, f func()) {
	done := make(chan struct{})
	go func() {
		defer close(done)
		defer func() {
			if x := recover(); x != nil {
				o.Problems = append(o.Problems, fmt.Sprintf("%s panicked: %v", what, x))
			}
		}()
		f()
	}()
	select {
	case <-done:
	case <-time.After(20 * time.Second):
		o.Problems = append(o.Problems, what+" did not return within 20s")
	}
}

// A stepper drives one reader one Read at a time, so that several readers can be alive at once
// and take turns.  step reports whether the reader is finished.
type stepper interface{ step() bool }

type nvStepper struct {
	o          *observed
	rd         *edi.NonValidatingReader
	n, limit   int
	afterEOF   int // Reads still to be issued after io.EOF: each must return io.EOF again
	reachedEOF bool
}

func newNVStepper(c *caseJ, o *observed, extra int) *nvStepper {
	return &nvStepper{o: o, rd: edi.NewNonValidatingReader(c.reader(), c.fileDecl()), limit: len(c.InputHex)/2 + 5, afterEOF: extra}
}

func (s *nvStepper) step() bool {
	o := s.o
	seg, err := s.rd.Read()
	if s.reachedEOF {
		if err != io.EOF {
			o.Problems = append(o.Problems, fmt.Sprintf("NonValidatingReader.Read after io.EOF returned (%q, %v) instead of io.EOF", seg.Name, err))
			return true
		}
		s.afterEOF--
		return s.afterEOF <= 0
	}
	if err == io.EOF {
		s.reachedEOF = true
		return s.afterEOF <= 0
	}
	s.n++
	if s.n > s.limit {
		o.Problems = append(o.Problems, "NonValidatingReader.Read did not reach io.EOF")
		return true
	}
	if err != nil {
		if !edi.IsErrInvalidEDI(err) {
			o.Problems = append(o.Problems, "NonValidatingReader.Read returned a non-ErrInvalidEDI error: "+err.Error())
			return true
		}
		if strings.Contains(err.Error(), "cannot read segment") {
			// scanner error (token too long / read error): not a tokenisation outcome
			o.Problems = append(o.Problems, "scanner error: "+err.Error())
			return true
		}
		o.Raw = append(o.Raw, segObs{Err: true})
		o.Fatal = append(o.Fatal, "RcFatal")
		return false
	}
	so := segObs{Name: []byte(seg.Name)}
	for _, e := range seg.Elems {
		so.Elems = append(so.Elems, rawElemObs{e.ElemIndex, e.CompIndex, append([]byte{}, e.Data...)})
	}
	o.Raw = append(o.Raw, so)
	return false
}

type fullReader interface {
	Read() (*idr.Node, error)
	Release(*idr.Node)
}

type fullStepper struct {
	o        *observed
	rd       fullReader
	n, limit int
}

func newFullStepper(c *caseJ, o *observed) *fullStepper {
	fd := c.fileDecl()
	zero, minus1 := 0, -1
	sd := &edi.SegDecl{Name: string(unhx(c.Full.Name)), IsTarget: true, Min: &zero, Max: &minus1}
	for k, d := range c.Full.Decls {
		e := edi.Elem{Name: fmt.Sprintf("e%d", k), Index: d.Index, CompIndex: d.Comp, EmptyIfMissing: d.EmptyIfMissing}
		if d.Default != nil {
			s := string(unhx(*d.Default))
			e.Default = &s
		}
		sd.Elems = append(sd.Elems, e)
	}
	fd.SegDecls = []*edi.SegDecl{sd}
	rd, err := edi.NewReader("in", c.reader(), fd, "")
	if err != nil {
		o.Problems = append(o.Problems, "edi.NewReader: "+err.Error())
		return nil
	}
	return &fullStepper{o: o, rd: rd, limit: len(c.InputHex)/2 + 5}
}

func (s *fullStepper) step() bool {
	o := s.o
	n, err := s.rd.Read()
	if err == io.EOF {
		return true
	}
	s.n++
	if s.n > s.limit {
		o.Problems = append(o.Problems, "ediReader.Read did not reach io.EOF")
		return true
	}
	if err != nil {
		if !edi.IsErrInvalidEDI(err) {
			o.Problems = append(o.Problems, "ediReader.Read returned an error that is not the fatal ErrInvalidEDI: "+err.Error())
			o.Fatal = append(o.Fatal, "RcPlain")
		} else {
			o.Fatal = append(o.Fatal, "RcFatal")
		}
		o.Full = append(o.Full, readObs{Fatal: true})
		return true
	}
	ro := readObs{}
	for ch := n.FirstChild; ch != nil; ch = ch.NextSibling {
		k := -1
		fmt.Sscanf(ch.Data, "e%d", &k)
		txt := []byte{}
		if ch.FirstChild != nil && ch.FirstChild.Type == idr.TextNode {
			txt = []byte(ch.FirstChild.Data)
		} else {
			o.Problems = append(o.Problems, "element node without a text child")
		}
		ro.Kids = append(ro.Kids, kidObs{k, txt})
	}
	o.Full = append(o.Full, ro)
	s.rd.Release(n)
	return false
}

// run drives the readers of one case alone: the NonValidatingReader to io.EOF (plus the Reads
// after EOF the case asks for), then the full reader.
func run(c *caseJ) *observed {
	if c.Session != nil {
		return runSession(c)
	}
	return runSolo(c)
}

func runSolo(c *caseJ) *observed {
	o := &observed{}
	guarded("NonValidatingReader.Read", o, func() {
		for st := newNVStepper(c, o, c.ReadsAfterEOF); !st.step(); {
		}
	})
	if c.Full != nil {
		guarded("ediReader.Read", o, func() {
			if st := newFullStepper(c, o); st != nil {
				for !st.step() {
				}
			}
		})
	}
	return o
}

// runTogether keeps the readers of several cases alive at once: all NonValidatingReaders are
// created first and take turns Read by Read, then all full readers likewise.  Every reader must
// deliver what it delivers alone.
func runTogether(cs []*caseJ) []*observed {
	obs := make([]*observed, len(cs))
	for i := range cs {
		obs[i] = &observed{}
	}
	all := &observed{}
	guarded("readers alive at once", all, func() {
		for pass := 0; pass < 2; pass++ {
			var sts []stepper
			for i, c := range cs {
				if pass == 0 {
					sts = append(sts, newNVStepper(c, obs[i], c.ReadsAfterEOF))
				} else if c.Full != nil {
					if st := newFullStepper(c, obs[i]); st != nil {
						sts = append(sts, st)
					}
				}
			}
			for len(sts) > 0 {
				next := sts[:0]
				for _, st := range sts {
					if !st.step() {
						next = append(next, st)
					}
				}
				sts = next
			}
		}
	})
	for _, o := range obs {
		o.Problems = append(o.Problems, all.Problems...)
	}
	return obs
}

// runSession replays what led to the case: the prelude case alone (its readers run to io.EOF,
// the full reader asks for more after EOF), then the case together with its companions.
func runSession(c *caseJ) *observed {
	s := c.Session
	if s.Prelude != nil {
		p := *s.Prelude
		p.Session = nil
		runSolo(&p)
	}
	primary := *c
	primary.Session = nil
	group := []*caseJ{&primary}
	for _, x := range s.Others {
		y := *x
		y.Session = nil
		group = append(group, &y)
	}
	if len(group) == 1 {
		return runSolo(&primary)
	}
	return runTogether(group)[0]
}

// ---- the oracle: what the logical segments demand ------------------------------------------------

func expectedRaw(c *caseJ) []segObs {
	hs := headsOf(c)
	rel := unhxp(c.Cfg.Rel)
	var out []segObs
	for _, s := range c.Logical {
		so := segObs{}
		for i, el := range s.Elems {
			for _, rep := range el {
				for j, comp := range rep {
					so.Elems = append(so.Elems, rawElemObs{i, j + 1, escape(hs, rel, unhx(comp))})
				}
			}
		}
		so.Name = so.Elems[0].Data
		out = append(out, so)
	}
	return out
}

func lookup(s lsegJ, d declJ) [][]byte {
	ci := 1
	if d.Comp != nil {
		ci = *d.Comp
	}
	var vs [][]byte
	if d.Index < 0 || d.Index >= len(s.Elems) || ci < 1 {
		return nil
	}
	for _, rep := range s.Elems[d.Index] {
		if ci-1 < len(rep) {
			vs = append(vs, unhx(rep[ci-1]))
		}
	}
	return vs
}

func expectedFull(c *caseJ) []readObs {
	var out []readObs
	for _, s := range c.Logical {
		ro := readObs{}
		for k, d := range c.Full.Decls {
			vs := lookup(s, d)
			switch {
			case len(vs) > 0:
				for _, v := range vs {
					ro.Kids = append(ro.Kids, kidObs{k, v})
				}
			case d.EmptyIfMissing || d.Default != nil:
				ro.Kids = append(ro.Kids, kidObs{k, unhxp(d.Default)})
			default:
				ro.Fatal = true
			}
			if ro.Fatal {
				break
			}
		}
		if ro.Fatal {
			out = append(out, readObs{Fatal: true})
			return out
		}
		out = append(out, ro)
	}
	return out
}

func showSeg(s segObs) string {
	if s.Err {
		return "ERR"
	}
	var xs []string
	for _, e := range s.Elems {
		xs = append(xs, fmt.Sprintf("(%d,%d,%q)", e.EI, e.CI, e.Data))
	}
	return fmt.Sprintf("%q[%s]", s.Name, strings.Join(xs, " "))
}
func showRead(r readObs) string {
	if r.Fatal {
		return "FATAL"
	}
	var xs []string
	for _, k := range r.Kids {
		xs = append(xs, fmt.Sprintf("e%d=%q", k.K, k.Text))
	}
	return "{" + strings.Join(xs, " ") + "}"
}

func sameSeg(a, b segObs) bool {
	if a.Err != b.Err || !bytes.Equal(a.Name, b.Name) || len(a.Elems) != len(b.Elems) {
		return false
	}
	for i := range a.Elems {
		if a.Elems[i].EI != b.Elems[i].EI || a.Elems[i].CI != b.Elems[i].CI || !bytes.Equal(a.Elems[i].Data, b.Elems[i].Data) {
			return false
		}
	}
	return true
}
func sameRead(a, b readObs) bool {
	if a.Fatal != b.Fatal || len(a.Kids) != len(b.Kids) {
		return false
	}
	for i := range a.Kids {
		if a.Kids[i].K != b.Kids[i].K || !bytes.Equal(a.Kids[i].Text, b.Kids[i].Text) {
			return false
		}
	}
	return true
}

// oracle returns "" when the implementation did what the property demands of this case.
func oracle(c *caseJ, o *observed) (string, interface{}) {
	if len(o.Problems) > 0 {
		return o.Problems[0], o.Problems
	}
	if c.Logical == nil {
		return "", nil
	}
	rel := unhxp(c.Cfg.Rel)
	want := expectedRaw(c)
	for i := 0; i < len(want) || i < len(o.Raw); i++ {
		switch {
		case i >= len(o.Raw):
			return fmt.Sprintf("segment %d of the input was not delivered by NonValidatingReader", i), map[string]string{"want": showSeg(want[i])}
		case i >= len(want):
			return fmt.Sprintf("NonValidatingReader delivered an extra segment %d", i), map[string]string{"got": showSeg(o.Raw[i])}
		case !sameSeg(want[i], o.Raw[i]):
			return fmt.Sprintf("segment %d: RawSeg elements differ from the logical (ElemIndex, CompIndex, data)", i),
				map[string]string{"want": showSeg(want[i]), "got": showSeg(o.Raw[i])}
		}
	}
	// unescaping gives the data back
	for si, s := range c.Logical {
		k := 0
		for _, el := range s.Elems {
			for _, rep := range el {
				for _, comp := range rep {
					got := strs.ByteUnescape(o.Raw[si].Elems[k].Data, rel, false)
					if !bytes.Equal(got, unhx(comp)) {
						return fmt.Sprintf("segment %d: unescaping raw element %d does not give the logical value back", si, k),
							map[string]string{"want": fmt.Sprintf("%q", unhx(comp)), "got": fmt.Sprintf("%q", got), "raw": fmt.Sprintf("%q", o.Raw[si].Elems[k].Data)}
					}
					k++
				}
			}
		}
	}
	if c.Full != nil {
		wantF := expectedFull(c)
		for i := 0; i < len(wantF) || i < len(o.Full); i++ {
			switch {
			case i >= len(o.Full):
				return fmt.Sprintf("full reader: result %d missing", i), map[string]string{"want": showRead(wantF[i])}
			case i >= len(wantF):
				return fmt.Sprintf("full reader: extra result %d", i), map[string]string{"got": showRead(o.Full[i])}
			case !sameRead(wantF[i], o.Full[i]):
				return fmt.Sprintf("full reader: element nodes of segment %d differ from the declared lookup of the logical values", i),
					map[string]string{"want": showRead(wantF[i]), "got": showRead(o.Full[i])}
			}
		}
	}
	return "", nil
}

// ---- Coq term ---------------------------------------------------------------------------------

// coqBytes prints a byte string as an explicit list of Coq.Strings.Byte constructors.
func coqBytes(b []byte) string {
	if len(b) == 0 {
		return "[]"
	}
	var sb strings.Builder
	sb.Grow(5*len(b) + 2)
	sb.WriteByte('[')
	for i, x := range b {
		if i > 0 {
			sb.WriteByte(';')
		}
		fmt.Fprintf(&sb, "x%02x", x)
	}
	sb.WriteByte(']')
	return sb.String()
}

func coqOptHex(p *string) string {
	if p == nil {
		return "None"
	}
	return "(Some " + coqBytes(unhx(*p)) + ")"
}

func coqCase(c *caseJ, o *observed) string {
	cfg := fmt.Sprintf("(mkCfg %s %s %s %s %s %s)", coqBytes(unhx(c.Cfg.Seg)), coqBytes(unhx(c.Cfg.Elem)),
		coqOptHex(c.Cfg.Comp), coqOptHex(c.Cfg.Rep), coqOptHex(c.Cfg.Rel), vh.CoqBool(c.Cfg.IgnoreCRLF))
	var raws []string
	for _, s := range o.Raw {
		if s.Err {
			raws = append(raws, "SegErr")
			continue
		}
		var es []string
		for _, e := range s.Elems {
			es = append(es, fmt.Sprintf("mkRE %d %d %s", e.EI, e.CI, coqBytes(e.Data)))
		}
		raws = append(raws, fmt.Sprintf("SegOk %s %s", coqBytes(s.Name), vh.CoqList(es)))
	}
	full := "None"
	if c.Full != nil {
		var ds, rs []string
		for _, d := range c.Full.Decls {
			comp := "None"
			if d.Comp != nil {
				comp = fmt.Sprintf("(Some %d)", *d.Comp)
			}
			ds = append(ds, fmt.Sprintf("mkED %d %s %s %s", d.Index, comp, vh.CoqBool(d.EmptyIfMissing), coqOptHex(d.Default)))
		}
		for _, r := range o.Full {
			if r.Fatal {
				rs = append(rs, "RFatal")
				continue
			}
			var ks []string
			for _, k := range r.Kids {
				ks = append(ks, fmt.Sprintf("(%d, %s)", k.K, coqBytes(k.Text)))
			}
			rs = append(rs, "RNode "+vh.CoqList(ks))
		}
		full = fmt.Sprintf("(Some (%s, %s, %s))", coqBytes(unhx(c.Full.Name)), vh.CoqList(ds), vh.CoqList(rs))
	}
	logical := "None"
	if c.Logical != nil && c.InModel {
		var ss []string
		for _, s := range c.Logical {
			var bl, els []string
			for _, b := range s.Blanks {
				bl = append(bl, vh.CoqBool(b))
			}
			for _, el := range s.Elems {
				var reps []string
				for _, rep := range el {
					var comps []string
					for _, comp := range rep {
						comps = append(comps, coqBytes(unhx(comp)))
					}
					reps = append(reps, vh.CoqList(comps))
				}
				els = append(els, vh.CoqList(reps))
			}
			ss = append(ss, fmt.Sprintf("mkLS %s %s %s", vh.CoqList(bl), vh.CoqList(els), vh.CoqBool(s.CR)))
		}
		logical = "(Some " + vh.CoqList(ss) + ")"
	}
	return fmt.Sprintf("mkECase %s %s %s %s %s %s", cfg, coqBytes(unhx(c.InputHex)), vh.CoqList(raws), full, vh.CoqList(o.Fatal), logical)
}

// ---- main ------------------------------------------------------------------------------------

func nontrivial(c *caseJ) bool {
	if c.Logical == nil {
		return false
	}
	sp := specialsOf(c)
	for _, s := range c.Logical {
		for _, el := range s.Elems {
			for _, rep := range el {
				for _, comp := range rep {
					d := unhx(comp)
					for _, x := range sp {
						if bytes.Contains(d, x) {
							return true
						}
					}
				}
			}
		}
	}
	return false
}

var shrunk int

func evaluate(c *caseJ, sum *vh.Summary, cw *vh.CaseWriter, verbose bool) {
	evaluateObs(c, run(c), sum, cw, verbose)
}

func evaluateObs(c *caseJ, o *observed, sum *vh.Summary, cw *vh.CaseWriter, verbose bool) {
	canon, _ := json.Marshal(c)
	sum.Count(string(canon), nontrivial(c))
	what, detail := oracle(c, o)
	if verbose {
		fmt.Printf("config: seg=%q elem=%q comp=%q rep=%q release=%q ignore_crlf=%v reader=%s\n", unhx(c.Cfg.Seg), unhx(c.Cfg.Elem),
			unhxp(c.Cfg.Comp), unhxp(c.Cfg.Rep), unhxp(c.Cfg.Rel), c.Cfg.IgnoreCRLF, c.Reader)
		fmt.Printf("input: %q\n", unhx(c.InputHex))
		var want []segObs
		if c.Logical != nil {
			want = expectedRaw(c)
		}
		for i, s := range o.Raw {
			fmt.Printf("  NonValidatingReader[%d] = %s\n", i, showSeg(s))
			if i < len(want) {
				fmt.Printf("  logical            [%d] = %s\n", i, showSeg(want[i]))
			}
		}
		for i := len(o.Raw); i < len(want); i++ {
			fmt.Printf("  logical            [%d] = %s (not delivered)\n", i, showSeg(want[i]))
		}
		if c.Full != nil {
			var wantF []readObs
			if c.Logical != nil {
				wantF = expectedFull(c)
			}
			for i, r := range o.Full {
				fmt.Printf("  ediReader[%d] = %s\n", i, showRead(r))
				if i < len(wantF) {
					fmt.Printf("  declared [%d] = %s\n", i, showRead(wantF[i]))
				}
			}
		}
		if what != "" {
			fmt.Println("ORACLE FAILS:", what, detail)
		} else {
			fmt.Println("oracle holds")
		}
	}
	if what != "" {
		if verbose || shrunk >= 8 {
			sum.Fail(what, c, detail)
		} else {
			// report the shrunk case (the first few failures only: shrinking re-runs the implementation)
			shrunk++
			d := shrink(c)
			w2, d2 := oracle(d, run(d))
			if w2 == "" {
				d, w2, d2 = c, what, detail
			}
			sum.Fail(w2, d, map[string]interface{}{"observed_vs_expected": d2, "input": string(unhx(d.InputHex)), "shrunk_from_input_bytes": len(c.InputHex) / 2})
		}
	}
	if len(o.Problems) == 0 {
		cw.Add(coqCase(c, o), c)
	}
	sum.Hist("mode:" + c.Mode)
	if c.Session != nil && len(c.Session.Others) > 0 {
		sum.Hist(fmt.Sprintf("session:%d-readers-alive-at-once-after-an-input-ran-to-EOF", 1+len(c.Session.Others)))
	}
	if c.DeclMode != "" {
		sum.Hist("FileDecl:" + c.DeclMode + "-of-a-value-used-before")
	}
	if c.ReadsAfterEOF > 0 {
		sum.Hist("reads-after-EOF")
	}
	if c.Mode == "ok" {
		if c.ASCII {
			sum.Hist("ok:ascii-first-bytes")
		} else {
			sum.Hist("ok:utf8-first-runes")
		}
	}
	sum.Hist("reader:" + c.Reader)
	if c.Full != nil {
		sum.Hist("with-full-reader")
	}
	if c.Cfg.Rel != nil {
		sum.Hist("release-char")
	}
	if c.Cfg.Comp != nil {
		sum.Hist("component-delimiter")
	}
	if c.Cfg.Rep != nil {
		sum.Hist("repetition-delimiter")
	}
	if c.Cfg.IgnoreCRLF {
		sum.Hist("ignore_crlf")
	}
	multi := false
	for _, x := range specialsOf(c) {
		if len(x) > 1 {
			multi = true
		}
	}
	if multi {
		sum.Hist("multi-byte-delimiter")
	}
	if bytes.Equal(unhx(c.Cfg.Seg), []byte("\n")) {
		sum.Hist("segment-delimiter-LF")
	}
	if in := unhx(c.InputHex); bytes.Contains(in, []byte("\ufeff")) {
		sum.Hist("input-contains-U+FEFF")
		if bytes.HasPrefix(in, []byte("\ufeff")) {
			sum.Hist("input-starts-with-U+FEFF")
		}
	}
	longest := 0
	for _, s := range o.Raw {
		n := 0
		for _, e := range s.Elems {
			n += len(e.Data) + 1
		}
		if n > longest {
			longest = n
		}
	}
	switch {
	case longest > 1024:
		sum.Hist("longest-segment:>1024")
	case longest > 128:
		sum.Hist("longest-segment:129-1024")
	default:
		sum.Hist("longest-segment:<=128")
	}
	for _, r := range o.Full {
		if r.Fatal {
			sum.Hist("full-reader-fatal")
		}
	}
	for _, k := range o.Fatal {
		sum.Hist("fatal-error-class:" + k)
	}
	for _, s := range o.Raw {
		if s.Err {
			sum.Hist("missing-segment-name")
		}
	}
	for _, s := range c.Logical {
		n := len(s.Elems) - 1 // elements after the name
		switch {
		case n == 0:
			sum.Hist("elems-after-name:0")
		case n <= 8:
			sum.Hist("elems-after-name:1-8")
		case n <= 32:
			sum.Hist("elems-after-name:9-32")
		case n <= 64:
			sum.Hist("elems-after-name:33-64")
		default:
			sum.Hist("elems-after-name:65-130")
		}
		if c.Full != nil && (n == 31 || n == 32 || n == 33 || n == 63 || n == 64 || n == 65 || n == 127 || n == 128 || n == 129) {
			sum.Hist(fmt.Sprintf("full-reader-segment-with-%d-elems", n))
		}
		for _, el := range s.Elems {
			if len(el) > 12 {
				sum.Hist("element-with->12-repetitions")
			}
			for _, rp := range el {
				if len(rp) > 12 {
					sum.Hist("repetition-with->12-components")
				}
			}
		}
	}
	if len(sum.Samples) < 4 && c.Mode == "ok" && len(c.InputHex) < 400 && nontrivial(c) {
		sum.Sample(map[string]interface{}{"case": c, "input": string(unhx(c.InputHex)), "raw": showAll(o)})
	}
}

func showAll(o *observed) []string {
	var xs []string
	for _, s := range o.Raw {
		xs = append(xs, showSeg(s))
	}
	for _, r := range o.Full {
		xs = append(xs, showRead(r))
	}
	return xs
}

func loadCase(path string) (*caseJ, error) {
	var rf struct {
		Case *caseJ `json:"case"`
	}
	b, err := os.ReadFile(path)
	if err != nil {
		return nil, err
	}
	if err := json.Unmarshal(b, &rf); err != nil {
		return nil, err
	}
	if rf.Case == nil {
		return nil, fmt.Errorf("%s: no case", path)
	}
	return rf.Case, nil
}

func main() {
	o := vh.ParseOpts()
	r := vh.NewRng(o.Seed)
	sum := vh.NewSummary("C07", o,
		"EDI inputs run through edi.NewNonValidatingReader and edi.NewReader; non-trivial = an 'ok' case (logical segments encoded by the generator's inverse, oracle evaluated) in which at least one data value contains a delimiter or the release character, so that escaping decides the result; distinct by (configuration, input bytes, chunking, declarations)")
	cw := vh.NewCaseWriter(o, "C07", "Base.Utf8 Base.ErrClass Model.Edi", "ecase", "check_case")
	cw.PerFile = 95
	// the initial scanner buffer is an exported knob of the package; long segments are sized against it
	if edi.ReaderBufSize >= 16 && edi.ReaderBufSize <= 512 {
		bufSize = edi.ReaderBufSize
	} else {
		edi.ReaderBufSize = bufSize
	}
	sum.Extra["reader_buf_size"] = bufSize

	if o.Replay != "" {
		c, err := loadCase(o.Replay)
		if err != nil {
			fmt.Println("cannot read replay file:", err)
			os.Exit(2)
		}
		evaluate(c, sum, cw, true)
		cw.Flush()
		sum.CaseFiles = cw.Files
		sum.Write(o)
		return
	}
	if o.Corpus != "" {
		files, _ := filepath.Glob(filepath.Join(o.Corpus, "*.json"))
		sort.Strings(files)
		for _, f := range files {
			c, err := loadCase(f)
			if err != nil {
				sum.Fail("corpus file unreadable", map[string]string{"file": f}, err.Error())
				continue
			}
			evaluate(c, sum, cw, false)
			sum.Hist("corpus")
		}
	}
	total := o.Count(1300, 40000)
	gen := func() *caseJ {
		var c *caseJ
		if r.Chance(0.75) {
			c = genOK(r)
		} else {
			c = genWild(r)
		}
		c.ReadsAfterEOF = []int{0, 0, 1, 2}[r.Pick(4)]
		return c
	}
	var lastDone, lastShared *caseJ // prelude candidates: ran alone to EOF with a full reader / used the shared FileDecl
	bare := func(c *caseJ) *caseJ { d := *c; d.Session = nil; return &d }
	for i := 0; i < total; {
		if lastDone != nil && r.Chance(0.1) {
			// readers of two or three cases alive at once, taking turns, after another input ran to EOF
			n := r.Between(2, 3)
			group := make([]*caseJ, n)
			for k := range group {
				group[k] = gen()
				if r.Chance(0.2) && lastShared != nil {
					group[k].DeclMode = "copy"
				}
			}
			obs := runTogether(group)
			for k, c := range group {
				sess := &sessionJ{Prelude: bare(lastDone)}
				if c.DeclMode != "" {
					sess.Prelude = bare(lastShared)
				}
				for j, x := range group {
					if j != k {
						sess.Others = append(sess.Others, bare(x))
					}
				}
				c.Session = sess
				evaluateObs(c, obs[k], sum, cw, false)
			}
			i += n
			continue
		}
		c := gen()
		switch r.Pick(10) {
		case 0, 1:
			c.DeclMode = "mutate"
		case 2:
			if lastShared != nil {
				c.DeclMode = "copy"
			}
		}
		ob := runSolo(c)
		if c.DeclMode != "" && lastShared != nil {
			c.Session = &sessionJ{Prelude: bare(lastShared)} // for the replay: what the shared value held before
		}
		evaluateObs(c, ob, sum, cw, false)
		if c.DeclMode == "mutate" {
			lastShared = bare(c)
		}
		if c.Full != nil && len(ob.Problems) == 0 {
			lastDone = bare(c)
		}
		i++
	}
	// the smallest failing case is the one bin/check turns into the replay
	sort.SliceStable(sum.Failures, func(i, j int) bool {
		a, _ := sum.Failures[i].Case.(*caseJ)
		b, _ := sum.Failures[j].Case.(*caseJ)
		if a == nil || b == nil {
			return a != nil
		}
		return len(a.InputHex) < len(b.InputHex)
	})
	cw.Flush()
	sum.CaseFiles = cw.Files
	sum.Write(o)
}
