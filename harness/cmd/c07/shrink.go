package main

import (
	"bytes"
	"encoding/json"
)

// shrink reduces a case on which the oracle fails to a smaller one on which it still fails
// (greedy: drop segments, elements, repetitions, components, declarations; shorten values; remove
// input bytes of cases without logical segments).  The result is re-encoded and replayable.

func cloneCase(c *caseJ) *caseJ {
	b, _ := json.Marshal(c)
	var d caseJ
	_ = json.Unmarshal(b, &d)
	return &d
}

func fails(c *caseJ) bool {
	what, _ := oracle(c, run(c))
	return what != ""
}

// guardsHold re-checks what the generator guarantees for an 'ok' case.
func guardsHold(c *caseJ) bool {
	seg := unhx(c.Cfg.Seg)
	segLF := bytes.Equal(seg, []byte("\n"))
	if len(c.Logical) == 0 {
		return false
	}
	for _, s := range c.Logical {
		if len(s.Elems) == 0 {
			return false
		}
		for _, el := range s.Elems {
			if len(el) == 0 {
				return false
			}
			for _, rp := range el {
				if len(rp) == 0 {
					return false
				}
			}
		}
		nm := unhx(s.Elems[0][0][0])
		if len(nm) == 0 || allCRLF(nm) {
			return false
		}
		if segLF {
			le := s.Elems[len(s.Elems)-1]
			lr := le[len(le)-1]
			if bytes.HasSuffix(unhx(lr[len(lr)-1]), []byte("\r")) {
				return false
			}
		}
		if c.Full != nil && !bytes.Equal(escape(headsOf(c), unhxp(c.Cfg.Rel), nm), unhx(c.Full.Name)) {
			return false
		}
	}
	return true
}

func shrink(c *caseJ) *caseJ {
	budget := 1500
	try := func(d *caseJ) bool {
		if budget <= 0 {
			return false
		}
		budget--
		if d.Logical != nil {
			if !guardsHold(d) {
				return false
			}
			d.InputHex = hx(encode(d))
		}
		return fails(d)
	}
	cur := cloneCase(c)
	if cur.Logical != nil {
		// the sprinkled CR/LF of ignore_crlf inputs go first
		d := cloneCase(cur)
		if try(d) {
			cur = d
		}
	}
	for progress := true; progress && budget > 0; {
		progress = false
		step := func(mut func(d *caseJ) bool) {
			d := cloneCase(cur)
			if mut(d) && try(d) {
				cur = d
				progress = true
			}
		}
		if cur.Reader != "full" {
			step(func(d *caseJ) bool { d.Reader = "full"; return true })
		}
		if cur.Full != nil {
			step(func(d *caseJ) bool { d.Full = nil; return true })
		}
		if cur.Full != nil {
			for i := len(cur.Full.Decls) - 1; i >= 0; i-- {
				i := i
				step(func(d *caseJ) bool {
					if i >= len(d.Full.Decls) {
						return false
					}
					d.Full.Decls = append(d.Full.Decls[:i:i], d.Full.Decls[i+1:]...)
					return true
				})
			}
		}
		if cur.Logical == nil {
			in := unhx(cur.InputHex)
			for n := len(in) / 2; n >= 1; n /= 2 {
				for off := 0; off+n <= len(unhx(cur.InputHex)); {
					before := cur.InputHex
					off0 := off
					step(func(d *caseJ) bool {
						b := unhx(d.InputHex)
						if off0+n > len(b) {
							return false
						}
						d.InputHex = hx(append(append([]byte{}, b[:off0]...), b[off0+n:]...))
						return true
					})
					if cur.InputHex == before {
						off += n
					}
				}
			}
			continue
		}
		for si := len(cur.Logical) - 1; si >= 0; si-- {
			si := si
			step(func(d *caseJ) bool {
				if len(d.Logical) < 2 || si >= len(d.Logical) {
					return false
				}
				d.Logical = append(d.Logical[:si:si], d.Logical[si+1:]...)
				return true
			})
		}
		for si := range cur.Logical {
			si := si
			step(func(d *caseJ) bool {
				if len(d.Logical[si].Blanks) == 0 && !d.Logical[si].CR {
					return false
				}
				d.Logical[si].Blanks, d.Logical[si].CR = []bool{}, false
				return true
			})
			for ei := len(cur.Logical[si].Elems) - 1; ei >= 1; ei-- {
				ei := ei
				step(func(d *caseJ) bool {
					e := d.Logical[si].Elems
					if ei >= len(e) {
						return false
					}
					d.Logical[si].Elems = append(e[:ei:ei], e[ei+1:]...)
					return true
				})
			}
			for ei := range cur.Logical[si].Elems {
				ei := ei
				for ri := len(cur.Logical[si].Elems[ei]) - 1; ri >= 0; ri-- {
					ri := ri
					step(func(d *caseJ) bool {
						if ei >= len(d.Logical[si].Elems) {
							return false
						}
						r := d.Logical[si].Elems[ei]
						if len(r) < 2 || ri >= len(r) {
							return false
						}
						d.Logical[si].Elems[ei] = append(r[:ri:ri], r[ri+1:]...)
						return true
					})
				}
				if ei >= len(cur.Logical[si].Elems) {
					continue
				}
				for ri := range cur.Logical[si].Elems[ei] {
					ri := ri
					for ci := len(cur.Logical[si].Elems[ei][ri]) - 1; ci >= 0; ci-- {
						ci := ci
						step(func(d *caseJ) bool {
							if ei >= len(d.Logical[si].Elems) || ri >= len(d.Logical[si].Elems[ei]) {
								return false
							}
							cs := d.Logical[si].Elems[ei][ri]
							if len(cs) < 2 || ci >= len(cs) {
								return false
							}
							d.Logical[si].Elems[ei][ri] = append(cs[:ci:ci], cs[ci+1:]...)
							return true
						})
						// shorten the value: second half, first half, one byte
						for _, how := range []int{0, 1, 2} {
							how := how
							step(func(d *caseJ) bool {
								if ei >= len(d.Logical[si].Elems) || ri >= len(d.Logical[si].Elems[ei]) || ci >= len(d.Logical[si].Elems[ei][ri]) {
									return false
								}
								v := unhx(d.Logical[si].Elems[ei][ri][ci])
								if len(v) == 0 {
									return false
								}
								switch how {
								case 0:
									v = v[:len(v)/2]
								case 1:
									v = v[(len(v)+1)/2:]
								default:
									v = v[:len(v)-1]
								}
								d.Logical[si].Elems[ei][ri][ci] = hx(v)
								return true
							})
						}
					}
				}
			}
		}
	}
	return cur
}
