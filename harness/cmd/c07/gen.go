package main

import (
	"bytes"
	"unicode/utf8"

	"verifharness/vh"
)

// ---- the generator's inverse (must agree with Model.Edi.edi_encode inside the model's domain) ----

func specialsOf(c *caseJ) [][]byte {
	var sp [][]byte
	for _, x := range [][]byte{unhx(c.Cfg.Seg), unhx(c.Cfg.Elem), unhxp(c.Cfg.Rep), unhxp(c.Cfg.Comp), unhxp(c.Cfg.Rel)} {
		if len(x) > 0 {
			sp = append(sp, x)
		}
	}
	return sp
}

func headsOf(c *caseJ) []byte {
	var hs []byte
	for _, x := range specialsOf(c) {
		hs = append(hs, x[0])
	}
	return hs
}

// escape puts the release character before every decodable rune of d whose first byte starts a
// delimiter or the release character.  (For ASCII first bytes this is byte-wise, as in the
// model.  An undecodable byte or a literal U+FFFD is never escaped: ByteUnescape would stop there.)
func escape(hs, rel, d []byte) []byte {
	if len(rel) == 0 {
		return append([]byte{}, d...)
	}
	out := []byte{}
	for len(d) > 0 {
		r, n := utf8.DecodeRune(d)
		if r != utf8.RuneError && bytes.IndexByte(hs, d[0]) >= 0 {
			out = append(out, rel...)
		}
		out = append(out, d[:n]...)
		d = d[n:]
	}
	return out
}

func encode(c *caseJ) []byte {
	hs := headsOf(c)
	seg, elem, rep, comp, rel := unhx(c.Cfg.Seg), unhx(c.Cfg.Elem), unhxp(c.Cfg.Rep), unhxp(c.Cfg.Comp), unhxp(c.Cfg.Rel)
	var out []byte
	for _, s := range c.Logical {
		for _, b := range s.Blanks {
			if b {
				out = append(out, '\r')
			}
			out = append(out, seg...)
		}
		for i, el := range s.Elems {
			if i > 0 {
				out = append(out, elem...)
			}
			for j, rp := range el {
				if j > 0 {
					out = append(out, rep...)
				}
				for k, cp := range rp {
					if k > 0 {
						out = append(out, comp...)
					}
					out = append(out, escape(hs, rel, unhx(cp))...)
				}
			}
		}
		if s.CR {
			out = append(out, '\r')
		}
		out = append(out, seg...)
	}
	return out
}

// ---- configurations ------------------------------------------------------------------------------

var singles = []string{"~", "'", "*", "+", ":", "^", "|", "!", "?", "\\", "#", "$", "&", "<", ">", "=", ";", ",", "\x1c", "\x1d", "\x1e", "\x1f", "\n"}
var multis = []string{"~\n", "'\r\n", "\r\n", "<>", "|-", "*.", "::=", "%%", "ab", "~\r\n", "+-", "^_^", "$1", "#x"}
var multisUTF8 = []string{"¦", "€", "§", "→", "😀", "€\n", "¦x", "\ufeff", "\u2028", "𝄞", "\u0301"}

// inDomain: the side condition under which the encoding round-trips (what edi_roundtrip assumes,
// with "first byte is ASCII" relaxed to "first rune decodes"): every delimiter / the release
// character is non-empty and starts with a decodable rune other than U+FFFD, first bytes are
// pairwise distinct, and no first byte occurs at a later position of any of them.
func inDomain(sp [][]byte) (ok bool, ascii bool) {
	ascii = true
	heads := map[byte]bool{}
	for _, x := range sp {
		if len(x) == 0 {
			return false, false
		}
		if r, _ := utf8.DecodeRune(x); r == utf8.RuneError {
			return false, false
		}
		if heads[x[0]] {
			return false, false
		}
		heads[x[0]] = true
		if x[0] >= 0x80 {
			ascii = false
		}
	}
	for _, x := range sp {
		for _, b := range x[1:] {
			if heads[b] {
				return false, false
			}
		}
	}
	return true, ascii
}

func pickSpecial(r *vh.Rng, segRole bool) []byte {
	switch {
	case r.Chance(0.6):
		s := singles[r.Pick(len(singles))]
		if s == "\n" && !segRole {
			s = "*"
		}
		return []byte(s)
	case r.Chance(0.25):
		return []byte(multisUTF8[r.Pick(len(multisUTF8))])
	default:
		return []byte(multis[r.Pick(len(multis))])
	}
}

func hasCRLF(b []byte) bool { return bytes.IndexByte(b, '\r') >= 0 || bytes.IndexByte(b, '\n') >= 0 }
func allCRLF(b []byte) bool {
	for _, x := range b {
		if x != '\r' && x != '\n' {
			return false
		}
	}
	return true
}

func genCfgOK(r *vh.Rng) (cfgJ, bool) {
	for {
		seg := pickSpecial(r, true)
		if r.Chance(0.15) {
			seg = []byte("\n")
		}
		elem := pickSpecial(r, false)
		var comp, rep, rel []byte
		hasComp, hasRep, hasRel := r.Chance(0.7), r.Chance(0.4), r.Chance(0.8)
		if hasComp {
			comp = pickSpecial(r, false)
		}
		if hasRep {
			rep = pickSpecial(r, false)
		}
		if hasRel {
			rel = pickSpecial(r, false)
			if r.Chance(0.5) {
				rel = []byte("?")
			}
		}
		ignore := r.Chance(0.2)
		var sp [][]byte
		for _, x := range [][]byte{seg, elem, rep, comp, rel} {
			if len(x) > 0 {
				sp = append(sp, x)
			}
		}
		ok, ascii := inDomain(sp)
		if !ok {
			continue
		}
		bad := false
		for _, x := range sp {
			if ignore && hasCRLF(x) {
				bad = true
			}
			// with LF as the segment delimiter a CR in front of it is dropped
			if bytes.Equal(seg, []byte("\n")) && x[len(x)-1] == '\r' {
				bad = true
			}
		}
		if bad {
			continue
		}
		return cfgJ{Seg: hx(seg), Elem: hx(elem), Comp: hxp(comp, hasComp), Rep: hxp(rep, hasRep), Rel: hxp(rel, hasRel), IgnoreCRLF: ignore}, ascii
	}
}

// bufSize is the scanner's initial buffer size (edi.ReaderBufSize, 128 in /repo); long values are
// sized against it so that tokens outgrow the buffer.
var bufSize = 128

// ---- payloads --------------------------------------------------------------------------------

var fillers = []string{"a", "b", "Z", "0", " ", "AB", "é", "€", "😀", "\xff", "\xc3", "\xe2\x82", "\xef\xbf\xbd", "\r", "\n", "\r\n", "\x00",
	// special runes: U+FEFF (BOM / zero-width no-break space), line and paragraph separators, C0/C1 controls
	// and DEL, combining marks and joiners, no-break space, 4-byte runes, the last code point, and
	// truncated encodings (prefixes of EF BB BF, of a 4-byte rune)
	"\ufeff", "\ufeff", "x\ufeffy", "\u2028", "\u2029", "\x01", "\t", "\x0b", "\x0c", "\x1b", "\x7f", "\u0085",
	"e\u0301", "\u0301\u0308", "\u200d", "\u200b", "\u00a0", "\u00ad", "𝄞", "\U0010ffff", "\U00010000",
	"\xef\xbb", "\xef", "\xf0\x9f\x98", "\xf0\x9f", "\xc2", "\xed\xa0\x80", "\xc0\x80"}

func genData(r *vh.Rng, c *caseJ, long int) []byte {
	sp := specialsOf(c)
	rel := unhxp(c.Cfg.Rel)
	var d []byte
	n := 0
	switch r.Pick(10) {
	case 0, 1:
		n = 0
	case 2, 3, 4:
		n = 1
	default:
		n = r.Between(1, 6)
	}
	if long > 0 {
		n = long
	}
	for i := 0; i < n; i++ {
		switch {
		case r.Chance(0.35):
			d = append(d, sp[r.Pick(len(sp))]...)
		case r.Chance(0.15) && len(rel) > 0:
			d = append(d, rel...)
		case r.Chance(0.15):
			// a proper prefix or a tail of a delimiter
			x := sp[r.Pick(len(sp))]
			k := r.Between(0, len(x))
			if r.Chance(0.5) {
				d = append(d, x[:k]...)
			} else {
				d = append(d, x[k:]...)
			}
		default:
			d = append(d, fillers[r.Pick(len(fillers))]...)
		}
	}
	return guard(c, d)
}

// guard removes from a value what the stated side conditions exclude.
func guard(c *caseJ, d []byte) []byte {
	hs := headsOf(c)
	rel := unhxp(c.Cfg.Rel)
	var out []byte
	for _, b := range d {
		if len(rel) == 0 && bytes.IndexByte(hs, b) >= 0 {
			continue // without a release character, data cannot carry delimiter bytes
		}
		if c.Cfg.IgnoreCRLF && (b == '\r' || b == '\n') {
			continue
		}
		out = append(out, b)
	}
	return out
}

// sweepCount draws a count from 0..130 with weight on the powers of two and their neighbours
// (table sizes, pre-allocation hints and index guards sit there).
var sweepPts = []int{0, 1, 2, 3, 4, 5, 7, 8, 9, 15, 16, 17, 31, 32, 33, 63, 64, 65, 66, 100, 127, 128, 129, 130}

func sweepCount(r *vh.Rng) int {
	if r.Chance(0.65) {
		return sweepPts[r.Pick(len(sweepPts))]
	}
	return r.Between(0, 130)
}

func genOK(r *vh.Rng) *caseJ {
	cfg, ascii := genCfgOK(r)
	c := &caseJ{Mode: "ok", Cfg: cfg, InModel: true, ASCII: ascii, Reader: r.PickStr("full", "full", "full", "half", "one", "dataerr")}
	seg := unhx(cfg.Seg)
	segLF := bytes.Equal(seg, []byte("\n"))
	withFull := r.Chance(0.5)
	nonCRLFName := func() []byte {
		for {
			var nm []byte
			if r.Chance(0.8) {
				nm = []byte(r.PickStr("A", "ISA", "GS", "ST", "N1", "é1", "\ufeffISA", "\ufeff", "A\ufeff", "\u2028S", "\x00A"))
			} else {
				nm = genData(r, c, 0)
			}
			// a name is never blank, and with LF as segment delimiter no value may end a segment with CR
			nm = bytes.TrimRight(guard(c, nm), "\r")
			if len(nm) > 0 && !allCRLF(nm) {
				return nm
			}
		}
	}
	sharedName := nonCRLFName()
	nseg := r.Between(1, 5)
	maxElems, maxComps := 0, 0
	// sweeps: the number of elements after the name (per segment, or one width for the whole case),
	// of components of one repetition, of repetitions of one element, each over 0..130
	sweepElems := r.Chance(0.3)
	sharedWidth := -1
	if sweepElems && r.Chance(0.5) {
		sharedWidth = sweepCount(r)
	}
	sweepComps := cfg.Comp != nil && r.Chance(0.1)
	sweepReps := cfg.Rep != nil && r.Chance(0.07)
	for s := 0; s < nseg; s++ {
		ls := lsegJ{Blanks: []bool{}}
		if allCRLF(seg) && r.Chance(0.3) {
			for k := r.Between(1, 3); k > 0; k-- {
				ls.Blanks = append(ls.Blanks, segLF && r.Chance(0.5))
			}
		}
		if segLF {
			ls.CR = r.Chance(0.5)
		}
		nel := r.Between(1, 6)
		if r.Chance(0.04) {
			nel = r.Between(33, 40) // beyond defaultElemsPerSeg
		}
		if sweepElems {
			nel = 1 + sweepCount(r)
			if sharedWidth >= 0 {
				nel = 1 + sharedWidth
			}
		}
		wide := nel > 12
		sweepAt := -1
		if (sweepComps || sweepReps) && nel > 1 {
			sweepAt = r.Between(1, nel-1)
		}
		longAt := -1
		longN := 0
		if r.Chance(0.25) && !wide {
			longAt, longN = r.Pick(nel), r.Between(bufSize/4, bufSize*3/4)
			if r.Chance(0.08) {
				longN = r.Between(300, 700)
			}
		}
		for i := 0; i < nel; i++ {
			nrep := 1
			if cfg.Rep != nil {
				nrep = []int{1, 1, 1, 2, 3, 6}[r.Pick(6)]
				if wide {
					nrep = []int{1, 1, 1, 1, 1, 2}[r.Pick(6)]
				}
				if sweepReps && i == sweepAt {
					nrep = 1 + sweepCount(r)
				}
			}
			var el [][]string
			for j := 0; j < nrep; j++ {
				ncomp := 1
				if cfg.Comp != nil {
					ncomp = []int{1, 1, 2, 3, 4, 10}[r.Pick(6)]
					if wide || nrep > 12 {
						ncomp = []int{1, 1, 1, 1, 1, 2}[r.Pick(6)]
					}
					if sweepComps && i == sweepAt && j == 0 {
						ncomp = 1 + sweepCount(r)
					}
				}
				var rp []string
				for k := 0; k < ncomp; k++ {
					long := 0
					if i == longAt && j == 0 && k == 0 {
						long = longN
					}
					d := genData(r, c, long)
					if (wide || nrep > 12 || ncomp > 12) && len(d) > 6 {
						d = guard(c, d[:r.Between(0, 6)])
					}
					if i == 0 && j == 0 && k == 0 {
						if withFull {
							d = sharedName
						} else {
							d = nonCRLFName()
						}
					}
					rp = append(rp, hx(d))
				}
				if ncomp > maxComps {
					maxComps = ncomp
				}
				el = append(el, rp)
			}
			ls.Elems = append(ls.Elems, el)
		}
		if segLF {
			// the last value must not end with a CR (it would be taken for the CR of a CRLF)
			le := ls.Elems[len(ls.Elems)-1]
			lr := le[len(le)-1]
			lr[len(lr)-1] = hx(bytes.TrimRight(unhx(lr[len(lr)-1]), "\r"))
		}
		if nel > maxElems {
			maxElems = nel
		}
		c.Logical = append(c.Logical, ls)
	}
	if withFull {
		c.Full = &fullJ{Name: hx(escape(headsOf(c), unhxp(cfg.Rel), sharedName)), Decls: genDecls(r, maxElems, maxComps)}
	}
	in := encode(c)
	if cfg.IgnoreCRLF {
		in = sprinkleCRLF(r, in, seg)
	}
	c.InputHex = hx(in)
	return c
}

// genDecls: element declarations that pick the first, the last and the beyond-last element /
// component index of the widest segment as well as anything in between; duplicates included.
func genDecls(r *vh.Rng, maxElems, maxComps int) []declJ {
	n := r.Between(0, 6)
	last := maxElems - 1 // the name is element 0
	if last < 1 {
		last = 1
	}
	var ds []declJ
	for i := 0; i < n; i++ {
		d := declJ{}
		switch r.Pick(10) {
		case 0, 1:
			d.Index = 1
		case 2, 3:
			d.Index = last
		case 4:
			d.Index = last + 1 // beyond the last element
		case 5:
			d.Index = last + r.Between(1, 3)
			if r.Chance(0.3) {
				d.Index = 0 // the name element
			}
		default:
			d.Index = r.Between(1, last)
		}
		if r.Chance(0.5) {
			ci := []int{1, 1, 2, 3, maxComps, maxComps, maxComps + 1, r.Between(1, maxComps+1)}[r.Pick(8)]
			if ci < 1 {
				ci = 1
			}
			d.Comp = &ci
		}
		if len(ds) > 0 && r.Chance(0.3) {
			// a second declaration naming the same (index, component)
			p := ds[r.Pick(len(ds))]
			d.Index, d.Comp = p.Index, p.Comp
		}
		switch r.Pick(8) {
		case 0, 1:
			d.EmptyIfMissing = true
		case 2, 3, 4:
			d.Default = hxp([]byte("dflt"), true)
		case 5:
			d.Default = hxp([]byte{}, true)
		case 6:
			d.EmptyIfMissing, d.Default = true, hxp([]byte("both"), true)
		}
		ds = append(ds, d)
	}
	return ds
}

func sprinkleCRLF(r *vh.Rng, in, seg []byte) []byte {
	var out []byte
	for i, b := range in {
		out = append(out, b)
		if i+1 >= len(seg) && bytes.Equal(in[i+1-len(seg):i+1], seg) && r.Chance(0.6) {
			out = append(out, r.PickStr("\n", "\r\n", "\r\n\r\n")...)
		} else if r.Chance(0.03) {
			out = append(out, r.PickStr("\n", "\r", "\r\n")...)
		}
	}
	return out
}

// ---- wild cases: no guard, model vs implementation only --------------------------------------------

var wildSpecials = []string{"~", "*", ":", "^", "?", "??", "~~", "*~", "?*", "*?", "ab", "a", "b", "ba", "\n", "\r\n", "\r", "é", "\xff", "\xc3", "€", "\xe2\x82", "|", "||", "\xef\xbf\xbd"}

func genWild(r *vh.Rng) *caseJ {
	p := func() []byte { return []byte(wildSpecials[r.Pick(len(wildSpecials))]) }
	seg, elem := p(), p()
	if r.Chance(0.5) {
		seg = []byte(r.PickStr("~", "\n", "~\n", "\r\n"))
	}
	if r.Chance(0.5) {
		elem = []byte("*")
	}
	cfg := cfgJ{Seg: hx(seg), Elem: hx(elem), IgnoreCRLF: r.Chance(0.15)}
	if r.Chance(0.6) {
		cfg.Comp = hxp(p(), true)
	}
	if r.Chance(0.4) {
		cfg.Rep = hxp(p(), true)
	}
	if r.Chance(0.75) {
		cfg.Rel = hxp(p(), true)
		if r.Chance(0.5) {
			cfg.Rel = hxp([]byte("?"), true)
		}
	}
	if r.Chance(0.05) {
		cfg.Comp = hxp(nil, true) // a present but empty string behaves like an absent one
	}
	if r.Chance(0.05) {
		cfg.Rel = hxp(nil, true)
	}
	c := &caseJ{Mode: "wild", Cfg: cfg, Reader: r.PickStr("full", "full", "half", "one", "dataerr")}
	sp := specialsOf(c)
	var in []byte
	nseg := r.Between(0, 5)
	for s := 0; s < nseg; s++ {
		if r.Chance(0.8) {
			in = append(in, 'A')
		}
		for k := r.Between(0, 14); k > 0; k-- {
			switch {
			case r.Chance(0.5):
				in = append(in, sp[r.Pick(len(sp))]...)
			case r.Chance(0.1):
				in = append(in, bytes.Repeat([]byte(fillers[r.Pick(len(fillers))]), r.Between(20, 120))...)
			default:
				in = append(in, fillers[r.Pick(len(fillers))]...)
			}
		}
		if r.Chance(0.9) {
			in = append(in, seg...)
		}
	}
	c.InputHex = hx(in)
	if r.Chance(0.5) {
		c.Full = &fullJ{Name: hx([]byte("A")), Decls: genDecls(r, 4, 3)}
	}
	return c
}
