// c20: correspondence + oracle harness for property C20 (JavaScript calls are isolated from each
// other and map values faithfully).
package main

import (
	"encoding/json"
	"fmt"
	"io"
	"math"
	"os"
	"path/filepath"
	"reflect"
	"sort"
	"strconv"
	"strings"
	"sync"

	"github.com/jf-tech/omniparser/customfuncs"
	"github.com/jf-tech/omniparser/errs"
	v21 "github.com/jf-tech/omniparser/extensions/omniv21/customfuncs"
	"github.com/jf-tech/omniparser/idr"
	"github.com/jf-tech/omniparser/transformctx"

	"verifharness/vh"
)

// ---- JavaScript values, as the generator intends them --------------------------------------------

type JV struct {
	K   string  `json:"k"` // undef null bool num str arr obj opq
	B   bool    `json:"b,omitempty"`
	F   float64 `json:"-"`
	FS  string  `json:"f,omitempty"` // number rendered (NaN, +Inf, -Inf or %g) for descriptions
	S   string  `json:"s,omitempty"`
	Arr []JV    `json:"arr,omitempty"`
	Obj []KV    `json:"obj,omitempty"`
	Fn  bool    `json:"fn,omitempty"`
}
type KV struct {
	K string `json:"key"`
	V JV     `json:"v"`
}

func num(f float64) JV { return JV{K: "num", F: f, FS: fmtNum(f)} }
func str(s string) JV  { return JV{K: "str", S: s} }
func fmtNum(f float64) string {
	switch {
	case math.IsNaN(f):
		return "NaN"
	case math.IsInf(f, 1):
		return "+Inf"
	case math.IsInf(f, -1):
		return "-Inf"
	}
	return strconv.FormatFloat(f, 'g', -1, 64)
}

// ---- interning of global names and object keys ---------------------------------------------------

type intern struct {
	ids   map[string]int
	names []string
}

func newIntern() *intern {
	return &intern{ids: map[string]int{"_node": 0}, names: []string{"_node"}}
}
func (it *intern) id(s string) int {
	if id, ok := it.ids[s]; ok {
		return id
	}
	id := len(it.names)
	it.ids[s] = id
	it.names = append(it.names, s)
	return id
}

func coqNum(f float64) string {
	switch {
	case math.IsNaN(f):
		return "NNaN"
	case math.IsInf(f, 1):
		return "NPosInf"
	case math.IsInf(f, -1):
		return "NNegInf"
	}
	return fmt.Sprintf("(NFin %d%%N)", math.Float64bits(f))
}

func (v JV) coq(it *intern) string {
	switch v.K {
	case "undef":
		return "JUndef"
	case "null":
		return "JNull"
	case "bool":
		return "(JBool " + vh.CoqBool(v.B) + ")"
	case "num":
		return "(JNum " + coqNum(v.F) + ")"
	case "str":
		return "(JStr " + vh.CoqHex([]byte(v.S)) + ")"
	case "arr":
		var xs []string
		for _, x := range v.Arr {
			xs = append(xs, x.coq(it))
		}
		return "(JArr " + vh.CoqList(xs) + ")"
	case "obj":
		var xs []string
		for _, kv := range v.Obj {
			xs = append(xs, "("+vh.CoqN(it.id(kv.K))+", "+kv.V.coq(it)+")")
		}
		return "(JObj " + vh.CoqList(xs) + ")"
	}
	return "(JOpaque " + vh.CoqBool(v.Fn) + ")"
}

// js renders the value as a JavaScript expression.
func (v JV) js() string {
	switch v.K {
	case "undef":
		return "(void 0)"
	case "null":
		return "null"
	case "bool":
		return strconv.FormatBool(v.B)
	case "num":
		switch {
		case math.IsNaN(v.F):
			return "(0/0)"
		case math.IsInf(v.F, 1):
			return "(1/0)"
		case math.IsInf(v.F, -1):
			return "(-1/0)"
		}
		return "(" + strconv.FormatFloat(v.F, 'g', -1, 64) + ")"
	case "str":
		b, _ := json.Marshal(v.S)
		return string(b)
	case "arr":
		var xs []string
		for _, x := range v.Arr {
			xs = append(xs, x.js())
		}
		return "[" + strings.Join(xs, ",") + "]"
	case "obj":
		var xs []string
		for _, kv := range v.Obj {
			b, _ := json.Marshal(kv.K)
			xs = append(xs, string(b)+":"+kv.V.js())
		}
		return "({" + strings.Join(xs, ",") + "})"
	}
	return "null"
}

// goArg is the value as omniparser hands it to a custom func.
func (v JV) goArg() interface{} {
	switch v.K {
	case "bool":
		return v.B
	case "num":
		if v.F == math.Trunc(v.F) && math.Abs(v.F) < 1e9 && !(v.F == 0 && math.Signbit(v.F)) {
			return int64(v.F)
		}
		return v.F
	case "str":
		return v.S
	case "arr":
		var xs []interface{}
		for _, x := range v.Arr {
			xs = append(xs, x.goArg())
		}
		return xs
	case "obj":
		m := map[string]interface{}{}
		for _, kv := range v.Obj {
			m[kv.K] = kv.V.goArg()
		}
		return m
	}
	return nil
}

// ---- scripts: the expression language of Model/Js.v ----------------------------------------------

type SE struct {
	K   string `json:"k"` // lit var varor typeof throw arr obj ifdef
	V   *JV    `json:"v,omitempty"`
	X   string `json:"x,omitempty"`
	A   *SE    `json:"a,omitempty"`
	B   *SE    `json:"b,omitempty"`
	Es  []*SE  `json:"es,omitempty"`
	Kvs []SKV  `json:"kvs,omitempty"`
}
type SKV struct {
	K string `json:"key"`
	E *SE    `json:"e"`
}

func (e *SE) js() string {
	switch e.K {
	case "lit":
		return e.V.js()
	case "var":
		return e.X
	case "varor":
		return "(typeof " + e.X + " === 'undefined' ? " + e.A.js() + " : " + e.X + ")"
	case "typeof":
		return "(typeof " + e.X + ")"
	case "throw":
		return "(function(){throw " + e.A.js() + "})()"
	case "arr":
		var xs []string
		for _, x := range e.Es {
			xs = append(xs, x.js())
		}
		return "[" + strings.Join(xs, ",") + "]"
	case "obj":
		var xs []string
		for _, kv := range e.Kvs {
			b, _ := json.Marshal(kv.K)
			xs = append(xs, string(b)+":"+kv.E.js())
		}
		return "({" + strings.Join(xs, ",") + "})"
	case "ifdef":
		return "(typeof " + e.X + " !== 'undefined' ? " + e.A.js() + " : " + e.B.js() + ")"
	}
	return "null"
}

func (e *SE) coq(it *intern) string {
	switch e.K {
	case "lit":
		return "(SLit " + e.V.coq(it) + ")"
	case "var":
		return "(SVar " + vh.CoqN(it.id(e.X)) + ")"
	case "varor":
		return "(SVarOr " + vh.CoqN(it.id(e.X)) + " " + e.A.coq(it) + ")"
	case "typeof":
		return "(STypeof " + vh.CoqN(it.id(e.X)) + ")"
	case "throw":
		return "(SThrow " + e.A.coq(it) + ")"
	case "arr":
		var xs []string
		for _, x := range e.Es {
			xs = append(xs, x.coq(it))
		}
		return "(SArr " + vh.CoqList(xs) + ")"
	case "obj":
		var xs []string
		for _, kv := range e.Kvs {
			xs = append(xs, "("+vh.CoqN(it.id(kv.K))+", "+kv.E.coq(it)+")")
		}
		return "(SObj " + vh.CoqList(xs) + ")"
	case "ifdef":
		return "(SIfDef " + vh.CoqN(it.id(e.X)) + " " + e.A.coq(it) + " " + e.B.coq(it) + ")"
	}
	return "(SLit JNull)"
}

func typeofStr(v JV, ok bool) string {
	if !ok {
		return "undefined"
	}
	switch v.K {
	case "undef":
		return "undefined"
	case "bool":
		return "boolean"
	case "num":
		return "number"
	case "str":
		return "string"
	case "opq":
		if v.Fn {
			return "function"
		}
	}
	return "object"
}

// eval is the generator's own reading of the script: its INTENDED function of the visible
// globals (the oracle on the Go side; independent of Model/Js.v's denote).
func (e *SE) eval(g map[string]JV) (JV, bool) {
	switch e.K {
	case "lit":
		return *e.V, false
	case "var":
		if v, ok := g[e.X]; ok {
			return v, false
		}
		return str("ReferenceError"), true
	case "varor":
		if v, ok := g[e.X]; ok && v.K != "undef" {
			return v, false
		}
		return e.A.eval(g)
	case "typeof":
		v, ok := g[e.X]
		return str(typeofStr(v, ok)), false
	case "throw":
		v, _ := e.A.eval(g)
		return v, true
	case "arr":
		out := JV{K: "arr"}
		for _, x := range e.Es {
			v, th := x.eval(g)
			if th {
				return v, true
			}
			out.Arr = append(out.Arr, v)
		}
		return out, false
	case "obj":
		out := JV{K: "obj"}
		for _, kv := range e.Kvs {
			v, th := kv.E.eval(g)
			if th {
				return v, true
			}
			out.Obj = append(out.Obj, KV{kv.K, v})
		}
		return out, false
	case "ifdef":
		if v, ok := g[e.X]; ok && v.K != "undef" {
			return e.A.eval(g)
		}
		return e.B.eval(g)
	}
	return JV{K: "null"}, false
}

// ---- the real runtime's global object -------------------------------------------------------------

type rtEntry struct {
	Name   string
	Typ    string // typeof
	Config bool
	Write  bool
}

type rtTable struct {
	Own   []rtEntry
	Proto []rtEntry
}

func readRuntimeTable() (*rtTable, error) {
	v21.VerifResetCaches(0, 0)
	q := func(js string) (string, error) {
		v, err := v21.JavaScript(nil, js)
		if err != nil {
			return "", err
		}
		s, _ := v.(string)
		return s, nil
	}
	own, err := q(`Object.getOwnPropertyNames(globalThis).map(function(k){var d=Object.getOwnPropertyDescriptor(globalThis,k);return k+':'+(typeof globalThis[k])+':'+(d.configurable?'c':'-')+(d.writable?'w':'-')}).join(' ')`)
	if err != nil {
		return nil, err
	}
	proto, err := q(`(function(){var out=[];var p=Object.getPrototypeOf(globalThis);while(p){Object.getOwnPropertyNames(p).forEach(function(k){out.push(k+':'+(typeof globalThis[k])+':--')});p=Object.getPrototypeOf(p)}return out.join(' ')})()`)
	if err != nil {
		return nil, err
	}
	parse := func(s string) []rtEntry {
		var es []rtEntry
		for _, f := range strings.Fields(s) {
			p := strings.Split(f, ":")
			if len(p) != 3 {
				continue
			}
			es = append(es, rtEntry{Name: p[0], Typ: p[1], Config: p[2][0] == 'c', Write: p[2][1] == 'w'})
		}
		return es
	}
	return &rtTable{Own: parse(own), Proto: parse(proto)}, nil
}

func builtinJV(e rtEntry) JV {
	switch e.Name {
	case "NaN":
		return num(math.NaN())
	case "Infinity":
		return num(math.Inf(1))
	case "undefined":
		return JV{K: "undef"}
	}
	return JV{K: "opq", Fn: e.Typ == "function"}
}

// ---- one call and its observation -----------------------------------------------------------------

type argT struct {
	Name    string `json:"name"`
	NameBad bool   `json:"name_not_string,omitempty"` // arg name position holds a non-string
	Val     JV     `json:"val"`
}

type callT struct {
	Script   *SE     `json:"script"`
	JS       string  `json:"js"`
	Invalid  bool    `json:"invalid_js,omitempty"`
	Args     []argT  `json:"args"`
	Odd      bool    `json:"odd_arg,omitempty"`
	Node     int     `json:"node"`                // -1: javascript; >=0: javascript_with_context on that node
	NodeKids []nspec `json:"node_kids,omitempty"` // the node's children: enough to rebuild it
	nodeBad  string  // idr.JSONify2 of the node is not the JSON of the node's content
	// filled while running
	NodeID   int64  `json:"-"`
	NodeJSON string `json:"node_json,omitempty"`
	Observed string `json:"observed,omitempty"`
	obsVal   interface{}
	obsErr   error
	obsPanic interface{}
}

func (c *callT) goArgs() []interface{} {
	var out []interface{}
	for _, a := range c.Args {
		if a.NameBad {
			out = append(out, int64(7))
		} else {
			out = append(out, a.Name)
		}
		out = append(out, a.Val.goArg())
	}
	if c.Odd {
		out = append(out, "dangling")
	}
	return out
}

func isThrow(err error) bool {
	if _, ok := err.(*gojaLike); ok {
		return true
	}
	for err != nil {
		if reflect.TypeOf(err).String() == "*goja.Exception" {
			return true
		}
		u, ok := err.(interface{ Unwrap() error })
		if !ok {
			return false
		}
		err = u.Unwrap()
	}
	return false
}

// intended outcome of a call, from the generator's reading of the script and the call's OWN
// inputs only
type want struct {
	Err    bool
	Throw  bool
	Val    JV
	Reason string
}

func intended(tbl *rtTable, c *callT, nodeJSON string) want {
	if c.Odd {
		return want{Err: true, Reason: "odd number of args"}
	}
	if c.Invalid {
		return want{Err: true, Reason: "script does not compile"}
	}
	g := map[string]JV{}
	nonconfig := map[string]bool{}
	for _, e := range tbl.Proto {
		g[e.Name] = builtinJV(e)
	}
	for _, e := range tbl.Own {
		g[e.Name] = builtinJV(e)
		if !e.Config {
			nonconfig[e.Name] = true
		}
	}
	args := map[string]JV{}
	for _, a := range c.Args {
		if a.NameBad {
			return want{Err: true, Reason: "arg name is not a string"}
		}
		args[a.Name] = a.Val
	}
	if c.Node >= 0 {
		args["_node"] = str(nodeJSON)
	}
	for k, v := range args {
		if nonconfig[k] {
			return want{Err: true, Reason: "arg named like a non-configurable global cannot be defined"}
		}
		g[k] = v
	}
	v, th := c.Script.eval(g)
	if th {
		return want{Err: true, Throw: true, Reason: "script throws"}
	}
	switch {
	case v.K == "undef", v.K == "null":
		return want{Err: true, Reason: "result is " + v.K}
	case v.K == "num" && (math.IsNaN(v.F) || math.IsInf(v.F, 0)):
		return want{Err: true, Reason: "result is " + fmtNum(v.F)}
	}
	return want{Val: v}
}

// matches: does the Go value returned by the custom func represent the JavaScript value v ?
func matches(o interface{}, v JV) bool {
	switch v.K {
	case "undef", "null":
		return o == nil
	case "bool":
		b, ok := o.(bool)
		return ok && b == v.B
	case "num":
		var f float64
		switch x := o.(type) {
		case int64:
			f = float64(x)
		case float64:
			f = x
		default:
			return false
		}
		if math.IsNaN(v.F) {
			return math.IsNaN(f)
		}
		return math.Float64bits(f) == math.Float64bits(v.F) || (f == v.F && f != 0)
	case "str":
		s, ok := o.(string)
		return ok && s == v.S
	case "arr":
		a, ok := o.([]interface{})
		if !ok || len(a) != len(v.Arr) {
			return false
		}
		for i := range a {
			if !matches(a[i], v.Arr[i]) {
				return false
			}
		}
		return true
	case "obj":
		m, ok := o.(map[string]interface{})
		if !ok || len(m) != len(v.Obj) {
			return false
		}
		for _, kv := range v.Obj {
			x, ok := m[kv.K]
			if !ok || !matches(x, kv.V) {
				return false
			}
		}
		return true
	}
	return true
}

// coqJSON prints an observed Go value as a Model.Js json term.
func coqJSON(it *intern, o interface{}) string {
	switch x := o.(type) {
	case nil:
		return "JsNull"
	case bool:
		return "(JsBool " + vh.CoqBool(x) + ")"
	case int64:
		return "(JsNum " + coqNum(float64(x)) + ")"
	case int:
		return "(JsNum " + coqNum(float64(x)) + ")"
	case float64:
		return "(JsNum " + coqNum(x) + ")"
	case string:
		return "(JsStr " + vh.CoqHex([]byte(x)) + ")"
	case []interface{}:
		var xs []string
		for _, e := range x {
			xs = append(xs, coqJSON(it, e))
		}
		return "(JsArr " + vh.CoqList(xs) + ")"
	case map[string]interface{}:
		keys := make([]string, 0, len(x))
		for k := range x {
			keys = append(keys, k)
		}
		sort.Strings(keys)
		var xs []string
		for _, k := range keys {
			xs = append(xs, "("+vh.CoqN(it.id(k))+", "+coqJSON(it, x[k])+")")
		}
		return "(JsObj " + vh.CoqList(xs) + ")"
	}
	return "JsOpaque"
}

// ---- generators -------------------------------------------------------------------------------------

var argNames = []string{"a", "b", "c", "x", "val", "$d", "_t", "q1"}
var builtinArgNames = []string{"JSON", "Math", "Date", "parseInt", "Object", "toString", "hasOwnProperty", "constructor", "__proto__", "globalThis"}
var nonconfigNames = []string{"NaN", "undefined", "Infinity"}
var objKeys = []string{"k", "key two", "n", "z9", "ü", "", "leak"}

func genStr(r *vh.Rng) string {
	return r.PickStr("", "x", "hello", "a b", "héllo", "日本", "😀", "q\"uote", "line\nfeed", "0", "null", "</script>")
}

func genNum(r *vh.Rng) float64 {
	switch r.Pick(10) {
	case 0:
		return 0
	case 1:
		return math.Copysign(0, -1)
	case 2:
		return float64(r.Between(-1000, 1000))
	case 3:
		return float64(r.Between(-1000, 1000)) / 8
	case 4:
		return 1e21
	case 5:
		return 9007199254740993
	case 6:
		return 2147483648
	case 7:
		return -5e-324
	case 8:
		return 0.1
	}
	return float64(r.Between(0, 9))
}

// genVal: a JavaScript value of any kind; depth bounds nesting; top says whether the five error
// kinds may appear at this position
func genVal(r *vh.Rng, depth int, special bool) JV {
	k := r.Pick(12)
	if depth <= 0 && k >= 8 {
		k = r.Pick(8)
	}
	switch k {
	case 0, 1:
		return num(genNum(r))
	case 2, 3:
		return str(genStr(r))
	case 4:
		return JV{K: "bool", B: r.Chance(0.5)}
	case 5:
		if special {
			return num([]float64{math.NaN(), math.Inf(1), math.Inf(-1)}[r.Pick(3)])
		}
		return num(genNum(r))
	case 6:
		if special {
			return JV{K: "null"}
		}
		return str(genStr(r))
	case 7:
		if special {
			return JV{K: "undef"}
		}
		return JV{K: "bool", B: true}
	case 8, 9:
		v := JV{K: "arr"}
		for i, n := 0, r.Between(0, 3); i < n; i++ {
			v.Arr = append(v.Arr, genVal(r, depth-1, special))
		}
		return v
	default:
		v := JV{K: "obj"}
		used := map[string]bool{}
		for i, n := 0, r.Between(0, 3); i < n; i++ {
			k := objKeys[r.Pick(len(objKeys))]
			if used[k] {
				continue
			}
			used[k] = true
			v.Obj = append(v.Obj, KV{k, genVal(r, depth-1, special)})
		}
		return v
	}
}

// argument values are what a schema can produce: strings, ints, floats, booleans, arrays, objects
func genArgVal(r *vh.Rng) JV {
	switch r.Pick(7) {
	case 0, 1:
		return str(genStr(r))
	case 2:
		return num(float64(r.Between(-99, 9999)))
	case 3:
		return num(float64(r.Between(-999, 999)) / 4)
	case 4:
		return JV{K: "bool", B: r.Chance(0.5)}
	case 5:
		v := JV{K: "arr"}
		for i, n := 0, r.Between(0, 3); i < n; i++ {
			v.Arr = append(v.Arr, num(float64(r.Between(0, 50))))
		}
		return v
	}
	return JV{K: "obj", Obj: []KV{{"leak", num(42)}, {"k", str(genStr(r))}}}
}

func lit(v JV) *SE { return &SE{K: "lit", V: &v} }

// genScript: scripts that READ names - declared args, undeclared names that earlier calls used,
// built-ins - so that anything left behind by another call changes the result
func genScript(r *vh.Rng, mine []string, others []string, withNode bool, depth int) *SE {
	probe := func() string {
		if len(others) > 0 && r.Chance(0.7) {
			return others[r.Pick(len(others))]
		}
		return argNames[r.Pick(len(argNames))]
	}
	k := r.Pick(14)
	if depth <= 0 && (k == 8 || k == 9) {
		k = r.Pick(8)
	}
	switch k {
	case 0:
		return lit(genVal(r, 2, true))
	case 1:
		if len(mine) > 0 {
			return &SE{K: "var", X: mine[r.Pick(len(mine))]}
		}
		return &SE{K: "varor", X: probe(), A: lit(str("none"))}
	case 2, 3:
		return &SE{K: "varor", X: probe(), A: lit(str("none"))}
	case 4:
		return &SE{K: "typeof", X: probe()}
	case 5:
		return &SE{K: "typeof", X: r.PickStr("JSON", "Math", "Date", "parseInt", "Object", "toString", "hasOwnProperty", "leak", "k", "NaN", "undefined")}
	case 6:
		return &SE{K: "throw", A: lit(genVal(r, 1, true))}
	case 7:
		return &SE{K: "var", X: probe()} // ReferenceError unless it is one of mine
	case 8:
		e := &SE{K: "arr"}
		for i, n := 0, r.Between(1, 4); i < n; i++ {
			e.Es = append(e.Es, genScript(r, mine, others, withNode, depth-1))
		}
		return e
	case 9:
		e := &SE{K: "obj"}
		used := map[string]bool{}
		for i, n := 0, r.Between(1, 3); i < n; i++ {
			k := objKeys[r.Pick(len(objKeys))]
			if used[k] {
				continue
			}
			used[k] = true
			e.Kvs = append(e.Kvs, SKV{k, genScript(r, mine, others, withNode, depth-1)})
		}
		return e
	case 10:
		return &SE{K: "ifdef", X: probe(), A: lit(str("leaked")), B: lit(genVal(r, 1, false))}
	case 11, 12:
		if withNode {
			return &SE{K: "var", X: "_node"}
		}
		return &SE{K: "varor", X: "_node", A: lit(str("no node"))}
	}
	// every declared arg, echoed
	e := &SE{K: "arr"}
	for _, m := range mine {
		e.Es = append(e.Es, &SE{K: "var", X: m})
	}
	e.Es = append(e.Es, &SE{K: "typeof", X: "JSON"})
	return e
}

type genOpts struct {
	builtinNames bool // arg names may be those of built-in / inherited globals
	nonconfig    bool // ... or of non-configurable globals (the call then fails)
	nodes        int  // number of context nodes available
	malformed    bool // odd arg counts, non-string names, scripts that do not compile
}

func hasOpq(v JV) bool {
	switch v.K {
	case "opq":
		return true
	case "arr":
		for _, x := range v.Arr {
			if hasOpq(x) {
				return true
			}
		}
	case "obj":
		for _, kv := range v.Obj {
			if hasOpq(kv.V) {
				return true
			}
		}
	}
	return false
}

var theTable *rtTable

func genCall(r *vh.Rng, seenNames *[]string, o genOpts) *callT {
	c := &callT{Node: -1}
	if o.nodes > 0 && r.Chance(0.4) {
		c.Node = r.Pick(o.nodes)
	}
	n := r.Pick(4)
	used := map[string]bool{}
	var mine []string
	for i := 0; i < n; i++ {
		name := argNames[r.Pick(len(argNames))]
		if o.builtinNames && r.Chance(0.25) {
			name = builtinArgNames[r.Pick(len(builtinArgNames))]
		}
		if o.nonconfig && r.Chance(0.1) {
			name = nonconfigNames[r.Pick(len(nonconfigNames))]
		}
		if r.Chance(0.06) {
			name = "_node" // with a context call this collides with the injected node JSON
		}
		if used[name] && r.Chance(0.7) {
			continue
		}
		used[name] = true
		a := argT{Name: name, Val: genArgVal(r)}
		if o.malformed && r.Chance(0.03) {
			a.NameBad = true
		}
		c.Args = append(c.Args, a)
		if !a.NameBad {
			mine = append(mine, name)
		}
	}
	if o.malformed && r.Chance(0.03) {
		c.Odd = true
	}
	nodeClash := false
	if c.Node >= 0 && r.Chance(0.2) {
		// a context call that ALSO passes an argument literally named _node, at any position and
		// of any type: _node must still be the current node
		a := argT{Name: "_node", Val: genArgVal(r)}
		p := r.Pick(len(c.Args) + 1)
		c.Args = append(c.Args[:p:p], append([]argT{a}, c.Args[p:]...)...)
		mine = append(mine, "_node")
		nodeClash = true
	}
	for {
		// a script must not hand a built-in object or function out as its result (what such a
		// thing exports to is goja's business, not this property's)
		c.Script = genScript(r, mine, *seenNames, c.Node >= 0, 2)
		if nodeClash && r.Chance(0.75) {
			if r.Chance(0.5) {
				c.Script = &SE{K: "var", X: "_node"}
			} else {
				c.Script = &SE{K: "arr", Es: []*SE{{K: "var", X: "_node"}, {K: "typeof", X: "_node"}}}
			}
		}
		if w := intended(theTable, c, "{}"); w.Err || !hasOpq(w.Val) {
			break
		}
	}
	c.JS = c.Script.js()
	if c.Node >= 0 && !nodeClash && r.Chance(0.25) {
		// the node reached WITHOUT spelling the identifier: a computed property name, a property
		// name passed in as an argument, a unicode-escaped identifier
		undef := JV{K: "undef"}
		switch r.Pick(3) {
		case 0:
			c.Script = &SE{K: "varor", X: "_node", A: &SE{K: "lit", V: &undef}}
			c.JS = "this['_' + 'no' + 'de']"
		case 1:
			c.Script = &SE{K: "varor", X: "_node", A: &SE{K: "lit", V: &undef}}
			c.Args = append(c.Args, argT{Name: "key9", Val: str("_node")})
			c.JS = "this[key9]"
		default:
			c.Script = &SE{K: "arr", Es: []*SE{{K: "var", X: "_node"}, {K: "typeof", X: "_node"}}}
			c.JS = "[_n\\u006fde, typeof _n\\u006fde]"
		}
	}
	if o.malformed && r.Chance(0.03) {
		c.Invalid = true
		c.JS = c.JS + " ) ("
	}
	for _, m := range mine {
		*seenNames = append(*seenNames, m)
	}
	return c
}

// ---- running calls directly ---------------------------------------------------------------------

func runDirect(c *callT, nodes []*idr.Node) {
	defer func() {
		if p := recover(); p != nil {
			c.obsPanic = p
			c.Observed = fmt.Sprintf("panic: %v", p)
		}
	}()
	if c.Node >= 0 {
		n := nodes[c.Node]
		c.NodeID = n.ID
		c.NodeJSON = idr.JSONify2(n)
		if k, ok := nodeKids.Load(n); ok {
			c.NodeKids = k.([]nspec)
			// the oracle's own rendering of the node's content, independent of idr.JSONify2
			if mine := specJSON(c.NodeKids); mine != c.NodeJSON {
				c.nodeBad = fmt.Sprintf("idr.JSONify2 of the context node is %s but the node's content is %s", c.NodeJSON, mine)
				c.NodeJSON = mine
			}
		}
		c.obsVal, c.obsErr = v21.JavaScriptWithContext(nil, n, c.JS, c.goArgs()...)
	} else {
		c.obsVal, c.obsErr = v21.JavaScript(nil, c.JS, c.goArgs()...)
	}
	if c.obsErr != nil {
		c.Observed = "error: " + c.obsErr.Error()
	} else {
		b, err := json.Marshal(c.obsVal)
		if err != nil {
			c.Observed = fmt.Sprintf("%#v", c.obsVal)
		} else {
			c.Observed = string(b)
		}
	}
}

// judge evaluates the property oracle for one call on the implementation side.
func judge(tbl *rtTable, c *callT) string {
	if c.nodeBad != "" {
		return c.nodeBad
	}
	if c.obsPanic != nil {
		return fmt.Sprintf("call panicked: %v", c.obsPanic)
	}
	w := intended(tbl, c, c.NodeJSON)
	switch {
	case w.Err && c.obsErr == nil:
		return fmt.Sprintf("expected an error (%s) but got value %s", w.Reason, c.Observed)
	case !w.Err && c.obsErr != nil:
		return fmt.Sprintf("expected value %s but got %s", w.Val.js(), c.Observed)
	case w.Err && w.Throw != isThrow(c.obsErr):
		return fmt.Sprintf("error kind differs (%s): %s", w.Reason, c.Observed)
	case !w.Err && !matches(c.obsVal, w.Val):
		return fmt.Sprintf("result differs from the script's own function of (args, _node): want %s, got %s", w.Val.js(), c.Observed)
	}
	return ""
}

// nspec describes an element node: a leaf (one text child) or an element with element children
type nspec struct {
	Name string  `json:"name"`
	Leaf bool    `json:"leaf,omitempty"`
	Text string  `json:"text,omitempty"`
	Kids []nspec `json:"kids,omitempty"`
}

func mkNode(r *vh.Rng, label int) *idr.Node {
	var kids []nspec
	for i, k := 0, r.Between(0, 3); i < k; i++ {
		kids = append(kids, nspec{Name: r.PickStr("a", "b", "c", "dd"), Leaf: true, Text: genStr(r)})
	}
	if r.Chance(0.4) {
		// repeated children whose instances are themselves array-shaped (>= 2 identically named
		// children), next to differently named siblings
		group := func() nspec {
			g := nspec{Name: "ship"}
			for i, k := 0, r.Between(2, 3); i < k; i++ {
				g.Kids = append(g.Kids, nspec{Name: "box", Leaf: true, Text: genStr(r)})
			}
			return g
		}
		var rep []nspec
		for i, k := 0, r.Between(2, 3); i < k; i++ {
			x := group()
			if i > 0 && r.Chance(0.3) {
				x = nspec{Name: "ship", Leaf: true, Text: genStr(r)}
			}
			if i > 0 && r.Chance(0.2) {
				x.Kids = append(x.Kids, nspec{Name: "lid", Leaf: true, Text: "z"})
			}
			rep = append(rep, x)
		}
		p := r.Pick(len(kids) + 1)
		kids = append(kids[:p:p], append(rep, kids[p:]...)...)
		if r.Chance(0.8) {
			kids = append(kids, nspec{Name: "id", Leaf: true, Text: fmt.Sprint(r.Pick(100))})
		}
	}
	return buildNode(kids)
}

var nodeKids sync.Map // *idr.Node -> []nspec

func buildSpec(sp nspec) *idr.Node {
	n := idr.CreateNode(idr.ElementNode, sp.Name)
	if sp.Leaf {
		idr.AddChild(n, idr.CreateNode(idr.TextNode, sp.Text))
		return n
	}
	for _, k := range sp.Kids {
		idr.AddChild(n, buildSpec(k))
	}
	return n
}

func buildNode(kids []nspec) *idr.Node {
	root := buildSpec(nspec{Name: "n", Kids: kids})
	nodeKids.Store(root, kids)
	return root
}

// specValue is what the documentation says a node looks like as JSON: a leaf is its text; children
// that all share one name (two or more of them) are an array; otherwise an object whose repeated
// names collect their values, in order, into an array.  Written from the spec, not from marshal2.go.
func specValue(sp nspec) interface{} {
	if sp.Leaf {
		return sp.Text
	}
	same := len(sp.Kids) > 1
	for _, k := range sp.Kids {
		if k.Name != sp.Kids[0].Name {
			same = false
		}
	}
	if same {
		arr := []interface{}{}
		for _, k := range sp.Kids {
			arr = append(arr, specValue(k))
		}
		return arr
	}
	obj := map[string]interface{}{}
	count := map[string]int{}
	for _, k := range sp.Kids {
		count[k.Name]++
	}
	for _, k := range sp.Kids {
		if count[k.Name] > 1 {
			cur, _ := obj[k.Name].([]interface{})
			obj[k.Name] = append(cur, specValue(k))
		} else {
			obj[k.Name] = specValue(k)
		}
	}
	return obj
}

func specJSON(kids []nspec) string {
	b, _ := json.Marshal(specValue(nspec{Name: "n", Kids: kids}))
	return string(b)
}

// ---- Coq case -----------------------------------------------------------------------------------------

type cacheCfg struct {
	Name    string
	NoCache bool
	ProgCap int
	NodeCap int
}

var cfgs = []cacheCfg{{"default", false, 0, 0}, {"disabled", true, 0, 0}, {"capacity-one", false, 1, 1}}

func applyCfg(c cacheCfg) {
	v21.VerifSetDisableCaching(c.NoCache)
	v21.VerifResetCaches(c.ProgCap, c.NodeCap)
}

func capN(c int) string {
	if c <= 0 {
		return "65536%N"
	}
	return vh.CoqN(c)
}

func perm(r *vh.Rng, xs []int) []int {
	out := append([]int(nil), xs...)
	r.Shuffle(len(out), func(i, j int) { out[i], out[j] = out[j], out[i] })
	return out
}

func coqNs(xs []int) string {
	var s []string
	for _, x := range xs {
		s = append(s, vh.CoqN(x))
	}
	return vh.CoqList(s)
}

// coqCase renders the calls (in the given order) with what was observed.  nodeLabel maps the
// real node IDs to small labels (IDs themselves are never compared).
func coqCase(r *vh.Rng, it *intern, tbl *rtTable, cfg cacheCfg, calls []*callT) string {
	var own, proto []string
	for _, e := range tbl.Own {
		own = append(own, fmt.Sprintf("(%s, (%s, %s))", vh.CoqN(it.id(e.Name)), builtinJV(e).coq(it), vh.CoqBool(e.Config)))
	}
	for _, e := range tbl.Proto {
		proto = append(proto, fmt.Sprintf("(%s, %s)", vh.CoqN(it.id(e.Name)), builtinJV(e).coq(it)))
	}
	scripts := map[string]int{}
	var stbl []string
	var events, obs []string
	nodeLabels := map[int64]int{}
	pool := 0
	for _, c := range calls {
		sid, ok := scripts[c.JS]
		if !ok {
			sid = len(scripts) + 1
			scripts[c.JS] = sid
			if c.Invalid {
				stbl = append(stbl, fmt.Sprintf("(%s, None)", vh.CoqN(sid)))
			} else {
				stbl = append(stbl, fmt.Sprintf("(%s, Some %s)", vh.CoqN(sid), c.Script.coq(it)))
			}
		}
		node := "None"
		if c.Node >= 0 {
			lbl, ok := nodeLabels[c.NodeID]
			if !ok {
				lbl = len(nodeLabels) + 1
				nodeLabels[c.NodeID] = lbl
			}
			node = fmt.Sprintf("(Some (%s, %s))", vh.CoqN(lbl), vh.CoqHex([]byte(c.NodeJSON)))
		}
		var args []string
		keyset := map[int]bool{}
		var keys []int
		bad := false
		for _, a := range c.Args {
			if a.NameBad {
				args = append(args, "(NmOther, "+a.Val.coq(it)+")")
				bad = true
				continue
			}
			id := it.id(a.Name)
			args = append(args, "(NmStr "+vh.CoqN(id)+", "+a.Val.coq(it)+")")
			if !keyset[id] {
				keyset[id] = true
				keys = append(keys, id)
			}
		}
		if c.Node >= 0 && !keyset[0] {
			keys = append(keys, 0)
		}
		_ = bad
		ch := "ChFresh"
		if pool > 0 && r.Chance(0.8) {
			ch = "(ChPool " + vh.CoqNat(r.Pick(pool)) + ")"
		}
		if ch == "ChFresh" && !c.Odd && !c.Invalid && !bad && !cfg.NoCache {
			pool++
		}
		events = append(events, fmt.Sprintf("EvCall (mkCall %s %s %s %s) (mkSched %s %s %s)",
			node, vh.CoqN(sid), vh.CoqList(args), vh.CoqBool(c.Odd), ch, coqNs(perm(r, keys)), coqNs(perm(r, keys))))
		if pool > 1 && r.Chance(0.1) {
			events = append(events, "EvGc "+vh.CoqNat(r.Pick(pool)))
			pool--
		}
		o := ""
		switch {
		case c.obsPanic != nil:
			o = "ObsErr" // never matches a model value; a panic is reported by the oracle anyway
		case c.obsErr != nil && isThrow(c.obsErr):
			o = "ObsThrow"
		case c.obsErr != nil:
			o = "ObsErr"
		default:
			o = "ObsVal " + coqJSON(it, c.obsVal)
		}
		seen := "None"
		if c.Node >= 0 && c.Script.K == "var" && c.Script.X == "_node" && c.obsErr == nil {
			if s, ok := c.obsVal.(string); ok {
				seen = "(Some " + vh.CoqHex([]byte(s)) + ")"
			}
		}
		obs = append(obs, "("+o+", "+seen+")")
	}
	return fmt.Sprintf("mkJCase %s %s %s %s %s %s %s %s", vh.CoqList(own), vh.CoqList(proto), vh.CoqBool(cfg.NoCache),
		capN(cfg.ProgCap), capN(cfg.NodeCap), vh.CoqList(stbl), vh.CoqList(events), vh.CoqList(obs))
}

// nontrivial: two calls with different argument-name sets that can share a pooled VM
func nontrivial(cfg cacheCfg, calls []*callT) bool {
	if cfg.NoCache {
		return false
	}
	sets := map[string]bool{}
	for _, c := range calls {
		if c.Odd || c.Invalid {
			continue
		}
		var ns []string
		for _, a := range c.Args {
			ns = append(ns, a.Name)
		}
		sort.Strings(ns)
		sets[strings.Join(ns, ",")] = true
	}
	return len(sets) >= 2
}

type caseDesc struct {
	Kind   string      `json:"kind"`
	Cache  string      `json:"cache"`
	Calls  interface{} `json:"calls,omitempty"`
	Schema string      `json:"schema,omitempty"`
	Input  string      `json:"input,omitempty"`
}

// ---- transforms -----------------------------------------------------------------------------------------

type probeOut struct {
	ID   int64
	JSON string
}

// schema arg for a value: consts with a type cast, or arrays / objects of consts
func schemaArg(v JV) string {
	q := func(s string) string { b, _ := json.Marshal(s); return string(b) }
	switch v.K {
	case "str":
		return `{"const": ` + q(v.S) + `, "no_trim": true, "keep_empty_or_null": true}`
	case "bool":
		return `{"const": "` + strconv.FormatBool(v.B) + `", "type": "boolean"}`
	case "num":
		if _, ok := v.goArg().(int64); ok {
			return `{"const": "` + strconv.FormatInt(int64(v.F), 10) + `", "type": "int"}`
		}
		return `{"const": "` + strconv.FormatFloat(v.F, 'g', -1, 64) + `", "type": "float"}`
	case "arr":
		var xs []string
		for _, x := range v.Arr {
			xs = append(xs, schemaArg(x))
		}
		return `{"array": [` + strings.Join(xs, ",") + `]}`
	case "obj":
		var xs []string
		for _, kv := range v.Obj {
			xs = append(xs, q(kv.K)+": "+schemaArg(kv.V))
		}
		return `{"object": {` + strings.Join(xs, ",") + `}}`
	}
	return `{"const": "x"}`
}

// what a schema-produced argument value looks like when it reaches the custom func: empty
// strings/arrays inside objects and arrays are dropped by the transform itself, which is not
// this property's business - the generator avoids them here
func schemaSafe(v JV) bool {
	switch v.K {
	case "str":
		return v.S != ""
	case "arr":
		if len(v.Arr) == 0 {
			return false
		}
		for _, x := range v.Arr {
			if !schemaSafe(x) {
				return false
			}
		}
	case "obj":
		return false // the schema language has no object-valued custom_func argument
	}
	return true
}

type tfField struct {
	Name   string
	Call   *callT
	XP     string // xpath of the custom_func ("." or "..")
	Strict bool   // no ignore_error: a failing call fails the record
}

func buildSchema(fields []tfField) string {
	var fs []string
	for _, f := range fields {
		c := f.Call
		fn := "javascript"
		if c.Node >= 0 {
			fn = "javascript_with_context"
		}
		b, _ := json.Marshal(c.JS)
		args := []string{`{"const": ` + string(b) + `, "no_trim": true}`}
		for _, a := range c.Args {
			nb, _ := json.Marshal(a.Name)
			args = append(args, `{"const": `+string(nb)+`}`, schemaArg(a.Val))
		}
		ign := `"ignore_error": true, `
		if f.Strict {
			ign = ""
		}
		fs = append(fs, fmt.Sprintf(`%q: {"xpath": %q, "custom_func": {"name": %q, %s"args": [%s]}, "no_trim": true, "keep_empty_or_null": true}`,
			f.Name, f.XP, fn, ign, strings.Join(args, ",")))
		fs = append(fs, fmt.Sprintf(`%q: {"xpath": %q, "custom_func": {"name": "verif_probe"}, "no_trim": true}`, f.Name+"_probe", f.XP))
	}
	return `{"parser_settings": {"version": "omni.2.1", "file_format_type": "json"},
 "transform_declarations": {"FINAL_OUTPUT": {"xpath": "/*", "object": {` + strings.Join(fs, ",\n") + `}}}}`
}

var probeFuncs = customfuncs.CustomFuncs{
	"verif_probe": func(_ *transformctx.Ctx, n *idr.Node) (interface{}, error) {
		return fmt.Sprintf("%d|%s", n.ID, idr.JSONify2(n)), nil
	},
}

// runTransform runs the schema over the input and returns, per record, the per-field calls
// (copies of the field's call with observation filled in).
func runTransform(schema, input string, fields []tfField) (recs [][]*callT, fatal string) {
	defer func() {
		if p := recover(); p != nil {
			fatal = fmt.Sprintf("panic: %v", p)
		}
	}()
	ls, err := vh.NewLoggedSchema("c20", []byte(schema), probeFuncs)
	if err != nil {
		return nil, "schema rejected: " + err.Error()
	}
	t, _, err := ls.NewTransform("in", strings.NewReader(input))
	if err != nil {
		return nil, "NewTransform: " + err.Error()
	}
	for i := 0; i < 1000; i++ {
		b, err := t.Read()
		if err == io.EOF {
			return recs, ""
		}
		if err != nil && errs.IsErrTransformFailed(err) {
			recs = append(recs, nil) // the record failed (a strict call failed)
			continue
		}
		if err != nil {
			return recs, "Read: " + err.Error()
		}
		var out map[string]interface{}
		dec := json.NewDecoder(strings.NewReader(string(b)))
		if err := dec.Decode(&out); err != nil {
			return recs, "output not JSON: " + err.Error()
		}
		var rec []*callT
		for _, f := range fields {
			c := *f.Call
			v, present := out[f.Name]
			if !present || v == nil {
				c.obsErr = fmt.Errorf("custom_func failed (ignore_error)")
				c.Observed = "error (field is null)"
			} else {
				c.obsVal = normJSON(v)
				vb, _ := json.Marshal(v)
				c.Observed = string(vb)
			}
			if p, ok := out[f.Name+"_probe"].(string); ok {
				if i := strings.IndexByte(p, '|'); i > 0 {
					c.NodeID, _ = strconv.ParseInt(p[:i], 10, 64)
					c.NodeJSON = p[i+1:]
				}
			}
			rec = append(rec, &c)
		}
		recs = append(recs, rec)
	}
	return recs, "no EOF within 1000 reads"
}

// JSON numbers decode as float64; that is exactly the identity numbers are compared by
func normJSON(v interface{}) interface{} { return v }

// judgeTransform: the oracle for a call observed through Read (an error is only visible as a
// null field, so the kind of error is not compared)
func judgeTransform(tbl *rtTable, c *callT) string {
	w := intended(tbl, c, c.NodeJSON)
	switch {
	case w.Err && c.obsErr == nil:
		return fmt.Sprintf("expected an error (%s) but got value %s", w.Reason, c.Observed)
	case !w.Err && c.obsErr != nil:
		return fmt.Sprintf("expected value %s but the field is null (the call failed)", w.Val.js())
	case !w.Err && !matches(c.obsVal, w.Val):
		if c.Node >= 0 {
			return fmt.Sprintf("_node / result differs from the script's own function of (args, JSON of the node's current content %s): want %s, got %s", c.NodeJSON, w.Val.js(), c.Observed)
		}
		return fmt.Sprintf("result differs from the script's own function of its args: want %s, got %s", w.Val.js(), c.Observed)
	}
	return ""
}

// ---- corpus ------------------------------------------------------------------------------------------------

type corpusCall struct {
	JS      string        `json:"js"`
	Args    []interface{} `json:"args"`
	Context bool          `json:"context,omitempty"`
	Expect  interface{}   `json:"expect,omitempty"`
	WantErr bool          `json:"expect_error,omitempty"`
}
type corpusCase struct {
	Name   string                 `json:"name"`
	Kind   string                 `json:"kind"` // direct | transform
	Status string                 `json:"status"`
	Calls  []corpusCall           `json:"calls,omitempty"`
	Case   map[string]interface{} `json:"case,omitempty"` // transform: format, input, target, xpath, script
	What   string                 `json:"what,omitempty"`
}

func runCorpus(dir string, tbl *rtTable, sum *vh.Summary) {
	files, _ := filepath.Glob(filepath.Join(dir, "*.json"))
	sort.Strings(files)
	for _, f := range files {
		b, err := os.ReadFile(f)
		if err != nil {
			continue
		}
		var cc corpusCase
		if err := json.Unmarshal(b, &cc); err != nil {
			sum.Fail("corpus file unreadable: "+filepath.Base(f), map[string]string{"file": filepath.Base(f)}, err.Error())
			continue
		}
		sum.Hist("corpus:" + cc.Name)
		switch cc.Kind {
		case "direct":
			for _, cfg := range cfgs[:1] {
				applyCfg(cfg)
				for i, c := range cc.Calls {
					var v interface{}
					var err error
					func() {
						defer func() {
							if p := recover(); p != nil {
								err = fmt.Errorf("panic: %v", p)
							}
						}()
						v, err = v21.JavaScript(nil, c.JS, fixArgs(c.Args)...)
					}()
					bad := ""
					if c.WantErr && err == nil {
						bad = fmt.Sprintf("call %d (%s): expected an error, got %v", i, c.JS, v)
					} else if !c.WantErr && err != nil {
						bad = fmt.Sprintf("call %d (%s): unexpected error %v", i, c.JS, err)
					} else if !c.WantErr && c.Expect != nil {
						vb, _ := json.Marshal(v)
						eb, _ := json.Marshal(c.Expect)
						if string(vb) != string(eb) {
							bad = fmt.Sprintf("call %d (%s): got %s, want %s", i, c.JS, vb, eb)
						}
					}
					if bad != "" {
						sum.Fail("regression corpus case "+cc.Name+" fails: "+cc.What, map[string]interface{}{"corpus": cc.Name, "calls": cc.Calls}, bad)
						break
					}
				}
			}
		case "transform":
			applyCfg(cfgs[0])
			xp, _ := cc.Case["xpath"].(string)
			script, _ := cc.Case["script"].(string)
			input, _ := cc.Case["input"].(string)
			se := &SE{K: "var", X: "_node"}
			if script != se.js() {
				sum.Fail("corpus case "+cc.Name+": only the script `_node` is supported", cc.Case, script)
				continue
			}
			fields := []tfField{{Name: "f", XP: xp, Call: &callT{Script: se, JS: script, Node: 0}}}
			recs, fatal := runTransform(buildSchema(fields), input, fields)
			if fatal != "" {
				sum.Fail("corpus case "+cc.Name+" could not run", cc.Case, fatal)
				continue
			}
			var details []string
			for i, rec := range recs {
				if rec == nil {
					details = append(details, fmt.Sprintf("record %d: failed", i+1))
					continue
				}
				if j := judgeTransform(tbl, rec[0]); j != "" {
					details = append(details, fmt.Sprintf("record %d: %s", i+1, j))
				}
			}
			if len(details) > 0 {
				sum.Fail(cc.What, cc.Case, details)
				fmt.Printf("corpus %s fails (status %s); key for KNOWN_FINDINGS.txt: %s\n", cc.Name, cc.Status, vh.KeyOf(cc.Case))
			} else {
				fmt.Printf("corpus %s passes (status %s)\n", cc.Name, cc.Status)
			}
		}
	}
	v21.VerifSetDisableCaching(false)
}

// JSON numbers in corpus args become int64 when integral (what a schema's type:int yields)
func fixArgs(in []interface{}) []interface{} {
	out := make([]interface{}, len(in))
	for i, a := range in {
		if f, ok := a.(float64); ok && f == math.Trunc(f) {
			out[i] = int64(f)
		} else {
			out[i] = a
		}
	}
	return out
}

// ---- main ----------------------------------------------------------------------------------------------------

func main() {
	o := vh.ParseOpts()
	r := vh.NewRng(o.Seed)
	sum := vh.NewSummary("C20", o,
		"sequences of javascript / javascript_with_context calls (direct, through Transforms, and on 8 goroutines; caches default / disabled / capacity one); non-trivial = the sequence contains two calls with different argument-name sets that can share a pooled VM (pooling on); distinct by (kind, cache config, scripts, args)")
	cw := vh.NewCaseWriter(o, "C20", "Model.Js", "jcase", "check_case")
	if o.Tier != "thorough" {
		cw.PerFile = 64 // more shards: bin/check evaluates 16 files in parallel
	}
	tbl, err := readRuntimeTable()
	if err != nil || len(tbl.Own) < 10 {
		sum.Fail("cannot read the runtime's global object through the javascript custom func", nil, fmt.Sprint(err))
		sum.Write(o)
		return
	}
	theTable = tbl
	it := newIntern()
	for _, e := range tbl.Own {
		it.id(e.Name)
	}
	for _, e := range tbl.Proto {
		it.id(e.Name)
	}
	sum.Extra["runtime_own_globals"] = len(tbl.Own)
	sum.Extra["runtime_inherited_globals"] = len(tbl.Proto)

	if o.Replay != "" {
		replay(o, tbl)
		sum.Write(o)
		return
	}
	if o.Corpus != "" {
		runCorpus(o.Corpus, tbl, sum)
	}

	total := o.Count(700, 20000)
	for n := 0; n < total; n++ {
		cfg := cfgs[r.Pick(len(cfgs))]
		kind := []string{"direct", "direct", "direct", "transform", "concurrent", "ancestor"}[r.Pick(6)]
		if n%30 == 3 {
			kind = "ctransform"
		}
		if n%300 == 7 {
			kind = "stress"
			cfg = cfgs[0]
		}
		sum.Hist("kind:" + kind)
		sum.Hist("cache:" + cfg.Name)
		applyCfg(cfg)
		opts := genOpts{builtinNames: r.Chance(0.5), nonconfig: r.Chance(0.2), malformed: r.Chance(0.3)}
		switch kind {
		case "stress":
			runStress(o, r, sum, cw, it, tbl, cfg)
		case "ctransform":
			runConcurrentTransforms(o, r, sum, cw, it, tbl, cfg)
		case "ancestor":
			runAncestor(o, r, sum, cw, it, tbl, cfg)
		case "direct":
			opts.nodes = r.Pick(3)
			var nodes []*idr.Node
			for i := 0; i < opts.nodes; i++ {
				nodes = append(nodes, mkNode(r, i))
			}
			var seen []string
			var calls []*callT
			for i, k := 0, r.Between(2, 9); i < k; i++ {
				calls = append(calls, genCall(r, &seen, opts))
			}
			if r.Chance(0.35) {
				calls = addWhitespaceTwins(r, calls, &seen, opts)
				sum.Hist("direct:whitespace-twins")
			}
			vh.Current(o, caseDesc{Kind: kind, Cache: cfg.Name, Calls: calls})
			for _, c := range calls {
				runDirect(c, nodes)
			}
			desc := caseDesc{Kind: kind, Cache: cfg.Name, Calls: calls}
			finish(r, sum, cw, it, tbl, cfg, calls, desc, judge)
		case "concurrent":
			const G = 8
			var per [G][]*callT
			var nodes [G][]*idr.Node
			var seen []string
			for g := 0; g < G; g++ {
				opts.nodes = r.Pick(2)
				for i := 0; i < opts.nodes; i++ {
					nodes[g] = append(nodes[g], mkNode(r, g*10+i))
				}
				for i, k := 0, r.Between(2, 5); i < k; i++ {
					per[g] = append(per[g], genCall(r, &seen, opts))
				}
			}
			vh.Current(o, caseDesc{Kind: kind, Cache: cfg.Name, Calls: per})
			var wg sync.WaitGroup
			for g := 0; g < G; g++ {
				wg.Add(1)
				go func(g int) {
					defer wg.Done()
					for _, c := range per[g] {
						runDirect(c, nodes[g])
					}
				}(g)
			}
			wg.Wait()
			var calls []*callT
			for g := 0; g < G; g++ {
				calls = append(calls, per[g]...)
			}
			desc := caseDesc{Kind: kind, Cache: cfg.Name, Calls: per}
			finish(r, sum, cw, it, tbl, cfg, calls, desc, judge)
		case "transform":
			// records of a JSON array; FINAL_OUTPUT has 1..3 javascript fields; context calls
			// are on the record node itself (the guard: a node whose content is complete)
			opts.malformed = false
			opts.nonconfig = false
			var seen []string
			var fields []tfField
			for i, k := 0, r.Between(1, 3); i < k; i++ {
				opts.nodes = 1
				var c *callT
				for tries := 0; ; tries++ {
					c = genCall(r, &seen, opts)
					ok := true
					for _, a := range c.Args {
						if !schemaSafe(a.Val) {
							ok = false
						}
					}
					if ok && transformSafe(c.Script) {
						break
					}
				}
				fields = append(fields, tfField{Name: fmt.Sprintf("f%d", i), Call: c, XP: "."})
			}
			if r.Chance(0.45) {
				// lenient / strict twins on one node: the same call once with ignore_error (evaluated
				// first: members are evaluated in name order) and once without - the strict one
				// must run for itself and fail the record when its script fails
				f := fields[r.Pick(len(fields))]
				twin := *f.Call
				fields = append(fields, tfField{Name: f.Name + "s", Call: &twin, XP: f.XP, Strict: true})
				sum.Hist("transform:lenient-strict-twins")
			}
			nrec := r.Between(1, 4)
			var recsIn []string
			for i := 0; i < nrec; i++ {
				recsIn = append(recsIn, fmt.Sprintf(`{"v":%d,"s":%q}`, r.Between(0, 99), genStr(r)))
			}
			input := "[" + strings.Join(recsIn, ",") + "]"
			schema := buildSchema(fields)
			vh.Current(o, caseDesc{Kind: kind, Cache: cfg.Name, Schema: schema, Input: input})
			recs, fatal := runTransform(schema, input, fields)
			desc := caseDesc{Kind: kind, Cache: cfg.Name, Schema: schema, Input: input}
			if fatal != "" {
				sum.Fail("transform over javascript fields did not run to EOF", desc, fatal)
				continue
			}
			if len(recs) != nrec {
				sum.Fail("transform delivered a different number of records", desc, fmt.Sprintf("%d of %d", len(recs), nrec))
				continue
			}
			var calls []*callT
			bad := ""
			for ri, rec := range recs {
				strictFails := ""
				for _, f := range fields {
					if f.Strict {
						if w := intended(tbl, f.Call, "{}"); w.Err {
							strictFails = f.Name + ": " + w.Reason
						}
					}
				}
				switch {
				case rec == nil && strictFails == "":
					bad = fmt.Sprintf("record %d failed although no strict javascript call of it fails", ri+1)
				case rec != nil && strictFails != "":
					bad = fmt.Sprintf("record %d was delivered although its strict (no ignore_error) javascript call fails (%s): the failure was swallowed", ri+1, strictFails)
				}
				if rec == nil {
					sum.Hist("transform:record-failed-by-strict-call")
				}
				calls = append(calls, rec...)
			}
			desc.Calls = calls
			if bad != "" {
				sum.Fail(bad, desc, nil)
			}
			finish(r, sum, cw, it, tbl, cfg, calls, desc, judgeTransform)
		}
	}
	v21.VerifSetDisableCaching(false)
	v21.VerifResetCaches(0, 0)
	vh.Done(o)
	cw.Flush()
	sum.CaseFiles = cw.Files
	sum.Write(o)
}

// through a Transform: only JSON-representable results (a nested NaN makes json.Marshal of the
// whole record fail, which is outside this property), no empty strings (dropped by the
// transform's own normalisation of a result), no thrown non-error kinds ambiguity
func transformSafe(e *SE) bool {
	var okV func(v JV, top bool) bool
	okV = func(v JV, top bool) bool {
		switch v.K {
		case "num":
			return top || !(math.IsNaN(v.F) || math.IsInf(v.F, 0))
		case "arr":
			for _, x := range v.Arr {
				if !okV(x, false) {
					return false
				}
			}
		case "obj":
			for _, kv := range v.Obj {
				if !okV(kv.V, false) {
					return false
				}
			}
		}
		return true
	}
	switch e.K {
	case "lit":
		return okV(*e.V, true)
	case "varor", "throw":
		return transformSafe(e.A)
	case "ifdef":
		return transformSafe(e.A) && transformSafe(e.B)
	case "arr":
		for _, x := range e.Es {
			if !transformSafeNested(x) {
				return false
			}
		}
	case "obj":
		for _, kv := range e.Kvs {
			if !transformSafeNested(kv.E) {
				return false
			}
		}
	}
	return true
}

func transformSafeNested(e *SE) bool {
	if e.K == "lit" && e.V.K == "num" && (math.IsNaN(e.V.F) || math.IsInf(e.V.F, 0)) {
		return false
	}
	if e.K == "varor" || e.K == "ifdef" {
		if e.A != nil && !transformSafeNested(e.A) {
			return false
		}
		if e.B != nil && !transformSafeNested(e.B) {
			return false
		}
	}
	return transformSafe(e)
}

func finish(r *vh.Rng, sum *vh.Summary, cw *vh.CaseWriter, it *intern, tbl *rtTable, cfg cacheCfg, calls []*callT,
	desc caseDesc, jd func(*rtTable, *callT) string) {
	canon, _ := json.Marshal(desc)
	sum.Count(string(canon), nontrivial(cfg, calls))
	sum.Hist(fmt.Sprintf("calls:%d-%d", len(calls)/5*5, len(calls)/5*5+4))
	for _, c := range calls {
		w := intended(tbl, c, c.NodeJSON)
		switch {
		case w.Err:
			sum.Hist("intended:error:" + w.Reason)
		default:
			sum.Hist("intended:value:" + w.Val.K)
		}
		if c.Node >= 0 {
			sum.Hist("with_context")
		}
	}
	sum.Sample(desc)
	for i, c := range calls {
		if j := jd(tbl, c); j != "" {
			sum.Fail("javascript call "+fmt.Sprint(i)+" of the sequence: "+j, desc, map[string]interface{}{"call": c, "index": i})
			break
		}
	}
	// through a Transform the error's Go type is invisible: give the model's view of a throw
	if desc.Kind == "transform" || desc.Kind == "ancestor" {
		for _, c := range calls {
			if c.obsErr != nil {
				if w := intended(tbl, c, c.NodeJSON); w.Throw {
					c.obsErr = &gojaLike{}
				}
			}
		}
	}
	cw.Add(coqCase(r, it, tbl, cfg, calls), desc)
}

// gojaLike stands for "a thrown exception" when only error-ness was observable
type gojaLike struct{}

func (*gojaLike) Error() string { return "thrown" }

// ---- replay -------------------------------------------------------------------------------------------------

func fixJV(v *JV) {
	if v == nil {
		return
	}
	if v.K == "num" {
		switch v.FS {
		case "NaN":
			v.F = math.NaN()
		case "+Inf":
			v.F = math.Inf(1)
		case "-Inf":
			v.F = math.Inf(-1)
		default:
			v.F, _ = strconv.ParseFloat(v.FS, 64)
		}
	}
	for i := range v.Arr {
		fixJV(&v.Arr[i])
	}
	for i := range v.Obj {
		fixJV(&v.Obj[i].V)
	}
}

func fixSE(e *SE) {
	if e == nil {
		return
	}
	fixJV(e.V)
	fixSE(e.A)
	fixSE(e.B)
	for _, x := range e.Es {
		fixSE(x)
	}
	for i := range e.Kvs {
		fixSE(e.Kvs[i].E)
	}
}

// replay re-runs the case of a replay file written by bin/check on the current tree and prints,
// per call, what the implementation returns and what the script's own function of its inputs is.
func replay(o *vh.Opts, tbl *rtTable) {
	b, err := os.ReadFile(o.Replay)
	if err != nil {
		fmt.Println("replay:", err)
		return
	}
	var f struct {
		Oracle string `json:"oracle"`
		Case   struct {
			Kind   string          `json:"kind"`
			Cache  string          `json:"cache"`
			Calls  json.RawMessage `json:"calls"`
			Schema string          `json:"schema"`
			Input  string          `json:"input"`
			Corpus string          `json:"corpus"`
		} `json:"case"`
	}
	if err := json.Unmarshal(b, &f); err != nil {
		fmt.Println("replay:", err)
		return
	}
	fmt.Println("replaying:", f.Oracle)
	cfg := cfgs[0]
	for _, c := range cfgs {
		if c.Name == f.Case.Cache {
			cfg = c
		}
	}
	var groups [][]*callT
	var flat []*callT
	if json.Unmarshal(f.Case.Calls, &flat) == nil && len(flat) > 0 {
		groups = [][]*callT{flat}
	} else if json.Unmarshal(f.Case.Calls, &groups) != nil {
		fmt.Println("replay: this case has no call list (corpus cases are re-run on every check)")
		return
	}
	applyCfg(cfg)
	var wg sync.WaitGroup
	for _, g := range groups {
		for _, c := range g {
			fixSE(c.Script)
			for i := range c.Args {
				fixJV(&c.Args[i].Val)
			}
		}
		wg.Add(1)
		run := func(g []*callT) {
			defer wg.Done()
			nodes := map[int]*idr.Node{}
			for _, c := range g {
				var ns []*idr.Node
				if c.Node >= 0 {
					if nodes[c.Node] == nil {
						nodes[c.Node] = buildNode(c.NodeKids)
					}
					ns = make([]*idr.Node, c.Node+1)
					ns[c.Node] = nodes[c.Node]
				}
				runDirect(c, ns)
			}
		}
		if len(groups) > 1 {
			go run(g)
		} else {
			run(g)
		}
	}
	wg.Wait()
	for gi, g := range groups {
		for i, c := range g {
			w := intended(tbl, c, c.NodeJSON)
			want := "error (" + w.Reason + ")"
			if !w.Err {
				want = w.Val.js()
			}
			verdict := "ok"
			if j := judge(tbl, c); j != "" {
				verdict = "FAILS: " + j
			}
			fmt.Printf("[%d.%d] %s args=%v\n    implementation: %s\n    intended:       %s\n    %s\n", gi, i, c.JS, c.goArgs(), c.Observed, want, verdict)
		}
	}
	v21.VerifSetDisableCaching(false)
}

// ---- stress: many goroutines, thousands of calls, the SAME argument names everywhere ---------------------

type stressDesc struct {
	Kind       string   `json:"kind"`
	Cache      string   `json:"cache"`
	Goroutines int      `json:"goroutines"`
	Calls      int      `json:"calls_per_goroutine"`
	Scripts    []string `json:"scripts"`
	ValueSeed  int      `json:"value_seed"`
	First      *callT   `json:"first_failing_call,omitempty"`
}

// Every goroutine calls with args a, b (and sometimes c): same names, values that identify the
// goroutine and the iteration.  No built-in is shadowed.  A runtime that another goroutine can
// still touch (wiping "its" a, b) shows as a ReferenceError, a foreign value, a goja panic or a
// fatal concurrent map access.
func runStress(o *vh.Opts, r *vh.Rng, sum *vh.Summary, cw *vh.CaseWriter, it *intern, tbl *rtTable, cfg cacheCfg) {
	scripts := []*SE{
		{K: "arr", Es: []*SE{{K: "var", X: "a"}, {K: "var", X: "b"}}},
		{K: "obj", Kvs: []SKV{{"k", &SE{K: "var", X: "a"}}, {"n", &SE{K: "var", X: "b"}}, {"z9", &SE{K: "typeof", X: "c"}}}},
		{K: "arr", Es: []*SE{{K: "varor", X: "c", A: lit(str("none"))}, {K: "var", X: "b"}, {K: "var", X: "a"}, {K: "var", X: "a"}}},
		{K: "var", X: "b"},
	}
	d := stressDesc{Kind: "stress", Cache: cfg.Name, Goroutines: r.Between(8, 16), Calls: r.Between(1000, 2000), ValueSeed: r.Intn(1000)}
	if o.Tier == "thorough" {
		d.Calls *= 3
	}
	for _, s := range scripts {
		d.Scripts = append(d.Scripts, s.js())
	}
	vh.Current(o, d)
	mk := func(g, i int) *callT {
		sc := scripts[(g+i)%len(scripts)]
		c := &callT{Node: -1, Script: sc, JS: sc.js()}
		c.Args = []argT{{Name: "a", Val: num(float64(d.ValueSeed + g*100000 + i))}, {Name: "b", Val: str(fmt.Sprintf("g%d-i%d", g, i))}}
		if (g+i)%3 == 0 {
			c.Args = append(c.Args, argT{Name: "c", Val: JV{K: "bool", B: i%2 == 0}})
		}
		return c
	}
	firstBad := make([]*callT, d.Goroutines)
	badWhy := make([]string, d.Goroutines)
	samples := make([][]*callT, d.Goroutines)
	var wg sync.WaitGroup
	for g := 0; g < d.Goroutines; g++ {
		wg.Add(1)
		go func(g int) {
			defer wg.Done()
			for i := 0; i < d.Calls; i++ {
				c := mk(g, i)
				runDirect(c, nil)
				if i < 2 {
					samples[g] = append(samples[g], c)
				}
				if j := judge(tbl, c); j != "" && firstBad[g] == nil {
					firstBad[g], badWhy[g] = c, fmt.Sprintf("goroutine %d, call %d: %s", g, i, j)
				}
			}
		}(g)
	}
	wg.Wait()
	canon, _ := json.Marshal(d)
	sum.Count(string(canon), true)
	sum.Hist(fmt.Sprintf("stress-calls:%d", d.Goroutines*d.Calls/10000*10000))
	for g := range firstBad {
		if firstBad[g] != nil {
			d.First = firstBad[g]
			sum.Fail("concurrent javascript calls with the same argument names: "+badWhy[g], d, map[string]interface{}{"call": firstBad[g]})
			break
		}
	}
	var flat []*callT
	for g := range samples {
		flat = append(flat, samples[g]...)
	}
	cw.Add(coqCase(r, it, tbl, cfg, flat), d)
}

// ---- ancestor: a plain javascript call anchored on a node that PERSISTS across records ------------------

// FINAL_OUTPUT.up is anchored with xpath ".." (the parent of the streamed records); its field f
// is a plain `javascript` custom_func whose args read the CURRENT record back down.  The call
// must be executed for every record with that record's args.
func runAncestor(o *vh.Opts, r *vh.Rng, sum *vh.Summary, cw *vh.CaseWriter, it *intern, tbl *rtTable, cfg cacheCfg) {
	nrec := r.Between(2, 5)
	xml := r.Chance(0.5)
	intID := r.Chance(0.5)
	var ids []int
	var texts []string
	for i := 0; i < nrec; i++ {
		ids = append(ids, r.Between(1, 9999))
		texts = append(texts, r.PickStr("x", "hello", "héllo", "日本", "a b", "Q9", "0", "zz")+fmt.Sprint(r.Pick(100)))
	}
	var script *SE
	for {
		var seen []string
		script = genScript(r, []string{"a", "b"}, seen, false, 2)
		if r.Chance(0.5) { // make sure both args matter
			script = &SE{K: "arr", Es: []*SE{{K: "var", X: "a"}, script, {K: "var", X: "b"}}}
		}
		if !transformSafe(script) {
			continue
		}
		probe := &callT{Node: -1, Script: script, Args: []argT{{Name: "a", Val: str("1")}, {Name: "b", Val: str("x")}}}
		if w := intended(tbl, probe, ""); w.Err || !hasOpq(w.Val) {
			break
		}
	}
	jsb, _ := json.Marshal(script.js())
	idArg := `{"xpath": "%s"}`
	if intID {
		idArg = `{"xpath": "%s", "type": "int"}`
	}
	var schema, input string
	if xml {
		var sb strings.Builder
		sb.WriteString("<r><g>")
		for i := range ids {
			fmt.Fprintf(&sb, `<line id="%d">%s</line>`, ids[i], texts[i])
			if r.Chance(0.3) {
				sb.WriteString("\n")
			}
		}
		sb.WriteString("</g></r>")
		input = sb.String()
		schema = `{"parser_settings": {"version": "omni.2.1", "file_format_type": "xml"},
 "transform_declarations": {"FINAL_OUTPUT": {"xpath": "/r/g/line", "object": {
   "own": {"xpath": "@id"},
   "up": {"xpath": "..", "object": {"f": {"custom_func": {"name": "javascript", "ignore_error": true, "args": [
      {"const": ` + string(jsb) + `, "no_trim": true}, {"const": "a"}, ` + fmt.Sprintf(idArg, "line/@id") + `, {"const": "b"}, {"xpath": "line"}]},
      "no_trim": true, "keep_empty_or_null": true}}}}}}}`
	} else {
		var recs []string
		for i := range ids {
			recs = append(recs, fmt.Sprintf(`{"id":"%d","t":%q}`, ids[i], texts[i]))
		}
		input = `{"g":[` + strings.Join(recs, ",") + `]}`
		schema = `{"parser_settings": {"version": "omni.2.1", "file_format_type": "json"},
 "transform_declarations": {"FINAL_OUTPUT": {"xpath": "/g/*", "object": {
   "own": {"xpath": "id"},
   "up": {"xpath": "..", "object": {"f": {"custom_func": {"name": "javascript", "ignore_error": true, "args": [
      {"const": ` + string(jsb) + `, "no_trim": true}, {"const": "a"}, ` + fmt.Sprintf(idArg, "*/id") + `, {"const": "b"}, {"xpath": "*/t"}]},
      "no_trim": true, "keep_empty_or_null": true}}}}}}}`
	}
	desc := caseDesc{Kind: "ancestor", Cache: cfg.Name, Schema: schema, Input: input}
	vh.Current(o, desc)
	outs, fatal := runSchema(schema, input)
	if fatal != "" {
		sum.Fail("transform with a javascript call anchored on the records' parent did not run to EOF", desc, fatal)
		return
	}
	if len(outs) != nrec {
		sum.Fail("transform with a javascript call anchored on the records' parent delivered a different number of records", desc, fmt.Sprintf("%d of %d", len(outs), nrec))
		return
	}
	var calls []*callT
	for i, out := range outs {
		c := &callT{Node: -1, Script: script, JS: script.js()}
		if intID {
			c.Args = append(c.Args, argT{Name: "a", Val: num(float64(ids[i]))})
		} else {
			c.Args = append(c.Args, argT{Name: "a", Val: str(fmt.Sprint(ids[i]))})
		}
		c.Args = append(c.Args, argT{Name: "b", Val: str(texts[i])})
		up, _ := out["up"].(map[string]interface{})
		v, present := up["f"]
		if !present || v == nil {
			c.obsErr = fmt.Errorf("custom_func failed (ignore_error)")
			c.Observed = "error (field is null)"
		} else {
			c.obsVal = v
			vb, _ := json.Marshal(v)
			c.Observed = string(vb)
		}
		calls = append(calls, c)
	}
	desc.Calls = calls
	finish(r, sum, cw, it, tbl, cfg, calls, desc, judgeTransform)
}

// runSchema runs a schema over an input and returns the decoded output records.
func runSchema(schema, input string) (outs []map[string]interface{}, fatal string) {
	defer func() {
		if p := recover(); p != nil {
			fatal = fmt.Sprintf("panic: %v", p)
		}
	}()
	ls, err := vh.NewLoggedSchema("c20", []byte(schema), probeFuncs)
	if err != nil {
		return nil, "schema rejected: " + err.Error()
	}
	t, _, err := ls.NewTransform("in", strings.NewReader(input))
	if err != nil {
		return nil, "NewTransform: " + err.Error()
	}
	for i := 0; i < 1000; i++ {
		b, err := t.Read()
		if err == io.EOF {
			return outs, ""
		}
		if err != nil {
			return outs, "Read: " + err.Error()
		}
		var out map[string]interface{}
		if err := json.Unmarshal(b, &out); err != nil {
			return outs, "output not JSON: " + err.Error()
		}
		outs = append(outs, out)
	}
	return outs, "no EOF within 1000 reads"
}

// ---- concurrent TRANSFORMS with javascript_with_context on their record nodes ------------------------------

// 8-12 goroutines each drive their own Transform (own Schema object, same text) over their own
// records; every record runs javascript_with_context on the record node: `_node` must be the JSON
// of THAT record (the probe custom func reports the node's JSON computed directly).
func runConcurrentTransforms(o *vh.Opts, r *vh.Rng, sum *vh.Summary, cw *vh.CaseWriter, it *intern, tbl *rtTable, cfg cacheCfg) {
	G := r.Between(12, 16)
	nrec := r.Between(50, 90)
	echo := &SE{K: "var", X: "_node"}
	pair := &SE{K: "arr", Es: []*SE{{K: "var", X: "_node"}, {K: "var", X: "a"}}}
	// on the record node and on each of its children: every element node's ID keys the cache
	fields := []tfField{
		{Name: "f0", XP: ".", Call: &callT{Node: 0, Script: echo, JS: echo.js()}},
		{Name: "f1", XP: "s", Call: &callT{Node: 0, Script: pair, JS: pair.js(), Args: []argT{{Name: "a", Val: str("k")}}}},
		{Name: "f2", XP: "g", Call: &callT{Node: 0, Script: echo, JS: echo.js()}},
		{Name: "f3", XP: "i", Call: &callT{Node: 0, Script: echo, JS: echo.js()}},
		// a second and a third call on the SAME node (a one-entry memo is hit)
		{Name: "f4", XP: ".", Call: &callT{Node: 0, Script: pair, JS: pair.js(), Args: []argT{{Name: "a", Val: str("k2")}}}},
		{Name: "f5", XP: ".", Call: &callT{Node: 0, Script: echo, JS: "this['_' + 'node']"}},
	}
	schema := buildSchema(fields)
	inputs := make([]string, G)
	for g := range inputs {
		var recs []string
		for i := 0; i < nrec; i++ {
			recs = append(recs, fmt.Sprintf(`{"g":%d,"i":%d,"s":%q}`, g, i, genStr(r)))
		}
		inputs[g] = "[" + strings.Join(recs, ",") + "]"
	}
	desc := caseDesc{Kind: "ctransform", Cache: cfg.Name, Schema: schema, Input: strings.Join(inputs, "\n")}
	vh.Current(o, desc)
	results := make([][][]*callT, G)
	fatals := make([]string, G)
	var wg sync.WaitGroup
	for g := 0; g < G; g++ {
		wg.Add(1)
		go func(g int) {
			defer wg.Done()
			results[g], fatals[g] = runTransform(schema, inputs[g], fields)
		}(g)
	}
	wg.Wait()
	canon, _ := json.Marshal(desc)
	sum.Count(string(canon), !cfg.NoCache)
	var sample []*callT
	for g := 0; g < G; g++ {
		if fatals[g] != "" || len(results[g]) != nrec {
			sum.Fail("concurrent transforms with javascript_with_context: a transform did not deliver its records", desc,
				fmt.Sprintf("goroutine %d: %d of %d records; %s", g, len(results[g]), nrec, fatals[g]))
			return
		}
		for i, rec := range results[g] {
			for _, c := range rec {
				if j := judgeTransform(tbl, c); j != "" {
					sum.Fail(fmt.Sprintf("concurrent transforms, goroutine %d, record %d: %s", g, i, j), desc, map[string]interface{}{"call": c})
					return
				}
			}
			if i < 2 {
				sample = append(sample, rec...)
			}
		}
	}
	for _, c := range sample {
		if c.obsErr != nil {
			if w := intended(tbl, c, c.NodeJSON); w.Throw {
				c.obsErr = &gojaLike{}
			}
		}
	}
	cw.Add(coqCase(r, it, tbl, cfg, sample), desc)
}

// addWhitespaceTwins inserts two calls whose scripts differ ONLY in white space at a place where
// white space is significant: inside a string literal, or a line break that ends a // comment.
// Everything else (args, node) is equal; each call must still yield ITS script's value.
func addWhitespaceTwins(r *vh.Rng, calls []*callT, seen *[]string, o genOpts) []*callT {
	var base *callT
	for tries := 0; tries < 20; tries++ {
		c := genCall(r, seen, o)
		if !c.Invalid && !c.Odd {
			base = c
			break
		}
	}
	if base == nil {
		return calls
	}
	a, b := *base, *base
	if r.Chance(0.5) {
		sp := r.PickStr("a b", "x y z", "tab\there", " lead", "q  r")
		wide := strings.ReplaceAll(strings.ReplaceAll(sp, " ", "  "), "\t", " \t ")
		if r.Chance(0.3) {
			wide = strings.ReplaceAll(sp, " ", "\n")
		}
		a.Script = &SE{K: "arr", Es: []*SE{lit(str(sp)), base.Script}}
		b.Script = &SE{K: "arr", Es: []*SE{lit(str(wide)), base.Script}}
		a.JS, b.JS = a.Script.js(), b.Script.js()
		// a JSON string literal keeps blanks as they are; \t and \n are escaped there, so put them raw
		b.JS = strings.Replace(b.JS, jsonStr(wide), rawStr(wide), 1)
		a.JS = strings.Replace(a.JS, jsonStr(sp), rawStr(sp), 1)
		if strings.Contains(wide, "\n") {
			// a raw line break cannot stand in a JavaScript string literal: use a template literal
			b.JS = strings.Replace(b.JS, rawStr(wide), "`"+wide+"`", 1)
			a.JS = strings.Replace(a.JS, rawStr(sp), "`"+sp+"`", 1)
		}
	} else {
		// "0; // pad<LF>E" evaluates E; "0; // pad E" is 0 followed by a comment
		zero := num(0)
		a.JS = "0; // pad\n" + base.Script.js()
		b.Script = &SE{K: "lit", V: &zero}
		b.JS = "0; // pad " + base.Script.js()
		if strings.Contains(base.Script.js(), "\n") {
			return calls
		}
	}
	first, second := &a, &b
	if r.Chance(0.5) {
		first, second = second, first
	}
	p := r.Pick(len(calls) + 1)
	out := append(append([]*callT{}, calls[:p]...), first)
	q := p + r.Pick(len(calls)-p+1)
	out = append(out, calls[p:q]...)
	out = append(out, second)
	out = append(out, calls[q:]...)
	if r.Chance(0.4) {
		third := *first
		out = append(out, &third)
	}
	return out
}

func jsonStr(s string) string { b, _ := json.Marshal(s); return string(b) }
func rawStr(s string) string  { return "\"" + s + "\"" }
