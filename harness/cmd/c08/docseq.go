package main

import (
	"encoding/json"
	"fmt"
	"io"
	"runtime"
	"strings"
	"time"

	"github.com/jf-tech/omniparser/idr"

	"verifharness/vh"
)

// ---- a failed document, then a valid one, in the same process ------------------------------------------
//
// A stream reader is driven the way the ingester drives it: Read, Release(record), Read, ... until
// an error; then Read twice more (a caller may retry).  Oracle: a valid document parsed AFTER a
// document whose Read failed gives exactly the records it gives before it (same subtrees, same end
// of stream), and for target "." the record still is the document (JSON: the value encoding/json
// decodes; XML: the DOM).  Node recycling (the process-wide node pool) is the shared state.

type seqCase struct {
	Kind   string   `json:"kind"`   // "doc-seq"
	Format string   `json:"format"` // json | xml
	Docs   []string `json:"docs"`   // parsed in this order; a document may appear twice
	XPath  string   `json:"xpath"`
}

// safeDump prints a record subtree; a node reachable twice (a tree corrupted by a recycled node
// that is still linked elsewhere) or an absurd size is reported instead of followed.
func safeDump(n *idr.Node, budget int) string {
	seen := map[*idr.Node]bool{}
	var sb strings.Builder
	bad := ""
	var walk func(n *idr.Node)
	walk = func(n *idr.Node) {
		if bad != "" {
			return
		}
		if seen[n] {
			bad = "a node is linked into the tree twice"
			return
		}
		seen[n] = true
		if len(seen) > budget {
			bad = "tree larger than the document can explain"
			return
		}
		sb.WriteString("(" + n.Type.String() + " " + fmt.Sprintf("%q", n.Data) + " " + fmt.Sprint(n.FormatSpecific) + " [")
		for c := n.FirstChild; c != nil; c = c.NextSibling {
			if c.Parent != n {
				bad = "a child's Parent link points elsewhere"
				return
			}
			walk(c)
		}
		sb.WriteString("])")
	}
	walk(n)
	if bad != "" {
		return "CORRUPT: " + bad
	}
	return sb.String()
}

type seqReader interface {
	Read() (*idr.Node, error)
	Release(*idr.Node)
}

// driveDoc returns the records (dumps) and how the stream ended ("EOF" or "error"); abs is the
// record kept for the absolute check when the target is the whole document.
func driveDoc(format, text, xpath string, absCheck func(n *idr.Node) string) (out []string, absFail string) {
	var rd seqReader
	var err error
	if format == "json" {
		rd, err = idr.NewJSONStreamReader(strings.NewReader(text), xpath)
	} else {
		rd, err = idr.NewXMLStreamReader(strings.NewReader(text), xpath)
	}
	if err != nil {
		return []string{"new-reader error"}, ""
	}
	var prev *idr.Node
	for i := 0; i < 2000; i++ {
		if prev != nil {
			rd.Release(prev) // what the ingester does before the next Read
			prev = nil
		}
		n, err := rd.Read()
		if err == io.EOF {
			out = append(out, "EOF")
			break
		}
		if err != nil {
			out = append(out, "error")
			// a caller may call Read again after a failure
			for k := 0; k < 2; k++ {
				if n2, err2 := rd.Read(); err2 == nil && n2 != nil {
					out = append(out, "record after error")
				}
			}
			break
		}
		d := safeDump(n, 20*len(text)+200)
		out = append(out, d)
		if strings.HasPrefix(d, "CORRUPT") {
			// do not hand a corrupted tree back to the library (recycling it may not terminate)
			return out, ""
		}
		if absCheck != nil && absFail == "" && !strings.HasPrefix(d, "CORRUPT") {
			absFail = absCheck(n)
		}
		prev = n
	}
	if prev != nil {
		rd.Release(prev)
	}
	return out, absFail
}

var emptyPool = true

func runDocSeq(sum *vh.Summary, c seqCase, verbose bool) (failed bool) {
	if sum != nil {
		vh.Current(opts, c)
	}
	fail := func(what string, detail interface{}) {
		failed = true
		if sum != nil {
			sum.Fail(what, c, map[string]interface{}{"detail": detail})
		}
		if verbose {
			fmt.Println(" ", what, detail)
		}
	}
	type result struct {
		what   string
		detail interface{}
	}
	done := make(chan *result, 1)
	go func() {
		// start from an empty node pool (sync.Pool is emptied by two collections), so that what
		// the sequence itself puts into the pool is what its later documents get out of it
		if emptyPool {
			runtime.GC()
			runtime.GC()
		}
		defer func() {
			if p := recover(); p != nil {
				done <- &result{"reader panicked on a document parsed after a failed one", fmt.Sprint(p)}
			}
		}()
		first := map[string][]string{}
		firstAbs := map[string]string{}
		sawError := false
		for i, text := range c.Docs {
			var abs func(n *idr.Node) string
			valid := false
			if c.Format == "json" {
				var ref interface{}
				if json.Unmarshal([]byte(text), &ref) == nil {
					valid = true
					if c.XPath == "." || c.XPath == "/" {
						abs = func(n *idr.Node) string {
							if v := idr.J2NodeToInterface(n, true); !eqJSON(v, ref) {
								b, _ := json.Marshal(v)
								return "the record converts to " + clip(string(b))
							}
							return ""
						}
					}
				}
			} else if dom, err := parseDOM(text); err == nil {
				if _, _, terr := xmlTokens(text); terr == nil {
					valid = true
					if c.XPath == "." && nsWF(dom) {
						ref := refDoc(dom)
						abs = func(n *idr.Node) string {
							known := 0
							return diffTree(vh.Root(n), ref, "", &known)
						}
					}
				}
			}
			out, absFail := driveDoc(c.Format, text, c.XPath, abs)
			if verbose {
				fmt.Printf(" document %d (%q): %d results, ends with %s\n", i, clip(text), len(out), out[len(out)-1])
			}
			for _, d := range out {
				if strings.HasPrefix(d, "CORRUPT") {
					done <- &result{"the node tree of a document is corrupted (parsed after a document whose Read failed)",
						map[string]interface{}{"document": i, "text": clip(text), "problem": d}}
					return
				}
			}
			if valid {
				if pre, seen := firstAbs[text]; absFail != "" && sawError && !(seen && pre != "") {
					// (a document that is misrepresented already before any failure is left to the
					// single-document oracles)
					done <- &result{"a valid document parsed after a failed one is not represented faithfully",
						map[string]interface{}{"document": i, "text": clip(text), "difference": absFail}}
					return
				}
				if prev, ok := first[text]; ok {
					if strings.Join(prev, "\x00") != strings.Join(out, "\x00") {
						done <- &result{"a valid document gives different records after a document whose Read failed than before it",
							map[string]interface{}{"document": i, "text": clip(text), "before": clip(strings.Join(prev, " ; ")), "after": clip(strings.Join(out, " ; "))}}
						return
					}
				} else {
					first[text] = out
					if !sawError {
						firstAbs[text] = absFail
					}
				}
			}
			if out[len(out)-1] != "EOF" {
				sawError = true
			}
		}
		done <- nil
	}()
	select {
	case r := <-done:
		if r != nil {
			fail(r.what, r.detail)
		}
	case <-time.After(20 * time.Second):
		fail("a reader did not return (hang) on a document parsed after a failed one", nil)
	}
	return
}

var jsonGarbage = []string{" }", " ]", ",", " x", "{", "[", " \"s\"", " 1", ":", "}}"}

func genDocSeq(r *vh.Rng, sum *vh.Summary, fixed int) bool {
	c := seqCase{Kind: "doc-seq"}
	switch {
	case fixed == 1:
		c.Format, c.XPath = "json", "."
		c.Docs = []string{`{"a":1,"b":[true,{}]}`, `[{"x":[1,2,3]},"s",null]`, `{"a":1} }`, `{"a":1,"b":[true,{}]}`, `[{"x":[1,2,3]},"s",null]`}
	case fixed == 2:
		c.Format, c.XPath = "xml", "."
		c.Docs = []string{`<r k="v"><a>1</a><b/>t</r>`, `<x><y z="1"/></x>`, `<r><a>1</a></r></q>`, `<r k="v"><a>1</a><b/>t</r>`, `<x><y z="1"/></x>`}
	case r.Chance(0.5):
		c.Format, c.XPath = "json", r.PickStr(".", ".", "/", "/*", "/*/*")
		st := &jstats{}
		ser := func(v *jval) string {
			var sb strings.Builder
			v.serialise(nil, &sb)
			return sb.String()
		}
		container := func() *jval {
			v := genValue(r, st, 1, pickOf(r, 1, 2, 3))
			return &jval{K: jObj, Keys: []*jval{strVal("id"), strVal("v"), strVal("l")},
				Vals: []*jval{numVal("7"), v, {K: jArr, Arr: []*jval{genValue(r, st, 1, 2), genValue(r, st, 1, 2)}}}}
		}
		g, g2 := ser(container()), ser(container())
		var bad string
		switch r.Pick(4) {
		case 0, 1: // a complete value, then garbage
			bad = ser(container()) + jsonGarbage[r.Pick(len(jsonGarbage))]
		case 2: // truncated
			s := ser(container())
			bad = s[:r.Between(1, len(s)-1)]
		default: // broken inside
			s := ser(container())
			k := r.Between(1, len(s)-1)
			bad = s[:k] + r.PickStr("}", "]", ",,", "\x01", "tru") + s[k:]
		}
		c.Docs = []string{g, g2, bad, g, g2}
		if r.Chance(0.3) {
			c.Docs = []string{g, g2, bad, bad, g2, g}
		}
	default:
		c.Format, c.XPath = "xml", r.PickStr(".", ".", "/", "/*", "/*/*")
		ser := func() string {
			st := &xstats{}
			no := false
			var sb strings.Builder
			genElem(r, st, nil, 0, pickOf(r, 1, 2, 2), &no).serialise(r, &sb)
			return sb.String()
		}
		g, g2 := ser(), ser()
		var bad string
		s := ser()
		switch r.Pick(4) {
		case 0:
			bad = s + r.PickStr("</q>", "<", "<a", "&bad;", "</r>")
		case 1:
			bad = s[:r.Between(1, len(s)-1)]
		case 2:
			k := strings.LastIndex(s, "</")
			if k <= 0 {
				k = len(s) / 2
			}
			bad = s[:k] + "</zz>" + s[k:]
		default:
			k := r.Between(1, len(s)-1)
			bad = s[:k] + r.PickStr("<", "&", "</q>", "<!x") + s[k:]
		}
		c.Docs = []string{g, g2, bad, g, g2}
		if r.Chance(0.3) {
			c.Docs = []string{g, g2, bad, bad, g2, g}
		}
	}
	sum.Count("doc-seq:"+c.Format+c.XPath+strings.Join(c.Docs, "|"), true)
	sum.Hist("seq:good,bad,good(" + c.Format + " target " + c.XPath + ", oracle only)")
	return runDocSeq(sum, c, false)
}
