// c08: correspondence + oracle harness for property C08 (JSON and XML documents are represented
// faithfully in the node tree).
package main

import (
	"encoding/hex"
	"encoding/json"
	"fmt"
	"os"
	"path/filepath"
	"sort"
	"strings"
	"time"

	"github.com/jf-tech/omniparser/idr"

	"verifharness/vh"
)

func pickOf(r *vh.Rng, xs ...int) int { return xs[r.Pick(len(xs))] }

// cb prints a byte string as a list of Byte constructors: coqc elaborates these about twice as
// fast as the string literals of vh.CoqHex, and the Cases files of this property are mostly bytes.
func cb(b []byte) string {
	if len(b) == 0 {
		return "[]"
	}
	var sb strings.Builder
	sb.Grow(len(b)*9 + 2)
	sb.WriteByte('[')
	for i, c := range b {
		if i > 0 {
			sb.WriteByte(';')
		}
		fmt.Fprintf(&sb, "Byte.x%02x", c)
	}
	sb.WriteByte(']')
	return sb.String()
}

// coqTree is vh.CoqTree with the byte printer above.
func coqTree(n *idr.Node) string {
	var sb strings.Builder
	var walk func(n *idr.Node)
	walk = func(n *idr.Node) {
		sb.WriteString("(T " + n.Type.String() + " " + cb([]byte(n.Data)) + " ")
		switch fs := n.FormatSpecific.(type) {
		case idr.XMLSpecific:
			sb.WriteString("(FXml " + cb([]byte(fs.NamespacePrefix)) + " " + cb([]byte(fs.NamespaceURI)) + ")")
		case idr.JSONType:
			sb.WriteString("(FJson " + vh.CoqN(int(fs)) + ")")
		default:
			sb.WriteString("FNone")
		}
		sb.WriteString(" [")
		for c := n.FirstChild; c != nil; c = c.NextSibling {
			if c != n.FirstChild {
				sb.WriteString("; ")
			}
			walk(c)
		}
		sb.WriteString("])")
	}
	walk(n)
	return sb.String()
}

// corpusCase is one file of replays/corpus/C08: a minimal input kept from a past defect.
// expect = "pass" (regression of a repaired defect) or "known-finding" (still expected to fail;
// reported through sum.Fail with the stable case {kind,text}, matched by KNOWN_FINDINGS.txt).
type corpusCase struct {
	Kind   string `json:"kind"`
	Text   string `json:"text"`
	Schema string `json:"schema,omitempty"`
	Expect string `json:"expect"`
	Note   string `json:"note"`
}

func runText(sum *vh.Summary, cw *vh.CaseWriter, kind, text string, verbose bool) bool {
	switch kind {
	case "json":
		return runJSON(sum, cw, text, nil, verbose)
	case "xml":
		return runXML(sum, cw, text, nil, verbose)
	}
	sum.Fail("harness: unknown case kind "+kind, map[string]string{"kind": kind, "text": text}, nil)
	return true
}

var opts *vh.Opts

func main() {
	o := vh.ParseOpts()
	opts = o
	r := vh.NewRng(o.Seed)
	sum := vh.NewSummary("C08", o,
		"generated JSON values (serialised by the generator with random escapes, whitespace and numeric forms) and generated XML documents (namespaces, attributes, mixed content, CDATA, entities, comments, PIs) read with target \".\"; "+
			"non-trivial = JSON value of nesting depth >= 2 or with an empty container / empty key; XML document with >= 1 namespace declaration or attribute; distinct by document text")
	cw := vh.NewCaseWriter(o, "C08", "Base.Tree Model.Json Model.Xml", "c08case", "check_case")

	if o.Replay != "" {
		b, err := os.ReadFile(o.Replay)
		if err != nil {
			fmt.Fprintln(os.Stderr, err)
			os.Exit(2)
		}
		var rp struct {
			Case struct {
				Kind     string   `json:"kind"`
				Text     string   `json:"text"`
				Schema   string   `json:"schema"`
				Hex      string   `json:"hex"`
				Encoding string   `json:"encoding"`
				Format   string   `json:"format"`
				Docs     []string `json:"docs"`
				XPath    string   `json:"xpath"`
				Schedule []int    `json:"schedule"`
				Release  []bool   `json:"release"`
			} `json:"case"`
		}
		if err := json.Unmarshal(b, &rp); err != nil || rp.Case.Kind == "" {
			fmt.Fprintln(os.Stderr, "replay file has no case {kind,text}:", err)
			os.Exit(2)
		}
		if rp.Case.Hex != "" {
			if b, err := hex.DecodeString(rp.Case.Hex); err == nil {
				rp.Case.Text = string(b)
			}
		}
		sum.Count(rp.Case.Kind+":"+rp.Case.Text, true)
		if o.Corpus != "" {
			files, _ := filepath.Glob(filepath.Join(o.Corpus, "*.json"))
			for _, f := range files {
				var cc corpusCase
				if b, err := os.ReadFile(f); err == nil && json.Unmarshal(b, &cc) == nil &&
					cc.Expect == "known-finding" && cc.Kind == rp.Case.Kind && cc.Text == rp.Case.Text {
					strictPrefix = true
				}
			}
		}
		var failed bool
		switch rp.Case.Kind {
		case "xml-interleave":
			failed = runInterleave(sum, ilCase{Kind: rp.Case.Kind, Docs: rp.Case.Docs, XPath: rp.Case.XPath,
				Schedule: rp.Case.Schedule, Release: rp.Case.Release}, true)
		case "doc-seq":
			failed = runDocSeq(sum, seqCase{Kind: rp.Case.Kind, Format: rp.Case.Format, Docs: rp.Case.Docs, XPath: rp.Case.XPath}, true)
		case "json-enc", "xml-enc":
			failed = runEncoded(sum, cw, encCase{Kind: rp.Case.Kind, Encoding: rp.Case.Encoding, Hex: rp.Case.Hex}, true)
		case "json-seq":
			failed = runJSONSeq(sum, rp.Case.Text, rp.Case.Schema, true)
		default:
			failed = runText(sum, cw, rp.Case.Kind, rp.Case.Text, true)
		}
		fmt.Println("replay: property oracle on the implementation failed =", failed)
		for _, f := range sum.Failures {
			fmt.Println(" ", f.What)
		}
		cw.Flush()
		sum.CaseFiles = cw.Files
		sum.Write(o)
		return
	}

	// ---- corpus first ----
	if o.Corpus != "" {
		files, _ := filepath.Glob(filepath.Join(o.Corpus, "*.json"))
		sort.Strings(files)
		for _, f := range files {
			b, err := os.ReadFile(f)
			var cc corpusCase
			if err == nil {
				err = json.Unmarshal(b, &cc)
			}
			if err != nil {
				sum.Fail("harness: unreadable corpus file", map[string]string{"file": filepath.Base(f)}, err.Error())
				continue
			}
			sum.Hist("corpus:" + cc.Expect)
			sum.Count(cc.Kind+":"+cc.Text, true)
			// expect = "hypothesis": an input outside a theorem's hypothesis (e.g. duplicate keys);
			// the model is compared with the implementation, the property oracle is not evaluated
			skipOracle = cc.Expect == "hypothesis"
			strictPrefix = cc.Expect == "known-finding"
			var failed bool
			if cc.Kind == "json-seq" {
				failed = runJSONSeq(sum, cc.Text, cc.Schema, false)
			} else {
				failed = runText(sum, cw, cc.Kind, cc.Text, false)
			}
			skipOracle, strictPrefix = false, false
			if cc.Expect == "known-finding" {
				if failed {
					fmt.Printf("corpus %s: still fails (known finding), key=%s\n", filepath.Base(f),
						vh.KeyOf(textCase{Kind: cc.Kind, Text: cc.Text, Schema: cc.Schema}))
				} else {
					fmt.Printf("corpus %s: no longer fails - the known finding seems repaired; update KNOWN_FINDINGS.txt and the guard\n", filepath.Base(f))
				}
			}
		}
	}

	// ---- fixed parts of every run: boundary numbers, very large single records ----
	t0 := time.Now()
	lap := func(what string) {
		if os.Getenv("C08_TIMING") != "" {
			fmt.Fprintf(os.Stderr, "%-12s %v\n", what, time.Since(t0))
		}
		t0 = time.Now()
	}
	// good, bad, good document sequences.  A failure here means process-wide state (the node pool)
	// is damaged: everything that follows would fail for that reason, or kill the process inside the
	// library, so the run ends with this counterexample.
	for i, k := 0, o.Count(150, 3000)+2; i < k; i++ {
		fixed := 0
		if i < 2 {
			fixed = i + 1
		}
		emptyPool = i < 2 || i%8 == 0
		if genDocSeq(r, sum, fixed) {
			cw.Flush()
			sum.CaseFiles = cw.Files
			sum.Write(o)
			return
		}
	}
	emptyPool = true
	lap("docseq")
	boundaryDocs(sum, cw)
	lap("boundary")
	bigDocs(r, sum, cw)
	lap("bigjson")
	bigXMLDocs(r, sum, cw)
	lap("bigxml")
	escapeDocs(sum, cw)
	crDocs(sum, cw)
	encodedDocs(r, sum, cw)
	for i, k := 0, o.Count(60, 1200)+4; i < k; i++ {
		fixed := 0
		if i < 4 {
			fixed = i + 1
		}
		genEncoded(r, sum, cw, fixed)
	}
	genInterleave(r, sum, true)
	for i, k := 0, o.Count(150, 3000); i < k; i++ {
		genInterleave(r, sum, false)
	}
	for i, k := 0, o.Count(120, 2400); i < k; i++ {
		genJSONSeq(r, sum)
	}

	lap("interleave+jsonseq")
	total := o.Count(2000, 52000)
	for c := 0; c < total; c++ {
		if c%2 == 0 {
			genJSONCase(r, sum, cw)
		} else {
			genXMLCase(r, sum, cw)
		}
	}
	lap("generated")
	cw.Flush()
	sum.CaseFiles = cw.Files
	sum.Write(o)
}
