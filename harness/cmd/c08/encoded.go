package main

import (
	"encoding/hex"
	"encoding/json"
	"fmt"
	"strings"
	"unicode/utf8"

	"github.com/jf-tech/omniparser"
	"github.com/jf-tech/omniparser/idr"
	"github.com/jf-tech/omniparser/transformctx"
	"golang.org/x/text/encoding/charmap"

	"verifharness/vh"
)

// ---- documents given as iso-8859-1 / windows-1252 BYTES through a whole Transform --------------------------
//
// parser_settings.encoding makes schema.NewTransform decode the input before the stream reader sees
// it.  Oracle: the record copied out of the Transform equals the value / tree of the SAME document
// converted to UTF-8 with the standard code page (x/text charmap.ISO8859_1 / Windows1252 applied by
// the harness): encoding/json's value for JSON; for XML the conversion of the tree the (separately
// checked) XML reader builds for the UTF-8 document.

type encCase struct {
	Kind     string `json:"kind"` // json-enc | xml-enc
	Encoding string `json:"encoding"`
	Hex      string `json:"hex"`
}

var encSchemas = map[string]omniparser.Schema{}

func encSchema(format, enc string) (omniparser.Schema, error) {
	key := format + "/" + enc
	if s, ok := encSchemas[key]; ok {
		return s, nil
	}
	fo := `{"xpath": ".", "custom_func": {"name": "copy"}, "no_trim": true, "keep_empty_or_null": true}`
	if format == "xml" {
		fo = `{"xpath": "/*", "custom_func": {"name": "copy"}, "no_trim": true, "keep_empty_or_null": true}`
	}
	src := fmt.Sprintf(`{"parser_settings": {"version": "omni.2.1", "file_format_type": %q, "encoding": %q},
 "transform_declarations": {"FINAL_OUTPUT": %s}}`, format, enc, fo)
	s, err := omniparser.NewSchema("c08-enc", strings.NewReader(src))
	if err == nil {
		encSchemas[key] = s
	}
	return s, err
}

func toUTF8(enc string, doc []byte) (string, error) {
	cm := charmap.ISO8859_1
	if enc == "windows-1252" {
		cm = charmap.Windows1252
	}
	b, err := cm.NewDecoder().Bytes(doc)
	return string(b), err
}

func runEncoded(sum *vh.Summary, cw *vh.CaseWriter, c encCase, verbose bool) (failed bool) {
	if sum != nil {
		vh.Current(opts, c)
	}
	fail := func(what string, detail interface{}) {
		failed = true
		if sum != nil {
			sum.Fail(what, c, map[string]interface{}{"detail": detail})
		}
		if verbose {
			fmt.Println(" ", what, detail)
		}
	}
	doc, err := hex.DecodeString(c.Hex)
	if err != nil {
		fail("harness: bad hex", err.Error())
		return
	}
	format := strings.TrimSuffix(c.Kind, "-enc")
	u8, err := toUTF8(c.Encoding, doc)
	if err != nil || !utf8.ValidString(u8) {
		fail("harness: the document does not convert with the standard code page", fmt.Sprint(err))
		return
	}
	// the reference: the same document, as UTF-8
	var want interface{}
	if format == "json" {
		if err := json.Unmarshal([]byte(u8), &want); err != nil {
			fail("harness: the converted JSON document is not valid", err.Error())
			return
		}
	} else {
		rd, err := idr.NewXMLStreamReader(strings.NewReader(u8), "/*")
		if err != nil {
			fail("harness: reader", err.Error())
			return
		}
		n, err := rd.Read()
		if err != nil {
			fail("harness: the converted XML document is not read", err.Error())
			return
		}
		b, _ := json.Marshal(idr.J2NodeToInterface(n, true))
		_ = json.Unmarshal(b, &want)
		rd.Release(n)
	}
	defer func() {
		if p := recover(); p != nil {
			fail("transform panicked on an encoded document", fmt.Sprint(p))
		}
	}()
	sch, err := encSchema(format, c.Encoding)
	if err != nil {
		fail("harness: schema rejected", err.Error())
		return
	}
	tr, err := sch.NewTransform("c08-enc", strings.NewReader(string(doc)), &transformctx.Ctx{})
	if err != nil {
		fail("NewTransform failed", err.Error())
		return
	}
	out, err := tr.Read()
	if err != nil {
		fail("a valid "+c.Encoding+" document was not transformed", err.Error())
		return
	}
	var got interface{}
	if !json.Valid(out) || json.Unmarshal(out, &got) != nil {
		fail("the copy output for an encoded document is not valid JSON", clip(string(out)))
		return
	}
	if verbose {
		fmt.Printf(" %s document (%s), as UTF-8: %q\n copy output: %s\n", format, c.Encoding, clip(u8), clip(string(out)))
	}
	if !eqJSON(got, want) {
		wb, _ := json.Marshal(want)
		fail("a document given in "+c.Encoding+" is not represented as the document says (copy output differs from the same document converted to UTF-8 with the standard code page)",
			map[string]interface{}{"copy": clip(string(out)), "expected": clip(string(wb)), "as_utf8": clip(u8)})
	}
	return
}

// latin bytes for string content: ASCII without quote/backslash/markup, C1 range, upper half
func latinContent(r *vh.Rng, xml bool) []byte {
	var b []byte
	for i, n := 0, r.Between(1, 6); i < n; i++ {
		switch {
		case r.Chance(0.4):
			b = append(b, byte(r.Between(0x80, 0x9F)))
		case r.Chance(0.5):
			b = append(b, byte(r.Between(0xA0, 0xFF)))
		default:
			b = append(b, "abz 09-_"[r.Pick(8)])
		}
	}
	return b
}

func genEncoded(r *vh.Rng, sum *vh.Summary, cw *vh.CaseWriter, fixed int) {
	enc := r.PickStr("iso-8859-1", "windows-1252")
	var kind string
	var doc []byte
	switch {
	case fixed == 1:
		enc, kind, doc = "iso-8859-1", "json-enc", []byte("{\"k\x85\":\"\x80 10 \x93q\x94 \x96 caf\xe9\",\"a\":[\"\x9f\",{\"\xe9\x99\":\"\xa0\"}]}")
	case fixed == 2:
		enc, kind, doc = "iso-8859-1", "xml-enc", []byte("<r p=\"\x80 10\" q='\x85'>\x93quoted\x94 \x96 caf\xe9<x>\x9f</x></r>")
	case fixed == 3:
		enc, kind, doc = "windows-1252", "json-enc", []byte("{\"k\x85\":\"\x80 10 \x93q\x94 \x96 caf\xe9\"}")
	case fixed == 4:
		enc, kind, doc = "windows-1252", "xml-enc", []byte("<r p=\"\x80 10\">\x93quoted\x94 \x96 caf\xe9</r>")
	case r.Chance(0.5):
		kind = "json-enc"
		var gen func(d int) []byte
		str := func() []byte { return append(append([]byte{'"'}, latinContent(r, false)...), '"') }
		gen = func(d int) []byte {
			if d >= 2 || r.Chance(0.4) {
				return str()
			}
			if r.Chance(0.5) {
				out := []byte{'['}
				for i, n := 0, r.Between(0, 3); i < n; i++ {
					if i > 0 {
						out = append(out, ',')
					}
					out = append(out, gen(d+1)...)
				}
				return append(out, ']')
			}
			out := []byte{'{'}
			seen := map[string]bool{}
			first := true
			for i, n := 0, r.Between(0, 3); i < n; i++ {
				k := str()
				if seen[string(k)] {
					continue
				}
				seen[string(k)] = true
				if !first {
					out = append(out, ',')
				}
				first = false
				out = append(append(append(out, k...), ':'), gen(d+1)...)
			}
			return append(out, '}')
		}
		doc = gen(0)
		if doc[0] == '"' {
			doc = append(append([]byte(`{"v":`), doc...), '}')
		}
	default:
		kind = "xml-enc"
		doc = []byte("<r a=\"")
		doc = append(append(doc, latinContent(r, true)...), "\">"...)
		for i, n := 0, r.Between(1, 4); i < n; i++ {
			switch r.Pick(3) {
			case 0:
				doc = append(doc, latinContent(r, true)...)
			case 1:
				doc = append(append(append(doc, "<x k='"...), latinContent(r, true)...), "'/>"...)
			default:
				doc = append(append(append(doc, "<y>"...), latinContent(r, true)...), "</y>"...)
			}
		}
		doc = append(doc, "</r>"...)
	}
	c := encCase{Kind: kind, Encoding: enc, Hex: hex.EncodeToString(doc)}
	sum.Count(kind+":"+enc+":"+c.Hex, true)
	sum.Hist("enc:" + kind + "(" + enc + " bytes through parser_settings.encoding, oracle only)")
	runEncoded(sum, cw, c, false)
}
