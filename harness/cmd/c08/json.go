package main

import (
	"bytes"
	"encoding/json"
	"fmt"
	"io"
	"math"
	"math/big"
	"sort"
	"strconv"
	"strings"
	"time"
	"unicode/utf8"

	"github.com/jf-tech/omniparser"
	"github.com/jf-tech/omniparser/idr"
	"github.com/jf-tech/omniparser/transformctx"

	"verifharness/vh"
)

// ---- generator: a JSON value together with one of its many serialisations ---------------------

type jkind int

const (
	jNull jkind = iota
	jBool
	jNum
	jStr
	jArr
	jObj
)

type jval struct {
	K    jkind
	B    bool
	F    float64
	Num  string // the numeric literal as written
	S    string // decoded string value
	Ser  string // the string literal as written (with quotes)
	Arr  []*jval
	Keys []*jval // jStr values: the keys, pairwise distinct (by decoded value)
	Vals []*jval
}

type jstats struct {
	depth                  int
	emptyArr, emptyObj     bool
	emptyKey               bool
	escapes, unicode, nums int
	boundary               int
	allowDup               bool // outside jwf on purpose: compared with the model (jfold) only
	dups                   int
}

var strRunes = []rune{'a', 'b', 'Z', '0', ' ', '"', '\\', '/', '\b', '\f', '\n', '\r', '\t', 0, 0x1f, 0x7f,
	'é', 'ß', '中', 0x2028, 0x2029, 0xFFFD, 0x1F600, 0x10FFFF, '<', '>', '&', '#', ':', 'x', 'y', 'k'}

func genStr(r *vh.Rng, st *jstats, short bool) *jval {
	n := r.Between(0, 6)
	if short {
		n = r.Between(0, 2)
	}
	var dec, ser strings.Builder
	ser.WriteByte('"')
	for i := 0; i < n; i++ {
		if r.Chance(0.03) {
			// a lone surrogate escape decodes to U+FFFD; keep it from pairing with a neighbour
			ser.WriteString(r.PickStr(`\ud800`, `\udc00`, `\uDBFF`) + "q")
			dec.WriteString("�q")
			st.escapes++
			continue
		}
		if r.Chance(0.06) {
			// content that LOOKS like an escape: a literal backslash followed by u003c / u003e / u0026 ...
			lit := r.PickStr(`\u003c`, `\u003e`, `\u0026`, `\u2028`, `\u0022`, `\n`, `\\u003c`, `\`)
			dec.WriteString(lit)
			ser.WriteString(strings.ReplaceAll(lit, `\`, `\\`))
			st.escapes++
			continue
		}
		if r.Chance(0.02) {
			// an invalid UTF-8 byte in the text decodes to U+FFFD
			ser.WriteByte(0xff)
			dec.WriteString("�")
			continue
		}
		c := strRunes[r.Pick(len(strRunes))]
		if short {
			c = []rune{'a', 'b', 'x', 'k', 'é', '#'}[r.Pick(6)]
		}
		dec.WriteRune(c)
		if c >= 0x80 {
			st.unicode++
		}
		must := c < 0x20 || c == '"' || c == '\\'
		if !must && !r.Chance(0.25) {
			ser.WriteRune(c)
			continue
		}
		st.escapes++
		shortEsc := map[rune]string{'"': `\"`, '\\': `\\`, '/': `\/`, '\b': `\b`, '\f': `\f`, '\n': `\n`, '\r': `\r`, '\t': `\t`}
		if e, ok := shortEsc[c]; ok && r.Chance(0.6) {
			ser.WriteString(e)
			continue
		}
		hex4 := func(x rune) string {
			s := fmt.Sprintf("%04x", x)
			if r.Chance(0.5) {
				s = strings.ToUpper(s)
			}
			return `\u` + s
		}
		if c >= 0x10000 {
			x := c - 0x10000
			ser.WriteString(hex4(0xD800+(x>>10)) + hex4(0xDC00+(x&0x3ff)))
		} else {
			ser.WriteString(hex4(c))
		}
	}
	ser.WriteByte('"')
	return &jval{K: jStr, S: dec.String(), Ser: ser.String()}
}

var numPool = []string{"0", "-0", "1", "-1", "10", "123", "9007199254740993", "18446744073709551616",
	"123456789012345678901234567890", "0.1", "0.5", "123.456", "-1.5", "1e5", "1E+5", "2.5e-3", "1e-320",
	"1.7976931348623157e308", "4.9e-324", "5e-324", "123456789.123456789", "0.000001", "0.0000001", "1e21", "1e20",
	"1e22", "1e23", "100000000000000000000", "0.30000000000000004", "3.141592653589793", "-0.0", "0e0", "1E-0",
	"2.2250738585072014e-308", "1e-400", "0.1e1", "12345678901234567890e-10"}

func genNum(r *vh.Rng, st *jstats) *jval {
	st.nums++
	for try := 0; ; try++ {
		var s string
		if r.Chance(0.2) {
			bn := boundaryNumbers()
			s = bn[r.Pick(len(bn))]
			st.boundary++
		} else if r.Chance(0.4) || try > 5 {
			s = numPool[r.Pick(len(numPool))]
			if try > 5 {
				s = "7"
			}
		} else {
			var b strings.Builder
			if r.Chance(0.3) {
				b.WriteByte('-')
			}
			if r.Chance(0.2) {
				b.WriteByte('0')
			} else {
				b.WriteByte(byte('1' + r.Pick(9)))
				for i, k := 0, r.Pick(pickOf(r, 3, 8, 22)); i < k; i++ {
					b.WriteByte(byte('0' + r.Pick(10)))
				}
			}
			if r.Chance(0.4) {
				b.WriteByte('.')
				for i, k := 0, r.Between(1, pickOf(r, 2, 6, 18)); i < k; i++ {
					b.WriteByte(byte('0' + r.Pick(10)))
				}
			}
			if r.Chance(0.3) {
				b.WriteString(r.PickStr("e", "E"))
				b.WriteString(r.PickStr("", "+", "-"))
				b.WriteString(strconv.Itoa(r.Pick(pickOf(r, 5, 30, 320))))
			}
			s = b.String()
		}
		f, err := strconv.ParseFloat(s, 64)
		if err != nil || math.IsInf(f, 0) || math.IsNaN(f) {
			continue
		}
		return &jval{K: jNum, F: f, Num: s}
	}
}

func genValue(r *vh.Rng, st *jstats, depth, maxDepth int) *jval {
	if depth > st.depth {
		st.depth = depth
	}
	leaf := depth >= maxDepth || r.Chance(0.35) && (depth > 0 || r.Chance(0.3))
	if leaf {
		switch r.Pick(8) {
		case 0:
			return &jval{K: jNull}
		case 1:
			return &jval{K: jBool, B: r.Chance(0.5)}
		case 2, 3, 4:
			return genNum(r, st)
		case 5:
			// strings that look like other kinds of value
			s := r.PickStr("", "true", "false", "null", "1", "-0", "1e3", " ", "[]", "{}", "#attributes", "#text", "a:b")
			q, _ := json.Marshal(s)
			return &jval{K: jStr, S: s, Ser: string(q)}
		default:
			return genStr(r, st, false)
		}
	}
	n := pickOf(r, 0, 1, 2, 3, 5)
	if r.Chance(0.5) {
		v := &jval{K: jArr}
		if n == 0 {
			st.emptyArr = true
		}
		for i := 0; i < n; i++ {
			v.Arr = append(v.Arr, genValue(r, st, depth+1, maxDepth))
		}
		return v
	}
	v := &jval{K: jObj}
	if n == 0 {
		st.emptyObj = true
	}
	seen := map[string]bool{}
	for i := 0; i < n; i++ {
		var k *jval
		switch {
		case r.Chance(0.25):
			k = &jval{K: jStr, S: "", Ser: `""`}
		case r.Chance(0.1):
			s := r.PickStr("#attributes", "#text", "a:b", "xmlns", " ")
			q, _ := json.Marshal(s)
			k = &jval{K: jStr, S: s, Ser: string(q)}
		default:
			k = genStr(r, st, r.Chance(0.7))
		}
		if seen[k.S] {
			if !st.allowDup {
				continue // object keys stay pairwise distinct (guard jwf)
			}
			st.dups++
		}
		seen[k.S] = true
		if k.S == "" {
			st.emptyKey = true
		}
		v.Keys = append(v.Keys, k)
		v.Vals = append(v.Vals, genValue(r, st, depth+1, maxDepth))
	}
	if len(v.Keys) == 0 {
		st.emptyObj = true
	}
	return v
}

func ws(r *vh.Rng, sb *strings.Builder) {
	if r == nil || r.Chance(0.7) {
		return
	}
	for i, k := 0, r.Between(1, 2); i < k; i++ {
		sb.WriteString(r.PickStr(" ", "\n", "\t", "\r\n", "  "))
	}
}

func (v *jval) serialise(r *vh.Rng, sb *strings.Builder) {
	switch v.K {
	case jNull:
		sb.WriteString("null")
	case jBool:
		sb.WriteString(strconv.FormatBool(v.B))
	case jNum:
		sb.WriteString(v.Num)
	case jStr:
		sb.WriteString(v.Ser)
	case jArr:
		sb.WriteByte('[')
		ws(r, sb)
		for i, x := range v.Arr {
			if i > 0 {
				sb.WriteByte(',')
				ws(r, sb)
			}
			x.serialise(r, sb)
			ws(r, sb)
		}
		sb.WriteByte(']')
	case jObj:
		sb.WriteByte('{')
		ws(r, sb)
		for i := range v.Keys {
			if i > 0 {
				sb.WriteByte(',')
				ws(r, sb)
			}
			sb.WriteString(v.Keys[i].Ser)
			ws(r, sb)
			sb.WriteByte(':')
			ws(r, sb)
			v.Vals[i].serialise(r, sb)
			ws(r, sb)
		}
		sb.WriteByte('}')
	}
}

// iface is the generator's own idea of the decoded value.
func (v *jval) iface() interface{} {
	switch v.K {
	case jNull:
		return nil
	case jBool:
		return v.B
	case jNum:
		return v.F
	case jStr:
		return v.S
	case jArr:
		a := make([]interface{}, 0, len(v.Arr))
		for _, x := range v.Arr {
			a = append(a, x.iface())
		}
		return a
	default:
		m := map[string]interface{}{}
		for i := range v.Keys {
			m[v.Keys[i].S] = v.Vals[i].iface()
		}
		return m
	}
}

// coq prints the generator's value with object members in written order.
func (v *jval) coq() string {
	switch v.K {
	case jNull:
		return "JNull"
	case jBool:
		return "(JBool " + vh.CoqBool(v.B) + ")"
	case jNum:
		return "(JNum " + coqBits(v.F) + ")"
	case jStr:
		return "(JStr " + cb([]byte(v.S)) + ")"
	case jArr:
		xs := []string{}
		for _, x := range v.Arr {
			xs = append(xs, x.coq())
		}
		return "(JArr " + vh.CoqList(xs) + ")"
	default:
		xs := []string{}
		for i := range v.Keys {
			xs = append(xs, "("+cb([]byte(v.Keys[i].S))+", "+v.Vals[i].coq()+")")
		}
		return "(JObj " + vh.CoqList(xs) + ")"
	}
}

func coqBits(f float64) string { return fmt.Sprintf("%d%%N", math.Float64bits(f)) }

// ---- decoded values: comparison and printing ----------------------------------------------------

// eqJSON compares decoded JSON values; numbers by float64 identity (bit pattern).
func eqJSON(a, b interface{}) bool {
	switch x := a.(type) {
	case nil:
		return b == nil
	case bool:
		y, ok := b.(bool)
		return ok && x == y
	case float64:
		y, ok := b.(float64)
		return ok && math.Float64bits(x) == math.Float64bits(y)
	case string:
		y, ok := b.(string)
		return ok && x == y
	case []interface{}:
		y, ok := b.([]interface{})
		if !ok || len(x) != len(y) {
			return false
		}
		for i := range x {
			if !eqJSON(x[i], y[i]) {
				return false
			}
		}
		return true
	case map[string]interface{}:
		y, ok := b.(map[string]interface{})
		if !ok || len(x) != len(y) {
			return false
		}
		for k, v := range x {
			w, ok := y[k]
			if !ok || !eqJSON(v, w) {
				return false
			}
		}
		return true
	}
	return false
}

// coqIface prints a decoded value as a jvalue term, object keys sorted bytewise; ok=false when
// the value contains something that is not a JSON value (the model then cannot agree).
func coqIface(v interface{}, floats map[uint64]float64) (string, bool) {
	switch x := v.(type) {
	case nil:
		return "JNull", true
	case bool:
		return "(JBool " + vh.CoqBool(x) + ")", true
	case float64:
		if floats != nil {
			floats[math.Float64bits(x)] = x
		}
		return "(JNum " + coqBits(x) + ")", true
	case string:
		return "(JStr " + cb([]byte(x)) + ")", true
	case []interface{}:
		xs := []string{}
		ok := true
		for _, e := range x {
			s, o := coqIface(e, floats)
			ok = ok && o
			xs = append(xs, s)
		}
		return "(JArr " + vh.CoqList(xs) + ")", ok
	case map[string]interface{}:
		ks := make([]string, 0, len(x))
		for k := range x {
			ks = append(ks, k)
		}
		sort.Strings(ks)
		xs := []string{}
		ok := true
		for _, k := range ks {
			s, o := coqIface(x[k], floats)
			ok = ok && o
			xs = append(xs, "("+cb([]byte(k))+", "+s+")")
		}
		return "(JObj " + vh.CoqList(xs) + ")", ok
	}
	return "JNull", false
}

func collectFloats(v interface{}, floats map[uint64]float64) {
	switch x := v.(type) {
	case float64:
		floats[math.Float64bits(x)] = x
	case []interface{}:
		for _, e := range x {
			collectFloats(e, floats)
		}
	case map[string]interface{}:
		for _, e := range x {
			collectFloats(e, floats)
		}
	}
}

// jsonTokens is what json.Decoder.Token reports for the text (the harness reads it itself).
func jsonTokens(text string, floats map[uint64]float64) ([]string, error) {
	d := json.NewDecoder(strings.NewReader(text))
	var out []string
	for {
		tok, err := d.Token()
		if err == io.EOF {
			return out, nil
		}
		if err != nil {
			return out, err
		}
		switch t := tok.(type) {
		case json.Delim:
			out = append(out, map[json.Delim]string{'{': "JTObjOpen", '}': "JTObjClose", '[': "JTArrOpen", ']': "JTArrClose"}[t])
		case string:
			out = append(out, "JTStr "+cb([]byte(t)))
		case float64:
			floats[math.Float64bits(t)] = t
			out = append(out, "JTNum "+coqBits(t))
		case bool:
			out = append(out, "JTBool "+vh.CoqBool(t))
		case nil:
			out = append(out, "JTNull")
		}
	}
}

// ---- running the implementation -------------------------------------------------------------------

const copySchema = `{
 "parser_settings": {"version": "omni.2.1", "file_format_type": "json"},
 "transform_declarations": {"FINAL_OUTPUT": {"xpath": ".", "custom_func": {"name": "copy"}, "no_trim": true, "keep_empty_or_null": true}}
}`

var copySch omniparser.Schema

func copySchemaGet() (omniparser.Schema, error) {
	if copySch != nil {
		return copySch, nil
	}
	s, err := omniparser.NewSchema("c08-copy", strings.NewReader(copySchema))
	if err == nil {
		copySch = s
	}
	return s, err
}

type jsonObs struct {
	ReadErr   string      `json:"read_err,omitempty"`
	Tree      string      `json:"-"`
	JSONify2  string      `json:"jsonify2,omitempty"`
	IfaceTrue interface{} `json:"-"`
	CopyOut   string      `json:"copy_out,omitempty"`
	CopyErr   string      `json:"copy_err,omitempty"`
	Reference string      `json:"encoding_json_reference,omitempty"`
	Second    string      `json:"second_read,omitempty"`
	Panic     string      `json:"panic,omitempty"`
}

// runJSON runs one JSON text through the reader, the converters and a copy transform, evaluates
// the property oracle (equality with encoding/json's Unmarshal of the same text) and emits the
// correspondence case.  gen is nil for raw texts (corpus / replay).
func runJSON(sum *vh.Summary, cw *vh.CaseWriter, text string, gen *jval, verbose bool) (failed bool) {
	cs := textCase{Kind: "json", Text: text}
	if sum != nil {
		vh.Current(opts, cs)
	}
	obs := &jsonObs{}
	fail := func(what string, detail interface{}) {
		failed = true
		if sum != nil {
			if len(text) > 20000 {
				// a very large record: the text is the replay; do not repeat it three more times
				o2 := *obs
				o2.JSONify2, o2.CopyOut, o2.Reference = clip(o2.JSONify2), clip(o2.CopyOut), clip(o2.Reference)
				o2.IfaceTrue = nil
				sum.Fail(what, cs, map[string]interface{}{"detail": detail, "observed": &o2, "shrunk_from": shrunkFrom})
				return
			}
			sum.Fail(what, cs, map[string]interface{}{"detail": detail, "observed": obs, "shrunk_from": shrunkFrom})
		}
	}
	var ref interface{}
	refErr := json.Unmarshal([]byte(text), &ref)
	if refErr == nil {
		b, _ := json.Marshal(ref)
		obs.Reference = string(b)
	}
	floats := map[uint64]float64{}
	collectFloats(ref, floats)
	toks, tokErr := jsonTokens(text, floats)

	// generator self-check: the value the generator meant is what encoding/json decodes
	if gen != nil && (refErr != nil || !eqJSON(ref, gen.iface())) {
		fail("harness: generated JSON text does not decode (encoding/json) to the generated value", fmt.Sprint(refErr))
		return
	}

	var n *idr.Node
	var readErr error
	var ifT, ifF interface{}
	var okT, ok1, ok2 bool
	var fresh string
	sT, sF, sC := "JNull", "JNull", "None"
	func() {
		defer func() {
			if p := recover(); p != nil {
				obs.Panic = fmt.Sprint(p)
			}
		}()
		if refErr == nil && !skipOracle {
			// an earlier conversion in this process whose result the caller changed: every case
			// carries its own, so that a replay of the case alone reproduces a failure
			if pn := probeTree(); pn != nil {
				mutateValue(idr.J2NodeToInterface(pn, true))
				mutateValue(idr.J2NodeToInterface(pn, false))
			}
		}
		rd, err := idr.NewJSONStreamReader(strings.NewReader(text), ".")
		if err != nil {
			readErr = err
			return
		}
		n, readErr = rd.Read()
		if readErr != nil {
			n = nil
			return
		}
		obs.Tree = coqTree(n)
		obs.JSONify2 = idr.JSONify2(n)
		ifT = idr.J2NodeToInterface(n, true)
		ifF = idr.J2NodeToInterface(n, false)
		obs.IfaceTrue = ifT
		// snapshots for the oracle and the model, taken before the values are handed to a "caller"
		okT = eqJSON(ifT, ref)
		sT, ok1 = coqIface(ifT, nil)
		sF, ok2 = coqIface(ifF, nil)
		collectFloats(ifT, floats)
		if b, err := json.Marshal(ifT); err == nil && len(b) <= 20000 {
			obs.IfaceTrue = json.RawMessage(b)
		} else {
			obs.IfaceTrue = nil
		}
		// ---- freshness: the returned values belong to the caller, who may change them ----
		if refErr == nil && !skipOracle {
			mutateValue(ifT)
			mutateValue(ifF)
			if again := idr.J2NodeToInterface(n, true); !eqJSON(again, ref) {
				b, _ := json.Marshal(again)
				fresh = "converting the same tree again after the caller changed the first result gives " + clip(string(b))
			} else if js := idr.JSONify2(n); !sameJSONText(js, ref) {
				fresh = "JSONify2 of the same tree after the caller changed an earlier result gives " + clip(js)
			} else if pn := probeTree(); pn != nil {
				if pv := idr.J2NodeToInterface(pn, true); !eqJSON(pv, probeRef) {
					b, _ := json.Marshal(pv)
					fresh = "converting another tree (" + probeText + ") after the caller changed an earlier result gives " + clip(string(b))
				}
			}
		}
		// the document is complete: nothing but the end of input may follow
		n2, err2 := rd.Read()
		if n2 != nil || err2 == nil {
			obs.Second = "second Read returned a node"
		} else if err2 != io.EOF {
			obs.Second = err2.Error()
		}
	}()
	if obs.Panic != "" {
		fail("JSON reader / converter panicked", obs.Panic)
		return
	}
	if readErr != nil {
		obs.ReadErr = readErr.Error()
	}

	// ---- the copy custom function inside a real Transform ----
	var copyVal interface{}
	copyOK := false
	func() {
		defer func() {
			if p := recover(); p != nil {
				obs.Panic = fmt.Sprint(p)
			}
		}()
		sch, err := copySchemaGet()
		if err != nil {
			obs.CopyErr = "schema: " + err.Error()
			return
		}
		tr, err := sch.NewTransform("c08", strings.NewReader(text), &transformctx.Ctx{})
		if err != nil {
			obs.CopyErr = "NewTransform: " + err.Error()
			return
		}
		b, err := tr.Read()
		if err != nil {
			obs.CopyErr = err.Error()
			return
		}
		obs.CopyOut = string(b)
		if !utf8.Valid(b) {
			obs.CopyErr = "output is not UTF-8"
			return
		}
		if !json.Valid(b) {
			obs.CopyErr = "output is not valid JSON"
			return
		}
		d := json.NewDecoder(bytes.NewReader(b))
		if err := d.Decode(&copyVal); err != nil {
			obs.CopyErr = "output does not decode: " + err.Error()
			return
		}
		if d.More() {
			obs.CopyErr = "output has trailing data after the JSON value"
			return
		}
		copyOK = true
	}()
	if obs.Panic != "" {
		fail("copy transform panicked", obs.Panic)
		return
	}

	// ---- property oracle on the implementation ----
	if refErr == nil && !skipOracle {
		switch {
		case n == nil:
			fail("valid JSON document was not read into a node tree", obs.ReadErr)
		case !okT:
			fail("J2NodeToInterface(tree, true) differs from encoding/json's value of the same text", nil)
		case fresh != "":
			fail("a value returned by the conversion is not fresh: changing it influences a later conversion", fresh)
		default:
			var back interface{}
			if err := json.Unmarshal([]byte(obs.JSONify2), &back); err != nil || !eqJSON(back, ref) {
				fail("JSONify2(tree) does not decode to encoding/json's value of the same text", fmt.Sprint(err))
			} else if !copyOK {
				fail("copy transform failed on a valid JSON document", obs.CopyErr)
			} else if !eqJSON(copyVal, ref) {
				fail("copy does not reproduce the JSON record as an equal JSON value", nil)
			} else if obs.Second != "" {
				fail("reader did not report end of input after the complete document", obs.Second)
			}
		}
	} else if n != nil && tokErr != nil {
		// text that encoding/json rejects while tokenising must not produce a tree
		fail("a node tree was returned for a text whose token stream is invalid", tokErr.Error())
	}

	// ---- correspondence case ----
	// strconv table for every number in sight, and the strconv round-trip the theorem assumes
	collectFloats(copyVal, floats)
	bitsList := make([]uint64, 0, len(floats))
	for b := range floats {
		bitsList = append(bitsList, b)
	}
	sort.Slice(bitsList, func(i, j int) bool { return bitsList[i] < bitsList[j] })
	tab := []string{}
	for _, b := range bitsList {
		f := floats[b]
		s := strconv.FormatFloat(f, 'f', -1, 64)
		if g, err := strconv.ParseFloat(s, 64); err != nil || math.Float64bits(g) != b {
			fail("strconv: ParseFloat(FormatFloat(v,'f',-1,64)) != v (assumption float_roundtrip)", s)
		}
		tab = append(tab, "("+coqBits(f)+", "+cb([]byte(s))+")")
	}
	val := "None"
	if gen != nil {
		val = "(Some " + gen.coq() + ")"
	}
	tree := "None"
	if n != nil {
		tree = "(Some " + obs.Tree + ")"
		if !ok1 || !ok2 {
			fail("J2NodeToInterface returned something that is not a JSON value", nil)
		}
		if copyOK {
			s, _ := coqIface(copyVal, nil)
			sC = "(Some " + s + ")"
		}
	}
	term := fmt.Sprintf("CJson (mkJCase %s %s %s %s %s %s %s)", val, vh.CoqList(tab), vh.CoqList(toks), tree, sT, sF, sC)
	if cw != nil {
		cw.Add(term, cs)
	}
	if verbose {
		fmt.Printf("json text: %q\n implementation: tree=%s\n JSONify2=%s copy=%s copy_err=%q read_err=%q\n encoding/json: %s (err %v)\n",
			text, obs.Tree, obs.JSONify2, obs.CopyOut, obs.CopyErr, obs.ReadErr, obs.Reference, refErr)
	}
	return
}

func genJSONCase(r *vh.Rng, sum *vh.Summary, cw *vh.CaseWriter) {
	st := &jstats{allowDup: r.Chance(0.06)}
	maxDepth := pickOf(r, 0, 1, 1, 2, 2, 3, 3, 4, 6)
	v := genValue(r, st, 0, maxDepth)
	var sb strings.Builder
	ws(r, &sb)
	v.serialise(r, &sb)
	ws(r, &sb)
	text := sb.String()
	nontrivial := st.depth >= 2 || st.emptyArr || st.emptyObj || st.emptyKey
	sum.Count("json:"+text, nontrivial)
	sum.Hist(fmt.Sprintf("json:depth:%d", st.depth))
	if st.emptyArr || st.emptyObj {
		sum.Hist("json:empty-container")
	}
	if st.emptyKey {
		sum.Hist("json:empty-key")
	}
	if st.escapes > 0 {
		sum.Hist("json:escapes")
	}
	if st.unicode > 0 {
		sum.Hist("json:non-ascii")
	}
	if st.nums > 0 {
		sum.Hist("json:numbers")
	}
	if st.boundary > 0 {
		sum.Hist("json:boundary-number")
	}
	if st.dups > 0 {
		// repeated keys: the converter folds them (json_convert_fold), encoding/json keeps the last;
		// outside the property - the implementation is compared with the model only
		sum.Hist("json:repeated-keys(model jfold only)")
		skipOracle = true
		runJSON(sum, cw, text, v, false)
		skipOracle = false
		return
	}
	failed := runJSONShrunk(sum, cw, text, v, "")
	if !failed && nontrivial && len(sum.Samples) < 2 && st.depth >= 2 {
		sum.Sample(map[string]interface{}{"kind": "json", "text": text})
	}
}

// shrunkFrom is attached to reported failures; skipOracle turns the property oracle off for
// corpus cases outside the theorem's hypotheses (model-vs-implementation comparison only).
var shrunkFrom string
var skipOracle bool

func jsonCandidates(v *jval) []*jval {
	var out []*jval
	switch v.K {
	case jArr:
		if n := len(v.Arr); n > 4 {
			// delta debugging first: halves, then quarters
			for _, cut := range [][2]int{{0, n / 2}, {n / 2, n}, {0, n / 4}, {n / 4, n / 2}, {n / 2, 3 * n / 4}, {3 * n / 4, n}} {
				out = append(out, &jval{K: jArr, Arr: append([]*jval{}, v.Arr[cut[0]:cut[1]]...)})
				c := &jval{K: jArr}
				c.Arr = append(append(c.Arr, v.Arr[:cut[0]]...), v.Arr[cut[1]:]...)
				out = append(out, c)
			}
		}
		out = append(out, v.Arr...)
		for i := range v.Arr {
			c := &jval{K: jArr}
			c.Arr = append(append(c.Arr, v.Arr[:i]...), v.Arr[i+1:]...)
			out = append(out, c)
		}
		for i, x := range v.Arr {
			for _, xc := range jsonCandidates(x) {
				c := &jval{K: jArr, Arr: append([]*jval{}, v.Arr...)}
				c.Arr[i] = xc
				out = append(out, c)
			}
		}
	case jObj:
		if n := len(v.Keys); n > 4 {
			for _, cut := range [][2]int{{0, n / 2}, {n / 2, n}, {0, n / 4}, {n / 4, n / 2}, {n / 2, 3 * n / 4}, {3 * n / 4, n}} {
				out = append(out, &jval{K: jObj, Keys: v.Keys[cut[0]:cut[1]], Vals: v.Vals[cut[0]:cut[1]]})
				c := &jval{K: jObj}
				c.Keys = append(append(c.Keys, v.Keys[:cut[0]]...), v.Keys[cut[1]:]...)
				c.Vals = append(append(c.Vals, v.Vals[:cut[0]]...), v.Vals[cut[1]:]...)
				out = append(out, c)
			}
		}
		out = append(out, v.Vals...)
		for i := range v.Keys {
			c := &jval{K: jObj}
			c.Keys = append(append(c.Keys, v.Keys[:i]...), v.Keys[i+1:]...)
			c.Vals = append(append(c.Vals, v.Vals[:i]...), v.Vals[i+1:]...)
			out = append(out, c)
		}
		for i, x := range v.Vals {
			for _, xc := range jsonCandidates(x) {
				c := &jval{K: jObj, Keys: v.Keys, Vals: append([]*jval{}, v.Vals...)}
				c.Vals[i] = xc
				out = append(out, c)
			}
		}
	case jStr:
		if v.S != "s" {
			out = append(out, &jval{K: jStr, S: "s", Ser: `"s"`})
		}
	case jNum:
		if v.Num != "1" {
			out = append(out, &jval{K: jNum, F: 1, Num: "1"})
		}
	}
	return out
}

// shrinkJSON: greedy, within a wall-clock budget (big values cost tens of ms per evaluation).
func shrinkJSON(v *jval) *jval {
	return shrinkJSONWith(v, func(c *jval) bool {
		var sb strings.Builder
		c.serialise(nil, &sb)
		return runJSON(nil, nil, sb.String(), c, false)
	})
}

func shrinkJSONWith(v *jval, fails func(*jval) bool) *jval {
	deadline := time.Now().Add(6 * time.Second)
	for round := 0; round < 400 && time.Now().Before(deadline); round++ {
		progress := false
		for _, c := range jsonCandidates(v) {
			if !time.Now().Before(deadline) {
				break
			}
			if fails(c) {
				v, progress = c, true
				break
			}
		}
		if !progress {
			break
		}
	}
	return v
}

// ---- fixed parts of every run ------------------------------------------------------------------------

var boundaryCache []string

// boundaryNumbers: literals at the edges of the integer / float64 formats: 2^k-1, 2^k, 2^k+1 (and
// their negatives) around the widths 8..65, the neighbours of 2^63 that round to it, powers of ten
// and their predecessors up to 1e25, .5 decimals where float64 runs out of fraction bits, extreme
// exponents, and the sentinel values people write (MaxInt64, MaxUint64, ...).
func boundaryNumbers() []string {
	if boundaryCache != nil {
		return boundaryCache
	}
	var out []string
	add := func(s string) {
		if f, err := strconv.ParseFloat(s, 64); err == nil && !math.IsInf(f, 0) {
			out = append(out, s)
		}
	}
	one := big.NewInt(1)
	for _, k := range []uint{7, 8, 15, 16, 23, 24, 31, 32, 52, 53, 54, 62, 63, 64, 65} {
		p := new(big.Int).Lsh(one, k)
		for _, d := range []int64{-1, 0, 1} {
			x := new(big.Int).Add(p, big.NewInt(d))
			add(x.String())
			add("-" + x.String())
		}
	}
	for _, s := range []string{"9223372036854775807", "9223372036854775808", "-9223372036854775808", "-9223372036854775809",
		"9223372036854775296", "9223372036854776832", "9223372036854774784", "9223372036854777856", "-9223372036854775296",
		"18446744073709551615", "18446744073709551616", "18446744073709549568", "9007199254740991", "9007199254740992", "9007199254740993",
		"-9007199254740991", "-9007199254740993", "4503599627370495.5", "4503599627370496.5", "4503599627370497.5", "2251799813685247.75",
		"0.5", "1.5", "2.5", "-0.5", "0.1", "0.2", "0.30000000000000004", "1e19", "1e18", "1E19", "-1e19", "1.0e19", "10000000000000000000",
		"9.223372036854775807e18", "9.223372036854775808e18", "92233720368547758.07e2", "1.8446744073709551615e19",
		"123456789012345680000", "99999999999999990000", "9999999999999998", "9999999999999999", "99999999999999999999",
		"1.7976931348623157e308", "-1.7976931348623157e308", "5e-324", "4.9e-324", "2.2250738585072014e-308", "2.2250738585072009e-308",
		"1e-400", "-1e-400", "0", "-0", "-0.0", "0e5", "1e-7", "1e-6", "0.000001", "0.0000001", "1e20", "1e21", "1e22", "1e23",
		"3.4028234663852886e38", "16777217", "0.1e-1", "1e+0", "2147483647", "2147483648", "-2147483648", "-2147483649", "4294967295", "4294967296"} {
		add(s)
	}
	p := big.NewInt(1)
	for k := 0; k <= 25; k++ {
		add(p.String())
		add(new(big.Int).Sub(p, one).String())
		add("-" + p.String())
		p = new(big.Int).Mul(p, big.NewInt(10))
	}
	boundaryCache = out
	return out
}

func numVal(s string) *jval {
	f, _ := strconv.ParseFloat(s, 64)
	return &jval{K: jNum, F: f, Num: s}
}

func strVal(s string) *jval {
	q, _ := json.Marshal(s)
	return &jval{K: jStr, S: s, Ser: string(q)}
}

// boundaryDocs: every run, every boundary number goes through the whole oracle path
// (J2NodeToInterface, JSONify2, copy Transform vs encoding/json by float64 bits) and the model:
// as array elements, as object members, nested in objects in arrays, and alone at the root.
func boundaryDocs(sum *vh.Summary, cw *vh.CaseWriter) {
	bn := boundaryNumbers()
	const chunk = 40
	for i := 0; i < len(bn); i += chunk {
		j := i + chunk
		if j > len(bn) {
			j = len(bn)
		}
		arr := &jval{K: jArr}
		obj := &jval{K: jObj}
		nested := &jval{K: jArr}
		for k, s := range bn[i:j] {
			arr.Arr = append(arr.Arr, numVal(s))
			obj.Keys = append(obj.Keys, strVal(fmt.Sprintf("n%d", i+k)))
			obj.Vals = append(obj.Vals, numVal(s))
			nested.Arr = append(nested.Arr, &jval{K: jObj, Keys: []*jval{strVal("id"), strVal("")},
				Vals: []*jval{numVal(s), &jval{K: jArr, Arr: []*jval{numVal(s)}}}})
		}
		for _, v := range []*jval{arr, obj, nested} {
			var sb strings.Builder
			v.serialise(nil, &sb)
			sum.Count("json:"+sb.String(), true)
			sum.Hist("json:fixed-boundary-doc")
			runJSONShrunk(sum, cw, sb.String(), v, "")
		}
	}
	for _, s := range []string{"9223372036854775807", "9223372036854775808", "-9223372036854775808", "18446744073709551615", "1e19", "9007199254740993"} {
		sum.Count("json:"+s, false)
		runJSON(sum, cw, s, numVal(s), false)
	}
}

func genLeaf(r *vh.Rng, i int) *jval {
	switch r.Pick(6) {
	case 0:
		return &jval{K: jNull}
	case 1:
		return &jval{K: jBool, B: i%2 == 0}
	case 2:
		bn := boundaryNumbers()
		return numVal(bn[r.Pick(len(bn))])
	case 3:
		return numVal(strconv.Itoa(i*7 - 3000))
	case 4:
		return numVal(fmt.Sprintf("%d.%02d", i, i%100))
	default:
		return strVal(fmt.Sprintf("s%d", i))
	}
}

func countLeaves(v *jval) int {
	switch v.K {
	case jArr:
		n := 0
		for _, x := range v.Arr {
			n += countLeaves(x)
		}
		return n
	case jObj:
		n := 0
		for _, x := range v.Vals {
			n += countLeaves(x)
		}
		return n
	}
	return 1
}

// bigDocs: records with 12k-40k scalar leaves in ONE value (wide, long, and moderately deep).
// They go through the Go-side oracle only (cw == nil): a conversion that degrades after N nodes,
// N leaves or some depth within one call is visible here and nowhere in small documents.
// One smaller member of each run also goes to the model.
func bigDocs(r *vh.Rng, sum *vh.Summary, cw *vh.CaseWriter) {
	mk := func(shape int, target int) *jval {
		i := 0
		leaf := func() *jval { i++; return genLeaf(r, i) }
		switch shape {
		case 0: // {"items":[{4 fields} x N], "meta":...}: the classic record with line items
			items := &jval{K: jArr}
			for i < target {
				it := &jval{K: jObj}
				for _, k := range []string{"id", "qty", "price", "name"} {
					it.Keys = append(it.Keys, strVal(k))
					it.Vals = append(it.Vals, leaf())
				}
				items.Arr = append(items.Arr, it)
			}
			return &jval{K: jObj, Keys: []*jval{strVal("order"), strVal("items"), strVal("total")},
				Vals: []*jval{leaf(), items, leaf()}}
		case 1: // one flat array
			a := &jval{K: jArr}
			for i < target {
				a.Arr = append(a.Arr, leaf())
			}
			return a
		case 2: // one flat object with distinct keys (one of them "")
			o := &jval{K: jObj, Keys: []*jval{strVal("")}, Vals: []*jval{leaf()}}
			for i < target {
				o.Keys = append(o.Keys, strVal(fmt.Sprintf("k%d", i)))
				o.Vals = append(o.Vals, leaf())
			}
			return o
		case 3: // moderately deep: a chain of depth 60, a few hundred leaves at every level
			per := target / 60
			var cur *jval
			for d := 0; d < 60; d++ {
				if d%2 == 0 {
					n := &jval{K: jArr}
					for k := 0; k < per; k++ {
						n.Arr = append(n.Arr, leaf())
					}
					if cur != nil {
						n.Arr = append(n.Arr, cur)
					}
					cur = n
				} else {
					n := &jval{K: jObj}
					for k := 0; k < per; k++ {
						n.Keys = append(n.Keys, strVal(fmt.Sprintf("f%d", k)))
						n.Vals = append(n.Vals, leaf())
					}
					n.Keys = append(n.Keys, strVal("next"))
					n.Vals = append(n.Vals, cur)
					cur = n
				}
			}
			return cur
		default: // matrix: array of arrays
			side := 1
			for side*side < target {
				side++
			}
			m := &jval{K: jArr}
			for a := 0; a < side; a++ {
				row := &jval{K: jArr}
				for b := 0; b < side; b++ {
					row.Arr = append(row.Arr, leaf())
				}
				m.Arr = append(m.Arr, row)
			}
			return m
		}
	}
	for shape := 0; shape < 5; shape++ {
		v := mk(shape, r.Between(12000, 26000))
		var sb strings.Builder
		v.serialise(nil, &sb)
		text := sb.String()
		sum.Count(fmt.Sprintf("json-big:%d:%d", shape, len(text)), true)
		sum.Hist(fmt.Sprintf("json:big-record(%dk+ leaves, oracle only)", countLeaves(v)/10000*10))
		runJSONShrunk(sum, nil, text, v, fmt.Sprintf("a generated record with %d scalar leaves (shape %d)", countLeaves(v), shape))
	}
	// one wide value also through the model
	v := mk(r.Pick(3), 600)
	var sb strings.Builder
	v.serialise(nil, &sb)
	sum.Count("json:"+sb.String(), true)
	sum.Hist("json:wide-record(600 leaves, model too)")
	runJSON(sum, cw, sb.String(), v, false)
}

func clip(s string) string {
	if len(s) > 2000 {
		return s[:2000] + fmt.Sprintf("... (%d bytes)", len(s))
	}
	return s
}

// runJSONShrunk runs a generated value; when the oracle fails on it (and only a few failures
// have been reported so far) the value is shrunk and the minimal failing document is reported.
func runJSONShrunk(sum *vh.Summary, cw *vh.CaseWriter, text string, v *jval, from string) bool {
	nf := len(sum.Failures)
	failed := runJSON(sum, cw, text, v, false)
	if failed && len(sum.Failures) == nf+1 && nf < 4 {
		sum.Failures = sum.Failures[:nf]
		w := shrinkJSON(v)
		var sb strings.Builder
		w.serialise(nil, &sb)
		if from == "" {
			from = text
		}
		shrunkFrom = from
		runJSON(sum, cw, sb.String(), w, false)
		shrunkFrom = ""
	}
	return failed
}

// ---- freshness of returned values ---------------------------------------------------------------------

// mutateValue changes a converted value the way an owner may: every map gets a new key and all
// its entries overwritten (after their own contents were changed), every slice gets its elements
// overwritten and one appended.  Empty maps and slices are changed too.
func mutateValue(v interface{}) interface{} {
	switch x := v.(type) {
	case map[string]interface{}:
		for k, e := range x {
			mutateValue(e)
			x[k] = "MUT"
		}
		x["__mut"] = map[string]interface{}{"by": "caller"}
		return x
	case []interface{}:
		for i, e := range x {
			mutateValue(e)
			x[i] = "MUT"
		}
		return append(x, "MUT")
	}
	return v
}

const probeText = `[{},{"a":{},"":[]},[],"x",[[],{}],{"k":1}]`

var probeRef interface{}

// probeTree reads the fixed probe document (empty objects and arrays at several places).
func probeTree() *idr.Node {
	if probeRef == nil {
		_ = json.Unmarshal([]byte(probeText), &probeRef)
	}
	rd, err := idr.NewJSONStreamReader(strings.NewReader(probeText), ".")
	if err != nil {
		return nil
	}
	n, err := rd.Read()
	if err != nil {
		return nil
	}
	return n
}

func sameJSONText(js string, ref interface{}) bool {
	var v interface{}
	return json.Unmarshal([]byte(js), &v) == nil && eqJSON(v, ref)
}

// ---- copy results handed to javascript, record after record -------------------------------------------

// Every record is copied twice: once as the argument of a javascript custom_func that changes the
// value it was given (goja writes property assignments through to the Go map / slice), once as the
// output.  The output of every record must still equal the record.
const seqSchema = `{
 "parser_settings": {"version": "omni.2.1", "file_format_type": "json"},
 "transform_declarations": {"FINAL_OUTPUT": {"xpath": "/*", "object": {
   "a_mut": {"custom_func": {"name": "javascript", "args": [
      {"const": "(function m(x){ if (x === null || typeof x !== 'object') return; if (Array.isArray(x)) { for (var i = 0; i < x.length; i++) { m(x[i]); x[i] = 'MUT'; } x.push('MUT'); } else { for (var k in x) { m(x[k]); x[k] = 'MUT'; } x.__mut = 'js'; } })(v); 'done'"},
      {"const": "v"}, {"xpath": ".", "custom_func": {"name": "copy"}, "keep_empty_or_null": true}]}},
   "copy": {"xpath": ".", "custom_func": {"name": "copy"}, "keep_empty_or_null": true, "no_trim": true},
   "z_mut": {"custom_func": {"name": "javascript", "args": [
      {"const": "w.__late = 1; 'done'"},
      {"const": "w"}, {"xpath": ".", "custom_func": {"name": "copy", "ignore_error": true}, "keep_empty_or_null": true}]}}
 }}}
}`

// NOTE the three copy declarations above are deliberately NOT textually identical: the transform
// result cache (parse.go: key = node ID + declaration hash) hands the SAME Go value to textually
// equal declarations evaluated on one node, so a javascript that changes its argument changes
// the sibling field too (new finding F17, corpus f17_shared_cached_copy.json).

var seqSch omniparser.Schema

// runJSONSeq: text is a JSON array of records (each an object or array).  Returns whether the
// oracle failed.  schema "" = seqSchema above.
func runJSONSeq(sum *vh.Summary, text, schema string, verbose bool) (failed bool) {
	cs := textCase{Kind: "json-seq", Text: text, Schema: schema}
	if sum != nil {
		vh.Current(opts, cs)
	}
	fail := func(what string, detail interface{}) {
		failed = true
		if sum != nil {
			sum.Fail(what, cs, map[string]interface{}{"detail": detail, "shrunk_from": shrunkFrom})
		}
		if verbose {
			fmt.Println(" ", what, detail)
		}
	}
	var recs []interface{}
	if err := json.Unmarshal([]byte(text), &recs); err != nil {
		fail("harness: json-seq text is not an array of records", err.Error())
		return
	}
	defer func() {
		if p := recover(); p != nil {
			fail("copy/javascript transform panicked", fmt.Sprint(p))
		}
	}()
	sch := seqSch
	if schema != "" || sch == nil {
		src := schema
		if src == "" {
			src = seqSchema
		}
		s, err := omniparser.NewSchema("c08-seq", strings.NewReader(src))
		if err != nil {
			fail("harness: sequence schema rejected", err.Error())
			return
		}
		sch = s
		if schema == "" {
			seqSch = s
		}
	}
	tr, err := sch.NewTransform("c08-seq", strings.NewReader(text), &transformctx.Ctx{})
	if err != nil {
		fail("NewTransform failed", err.Error())
		return
	}
	var kept [][]byte // every slice Transform.Read returned: the caller may keep them (batching)
	for i, want := range recs {
		b, err := tr.Read()
		if err != nil {
			fail(fmt.Sprintf("record %d: Read failed on a valid record", i), err.Error())
			return
		}
		kept = append(kept, b)
		var out map[string]interface{}
		if err := json.Unmarshal(b, &out); err != nil {
			fail(fmt.Sprintf("record %d: output does not decode", i), string(b))
			return
		}
		if verbose {
			fmt.Printf(" record %d: copy=%s\n", i, clip(string(b)))
		}
		if got, ok := out["copy"]; !ok || !eqJSON(got, want) {
			gb, _ := json.Marshal(got)
			wb, _ := json.Marshal(want)
			fail("copy of a record is influenced by what a javascript custom_func did to another copy (the copied value is not fresh)",
				map[string]interface{}{"record": i, "copy": clip(string(gb)), "record_value": clip(string(wb))})
			return
		}
	}
	if _, err := tr.Read(); err != io.EOF {
		fail("transform did not end after the last record", fmt.Sprint(err))
		return
	}
	// the bytes returned for record k still are record k after all later Reads
	for i, b := range kept {
		var out map[string]interface{}
		if !json.Valid(b) || json.Unmarshal(b, &out) != nil || !eqJSON(out["copy"], recs[i]) {
			fail("the bytes Transform.Read returned for a copied record changed after later Reads (the record is no longer an equal JSON value)",
				map[string]interface{}{"record": i, "bytes_now": clip(string(b))})
			return
		}
	}
	return
}

func genJSONSeq(r *vh.Rng, sum *vh.Summary) {
	st := &jstats{}
	arr := &jval{K: jArr}
	for i, k := 0, r.Between(2, 5); i < k; i++ {
		rec := &jval{K: jObj, Keys: []*jval{strVal("id"), strVal("e"), strVal("a"), strVal("v")},
			Vals: []*jval{numVal(strconv.Itoa(i)), {K: jObj}, {K: jArr}, genValue(r, st, 1, pickOf(r, 1, 2, 3))}}
		if r.Chance(0.3) {
			rec = &jval{K: jArr, Arr: []*jval{{K: jObj}, genValue(r, st, 1, 2), {K: jArr}}}
		}
		arr.Arr = append(arr.Arr, rec)
	}
	var sb strings.Builder
	arr.serialise(nil, &sb)
	text := sb.String()
	sum.Count("json-seq:"+text, true)
	sum.Hist("json:record-sequence(copy handed to javascript, oracle only)")
	nf := len(sum.Failures)
	if runJSONSeq(sum, text, "", false) && len(sum.Failures) == nf+1 && nf < 4 {
		sum.Failures = sum.Failures[:nf]
		w := shrinkJSONWith(arr, func(c *jval) bool {
			if c.K != jArr {
				return false
			}
			for _, x := range c.Arr {
				if x.K != jObj && x.K != jArr {
					return false
				}
			}
			var b strings.Builder
			c.serialise(nil, &b)
			return runJSONSeq(nil, b.String(), "", false)
		})
		var b strings.Builder
		w.serialise(nil, &b)
		shrunkFrom = text
		runJSONSeq(sum, b.String(), "", false)
		shrunkFrom = ""
	}
}

// escapeDocs: every run, strings and KEYS whose content looks like JSON escapes or needs escaping in
// some output form (HTML-safe escapes of json.Marshal, U+2028/2029, quotes, backslashes) go through
// the whole oracle path - in particular through the bytes Transform.Read returns for a copy.
func escapeDocs(sum *vh.Summary, cw *vh.CaseWriter) {
	contents := []string{`\u003c`, `\u003e`, `\u0026`, `\\u003c`, `a\u003cb\u003ec\u0026d`, `<`, `>`, `&`, `<>&`, `\<`, `\\`, `\`, `"`, `\"`,
		"\u2028", "\u2029", `\u2028`, `\u2029`, `\n`, "\n", `\/`, `/`, `</script>`, `\u003cscript\u003e`, `\U003C`, `\u003C`, `\x3c`, `&lt;`, `&amp;`, `%3C`,
		`\u0000`, "\x00", `'`, `\'`, `\u`, `\u00`, `u003c`, `\ u003c`}
	arr := &jval{K: jArr}
	obj := &jval{K: jObj}
	seen := map[string]bool{}
	for _, c := range contents {
		arr.Arr = append(arr.Arr, strVal(c))
		if !seen[c] {
			seen[c] = true
			obj.Keys = append(obj.Keys, strVal(c))
			obj.Vals = append(obj.Vals, &jval{K: jObj, Keys: []*jval{strVal(c + "k")}, Vals: []*jval{strVal(c)}})
		}
	}
	docs := []*jval{arr, obj}
	for _, c := range contents[:6] {
		docs = append(docs, strVal(c), &jval{K: jObj, Keys: []*jval{strVal(c)}, Vals: []*jval{strVal(c)}})
	}
	for _, v := range docs {
		var sb strings.Builder
		v.serialise(nil, &sb)
		sum.Count("json:"+sb.String(), true)
		sum.Hist("json:fixed-escape-doc")
		runJSONShrunk(sum, cw, sb.String(), v, "")
	}
}
