package main

import (
	"encoding/xml"
	"encoding/hex"
	"fmt"
	"io"
	"strings"
	"time"
	"unicode/utf8"

	"github.com/jf-tech/omniparser/idr"
	"golang.org/x/net/html/charset"

	"verifharness/vh"
)

// ---- DOM: the document as written --------------------------------------------------------------

type xkind int

const (
	xElem xkind = iota
	xText       // one CharData token: text (entities decoded) or one CDATA section
	xSkip       // comment, processing instruction, directive
)

type xa struct {
	Pfx, Loc, Val string
	raw          string // serialised: name="escaped value"
}

type xn struct {
	K        xkind
	Pfx, Loc string
	Attrs    []xa
	Kids     []*xn
	Text     string // decoded character data
	raw      string // serialised form of a text / skip item
	selfClose bool
}

const xmlURL = "http://www.w3.org/XML/1998/namespace"

type binding struct{ pfx, uri string }

func lookupNS(env []binding, pfx string) (string, bool) {
	for i := len(env) - 1; i >= 0; i-- {
		if env[i].pfx == pfx {
			return env[i].uri, true
		}
	}
	return "", false
}

func pushDecls(env []binding, attrs []xa) []binding {
	out := append([]binding{}, env...)
	for _, a := range attrs {
		if a.Pfx == "xmlns" {
			out = append(out, binding{a.Loc, a.Val})
		}
		if a.Pfx == "" && a.Loc == "xmlns" {
			out = append(out, binding{"", a.Val})
		}
	}
	return out
}

// ---- the reference tree: prefix as written, URI as bound in scope --------------------------------

type rnode struct {
	Ty       string
	Data     string
	Pfx, URI string
	Pred     string // the prefix HEAD's reader predicts: the last prefix declared for URI, document-wide
	Kids     []*rnode
}

func scopeURI(env []binding, pfx string) string {
	if pfx == "xml" {
		return xmlURL
	}
	u, _ := lookupNS(env, pfx)
	return u
}

// lastWins is the tiny reference of the reader's namespace handling at /repo HEAD: one map
// URI -> prefix for the whole document, every declaration overwrites (updateNamespaces), a node
// gets the prefix the map holds for its URI when it is reached.
type lastWins map[string]string

func newLastWins() lastWins { return lastWins{xmlURL: "xml"} }

func (lw lastWins) declare(attrs []xa) {
	for _, a := range attrs {
		if a.Loc == "xmlns" {
			lw[a.Val] = ""
		} else if a.Pfx == "xmlns" {
			lw[a.Val] = a.Loc
		}
	}
}

func refTree(env []binding, lw lastWins, n *xn) []*rnode {
	switch n.K {
	case xText:
		return []*rnode{{Ty: "TextNode", Data: n.Text}}
	case xSkip:
		return nil
	}
	env2 := pushDecls(env, n.Attrs)
	lw.declare(n.Attrs)
	e := &rnode{Ty: "ElementNode", Data: n.Loc, Pfx: n.Pfx, URI: scopeURI(env2, n.Pfx)}
	e.Pred = lw[e.URI]
	for _, a := range n.Attrs {
		an := &rnode{Ty: "AttributeNode", Data: a.Loc}
		switch {
		case a.Pfx == "xmlns":
			an.Pfx, an.Pred = "xmlns", "xmlns" // a namespace declaration, as the reader keeps it
		case a.Pfx == "":
		default:
			an.Pfx, an.URI = a.Pfx, scopeURI(env2, a.Pfx)
			an.Pred = lw[an.URI]
		}
		an.Kids = []*rnode{{Ty: "TextNode", Data: a.Val}}
		e.Kids = append(e.Kids, an)
	}
	for _, k := range n.Kids {
		e.Kids = append(e.Kids, refTree(env2, lw, k)...)
	}
	return []*rnode{e}
}

func refDoc(items []*xn) *rnode {
	d := &rnode{Ty: "DocumentNode"}
	lw := newLastWins()
	for _, it := range items {
		d.Kids = append(d.Kids, refTree(nil, lw, it)...)
		if it.K == xElem {
			break
		}
	}
	return d
}

// lastWinsOK: the last-wins prediction equals the written (in-scope) prefix at every node, i.e.
// the document is outside the known class F11 (guard lastwins_ok of the model).
func lastWinsOK(r *rnode) bool {
	if r.URI != "" && r.Pred != r.Pfx {
		return false
	}
	for _, k := range r.Kids {
		if !lastWinsOK(k) {
			return false
		}
	}
	return true
}

// strictPrefix: report every prefix difference, also on nodes of the known class (set for the
// corpus witness of F11, which must keep failing until the reader scopes its map).
var strictPrefix bool

// diffTree compares the idr tree with the reference tree node by node.  It returns the first
// difference that is a failure ("" if none) and counts in *known the nodes whose prefix differs
// from the written one where the last-wins map of HEAD predicts a wrong prefix as well (members
// of the known class F11: not reported, unless strictPrefix).
func diffTree(n *idr.Node, r *rnode, path string, known *int) string {
	here := path + "/" + r.Ty + "(" + r.Data + ")"
	if n.Type.String() != r.Ty {
		return fmt.Sprintf("%s: node type %s, want %s", here, n.Type, r.Ty)
	}
	if n.Data != r.Data {
		return fmt.Sprintf("%s: data %q, want %q", here, n.Data, r.Data)
	}
	fs, ok := n.FormatSpecific.(idr.XMLSpecific)
	if !ok {
		return here + ": not an XML node"
	}
	if fs.NamespaceURI != r.URI {
		return fmt.Sprintf("%s: namespace URI %q, want %q", here, fs.NamespaceURI, r.URI)
	}
	if fs.NamespacePrefix != r.Pfx {
		if r.Pred == r.Pfx || r.URI == "" || strictPrefix {
			return fmt.Sprintf("%s: namespace prefix %q is not the prefix %q written in the document and bound to %q in scope (a document-wide last-declaration-wins map gives %q here)",
				here, fs.NamespacePrefix, r.Pfx, r.URI, r.Pred)
		}
		*known++
	}
	c := n.FirstChild
	for i, rk := range r.Kids {
		if c == nil {
			return fmt.Sprintf("%s: child %d (%s %q) missing", here, i, rk.Ty, rk.Data)
		}
		if d := diffTree(c, rk, here, known); d != "" {
			return d
		}
		c = c.NextSibling
	}
	if c != nil {
		return fmt.Sprintf("%s: extra child %s %q", here, c.Type, c.Data)
	}
	return ""
}

// ---- guards (the harness's own reading of ns_wf and uri_single_prefix) --------------------------

func allDecls(n *xn, out *[]binding) {
	if n.K != xElem {
		return
	}
	for _, a := range n.Attrs {
		if a.Pfx == "xmlns" {
			*out = append(*out, binding{a.Loc, a.Val})
		} else if a.Pfx == "" && a.Loc == "xmlns" {
			*out = append(*out, binding{"", a.Val})
		}
	}
	for _, k := range n.Kids {
		allDecls(k, out)
	}
}

func uriSinglePrefix(items []*xn) bool {
	ds := []binding{{"xml", xmlURL}}
	for _, it := range items {
		allDecls(it, &ds)
	}
	for _, a := range ds {
		for _, b := range ds {
			if a.uri == b.uri && a.pfx != b.pfx {
				return false
			}
		}
	}
	return true
}

func pfxBound(env []binding, p string) bool {
	if p == "xml" {
		return true
	}
	u, ok := lookupNS(env, p)
	return ok && u != ""
}

func nodeWF(env []binding, n *xn) bool {
	if n.K != xElem {
		return true
	}
	env2 := pushDecls(env, n.Attrs)
	for _, a := range n.Attrs {
		switch {
		case a.Pfx == "xmlns":
			if a.Val == "" || a.Val == "xmlns" || a.Loc == "xmlns" || a.Loc == "xml" || a.Loc == xmlURL || a.Loc == "" {
				return false
			}
		case a.Pfx == "" && a.Loc == "xmlns":
			if a.Val == "xmlns" {
				return false
			}
		case a.Pfx == "":
		default:
			if !pfxBound(env2, a.Pfx) || a.Loc == "xmlns" {
				return false
			}
		}
	}
	if n.Pfx == "xmlns" {
		return false
	}
	if n.Pfx == "" {
		if n.Loc == "xmlns" {
			return false
		}
	} else if !pfxBound(env2, n.Pfx) {
		return false
	}
	for _, k := range n.Kids {
		if !nodeWF(env2, k) {
			return false
		}
	}
	return true
}

func nsWF(items []*xn) bool {
	for _, it := range items {
		if !nodeWF(nil, it) {
			return false
		}
	}
	return true
}

// ---- reading a text back into a DOM with RawToken (names as written) ----------------------------

func parseDOM(text string) ([]*xn, error) {
	d := xml.NewDecoder(strings.NewReader(text))
	d.CharsetReader = charset.NewReaderLabel
	var items []*xn
	var stack []*xn
	add := func(n *xn) {
		if len(stack) == 0 {
			items = append(items, n)
		} else {
			top := stack[len(stack)-1]
			top.Kids = append(top.Kids, n)
		}
	}
	for {
		t, err := d.RawToken()
		if err == io.EOF {
			if len(stack) != 0 {
				return items, fmt.Errorf("unclosed element")
			}
			return items, nil
		}
		if err != nil {
			return items, err
		}
		switch t := t.(type) {
		case xml.StartElement:
			n := &xn{K: xElem, Pfx: t.Name.Space, Loc: t.Name.Local}
			for _, a := range t.Attr {
				n.Attrs = append(n.Attrs, xa{Pfx: a.Name.Space, Loc: a.Name.Local, Val: a.Value})
			}
			add(n)
			stack = append(stack, n)
		case xml.EndElement:
			if len(stack) == 0 {
				return items, fmt.Errorf("unbalanced end element")
			}
			stack = stack[:len(stack)-1]
		case xml.CharData:
			add(&xn{K: xText, Text: string(t)})
		default:
			add(&xn{K: xSkip})
		}
	}
}

func eqDOM(a, b []*xn) bool {
	if len(a) != len(b) {
		return false
	}
	for i := range a {
		x, y := a[i], b[i]
		if x.K != y.K || x.Pfx != y.Pfx || x.Loc != y.Loc || x.Text != y.Text || len(x.Attrs) != len(y.Attrs) {
			return false
		}
		for j := range x.Attrs {
			if x.Attrs[j].Pfx != y.Attrs[j].Pfx || x.Attrs[j].Loc != y.Attrs[j].Loc || x.Attrs[j].Val != y.Attrs[j].Val {
				return false
			}
		}
		if !eqDOM(x.Kids, y.Kids) {
			return false
		}
	}
	return true
}

// ---- Coq printers ------------------------------------------------------------------------------

func coqXNode(n *xn) string {
	switch n.K {
	case xText:
		return "XText " + cb([]byte(n.Text))
	case xSkip:
		return "XSkip"
	}
	as := []string{}
	for _, a := range n.Attrs {
		as = append(as, fmt.Sprintf("mkXA %s %s %s", cb([]byte(a.Pfx)), cb([]byte(a.Loc)), cb([]byte(a.Val))))
	}
	ks := []string{}
	for _, k := range n.Kids {
		ks = append(ks, coqXNode(k))
	}
	return fmt.Sprintf("XElem %s %s %s %s", cb([]byte(n.Pfx)), cb([]byte(n.Loc)), vh.CoqList(as), vh.CoqList(ks))
}

func coqXDoc(items []*xn) string {
	xs := []string{}
	for _, it := range items {
		xs = append(xs, coqXNode(it))
	}
	return vh.CoqList(xs)
}

// xmlTokens is what xml.Decoder.Token reports for the text (the harness reads it itself), as Coq
// terms and as the event strings used by the Go-side faithfulness oracle.
func xmlTokens(text string) (coq []string, evs []string, err error) {
	d := xml.NewDecoder(strings.NewReader(text))
	d.CharsetReader = charset.NewReaderLabel // the documented charset handling of the XML reader
	for {
		t, e := d.Token()
		if e == io.EOF {
			return coq, evs, nil
		}
		if e != nil {
			return coq, evs, e
		}
		switch t := t.(type) {
		case xml.StartElement:
			as := []string{}
			ev := fmt.Sprintf("start %q %q", t.Name.Space, t.Name.Local)
			for _, a := range t.Attr {
				as = append(as, fmt.Sprintf("(%s, %s, %s)", cb([]byte(a.Name.Space)), cb([]byte(a.Name.Local)), cb([]byte(a.Value))))
				ev += fmt.Sprintf(" attr %q %q %q", a.Name.Space, a.Name.Local, a.Value)
			}
			coq = append(coq, fmt.Sprintf("XTStart %s %s %s", cb([]byte(t.Name.Space)), cb([]byte(t.Name.Local)), vh.CoqList(as)))
			evs = append(evs, ev)
		case xml.EndElement:
			coq = append(coq, fmt.Sprintf("XTEnd %s %s", cb([]byte(t.Name.Space)), cb([]byte(t.Name.Local))))
			evs = append(evs, "end")
		case xml.CharData:
			coq = append(coq, "XTChar "+cb([]byte(t)))
			evs = append(evs, fmt.Sprintf("char %q", string(t)))
		default:
			coq = append(coq, "XTOther")
		}
	}
}

// treeEvents: the token view of the built tree (element order, local names, URIs, attributes as
// leading children in order, character data).
func treeEvents(n *idr.Node, out *[]string) {
	space := func(n *idr.Node) string {
		fs, _ := n.FormatSpecific.(idr.XMLSpecific)
		if fs.NamespaceURI == "" && fs.NamespacePrefix == "xmlns" {
			return "xmlns"
		}
		return fs.NamespaceURI
	}
	switch n.Type {
	case idr.TextNode:
		*out = append(*out, fmt.Sprintf("char %q", n.Data))
	case idr.DocumentNode:
		for c := n.FirstChild; c != nil; c = c.NextSibling {
			treeEvents(c, out)
		}
	case idr.AttributeNode:
		*out = append(*out, "attribute node after a non-attribute child: "+n.Data)
	case idr.ElementNode:
		ev := fmt.Sprintf("start %q %q", space(n), n.Data)
		c := n.FirstChild
		for ; c != nil && c.Type == idr.AttributeNode; c = c.NextSibling {
			v := ""
			if c.FirstChild != nil && c.FirstChild.NextSibling == nil {
				v = c.FirstChild.Data
			}
			ev += fmt.Sprintf(" attr %q %q %q", space(c), c.Data, v)
		}
		*out = append(*out, ev)
		for ; c != nil; c = c.NextSibling {
			treeEvents(c, out)
		}
		*out = append(*out, "end")
	}
}

// ---- running the implementation -------------------------------------------------------------------

type textCase struct {
	Kind   string `json:"kind"`
	Text   string `json:"text"`
	Schema string `json:"schema,omitempty"` // json-seq only: a schema other than the harness's
	Hex    string `json:"hex,omitempty"`    // the document bytes, when they are not UTF-8 (then text is "")
}

func mkTextCase(kind, text string) textCase {
	if utf8.ValidString(text) {
		return textCase{Kind: kind, Text: text}
	}
	return textCase{Kind: kind, Hex: hex.EncodeToString([]byte(text))}
}

// runXML reads one XML text with target ".", evaluates the property oracle (the tree equals the
// document's DOM: order, local names, prefix as written, URI in scope, attributes first and in
// order, character data as encoding/xml reports it) and emits the correspondence case.
// gen is the generator's DOM (nil for raw texts: the DOM is then read back with RawToken).
func runXML(sum *vh.Summary, cw *vh.CaseWriter, text string, gen []*xn, verbose bool) (failed bool) {
	cs := mkTextCase("xml", text)
	if sum != nil {
		vh.Current(opts, cs)
	}
	obs := map[string]interface{}{}
	fail := func(what string, detail interface{}) {
		failed = true
		if sum != nil {
			sum.Fail(what, cs, map[string]interface{}{"detail": detail, "observed": obs, "shrunk_from": shrunkFrom})
		}
	}
	dom, domErr := parseDOM(text)
	if gen != nil {
		if domErr != nil || !eqDOM(gen, dom) {
			fail("harness: generated XML text does not read back (encoding/xml RawToken) as the generated DOM", fmt.Sprint(domErr))
			return
		}
	}
	toks, tokEvs, tokErr := xmlTokens(text)
	wf := domErr == nil && nsWF(dom)
	var ref *rnode
	if domErr == nil {
		ref = refDoc(dom)
	}
	// the guard of xml_prefix_in_scope: namespace-well-formed and HEAD's last-wins map right everywhere
	guard := wf && lastWinsOK(ref)

	var n *idr.Node
	var readErr error
	var panicked string
	var ifc interface{}
	func() {
		defer func() {
			if p := recover(); p != nil {
				panicked = fmt.Sprint(p)
			}
		}()
		rd, err := idr.NewXMLStreamReader(strings.NewReader(text), ".")
		if err != nil {
			readErr = err
			return
		}
		n, readErr = rd.Read()
		if readErr != nil {
			n = nil
			return
		}
		ifc = idr.J2NodeToInterface(n, true)
	}()
	if panicked != "" {
		obs["panic"] = panicked
		fail("XML reader panicked", panicked)
		return
	}
	if readErr != nil {
		obs["read_err"] = readErr.Error()
	}
	hasElem := false
	for _, it := range dom {
		if it.K == xElem {
			hasElem = true
		}
	}

	// ---- property oracle on the implementation ----
	if domErr == nil && tokErr == nil && hasElem {
		switch {
		case n == nil && guard:
			fail("well-formed XML document was not read into a node tree", obs["read_err"])
		case n != nil:
			root := vh.Root(n)
			if len(text) <= 20000 {
				obs["tree"] = coqTree(root)
			}
			// (a) faithful to the token stream, whatever the namespaces
			var tev []string
			treeEvents(root, &tev)
			consumed := tokEvs
			if len(tev) <= len(tokEvs) {
				consumed = tokEvs[:len(tev)]
			}
			same := len(tev) == len(consumed)
			for i := 0; same && i < len(tev); i++ {
				same = tev[i] == consumed[i]
			}
			if !same {
				fail("tree does not preserve the token sequence (element order, local names, URIs, attributes first and in order, character data)",
					map[string]interface{}{"tree_events": tev, "token_events": consumed})
			} else if wf {
				// (b) equal to the document's DOM, prefixes included - on EVERY namespace-well-formed
				// document, node by node: a prefix that differs from the written one is a failure
				// unless HEAD's document-wide last-wins map is wrong at that node too (known class F11)
				known := 0
				if d := diffTree(root, ref, "", &known); d != "" {
					fail("tree differs from the document's DOM", d)
				}
				if known > 0 {
					obs["nodes_in_known_class_F11"] = known
				}
			}
		}
	}

	// ---- correspondence case ----
	tree, elem, ifs := "None", "None", "JNull"
	if n != nil {
		tree = "(Some " + coqTree(vh.Root(n)) + ")"
		elem = "(Some " + coqTree(n) + ")"
		s, ok := coqIface(ifc, nil)
		if !ok {
			fail("J2NodeToInterface returned something that is not a JSON value", nil)
		}
		ifs = s
	}
	if domErr == nil && tokErr == nil {
		term := fmt.Sprintf("CXml (mkXCase %s %s %s %s %s %s)", coqXDoc(dom), vh.CoqList(toks), tree, elem, ifs, vh.CoqBool(guard))
		if cw != nil {
			cw.Add(term, cs)
		}
	}
	if verbose {
		fmt.Printf("xml text: %q\n guard(ns_wf && lastwins_ok)=%v uri_single_prefix=%v read_err=%v\n", text, guard, domErr == nil && uriSinglePrefix(dom), readErr)
		if n != nil && ref != nil {
			known := 0
			d := diffTree(vh.Root(n), ref, "", &known)
			fmt.Printf(" implementation tree: %s\n reference DOM diff: %q; nodes in the known class F11: %d\n", coqTree(vh.Root(n)), d, known)
		}
	}
	return
}

// ---- generator ------------------------------------------------------------------------------------

type xstats struct {
	decls, attrs, mixed, cdata, entities, skips, redecl, defaultNS, depth int
}

// each namespace URI belongs to exactly one prefix for the whole document (uri_single_prefix)
var nsPool = map[string][]string{
	"a": {"urn:a", "urn:a:2"},
	"b": {"http://b.example/x", "urn:b?x=1&y=2"},
	"c": {"u:c"},
	"":  {"urn:d1", "urn:d2", ""},
}
var nsPrefixes = []string{"a", "b", "c", ""}
var elemNames = []string{"r", "x", "y", "item", "n1", "a-b", "_u", "é", "k.v", "x"}
var attrNames = []string{"id", "k", "k2", "lang", "v-1", "é"}

func escAttr(r *vh.Rng, st *xstats, q byte) (dec, raw string) {
	n := r.Between(0, 4)
	var d, s strings.Builder
	for i := 0; i < n; i++ {
		switch r.Pick(12) {
		case 0:
			d.WriteString("<")
			s.WriteString("&lt;")
			st.entities++
		case 1:
			d.WriteString("&")
			s.WriteString("&amp;")
			st.entities++
		case 2:
			d.WriteString("\"")
			if q == '"' || r.Chance(0.5) {
				s.WriteString("&quot;")
			} else {
				s.WriteString("\"")
			}
		case 3:
			d.WriteString("'")
			if q == '\'' || r.Chance(0.5) {
				s.WriteString("&apos;")
			} else {
				s.WriteString("'")
			}
		case 4:
			d.WriteString("\n")
			s.WriteString(r.PickStr("&#10;", "\n", "\r\n", "&#xA;"))
		case 5:
			d.WriteString("é中")
			s.WriteString(r.PickStr("é中", "&#xE9;中", "&#233;&#x4e2d;"))
		case 6:
			d.WriteString(" ")
			s.WriteString(" ")
		case 7:
			d.WriteString(">")
			s.WriteString(r.PickStr(">", "&gt;"))
		case 8:
			d.WriteString("\t\r")
			s.WriteString("\t" + r.PickStr("&#13;", "&#xD;", "&#xd;", "&#x0D;"))
		case 9:
			d.WriteString("\r\n")
			s.WriteString(r.PickStr("&#13;&#10;", "&#xD;&#xA;", "&#13;\n"))
		default:
			w := r.PickStr("v", "abc", "1", "x y", "😀", "urn:a")
			d.WriteString(w)
			s.WriteString(w)
		}
	}
	return d.String(), s.String()
}

func genText(r *vh.Rng, st *xstats, wsOnly bool) *xn {
	if wsOnly {
		s := r.PickStr("\n", " ", "\n  ", "\t")
		return &xn{K: xText, Text: s, raw: s}
	}
	if r.Chance(0.25) {
		st.cdata++
		var b strings.Builder
		for i, k := 0, r.Between(0, 3); i < k; i++ {
			b.WriteString(r.PickStr("abc", "<", "&", "&amp;", "]]", "]", ">", " ", "\n", "é", "<b>x</b>", "\r\n"))
		}
		s := b.String()
		if strings.Contains(s, "]]>") {
			s = "x"
		}
		dec := strings.ReplaceAll(strings.ReplaceAll(s, "\r\n", "\n"), "\r", "\n")
		return &xn{K: xText, Text: dec, raw: "<![CDATA[" + s + "]]>"}
	}
	var d, s strings.Builder
	for i, k := 0, r.Between(1, 4); i < k; i++ {
		switch r.Pick(14) {
		case 0:
			d.WriteString("<")
			s.WriteString(r.PickStr("&lt;", "&#60;", "&#x3c;"))
			st.entities++
		case 1:
			d.WriteString("&")
			s.WriteString(r.PickStr("&amp;", "&#38;"))
			st.entities++
		case 2:
			d.WriteString(">")
			s.WriteString(r.PickStr("&gt;", ">"))
		case 3:
			d.WriteString("\"'")
			s.WriteString(r.PickStr("\"'", "&quot;&apos;"))
		case 4:
			d.WriteString("\n")
			s.WriteString(r.PickStr("\n", "\r\n", "&#10;"))
		case 5:
			d.WriteString("\nz")
			s.WriteString("\rz")
		case 6:
			d.WriteString("\r")
			s.WriteString(r.PickStr("&#13;", "&#xD;", "&#xd;", "&#x0D;"))
			st.entities++
		case 10:
			d.WriteString("a\r\nb")
			s.WriteString(r.PickStr("a&#13;&#10;b", "a&#xD;&#xA;b", "a&#13;\r\nb"))
			st.entities++
		case 7:
			d.WriteString("é中😀")
			s.WriteString(r.PickStr("é中😀", "&#xE9;&#20013;&#x1F600;"))
		case 8:
			d.WriteString("]]z")
			s.WriteString("]]z")
		case 9:
			d.WriteString("  ")
			s.WriteString("  ")
		default:
			w := r.PickStr("t", "text", "1", "2.5", "x y", "true")
			d.WriteString(w)
			s.WriteString(w)
		}
	}
	return &xn{K: xText, Text: d.String(), raw: s.String()}
}

func genSkip(r *vh.Rng, st *xstats) *xn {
	st.skips++
	return &xn{K: xSkip, raw: r.PickStr("<!-- c -->", "<!---->", "<!-- a-b <x> & -->", "<?pi some data?>", "<?x?>", "<!--\n-->")}
}

// genElem builds an element under scope env.  twoPrefix: leave uri_single_prefix on purpose by
// binding an already bound URI to a second prefix (correspondence only, no DOM oracle).
func genElem(r *vh.Rng, st *xstats, env []binding, depth, maxDepth int, twoPrefix *bool) *xn {
	if depth > st.depth {
		st.depth = depth
	}
	e := &xn{K: xElem, Loc: elemNames[r.Pick(len(elemNames))]}
	// namespace declarations
	var decls []xa
	declared := map[string]bool{}
	nd := 0
	if r.Chance(0.45) || depth == 0 && r.Chance(0.5) || *twoPrefix && r.Chance(0.5) {
		nd = r.Between(1, 2)
	}
	for i := 0; i < nd; i++ {
		p := nsPrefixes[r.Pick(len(nsPrefixes))]
		if declared[p] {
			continue
		}
		uris := nsPool[p]
		u := uris[r.Pick(len(uris))]
		if p != "" && u == "" {
			continue
		}
		if *twoPrefix && r.Chance(0.6) {
			// re-bind: a URI from a small pool shared by all prefixes (nested, sibling and
			// default+prefixed re-bindings of one URI all come out of this), or the URI of a
			// binding in scope under a different prefix
			u = r.PickStr("urn:s1", "urn:s1", "urn:s2")
			if len(env) > 0 && r.Chance(0.4) {
				if b := env[r.Pick(len(env))]; b.uri != "" && b.pfx != p {
					u = b.uri
				}
			}
		}
		declared[p] = true
		if _, bound := lookupNS(env, p); bound {
			st.redecl++
		}
		if p == "" {
			st.defaultNS++
			decls = append(decls, xa{Pfx: "", Loc: "xmlns", Val: u})
		} else {
			decls = append(decls, xa{Pfx: "xmlns", Loc: p, Val: u})
		}
		st.decls++
	}
	env2 := pushDecls(env, decls)
	// element prefix: one bound in scope (non-empty URI), or none
	var usable []string
	for _, p := range []string{"a", "b", "c"} {
		if pfxBound(env2, p) {
			usable = append(usable, p)
		}
	}
	if len(usable) > 0 && r.Chance(0.5) {
		e.Pfx = usable[r.Pick(len(usable))]
	}
	// ordinary attributes
	var attrs []xa
	seen := map[string]bool{}
	for i, k := 0, pickOf(r, 0, 0, 1, 2, 3); i < k; i++ {
		a := xa{Loc: attrNames[r.Pick(len(attrNames))]}
		switch {
		case len(usable) > 0 && r.Chance(0.35):
			a.Pfx = usable[r.Pick(len(usable))]
		case r.Chance(0.1):
			a.Pfx, a.Loc = "xml", r.PickStr("lang", "space")
		}
		if seen[a.Pfx+":"+a.Loc] {
			continue
		}
		seen[a.Pfx+":"+a.Loc] = true
		attrs = append(attrs, a)
		st.attrs++
	}
	// declarations and attributes interleaved in the start tag
	all := append(append([]xa{}, decls...), attrs...)
	r.Shuffle(len(all), func(i, j int) { all[i], all[j] = all[j], all[i] })
	for i := range all {
		q := byte('"')
		if r.Chance(0.4) {
			q = '\''
		}
		name := all[i].Loc
		if all[i].Pfx != "" {
			name = all[i].Pfx + ":" + all[i].Loc
		}
		var raw string
		if all[i].Pfx == "xmlns" || (all[i].Pfx == "" && all[i].Loc == "xmlns") {
			raw = strings.NewReplacer("&", "&amp;", "<", "&lt;").Replace(all[i].Val)
		} else {
			all[i].Val, raw = escAttr(r, st, q)
		}
		all[i].raw = name + r.PickStr("=", " = ", "=") + string(q) + raw + string(q)
	}
	e.Attrs = all
	// content
	if depth < maxDepth {
		nk := pickOf(r, 0, 1, 2, 3, 5)
		if depth == 0 && nk == 0 {
			nk = 2
		}
		lastText := false
		hasElem, hasText := false, false
		for i := 0; i < nk; i++ {
			switch c := r.Pick(10); {
			case c < 4:
				e.Kids = append(e.Kids, genElem(r, st, env2, depth+1, maxDepth, twoPrefix))
				lastText, hasElem = false, true
			case c < 8:
				t := genText(r, st, r.Chance(0.3))
				isPlain := !strings.HasPrefix(t.raw, "<![CDATA[")
				if isPlain && lastText {
					continue // two adjacent plain texts would be one CharData token
				}
				e.Kids = append(e.Kids, t)
				lastText, hasText = isPlain, true
			default:
				e.Kids = append(e.Kids, genSkip(r, st))
				lastText = false
			}
		}
		if hasElem && hasText {
			st.mixed++
		}
	}
	e.selfClose = len(e.Kids) == 0 && r.Chance(0.5)
	return e
}

func pickS(r *vh.Rng, xs ...string) string {
	if r == nil {
		return xs[0]
	}
	return r.PickStr(xs...)
}

func (n *xn) serialise(r *vh.Rng, sb *strings.Builder) {
	if n.K != xElem {
		sb.WriteString(n.raw)
		return
	}
	name := n.Loc
	if n.Pfx != "" {
		name = n.Pfx + ":" + n.Loc
	}
	sb.WriteString("<" + name)
	for _, a := range n.Attrs {
		sb.WriteString(pickS(r, " ", " ", "\n ", "  "))
		sb.WriteString(a.raw)
	}
	if n.selfClose && len(n.Kids) == 0 {
		sb.WriteString(pickS(r, "/>", " />"))
		return
	}
	sb.WriteString(pickS(r, ">", ">", " >"))
	for _, k := range n.Kids {
		k.serialise(r, sb)
	}
	sb.WriteString("</" + name + pickS(r, ">", ">", " >"))
}

func genXMLCase(r *vh.Rng, sum *vh.Summary, cw *vh.CaseWriter) {
	st := &xstats{}
	two := r.Chance(0.5)
	twoFlag := two
	var items []*xn
	var sb strings.Builder
	if r.Chance(0.4) {
		items = append(items, &xn{K: xSkip, raw: r.PickStr(`<?xml version="1.0"?>`, `<?xml version="1.0" encoding="UTF-8"?>`, `<?xml version='1.0' encoding='utf-8' standalone='yes'?>`)})
		if r.Chance(0.7) {
			items = append(items, &xn{K: xText, Text: "\n", raw: "\n"})
		}
	}
	if r.Chance(0.2) {
		items = append(items, genSkip(r, st))
	}
	if r.Chance(0.1) {
		items = append(items, &xn{K: xSkip, raw: "<!DOCTYPE r>"}, &xn{K: xText, Text: "\n", raw: "\n"})
	}
	items = append(items, genElem(r, st, nil, 0, pickOf(r, 0, 1, 1, 2, 2, 3, 4), &twoFlag))
	if r.Chance(0.3) {
		items = append(items, &xn{K: xText, Text: "\n", raw: "\n"})
		if r.Chance(0.3) {
			items = append(items, genSkip(r, st))
		}
	}
	for _, it := range items {
		it.serialise(r, &sb)
	}
	text := sb.String()
	single := uriSinglePrefix(items)
	inside := nsWF(items) && lastWinsOK(refDoc(items))
	nontrivial := st.decls > 0 || st.attrs > 0
	sum.Count("xml:"+text, nontrivial)
	sum.Hist(fmt.Sprintf("xml:depth:%d", st.depth))
	for k, v := range map[string]int{"xml:ns-decl": st.decls, "xml:attrs": st.attrs, "xml:mixed-content": st.mixed, "xml:cdata": st.cdata,
		"xml:entities": st.entities, "xml:comment-or-pi": st.skips, "xml:prefix-redeclared": st.redecl, "xml:default-ns": st.defaultNS} {
		if v > 0 {
			sum.Hist(k)
		}
	}
	if !single {
		sum.Hist("xml:uri-rebound-to-a-second-prefix")
		if inside {
			sum.Hist("xml:uri-rebound,last-wins-right(full DOM oracle)")
		} else {
			sum.Hist("xml:uri-rebound,known-class-F11-at-some-node(other nodes checked)")
		}
	}
	nf := len(sum.Failures)
	failed := runXML(sum, cw, text, items, false)
	if failed && len(sum.Failures) == nf+1 && nf < 4 {
		// the oracle fails: shrink the document and report the minimal failing text instead
		sum.Failures = sum.Failures[:nf]
		min := shrinkXML(items)
		shrunkFrom = text
		runXML(sum, cw, min, nil, false)
		shrunkFrom = ""
		return
	}
	if !failed && nontrivial && inside && st.decls > 0 && st.depth >= 1 {
		sum.Sample(map[string]interface{}{"kind": "xml", "text": text})
	}
}

// ---- shrinking ------------------------------------------------------------------------------------

func cloneXN(n *xn) *xn {
	c := *n
	c.Attrs = append([]xa{}, n.Attrs...)
	c.Kids = nil
	for _, k := range n.Kids {
		c.Kids = append(c.Kids, cloneXN(k))
	}
	return &c
}

// xmlCandidates: smaller variants of an element (a child element promoted, a child or an
// attribute dropped, a text simplified, recursively one level at a time).
func xmlCandidates(e *xn) []*xn {
	var out []*xn
	if e.K == xText && e.raw != "t" {
		return []*xn{{K: xText, Text: "t", raw: "t"}}
	}
	if e.K != xElem {
		return nil
	}
	for _, k := range e.Kids {
		if k.K == xElem {
			out = append(out, k)
		}
	}
	if n := len(e.Kids); n > 6 {
		for _, cut := range [][2]int{{0, n / 2}, {n / 2, n}} {
			c := cloneXN(e)
			c.Kids = append(c.Kids[:cut[0]:cut[0]], c.Kids[cut[1]:]...)
			out = append(out, c)
		}
	}
	if n := len(e.Attrs); n > 6 {
		for _, cut := range [][2]int{{0, n / 2}, {n / 2, n}} {
			c := cloneXN(e)
			c.Attrs = append(c.Attrs[:cut[0]:cut[0]], c.Attrs[cut[1]:]...)
			out = append(out, c)
		}
	}
	for i := range e.Kids {
		if len(e.Kids) > 200 {
			break
		}
		c := cloneXN(e)
		c.Kids = append(c.Kids[:i:i], c.Kids[i+1:]...)
		// dropping an item may leave two plain texts adjacent: drop those variants
		ok := true
		for j := 1; j < len(c.Kids); j++ {
			if c.Kids[j].K == xText && c.Kids[j-1].K == xText &&
				!strings.HasPrefix(c.Kids[j].raw, "<![CDATA[") && !strings.HasPrefix(c.Kids[j-1].raw, "<![CDATA[") {
				ok = false
			}
		}
		if ok {
			out = append(out, c)
		}
	}
	for i := range e.Attrs {
		if len(e.Attrs) > 200 {
			break
		}
		c := cloneXN(e)
		c.Attrs = append(c.Attrs[:i:i], c.Attrs[i+1:]...)
		out = append(out, c)
	}
	for i, k := range e.Kids {
		if len(e.Kids) > 200 {
			break
		}
		for _, kc := range xmlCandidates(k) {
			c := cloneXN(e)
			c.Kids[i] = kc
			out = append(out, c)
		}
	}
	return out
}

func shrinkXML(items []*xn) string {
	deadline := time.Now().Add(6 * time.Second)
	var root *xn
	for _, it := range items {
		if it.K == xElem {
			root = it
			break
		}
	}
	text := func(e *xn) string {
		var sb strings.Builder
		e.serialise(nil, &sb)
		return sb.String()
	}
	for round := 0; round < 300 && time.Now().Before(deadline); round++ {
		progress := false
		for _, c := range xmlCandidates(root) {
			if !time.Now().Before(deadline) {
				break
			}
			if runXML(nil, nil, text(c), nil, false) {
				root, progress = c, true
				break
			}
		}
		if !progress {
			break
		}
	}
	return text(root)
}

// bigXMLDocs: one document with thousands of sibling elements (each with attributes and text,
// some re-binding a namespace URI in their own scope) and one element with thousands of
// attributes; Go-side oracles only.
func bigXMLDocs(r *vh.Rng, sum *vh.Summary, cw *vh.CaseWriter) {
	st := &xstats{}
	root := &xn{K: xElem, Pfx: "lib", Loc: "library", Attrs: []xa{{Pfx: "xmlns", Loc: "lib", Val: "urn:lib", raw: `xmlns:lib="urn:lib"`},
		{Pfx: "", Loc: "xmlns", Val: "urn:d1", raw: `xmlns="urn:d1"`}}}
	n := r.Between(3000, 6000)
	for i := 0; i < n; i++ {
		e := &xn{K: xElem, Loc: "book"}
		if i%3 == 0 {
			// an inner scope re-binds urn:lib to its own prefix and uses it (HEAD's last-wins map is right here)
			e.Pfx = "bk"
			e.Attrs = append(e.Attrs, xa{Pfx: "xmlns", Loc: "bk", Val: "urn:lib", raw: `xmlns:bk="urn:lib"`},
				xa{Pfx: "bk", Loc: "id", Val: fmt.Sprint(i), raw: fmt.Sprintf(`bk:id="%d"`, i)})
		} else {
			e.Attrs = append(e.Attrs, xa{Loc: "id", Val: fmt.Sprint(i), raw: fmt.Sprintf(`id="%d"`, i)},
				xa{Pfx: "xml", Loc: "lang", Val: "en", raw: `xml:lang="en"`})
		}
		e.Kids = append(e.Kids, genText(r, st, false))
		if i%5 == 0 {
			e.Kids = append(e.Kids, &xn{K: xElem, Loc: "t", Kids: []*xn{{K: xText, Text: fmt.Sprint(i), raw: fmt.Sprint(i)}}})
		}
		root.Kids = append(root.Kids, e)
		if i%7 == 0 {
			root.Kids = append(root.Kids, &xn{K: xText, Text: "\n", raw: "\n"})
		}
	}
	wide := &xn{K: xElem, Loc: "wide", selfClose: true}
	for i, k := 0, r.Between(2000, 4000); i < k; i++ {
		wide.Attrs = append(wide.Attrs, xa{Loc: fmt.Sprintf("a%d", i), Val: fmt.Sprint(i), raw: fmt.Sprintf(`a%d="%d"`, i, i)})
	}
	root.Kids = append(root.Kids, wide)
	for _, doc := range [][]*xn{{root}} {
		var sb strings.Builder
		for _, it := range doc {
			it.serialise(nil, &sb)
		}
		text := sb.String()
		sum.Count(fmt.Sprintf("xml-big:%d", len(text)), true)
		sum.Hist("xml:big-document(thousands of siblings/attributes, oracle only)")
		nf := len(sum.Failures)
		if runXML(sum, nil, text, doc, false) && len(sum.Failures) == nf+1 && nf < 4 {
			sum.Failures = sum.Failures[:nf]
			min := shrinkXML(doc)
			shrunkFrom = fmt.Sprintf("a generated document with %d sibling elements and an element with %d attributes", n, len(wide.Attrs))
			runXML(sum, nil, min, nil, false)
			shrunkFrom = ""
		}
	}
}

// crDocs: every run, carriage returns written as character references (&#13; &#xD;) in text and in
// attribute values, next to literal CR / CRLF (which the decoder normalises to LF) and CDATA.
func crDocs(sum *vh.Summary, cw *vh.CaseWriter) {
	for _, text := range []string{
		"<r a=\"x&#13;&#10;y&#xD;z\" b='&#xd;'>p&#13;&#10;q&#xD;z\r\nw\rv<![CDATA[c\r\nd]]>&#13;</r>",
		"<r><a>&#13;</a><b>&#xD;&#xA;</b><c k=\"&#13;\"/>&#x0D;\r\n&#13;\n</r>",
	} {
		sum.Count("xml:"+text, true)
		sum.Hist("xml:fixed-cr-reference-doc")
		runXML(sum, cw, text, nil, false)
	}
}

// ---- documents in a declared non-UTF-8 encoding ----------------------------------------------------------

// The reader hands the label of the XML declaration to charset.NewReaderLabel (the WHATWG label
// table: iso-8859-1 / latin1 / us-ascii mean windows-1252, iso-8859-9 means windows-1254, gb2312
// means GBK, ...).  The documents below are BYTES: ASCII markup plus bytes >= 0x80 - in particular
// 0x80..0x9F, where the code pages differ - in text, attribute values and (letters only) names.
// Oracle as for every XML case: the tree is what encoding/xml with that CharsetReader reports.
var encLabels = []string{"ISO-8859-1", "iso-8859-1", "latin1", "Latin1", "l1", "us-ascii", "ascii", "windows-1252", "cp1252",
	"iso-8859-9", "latin5", "windows-1254", "iso-8859-15", "iso-8859-2", "iso-8859-7", "koi8-r", "windows-1251", "ibm866", "macintosh",
	"UTF-8", "utf-8", "gb2312", "gbk", "GB2312", "big5", "euc-kr", "shift_jis", "windows-874", "iso-8859-8"}

func genEncodedXML(r *vh.Rng, label string) string {
	multi := map[string]bool{"gb2312": true, "gbk": true, "GB2312": true, "big5": true, "euc-kr": true, "shift_jis": true}[label]
	utf := strings.EqualFold(label, "utf-8")
	latin := !multi && !utf
	val := func(attr bool) string {
		var b []byte
		for i, n := 0, r.Between(1, 6); i < n; i++ {
			switch {
			case utf:
				b = append(b, r.PickStr("€", "é", "“x”", "–", "a", "中")...)
			case multi:
				if r.Chance(0.6) {
					b = append(b, byte(r.Between(0xB0, 0xF7)), byte(r.Between(0xA1, 0xFE)))
				} else {
					b = append(b, "ab 1"[r.Pick(4)])
				}
			case r.Chance(0.45):
				b = append(b, byte(r.Between(0x80, 0x9F))) // euro, curly quotes, dashes ... or C1 controls
			case r.Chance(0.5):
				b = append(b, byte(r.Between(0xA0, 0xFF)))
			case r.Chance(0.2):
				b = append(b, r.PickStr("&#8364;", "&amp;", "&#x93;", "&#233;")...)
			default:
				b = append(b, "abz 09-"[r.Pick(7)])
			}
		}
		return string(b)
	}
	name := func(base string) string {
		if latin && r.Chance(0.3) && !strings.HasPrefix(label, "iso-8859-7") && label != "windows-874" && label != "iso-8859-8" && label != "ibm866" && label != "macintosh" {
			return base + string([]byte{[]byte{0xE9, 0xF1, 0xFC, 0xC0, 0xE8}[r.Pick(5)]})
		}
		return base
	}
	var sb strings.Builder
	q := r.PickStr(`"`, `'`)
	sb.WriteString("<?xml version=" + q + "1.0" + q + " encoding=" + q + label + q + "?>" + r.PickStr("", "\n"))
	sb.WriteString("<" + "r " + name("a") + `="` + val(true) + `">`)
	for i, n := 0, r.Between(1, 4); i < n; i++ {
		switch r.Pick(4) {
		case 0:
			sb.WriteString(val(false))
		case 1:
			e := name("x")
			sb.WriteString("<" + e + ">" + val(false) + "</" + e + ">")
		case 2:
			sb.WriteString("<y k='" + val(true) + "' " + name("v") + `="` + val(true) + `"/>`)
		default:
			sb.WriteString("<![CDATA[" + val(false) + "]]>")
		}
	}
	sb.WriteString("</r>")
	return sb.String()
}

// encodedDocs: every label once per run (fixed part), plus the euro / curly-quote witnesses.
func encodedDocs(r *vh.Rng, sum *vh.Summary, cw *vh.CaseWriter) {
	fixed := []string{
		"<?xml version=\"1.0\" encoding=\"ISO-8859-1\"?><r p=\"\x80 10\">\x93quoted\x94 \x96 caf\xe9</r>",
		"<?xml version=\"1.0\" encoding=\"us-ascii\"?><r>\x80\x85\x99</r>",
		"<?xml version=\"1.0\" encoding=\"iso-8859-9\"?><r k='\x80\xd0\xdd\xde\xf0\xfd\xfe'>\x8c\x9c\x9f</r>",
		"<?xml version=\"1.0\" encoding=\"gb2312\"?><r>\xd6\xd0\xce\xc4 ~{VPND~}</r>",
	}
	for _, text := range fixed {
		sum.Count("xml-enc:"+text, true)
		sum.Hist("xml:declared-encoding(fixed)")
		runXML(sum, cw, text, nil, false)
	}
	for _, l := range encLabels {
		for k := 0; k < 2; k++ {
			text := genEncodedXML(r, l)
			sum.Count("xml-enc:"+text, true)
			sum.Hist("xml:declared-encoding:" + strings.ToLower(l))
			if _, _, err := xmlTokens(text); err == nil {
				sum.Hist("xml:declared-encoding(reference tokenises)")
			} else {
				sum.Hist("xml:declared-encoding(reference rejects)")
			}
			runXML(sum, cw, text, nil, false)
		}
	}
}
