package main

import "verifharness/vh"

type xdom struct{}

func runXML(sum *vh.Summary, cw *vh.CaseWriter, text string, gen *xdom, verbose bool) bool { return false }
func genXMLCase(r *vh.Rng, sum *vh.Summary, cw *vh.CaseWriter)                           { genJSONCase(r, sum, cw) }
