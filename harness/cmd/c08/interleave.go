package main

import (
	"fmt"
	"io"
	"strings"

	"github.com/jf-tech/omniparser/idr"

	"verifharness/vh"
)

// ---- several XML stream readers alive at the same time -------------------------------------------------
//
// The namespace table, the cursor and the stream candidate are per-reader state.  Oracle: what a
// reader returns for its document (every record: the whole subtree with prefixes and URIs, in
// order, and how the stream ends) is what it returns when it is the only reader in the process,
// however the Read calls of several readers are interleaved on one goroutine.

type ilCase struct {
	Kind     string   `json:"kind"` // "xml-interleave"
	Docs     []string `json:"docs"`
	XPath    string   `json:"xpath"`
	Schedule []int    `json:"schedule"` // which reader makes the next Read call (created at its first turn)
	Release  []bool   `json:"release"`  // reader i calls Release(node) after each record
}

type ilReader struct {
	rd   *idr.XMLStreamReader
	out  []string
	done bool
}

func (x *ilReader) step(doc, xpath string, release bool) {
	if x.done {
		return
	}
	if x.rd == nil {
		rd, err := idr.NewXMLStreamReader(strings.NewReader(doc), xpath)
		if err != nil {
			x.out, x.done = append(x.out, "new-reader error"), true
			return
		}
		x.rd = rd
	}
	n, err := x.rd.Read()
	switch {
	case err == io.EOF:
		x.out, x.done = append(x.out, "EOF"), true
	case err != nil:
		x.out, x.done = append(x.out, "error"), true
	default:
		// the record with its ancestors' names and namespaces
		var anc []string
		for p := n.Parent; p != nil; p = p.Parent {
			fs, _ := p.FormatSpecific.(idr.XMLSpecific)
			anc = append(anc, fmt.Sprintf("%s|%s|%s", fs.NamespacePrefix, fs.NamespaceURI, p.Data))
		}
		x.out = append(x.out, strings.Join(anc, "<")+" :: "+coqTree(n))
		if release {
			x.rd.Release(n)
		}
		if len(x.out) > 5000 {
			x.done = true
		}
	}
}

func runInterleave(sum *vh.Summary, c ilCase, verbose bool) (failed bool) {
	if sum != nil {
		vh.Current(opts, c)
	}
	for len(c.Release) < len(c.Docs) {
		c.Release = append(c.Release, false)
	}
	var panicked string
	solo := make([][]string, len(c.Docs))
	inter := make([]*ilReader, len(c.Docs))
	func() {
		defer func() {
			if p := recover(); p != nil {
				panicked = fmt.Sprint(p)
			}
		}()
		for i, d := range c.Docs {
			x := &ilReader{}
			for !x.done {
				x.step(d, c.XPath, c.Release[i])
			}
			solo[i] = x.out
		}
		for i := range inter {
			inter[i] = &ilReader{}
		}
		for _, who := range c.Schedule {
			if who >= 0 && who < len(inter) {
				inter[who].step(c.Docs[who], c.XPath, c.Release[who])
			}
		}
		// drain what the schedule left, round robin
		for left := true; left; {
			left = false
			for i, x := range inter {
				if !x.done {
					x.step(c.Docs[i], c.XPath, c.Release[i])
					left = true
				}
			}
		}
	}()
	fail := func(what string, detail interface{}) {
		failed = true
		if sum != nil {
			sum.Fail(what, c, map[string]interface{}{"detail": detail, "shrunk_from": shrunkFrom})
		}
		if verbose {
			fmt.Println(" ", what, detail)
		}
	}
	if panicked != "" {
		fail("XML readers panicked when interleaved", panicked)
		return
	}
	for i := range c.Docs {
		a, b := solo[i], inter[i].out
		if verbose {
			fmt.Printf(" reader %d: %d results alone, %d interleaved\n", i, len(a), len(b))
		}
		for k := 0; k < len(a) || k < len(b); k++ {
			var x, y string
			if k < len(a) {
				x = a[k]
			}
			if k < len(b) {
				y = b[k]
			}
			if x != y {
				fail("a reader's result depends on another reader alive at the same time (tree differs from the one it builds when it is the only reader)",
					map[string]interface{}{"reader": i, "record": k, "alone": clip(x), "interleaved": clip(y)})
				return
			}
		}
	}
	return
}

// renamePrefixes rotates the namespace prefixes of a generated document (a->b->c->a), so that two
// documents from the same generator bind the same URIs to different prefixes.
func renamePrefixes(n *xn, ren map[string]string) {
	if n.K != xElem {
		return
	}
	if p, ok := ren[n.Pfx]; ok {
		n.Pfx = p
	}
	for i := range n.Attrs {
		a := &n.Attrs[i]
		oldName := a.Loc
		if a.Pfx != "" {
			oldName = a.Pfx + ":" + a.Loc
		}
		switch {
		case a.Pfx == "xmlns":
			if p, ok := ren[a.Loc]; ok {
				a.Loc = p
			}
		case a.Pfx != "":
			if p, ok := ren[a.Pfx]; ok {
				a.Pfx = p
			}
		}
		newName := a.Loc
		if a.Pfx != "" {
			newName = a.Pfx + ":" + a.Loc
		}
		a.raw = newName + a.raw[len(oldName):]
	}
	for _, k := range n.Kids {
		renamePrefixes(k, ren)
	}
}

func fixedInterleave() ilCase {
	doc := func(p string) string {
		return fmt.Sprintf(`<%[1]s:feed xmlns:%[1]s="urn:shared"><%[1]s:item %[1]s:id="1">a</%[1]s:item><%[1]s:item %[1]s:id="2"><%[1]s:sub/></%[1]s:item><%[1]s:item %[1]s:id="3" xml:lang="en"/></%[1]s:feed>`, p)
	}
	return ilCase{Kind: "xml-interleave", Docs: []string{doc("p"), doc("q")}, XPath: "/*/*",
		Schedule: []int{0, 1, 0, 1, 0, 1, 0, 1}, Release: []bool{false, false}}
}

func genInterleave(r *vh.Rng, sum *vh.Summary, fixed bool) {
	var c ilCase
	if fixed {
		c = fixedInterleave()
	} else {
		k := r.Between(2, 3)
		c = ilCase{Kind: "xml-interleave", XPath: r.PickStr("/*/*", "/*/*", "/*/*/*", ".", "/*/*[1=1]")}
		rens := []map[string]string{{}, {"a": "b", "b": "c", "c": "a"}, {"a": "c", "b": "a", "c": "b"}}
		for i := 0; i < k; i++ {
			st := &xstats{}
			no := false
			root := genElem(r, st, nil, 0, pickOf(r, 1, 2, 2, 3), &no)
			// make sure the root declares something the records below use
			renamePrefixes(root, rens[(i+r.Pick(2))%3])
			var sb strings.Builder
			root.serialise(r, &sb)
			c.Docs = append(c.Docs, sb.String())
			c.Release = append(c.Release, r.Chance(0.5))
		}
		for i, n := 0, r.Between(4, 30); i < n; i++ {
			c.Schedule = append(c.Schedule, r.Pick(k))
		}
	}
	sum.Count("xml-interleave:"+strings.Join(c.Docs, "|")+fmt.Sprint(c.Schedule), true)
	sum.Hist("xml:interleaved-readers(" + fmt.Sprint(len(c.Docs)) + " alive, oracle only)")
	nf := len(sum.Failures)
	if runInterleave(sum, c, false) && len(sum.Failures) == nf+1 && nf < 4 {
		// shrink: shorter schedule, fewer readers
		sum.Failures = sum.Failures[:nf]
		min := c
		for progress := true; progress; {
			progress = false
			for i := range min.Schedule {
				t := min
				t.Schedule = append(append([]int{}, min.Schedule[:i]...), min.Schedule[i+1:]...)
				if runInterleave(nil, t, false) {
					min, progress = t, true
					break
				}
			}
		}
		if len(min.Docs) == 3 {
			for drop := 0; drop < 3; drop++ {
				t := ilCase{Kind: min.Kind, XPath: min.XPath}
				for i := range min.Docs {
					if i != drop {
						t.Docs = append(t.Docs, min.Docs[i])
						t.Release = append(t.Release, min.Release[i])
					}
				}
				for _, w := range min.Schedule {
					if w == drop {
						continue
					}
					if w > drop {
						w--
					}
					t.Schedule = append(t.Schedule, w)
				}
				if runInterleave(nil, t, false) {
					min = t
					break
				}
			}
		}
		shrunkFrom = fmt.Sprint(c.Schedule)
		runInterleave(sum, min, false)
		shrunkFrom = ""
	}
}
