// Package vh is the shared plumbing of the correspondence harness: one PRNG, Coq term
// printers, sharded Cases files, and the per-run summary that bin/check turns into evidence.
package vh

import (
	"crypto/sha256"
	"encoding/hex"
	"encoding/json"
	"flag"
	"fmt"
	"math/rand"
	"os"
	"path/filepath"
	"sort"
	"strings"
)

// Opts are the common command line options of every cmd/cXX binary.
type Opts struct {
	Seed   int64
	Tier   string
	Out    string
	N      int    // number of generated cases (0 = tier default)
	Replay string // replay file to re-run instead of generating
	Corpus string // directory of corpus cases that run first
}

func ParseOpts() *Opts {
	o := &Opts{}
	flag.Int64Var(&o.Seed, "seed", 1, "PRNG seed")
	flag.StringVar(&o.Tier, "tier", "quick", "quick|thorough")
	flag.StringVar(&o.Out, "out", "", "output directory")
	flag.IntVar(&o.N, "n", 0, "number of cases (0 = tier default)")
	flag.StringVar(&o.Replay, "replay", "", "replay file")
	flag.StringVar(&o.Corpus, "corpus", "", "corpus directory (cases that run first)")
	flag.Parse()
	if o.Out == "" {
		fmt.Fprintln(os.Stderr, "missing -out")
		os.Exit(2)
	}
	_ = os.MkdirAll(o.Out, 0o755)
	return o
}

func (o *Opts) Count(quick, thorough int) int {
	if o.N > 0 {
		return o.N
	}
	if o.Tier == "thorough" {
		return thorough
	}
	return quick
}

// Rng is the single source of randomness.
type Rng struct{ *rand.Rand }

func NewRng(seed int64) *Rng { return &Rng{rand.New(rand.NewSource(seed))} }
func (r *Rng) Chance(p float64) bool { return r.Float64() < p }
func (r *Rng) Pick(n int) int {
	if n <= 0 {
		return 0
	}
	return r.Intn(n)
}
func (r *Rng) Between(lo, hi int) int { // inclusive
	if hi <= lo {
		return lo
	}
	return lo + r.Intn(hi-lo+1)
}
func (r *Rng) PickStr(xs ...string) string { return xs[r.Intn(len(xs))] }

// ---- Coq term printers ---------------------------------------------------------------------

func CoqN(n int) string    { return fmt.Sprintf("%d%%N", n) }
func CoqNat(n int) string  { return fmt.Sprintf("%d%%nat", n) }
func CoqZ(n int64) string  { return fmt.Sprintf("(%d)%%Z", n) }
func CoqBool(b bool) string {
	if b {
		return "true"
	}
	return "false"
}
func CoqHex(b []byte) string { return `(hx "` + hex.EncodeToString(b) + `")` }
func CoqList(items []string) string {
	if len(items) == 0 {
		return "[]"
	}
	return "[" + strings.Join(items, "; ") + "]"
}
func CoqOpt(present bool, v string) string {
	if !present {
		return "None"
	}
	return "(Some " + v + ")"
}

// ---- summary / evidence ---------------------------------------------------------------------

// Failure is a case on which the property oracle, evaluated on the implementation, failed.
type Failure struct {
	Key    string      `json:"key"`    // sha256 of the canonical minimal case
	What   string      `json:"what"`   // which clause of the property fails
	Case   interface{} `json:"case"`   // replayable description
	Detail interface{} `json:"detail"` // observed vs expected
}

type Summary struct {
	Property    string                 `json:"property"`
	Seed        int64                  `json:"seed"`
	Tier        string                 `json:"tier"`
	Evaluations int                    `json:"evaluations"`
	Nontrivial  int                    `json:"distinct_nontrivial"`
	Rule        string                 `json:"rule"`
	Histogram   map[string]int         `json:"histogram"`
	Samples     []interface{}          `json:"samples"`
	Failures    []Failure              `json:"failures"`
	CaseFiles   []string               `json:"case_files"`
	CaseIndex   map[string]interface{} `json:"-"`
	Extra       map[string]interface{} `json:"extra,omitempty"`

	seen map[string]bool
}

func NewSummary(prop string, o *Opts, rule string) *Summary {
	return &Summary{Property: prop, Seed: o.Seed, Tier: o.Tier, Rule: rule,
		Histogram: map[string]int{}, Failures: []Failure{}, Samples: []interface{}{}, seen: map[string]bool{}, Extra: map[string]interface{}{}}
}

func (s *Summary) Hist(k string) { s.Histogram[k]++ }

// Count registers one evaluated case; canon is its canonical form (for distinctness) and
// nontrivial says whether it exercises the property's mechanism by the stated rule.
func (s *Summary) Count(canon string, nontrivial bool) {
	s.Evaluations++
	if !nontrivial {
		return
	}
	h := sha256.Sum256([]byte(canon))
	k := string(h[:8])
	if !s.seen[k] {
		s.seen[k] = true
		s.Nontrivial++
	}
}

func (s *Summary) Sample(v interface{}) {
	if len(s.Samples) < 4 {
		s.Samples = append(s.Samples, v)
	}
}

func KeyOf(v interface{}) string {
	b, _ := json.Marshal(v)
	h := sha256.Sum256(b)
	return hex.EncodeToString(h[:])
}

func (s *Summary) Fail(what string, c interface{}, detail interface{}) {
	if len(s.Failures) >= 50 {
		return
	}
	s.Failures = append(s.Failures, Failure{Key: KeyOf(c), What: what, Case: c, Detail: detail})
}

func (s *Summary) Write(o *Opts) {
	Done(o)
	b, _ := json.MarshalIndent(s, "", " ")
	if err := os.WriteFile(filepath.Join(o.Out, "summary.json"), b, 0o644); err != nil {
		fmt.Fprintln(os.Stderr, err)
		os.Exit(2)
	}
}

// ---- Cases files ------------------------------------------------------------------------------

// CaseWriter shards cases into files of at most PerFile terms.  Every shard is a complete Coq
// file: imports, `Definition cases : list T := [...]`, the vm_compute of mismatches, Print.
type CaseWriter struct {
	o       *Opts
	prop    string
	imports string
	typ     string
	chk     string
	PerFile int
	cur     []string
	descs   []json.RawMessage
	shard   int
	Files   []string
}

func NewCaseWriter(o *Opts, prop, imports, typ, chk string) *CaseWriter {
	return &CaseWriter{o: o, prop: prop, imports: imports, typ: typ, chk: chk, PerFile: 250}
}

// Add appends a Coq term of the case type, plus a JSON description used when a mismatch has
// to be reported (index -> what was run).
func (w *CaseWriter) Add(term string, desc interface{}) {
	w.cur = append(w.cur, term)
	b, _ := json.Marshal(desc)
	w.descs = append(w.descs, b)
	if len(w.cur) >= w.PerFile {
		w.Flush()
	}
}

func (w *CaseWriter) Flush() {
	if len(w.cur) == 0 {
		return
	}
	name := fmt.Sprintf("cases_%s_%03d", w.prop, w.shard)
	var sb strings.Builder
	sb.WriteString("(* written by the harness; evaluated by bin/check *)\n")
	sb.WriteString("From Coq Require Import List NArith ZArith String.\nImport ListNotations.\n")
	sb.WriteString("From OV Require Import Base.Bytes Base.Cases " + w.imports + ".\n")
	sb.WriteString("Local Open Scope string_scope.\n")
	sb.WriteString("Definition cases : list " + w.typ + " := [\n")
	sb.WriteString(strings.Join(w.cur, ";\n"))
	sb.WriteString("\n].\n")
	sb.WriteString("Definition M := Eval vm_compute in mismatches " + w.chk + " 0%N cases.\nPrint M.\n")
	p := filepath.Join(w.o.Out, name+".v")
	if err := os.WriteFile(p, []byte(sb.String()), 0o644); err != nil {
		fmt.Fprintln(os.Stderr, err)
		os.Exit(2)
	}
	db, _ := json.Marshal(w.descs)
	_ = os.WriteFile(filepath.Join(w.o.Out, name+".json"), db, 0o644)
	w.Files = append(w.Files, name+".v")
	w.cur, w.descs = nil, nil
	w.shard++
}

// SortedKeys is a helper for deterministic iteration.
func SortedKeys(m map[string]int) []string {
	ks := make([]string, 0, len(m))
	for k := range m {
		ks = append(ks, k)
	}
	sort.Strings(ks)
	return ks
}

// Current records, before a case is run, what is about to be run.  If the harness process dies
// while running it (a fatal error such as a stack overflow cannot be recovered), bin/check takes
// this file as the failing input.
func Current(o *Opts, desc interface{}) {
	b, _ := json.Marshal(desc)
	_ = os.WriteFile(filepath.Join(o.Out, "current.json"), b, 0o644)
}

// Done removes the marker written by Current (call when the whole run finished normally).
func Done(o *Opts) { _ = os.Remove(filepath.Join(o.Out, "current.json")) }
