package vh

import (
	"fmt"
	"strings"
)

// Fixture is a small schema for one of the seven built-in formats together with a generator of
// mostly-valid inputs.  FINAL_OUTPUT has one string field `a`, one int-typed field `b` (so a
// non-numeric value gives a per-record failure) and one string field `c`.
type Fixture struct {
	Format string
	Schema string
	// Gen produces nrec records; bad marks records whose field b is not an integer.
	Gen func(r *Rng, nrec int) []byte
}

const finalOutput = `"transform_declarations": { "FINAL_OUTPUT": { %s "object": {
  "a": { "xpath": "a" }, "b": { "xpath": "b", "type": "int" }, "c": { "xpath": "c", "keep_empty_or_null": true } } } }`

func hdr(format string) string {
	return `"parser_settings": { "version": "omni.2.1", "file_format_type": "` + format + `" }`
}

func word(r *Rng) string {
	ws := []string{"x", "abc", "héllo", "a b", "Q9", "zz top", "日本", "", "0", "w"}
	return ws[r.Pick(len(ws))]
}

// TrickyWord is text that needs care when it is re-encoded as JSON: markup characters, literal
// backslash-u sequences, quotes, backslashes, control characters.
func TrickyWord(r *Rng) string {
	ws := []string{"a<b", "x>y", "R&D", "\\u003c", "\\u0026amp", "say \"hi\"", "back\\slash", "tab\there", "\\n", "</script>", "\u2028", "é\\u00e9"}
	return ws[r.Pick(len(ws))]
}

// ExtraFixtures are further schemas used by individual harnesses (not indexed like Fixtures()).
// The generators use TrickyWord for the string fields, escaped as each format requires.
func ExtraFixtures() []Fixture {
	fo := func(x string) string { return fmt.Sprintf(finalOutput, x) }
	return []Fixture{
		{Format: "edi", Schema: `{` + hdr("edi") + `, "file_declaration": { "segment_delimiter": "~\n", "element_delimiter": "*",
  "segment_declarations": [ { "name": "HDR", "min": 0 },
    { "name": "DAT", "is_target": true, "min": 0, "max": -1,
      "elements": [ {"name":"a","index":1}, {"name":"b","index":2}, {"name":"c","index":3,"default":""} ] },
    { "name": "TRL", "min": 0 } ] }, ` + fo("") + `}`,
			Gen: func(r *Rng, n int) []byte {
				var sb strings.Builder
				sb.WriteString("HDR*1~\n")
				for i := 0; i < n; i++ {
					fmt.Fprintf(&sb, "DAT*%s*%s*%s", strings.NewReplacer("*", "+", "~", "-").Replace(TrickyWord(r)), numOrBad(r), word(r))
					if r.Chance(0.3) { // wide segments: undeclared trailing elements, total count around powers of two
						totals := []int{4, 7, 8, 9, 15, 16, 17, 31, 32, 33, 63, 64, 65, 66, 100, 127, 128, 129, 130}
						for k := totals[r.Pick(len(totals))] - 3; k > 0; k-- {
							sb.WriteString("*")
							if r.Chance(0.3) {
								sb.WriteString("e")
							}
						}
					}
					sb.WriteString("~\n")
				}
				if r.Chance(0.5) {
					sb.WriteString("TRL*9~\n")
				}
				switch r.Pick(6) { // trailing fragments after the last terminator
				case 0:
					sb.WriteString(" ")
				case 1:
					sb.WriteString("\x1a")
				case 2:
					sb.WriteString("~")
				case 3:
					sb.WriteString("D")
				}
				return []byte(sb.String())
			}},
		{Format: "csv2", Schema: `{` + hdr("csv2") + `, "file_declaration": { "delimiter": "|",
  "records": [ { "name": "R", "is_target": true, "columns": [ {"name":"a","index":1}, {"name":"b","index":2}, {"name":"c","index":3} ] } ] }, ` + fo("") + `}`,
			Gen: func(r *Rng, n int) []byte {
				var sb strings.Builder
				for i := 0; i < n; i++ {
					fmt.Fprintf(&sb, "%s|%s|%s\n", strings.NewReplacer("|", "/", "\"", "'").Replace(TrickyWord(r)), numOrBad(r), strings.NewReplacer("|", "/", "\"", "'").Replace(TrickyWord(r)))
				}
				return []byte(sb.String())
			}},
		{Format: "json", Schema: `{` + hdr("json") + `, ` + fo(`"xpath": "/*",`) + `}`,
			Gen: func(r *Rng, n int) []byte {
				var sb strings.Builder
				sb.WriteString("[")
				for i := 0; i < n; i++ {
					if i > 0 {
						sb.WriteString(",")
					}
					fmt.Fprintf(&sb, `{"a":%q,"b":%q,"c":%q}`, TrickyWord(r), numOrBad(r), TrickyWord(r))
				}
				sb.WriteString("]")
				return []byte(sb.String())
			}},
		// javascript members: ordinary values, per-record failures (throw, NaN, undefined) and results
		// that need care when exported (objects, arrays, promises - settled and never settling)
		{Format: "json", Schema: `{` + hdr("json") + `, "transform_declarations": { "FINAL_OUTPUT": { "xpath": "/*", "object": {
  "a": { "custom_func": { "name": "javascript", "args": [ {"const": "x + '!'"}, {"const": "x"}, {"xpath": "a"} ] } },
  "b": { "custom_func": { "name": "javascript", "args": [ {"const": "if (x === 'bad') { throw new Error('boom') }; parseInt(x, 10)"}, {"const": "x"}, {"xpath": "b"} ] } },
  "c": { "custom_func": { "name": "javascript_with_context", "args": [ {"const": "var n = JSON.parse(_node); [n.c, typeof n.b, {k: n.a}]"} ] } },
  "d": { "custom_func": { "name": "javascript", "args": [ {"const": "x === 'p' ? Promise.resolve(1) : x === 'q' ? new Promise(function(){}) : x === 'r' ? Promise.reject(new Error('no')) : x === 'u' ? undefined : x === 'z' ? 0/0 : x"}, {"const": "x"}, {"xpath": "c"} ], "ignore_error": true } } } } } }`,
			Gen: func(r *Rng, n int) []byte {
				cs := []string{"p", "q", "r", "u", "z", "w", "héllo", ""}
				var sb strings.Builder
				sb.WriteString("[")
				for i := 0; i < n; i++ {
					if i > 0 {
						sb.WriteString(",")
					}
					fmt.Fprintf(&sb, `{"a":%q,"b":%q,"c":%q}`, TrickyWord(r), numOrBad(r), cs[r.Pick(len(cs))])
				}
				sb.WriteString("]")
				return []byte(sb.String())
			}},
		{Format: "xml", Schema: `{` + hdr("xml") + `, ` + fo(`"xpath": "/r/n",`) + `}`,
			Gen: func(r *Rng, n int) []byte {
				esc := strings.NewReplacer("&", "&amp;", "<", "&lt;", ">", "&gt;")
				var sb strings.Builder
				sb.WriteString("<r>")
				for i := 0; i < n; i++ {
					fmt.Fprintf(&sb, "<n><a>%s</a><b>%s</b><c>%s</c></n>", esc.Replace(TrickyWord(r)), numOrBad(r), esc.Replace(TrickyWord(r)))
				}
				sb.WriteString("</r>")
				return []byte(sb.String())
			}},
	}
}

func numOrBad(r *Rng) string {
	if r.Chance(0.15) {
		return r.PickStr("x1", "", "1.5", "--", "9z")
	}
	return fmt.Sprint(r.Between(-50, 5000))
}

func pad(s string, n int) string {
	rs := []rune(s)
	if len(rs) > n {
		return string(rs[:n])
	}
	return s + strings.Repeat(" ", n-len(rs))
}

// Fixtures returns the seven fixtures in the order of Gen.Continuable.all_formats:
// csv, csv2, edi, fixedlength, fixedlength2, json, xml.
func Fixtures() []Fixture {
	fo := func(x string) string { return fmt.Sprintf(finalOutput, x) }
	return []Fixture{
		{Format: "csv", Schema: `{` + hdr("csv") + `, "file_declaration": { "delimiter": ",",
  "header_row_index": 1, "data_row_index": 2,
  "columns": [ {"name":"a"}, {"name":"b"}, {"name":"c"} ] }, ` + fo("") + `}`,
			Gen: func(r *Rng, n int) []byte {
				var sb strings.Builder
				sb.WriteString("a,b,c\n")
				for i := 0; i < n; i++ {
					if r.Chance(0.05) {
						sb.WriteString("q\"uo,1,2\n") // bare quote: csv parse error, continuable
						continue
					}
					if r.Chance(0.05) {
						sb.WriteString("\n")
					}
					extra := ""
					if r.Chance(0.12) { // rows wider than the declared columns are legal: extra fields are ignored
						extra = r.PickStr(",", ",x", ",,", ",extra,more")
					}
					fmt.Fprintf(&sb, "%s,%s,\"%s\"%s\n", strings.ReplaceAll(word(r), " ", "_"), numOrBad(r), word(r), extra)
				}
				return []byte(sb.String())
			}},
		{Format: "csv2", Schema: `{` + hdr("csv2") + `, "file_declaration": { "delimiter": "|",
  "records": [ { "name": "H", "header": "^H", "min": 0, "max": 1 },
    { "name": "R", "is_target": true, "header": "^R", "columns": [ {"name":"a","index":2}, {"name":"b","index":3}, {"name":"c","index":4} ] } ] }, ` + fo("") + `}`,
			Gen: func(r *Rng, n int) []byte {
				var sb strings.Builder
				if r.Chance(0.7) {
					sb.WriteString("H|head\n")
				}
				for i := 0; i < n; i++ {
					if r.Chance(0.04) {
						sb.WriteString("X|unexpected\n")
						continue
					}
					fmt.Fprintf(&sb, "R|%s|%s|%s\n", word(r), numOrBad(r), word(r))
				}
				return []byte(sb.String())
			}},
		{Format: "edi", Schema: `{` + hdr("edi") + `, "file_declaration": { "segment_delimiter": "~", "element_delimiter": "*",
  "ignore_crlf": true,
  "segment_declarations": [ { "name": "HDR", "min": 0 },
    { "name": "DAT", "is_target": true, "min": 0, "max": -1,
      "elements": [ {"name":"a","index":1}, {"name":"b","index":2}, {"name":"c","index":3,"default":""} ] },
    { "name": "TRL", "min": 0 } ] }, ` + fo("") + `}`,
			Gen: func(r *Rng, n int) []byte {
				var sb strings.Builder
				if r.Chance(0.7) {
					sb.WriteString("HDR*1~\n")
				}
				for i := 0; i < n; i++ {
					if r.Chance(0.04) {
						sb.WriteString("DAT*only~") // missing element b: fatal
						continue
					}
					fmt.Fprintf(&sb, "DAT*%s*%s*%s~", word(r), numOrBad(r), word(r))
					if r.Chance(0.3) {
						sb.WriteString("\n")
					}
				}
				if r.Chance(0.6) {
					sb.WriteString("TRL*9~")
				}
				return []byte(sb.String())
			}},
		{Format: "fixed-length", Schema: `{` + hdr("fixed-length") + `, "file_declaration": { "envelopes": [ { "columns": [
  {"name":"a","start_pos":1,"length":6}, {"name":"b","start_pos":7,"length":5}, {"name":"c","start_pos":12,"length":6} ] } ] }, ` + fo("") + `}`,
			Gen: func(r *Rng, n int) []byte {
				var sb strings.Builder
				for i := 0; i < n; i++ {
					if r.Chance(0.05) {
						sb.WriteString("\n")
					}
					sb.WriteString(pad(word(r), 6) + pad(numOrBad(r), 5) + pad(word(r), 6) + "\n")
				}
				return []byte(sb.String())
			}},
		{Format: "fixedlength2", Schema: `{` + hdr("fixedlength2") + `, "file_declaration": { "envelopes": [
  { "name": "H", "header": "^H", "min": 0, "max": 1 },
  { "name": "R", "is_target": true, "header": "^R", "columns": [
  {"name":"a","start_pos":2,"length":6}, {"name":"b","start_pos":8,"length":5}, {"name":"c","start_pos":13,"length":6} ] } ] }, ` + fo("") + `}`,
			Gen: func(r *Rng, n int) []byte {
				var sb strings.Builder
				if r.Chance(0.7) {
					sb.WriteString("Hhead\n")
				}
				for i := 0; i < n; i++ {
					if r.Chance(0.04) {
						sb.WriteString("Xunexpected\n")
						continue
					}
					sb.WriteString("R" + pad(word(r), 6) + pad(numOrBad(r), 5) + pad(word(r), 6) + "\n")
				}
				return []byte(sb.String())
			}},
		{Format: "json", Schema: `{` + hdr("json") + `, ` + fo(`"xpath": "/*",`) + `}`,
			Gen: func(r *Rng, n int) []byte {
				var sb strings.Builder
				sb.WriteString("[")
				for i := 0; i < n; i++ {
					if i > 0 {
						sb.WriteString(",")
					}
					fmt.Fprintf(&sb, `{"a":%q,"b":%q,"c":%q}`, word(r), numOrBad(r), word(r))
				}
				sb.WriteString("]")
				return []byte(sb.String())
			}},
		{Format: "xml", Schema: `{` + hdr("xml") + `, ` + fo(`"xpath": "/r/n",`) + `}`,
			Gen: func(r *Rng, n int) []byte {
				var sb strings.Builder
				sb.WriteString("<r>")
				for i := 0; i < n; i++ {
					fmt.Fprintf(&sb, "<n><a>%s</a><b>%s</b><c>%s</c></n>", word(r), numOrBad(r), word(r))
					if r.Chance(0.3) {
						sb.WriteString("\n")
					}
				}
				sb.WriteString("</r>")
				return []byte(sb.String())
			}},
	}
}

// Mutate damages an input: truncation, byte flips, insertions, duplication, or replacement by
// garbage.  kind names what was done (for the input-distribution histogram).
func Mutate(r *Rng, in []byte) (out []byte, kind string) {
	switch r.Pick(8) {
	case 0, 1, 2:
		return in, "wellformed"
	case 3:
		if len(in) == 0 {
			return in, "wellformed"
		}
		return append([]byte(nil), in[:r.Pick(len(in))]...), "truncated"
	case 4:
		out = append([]byte(nil), in...)
		for k := 0; k < r.Between(1, 3) && len(out) > 0; k++ {
			out[r.Pick(len(out))] = byte(r.Pick(256))
		}
		return out, "byteflip"
	case 5:
		out = append([]byte(nil), in...)
		p := r.Pick(len(out) + 1)
		ins := []byte(r.PickStr("\"", "\n", "\r\n", "<", "}", "~", "*", "\xff", "\x00", ",,", "]]"))
		out = append(out[:p:p], append(ins, in[p:]...)...)
		return out, "inserted"
	case 6:
		return nil, "empty"
	default:
		g := make([]byte, r.Between(1, 40))
		for i := range g {
			g[i] = byte(r.Pick(256))
		}
		return g, "garbage"
	}
}
