package vh

import (
	"bytes"
	"io"
	"reflect"

	"github.com/jf-tech/omniparser"
	"github.com/jf-tech/omniparser/customfuncs"
	"github.com/jf-tech/omniparser/errs"
	"github.com/jf-tech/omniparser/extensions/omniv21"
	v21 "github.com/jf-tech/omniparser/extensions/omniv21/customfuncs"
	"github.com/jf-tech/omniparser/extensions/omniv21/fileformat"
	"github.com/jf-tech/omniparser/extensions/omniv21/fileformat/csv"
	"github.com/jf-tech/omniparser/extensions/omniv21/fileformat/edi"
	"github.com/jf-tech/omniparser/extensions/omniv21/fileformat/fixedlength"
	csv2 "github.com/jf-tech/omniparser/extensions/omniv21/fileformat/flatfile/csv"
	fixedlength2 "github.com/jf-tech/omniparser/extensions/omniv21/fileformat/flatfile/fixedlength"
	fjson "github.com/jf-tech/omniparser/extensions/omniv21/fileformat/json"
	fxml "github.com/jf-tech/omniparser/extensions/omniv21/fileformat/xml"
	"github.com/jf-tech/omniparser/extensions/omniv21/transform"
	"github.com/jf-tech/omniparser/idr"
	"github.com/jf-tech/omniparser/schemahandler"
	"github.com/jf-tech/omniparser/transformctx"
)

// FormatNames in the order of Gen.Continuable.all_formats.
var FormatNames = []string{"csv", "csv2", "edi", "fixed-length", "fixedlength2", "json", "xml"}

// IsFatal reports whether err is the fatal error type of the format with the given index.
func IsFatal(fmtIdx int, err error) bool {
	switch fmtIdx {
	case 0:
		return csv.IsErrInvalidHeader(err)
	case 1:
		return csv2.IsErrInvalidCSV(err)
	case 2:
		return edi.IsErrInvalidEDI(err)
	case 3:
		return fixedlength.IsErrInvalidEnvelope(err)
	case 4:
		return fixedlength2.IsErrInvalidFixedLength(err)
	case 5:
		return fjson.IsErrNodeReadingFailed(err)
	case 6:
		return fxml.IsErrNodeReadingFailed(err)
	}
	return false
}

func builtinFormats(name string) []fileformat.FileFormat {
	return []fileformat.FileFormat{
		csv.NewCSVFileFormat(name),
		csv2.NewCSVFileFormat(name),
		edi.NewEDIFileFormat(name),
		fixedlength.NewFixedLengthFileFormat(name),
		fixedlength2.NewFixedLengthFileFormat(name),
		fjson.NewJSONFileFormat(name),
		fxml.NewXMLFileFormat(name),
	}
}

// ---- logging layers, installed through public extension points only -----------------------

// ReaderEvent is one call the ingester made on the FormatReader.
type ReaderEvent struct {
	Release bool
	Node    *idr.Node // Release argument or Read result
	Err     error
	Cont    bool // reader.IsContinuableError(Err), asked by the logger itself
}

// IngEvent is one Ingester.Read call as seen by the transform.
type IngEvent struct {
	Raw   schemahandler.RawRecord
	Bytes []byte
	Err   error
	Cont  bool // ingester.IsContinuableError(Err), asked by the logger itself
}

// Log collects what happened below one Transform.
type Log struct {
	FmtIdx  int
	Reader  []ReaderEvent
	Ing     []IngEvent
	IngCall int
}

type logFormat struct {
	inner fileformat.FileFormat
	idx   int
	log   **Log
}

func (f *logFormat) ValidateSchema(format string, content []byte, decl *transform.Decl) (interface{}, error) {
	return f.inner.ValidateSchema(format, content, decl)
}

func (f *logFormat) CreateFormatReader(name string, input io.Reader, rt interface{}) (fileformat.FormatReader, error) {
	r, err := f.inner.CreateFormatReader(name, input, rt)
	if err != nil {
		return nil, err
	}
	if *f.log != nil {
		(*f.log).FmtIdx = f.idx
	}
	return &logReader{inner: r, log: *f.log}, nil
}

type logReader struct {
	inner fileformat.FormatReader
	log   *Log
}

func (r *logReader) Read() (*idr.Node, error) {
	n, err := r.inner.Read()
	ev := ReaderEvent{Node: n, Err: err}
	if err != nil {
		ev.Cont = r.inner.IsContinuableError(err)
	}
	if r.log != nil {
		r.log.Reader = append(r.log.Reader, ev)
	}
	return n, err
}
func (r *logReader) Release(n *idr.Node) {
	if r.log != nil {
		r.log.Reader = append(r.log.Reader, ReaderEvent{Release: true, Node: n})
	}
	r.inner.Release(n)
}
func (r *logReader) IsContinuableError(err error) bool { return r.inner.IsContinuableError(err) }
func (r *logReader) FmtErr(format string, args ...interface{}) error {
	return r.inner.FmtErr(format, args...)
}

type logHandler struct {
	inner schemahandler.SchemaHandler
	log   **Log
}

func (h *logHandler) NewIngester(ctx *transformctx.Ctx, input io.Reader) (schemahandler.Ingester, error) {
	ing, err := h.inner.NewIngester(ctx, input)
	if err != nil {
		return nil, err
	}
	return &logIngester{inner: ing, log: *h.log}, nil
}

type logIngester struct {
	inner schemahandler.Ingester
	log   *Log
}

func (g *logIngester) Read() (schemahandler.RawRecord, []byte, error) {
	raw, b, err := g.inner.Read()
	ev := IngEvent{Raw: raw, Bytes: b, Err: err}
	if err != nil {
		ev.Cont = g.inner.IsContinuableError(err)
	}
	if g.log != nil {
		g.log.Ing = append(g.log.Ing, ev)
		g.log.IngCall++
	}
	return raw, b, err
}
func (g *logIngester) IsContinuableError(err error) bool { return g.inner.IsContinuableError(err) }
func (g *logIngester) FmtErr(format string, args ...interface{}) error {
	return g.inner.FmtErr(format, args...)
}

// LoggedSchema builds a Schema whose built-in handler and formats are wrapped by loggers.
// *cur is the log that the next NewTransform will write into.
type LoggedSchema struct {
	Schema omniparser.Schema
	cur    *Log
}

func NewLoggedSchema(name string, schema []byte, extraFuncs customfuncs.CustomFuncs) (*LoggedSchema, error) {
	ls := &LoggedSchema{}
	funcs := customfuncs.Merge(customfuncs.CommonCustomFuncs, v21.OmniV21CustomFuncs, extraFuncs)
	ext := omniparser.Extension{
		CreateSchemaHandler: func(ctx *schemahandler.CreateCtx) (schemahandler.SchemaHandler, error) {
			var wrapped []fileformat.FileFormat
			for i, f := range builtinFormats(ctx.Name) {
				wrapped = append(wrapped, &logFormat{inner: f, idx: i, log: &ls.cur})
			}
			c2 := *ctx
			c2.CreateParams = &omniv21.CreateParams{CustomFileFormats: wrapped}
			h, err := omniv21.CreateSchemaHandler(&c2)
			if err != nil {
				return nil, err
			}
			return &logHandler{inner: h, log: &ls.cur}, nil
		},
		CustomFuncs: funcs,
	}
	s, err := omniparser.NewSchema(name, bytesReader(schema), ext)
	if err != nil {
		return nil, err
	}
	ls.Schema = s
	return ls, nil
}

// NewTransform starts a transform whose reader- and ingester-level calls go to the returned Log.
func (ls *LoggedSchema) NewTransform(name string, input io.Reader) (omniparser.Transform, *Log, error) {
	l := &Log{FmtIdx: -1}
	ls.cur = l
	t, err := ls.Schema.NewTransform(name, input, &transformctx.Ctx{})
	ls.cur = nil
	return t, l, err
}

// ---- error identity -----------------------------------------------------------------------------

// ErrIntern maps Go error values to the (cls, ptr, ty, msg) quadruple of Model/Latch.v such
// that two quadruples are equal exactly when the Go values are ==.
type ErrIntern struct {
	ptrs  map[uintptr]int
	types map[string]int
	msgs  map[string]int
	uniq  int
}

func NewErrIntern() *ErrIntern {
	return &ErrIntern{ptrs: map[uintptr]int{}, types: map[string]int{"errs.ErrTransformFailed": 1}, msgs: map[string]int{}}
}

type ErrV struct {
	Cls string `json:"cls"`
	Ptr int    `json:"ptr"`
	Ty  int    `json:"ty"`
	Msg int    `json:"msg"`
	Txt string `json:"txt"`
}

func (ei *ErrIntern) TypeID(name string) int {
	id, ok := ei.types[name]
	if !ok {
		id = len(ei.types) + 1
		ei.types[name] = id
	}
	return id
}

func (ei *ErrIntern) Of(err error) ErrV {
	v := ErrV{Cls: "COther", Txt: err.Error()}
	if err == io.EOF {
		v.Cls = "CEOF"
	} else if IsFailed(err) {
		v.Cls = "CFailed"
	}
	rv := reflect.ValueOf(err)
	v.Ty = ei.TypeID(rv.Type().String())
	switch rv.Kind() {
	case reflect.Ptr, reflect.Map, reflect.Chan, reflect.Func, reflect.UnsafePointer:
		p := rv.Pointer()
		id, ok := ei.ptrs[p]
		if !ok {
			id = len(ei.ptrs) + 1
			ei.ptrs[p] = id
		}
		v.Ptr = id
	default:
		if !rv.Type().Comparable() {
			ei.uniq++
			v.Ptr = 1000000 + ei.uniq
		}
	}
	m, ok := ei.msgs[v.Txt]
	if !ok {
		m = len(ei.msgs) + 1
		ei.msgs[v.Txt] = m
	}
	v.Msg = m
	return v
}

func (v ErrV) Coq() string {
	return "(mkErr " + v.Cls + " " + CoqN(v.Ptr) + " " + CoqN(v.Ty) + " " + CoqN(v.Msg) + ")"
}

func CoqOptErr(ei *ErrIntern, err error) string {
	if err == nil {
		return "None"
	}
	return "(Some " + ei.Of(err).Coq() + ")"
}

// SameErr is Go's == on error values, guarded against non-comparable dynamic types.
func SameErr(a, b error) (same bool) {
	defer func() {
		if recover() != nil {
			same = false
		}
	}()
	return a == b
}

func bytesReader(b []byte) io.Reader { return bytes.NewReader(b) }

// IsFailed is the harness's own test for a per-record failure: the dynamic type of the error
// VALUE is errs.ErrTransformFailed (not the library's predicate, and deliberately not errors.As:
// an error that merely wraps an ErrTransformFailed is not one).
func IsFailed(err error) bool {
	_, ok := err.(errs.ErrTransformFailed)
	return ok
}
