package vh

import (
	"strings"

	"github.com/jf-tech/omniparser/idr"
)

// CoqTree prints an *idr.Node subtree as a Base.Tree.tree term (no IDs, no addresses).
func CoqTree(n *idr.Node) string {
	var sb strings.Builder
	coqTree(&sb, n)
	return sb.String()
}

func coqTree(sb *strings.Builder, n *idr.Node) {
	sb.WriteString("(T ")
	sb.WriteString(n.Type.String())
	sb.WriteString(" ")
	sb.WriteString(CoqHex([]byte(n.Data)))
	sb.WriteString(" ")
	switch fs := n.FormatSpecific.(type) {
	case idr.XMLSpecific:
		sb.WriteString("(FXml " + CoqHex([]byte(fs.NamespacePrefix)) + " " + CoqHex([]byte(fs.NamespaceURI)) + ")")
	case idr.JSONType:
		sb.WriteString("(FJson " + CoqN(int(fs)) + ")")
	default:
		sb.WriteString("FNone")
	}
	sb.WriteString(" [")
	first := true
	for c := n.FirstChild; c != nil; c = c.NextSibling {
		if !first {
			sb.WriteString("; ")
		}
		first = false
		coqTree(sb, c)
	}
	sb.WriteString("])")
}

// TreeSize counts the nodes of a subtree.
func TreeSize(n *idr.Node) int {
	k := 1
	for c := n.FirstChild; c != nil; c = c.NextSibling {
		k += TreeSize(c)
	}
	return k
}

// Root walks parent links to the root.
func Root(n *idr.Node) *idr.Node {
	for n.Parent != nil {
		n = n.Parent
	}
	return n
}
