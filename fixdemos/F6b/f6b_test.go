package fixdemo

import (
	"regexp"
	"testing"

	"github.com/jf-tech/omniparser/customfuncs"
)

func TestF6b(t *testing.T) {
	for _, c := range []struct{ dt, ms string }{
		{"9999-12-31T00:00:00Z", "253402214400000"},
		{"2262-04-11T23:47:16.854Z", "9223372036854"},
		{"2262-04-11T23:47:16.855Z", "9223372036855"},
		{"2300-01-01T00:00:00.123Z", "10413792000123"},
		{"1677-09-21T00:12:43.145Z", "-9223372036855"},
		{"1600-01-01T00:00:00.001Z", "-11676095999999"},
		{"0001-01-01T00:00:00Z", "-62135596800000"},
		{"1970-01-01T00:00:00Z", "0"},
		{"1969-12-31T23:59:59.999Z", "-1"},
		{"1969-12-31T23:59:58.5Z", "-1500"},
		{"2020-09-22T12:34:56.789Z", "1600778096789"},
	} {
		ms, err := customfuncs.DateTimeToEpoch(nil, c.dt, "", "MILLISECOND")
		if err != nil || ms != c.ms {
			t.Errorf("DateTimeToEpoch(%s) = %s, %v; want %s", c.dt, ms, err, c.ms)
		}
		dt, err := customfuncs.EpochToDateTimeRFC3339(nil, c.ms, "MILLISECOND")
		if want := regexp.MustCompile(`\.\d+`).ReplaceAllString(c.dt, ""); err != nil || dt != want { // RFC3339 output has second resolution
			t.Errorf("EpochToDateTimeRFC3339(%s) = %s, %v; want %s", c.ms, dt, err, c.dt)
		}
	}
	// SECOND unit unchanged
	s, err := customfuncs.DateTimeToEpoch(nil, "9999-12-31T00:00:00Z", "", "SECOND")
	if err != nil || s != "253402214400" {
		t.Errorf("SECOND: %s %v", s, err)
	}
	dt, err := customfuncs.EpochToDateTimeRFC3339(nil, "253402214400", "SECOND")
	if err != nil || dt != "9999-12-31T00:00:00Z" {
		t.Errorf("SECOND: %s %v", dt, err)
	}
	dt, err = customfuncs.EpochToDateTimeRFC3339(nil, "-1500", "MILLISECOND", "America/New_York")
	if err != nil || dt != "1969-12-31T18:59:58-05:00" {
		t.Errorf("tz: %s %v", dt, err)
	}
}
