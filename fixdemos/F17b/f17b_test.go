package fixdemo

import (
	"testing"

	v21 "github.com/jf-tech/omniparser/extensions/omniv21/customfuncs"
)

// F17b: an argument named __proto__ with an object value must not leak into later calls.
func TestF17bProtoArgName(t *testing.T) {
	for i := 0; i < 50; i++ {
		if v, err := v21.JavaScript(nil, "typeof leak"); err != nil || v != "undefined" {
			t.Fatalf("before: %v %v", v, err)
		}
		_, _ = v21.JavaScript(nil, "1", "__proto__", map[string]interface{}{"leak": 42})
		if v, err := v21.JavaScript(nil, "typeof leak"); err != nil || v != "undefined" {
			t.Fatalf("argument of an earlier call visible in a later call: typeof leak = %v %v", v, err)
		}
		if v, err := v21.JavaScript(nil, "a + b", "a", "x", "b", 2); err != nil || v != "x2" {
			t.Fatalf("ordinary args: %v %v", v, err)
		}
		if v, err := v21.JavaScript(nil, "typeof a + typeof toString"); err != nil || v != "undefinedfunction" {
			t.Fatalf("ordinary args not wiped: %v %v", v, err)
		}
	}
}
