package fixdemo

import (
	"fmt"
	"io"
	"strings"
	"testing"
	"time"

	"github.com/jf-tech/omniparser"
	"github.com/jf-tech/omniparser/errs"
	"github.com/jf-tech/omniparser/transformctx"
)

func run(schema, input string) (outcome string, bad bool) {
	type res struct {
		s   string
		bad bool
	}
	ch := make(chan res, 1)
	go func() {
		defer func() {
			if r := recover(); r != nil {
				ch <- res{fmt.Sprintf("PANIC: %v", r), true}
			}
		}()
		sch, err := omniparser.NewSchema("demo", strings.NewReader(schema))
		if err != nil {
			ch <- res{"schema rejected: " + err.Error(), false}
			return
		}
		tr, err := sch.NewTransform("in", strings.NewReader(input), &transformctx.Ctx{})
		if err != nil {
			ch <- res{"NewTransform failed: " + err.Error(), false}
			return
		}
		var outs []string
		for i := 0; i < 1000; i++ {
			b, err := tr.Read()
			if err == io.EOF {
				ch <- res{strings.Join(append(outs, "EOF"), " | "), false}
				return
			}
			if err != nil && !errs.IsErrTransformFailed(err) {
				// fatal error: caller is supposed to stop.
				ch <- res{strings.Join(append(outs, "fatal err: "+err.Error()), " | "), false}
				return
			}
			if err != nil {
				outs = append(outs, "err: "+err.Error())
			} else {
				outs = append(outs, string(b))
			}
		}
		ch <- res{"1000 Reads out of a tiny input: Read never ends", true}
	}()
	select {
	case r := <-ch:
		return r.s, r.bad
	case <-time.After(5 * time.Second):
		return "HANG: no result in 5s", true
	}
}

var exprs = []string{
	"true()", "false()", "position()", "last()", "name()", "string()", "number()",
	"concat('a','b')", "contains('a','b')", "true() and false()", "1", "'a'", "1 + 2", "count(*)",
	"*[. < 5]", ".[* < 5]", "*[number(.) < 5]", "a[. < 5]", "not(a)", "string-length()", "normalize-space()",
	"sum(*)", "*[substring(., 0, 1) = 'a']", "*[matches(., '(')]",
}

type format struct {
	name, hdr, fileDecl, input string
}

var formats = []format{
	{"xml", `"file_format_type":"xml"`, ``, `<r><a>x</a><a>3</a></r>`},
	{"json", `"file_format_type":"json"`, ``, `{"a":"x","b":3}`},
	{"csv", `"file_format_type":"csv"`, `"file_declaration":{"delimiter":",","data_row_index":1,"columns":[{"name":"a"},{"name":"b"}]},`, "x,3\n4,y\n"},
	{"csv2", `"file_format_type":"csv2"`, `"file_declaration":{"delimiter":",","records":[{"columns":[{"name":"a","index":1},{"name":"b","index":2}]}]},`, "x,3\n4,y\n"},
	{"fixed-length", `"file_format_type":"fixed-length"`, `"file_declaration":{"envelopes":[{"columns":[{"name":"a","start_pos":1,"length":1},{"name":"b","start_pos":2,"length":1}]}]},`, "x3\n4y\n"},
	{"fixedlength2", `"file_format_type":"fixedlength2"`, `"file_declaration":{"envelopes":[{"columns":[{"name":"a","start_pos":1,"length":1},{"name":"b","start_pos":2,"length":1}]}]},`, "x3\n4y\n"},
	{"edi", `"file_format_type":"edi"`, `"file_declaration":{"segment_delimiter":"\n","element_delimiter":"*","segment_declarations":[{"name":"S","is_target":true,"max":-1,"elements":[{"name":"a","index":1},{"name":"b","index":2}]}]},`, "S*x*3\nS*4*y\n"},
}

func TestN5(t *testing.T) {
	for _, f := range formats {
		for _, e := range exprs {
			for pos, decl := range map[string]string{
				"field xpath":        `{"object":{"v":{"xpath":"EXPR"},"k":{"const":"c"}}}`,
				"FINAL_OUTPUT xpath": `{"xpath":"EXPR","object":{"k":{"const":"c"}}}`,
				"xpath_dynamic":      `{"object":{"v":{"xpath_dynamic":{"const":"EXPR"}},"k":{"const":"c"}}}`,
				"array xpath":        `{"object":{"v":{"array":[{"xpath":"EXPR"}]},"k":{"const":"c"}}}`,
				"object xpath":       `{"object":{"v":{"xpath":"EXPR","object":{"w":{"xpath":"."}}},"k":{"const":"c"}}}`,
			} {
				schema := `{"parser_settings":{"version":"omni.2.1",` + f.hdr + `},` + f.fileDecl +
					`"transform_declarations":{"FINAL_OUTPUT":` + strings.Replace(decl, "EXPR", e, 1) + `}}`
				outcome, bad := run(schema, f.input)
				if bad {
					t.Errorf("%s, %s = %s: %s", f.name, pos, e, outcome)
				} else if testing.Verbose() {
					t.Logf("%s, %s = %s: %s", f.name, pos, e, outcome)
				}
			}
		}
	}
}
