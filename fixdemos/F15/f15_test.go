package fixdemo

import (
	"encoding/json"
	"fmt"
	"io"
	"strings"
	"testing"
	"time"

	"github.com/jf-tech/omniparser"
	"github.com/jf-tech/omniparser/transformctx"
)

func oldCSVSchema(delim string) string {
	d, _ := json.Marshal(delim)
	return `{
  "parser_settings": {"version": "omni.2.1", "file_format_type": "csv"},
  "file_declaration": {"delimiter": ` + string(d) + `, "data_row_index": 2, "columns": [{"name": "a"}, {"name": "b"}]},
  "transform_declarations": {"FINAL_OUTPUT": {"object": {"a": {"xpath": "a"}, "b": {"xpath": "b"}}}}
}`
}

func csv2Schema(delim string) string {
	d, _ := json.Marshal(delim)
	return `{
  "parser_settings": {"version": "omni.2.1", "file_format_type": "csv2"},
  "file_declaration": {"delimiter": ` + string(d) + `, "records": [{"name": "r", "columns": [{"name": "a"}, {"name": "b"}]}]},
  "transform_declarations": {"FINAL_OUTPUT": {"object": {"a": {"xpath": "a"}, "b": {"xpath": "b"}}}}
}`
}

var badDelims = []string{`"`, "\r", "\n", "�", "\x00"}

// returns schema error (if any), and the outcome of reading everything.
func run(schema, input string) (schemaErr error, result string) {
	s, err := omniparser.NewSchema("s", strings.NewReader(schema))
	if err != nil {
		return err, ""
	}
	done := make(chan string, 1)
	go func() {
		tr, err := s.NewTransform("in", strings.NewReader(input), &transformctx.Ctx{})
		if err != nil {
			done <- "newtransform err: " + err.Error()
			return
		}
		var sb strings.Builder
		for i := 0; i < 100; i++ {
			b, err := tr.Read()
			if err == io.EOF {
				done <- sb.String() + "EOF"
				return
			}
			if err != nil {
				sb.WriteString(fmt.Sprintf("ERR(%v);", err))
				continue
			}
			sb.Write(b)
		}
		done <- sb.String() + "...no termination after 100 reads"
	}()
	select {
	case r := <-done:
		return nil, r
	case <-time.After(2 * time.Second):
		return nil, "HANG"
	}
}

func TestF15OldCSVBadDelims(t *testing.T) {
	for _, d := range badDelims {
		schemaErr, res := run(oldCSVSchema(d), "h1"+d+"h2\n1"+d+"2\n3"+d+"4\n")
		t.Logf("old csv delim %q: schemaErr=%v result=%.200s", d, schemaErr, res)
		if schemaErr == nil {
			t.Errorf("old csv delim %q: not rejected by schema validation; result: %.200s", d, res)
		}
	}
}

func TestF15bCSV2BadDelims(t *testing.T) {
	for _, d := range badDelims {
		schemaErr, res := run(csv2Schema(d), "1"+d+"2\n3"+d+"4\n")
		t.Logf("csv2 delim %q: schemaErr=%v result=%.300s", d, schemaErr, res)
		if schemaErr == nil {
			t.Errorf("csv2 delim %q: not rejected by schema validation; result: %.200s", d, res)
		}
	}
}

func TestF15GoodDelims(t *testing.T) {
	for _, d := range []string{",", "|", "\t", ";", " ", "é", "☃", "'"} {
		schemaErr, res := run(oldCSVSchema(d), "h1"+d+"h2\n1"+d+"2\n3"+d+"4\n")
		if schemaErr != nil || res != `{"a":"1","b":"2"}{"a":"3","b":"4"}EOF` {
			t.Errorf("old csv delim %q: %v %s", d, schemaErr, res)
		}
		schemaErr, res = run(csv2Schema(d), "1"+d+"2\n3"+d+"4\n")
		if schemaErr != nil || res != `{"a":"1","b":"2"}{"a":"3","b":"4"}EOF` {
			t.Errorf("csv2 delim %q: %v %s", d, schemaErr, res)
		}
	}
}
