package fixdemo

import (
	"bytes"
	"fmt"
	"io"
	"os"
	"os/exec"
	"strings"
	"testing"
	"time"

	"github.com/jf-tech/omniparser"
	"github.com/jf-tech/omniparser/errs"
	"github.com/jf-tech/omniparser/transformctx"
)

func run(schema, input string) (outcome string, bad bool) {
	type res struct {
		s   string
		bad bool
	}
	ch := make(chan res, 1)
	go func() {
		defer func() {
			if r := recover(); r != nil {
				ch <- res{fmt.Sprintf("PANIC: %v", r), true}
			}
		}()
		sch, err := omniparser.NewSchema("demo", strings.NewReader(schema))
		if err != nil {
			ch <- res{"schema rejected: " + err.Error(), false}
			return
		}
		tr, err := sch.NewTransform("in", strings.NewReader(input), &transformctx.Ctx{})
		if err != nil {
			ch <- res{"NewTransform failed: " + err.Error(), false}
			return
		}
		var outs []string
		for i := 0; i < 1000; i++ {
			b, err := tr.Read()
			if err == io.EOF {
				ch <- res{strings.Join(append(outs, "EOF"), " | "), false}
				return
			}
			if err != nil && !errs.IsErrTransformFailed(err) {
				ch <- res{strings.Join(append(outs, "fatal err: "+err.Error()), " | "), false}
				return
			}
			if err != nil {
				outs = append(outs, "err: "+err.Error())
			} else {
				outs = append(outs, string(b))
			}
		}
		ch <- res{"1000 Reads out of a tiny input: Read never ends", true}
	}()
	select {
	case r := <-ch:
		return r.s, r.bad
	case <-time.After(5 * time.Second):
		return "HANG: no result in 5s", true
	}
}

type tc struct {
	js       string
	wantErr  bool // every record must fail with an (ordinary, continuable) error
	wantJSON string
}

var cases = []tc{
	{js: `var o={}; o.o=o; o`, wantErr: true},
	{js: `var a=[]; a.push(a); a`, wantErr: true},
	{js: `var o={a:[1]}; o.a.push({b:o}); o`, wantErr: true},
	{js: `var o={x:{y:{}}}; o.x.y.z=o.x; o`, wantErr: true},
	// not cyclic: the same object referenced twice must keep working.
	{js: `var x={v:1}; ({a:x,b:x,c:[x,x]})`, wantJSON: `{"a":{"a":{"v":1},"b":{"v":1},"c":[{"v":1},{"v":1}]}}`},
	{js: `var e=[]; ({a:e,b:e,c:[e,[]]})`, wantJSON: `{"a":{"a":[],"b":[],"c":[[],[]]}}`},
	{js: `({a:[1,'2',{b:null}]})`, wantJSON: `{"a":{"a":[1,"2",{"b":null}]}}`},
}

func schemaOf(js, typ string) string {
	return `{"parser_settings":{"version":"omni.2.1","file_format_type":"xml"},"transform_declarations":{"FINAL_OUTPUT":{"object":{"a":{"custom_func":{"name":"javascript","args":[{"const":"` +
		js + `"}]}` + typ + `}}}}}`
}

// TestChild runs one case inside a child process: a cyclic value makes fmt recurse until the
// process dies of 'fatal error: stack overflow', which no recover() can catch.
func TestChild(t *testing.T) {
	if os.Getenv("N7_CHILD") == "" {
		t.Skip("child only")
	}
	var i int
	fmt.Sscanf(os.Getenv("N7_CHILD"), "%d", &i)
	c := cases[i]
	outcome, bad := run(schemaOf(c.js, os.Getenv("N7_TYPE")), `<a/>`)
	fmt.Printf("OUTCOME: %s\n", outcome)
	if bad {
		t.Fatalf("bad: %s", outcome)
	}
	if c.wantErr && !(strings.HasPrefix(outcome, "err: ") && strings.HasSuffix(outcome, "| EOF")) {
		t.Fatalf("expected the record to fail with an error, got: %s", outcome)
	}
	if !c.wantErr && os.Getenv("N7_TYPE") == "" && outcome != c.wantJSON+" | EOF" {
		t.Fatalf("expected %s, got: %s", c.wantJSON, outcome)
	}
}

func TestN7(t *testing.T) {
	for i, c := range cases {
		for _, typ := range []string{``, `,"type":"int"`, `,"type":"string"`} {
			cmd := exec.Command(os.Args[0], "-test.run=^TestChild$", "-test.v")
			cmd.Env = append(os.Environ(), fmt.Sprintf("N7_CHILD=%d", i), "N7_TYPE="+typ)
			var out bytes.Buffer
			cmd.Stdout, cmd.Stderr = &out, &out
			err := cmd.Run()
			s := out.String()
			line := ""
			for _, l := range strings.Split(s, "\n") {
				if strings.HasPrefix(l, "OUTCOME: ") || strings.Contains(l, "fatal error") || strings.Contains(l, "n7_test.go") {
					line += l + " "
				}
			}
			if len(line) > 300 {
				line = line[:300]
			}
			if err != nil {
				t.Errorf("%s %s: child died/failed (%v): %s", c.js, typ, err, line)
			} else {
				t.Logf("%s %s: %s", c.js, typ, line)
			}
		}
	}
}
