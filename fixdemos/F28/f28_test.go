package demo
import ("testing";"strings";"io";"github.com/jf-tech/omniparser";"github.com/jf-tech/omniparser/transformctx")
const schema = `{
 "parser_settings": {"version":"omni.2.1","file_format_type":"json"},
 "transform_declarations": {
   "FINAL_OUTPUT": {"xpath":"/*","object":{
      "direct": {"xpath_dynamic": {"custom_func":{"name":"concat","args":[{"const":"a"},{"const":"b"}]}}},
      "viatpl": {"xpath_dynamic": {"custom_func":{"name":"concat","args":[{"const":"a"},{"const":"b"}]}}, "template":"t"},
      "viatpl2": {"xpath_dynamic": {"custom_func":{"name":"javascript","args":[{"const":"x.length==2?'ab':'abab'"},{"const":"x"},{"array":[{"const":"1"},{"const":"2"}]}]}}, "template":"t"}
   }},
   "t": {"object":{"v":{"xpath":"."}}}
 }}`
func TestX(t *testing.T) {
  s, err := omniparser.NewSchema("s", strings.NewReader(schema))
  if err != nil { t.Fatal(err) }
  tr, err := s.NewTransform("in", strings.NewReader(`{"r":{"ab":"AB","abab":"ABAB"}}`), &transformctx.Ctx{})
  if err != nil { t.Fatal(err) }
  // before 5c266b7: "viatpl2":{"v":"ABAB"} (the array under the template reference's xpath_dynamic had 4 elements)
  b, err := tr.Read()
  if err != nil { t.Fatal(err) }
  if want := `{"direct":"AB","viatpl":{"v":"AB"},"viatpl2":{"v":"AB"}}`; string(b) != want { t.Fatalf("got %s want %s", b, want) }
  if _, err = tr.Read(); err != io.EOF { t.Fatal(err) }
}
