package fixdemo

import (
	"io"
	"strings"
	"testing"

	"github.com/jf-tech/omniparser"
	"github.com/jf-tech/omniparser/errs"
	"github.com/jf-tech/omniparser/transformctx"
)

func schema(cf string) string {
	return `{
  "parser_settings": {"version": "omni.2.1", "file_format_type": "xml"},
  "transform_declarations": {"FINAL_OUTPUT": {"xpath": "r/n", "object": {
     "v": {"custom_func": ` + cf + `}
  }}}}`
}

func run(t *testing.T, cf string) (outs []string, errsOut []error) {
	s, err := omniparser.NewSchema("s", strings.NewReader(schema(cf)))
	if err != nil {
		t.Fatal(err)
	}
	tr, err := s.NewTransform("in", strings.NewReader(`<r><n><x>ab</x><i>3</i></n><n><x>cd</x><i>4</i></n></r>`), &transformctx.Ctx{})
	if err != nil {
		t.Fatal(err)
	}
	for {
		b, err := tr.Read()
		if err == io.EOF {
			return
		}
		if err != nil {
			if !errs.IsErrTransformFailed(err) {
				t.Fatalf("non continuable error: %v", err)
			}
			t.Logf("%s -> %v", cf, err)
			errsOut = append(errsOut, err)
			continue
		}
		outs = append(outs, string(b))
	}
}

func TestF4Bad(t *testing.T) {
	for _, cf := range []string{
		`{"name": "upper", "args": []}`,
		`{"name": "upper"}`,
		`{"name": "upper", "args": [{"xpath": "x"}, {"xpath": "x"}]}`,
		`{"name": "upper", "args": [{"xpath": "i", "type": "int"}]}`,
		`{"name": "now", "args": [{"xpath": "x"}]}`,
		`{"name": "javascript", "args": []}`,
		`{"name": "javascript", "args": [{"xpath": "i", "type": "int"}]}`,
		`{"name": "javascript", "args": [{"xpath": "nonexisting"}]}`,
		`{"name": "javascript_with_context", "args": []}`,
		`{"name": "concat", "args": [{"xpath": "x"}, {"xpath": "i", "type": "int"}]}`,
		`{"name": "dateTimeToEpoch", "args": [{"xpath": "x"}]}`,
		`{"name": "copy", "args": [{"xpath": "x"}]}`,
	} {
		outs, es := run(t, cf)
		if len(outs) != 0 || len(es) != 2 {
			t.Fatalf("%s: outs=%v errs=%v", cf, outs, es)
		}
	}
}

func TestF4Good(t *testing.T) {
	for cf, want := range map[string]string{
		`{"name": "upper", "args": [{"xpath": "x"}]}`:                                     `{"v":"AB"},{"v":"CD"}`,
		`{"name": "upper", "args": [{"xpath": "nonexisting"}]}`:                           `null,null`,
		`{"name": "concat"}`:                                                              `null,null`,
		`{"name": "concat", "args": [{"xpath": "x"}, {"xpath": "none"}, {"xpath": "i"}]}`: `{"v":"ab3"},{"v":"cd4"}`,
		`{"name": "coalesce", "args": [{"xpath": "none"}, {"xpath": "i"}]}`:               `{"v":"3"},{"v":"4"}`,
		`{"name": "javascript", "args": [{"const": "a+b"}, {"const": "a"}, {"xpath": "i", "type": "int"}, {"const": "b"}, {"xpath": "x"}]}`: `{"v":"3ab"},{"v":"4cd"}`,
		`{"name": "javascript", "args": [{"const": "1+2"}]}`:                                                                                `{"v":3},{"v":3}`,
		`{"name": "javascript_with_context", "args": [{"const": "JSON.parse(_node).x"}]}`:                                                   `{"v":"ab"},{"v":"cd"}`,
		`{"name": "copy"}`: `{"v":{"i":"3","x":"ab"}},{"v":{"i":"4","x":"cd"}}`,
	} {
		outs, es := run(t, cf)
		if len(es) != 0 || strings.Join(outs, ",") != want {
			t.Fatalf("%s: outs=%v errs=%v", cf, outs, es)
		}
	}
}
