package fixdemo

import (
	"strings"
	"testing"

	"github.com/jf-tech/omniparser"
	"github.com/jf-tech/omniparser/transformctx"
)

const input = `<n><x>outer<x>inner</x></x></n>`

func run(t *testing.T, decls string) string {
	t.Helper()
	schema := `{"parser_settings":{"version":"omni.2.1","file_format_type":"xml"},"transform_declarations":{` + decls + `}}`
	s, err := omniparser.NewSchema("f19", strings.NewReader(schema))
	if err != nil {
		t.Fatalf("NewSchema: %v", err)
	}
	tr, err := s.NewTransform("f19", strings.NewReader(input), &transformctx.Ctx{})
	if err != nil {
		t.Fatalf("NewTransform: %v", err)
	}
	b, err := tr.Read()
	if err != nil {
		t.Fatalf("Read: %v", err)
	}
	return string(b)
}

func check(t *testing.T, decls, want string) {
	t.Helper()
	if got := run(t, decls); got != want {
		t.Errorf("decls %s:\n got  %s\n want %s", decls, got, want)
	}
}

func TestHashCollision(t *testing.T) {
	// baseline
	check(t, `"FINAL_OUTPUT":{"xpath":"/n","object":{"b":{"xpath":"x"}}}`, `{"b":"outerinner"}`)
	// (a) empty object vs field
	check(t, `"FINAL_OUTPUT":{"xpath":"/n","object":{"a":{"xpath":"x","object":{}},"b":{"xpath":"x"}}}`, `{"b":"outerinner"}`)
	// empty array vs field
	check(t, `"FINAL_OUTPUT":{"xpath":"/n","object":{"a":{"array":[]},"b":{}}}`, `{"b":"outerinner"}`)
	// empty array vs empty object, kept
	check(t, `"FINAL_OUTPUT":{"xpath":"/n","object":{"a":{"array":[],"keep_empty_or_null":true},"b":{"object":{},"keep_empty_or_null":true}}}`,
		`{"a":null,"b":{}}`)
	check(t, `"FINAL_OUTPUT":{"xpath":"/n","object":{"a":{"object":{},"keep_empty_or_null":true},"b":{"array":[],"keep_empty_or_null":true}}}`,
		`{"a":{},"b":null}`)
	// one level down
	check(t, `"FINAL_OUTPUT":{"xpath":"/n","object":{"a":{"object":{"c":{"xpath":"x","object":{}}}},"b":{"object":{"c":{"xpath":"x"}}}}}`,
		`{"b":{"c":"outerinner"}}`)
	check(t, `"FINAL_OUTPUT":{"xpath":"/n","object":{"a":{"array":[{"xpath":"x","object":{}}]},"b":{"array":[{"xpath":"x"}]}}}`,
		`{"b":["outerinner"]}`)
}

func TestTemplateEqualsInlining(t *testing.T) {
	inlined := run(t, `"FINAL_OUTPUT":{"xpath":"/n","object":{"a":{"xpath":"x","object":{},"keep_empty_or_null":true}}}`)
	if inlined != `{"a":{}}` {
		t.Errorf("inlined: got %s", inlined)
	}
	templ := run(t, `"FINAL_OUTPUT":{"xpath":"/n","object":{"a":{"xpath":"x","template":"t"}}},"t":{"object":{},"keep_empty_or_null":true}`)
	if templ != inlined {
		t.Errorf("template %s != inlined %s", templ, inlined)
	}
	templArr := run(t, `"FINAL_OUTPUT":{"xpath":"/n","object":{"a":{"template":"t"}}},"t":{"array":[],"keep_empty_or_null":true}`)
	if templArr != `{"a":null}` {
		t.Errorf("template array: got %s", templArr)
	}
}

// Genuinely identical declarations still share results (and produce the same output).
func TestIdenticalStillWork(t *testing.T) {
	check(t, `"FINAL_OUTPUT":{"xpath":"/n","object":{"a":{"xpath":"x"},"b":{"xpath":"x"},"c":{"object":{"d":{"xpath":"x"}}},"e":{"object":{"d":{"xpath":"x"}}}}}`,
		`{"a":"outerinner","b":"outerinner","c":{"d":"outerinner"},"e":{"d":"outerinner"}}`)
}
