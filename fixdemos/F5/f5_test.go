package fixdemo

import (
	"strings"
	"testing"

	"github.com/jf-tech/omniparser"
	"github.com/jf-tech/omniparser/idr"
	"github.com/jf-tech/omniparser/transformctx"
)

const schema = `{
  "parser_settings": {"version": "omni.2.1", "file_format_type": "json"},
  "transform_declarations": {"FINAL_OUTPUT": {"custom_func": {"name": "copy"}}}
}`

var cases = []string{
	`{"b":{"":{"x":2}}}`,
	`{"":1}`,
	`{"":[1,2]}`,
	`{"":{"":{"":"v"}}}`,
	`{"a":[{"":1},{"":2,"y":[]}]}`,
	// regression checks: unchanged shapes
	`{"a":[1,"s",true,null],"b":[[1],[2,3]],"c":{},"d":[],"e":[{"x":1}]}`,
	`[{"":3}]`,
}

func TestF5Copy(t *testing.T) {
	for _, in := range cases {
		s, err := omniparser.NewSchema("s", strings.NewReader(schema))
		if err != nil {
			t.Fatal(err)
		}
		tr, err := s.NewTransform("in", strings.NewReader(in), &transformctx.Ctx{})
		if err != nil {
			t.Fatal(err)
		}
		b, err := tr.Read()
		if err != nil {
			t.Fatal(err)
		}
		if string(b) != in {
			t.Errorf("copy: got %s want %s", b, in)
		}
	}
}

func TestF5JSONify2(t *testing.T) {
	for _, in := range cases {
		r, err := idr.NewJSONStreamReader(strings.NewReader(in), ".")
		if err != nil {
			t.Fatal(err)
		}
		n, err := r.Read()
		if err != nil {
			t.Fatal(err)
		}
		if got := idr.JSONify2(n); got != in {
			t.Errorf("JSONify2: got %s want %s", got, in)
		}
	}
}
