package fixdemo

import (
	"errors"
	"io"
	"strings"
	"testing"
	"time"

	"github.com/jf-tech/omniparser"
	"github.com/jf-tech/omniparser/transformctx"
)

// N10 (C03/C16): the old csv reader retried a persistently failing input once per row it had to
// skip. With data_row_index 50,000,000 the first Read took many seconds before the fix; now the
// failure of the input reader is reported at once, as a fatal (non ErrTransformFailed) error.
const schemaN10 = `{
 "parser_settings": {"version":"omni.2.1","file_format_type":"csv"},
 "file_declaration": {"delimiter":",","data_row_index":50000000,"columns":[{"name":"a"}]},
 "transform_declarations": {"FINAL_OUTPUT": {"object":{"a":{"xpath":"a"}}}}
 }`

type failing struct{ r io.Reader }

func (f *failing) Read(p []byte) (int, error) {
	n, err := f.r.Read(p)
	if err == io.EOF {
		return n, errors.New("disk failure")
	}
	return n, err
}

func TestN10(t *testing.T) {
	s, err := omniparser.NewSchema("s", strings.NewReader(schemaN10))
	if err != nil {
		t.Fatal(err)
	}
	tr, err := s.NewTransform("in", &failing{strings.NewReader("a,b,c\n")}, &transformctx.Ctx{})
	if err != nil {
		t.Fatal(err)
	}
	t0 := time.Now()
	_, err = tr.Read()
	if err == nil || err == io.EOF {
		t.Fatalf("expected the input failure, got %v", err)
	}
	if d := time.Since(t0); d > 2*time.Second {
		t.Fatalf("first Read took %v", d)
	}
}
