package fixdemo

import (
	"strings"
	"testing"

	"github.com/jf-tech/omniparser"
	"github.com/jf-tech/omniparser/transformctx"
)

const schema = `{
  "parser_settings": {"version": "omni.2.1", "file_format_type": "edi"},
  "file_declaration": {
    "segment_delimiter": "~",
    "element_delimiter": "*",
    "release_character": "?",
    "segment_declarations": [
      {"name": "A", "is_target": true, "elements": [
        {"name": "e1", "index": 1},
        {"name": "e1dup", "index": 1},
        {"name": "e2", "index": 2},
        {"name": "e1dup2", "index": 1}
      ]}
    ]
  },
  "transform_declarations": {"FINAL_OUTPUT": {"object": {
     "e1": {"xpath": "e1"}, "e1dup": {"xpath": "e1dup"}, "e1dup2": {"xpath": "e1dup2"}, "e2": {"xpath": "e2"}
  }}}
}`

func TestF9(t *testing.T) {
	s, err := omniparser.NewSchema("s", strings.NewReader(schema))
	if err != nil {
		t.Fatal(err)
	}
	tr, err := s.NewTransform("in", strings.NewReader("A*a??b?*c*x?~y~A*plain*z~"), &transformctx.Ctx{})
	if err != nil {
		t.Fatal(err)
	}
	for _, want := range []string{
		`{"e1":"a?b*c","e1dup":"a?b*c","e1dup2":"a?b*c","e2":"x~y"}`,
		`{"e1":"plain","e1dup":"plain","e1dup2":"plain","e2":"z"}`,
	} {
		b, err := tr.Read()
		if err != nil {
			t.Fatal(err)
		}
		if string(b) != want {
			t.Errorf("got %s want %s", b, want)
		}
	}
}
