package fixdemo

import (
	"fmt"
	"strings"
	"testing"

	"github.com/jf-tech/omniparser"
	"github.com/jf-tech/omniparser/customfuncs"
	"github.com/jf-tech/omniparser/extensions/omniv21"
	v21 "github.com/jf-tech/omniparser/extensions/omniv21/customfuncs"
	"github.com/jf-tech/omniparser/transformctx"
)

var seen [][]interface{}

func verifFirst(_ *transformctx.Ctx, vals []interface{}) (string, error) {
	seen = append(seen, vals)
	if len(vals) == 0 {
		return "", fmt.Errorf("empty")
	}
	return fmt.Sprint(vals[0]), nil
}

func run(t *testing.T, input, decls string) string {
	t.Helper()
	seen = nil
	schema := `{"parser_settings":{"version":"omni.2.1","file_format_type":"xml"},"transform_declarations":{` + decls + `}}`
	s, err := omniparser.NewSchema("f20", strings.NewReader(schema), omniparser.Extension{
		CreateSchemaHandler: omniv21.CreateSchemaHandler,
		CustomFuncs: customfuncs.Merge(customfuncs.CommonCustomFuncs, v21.OmniV21CustomFuncs,
			customfuncs.CustomFuncs{"verif_first": verifFirst}),
	})
	if err != nil {
		t.Fatalf("NewSchema: %v", err)
	}
	tr, err := s.NewTransform("f20", strings.NewReader(input), &transformctx.Ctx{})
	if err != nil {
		t.Fatalf("NewTransform: %v", err)
	}
	b, err := tr.Read()
	if err != nil {
		t.Fatalf("Read: %v", err)
	}
	return string(b)
}

const input = `<n><x>q<x>x</x></x><qx>RIGHT</qx></n>`

const arg = `{"array":[{"xpath":"x"}]}`

// The same custom_func arg must be evaluated the same way inside and outside xpath_dynamic.
func TestArrayElemXPathAppliedOnceInsideXPathDynamic(t *testing.T) {
	out := run(t, input, `"FINAL_OUTPUT":{"xpath":"/n","object":{
		"b":{"custom_func":{"name":"verif_first","args":[`+arg+`]}}}}`)
	if out != `{"b":"qx"}` {
		t.Errorf("outside xpath_dynamic: got %s", out)
	}
	if fmt.Sprint(seen) != `[[qx]]` {
		t.Errorf("outside xpath_dynamic: func saw %v", seen)
	}

	out = run(t, input, `"FINAL_OUTPUT":{"xpath":"/n","object":{
		"a":{"xpath_dynamic":{"custom_func":{"name":"verif_first","args":[`+arg+`]}}}}}`)
	if fmt.Sprint(seen) != `[[qx]]` {
		t.Errorf("inside xpath_dynamic: func saw %v, want [[qx]]", seen)
	}
	if out != `{"a":"RIGHT"}` {
		t.Errorf("inside xpath_dynamic: got %s, want {\"a\":\"RIGHT\"}", out)
	}
}

// Nested: xpath_dynamic inside an xpath_dynamic's custom_func arg.
func TestNestedXPathDynamic(t *testing.T) {
	out := run(t, input, `"FINAL_OUTPUT":{"xpath":"/n","object":{
		"a":{"xpath_dynamic":{"custom_func":{"name":"concat","args":[
			{"xpath_dynamic":{"custom_func":{"name":"verif_first","args":[`+arg+`]}}}]}}}}}`)
	// inner dynamic xpath = "qx" -> arg value "RIGHT" -> outer dynamic xpath "RIGHT" -> no match.
	if fmt.Sprint(seen) != `[[qx]]` {
		t.Errorf("nested: func saw %v, want [[qx]]", seen)
	}
	_ = out
}

// Non-array uses of xpath_dynamic must be unaffected: the xpath_dynamic root's own xpath is still
// applied, including when the owner is an array or an array element.
func TestXPathDynamicRootUnchanged(t *testing.T) {
	in := `<n><k>w</k><w>W</w><kk>v</kk><v>1</v><v>2</v></n>`
	// owner is a field
	if out := run(t, in, `"FINAL_OUTPUT":{"xpath":"/n","object":{"a":{"xpath_dynamic":{"xpath":"k"}}}}`); out != `{"a":"W"}` {
		t.Errorf("field owner: got %s", out)
	}
	// owner is an object
	if out := run(t, in, `"FINAL_OUTPUT":{"xpath":"/n","object":{"a":{"xpath_dynamic":{"xpath":"k"},"object":{"b":{"xpath":"."}}}}}`); out != `{"a":{"b":"W"}}` {
		t.Errorf("object owner: got %s", out)
	}
	// owner is an array element
	if out := run(t, in, `"FINAL_OUTPUT":{"xpath":"/n","object":{"a":{"array":[{"xpath_dynamic":{"xpath":"kk"}}]}}}`); out != `{"a":["1","2"]}` {
		t.Errorf("array elem owner: got %s", out)
	}
	// owner is an array element, root is a custom_func with own xpath
	if out := run(t, in, `"FINAL_OUTPUT":{"xpath":"/n","object":{"a":{"array":[{"xpath_dynamic":{"xpath":"kk","custom_func":{"name":"concat","args":[{"xpath":"."}]}}}]}}}`); out != `{"a":["1","2"]}` {
		t.Errorf("custom_func root: got %s", out)
	}
}
