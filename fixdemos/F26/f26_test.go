package fixdemo

import (
	"strings"
	"testing"

	"github.com/jf-tech/omniparser"
	"github.com/jf-tech/omniparser/transformctx"
)

// F26: a javascript custom_func that modifies its argument must not change what a sibling
// declaration (sharing the value through the transform result cache) emits.
const schema = `{"parser_settings": {"version": "omni.2.1", "file_format_type": "json"},
 "transform_declarations": {"FINAL_OUTPUT": {"xpath": "/*", "object": {
  "a_mut": {"custom_func": {"name": "javascript", "args": [{"const": "v.x = 1; v.l.push(9); 'done'"}, {"const": "v"},
     {"xpath": ".", "custom_func": {"name": "copy"}, "keep_empty_or_null": true}]}},
  "copy": {"xpath": ".", "custom_func": {"name": "copy"}, "keep_empty_or_null": true}}}}}`

func TestF26ScriptMutatesSharedValue(t *testing.T) {
	s, err := omniparser.NewSchema("s", strings.NewReader(schema))
	if err != nil {
		t.Fatal(err)
	}
	tr, err := s.NewTransform("in", strings.NewReader(`[{"l":[1]}]`), &transformctx.Ctx{})
	if err != nil {
		t.Fatal(err)
	}
	b, err := tr.Read()
	if err != nil {
		t.Fatal(err)
	}
	if string(b) != `{"a_mut":"done","copy":{"l":[1]}}` {
		t.Fatalf("sibling declaration changed by a script: %s", b)
	}
}
