package fixdemo

import (
	"io"
	"strings"
	"testing"

	"github.com/jf-tech/omniparser"
	"github.com/jf-tech/omniparser/extensions/omniv21/fileformat/edi"
	"github.com/jf-tech/omniparser/transformctx"
)

func segs(t *testing.T, in string) (names []string, ends []int) {
	r := edi.NewNonValidatingReader(strings.NewReader(in), &edi.FileDecl{SegDelim: "~", ElemDelim: "*"})
	for {
		seg, err := r.Read()
		if err == io.EOF {
			return
		}
		if err != nil {
			t.Fatal(err)
		}
		names = append(names, seg.Name)
		ends = append(ends, r.RuneEnd())
	}
}

func TestF16NonValidatingReader(t *testing.T) {
	for _, c := range []struct {
		in   string
		want []string
		ends []int
	}{
		{"A*1~\xffQ*2~A*3~", []string{"A", "\xffQ", "A"}, []int{5, 10, 14}},
		{"A*1~�Q*2~A*3~", []string{"A", "�Q", "A"}, []int{5, 10, 14}},
		{"A*1~\n\xffQ*2~A*3~", []string{"A", "\n\xffQ", "A"}, []int{5, 11, 15}},
		{"A*1~\xff~A*3~", []string{"A", "\xff", "A"}, []int{5, 7, 11}},
		{"A*1~B\xff*2~A*3~", []string{"A", "B\xff", "A"}, []int{5, 10, 14}},
		// unchanged behaviour: CR/LF-only (trailing) tokens are still skipped
		{"A*1~\r\n~A*3~\n\n", []string{"A", "\r\n", "A"}, []int{5, 8, 12}},
		{"A*1~A*3~\r\n\n", []string{"A", "A"}, []int{5, 9}},
	} {
		got, ends := segs(t, c.in)
		if strings.Join(got, "|") != strings.Join(c.want, "|") {
			t.Errorf("%q: got segs %q want %q", c.in, got, c.want)
		}
		for i := range ends {
			if i < len(c.ends) && ends[i] != c.ends[i] {
				t.Errorf("%q: rune ends %v want %v", c.in, ends, c.ends)
				break
			}
		}
	}
}

const schema = `{
  "parser_settings": {"version": "omni.2.1", "file_format_type": "edi"},
  "file_declaration": {
    "segment_delimiter": "~",
    "element_delimiter": "*",
    "segment_declarations": [
      {"name": "A", "is_target": true, "max": -1, "elements": [{"name": "e1", "index": 1}]}
    ]
  },
  "transform_declarations": {"FINAL_OUTPUT": {"object": {"e1": {"xpath": "e1"}}}}
}`

func TestF16Transform(t *testing.T) {
	for _, in := range []string{"A*1~\xffQ*2~A*3~", "A*1~�Q*2~A*3~"} {
		s, err := omniparser.NewSchema("s", strings.NewReader(schema))
		if err != nil {
			t.Fatal(err)
		}
		tr, err := s.NewTransform("in", strings.NewReader(in), &transformctx.Ctx{})
		if err != nil {
			t.Fatal(err)
		}
		var log []string
		for i := 0; i < 10; i++ {
			b, err := tr.Read()
			if err == io.EOF {
				log = append(log, "EOF")
				break
			}
			if err != nil {
				log = append(log, "ERR: "+err.Error())
				break
			}
			log = append(log, string(b))
		}
		t.Logf("%q: %q", in, log)
		// The undeclared segment must not be skipped silently: an error is expected.
		if len(log) == 0 || !strings.HasPrefix(log[len(log)-1], "ERR: ") {
			t.Errorf("%q: undeclared segment silently skipped: %q", in, log)
		}
	}
}
