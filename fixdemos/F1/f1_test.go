package fixdemo

import (
	"io"
	"strings"
	"testing"

	"github.com/jf-tech/omniparser"
	"github.com/jf-tech/omniparser/errs"
	"github.com/jf-tech/omniparser/idr"
	"github.com/jf-tech/omniparser/transformctx"
)

const schema = `{
  "parser_settings": {"version": "omni.2.1", "file_format_type": "json"},
  "transform_declarations": {"FINAL_OUTPUT": {"object": {"a": {"xpath": "a"}}}}
}`

func TestF1Transform(t *testing.T) {
	for _, in := range []string{"{\"a\":1}\n{\"a\":2}", "1 2", "[1] [2]", "{\"a\":1} 7 8 9"} {
		s, err := omniparser.NewSchema("s", strings.NewReader(schema))
		if err != nil {
			t.Fatal(err)
		}
		tr, err := s.NewTransform("in", strings.NewReader(in), &transformctx.Ctx{})
		if err != nil {
			t.Fatal(err)
		}
		var sawFatal bool
		for i := 0; i < 10; i++ {
			b, err := tr.Read()
			t.Logf("%q read %d: %s, %v", in, i, b, err)
			if err != nil {
				if err == io.EOF {
					t.Fatalf("%q: EOF without fatal error", in)
				}
				if errs.IsErrTransformFailed(err) {
					t.Fatalf("%q: continuable error: %v", in, err)
				}
				sawFatal = true
			}
		}
		if !sawFatal {
			t.Fatalf("%q: no fatal error", in)
		}
	}
}

func TestF1Reader(t *testing.T) {
	for _, in := range []string{"{\"a\":1}\n{\"a\":2}", "1 2", "[1] [2] 3"} {
		r, err := idr.NewJSONStreamReader(strings.NewReader(in), ".")
		if err != nil {
			t.Fatal(err)
		}
		n, err := r.Read()
		if err != nil || n == nil {
			t.Fatalf("first read: %v %v", n, err)
		}
		sawErr := false
		for i := 0; i < 6; i++ {
			n, err = r.Read()
			t.Logf("%q read %d: %v %v", in, i, n, err)
			if n != nil {
				t.Fatalf("unexpected node")
			}
			if err == nil {
				t.Fatalf("nil, nil")
			}
			if err != io.EOF {
				sawErr = true
			}
		}
		if !sawErr {
			t.Fatal("no error")
		}
	}
}
