package fixdemo

import (
	"encoding/json"
	"strings"
	"testing"

	"github.com/jf-tech/omniparser"
	"github.com/jf-tech/omniparser/transformctx"
)

const withSibling = `{
  "parser_settings": {"version": "omni.2.1", "file_format_type": "xml"},
  "transform_declarations": {"FINAL_OUTPUT": {"xpath": "n", "object": {
     "a": {"array": [{"xpath": "x"}]},
     "b": {"xpath": "x", "object": {"c": {"xpath": "x"}}}
  }}}
}`
const withoutSibling = `{
  "parser_settings": {"version": "omni.2.1", "file_format_type": "xml"},
  "transform_declarations": {"FINAL_OUTPUT": {"xpath": "n", "object": {
     "b": {"xpath": "x", "object": {"c": {"xpath": "x"}}}
  }}}
}`

func run(t *testing.T, schema string) map[string]interface{} {
	s, err := omniparser.NewSchema("s", strings.NewReader(schema))
	if err != nil {
		t.Fatal(err)
	}
	tr, err := s.NewTransform("in", strings.NewReader(`<n><x>outer<x>inner</x></x></n>`), &transformctx.Ctx{})
	if err != nil {
		t.Fatal(err)
	}
	b, err := tr.Read()
	if err != nil {
		t.Fatal(err)
	}
	t.Logf("%s", b)
	var m map[string]interface{}
	if err := json.Unmarshal(b, &m); err != nil {
		t.Fatal(err)
	}
	return m
}

func TestF2(t *testing.T) {
	c1 := run(t, withSibling)["b"].(map[string]interface{})["c"]
	c2 := run(t, withoutSibling)["b"].(map[string]interface{})["c"]
	if c1 != c2 || c1 != "inner" {
		t.Fatalf("with sibling c=%v, without sibling c=%v, want inner", c1, c2)
	}
}
