package fixdemo

import (
	"errors"
	"io"
	"strings"
	"testing"

	"github.com/jf-tech/omniparser"
	"github.com/jf-tech/omniparser/errs"
	"github.com/jf-tech/omniparser/transformctx"
)

const schema = `{
  "parser_settings": {"version": "omni.2.1", "file_format_type": "csv"},
  "file_declaration": {"delimiter": ",", "data_row_index": 1, "columns": [{"name": "a"}, {"name": "b"}]},
  "transform_declarations": {"FINAL_OUTPUT": {"object": {"a": {"xpath": "a"}, "b": {"xpath": "b"}}}}
}`

type failAfter struct {
	r io.Reader
}

func (f *failAfter) Read(p []byte) (int, error) {
	n, err := f.r.Read(p)
	if err == io.EOF {
		return n, errors.New("disk on fire")
	}
	return n, err
}

func TestF10IOError(t *testing.T) {
	s, err := omniparser.NewSchema("s", strings.NewReader(schema))
	if err != nil {
		t.Fatal(err)
	}
	tr, err := s.NewTransform("in", &failAfter{strings.NewReader("1,2\n3,4\n5")}, &transformctx.Ctx{})
	if err != nil {
		t.Fatal(err)
	}
	var outs []string
	var fatal error
	for i := 0; i < 50; i++ {
		b, err := tr.Read()
		if err == nil {
			outs = append(outs, string(b))
			continue
		}
		t.Logf("read %d: %v", i, err)
		if err == io.EOF {
			t.Fatal("EOF despite I/O error")
		}
		if errs.IsErrTransformFailed(err) {
			continue
		}
		if fatal == nil {
			fatal = err
		} else if fatal != err {
			t.Fatalf("fatal error changed: %v vs %v", fatal, err)
		}
		if i > 10 {
			break
		}
	}
	if fatal == nil {
		t.Fatal("I/O error never reported as fatal: transform never terminates")
	}
	if got := strings.Join(outs, ""); got != `{"a":"1","b":"2"}{"a":"3","b":"4"}` {
		t.Fatalf("outs: %s", got)
	}
	if !strings.Contains(fatal.Error(), "failed to fetch record: disk on fire") {
		t.Fatalf("unexpected fatal: %v", fatal)
	}
}

// csv.ParseError remains continuable
func TestF10ParseErrorContinuable(t *testing.T) {
	s, err := omniparser.NewSchema("s", strings.NewReader(schema))
	if err != nil {
		t.Fatal(err)
	}
	tr, err := s.NewTransform("in", strings.NewReader("1,2\nx\"y,4\n5,6\n"), &transformctx.Ctx{})
	if err != nil {
		t.Fatal(err)
	}
	var log []string
	for {
		b, err := tr.Read()
		if err == io.EOF {
			break
		}
		if err != nil {
			if !errs.IsErrTransformFailed(err) {
				t.Fatalf("parse error not continuable: %v", err)
			}
			log = append(log, "ERR")
			continue
		}
		log = append(log, string(b))
	}
	if got := strings.Join(log, ""); got != `{"a":"1","b":"2"}ERR{"a":"5","b":"6"}` {
		t.Fatalf("log: %s", got)
	}
}
