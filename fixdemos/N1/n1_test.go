package fixdemo

import (
	"fmt"
	"strings"
	"testing"

	"github.com/jf-tech/omniparser"
)

func newSchema(s string) (sch omniparser.Schema, err error, panicked interface{}) {
	defer func() {
		if r := recover(); r != nil {
			panicked = r
		}
	}()
	sch, err = omniparser.NewSchema("demo", strings.NewReader(s))
	return
}

func TestN1(t *testing.T) {
	hdr := `{"parser_settings":{"version":"omni.2.1","file_format_type":"xml"},"transform_declarations":`
	for i, decls := range []string{
		`{"FINAL_OUTPUT":{"xpath_dynamic":{"array":[null]}}}`,
		`{"FINAL_OUTPUT":{"xpath_dynamic":{"object":{"a":null}}}}`,
		`{"FINAL_OUTPUT":{"xpath_dynamic":{"custom_func":{"name":"concat","args":[null]}}}}`,
		`{"FINAL_OUTPUT":{"xpath_dynamic":{"xpath_dynamic":null,"array":[null]}}}`,
		`{"FINAL_OUTPUT":{"template":"t"},"t":{"xpath_dynamic":{"array":[null]}}}`,
		`{"FINAL_OUTPUT":{"template":"t"},"t":{"xpath_dynamic":{"object":{"a":null}}}}`,
		`{"FINAL_OUTPUT":{"template":"t"},"t":{"xpath_dynamic":{"custom_func":{"name":"concat","args":[null]}}}}`,
		`{"FINAL_OUTPUT":{"object":{"x":{"xpath_dynamic":{"object":{"a":{"array":[null]}}}}}}}`,
	} {
		sch, err, p := newSchema(hdr + decls + "}")
		if p != nil {
			t.Errorf("case %d: NewSchema panicked: %v", i, p)
			continue
		}
		if err == nil || sch != nil {
			t.Errorf("case %d: expected (nil, err), got (%v, %v)", i, sch, err)
			continue
		}
		fmt.Printf("case %d: err: %v\n", i, err)
	}
}
