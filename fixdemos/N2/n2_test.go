package fixdemo

import (
	"fmt"
	"io"
	"strings"
	"testing"
	"time"

	"github.com/jf-tech/omniparser"
	"github.com/jf-tech/omniparser/transformctx"
)

// run returns a description of the outcome, or fails with "hang"/"panic".
func run(schema, input string) (outcome string, bad bool) {
	type res struct {
		s   string
		bad bool
	}
	ch := make(chan res, 1)
	go func() {
		defer func() {
			if r := recover(); r != nil {
				ch <- res{fmt.Sprintf("panic: %v", r), true}
			}
		}()
		sch, err := omniparser.NewSchema("demo", strings.NewReader(schema))
		if err != nil {
			ch <- res{"schema rejected: " + err.Error(), false}
			return
		}
		tr, err := sch.NewTransform("in", strings.NewReader(input), &transformctx.Ctx{})
		if err != nil {
			ch <- res{"NewTransform failed: " + err.Error(), false}
			return
		}
		n := 0
		for i := 0; i < 1000; i++ {
			b, err := tr.Read()
			if err == io.EOF {
				ch <- res{fmt.Sprintf("EOF after %d records", n), false}
				return
			}
			if err != nil {
				ch <- res{fmt.Sprintf("Read err after %d records: %v", n, err), false}
				return
			}
			_ = b
			n++
		}
		ch <- res{"1000 records out of a tiny input: Read never ends", true}
	}()
	select {
	case r := <-ch:
		return r.s, r.bad
	case <-time.After(5 * time.Second):
		return "hang: no result in 5s", true
	}
}

func TestN2(t *testing.T) {
	for _, num := range []string{"1e30", "1.0", "1E2", "9223372036854775808"} {
		for name, c := range map[string][2]string{
			"fixed-length by_rows": {`{"parser_settings":{"version":"omni.2.1","file_format_type":"fixed-length"},"file_declaration":{"envelopes":[{"by_rows":NUM,"columns":[{"name":"a","start_pos":1,"length":1}]}]},"transform_declarations":{"FINAL_OUTPUT":{"object":{"a":{"xpath":"a"}}}}}`, "abc\n"},
			"csv2 rows":            {`{"parser_settings":{"version":"omni.2.1","file_format_type":"csv2"},"file_declaration":{"delimiter":",","records":[{"rows":NUM}]},"transform_declarations":{"FINAL_OUTPUT":{"object":{"a":{"xpath":"a"}}}}}`, "a\n"},
			"fixedlength2 rows":    {`{"parser_settings":{"version":"omni.2.1","file_format_type":"fixedlength2"},"file_declaration":{"envelopes":[{"rows":NUM}]},"transform_declarations":{"FINAL_OUTPUT":{"object":{"a":{"xpath":"a"}}}}}`, "a\n"},
		} {
			outcome, bad := run(strings.Replace(c[0], "NUM", num, 1), c[1])
			if bad {
				t.Errorf("%s = %s: %s", name, num, outcome)
			} else {
				t.Logf("%s = %s: %s", name, num, outcome)
			}
		}
	}
}
