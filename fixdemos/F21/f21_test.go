package fixdemo

import (
	"io"
	"strings"
	"testing"

	"github.com/jf-tech/omniparser/idr"
)

type reader interface {
	Read() (*idr.Node, error)
	Release(*idr.Node)
}

func readAll(t *testing.T, r reader, jsonify func(*idr.Node) string) []string {
	t.Helper()
	var out []string
	for {
		n, err := r.Read()
		if err == io.EOF {
			return out
		}
		if err != nil {
			t.Fatalf("Read: %v", err)
		}
		out = append(out, jsonify(n))
		r.Release(n)
	}
}

func xmlTargets(t *testing.T, doc, xpath string) []string {
	t.Helper()
	r, err := idr.NewXMLStreamReader(strings.NewReader(doc), xpath)
	if err != nil {
		t.Fatalf("NewXMLStreamReader(%q): %v", xpath, err)
	}
	return readAll(t, r, func(n *idr.Node) string { return n.InnerText() })
}

func jsonTargets(t *testing.T, doc, xpath string) []string {
	t.Helper()
	r, err := idr.NewJSONStreamReader(strings.NewReader(doc), xpath)
	if err != nil {
		t.Fatalf("NewJSONStreamReader(%q): %v", xpath, err)
	}
	return readAll(t, r, func(n *idr.Node) string { return n.InnerText() })
}

func eq(a, b []string) bool { return strings.Join(a, "|") == strings.Join(b, "|") && len(a) == len(b) }

const xmlDoc = `<r><n><x>1</x><y>2</y></n><n><x>1</x><y>3</y></n><n><x>4</x><y>2</y></n></r>`

func TestXML(t *testing.T) {
	for _, tc := range []struct {
		xpath string
		want  []string
	}{
		{`/r/n`, []string{"12", "13", "42"}},             // zero predicate
		{`/r/n[x='1']`, []string{"12", "13"}},            // one predicate
		{`/r/n[x='1' and y='2']`, []string{"12"}},        // one combined predicate
		{`/r/n[x='1'][y='2']`, []string{"12"}},           // two predicates
		{`/r/n[x='1'] [y='2']`, []string{"12"}},          // two predicates, space in between
		{`/r/n[x][y='2'][x='4']`, []string{"42"}},        // three predicates
		{`/r/n[x=']'][y='2']`, nil},                      // bracket in quotes
		{`/r/n[x='1'][y='[2']`, nil},                     // bracket in quotes
		{`/r[n[x='1'][y='2']]/n[y='3']`, []string{"13"}}, // predicates not on the last step kept
	} {
		if got := xmlTargets(t, xmlDoc, tc.xpath); !eq(got, tc.want) {
			t.Errorf("xml %s: got %v, want %v", tc.xpath, got, tc.want)
		}
	}
}

const jsonDoc = `{"r":[{"x":"1","y":"2"},{"x":"1","y":"3"},{"x":"4","y":"2"}]}`

func TestJSON(t *testing.T) {
	for _, tc := range []struct {
		xpath string
		want  []string
	}{
		{`/r/*`, []string{"12", "13", "42"}},
		{`/r/*[x='1']`, []string{"12", "13"}},
		{`/r/*[x='1' and y='2']`, []string{"12"}},
		{`/r/*[x='1'][y='2']`, []string{"12"}},
		{`/r/*[x][y='2'][x='4']`, []string{"42"}},
	} {
		if got := jsonTargets(t, jsonDoc, tc.xpath); !eq(got, tc.want) {
			t.Errorf("json %s: got %v, want %v", tc.xpath, got, tc.want)
		}
	}
}
