package fixdemo
import ("testing";"strings";"io";"time";"github.com/jf-tech/omniparser";"github.com/jf-tech/omniparser/transformctx")
const schema = `{
 "parser_settings": {"version":"omni.2.1","file_format_type":"json"},
 "transform_declarations": {"FINAL_OUTPUT": {"xpath":"/*","object":{"v":{"array":[{"xpath":"b = '1'"}]}}}}}`
func TestX(t *testing.T) {
  s, err := omniparser.NewSchema("s", strings.NewReader(schema)); if err != nil { t.Fatal(err) }
  tr, err := s.NewTransform("in", strings.NewReader(`[{"b":"1"},{"b":"2"}]`), &transformctx.Ctx{}); if err != nil { t.Fatal(err) }
  done := make(chan string, 1)
  go func(){ b, err := tr.Read(); if err==io.EOF {done<-"EOF"} else if err!=nil {done<-err.Error()} else {done<-string(b)} }()
  select { case r := <-done: t.Log(r); case <-time.After(3*time.Second): t.Fatal("N11: Read did not return within 3s (array element xpath that is a boolean expression)") }
}
