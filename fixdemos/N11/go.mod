module fixdemo

go 1.16

require github.com/jf-tech/omniparser v0.0.0

replace github.com/jf-tech/omniparser => /repo
