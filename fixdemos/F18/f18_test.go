package fixdemo

import (
	"strings"
	"testing"

	"github.com/jf-tech/omniparser"
	"github.com/jf-tech/omniparser/transformctx"
)

const schema = `{"parser_settings": {"version": "omni.2.1", "file_format_type": "json"},
 "transform_declarations": {"FINAL_OUTPUT": {"xpath": "/*", "object": {
   "x": {"custom_func": {"name": "javascript", "args": [{"const": "v"}, {"const": "1", "type": "int"}, {"const": "a"}]}}}}}}`

func TestF18NonStringArgName(t *testing.T) {
	s, err := omniparser.NewSchema("s", strings.NewReader(schema))
	if err != nil {
		t.Skip("schema rejected (fine):", err)
	}
	tr, err := s.NewTransform("in", strings.NewReader(`[{"a":1}]`), &transformctx.Ctx{})
	if err != nil {
		t.Fatal(err)
	}
	defer func() {
		if r := recover(); r != nil {
			t.Fatalf("panic escaped Read: %v", r)
		}
	}()
	b, err := tr.Read()
	t.Logf("%s %v", b, err)
}
