package fixdemo

import (
	"testing"

	v21 "github.com/jf-tech/omniparser/extensions/omniv21/customfuncs"
)

// F17c: when setting the args fails half way (an arg named like a non-configurable global), the
// wipe must not remove a built-in that another arg of the same call is named after.
func TestF17cFailedArgSetKeepsBuiltins(t *testing.T) {
	for i := 0; i < 200; i++ {
		_, err := v21.JavaScript(nil, "1", "NaN", 1, "JSON", 2, "Math", 3)
		if err == nil {
			t.Fatalf("arg named NaN accepted")
		}
		if v, err := v21.JavaScript(nil, "typeof JSON + typeof Math"); err != nil || v != "objectobject" {
			t.Fatalf("built-in lost after a failed call: %v %v", v, err)
		}
	}
}
