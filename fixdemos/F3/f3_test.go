package fixdemo

import (
	"fmt"
	"strings"
	"testing"

	"github.com/jf-tech/omniparser"
	"github.com/jf-tech/omniparser/transformctx"
)

func TestF3(t *testing.T) {
	var elems, want []string
	for i := 1; i <= 12; i++ {
		elems = append(elems, fmt.Sprintf(`{"const": "%d"}`, i))
		want = append(want, fmt.Sprintf(`"%d"`, i))
	}
	schema := `{
  "parser_settings": {"version": "omni.2.1", "file_format_type": "xml"},
  "transform_declarations": {"FINAL_OUTPUT": {"xpath": "n", "object": {
     "arr": {"array": [` + strings.Join(elems, ",") + `]}
  }}}}`
	s, err := omniparser.NewSchema("s", strings.NewReader(schema))
	if err != nil {
		t.Fatal(err)
	}
	tr, err := s.NewTransform("in", strings.NewReader(`<n/>`), &transformctx.Ctx{})
	if err != nil {
		t.Fatal(err)
	}
	b, err := tr.Read()
	if err != nil {
		t.Fatal(err)
	}
	exp := `{"arr":[` + strings.Join(want, ",") + `]}`
	if string(b) != exp {
		t.Fatalf("got %s want %s", b, exp)
	}
}
