package fixdemo

import (
	"io"
	"strings"
	"testing"

	"github.com/jf-tech/omniparser/idr"
)

type rd interface {
	Read() (*idr.Node, error)
	Release(*idr.Node)
}

func readAll(t *testing.T, r rd) []string {
	var out []string
	for {
		n, err := r.Read()
		if err == io.EOF {
			return out
		}
		if err != nil {
			t.Fatal(err)
		}
		out = append(out, idr.JSONify2(n))
		r.Release(n)
	}
}

func TestF13XML(t *testing.T) {
	for _, c := range []struct {
		xpath, in string
		want      []string
	}{
		// outer <n> has no child x; it must not be delivered.
		{`//n[x='1']`, `<r><n><n><x>1</x></n></n></r>`, nil},
		{`//n[x='1']`, `<r><n><y>0</y><n><x>1</x></n></n><n><x>1</x><z>3</z></n></r>`, []string{`{"x":"1","z":"3"}`}},
		{`/r/n[x='1']`, `<r><n><x>2</x></n><n><x>1</x></n><n><w><n><x>1</x></n></w></n><n><x>1</x><y>k</y></n></r>`,
			[]string{`{"x":"1"}`, `{"x":"1","y":"k"}`}},
		{`/r/n[. != 'skip']`, `<r><n>a</n><n>skip</n><n>b</n></r>`, []string{`"a"`, `"b"`}},
		{`/r/n`, `<r><n>a</n><n>skip</n></r>`, []string{`"a"`, `"skip"`}},
	} {
		r, err := idr.NewXMLStreamReader(strings.NewReader(c.in), c.xpath)
		if err != nil {
			t.Fatal(err)
		}
		got := readAll(t, r)
		if strings.Join(got, "|") != strings.Join(c.want, "|") {
			t.Errorf("xml %s on %s: got %v want %v", c.xpath, c.in, got, c.want)
		}
	}
}

func TestF13JSON(t *testing.T) {
	for _, c := range []struct {
		xpath, in string
		want      []string
	}{
		{`//n[x='1']`, `{"n":{"n":{"x":"1"}}}`, nil},
		{`//n[x='1']`, `{"a":{"n":{"y":"0","n":{"x":"1"}}},"b":{"n":{"x":"1","z":"3"}}}`, []string{`{"x":"1","z":"3"}`}},
		{`/*[x='1']`, `[{"x":"2"},{"x":"1"},{"w":[{"x":"1"}]},{"x":"1","y":"k"}]`, []string{`{"x":"1"}`, `{"x":"1","y":"k"}`}},
		{`/*[. != 'skip']`, `["a","skip","b"]`, []string{`"a"`, `"b"`}},
	} {
		r, err := idr.NewJSONStreamReader(strings.NewReader(c.in), c.xpath)
		if err != nil {
			t.Fatal(err)
		}
		got := readAll(t, r)
		if strings.Join(got, "|") != strings.Join(c.want, "|") {
			t.Errorf("json %s on %s: got %v want %v", c.xpath, c.in, got, c.want)
		}
	}
}
