package fixdemo

import (
	"fmt"
	"io"
	"strings"
	"testing"
	"time"

	"github.com/jf-tech/omniparser"
	"github.com/jf-tech/omniparser/errs"
	"github.com/jf-tech/omniparser/transformctx"
)

func run(schema, input string) (outcome string, bad bool) {
	type res struct {
		s   string
		bad bool
	}
	ch := make(chan res, 1)
	go func() {
		defer func() {
			if r := recover(); r != nil {
				ch <- res{fmt.Sprintf("PANIC: %v", r), true}
			}
		}()
		sch, err := omniparser.NewSchema("demo", strings.NewReader(schema))
		if err != nil {
			ch <- res{"schema rejected: " + err.Error(), false}
			return
		}
		tr, err := sch.NewTransform("in", strings.NewReader(input), &transformctx.Ctx{})
		if err != nil {
			ch <- res{"NewTransform failed: " + err.Error(), false}
			return
		}
		var outs []string
		for i := 0; i < 1000; i++ {
			b, err := tr.Read()
			if err == io.EOF {
				ch <- res{strings.Join(append(outs, "EOF"), " | "), false}
				return
			}
			if err != nil && !errs.IsErrTransformFailed(err) {
				ch <- res{strings.Join(append(outs, "fatal err: "+err.Error()), " | "), false}
				return
			}
			if err != nil {
				outs = append(outs, "err: "+err.Error())
			} else {
				outs = append(outs, string(b))
			}
		}
		ch <- res{"1000 Reads out of a tiny input: Read never ends", true}
	}()
	select {
	case r := <-ch:
		return r.s, r.bad
	case <-time.After(5 * time.Second):
		return "HANG: no result in 5s", true
	}
}

func TestN6(t *testing.T) {
	for _, js := range []string{
		`({get a(){throw 1}})`,
		`({get a(){throw new Error('boom')}})`,
		`[{get a(){throw 'x'}}]`,
		`({get a(){return undefinedVar.x}})`,
		`new Proxy({}, {ownKeys(){throw 1}})`,
		`new Proxy({a:1}, {get(){throw 1}})`,
		// sanity: these must keep working
		`({get a(){return 1}})`,
		`({a:_node})`,
	} {
		for _, typ := range []string{``, `,"type":"int"`} {
			schema := `{"parser_settings":{"version":"omni.2.1","file_format_type":"xml"},"transform_declarations":{"FINAL_OUTPUT":{"xpath":"r/a","object":{"a":{"custom_func":{"name":"javascript_with_context","args":[{"const":"` +
				strings.ReplaceAll(js, `"`, `\"`) + `"}]}` + typ + `},"t":{"xpath":"."}}}}}`
			outcome, bad := run(schema, `<r><a>1</a><a>2</a></r>`)
			if bad {
				t.Errorf("%s %s: %s", js, typ, outcome)
			} else {
				t.Logf("%s %s: %s", js, typ, outcome)
			}
		}
	}
}
