package fixdemo

import (
	"io"
	"strings"
	"testing"

	"github.com/jf-tech/omniparser"
	"github.com/jf-tech/omniparser/transformctx"
)

// N9 (C03): before the fix the second, differently cased section was merged into the runtime
// declaration un-validated ("rows": 0) and Read on a two-line input never reached a terminal result.
const schemaN9 = `{
 "parser_settings": {"version":"omni.2.1","file_format_type":"csv2"},
 "file_declaration": {"delimiter":",","records":[{"name":"r","columns":[{"name":"a"}]}]},
 "FILE_DECLARATION": {"records":[{"name":"r","rows":0,"columns":[{"name":"a"}]}]},
 "transform_declarations": {"FINAL_OUTPUT": {"object":{"a":{"xpath":"a"}}}}
 }`

func TestN9(t *testing.T) {
	s, err := omniparser.NewSchema("s", strings.NewReader(schemaN9))
	if err != nil {
		t.Logf("rejected (repaired behaviour): %v", err)
		return
	}
	tr, err := s.NewTransform("in", strings.NewReader("x\ny\n"), &transformctx.Ctx{})
	if err != nil {
		t.Fatal(err)
	}
	for n := 0; n < 100; n++ {
		if _, err := tr.Read(); err == io.EOF {
			return
		}
	}
	t.Fatal("no terminal result within 100 Reads of a two-line input")
}
