package fixdemo

import (
	"testing"

	v21 "github.com/jf-tech/omniparser/extensions/omniv21/customfuncs"
)

// F17: an argument named like a built-in global (JSON, Math, ...) must not remove that built-in
// from the pooled VM for later calls.
func TestF17BuiltinArgName(t *testing.T) {
	for i := 0; i < 50; i++ {
		if v, err := v21.JavaScript(nil, "JSON", "JSON", "x"); err != nil || v != "x" {
			t.Fatalf("arg named JSON: %v %v", v, err)
		}
		if v, err := v21.JavaScript(nil, "Math + toString", "Math", "m", "toString", "t"); err != nil || v != "mt" {
			t.Fatalf("args named Math/toString: %v %v", v, err)
		}
	}
	for i := 0; i < 50; i++ {
		v, err := v21.JavaScript(nil, "JSON.stringify({a: Math.max(1, 2)}) + typeof toString")
		if err != nil || v != `{"a":2}function` {
			t.Fatalf("later call lost a built-in: %v %v", v, err)
		}
		v, err = v21.JavaScript(nil, "Object.keys(this).indexOf('JSON') + ':' + this.hasOwnProperty('toString')")
		if err != nil || v != "-1:false" {
			t.Fatalf("global object changed shape: %v %v", v, err)
		}
	}
}
