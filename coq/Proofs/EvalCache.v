(* C02 / C13 proofs: the transform cache is transparent.
   One lemma about the generic evaluator of Model/Eval.v (any node-ID type, any ID assignment,
   cache on or off): under the memo invariant it computes the memo-free denotation peval and
   re-establishes the invariant.  Everything else is a corollary. *)
From Coq Require Import String List ZArith NArith Bool Lia.
From Coq.Strings Require Import Byte.
Import ListNotations.
From OV Require Import Base.Bytes Base.Cases Base.Tree Gen.Conv Model.Value Model.XPathFrag Model.Decl Model.Eval.
From OV Require Import Proofs.EvalPure.

Section Cache.
  Variable root : tree.
  Variable query : bytes -> path -> option (list path).
  Variable ext : bytes -> option bytes.
  Variable fsigs : bytes -> option fsig.
  Variable fcall : bytes -> path -> list value -> cfres.
  Variable pcall : bytes -> path -> cfres.
  Variable K : Type.
  Variable K_eqb : K -> K -> bool.
  Variable nid : path -> K.
  Variable disable : bool.

  Variable V : path -> Prop.          (* the nodes of the record tree *)
  Variable top : vdecl.               (* the validated FINAL_OUTPUT *)

  (* with the cache on: ID comparison is equality, distinct nodes have distinct IDs *)
  Hypothesis Hkeys : disable = false ->
    (forall a b, K_eqb a b = true -> a = b) /\
    (forall p q, V p -> V q -> nid p = nid q -> p = q).
  (* the engine returns nodes of the tree *)
  Hypothesis query_V : forall x p ps, V p -> query x p = Some ps -> Forall V ps.
  Hypothesis top_wf : disable = false -> wf_b true top = true.

  Notation peval := (peval root query ext fsigs fcall pcall).
  Notation pcompile := (pcompile root query ext fsigs fcall pcall).
  Notation compile := (compile root query ext fsigs fcall pcall K K_eqb nid disable false).
  Notation memo := (memo K).
  Notation ev := (ev K).
  Notation comp := (comp K).

  Definition D (d : vdecl) : Prop := In d (subdecls top).

  (* every entry is the denotation of every declaration of the tree that can produce its key *)
  Definition memo_ok (m : memo) : Prop :=
    forall k h b v, memo_get K K_eqb (k, h, b) m = Some v ->
    forall d p, D d -> V p -> nid p = k -> e_hash (ei d) = h -> e_needed (ei d) = b ->
    peval d p = Ok v.

  Definition Inv (m : memo) : Prop := memo_ok m.

  Definition ev_ok (e : ev) (f : pev) : Prop :=
    forall p m, V p -> Inv m -> fst (e p m) = f p /\ Inv (snd (e p m)).

  Definition xd_ok (xd : option ev) (pxd : option pev) : Prop :=
    match xd, pxd with
    | Some e, Some f => ev_ok e f
    | None, None => True
    | _, _ => False
    end.

  Definition comp_ok (c : comp) (pc : pcomp) : Prop :=
    c_info c = pc_info pc /\ xd_ok (c_xdyn c) (pc_xdyn pc) /\ ev_ok (c_ev c) (pc_ev pc).

  Definition kids_ok (cs : list (bytes * comp)) (pcs : list (bytes * pcomp)) : Prop :=
    Forall2 (fun kc kp => fst kc = fst kp /\ comp_ok (snd kc) (snd kp)) cs pcs.

  Lemma compute_xpath_ok i xd pxd p m :
    xd_ok xd pxd -> V p -> Inv m ->
    fst (compute_xpath K i xd p m) = p_compute_xpath i pxd p /\ Inv (snd (compute_xpath K i xd p m)).
  Proof.
    intros Hxd Hv Hi. unfold compute_xpath, p_compute_xpath.
    destruct (static_xpath i); [split; [reflexivity|exact Hi]|].
    destruct xd as [e|], pxd as [f|]; simpl in Hxd; try contradiction.
    - destruct (Hxd p m Hv Hi) as [H1 H2]. destruct (e p m) as [r m']. simpl in *. subst. split; [reflexivity|exact H2].
    - split; [reflexivity|exact Hi].
  Qed.

  Lemma match_single_V x p n : V p -> match_single query x p = QNode n -> V n.
  Proof.
    intros Hv. unfold match_single. destruct (bytes_eqb x (bs ".")).
    - intro H. injection H as <-. exact Hv.
    - destruct (query x p) as [[|q [|q' r]]|] eqn:Q; try discriminate.
      intro H. injection H as <-. pose proof (query_V _ _ _ Hv Q) as HF. inversion HF. assumption.
  Qed.

  Lemma match_all_V x p ns : V p -> match_all query x p = Some ns -> Forall V ns.
  Proof.
    intros Hv. unfold match_all. destruct (bytes_eqb x (bs ".")).
    - intro H. injection H as <-. constructor; [exact Hv|constructor].
    - apply query_V. exact Hv.
  Qed.

  Lemma query_single_ok i xd pxd p m :
    xd_ok xd pxd -> V p -> Inv m ->
    fst (query_single query K i xd p m) = p_query_single query i pxd p
    /\ Inv (snd (query_single query K i xd p m))
    /\ (forall n, p_query_single query i pxd p = QNode n -> V n).
  Proof.
    intros Hxd Hv Hi. unfold query_single, p_query_single.
    destruct (negb (e_needed i)).
    - split; [reflexivity|]. split; [exact Hi|]. intros n H. injection H as <-. exact Hv.
    - destruct (compute_xpath_ok i xd pxd p m Hxd Hv Hi) as [H1 H2].
      destruct (compute_xpath K i xd p m) as [xr m']. simpl in *. rewrite <- H1.
      destruct xr; simpl; (split; [reflexivity|]); (split; [exact H2|]); try discriminate.
      intros n Hn. eapply match_single_V; eauto.
  Qed.

  Lemma anchored_ok i xd pxd body pbody :
    xd_ok xd pxd ->
    (forall n m, V n -> Inv m -> fst (body n m) = pbody n /\ Inv (snd (body n m))) ->
    ev_ok (anchored query K i xd body) (p_anchored query i pxd pbody).
  Proof.
    intros Hxd Hb p m Hv Hi. unfold anchored, p_anchored.
    destruct (query_single_ok i xd pxd p m Hxd Hv Hi) as (H1 & H2 & H3).
    destruct (query_single query K i xd p m) as [q m']. simpl in *. rewrite <- H1 in *.
    destruct q; simpl; try (split; [reflexivity|exact H2]).
    apply Hb; [apply H3; reflexivity|exact H2].
  Qed.

  Lemma object_loop_ok : forall cs pcs, kids_ok cs pcs ->
    forall n obj m, V n -> Inv m ->
    fst (object_loop K cs n obj m) = p_object_loop pcs n obj /\ Inv (snd (object_loop K cs n obj m)).
  Proof.
    induction 1 as [|[key c] [key' pc] cs pcs [Hk (Hci & _ & Hce)] _ IH]; intros n obj m Hv Hi; simpl in *.
    - split; [reflexivity|exact Hi].
    - subst key'. destruct (Hce n m Hv Hi) as [H1 H2]. destruct (c_ev c n m) as [rv m']. simpl in *.
      rewrite <- H1, <- Hci. destruct rv; try (split; [reflexivity|exact H2]).
      destruct (norm_of (c_info c) v); apply IH; assumption.
  Qed.

  Lemma nodes_loop_ok c pc : comp_ok c pc ->
    forall ns, Forall V ns -> forall acc m, Inv m ->
    fst (nodes_loop K c ns acc m) = p_nodes_loop pc ns acc /\ Inv (snd (nodes_loop K c ns acc m)).
  Proof.
    intros (Hci & _ & Hce). induction 1 as [|n ns Hn _ IH]; intros acc m Hi; simpl.
    - split; [reflexivity|exact Hi].
    - destruct (Hce n m Hn Hi) as [H1 H2]. destruct (c_ev c n m) as [rv m']. simpl in *.
      rewrite <- H1, <- Hci. destruct rv; try (split; [reflexivity|exact H2]).
      destruct (norm_of (c_info c) v); apply IH; assumption.
  Qed.

  Lemma array_loop_ok : forall cs pcs, kids_ok cs pcs ->
    forall p acc m, V p -> Inv m ->
    fst (array_loop query K cs p acc m) = p_array_loop query pcs p acc
    /\ Inv (snd (array_loop query K cs p acc m)).
  Proof.
    induction 1 as [|[key c] [key' pc] cs pcs [Hk Hc] _ IH]; intros p acc m Hv Hi; simpl in *.
    - split; [reflexivity|exact Hi].
    - pose proof Hc as (Hci & Hcx & Hce).
      destruct (compute_xpath_ok (c_info c) (c_xdyn c) (pc_xdyn pc) p m Hcx Hv Hi) as [H1 H2].
      destruct (compute_xpath K (c_info c) (c_xdyn c) p m) as [xr m1]. simpl in *.
      rewrite <- Hci, <- H1. destruct xr; try (split; [reflexivity|exact H2]).
      + destruct (match_all query x p) as [ns|] eqn:Q; [|split; [reflexivity|exact H2]].
        pose proof (match_all_V _ _ _ Hv Q) as Hns.
        destruct (nodes_loop_ok c pc Hc ns Hns acc m1 H2) as [H3 H4].
        destruct (nodes_loop K c ns acc m1) as [o m2]. simpl in *. rewrite <- H3.
        destruct o; [apply IH; assumption|split; [reflexivity|exact H4]].
      + apply IH; assumption.
  Qed.

  Lemma args_loop_ok s : forall cs pcs, kids_ok cs pcs ->
    forall i n acc m, V n -> Inv m ->
    fst (args_loop K s cs i n acc m) = p_args_loop s pcs i n acc /\ Inv (snd (args_loop K s cs i n acc m)).
  Proof.
    induction 1 as [|[key c] [key' pc] cs pcs [Hk (Hci & _ & Hce)] _ IH]; intros i n acc m Hv Hi; simpl in *.
    - split; [reflexivity|exact Hi].
    - destruct (Hce n m Hv Hi) as [H1 H2]. destruct (c_ev c n m) as [rv m']. simpl in *.
      rewrite <- H1. destruct rv; try (split; [reflexivity|exact H2]).
      destruct (arg_type s i); [|split; [reflexivity|exact H2]].
      destruct (is_nil v); [apply IH; assumption|].
      destruct (assignable v g); [apply IH; assumption|split; [reflexivity|exact H2]].
  Qed.

  Lemma kids_ok_length cs pcs : kids_ok cs pcs -> length cs = length pcs.
  Proof. induction 1; simpl; congruence. Qed.

  Lemma invoke_ok i cs pcs : kids_ok cs pcs ->
    forall n m, V n -> Inv m ->
    fst (invoke fsigs fcall K i cs n m) = p_invoke fsigs fcall i pcs n
    /\ Inv (snd (invoke fsigs fcall K i cs n m)).
  Proof.
    intros Hk n m Hv Hi. unfold invoke, p_invoke.
    destruct (p_fname (e_pub i)); [|split; [reflexivity|exact Hi]].
    destruct (fsigs b) as [s|]; [|split; [reflexivity|exact Hi]].
    rewrite (kids_ok_length _ _ Hk).
    destruct (_ || _); [split; [reflexivity|exact Hi]|].
    destruct (args_loop_ok s cs pcs Hk 0 n [] m Hv Hi) as [H1 H2].
    destruct (args_loop K s cs 0 n [] m) as [o m']. simpl in *. rewrite <- H1.
    destruct o; [|split; [reflexivity|exact H2]].
    destruct (fcall b n l); [split; [reflexivity|exact H2]|].
    destruct (p_ignore (e_pub i)); split; try reflexivity; exact H2.
  Qed.

  Lemma then_norm_ok i (rm : res * memo) r :
    fst rm = r /\ Inv (snd rm) ->
    fst (then_norm K i rm) = p_then_norm i r /\ Inv (snd (then_norm K i rm)).
  Proof.
    intros [H1 H2]. unfold then_norm, p_then_norm. rewrite H1.
    destruct r; simpl; (split; [try reflexivity; exact H1|exact H2]).
  Qed.

  Lemma dispatch_ok i xd pxd cs pcs :
    xd_ok xd pxd -> kids_ok cs pcs ->
    ev_ok (dispatch root query ext fsigs fcall pcall K i xd cs) (p_dispatch root query ext fsigs fcall pcall i pxd pcs).
  Proof.
    intros Hxd Hk. unfold dispatch, p_dispatch. destruct (p_kind (e_pub i)).
    - intros p m Hv Hi. destruct (p_const (e_pub i)); split; try reflexivity; exact Hi.
    - intros p m Hv Hi. destruct (p_external (e_pub i)); [|split; [reflexivity|exact Hi]].
      destruct (ext b); split; try reflexivity; exact Hi.
    - apply anchored_ok; [exact Hxd|]. intros n m Hv Hi.
      destruct (inner_text_at root n); split; try reflexivity; exact Hi.
    - apply anchored_ok; [exact Hxd|]. intros n m Hv Hi.
      apply then_norm_ok. apply object_loop_ok; assumption.
    - intros p m Hv Hi. apply then_norm_ok. apply array_loop_ok; assumption.
    - apply anchored_ok; [exact Hxd|]. intros n m Hv Hi.
      apply then_norm_ok. apply invoke_ok; assumption.
    - apply anchored_ok; [exact Hxd|]. intros n m Hv Hi.
      destruct (p_parse (e_pub i)); [|split; [reflexivity|exact Hi]].
      destruct (pcall b n); split; try reflexivity; exact Hi.
    - intros p m Hv Hi. split; [reflexivity|exact Hi].
  Qed.

  Lemma D_wf d : disable = false -> D d -> exists t, wf_b t d = true.
  Proof.
    intros Hdis Hd. destruct (wf_b_sub top true (top_wf Hdis) d Hd) as [->|H]; eauto.
  Qed.

  Lemma wf_hash d t : wf_b t d = true -> e_hash (ei d) = pub_of d.
  Proof.
    destruct d as [i x ks]. intro H. destruct (wf_b_inv _ _ _ _ H) as (_ & Hh & _). exact Hh.
  Qed.

  (* declarations of the tree that produce the same cache key denote the same function *)
  Lemma same_key_same_eval d1 d2 :
    disable = false -> D d1 -> D d2 -> e_hash (ei d1) = e_hash (ei d2) -> e_needed (ei d1) = e_needed (ei d2) ->
    forall p, peval d1 p = peval d2 p.
  Proof.
    intros Hdis H1 H2 Hh Hn p. destruct (D_wf _ Hdis H1) as [t1 W1]. destruct (D_wf _ Hdis H2) as [t2 W2].
    unfold EvalPure.peval.
    rewrite (same_pub_same_eval root query ext fsigs fcall pcall d1 d2 t1 t2 W1 W2); [reflexivity| |exact Hn].
    rewrite <- (wf_hash _ _ W1), <- (wf_hash _ _ W2). exact Hh.
  Qed.

  Lemma memo_get_cons k v m k0 :
    memo_get K K_eqb k0 ((k, v) :: m) = if mkey_eqb K K_eqb k0 k then Some v else memo_get K K_eqb k0 m.
  Proof. reflexivity. Qed.

  Lemma parse_node_ok d xd cs :
    D d ->
    ev_ok (dispatch root query ext fsigs fcall pcall K (ei d) xd cs) (peval d) ->
    ev_ok (parse_node root query ext fsigs fcall pcall K K_eqb nid disable false (ei d) xd cs) (peval d).
  Proof.
    intros Hd Hdisp p m Hv Hi. unfold parse_node.
    assert (Hcase : disable = true \/ disable = false) by (clear; destruct disable; auto).
    destruct Hcase as [Hdis|Hdis]; rewrite Hdis.
    - apply Hdisp; assumption.
    - destruct (Hkeys Hdis) as [Keq Ninj].
      assert (InvE : forall m0, Inv m0 <-> memo_ok m0).
      { intro m0. unfold Inv. tauto. }
      pose proof (proj1 (InvE m) Hi) as Hm.
      destruct (memo_get K K_eqb (nid p, e_hash (ei d), e_needed (ei d)) m) as [v|] eqn:G.
      + simpl. split; [|exact Hi]. symmetry. eapply Hm; eauto.
      + destruct (Hdisp p m Hv Hi) as [H1 H2]. apply InvE in H2.
        destruct (dispatch root query ext fsigs fcall pcall K (ei d) xd cs p m) as [r m'].
        simpl in H1, H2. destruct r as [v| |]; simpl; (split; [exact H1|]); apply InvE; try exact H2.
        (* the stored entry *)
        intros k h b v0 G0 d' p' Hd' Hv' Hk Hh Hb.
        rewrite memo_get_cons in G0.
        match type of G0 with (if ?c then _ else _) = _ => destruct c eqn:Q end.
        * injection G0 as <-. unfold mkey_eqb in Q.
          apply andb_prop in Q as [Q Qh]. apply andb_prop in Q as [Qk Qb].
          apply Keq in Qk. apply Bool.eqb_prop in Qb. apply pdecl_eqb_eq in Qh. subst k h b.
          assert (p' = p) as -> by (apply Ninj; assumption).
          rewrite (same_key_same_eval d' d Hdis Hd' Hd Hh Hb p). symmetry. exact H1.
        * eapply H2; eauto.
  Qed.

  (* the generic lemma *)
  Lemma compile_ok : forall d,
    (forall d', In d' (subdecls d) -> D d') -> comp_ok (compile d) (pcompile d).
  Proof.
    induction d as [i x ks IHx IHks] using vdecl_ind2. intro Hsub.
    assert (Hxd : xd_ok (match x with Some q => Some (c_ev (compile q)) | None => None end)
                        (match x with Some q => Some (pc_ev (pcompile q)) | None => None end)).
    { destruct x as [q|]; simpl; [|exact I]. apply IHx.
      intros d' Hin. apply Hsub. cbn [subdecls]. right. apply in_or_app. left. exact Hin. }
    assert (Hks : kids_ok (map (fun c => (kid_key (p_kind (v_pub i)) c, compile c)) ks)
                          (map (fun c => (kid_key (p_kind (v_pub i)) c, pcompile c)) ks)).
    { assert (Hsub' : forall c, In c ks -> forall d', In d' (subdecls c) -> D d').
      { intros c Hc d' Hin. apply Hsub. cbn [subdecls]. right. apply in_or_app. right.
        apply in_flat_map. exists c. split; assumption. }
      clear Hsub Hxd. unfold kids_ok. induction IHks as [|c r Hc _ IH]; simpl; constructor.
      - split; [reflexivity|]. apply Hc. apply Hsub'. left. reflexivity.
      - apply IH. intros c' Hc'. apply Hsub'. right. exact Hc'. }
    cbn [Eval.compile EvalPure.pcompile]. split; [reflexivity|]. split; [exact Hxd|].
    cbn [c_ev pc_ev].
    change (einfo_of i (is_some x)) with (ei (VD i x ks)).
    apply parse_node_ok.
    - apply Hsub. cbn [subdecls]. left. reflexivity.
    - change (EvalPure.peval root query ext fsigs fcall pcall (VD i x ks))
        with (p_dispatch root query ext fsigs fcall pcall (ei (VD i x ks))
                (match x with Some q => Some (pc_ev (pcompile q)) | None => None end)
                (map (fun c => (kid_key (p_kind (v_pub i)) c, pcompile c)) ks)).
      apply dispatch_ok; assumption.
  Qed.

  (* the evaluator, started on any declaration of the tree at any node with any memo satisfying
     the invariant, returns the memo-free denotation and a memo satisfying the invariant *)
  Theorem eval_denotes : forall d p m, D d -> V p -> Inv m ->
    fst (eval root query ext fsigs fcall pcall K K_eqb nid disable false d p m) = peval d p
    /\ Inv (snd (eval root query ext fsigs fcall pcall K K_eqb nid disable false d p m)).
  Proof.
    intros d p m Hd Hv Hi. unfold eval.
    assert (Hsub : forall d', In d' (subdecls d) -> D d').
    { intros d' Hin. unfold D in *. clear - Hd Hin. revert d' Hin.
      (* subdecls is transitively closed *)
      assert (T : forall a b, In b (subdecls a) -> forall c, In c (subdecls b) -> In c (subdecls a)).
      { induction a as [i x ks IHx IHks] using vdecl_ind2. intros b Hb c Hc.
        cbn [subdecls] in Hb. destruct Hb as [<-|Hb]; [exact Hc|].
        cbn [subdecls]. right. apply in_app_or in Hb as [Hb|Hb]; apply in_or_app.
        - left. destruct x as [q|]; [|contradiction]. eapply IHx; eauto.
        - right. apply in_flat_map in Hb as (k & Hk & Hb). apply in_flat_map. exists k. split; [exact Hk|].
          rewrite Forall_forall in IHks. eapply IHks; eauto. }
      intros d' Hin. eapply T; eauto. }
    destruct (compile_ok d Hsub) as (_ & _ & He). apply He; assumption.
  Qed.
End Cache.

(* ---- corollaries, stated over Model definitions only ------------------------------------------ *)
Section Corollaries.
  Variable root : tree.
  Variable query : bytes -> path -> option (list path).
  Variable ext : bytes -> option bytes.
  Variable fsigs : bytes -> option fsig.
  Variable fcall : bytes -> path -> list value -> cfres.
  Variable pcall : bytes -> path -> cfres.
  Variable V : path -> Prop.
  Variable top : vdecl.
  Hypothesis query_V : forall x p ps, V p -> query x p = Some ps -> Forall V ps.
  Hypothesis top_wf : wf_b true top = true.

  Notation peval := (peval root query ext fsigs fcall pcall).
  Notation eval_nocache := (eval_nocache root query ext fsigs fcall pcall).

  (* cache off = the memo-free denotation *)
  Lemma nocache_denotes d p : In d (subdecls top) -> V p -> eval_nocache d p = peval d p.
  Proof.
    intros Hd Hv. unfold Eval.eval_nocache.
    refine (proj1 (eval_denotes root query ext fsigs fcall pcall unit (fun _ _ => true) (fun _ => tt) true
                     V top _ query_V (fun _ => top_wf) d p [] Hd Hv _)).
    - intro H. discriminate.
    - intros k h b v G. discriminate.
  Qed.

  (* the invariant of the transform cache, in terms of the uncached evaluation: every entry is
     what each declaration of the tree that can produce its key evaluates to at that node *)
  Definition memo_sound {K} (K_eqb : K -> K -> bool) (nid : path -> K) (m : memo K) : Prop :=
    forall k h b v, memo_get K K_eqb (k, h, b) m = Some v ->
    forall d p, In d (subdecls top) -> V p -> nid p = k -> e_hash (ei d) = h -> e_needed (ei d) = b ->
    eval_nocache d p = Ok v.

  Lemma memo_sound_ok {K} (K_eqb : K -> K -> bool) (nid : path -> K) (m : memo K) :
    memo_sound K_eqb nid m <-> memo_ok root query ext fsigs fcall pcall K K_eqb nid V top m.
  Proof.
    unfold memo_sound, memo_ok, D. split; intros H k h b v G d p Hd Hv Hk Hh Hb.
    - rewrite <- (nocache_denotes d p Hd Hv). eapply H; eauto.
    - rewrite (nocache_denotes d p Hd Hv). eapply H; eauto.
  Qed.

  (* C13, evaluator part: the transform cache on / off / with any sound contents is invisible *)
  Theorem caches_invisible_eval :
    forall (K : Type) (K_eqb : K -> K -> bool) (nid : path -> K) (disable : bool),
    (disable = false ->
       (forall a b, K_eqb a b = true -> a = b) /\
       (forall p q, V p -> V q -> nid p = nid q -> p = q)) ->
    forall d p m, In d (subdecls top) -> V p -> memo_sound K_eqb nid m ->
    fst (eval root query ext fsigs fcall pcall K K_eqb nid disable false d p m) = eval_nocache d p
    /\ memo_sound K_eqb nid (snd (eval root query ext fsigs fcall pcall K K_eqb nid disable false d p m)).
  Proof.
    intros K K_eqb nid disable Hkeys d p m Hd Hv Hm.
    apply memo_sound_ok in Hm.
    destruct (eval_denotes root query ext fsigs fcall pcall K K_eqb nid disable V top Hkeys query_V (fun _ => top_wf) d p m Hd Hv Hm)
      as [H1 H2].
    split; [rewrite H1; symmetry; apply nocache_denotes; assumption|].
    apply memo_sound_ok. exact H2.
  Qed.

  Lemma memo_sound_nil {K} (K_eqb : K -> K -> bool) (nid : path -> K) : memo_sound K_eqb nid [].
  Proof. intros k h b v G. discriminate. Qed.

  (* C02: a fresh ParseCtx (empty cache) with the cache on computes what the cache-off run does *)
  Theorem eval_cache_transparent :
    forall (K : Type) (K_eqb : K -> K -> bool) (nid : path -> K),
    (forall a b, K_eqb a b = true -> a = b) ->
    (forall p q, V p -> V q -> nid p = nid q -> p = q) ->
    forall d p, In d (subdecls top) -> V p ->
    fst (eval_cached root query ext fsigs fcall pcall K_eqb nid d p []) = eval_nocache d p.
  Proof.
    intros K K_eqb nid Keq Ninj d p Hd Hv. unfold eval_cached.
    apply (caches_invisible_eval K K_eqb nid false (fun _ => conj Keq Ninj) d p [] Hd Hv).
    apply memo_sound_nil.
  Qed.

  (* the result does not depend on which (pairwise distinct) IDs the nodes carry *)
  Theorem eval_id_renaming :
    forall (K K' : Type) (K_eqb : K -> K -> bool) (K_eqb' : K' -> K' -> bool) (nid : path -> K) (nid' : path -> K'),
    (forall a b, K_eqb a b = true -> a = b) -> (forall a b, K_eqb' a b = true -> a = b) ->
    (forall p q, V p -> V q -> nid p = nid q -> p = q) ->
    (forall p q, V p -> V q -> nid' p = nid' q -> p = q) ->
    forall d p, In d (subdecls top) -> V p ->
    fst (eval_cached root query ext fsigs fcall pcall K_eqb nid d p [])
    = fst (eval_cached root query ext fsigs fcall pcall K_eqb' nid' d p []).
  Proof.
    intros. rewrite !eval_cache_transparent by assumption. reflexivity.
  Qed.
End Corollaries.

(* cache off = the memo-free denotation, for ANY tree, declaration and node *)
Lemma nocache_peval root query ext fsigs fcall pcall d p :
  eval_nocache root query ext fsigs fcall pcall d p = peval root query ext fsigs fcall pcall d p.
Proof.
  unfold Eval.eval_nocache.
  refine (proj1 (eval_denotes root query ext fsigs fcall pcall unit (fun _ _ => true) (fun _ => tt) true
                   (fun _ => True) d _ _ _ d p [] _ I _)).
  - intro H. discriminate.
  - intros x q ps _ _. apply Forall_forall. intros; exact I.
  - intro H. discriminate.
  - destruct d. cbn [subdecls]. left. reflexivity.
  - intros k h b v G. discriminate.
Qed.
