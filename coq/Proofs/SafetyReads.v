(* C03 composition: a reader every non-terminal Read of which consumes at least one input unit
   reaches a terminal result within units(input) + 1 Reads; on the Transform (Model/Latch.v) that
   result is then returned by every later call without consulting the ingester again. *)
From Coq Require Import List Arith NArith Bool Lia.
Import ListNotations.
From OV Require Import Base.ErrClass Model.Latch Proofs.Latch Model.Safety.

Section GenericReads.
  Variable R : Type.
  Variable rd : R -> R * bool.
  Variable units : R -> nat.
  (* discharged per reader by its <reader>_progress lemma *)
  Hypothesis progress : forall r, snd (rd r) = false -> units (fst (rd r)) < units r.

  Lemma reads_bound_generic : forall fuel r, units r < fuel ->
    exists n, reads_to_terminal R rd fuel r = Some n /\ 1 <= n <= units r + 1.
  Proof.
    induction fuel as [|k IH]; intros r Hf; [lia|].
    cbn [reads_to_terminal]. pose proof (progress r) as Hp.
    destruct (rd r) as [r' term]. cbn [fst snd] in Hp. destruct term.
    - exists 1. split; [reflexivity|lia].
    - specialize (Hp eq_refl). destruct (IH r') as (n&Hn&Hb); [lia|].
      rewrite Hn. exists (S n). split; [reflexivity|lia].
  Qed.
End GenericReads.

Section TransformReads.
  Variable S : Type.
  Variable ing_step : S -> S * (option N * option N * option errv).
  Variable ing_cont : S -> errv -> bool.
  Variable units : S -> nat.
  Notation read := (read S ing_step ing_cont).
  Notation do_read := (do_read S ing_step ing_cont).
  Notation run := (run S ing_step ing_cont).

  Definition out_terminal (o : out) : bool :=
    match o with OutRead _ (Some e) => negb (is_failed e) | _ => false end.

  (* every ingester Read whose result the transform does not treat as terminal (a record, or an
     error reported as ErrTransformFailed) consumed at least one unit of the remaining input *)
  Hypothesis progress : forall s,
    out_terminal (snd (do_read s)) = false -> units (snd (fst (do_read s))) < units s.

  (* outputs of do_read carry no bytes next to an error *)
  Lemma do_read_terminal s : out_terminal (snd (do_read s)) = true ->
    exists e, is_terminal (snd (do_read s)) e.
  Proof.
    destruct (do_read s) as [st' o] eqn:E. cbn [snd]. intro H.
    apply do_read_inv in E as (s1&raw&b&err&_&Hd).
    destruct err as [e0|]; cbn zeta in Hd; destruct Hd as [-> _]; simpl in H; [|discriminate].
    eexists. split; [reflexivity|]. destruct (is_failed _); [discriminate|reflexivity].
  Qed.

  (* a transform state that has not latched a terminal error reads through to the ingester *)
  Definition live (ts : tstate) : Prop :=
    match lastErr ts with Some e => is_failed e = true | None => True end.

  Lemma read_live ts s : live ts -> read (ts, s) = do_read s.
  Proof.
    unfold live. rewrite read_unfold. destruct (lastErr ts) as [e|]; [intros ->|]; reflexivity.
  Qed.

  Lemma do_read_live s : out_terminal (snd (do_read s)) = false -> live (fst (fst (do_read s))).
  Proof.
    destruct (do_read s) as [st' o] eqn:E. cbn [fst snd]. intro H.
    apply do_read_inv in E as (s1&raw&b&err&_&Hd).
    destruct err as [e0|]; cbn zeta in Hd; destruct Hd as [-> ->]; unfold live; simpl in *; [|exact I].
    destruct (is_failed _); [reflexivity|discriminate].
  Qed.

  Theorem read_terminates_bound_lemma : forall n ts s, live ts -> units s <= n ->
    exists k e, k <= units s /\
      let st1 := fst (run (ts, s) (repeat OpRead k)) in
      is_terminal (snd (read st1)) e /\
      Forall (fun o => out_terminal o = false) (snd (run (ts, s) (repeat OpRead k))) /\
      forall ops2, run (ts, s) (repeat OpRead k ++ OpRead :: ops2) =
        (fst (read st1), snd (run (ts, s) (repeat OpRead k)) ++ snd (read st1) :: map (sticky_out e) ops2).
  Proof.
    induction n as [|n IH]; intros ts s Hl Hu.
    - (* no unit left: the next Read must be terminal *)
      destruct (out_terminal (snd (do_read s))) eqn:Et.
      + destruct (do_read_terminal s Et) as [e He]. exists 0, e. cbn [repeat Latch.run fst snd app].
        rewrite (read_live ts s Hl). split; [lia|]. split; [exact He|]. split; [constructor|].
        intro ops2. pose proof (latch_terminal_sticky S ing_step ing_cont (ts, s) [] ops2 e) as Hs.
        cbn [Latch.run fst snd app] in Hs. rewrite (read_live ts s Hl) in Hs. exact (Hs He).
      + pose proof (progress s Et). lia.
    - destruct (out_terminal (snd (do_read s))) eqn:Et.
      + destruct (do_read_terminal s Et) as [e He]. exists 0, e. cbn [repeat Latch.run fst snd app].
        rewrite (read_live ts s Hl). split; [lia|]. split; [exact He|]. split; [constructor|].
        intro ops2. pose proof (latch_terminal_sticky S ing_step ing_cont (ts, s) [] ops2 e) as Hs.
        cbn [Latch.run fst snd app] in Hs. rewrite (read_live ts s Hl) in Hs. exact (Hs He).
      + pose proof (progress s Et) as Hp. pose proof (do_read_live s Et) as Hl'.
        destruct (do_read s) as [[ts' s'] o] eqn:Ed. cbn [fst snd] in *.
        destruct (IH ts' s' Hl' ltac:(lia)) as (k&e&Hk&Hterm&Hall&Hst).
        exists (Datatypes.S k), e. split; [lia|].
        cbn [repeat Latch.run Latch.step app]. rewrite (read_live ts s Hl), Ed.
        destruct (run (ts', s') (repeat OpRead k)) as [st2 outs] eqn:Er. cbn [fst snd] in *.
        split; [exact Hterm|]. split; [constructor; assumption|].
        intro ops2. specialize (Hst ops2). cbn [app] in Hst |- *.
        rewrite Hst. reflexivity.
  Qed.
End TransformReads.
