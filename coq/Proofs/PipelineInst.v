(* A small concrete evaluator with an ID-keyed node-JSON cache, used (1) to show that the
   hypotheses of the pipeline theorems are jointly satisfiable by a non-trivial instance (a cache
   that is really consulted and filled, records that fail), and (2) as the faithful miniature of
   DESIGN section 6 F6: the same evaluator asked to JSONify the ROOT (an ancestor of the streamed
   records, whose content changes under a constant ID) makes the cache visible. *)
From Coq Require Import List NArith Bool Arith Lia.
From Coq.Strings Require Import Byte.
Import ListNotations.
From OV Require Import Base.Bytes Base.Cases Base.Tree Model.Pipeline Proofs.Pipeline Proofs.PipelineCache.

(* schema: which node javascript_with_context is applied to *)
Inductive tschema := OnRecord | OnRoot.

(* caches: customfuncs.disableCaching, NodeToJSONCache (node ID -> JSON; any capacity) *)
Definition tcache := (bool * lcache N bytes)%type.
Definition tc0 : tcache := (false, mkLC None []).

(* what the JSON of the chosen node shows: the record's text (the root's content is its current
   child, the record) followed by the context's text *)
Definition tcontent (w : world) : bytes := inner_text (w_rec w) ++ flat_map inner_text (w_ctx w).

Definition tkey (s : tschema) (w : world) : option N :=
  match s with
  | OnRoot => Some (w_root w)
  | OnRecord => match w_rec_ids w with i :: _ => Some i | [] => None end
  end.

(* getNodeJSON (javascript.go:58-66, Model/Pipeline.v get_node_json) + a script returning _node;
   an empty text fails the record *)
Definition teval (m : bool) (c : tcache) (s : tschema) (w : world) : option bytes * tcache :=
  let fin (v : bytes) := match inner_text (w_rec w) with [] => None | _ => Some v end in
  match tkey s w with
  | None => (fin (tcontent w), c)
  | Some k => let '(j, lc') := get_node_json (fst c) k (tcontent w) (snd c) in (fin j, (fst c, lc'))
  end.

Definition tCInv (used : list N) (c : tcache) : Prop :=
  forall k v, In (k, v) (lc_entries (snd c)) -> In k used.
Definition tguard (s : tschema) : Prop := s = OnRecord.

Lemma lc_find_None k (l : list (N * bytes)) :
  (forall v, ~ In (k, v) l) -> lc_find N bytes N.eqb k l = None.
Proof.
  induction l as [|[k' v'] r IH]; intros Hn; simpl; [reflexivity|].
  destruct (N.eqb_spec k k') as [->|Hne].
  - exfalso. apply (Hn v'). now left.
  - rewrite IH; [reflexivity|]. intros v Hv. apply (Hn v). now right.
Qed.

Lemma t_CInv_mono : forall used used' c,
  (forall x, In x used -> In x used') -> tCInv used c -> tCInv used' c.
Proof. intros used used' c Hs Hc k v Hk. apply Hs. eapply Hc; eauto. Qed.

Lemma t_cache_transparent : forall c s w, fst (teval true c s w) = fst (teval false c s w).
Proof. reflexivity. Qed.

Lemma t_id_renaming : forall (f : N -> N) m s w,
  (forall x y, In x (w_ids w) -> In y (w_ids w) -> f x = f y -> x = y) ->
  fst (teval m tc0 s (w_rename f w)) = fst (teval m tc0 s w).
Proof.
  intros f m s w _. unfold teval, tc0. simpl.
  destruct s; simpl.
  - destruct (w_rec_ids w); simpl; reflexivity.
  - reflexivity.
Qed.

Lemma t_caches_sound : forall used c m s w,
  tCInv used c -> (forall i, In i (w_rec_ids w) -> ~ In i used) -> tguard s ->
  fst (teval m c s w) = fst (teval m tc0 s w) /\ tCInv (w_rec_ids w ++ used) (snd (teval m c s w)).
Proof.
  intros used [off lc] m s w Hc Hfresh ->. unfold teval, tc0, tCInv in *. simpl in *.
  destruct (w_rec_ids w) as [|i l] eqn:Ei; simpl.
  - split; [reflexivity|]. exact Hc.
  - unfold get_node_json. destruct off; simpl.
    + split; [reflexivity|]. intros k v Hk. right. apply in_or_app. right. eauto.
    + assert (Hl : lc_find N bytes N.eqb i (lc_entries lc) = None).
      { apply lc_find_None. intros v Hv. apply (Hfresh i); [now left|]. eauto. }
      unfold lc_get. rewrite Hl. simpl. split; [reflexivity|].
      intros k v Hk. apply lc_trim_In in Hk. destruct Hk as [E|Hk].
      * inversion E; subst. now left.
      * right. apply in_or_app. right. eauto.
Qed.

(* ---- a concrete transform ------------------------------------------------------------------------ *)
Definition leaf (b : byte) : tree := T ElementNode [x6e] FNone [T TextNode [b] FNone []].
Definition empty_rec : tree := T ElementNode [x6e] FNone [].
Definition t_ctx : list tree := [T ElementNode [x68] FNone [T TextNode [x48] FNone []]].
Definition t_units : list runit := [URec (leaf x31); URec empty_rec; UFail; URec (leaf x32); URec (leaf x31)].

(* two hidden states: a fresh process, and a warmed-up one (counter advanced, nodes in the pool,
   a schedule of sync.Pool choices, memo off, a filled node-JSON cache of capacity ONE), and one
   with pooling and the JS caches switched off *)
Definition h_fresh : hid tcache := mkHid (mkA 0%N [] true []) true tc0.
Definition h_warm : hid tcache :=
  mkHid (mkA 9%N [5%N; 3%N; 8%N] true [1; 7; 0; 0; 2]) false (false, mkLC (Some 1) [(2%N, [x7a])]).
Definition h_off : hid tcache := mkHid (mkA 4%N [] false []) true (true, mkLC None []).

Lemma Inv_h_fresh : Inv tcache tCInv h_fresh.
Proof.
  exists []. split.
  - repeat split; simpl; try constructor. intros i [].
  - intros k v [].
Qed.

Lemma Inv_h_warm : Inv tcache tCInv h_warm.
Proof.
  exists [2%N; 7%N]. split.
  - unfold AInv; simpl. split; [|split; [|split]].
    + repeat constructor; simpl; intuition congruence.
    + repeat constructor; simpl; lia.
    + repeat constructor; simpl; lia.
    + intros i [<-|[<-|[]]]; simpl; intuition congruence.
  - intros k v [E|[]]; inversion E; subst; simpl; auto.
Qed.

Lemma Inv_h_off : Inv tcache tCInv h_off.
Proof.
  exists []. split.
  - repeat split; simpl; try constructor. intros i [].
  - intros k v [].
Qed.

Definition t_run := run_env tschema bytes tcache teval (fun v => Some v) true (fun b => b) inner_text.

(* the instance is not degenerate: records succeed and fail, equal records give equal results,
   and the warmed-up state really differs from the fresh one *)
Example t_run_value :
  t_run h_fresh OnRecord t_ctx t_units =
    [RRec [x31; x48] [x31]; RFail; RFail; RRec [x32; x48] [x32]; RRec [x31; x48] [x31]].
Proof. vm_compute. reflexivity. Qed.

Example t_run_warm_same : t_run h_warm OnRecord t_ctx t_units = t_run h_fresh OnRecord t_ctx t_units.
Proof. vm_compute. reflexivity. Qed.

(* F6 in miniature: javascript_with_context on the root.  With the JS caches on, every record
   sees the JSON of the root as it was when the first record was current; with the caches off
   each record sees the current content. *)
Lemma t_root_cache_visible :
  t_run h_fresh OnRoot t_ctx [URec (leaf x31); URec (leaf x32)] <>
  t_run h_off OnRoot t_ctx [URec (leaf x31); URec (leaf x32)].
Proof. vm_compute. discriminate. Qed.

(* ---- F29 in miniature: a script that creates a global binding ------------------------------------- *)
(* `var c = (typeof c === 'undefined' ? 0 : c) + 1; c` : the pooled VM keeps the global c between
   calls (execProgram only deletes the call's ARGS), a fresh VM does not.  Cache state: the
   disableCaching switch and the value of c in the one pooled VM.  Every hypothesis of the
   pipeline theorems except eval_caches_sound holds (memo switch and node IDs are ignored); the
   results differ between JS caching on and off.  C20's model excludes such scripts by type
   (scripts are functions of the visible globals and cannot write them): that exclusion is the
   F29 guard "scripts create no global bindings". *)
Definition gcache := (bool * N)%type.          (* disableCaching, the pooled VM's global c *)
Definition gc0 : gcache := (false, 0%N).
Definition byte_of_count (n : N) : bytes := [byte_of_N (48 + n)].
Definition geval (m : bool) (c : gcache) (s : tschema) (w : world) : option bytes * gcache :=
  if fst c then (Some (byte_of_count 1), c)
  else (Some (byte_of_count (snd c + 1)), (false, (snd c + 1)%N)).

Definition g_run := run_env tschema bytes gcache geval (fun v => Some v) true (fun b => b) inner_text.
Definition hg_on : hid gcache := mkHid (mkA 0%N [] true []) true (false, 0%N).
Definition hg_off : hid gcache := mkHid (mkA 0%N [] true []) true (true, 0%N).

Lemma g_cache_transparent : forall s w, fst (geval true gc0 s w) = fst (geval false gc0 s w).
Proof. reflexivity. Qed.
Lemma g_id_renaming : forall (f : N -> N) m s w, fst (geval m gc0 s (w_rename f w)) = fst (geval m gc0 s w).
Proof. reflexivity. Qed.

Lemma g_pool_visible :
  g_run hg_on OnRecord [] [URec (leaf x31); URec (leaf x32); URec (leaf x33)] <>
  g_run hg_off OnRecord [] [URec (leaf x31); URec (leaf x32); URec (leaf x33)].
Proof. vm_compute. discriminate. Qed.

Example g_run_values :
  g_run hg_on OnRecord [] [URec (leaf x31); URec (leaf x32); URec (leaf x33)]
    = [RRec [x31] [x31]; RRec [x32] [x32]; RRec [x33] [x33]] /\
  g_run hg_off OnRecord [] [URec (leaf x31); URec (leaf x32); URec (leaf x33)]
    = [RRec [x31] [x31]; RRec [x31] [x32]; RRec [x31] [x33]].
Proof. split; vm_compute; reflexivity. Qed.
