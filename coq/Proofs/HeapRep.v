(* C12 proofs, part 5: the representation invariant Rep and its preservation by create and
   AddChild. *)
From Coq Require Import List NArith ZArith Bool Lia.
From stdpp Require Import pmap.
From OV Require Import Base.Bytes Base.Cases Base.Tree Model.Heap
  Proofs.HeapIds Proofs.HeapTree Proofs.HeapOps Proofs.HeapPath.
Import ListNotations.

(* The state s represents the ordered forest F of live trees:
   - every tree of F is laid out in the heap with mutually consistent links (tree_ok), roots have
     no parent and no siblings;
   - live and pooled addresses are pairwise distinct (acyclic, unshared, no pooled node is live,
     no node is pooled twice);
   - pooled nodes are blank;
   - the allocator has not handed out next_addr or anything above it;
   - IDs never exceed the counter, and live and pooled nodes carry pairwise distinct IDs. *)
Record Rep (caching : bool) (s : st) (F : forest) : Prop := mkRep {
  R_links : Forall (tree_ok (heap s) None None None) F;
  R_nodup : NoDup (addrs_f F ++ pool s);
  R_blank : forall a, a ∈ pool s -> exists id, heap s !! a = Some (blank id);
  R_bound : forall a, a ∈ addrs_f F ++ pool s -> (a < next_addr s)%positive;
  R_dom : forall a, (next_addr s <= a)%positive -> heap s !! a = None;
  R_idle : forall a x, heap s !! a = Some x -> (n_id x <= next_id s)%Z;
  R_ids : NoDup (map (id_of (heap s)) (addrs_f F ++ pool s));
  R_nocache : caching = false -> pool s = [] }.

(* IDs observed at hand-out so far *)
Definition AcqInv (s : st) (acq : list Z) : Prop :=
  NoDup acq /\ (forall i, i ∈ acq -> (i <= next_id s)%Z) /\
  (forall a, a ∈ pool s -> id_of (heap s) a ∉ acq).

Lemma rep_init caching : Rep caching init [].
Proof.
  split; simpl.
  - constructor.
  - constructor.
  - intros a Ha. inversion Ha.
  - intros a Ha. inversion Ha.
  - intros a _. apply lookup_empty.
  - intros a x H. rewrite lookup_empty in H. discriminate.
  - constructor.
  - reflexivity.
Qed.

Lemma mem_spec a l : mem a l = true <-> a ∈ l.
Proof.
  unfold mem. rewrite existsb_exists. split.
  - intros [x [Hx E]]. apply Pos.eqb_eq in E. subst. apply elem_of_list_In. exact Hx.
  - intros H. exists a. split; [apply elem_of_list_In; exact H|apply Pos.eqb_refl].
Qed.

Lemma addrs_f_app F G : addrs_f (F ++ G) = addrs_f F ++ addrs_f G.
Proof. apply flat_map_app. Qed.

Lemma addrs_f_in F t a : t ∈ F -> a ∈ addrs t -> a ∈ addrs_f F.
Proof. intros Ht Ha. apply elem_of_flat_map. eauto. Qed.

Lemma forest_frame h h' F :
  Forall (tree_ok h None None None) F ->
  (forall a, a ∈ addrs_f F -> h' !! a = h !! a) ->
  Forall (tree_ok h' None None None) F.
Proof.
  rewrite !Forall_forall. intros H Hfr t Ht. eapply tree_ok_frame; [|apply H; exact Ht].
  intros a Ha. apply Hfr. eapply addrs_f_in; eauto.
Qed.

Lemma rep_lookup caching s F a : Rep caching s F -> a ∈ addrs_f F ++ pool s -> exists x, heap s !! a = Some x.
Proof.
  intros HR Ha. apply elem_of_app in Ha as [Ha|Ha].
  - apply elem_of_flat_map in Ha as [t [Ht Ha]].
    pose proof (R_links _ _ _ HR) as Hl. rewrite Forall_forall in Hl.
    eapply tree_ok_lookup; [apply Hl; exact Ht|exact Ha].
  - destruct (R_blank _ _ _ HR a Ha) as [id Hid]. eauto.
Qed.

Lemma rep_id_le caching s F a : Rep caching s F -> a ∈ addrs_f F ++ pool s -> (id_of (heap s) a <= next_id s)%Z.
Proof.
  intros HR Ha. destruct (rep_lookup _ _ _ _ HR Ha) as [x Hx]. unfold id_of. rewrite Hx.
  eapply R_idle; eauto.
Qed.

Lemma map_ext_elem {A B} (f g : A -> B) l : (forall x, x ∈ l -> f x = g x) -> map f l = map g l.
Proof. intros H. apply map_ext_in. intros x Hx. apply H. apply elem_of_list_In. exact Hx. Qed.

Lemma remove1_perm a l l' : remove1 a l = Some l' -> l ≡ₚ a :: l'.
Proof.
  revert l'. induction l as [|x r IH]; simpl; intros l' H; [discriminate|].
  destruct (Pos.eqb_spec x a) as [->|Hne]; [inversion H; reflexivity|].
  destruct (remove1 a r) as [r'|] eqn:E; [|discriminate]. inversion H; subst.
  rewrite (IH r' eq_refl). apply perm_swap.
Qed.

Lemma remove1_some a l : a ∈ l -> exists l', remove1 a l = Some l'.
Proof.
  induction l as [|x r IH]; intros Ha; [inversion Ha|]. simpl.
  destruct (Pos.eqb_spec x a) as [->|Hne]; [eauto|].
  apply elem_of_cons in Ha as [->|Ha]; [congruence|]. destruct (IH Ha) as [r' ->]. eauto.
Qed.

(* ---- create ------------------------------------------------------------------------------------------ *)
Lemma create_fresh_eq caching s ty data fs :
  create caching s Fresh ty data fs =
  Ok (mkSt (<[next_addr s := mkNode (next_id s + 1) None None None None None ty data fs]> (heap s))
           (pool s) (next_id s + 1) (Pos.succ (next_addr s)), next_addr s).
Proof.
  unfold create, create_node.
  assert (E : (if caching then pool_get s Fresh else Ok (alloc_node s)) = Ok (alloc_node s))
    by (destruct caching; reflexivity).
  rewrite E. unfold alloc_node. simpl. unfold upd. simpl. lk. simpl. lk. simpl.
  destruct fs; simpl; unfold upd, with_heap; simpl; lk; simpl; rewrite ?insert_insert; reflexivity.
Qed.

Lemma create_pool_eq s a id p' ty data fs :
  remove1 a (pool s) = Some p' -> heap s !! a = Some (blank id) ->
  create true s (FromPool a) ty data fs =
  Ok (mkSt (<[a := mkNode id None None None None None ty data fs]> (heap s)) p' (next_id s) (next_addr s), a).
Proof.
  intros Hr Ha. unfold create, create_node. simpl. rewrite Hr. simpl. unfold upd. simpl. rewrite Ha. simpl.
  lk. simpl.
  destruct fs; simpl; unfold upd, with_heap; simpl; lk; simpl; rewrite ?insert_insert; reflexivity.
Qed.

Lemma singleton_ok h a x :
  h !! a = Some x -> n_parent x = None -> n_prev x = None -> n_next x = None ->
  n_first x = None -> n_last x = None -> tree_ok h None None None (AT a []).
Proof. intros. split; [exists x; repeat split; auto|exact I]. Qed.

Lemma rep_create_fresh caching s F acq ty data fs :
  Rep caching s F -> AcqInv s acq ->
  exists s', create caching s Fresh ty data fs = Ok (s', next_addr s) /\
    Rep caching s' (F ++ [AT (next_addr s) []]) /\ AcqInv s' (id_of (heap s') (next_addr s) :: acq) /\
    heap s' !! next_addr s = Some (mkNode (next_id s + 1) None None None None None ty data fs).
Proof.
  intros HR (HA1 & HA2 & HA3). rewrite create_fresh_eq. eexists. split; [reflexivity|].
  set (a := next_addr s).
  assert (Hfresh : a ∉ addrs_f F ++ pool s).
  { intros Hin. pose proof (R_bound _ _ _ HR a Hin). unfold a in *. lia. }
  assert (Hne : forall b, b ∈ addrs_f F ++ pool s -> b <> a) by (intros b Hb ->; contradiction).
  assert (Hidlt : forall b, b ∈ addrs_f F ++ pool s -> (id_of (heap s) b <= next_id s)%Z)
    by (intros; eapply rep_id_le; eauto).
  assert (Haddrs : addrs_f (F ++ [AT a []]) = addrs_f F ++ [a]).
  { rewrite addrs_f_app. simpl. reflexivity. }
  assert (Hids : forall b, b ∈ addrs_f F ++ pool s ->
            id_of (<[a:=mkNode (next_id s + 1) None None None None None ty data fs]> (heap s)) b = id_of (heap s) b).
  { intros b Hb. unfold id_of. rewrite lookup_insert_ne; [reflexivity|]. intros ->. apply (Hne b Hb). reflexivity. }
  split; [split; simpl|split; [split; [|split]|]]; simpl.
  - apply Forall_app. split.
    + eapply forest_frame; [apply (R_links _ _ _ HR)|]. intros b Hb. apply lookup_insert_ne.
      intros ->. apply Hfresh. apply elem_of_app. auto.
    + constructor; [|constructor]. eapply singleton_ok; [apply lookup_insert|..]; reflexivity.
  - rewrite Haddrs, <- app_assoc. simpl. rewrite <- Permutation_middle.
    apply NoDup_cons. split; [exact Hfresh|apply (R_nodup _ _ _ HR)].
  - intros b Hb. destruct (R_blank _ _ _ HR b Hb) as [id Hid]. exists id.
    rewrite lookup_insert_ne; [exact Hid|]. intros ->. apply Hfresh. apply elem_of_app. auto.
  - intros b Hb. rewrite Haddrs, <- app_assoc in Hb. simpl in Hb.
    apply elem_of_app in Hb as [Hb|Hb].
    + pose proof (R_bound _ _ _ HR b (proj2 (elem_of_app _ _ _) (or_introl Hb))). lia.
    + apply elem_of_cons in Hb as [->|Hb]; [fold a; lia|].
      pose proof (R_bound _ _ _ HR b (proj2 (elem_of_app _ _ _) (or_intror Hb))). lia.
  - intros b Hb. rewrite lookup_insert_ne by (fold a; lia). apply (R_dom _ _ _ HR). fold a. lia.
  - intros b x Hx. destruct (decide (b = a)) as [->|Hba].
    + rewrite lookup_insert in Hx. inversion Hx; subst. simpl. lia.
    + rewrite lookup_insert_ne in Hx by congruence. pose proof (R_idle _ _ _ HR b x Hx). lia.
  - rewrite Haddrs, <- app_assoc. simpl.
    match goal with |- NoDup (map ?f _) =>
      assert (Hpm : map f (addrs_f F ++ a :: pool s) ≡ₚ f a :: map f (addrs_f F ++ pool s))
        by (rewrite !map_app; simpl; symmetry; apply Permutation_middle)
    end.
    rewrite Hpm. rewrite (map_ext_elem _ (id_of (heap s))) by exact Hids.
    unfold id_of at 1. rewrite lookup_insert. simpl.
    apply NoDup_cons. split; [|apply (R_ids _ _ _ HR)].
    intros Hin. apply elem_of_list_fmap in Hin as [b [Hb1 Hb2]]. specialize (Hidlt b Hb2). lia.
  - apply (R_nocache _ _ _ HR).
  - unfold id_of. rewrite lookup_insert. simpl. apply NoDup_cons. split; [|exact HA1].
    intros Hin. specialize (HA2 _ Hin). lia.
  - unfold id_of at 1. rewrite lookup_insert. simpl. intros i Hi.
    apply elem_of_cons in Hi as [->|Hi]; [lia|]. specialize (HA2 _ Hi). lia.
  - intros b Hb. rewrite Hids by (apply elem_of_app; auto). unfold id_of at 2. rewrite lookup_insert. simpl.
    intros Hin. apply elem_of_cons in Hin as [E|Hin]; [|apply (HA3 b Hb Hin)].
    specialize (Hidlt b (proj2 (elem_of_app _ _ _) (or_intror Hb))). lia.
  - apply lookup_insert.
Qed.

Lemma rep_create_pool s F acq a ty data fs :
  Rep true s F -> AcqInv s acq -> a ∈ pool s ->
  exists s' id, create true s (FromPool a) ty data fs = Ok (s', a) /\
    Rep true s' (F ++ [AT a []]) /\ AcqInv s' (id_of (heap s') a :: acq) /\
    heap s' !! a = Some (mkNode id None None None None None ty data fs).
Proof.
  intros HR (HA1 & HA2 & HA3) Ha.
  destruct (remove1_some _ _ Ha) as [p' Hp'].
  destruct (R_blank _ _ _ HR a Ha) as [id Hid].
  rewrite (create_pool_eq _ _ _ _ _ _ _ Hp' Hid). eexists. exists id. split; [reflexivity|].
  pose proof (remove1_perm _ _ _ Hp') as Hperm.
  pose proof (R_nodup _ _ _ HR) as Hnd.
  assert (HaF : a ∉ addrs_f F).
  { apply NoDup_app in Hnd as (_ & Hd & _). intros Hin. apply (Hd a Hin Ha). }
  assert (Hndp : NoDup (a :: p')).
  { apply NoDup_app in Hnd as (_ & _ & Hndp). rewrite <- Hperm. exact Hndp. }
  apply NoDup_cons in Hndp as [Hap' Hndp'].
  assert (Hp'sub : forall b, b ∈ p' -> b ∈ pool s) by (intros b Hb; rewrite Hperm; apply elem_of_cons; auto).
  assert (Haddrs : addrs_f (F ++ [AT a []]) = addrs_f F ++ [a]).
  { rewrite addrs_f_app. simpl. reflexivity. }
  assert (Hperm2 : (addrs_f F ++ [a]) ++ p' ≡ₚ addrs_f F ++ pool s).
  { rewrite <- app_assoc. simpl. rewrite Hperm. reflexivity. }
  assert (Hids : forall b, id_of (<[a:=mkNode id None None None None None ty data fs]> (heap s)) b = id_of (heap s) b).
  { intros b. unfold id_of. destruct (decide (b = a)) as [->|Hba].
    - rewrite lookup_insert, Hid. reflexivity.
    - rewrite lookup_insert_ne by congruence. reflexivity. }
  split; [split; simpl|split; [split; [|split]|]]; simpl.
  - apply Forall_app. split.
    + eapply forest_frame; [apply (R_links _ _ _ HR)|]. intros b Hb. apply lookup_insert_ne. intros ->. contradiction.
    + constructor; [|constructor]. eapply singleton_ok; [apply lookup_insert|..]; reflexivity.
  - rewrite Haddrs. rewrite Hperm2. exact Hnd.
  - intros b Hb. destruct (R_blank _ _ _ HR b (Hp'sub b Hb)) as [id' Hid']. exists id'.
    rewrite lookup_insert_ne; [exact Hid'|]. intros ->. contradiction.
  - intros b Hb. rewrite Haddrs, Hperm2 in Hb. apply (R_bound _ _ _ HR b Hb).
  - intros b Hb. rewrite lookup_insert_ne; [apply (R_dom _ _ _ HR b Hb)|].
    intros ->. pose proof (R_bound _ _ _ HR b (proj2 (elem_of_app _ _ _) (or_intror Ha))). lia.
  - intros b x Hx. destruct (decide (b = a)) as [->|Hba].
    + rewrite lookup_insert in Hx. inversion Hx; subst. simpl.
      apply (R_idle _ _ _ HR a _ Hid).
    + rewrite lookup_insert_ne in Hx by congruence. apply (R_idle _ _ _ HR b x Hx).
  - rewrite Haddrs. rewrite (map_ext_elem _ (id_of (heap s))) by (intros; apply Hids).
    rewrite Hperm2. apply (R_ids _ _ _ HR).
  - discriminate.
  - rewrite Hids. apply NoDup_cons. split; [apply (HA3 a Ha)|exact HA1].
  - intros i Hi. rewrite Hids in Hi. apply elem_of_cons in Hi as [->|Hi]; [|apply (HA2 _ Hi)].
    eapply rep_id_le; [exact HR|]. apply elem_of_app. auto.
  - intros b Hb. rewrite !Hids. intros Hin. apply elem_of_cons in Hin as [E|Hin].
    + (* two pooled nodes with the same ID *)
      pose proof (R_ids _ _ _ HR) as Hn. rewrite map_app in Hn. apply NoDup_app in Hn as (_ & _ & Hn).
      rewrite Hperm in Hn. simpl in Hn. apply NoDup_cons in Hn as [Hn _]. apply Hn.
      rewrite <- E. apply elem_of_list_fmap. eauto.
    + apply (HA3 b (Hp'sub b Hb) Hin).
  - apply lookup_insert.
Qed.

(* ---- the local structure at an address of a represented tree --------------------------------------------- *)
Lemma tree_ok_at h : forall t par prev next,
  tree_ok h par prev next t -> NoDup (addrs t) ->
  forall a x, a ∈ addrs t -> h !! a = Some x ->
  exists ks, n_first x = hd_addr ks /\ n_last x = last_addr ks /\
             (forall k, k ∈ ks -> root k <> a /\ root k ∈ addrs t).
Proof.
  induction t as [b ks IH] using atree_ind2. intros par prev next [Hn Hc] Hnd a x Ha Hx.
  simpl in Ha, Hnd. apply NoDup_cons in Hnd as [Hb Hnd]. apply elem_of_cons in Ha as [->|Ha].
  - destruct Hn as [y [Hy (_ & _ & _ & Hf & Hl)]]. rewrite Hy in Hx. inversion Hx; subst y.
    exists ks. split; [auto|split; [auto|]]. intros k Hk. split.
    + intros E. apply Hb. apply elem_of_flat_map. exists k. split; [auto|]. rewrite <- E. apply root_in.
    + eapply addrs_kid_in; [exact Hk|apply root_in].
  - apply elem_of_flat_map in Ha as [k [Hk Ha]].
    destruct (chain_elem _ _ _ _ _ Hc Hk) as [pv [nx Hok]].
    rewrite Forall_forall in IH.
    destruct (IH k Hk _ _ _ Hok (NoDup_flat_map_inv _ _ Hnd k Hk) a x Ha Hx) as [ks' (H1 & H2 & H3)].
    exists ks'. split; [auto|split; [auto|]]. intros k' Hk'. destruct (H3 k' Hk') as [H4 H5].
    split; [auto|]. eapply addrs_kid_in; eauto.
Qed.

(* ---- AddChild ----------------------------------------------------------------------------------------------- *)
Lemma find_root_spec n F tn :
  find_root n F = Some tn -> NoDup (addrs_f F) ->
  root tn = n /\ tn ∈ F /\ F ≡ₚ tn :: drop_root n F /\
  (forall t, t ∈ drop_root n F -> t ∈ F /\ root t <> n).
Proof.
  induction F as [|t r IH]; simpl; intros Hf Hnd; [discriminate|].
  apply NoDup_app in Hnd as (Hndt & Hd & Hndr).
  destruct (Pos.eqb_spec (root t) n) as [E|E].
  - inversion Hf; subst tn. simpl.
    assert (Hr : drop_root n r = r).
    { apply filter_id. intros t' Ht'. destruct (Pos.eqb_spec (root t') n) as [E'|E']; [|reflexivity].
      exfalso. apply (Hd n); [rewrite <- E; apply root_in|]. eapply addrs_f_in; [exact Ht'|]. rewrite <- E'. apply root_in. }
    rewrite Hr. split; [auto|split; [apply elem_of_cons; auto|split; [reflexivity|]]].
    intros t' Ht'. split; [apply elem_of_cons; auto|].
    intros E'. apply (Hd n); [rewrite <- E; apply root_in|]. eapply addrs_f_in; [exact Ht'|]. rewrite <- E'. apply root_in.
  - destruct (IH Hf Hndr) as (H1 & H2 & H3 & H4). simpl.
    split; [auto|split; [apply elem_of_cons; auto|split]].
    + rewrite H3 at 1. apply perm_swap.
    + intros t' Ht'. apply elem_of_cons in Ht' as [->|Ht']; [split; [apply elem_of_cons; auto|auto]|].
      destruct (H4 t' Ht'). split; [apply elem_of_cons; auto|auto].
Qed.

Lemma addrs_f_perm F G : F ≡ₚ G -> addrs_f F ≡ₚ addrs_f G.
Proof.
  induction 1; simpl; auto.
  - rewrite IHPermutation. reflexivity.
  - rewrite !app_assoc. apply Permutation_app_tail. apply Permutation_app_comm.
  - etransitivity; eauto.
Qed.

Lemma graft_forest_perm p tn : forall G,
  p ∈ addrs_f G -> NoDup (addrs_f G) ->
  addrs_f (map (graft_t p tn) G) ≡ₚ addrs_f G ++ addrs tn.
Proof.
  induction G as [|t r IH]; simpl; intros Hp Hnd; [inversion Hp|].
  apply NoDup_app in Hnd as (Hndt & Hd & Hndr).
  destruct (decide (p ∈ addrs t)) as [Hpt|Hpt].
  - rewrite (map_id_on (graft_t p tn) r).
    + rewrite (Graft_perm _ _ _ _ (graft_path p tn t Hpt Hndt)).
      rewrite <- !app_assoc. apply Permutation_app_head. apply Permutation_app_comm.
    + intros t' Ht'. apply graft_t_id. intros Hin. apply (Hd p Hpt). eapply addrs_f_in; eauto.
  - rewrite graft_t_id by exact Hpt. apply elem_of_app in Hp as [Hp|Hp]; [contradiction|].
    rewrite (IH Hp Hndr). rewrite app_assoc. reflexivity.
Qed.

Lemma set_links_id x :
  (forall v, n_id (set_parent v x) = n_id x) /\ (forall v, n_id (set_first v x) = n_id x) /\
  (forall v, n_id (set_last v x) = n_id x) /\ (forall v, n_id (set_prev v x) = n_id x) /\
  (forall v, n_id (set_next v x) = n_id x).
Proof. repeat split. Qed.

Lemma rep_add caching s F p n :
  Rep caching s F -> pre_b caching s F (OAdd p n) = true ->
  exists h', add_child (heap s) p n = Ok h' /\ Rep caching (with_heap s h') (graft p n F) /\
    (forall a, id_of h' a = id_of (heap s) a).
Proof.
  intros HR Hpre. simpl in Hpre. unfold graft.
  destruct (find_root n F) as [tn|] eqn:Hfr; [|discriminate].
  apply andb_prop in Hpre as [Hp Hptn]. apply mem_spec in Hp.
  assert (Hptn' : p ∉ addrs tn).
  { intros Hin. apply mem_spec in Hin. rewrite Hin in Hptn. discriminate. }
  pose proof (R_nodup _ _ _ HR) as Hnd. apply NoDup_app in Hnd as (HndF & HdFP & Hndpool).
  destruct (find_root_spec _ _ _ Hfr HndF) as (Hrn & HtnF & HpermF & Hdrop).
  set (G := drop_root n F) in *.
  pose proof (addrs_f_perm _ _ HpermF) as HpermA. simpl in HpermA.
  assert (HndG : NoDup (addrs tn ++ addrs_f G)) by (rewrite <- HpermA; exact HndF).
  apply NoDup_app in HndG as (Hndtn & HdtnG & HndG).
  assert (HpG : p ∈ addrs_f G).
  { rewrite HpermA in Hp. apply elem_of_app in Hp as [Hp|Hp]; [contradiction|exact Hp]. }
  pose proof (R_links _ _ _ HR) as Hlinks. rewrite Forall_forall in Hlinks.
  pose proof (Hlinks tn HtnF) as Htn.
  destruct (tree_ok_root _ _ _ _ _ Htn) as [xn [Hxn (Hxn1 & Hxn2 & Hxn3 & _)]]. rewrite Hrn in Hxn.
  apply elem_of_flat_map in HpG as [tp [HtpG Hptp]].
  destruct (Hdrop tp HtpG) as [HtpF Hrtp].
  pose proof (Hlinks tp HtpF) as Htp.
  assert (Hndtp : NoDup (addrs tp)) by (eapply NoDup_flat_map_inv; eauto).
  destruct (tree_ok_lookup _ _ _ _ _ _ Htp Hptp) as [xp Hxp].
  destruct (tree_ok_at _ _ _ _ _ Htp Hndtp p xp Hptp Hxp) as [ks (Hf & Hl & Hks)].
  assert (Hn_tn : n ∈ addrs tn) by (rewrite <- Hrn; apply root_in).
  assert (Hn_G : n ∉ addrs_f G) by (apply HdtnG; exact Hn_tn).
  assert (Hpn : p <> n) by (intros ->; contradiction).
  assert (Hlast : forall l, n_last xp = Some l -> l ∈ addrs tp /\ l <> p).
  { intros l El. rewrite Hl in El. apply last_addr_in in El as [k [Hk <-]]. destruct (Hks k Hk). auto. }
  destruct (add_child_spec (heap s) p n xp xn Hxp Hxn Hpn) as (h' & Hadd & Hn' & Hp' & Hl' & Hother).
  { rewrite Hf, Hl. rewrite hd_addr_none, last_addr_none. reflexivity. }
  { intros l El. destruct (Hlast l El) as [Hltp Hlp]. split; [|split; [auto|]].
    - intros ->. apply Hn_G. eapply addrs_f_in; eauto.
    - eapply tree_ok_lookup; eauto. }
  exists h'. split; [exact Hadd|].
  (* every record keeps its ID *)
  assert (Hidrec : forall a x', h' !! a = Some x' -> exists x, heap s !! a = Some x /\ n_id x = n_id x').
  { intros a x' Hx'. destruct (decide (a = n)) as [->|Han].
    { rewrite Hn' in Hx'. inversion Hx'; subst. eauto. }
    destruct (decide (a = p)) as [->|Hap].
    { rewrite Hp' in Hx'. inversion Hx'; subst. exists xp. split; [auto|]. destruct (n_first xp); reflexivity. }
    destruct (decide (Some a = n_last xp)) as [E|E].
    { symmetry in E. destruct (Hlast a E) as [Hatp _].
      destruct (tree_ok_lookup _ _ _ _ _ _ Htp Hatp) as [xa Hxa].
      rewrite (Hl' a xa E Hxa) in Hx'. inversion Hx'; subst. eauto. }
    rewrite (Hother a Han Hap E) in Hx'. eauto. }
  assert (Hdom : forall a x, heap s !! a = Some x -> exists x', h' !! a = Some x').
  { intros a x Hx. destruct (decide (a = n)) as [->|Han]; [eauto|].
    destruct (decide (a = p)) as [->|Hap]; [eauto|].
    destruct (decide (Some a = n_last xp)) as [E|E]; [symmetry in E; eauto|].
    rewrite (Hother a Han Hap E). eauto. }
  assert (Hids : forall a, id_of h' a = id_of (heap s) a).
  { intros a. unfold id_of. destruct (h' !! a) as [x'|] eqn:E'.
    - destruct (Hidrec a x' E') as [x [Hx Hid]]. rewrite Hx. auto.
    - destruct (heap s !! a) as [x|] eqn:E; [|reflexivity].
      destruct (Hdom a x E) as [x' Hx']. congruence. }
  assert (Hperm' : addrs_f (map (graft_t p tn) G) ≡ₚ addrs_f F).
  { rewrite graft_forest_perm; [|apply elem_of_flat_map; eauto|exact HndG].
    rewrite HpermA. apply Permutation_app_comm. }
  split; [|exact Hids].
  split; simpl.
  - (* links *)
    apply Forall_forall. intros t' Ht'. apply elem_of_list_fmap in Ht' as [t [-> HtG]].
    destruct (Hdrop t HtG) as [HtF Hrt].
    pose proof (Hlinks t HtF) as Hokt.
    assert (Hndt : NoDup (addrs t)) by (eapply NoDup_flat_map_inv; eauto).
    assert (Hdt : forall a, a ∈ addrs t -> a ∉ addrs tn).
    { intros a Ha Hatn. apply (HdtnG a Hatn). eapply addrs_f_in; eauto. }
    destruct (decide (p ∈ addrs t)) as [Hpt|Hpt].
    + eapply (graft_ok (heap s) h' p n tn xp xn); eauto. apply graft_path; auto.
    + rewrite graft_t_id by exact Hpt. eapply tree_ok_frame; [|exact Hokt].
      intros a Ha. apply Hother.
      * intros ->. apply Hn_G. eapply addrs_f_in; eauto.
      * intros ->. contradiction.
      * intros E. symmetry in E. destruct (Hlast a E) as [Hatp _].
        (* a lies in t and in tp: the same tree *)
        apply elem_of_list_lookup in HtG as [i Hi]. apply elem_of_list_lookup in HtpG as [j Hj].
        assert (i = j) by (eapply (NoDup_flat_map_disj addrs G HndG i j t tp a); eauto).
        subst j. rewrite Hi in Hj. inversion Hj; subst tp. contradiction.
  - rewrite Hperm'. apply (R_nodup _ _ _ HR).
  - intros a Ha. destruct (R_blank _ _ _ HR a Ha) as [id Hid]. exists id. rewrite <- Hid. apply Hother.
    + intros ->. apply (HdFP n); [|exact Ha]. apply (addrs_f_in F tn); auto.
    + intros ->. apply (HdFP p); [|exact Ha]. apply (addrs_f_in F tp); auto.
    + intros E. symmetry in E. destruct (Hlast a E) as [Hatp _]. apply (HdFP a); [|exact Ha]. apply (addrs_f_in F tp); auto.
  - intros a Ha. rewrite Hperm' in Ha. apply (R_bound _ _ _ HR a Ha).
  - intros a Ha. destruct (h' !! a) as [x'|] eqn:E'; [|reflexivity].
    destruct (Hidrec a x' E') as [x [Hx _]]. rewrite (R_dom _ _ _ HR a Ha) in Hx. discriminate.
  - intros a x' Hx'. destruct (Hidrec a x' Hx') as [x [Hx Hid]]. rewrite <- Hid. apply (R_idle _ _ _ HR a x Hx).
  - rewrite (map_ext_elem _ (id_of (heap s))) by (intros; apply Hids).
    rewrite Hperm'. apply (R_ids _ _ _ HR).
  - apply (R_nocache _ _ _ HR).
Qed.
