(* C03: the Read bound of two line based readers over a source that ends cleanly or fails
   persistently, with the error-classification shapes taken from Gen/Safety.v:
     * the old csv reader (csv/reader.go Read / checkHeader / jumpTo after fixes 6d61a53, 35247f5);
     * the old fixed-length reader with a by_rows envelope (fixedlength/reader.go).
   Every Read ends, a Read that is not terminal consumed at least one line, hence the terminal
   result comes within (lines + 1) Reads; and when the source fails, the terminal result is the
   fatal / latched error, never io.EOF. *)
From Coq Require Import List Arith NArith Bool Lia.
Import ListNotations.
From OV Require Import Gen.Safety Model.Safety Proofs.SafetyReads.

Section CsvReader.
  Variable span : csvst -> nat.
  Variable parse_err matches header_ok : csvst -> bool.
  Variable fault : bool.                       (* the source ends with a persistent failure *)
  Hypothesis span_ok : forall s, 0 < lines_left s -> 1 <= span s <= lines_left s.

  (* the good lines, then the failure (or the clean end) for ever *)
  Definition tail_fails (s : csvst) : bool := fault && Nat.eqb (lines_left s) 0.
  Notation cread := (csv_read span tail_fails true).
  Notation jump := (jump_gen span tail_fails true).
  Notation rloop := (read_loop span tail_fails parse_err matches true).
  Notation chk := (check_header span tail_fails parse_err header_ok true).
  Notation rd := (csv_reader_read span tail_fails parse_err matches header_ok true true true).

  Lemma cread_cases s :
    (lines_left s = 0 /\ cread s = (mkCsv (S (numline s)) 0, if fault then CsvOtherErr else CsvEOF)) \/
    (0 < lines_left s /\ cread s = (mkCsv (numline s + span s) (lines_left s - span s), CsvRecOrParseErr)
      /\ 1 <= span s <= lines_left s).
  Proof.
    unfold csv_read, tail_fails. cbn [negb]. destruct (Nat.eqb (lines_left s) 0) eqn:E.
    - apply Nat.eqb_eq in E. left. split; [exact E|]. rewrite E. destruct fault; reflexivity.
    - apply Nat.eqb_neq in E. right. rewrite andb_false_r. split; [lia|]. split; [reflexivity|apply span_ok; lia].
  Qed.

  Lemma jump_props : forall fuel row s, lines_left s < fuel ->
    match jump fuel true row s with
    | JumpDone s' => lines_left s' <= lines_left s
    | JumpEOF => fault = false
    | JumpFailed => True
    | JumpOutOfFuel => False
    end.
  Proof.
    induction fuel as [|k IH]; intros row s Hf; [lia|].
    cbn [jump_gen]. destruct (Nat.ltb (numline s) row); [|simpl; lia].
    destruct (cread_cases s) as [[H0 ->]|(Hpos & -> & Hs)].
    - destruct fault; [exact I|reflexivity].
    - specialize (IH row (mkCsv (numline s + span s) (lines_left s - span s))). cbn [lines_left] in IH.
      specialize (IH ltac:(lia)).
      destruct (jump k true row (mkCsv (numline s + span s) (lines_left s - span s))); try exact IH. lia.
  Qed.

  Definition read_ok (s0 : csvst) (res : crd * cres) : Prop :=
    let '(r', c) := res in
    c <> CrOutOfFuel /\ lines_left (cr_st r') <= lines_left s0 /\
    (cres_terminal c = false -> lines_left (cr_st r') < lines_left s0) /\
    (c = CrEOF -> fault = false).

  Lemma rloop_props : forall fuel r, lines_left (cr_st r) < fuel -> read_ok (cr_st r) (rloop fuel true r).
  Proof.
    induction fuel as [|k IH]; intros r Hf; [lia|].
    cbn [read_loop]. destruct (cread_cases (cr_st r)) as [[H0 ->]|(Hpos & -> & Hs)].
    - destruct fault eqn:Ef; cbn; repeat split; try discriminate; try lia; auto.
    - destruct (parse_err (cr_st r)); [cbn; repeat split; try discriminate; lia|].
      destruct (matches (cr_st r)); [cbn; repeat split; try discriminate; lia|].
      specialize (IH (mkCrd (mkCsv (numline (cr_st r) + span (cr_st r)) (lines_left (cr_st r) - span (cr_st r))) true (cr_latched r))).
      cbn [cr_st lines_left] in IH. specialize (IH ltac:(lia)).
      destruct (rloop k true _) as [r' c]. unfold read_ok in *. cbn [cr_st lines_left] in *.
      destruct IH as (H1&H2&H3&H4). repeat split; auto; try lia; try (intro Ht; specialize (H3 Ht); lia).
  Qed.

  Lemma chk_props : forall fuel hdr data r, lines_left (cr_st r) < fuel ->
    match chk fuel true hdr data r with
    | (r', None) => lines_left (cr_st r') <= lines_left (cr_st r)
    | (r', Some c) => c <> CrOutOfFuel /\ cres_terminal c = true /\ (c = CrEOF -> fault = false)
                      /\ lines_left (cr_st r') <= lines_left (cr_st r)
    end.
  Proof.
    intros fuel hdr data r Hf. unfold check_header.
    assert (Hskip : forall r1, lines_left (cr_st r1) <= lines_left (cr_st r) ->
      match (match jump fuel true (data - 1) (cr_st r1) with
             | JumpDone s' => (mkCrd s' true (cr_latched r1), None)
             | JumpEOF => (mkCrd (cr_st r1) true (cr_latched r1), Some CrEOF)
             | JumpFailed => (mkCrd (cr_st r1) true true, Some CrLatched)
             | JumpOutOfFuel => (r1, Some CrOutOfFuel)
             end) with
      | (r', None) => lines_left (cr_st r') <= lines_left (cr_st r)
      | (r', Some c) => c <> CrOutOfFuel /\ cres_terminal c = true /\ (c = CrEOF -> fault = false)
                        /\ lines_left (cr_st r') <= lines_left (cr_st r)
      end).
    { intros r1 Hle. pose proof (jump_props fuel (data - 1) (cr_st r1) ltac:(lia)) as Hj.
      destruct (jump fuel true (data - 1) (cr_st r1)); cbn [cr_st].
      - lia.
      - repeat split; auto; discriminate.
      - repeat split; auto; discriminate.
      - destruct Hj. }
    destruct hdr as [h|]; [|apply Hskip; lia].
    pose proof (jump_props fuel (h - 1) (cr_st r) Hf) as Hj.
    destruct (jump fuel true (h - 1) (cr_st r)) as [s1| | |].
    - destruct (cread_cases s1) as [[H0 ->]|(Hpos & -> & Hs)].
      + destruct fault; cbn [cr_st lines_left]; repeat split; try discriminate; lia.
      + destruct (parse_err s1 || negb (header_ok s1)).
        * cbn [cr_st lines_left]. repeat split; try discriminate; lia.
        * apply (Hskip (mkCrd (mkCsv (numline s1 + span s1) (lines_left s1 - span s1)) true (cr_latched r))).
          cbn [cr_st lines_left]. lia.
    - cbn [cr_st]. repeat split; try discriminate; lia.
    - cbn [cr_st]. repeat split; try discriminate; lia.
    - destruct Hj.
  Qed.

  (* one Read of the reader, with enough fuel for its inner loops *)
  Theorem csv_reader_read_props : forall hdr data r,
    read_ok (cr_st r) (rd (lines_left (cr_st r) + 1) true hdr data r).
  Proof.
    intros hdr data r. unfold csv_reader_read. cbn [andb].
    destruct (cr_latched r).
    - cbn. repeat split; try discriminate; lia.
    - destruct (cr_header_checked r); [apply rloop_props; lia|].
      pose proof (chk_props (lines_left (cr_st r) + 1) hdr data r ltac:(lia)) as Hc.
      destruct (chk (lines_left (cr_st r) + 1) true hdr data r) as [r' [c|]].
      + destruct Hc as (H1&H2&H3&H4). cbn. repeat split; auto. rewrite H2. discriminate.
      + pose proof (rloop_props (lines_left (cr_st r) + 1) r' ltac:(lia)) as Hr.
        destruct (rloop (lines_left (cr_st r) + 1) true r') as [r'' c]. unfold read_ok in *.
        destruct Hr as (H1&H2&H3&H4). repeat split; auto; try lia; try (intro Ht; specialize (H3 Ht); lia).
  Qed.

  Definition csv_rd (hdr : option nat) (data : nat) (r : crd) : crd * bool :=
    let '(r', c) := rd (lines_left (cr_st r) + 1) true hdr data r in (r', cres_terminal c).

  Theorem csv_reader_reads_bound : forall hdr data r,
    exists n, reads_to_terminal crd (csv_rd hdr data) (lines_left (cr_st r) + 1) r = Some n
              /\ 1 <= n <= lines_left (cr_st r) + 1.
  Proof.
    intros hdr data r.
    apply (reads_bound_generic crd (csv_rd hdr data) (fun r => lines_left (cr_st r))); [|lia].
    intros r0 Hnt. unfold csv_rd in *. pose proof (csv_reader_read_props hdr data r0) as Hp.
    destruct (rd (lines_left (cr_st r0) + 1) true hdr data r0) as [r' c]. cbn [fst snd] in *.
    destruct Hp as (_&_&H3&_). exact (H3 Hnt).
  Qed.
End CsvReader.

(* the same, over the shape flags extracted from the source *)
Theorem csv_fault_reads_bound_lemma :
  forall span parse_err matches header_ok fault,
  (forall s, 0 < lines_left s -> 1 <= span s <= lines_left s) ->
  forall hdr data r,
  let read := csv_reader_read span (tail_fails fault) parse_err matches header_ok
                csv_read_returns_latched_first csv_read_latches_non_parse_error csv_jumpto_fails_on_non_parse_error in
  (* every Read ends; it never turns a failure into io.EOF; a non-terminal Read consumed a line *)
  (forall r0, let '(r', c) := read (lines_left (cr_st r0) + 1) true hdr data r0 in
     c <> CrOutOfFuel /\ (c = CrEOF -> fault = false) /\
     (cres_terminal c = false -> lines_left (cr_st r') < lines_left (cr_st r0))) /\
  (* hence: the terminal result within (lines + 1) Reads *)
  exists n, reads_to_terminal crd
              (fun r0 => let '(r', c) := read (lines_left (cr_st r0) + 1) true hdr data r0 in (r', cres_terminal c))
              (lines_left (cr_st r) + 1) r = Some n
            /\ 1 <= n <= lines_left (cr_st r) + 1.
Proof.
  intros span parse_err matches header_ok fault Hs hdr data r read. split.
  - intro r0. pose proof (csv_reader_read_props span parse_err matches header_ok fault Hs hdr data r0) as Hp.
    subst read. change csv_read_returns_latched_first with true. change csv_read_latches_non_parse_error with true.
    change csv_jumpto_fails_on_non_parse_error with true.
    destruct (csv_reader_read _ _ _ _ _ _ _ _ _ _ _ _ r0) as [r' c]. destruct Hp as (H1&_&H3&H4). auto.
  - exact (csv_reader_reads_bound span parse_err matches header_ok fault Hs hdr data r).
Qed.

(* Without the latch in Read (before F10, 6d61a53) a failing source gives a continuable error for
   ever; without the inner test of jumpTo (before 35247f5) the first Read needs as many steps as
   the row index. *)
Lemma csv_fault_old_refuted_lemma :
  let r0 := mkCrd (mkCsv 0 0) true false in
  (forall n, reads_to_terminal crd
     (fun r => let '(r', c) := csv_reader_read (fun _ => 1) (tail_fails true) (fun _ => false) (fun _ => true) (fun _ => true)
                                  true false true 5 true None 1 r in (r', cres_terminal c)) n r0 = None)
  /\ snd (csv_reader_read (fun _ => 1) (tail_fails true) (fun _ => false) (fun _ => true) (fun _ => true)
            true true false 50 true None 100 (mkCrd (mkCsv 0 0) false false)) = CrOutOfFuel
  /\ snd (csv_reader_read (fun _ => 1) (tail_fails true) (fun _ => false) (fun _ => true) (fun _ => true)
            true true true 1 true None 100 (mkCrd (mkCsv 0 0) false false)) = CrLatched.
Proof.
  split; [|split; vm_compute; reflexivity].
  assert (H : forall n k, reads_to_terminal crd
     (fun r => let '(r', c) := csv_reader_read (fun _ => 1) (tail_fails true) (fun _ => false) (fun _ => true) (fun _ => true)
                                  true false true 5 true None 1 r in (r', cres_terminal c)) n (mkCrd (mkCsv k 0) true false) = None).
  { induction n as [|n IH]; intro k; [reflexivity|]. cbn [reads_to_terminal].
    replace (csv_reader_read (fun _ => 1) (tail_fails true) (fun _ => false) (fun _ => true) (fun _ => true)
               true false true 5 true None 1 (mkCrd (mkCsv k 0) true false))
      with (mkCrd (mkCsv (S k) 0) true false, CrPlainErr) by reflexivity.
    cbn [cres_terminal]. rewrite IH. reflexivity. }
  intro n. apply H.
Qed.

(* ---- fixed-length, by_rows ---- *)
Section FixedReader.
  Variable rows : nat.
  Variable fl_matches : flst -> bool.
  Hypothesis rows_pos : 1 <= rows.     (* what rows_validated gives for an accepted schema *)

  Lemma read_rows_props : forall todo i s,
    match read_rows true i todo s with
    | (s', None) => fl_left s' + todo = fl_left s /\ fl_fault s' = fl_fault s
    | (s', Some c) => fl_left s' <= fl_left s /\ fl_fault s' = fl_fault s /\ flres_terminal c = true /\
                      (c = FlEOF -> fl_fault s = false)
    end.
  Proof.
    induction todo as [|k IH]; intros i s; cbn [read_rows]; [split; [lia|reflexivity]|].
    destruct (Nat.eqb (fl_left s) 0) eqn:E0.
    - destruct (fl_fault s) eqn:Ef.
      + rewrite andb_false_r. repeat split; auto; try lia. discriminate.
      + destruct (Nat.eqb i 0); repeat split; auto; discriminate.
    - apply Nat.eqb_neq in E0. specialize (IH (S i) (mkFl (fl_left s - 1) (fl_fault s))).
      destruct (read_rows true (S i) k (mkFl (fl_left s - 1) (fl_fault s))) as [s' [c|]]; cbn [fl_left fl_fault] in *.
      + destruct IH as (H1&H2&H3&H4). repeat split; auto. lia.
      + destruct IH as [H1 H2]. split; [lia|exact H2].
  Qed.

  Definition fl_ok (s0 : flst) (res : flst * flres) : Prop :=
    let '(s', c) := res in
    c <> FlOutOfFuel /\ c <> FlRawErr /\ fl_left s' <= fl_left s0 /\ fl_fault s' = fl_fault s0 /\
    (flres_terminal c = false -> fl_left s' < fl_left s0) /\ (c = FlEOF -> fl_fault s0 = false).

  Lemma fl_read_props : forall fuel s, fl_left s < fuel -> fl_ok s (fl_read rows fl_matches true fuel s).
  Proof.
    induction fuel as [|k IH]; intros s Hf; [lia|].
    cbn [fl_read]. pose proof (read_rows_props rows 0 s) as Hr.
    destruct (read_rows true 0 rows s) as [s' [c|]].
    - destruct Hr as (H1&H2&H3&H4). unfold fl_ok. repeat split; auto.
      + intro E; subst c; discriminate.
      + intro E; subst c; discriminate.
      + rewrite H3. discriminate.
    - destruct Hr as [H1 H2]. destruct (fl_matches s).
      + unfold fl_ok. repeat split; auto; try discriminate; try lia.
      + specialize (IH s' ltac:(lia)). destruct (fl_read rows fl_matches true k s') as [s'' c].
        unfold fl_ok in *. destruct IH as (A&B&C&D&E&F). repeat split; auto; try lia; try congruence; try (intro Ht; specialize (E Ht); lia).
        intro Hc. rewrite <- H2. exact (F Hc).
  Qed.
End FixedReader.

Theorem fixed_by_rows_reads_bound_lemma :
  forall rows fl_matches, 1 <= rows -> forall s,
  let read := fl_read rows fl_matches fixed_by_rows_raw_error_only_clean_eof in
  (forall s0, let '(s', c) := read (fl_left s0 + 1) s0 in
     c <> FlOutOfFuel /\ c <> FlRawErr /\ (c = FlEOF -> fl_fault s0 = false) /\
     (flres_terminal c = false -> fl_left s' < fl_left s0)) /\
  exists n, reads_to_terminal flst (fun s0 => let '(s', c) := read (fl_left s0 + 1) s0 in (s', flres_terminal c))
              (fl_left s + 1) s = Some n /\ 1 <= n <= fl_left s + 1.
Proof.
  intros rows fl_matches Hr s read. subst read. change fixed_by_rows_raw_error_only_clean_eof with true.
  assert (Hp : forall s0, fl_ok s0 (fl_read rows fl_matches true (fl_left s0 + 1) s0)).
  { intro s0. apply fl_read_props; [exact Hr|lia]. }
  split.
  - intro s0. specialize (Hp s0). destruct (fl_read rows fl_matches true (fl_left s0 + 1) s0) as [s' c].
    destruct Hp as (A&B&C&D&E&F). auto.
  - apply (reads_bound_generic flst _ (fun s0 => fl_left s0)); [|lia].
    intros s0 Hnt. specialize (Hp s0). destruct (fl_read rows fl_matches true (fl_left s0 + 1) s0) as [s' c].
    cbn [fst snd] in *. destruct Hp as (_&_&_&_&E&_). exact (E Hnt).
Qed.

(* seed C03-r43: with the weaker condition (`i == 0` alone) a failure at an envelope boundary is
   returned raw -- continuable -- and every Read meets it again *)
Lemma fixed_by_rows_old_refuted_lemma :
  (forall n, reads_to_terminal flst
     (fun s0 => let '(s', c) := fl_read 1 (fun _ => true) false (fl_left s0 + 1) s0 in (s', flres_terminal c))
     n (mkFl 0 true) = None)
  /\ fl_read 1 (fun _ => true) true 1 (mkFl 0 true) = (mkFl 0 true, FlFatal).
Proof.
  split; [|reflexivity]. induction n as [|n IH]; [reflexivity|].
  cbn [reads_to_terminal]. 
  replace (fl_read 1 (fun _ => true) false (fl_left (mkFl 0 true) + 1) (mkFl 0 true)) with (mkFl 0 true, FlRawErr) by reflexivity.
  cbn [flres_terminal]. rewrite IH. reflexivity.
Qed.
