(* C09 proofs, part 8: composition.  StripBOM -> bufio.Reader.Read -> CR removal -> LF removal
   (the byte stack below the EDI scanner when ignore_crlf is set) over any chunking. *)
From Coq Require Import List NArith Bool Arith Lia.
From Coq.Strings Require Import Byte.
Import ListNotations.
From OV Require Import Base.Bytes Base.Cases Base.Utf8 Model.Chunk Proofs.Chunk Proofs.ChunkLines
  Proofs.ChunkBom Proofs.ChunkTop Proofs.ChunkBRR Proofs.ChunkBufRead.

Definition edi_bytes_rd (N fuel : nat) :=
  brr_rd NL [] 4096 _ (brr_rd CR [] 4096 _ (b_read source io_read N) fuel) fuel.

Theorem stack_replacing_spec N fuel F cap cs wl t data' t' :
  4 <= N -> 0 < cap -> runs_ok cs = true ->
  12 * (N + weight cs) + 4 < fuel -> 12 * (N + weight cs) + 4 < F ->
  a_strip_bom (concat cs, t) = inr (data', t') ->
  exists b s', strip_bom source io_read N (mkSrc cs wl t) = Ok (inr b, s') /\
    drain_rd _ (edi_bytes_rd N fuel) F cap (brr_init, (brr_init, (b, s')))
    = Ok (a_replace1 NL [] (a_replace1 CR [] data'), tail_err t').
Proof.
  intros HN Hcap Hr Hfuel HF Ha.
  pose proof (strip_bom_spec source io_read src_rep src_wt src_lead source_reader_ok N HN
                (mkSrc cs wl t) (concat cs) t (src_rep_mk cs wl t Hr)) as H.
  pose (X := a_strip_bom (concat cs, t)).
  change (a_strip_bom (concat cs, t)) with X in H, Ha. clearbody X. subst X.
  destruct H as (b&s'&E&HBR&Hw). exists b, s'. split; [exact E|].
  pose proof (bufio_read_reader_ok source io_read src_rep src_wt src_lead source_reader_ok N HN) as Hok0.
  pose proof (brr_reader_ok CR [] ltac:(simpl; lia) 4096 ltac:(lia) _ _ _ _ _ Hok0 fuel) as Hok1.
  pose proof (brr_reader_ok NL [] ltac:(simpl; lia) 4096 ltac:(lia) _ _ _ _ _ Hok1 fuel) as Hok2.
  assert (HdN : length (b_data b) <= N) by (destruct HBR as [A _]; exact A).
  assert (Hbw : bufrd_wt source src_wt (b, s') <= 3 * N + 3 * weight cs + 1).
  { unfold bufrd_wt, src_wt in *. cbn [fst snd chunks] in *. destruct (b_err b); lia. }
  rewrite <- (latch_err t'), <- (latch_err (latch t')).
  unfold edi_bytes_rd.
  apply (drain_rd_spec _ _ _ _ _ Hok2 cap Hcap).
  - split.
    + unfold brr_rep. cbn [brr_init r_buf r_buf0 r_err length]. split; [reflexivity|]. split; [lia|].
      exists (a_replace1 CR [] data'), (latch t'). split; [reflexivity|]. split; [|reflexivity].
      split.
      * unfold brr_rep. cbn [brr_init r_buf r_buf0 r_err length]. split; [reflexivity|]. split; [lia|].
        exists data', t'. split; [reflexivity|]. split; [exact HBR|reflexivity].
      * unfold brr_m. cbn [fst snd brr_init r_err]. lia.
    + unfold brr_m, brr_wt. cbn [fst snd brr_init r_err r_buf length]. lia.
  - unfold brr_wt. cbn [fst snd brr_init r_buf length]. lia.
Qed.

(* Chunk invariance of the whole byte stack: two chunkings of the same bytes give the same bytes
   and the same final error to whatever reads this stack to the end. *)
Theorem stack_replacing_chunk_invariant N fuel F cap cs cs' wl wl' t data' t' :
  4 <= N -> 0 < cap -> concat cs = concat cs' -> runs_ok cs = true -> runs_ok cs' = true ->
  12 * (N + weight cs) + 4 < fuel -> 12 * (N + weight cs) + 4 < F ->
  12 * (N + weight cs') + 4 < fuel -> 12 * (N + weight cs') + 4 < F ->
  a_strip_bom (concat cs, t) = inr (data', t') ->
  exists b1 s1 b2 s2,
    strip_bom source io_read N (mkSrc cs wl t) = Ok (inr b1, s1) /\
    strip_bom source io_read N (mkSrc cs' wl' t) = Ok (inr b2, s2) /\
    drain_rd _ (edi_bytes_rd N fuel) F cap (brr_init, (brr_init, (b1, s1))) =
    drain_rd _ (edi_bytes_rd N fuel) F cap (brr_init, (brr_init, (b2, s2))).
Proof.
  intros HN Hcap Hc Hr Hr' Hf1 HF1 Hf2 HF2 Ha.
  destruct (stack_replacing_spec N fuel F cap cs wl t data' t' HN Hcap Hr Hf1 HF1 Ha) as (b1&s1&E1&D1).
  rewrite Hc in Ha.
  destruct (stack_replacing_spec N fuel F cap cs' wl' t data' t' HN Hcap Hr' Hf2 HF2 Ha) as (b2&s2&E2&D2).
  exists b1, s1, b2, s2. repeat split; auto. congruence.
Qed.

(* ================================================================================================ *)
(* The complete reader stacks of omniparser, over ANY well-behaved base reader (the raw source    *)
(* for utf-8, or the charmap decoder over it for iso-8859-1 / windows-1252).                       *)
(* ================================================================================================ *)
From OV Require Import Proofs.ChunkScan Proofs.ChunkFind Proofs.ChunkDecode.

Section Stacks.
  Variable St : Type.
  Variable sread : St -> nat -> rres * St.

  (* fixed-length formats: StripBOM, then ByteReadLine on the same bufio.Reader *)
  Definition bom_lines_rd (N gas fuel : nat) (x : St) : outcome (ioerr + (list bytes * ioerr)) :=
    match strip_bom St sread N x with
    | Ok (inl e, _) => Ok (inl e)
    | Ok (inr b, x') => match read_lines St sread N gas fuel b x' with
                        | Ok r => Ok (inr r)
                        | Panic p => Panic p
                        | OutOfFuel => OutOfFuel
                        end
    | Panic p => Panic p
    | OutOfFuel => OutOfFuel
    end.

  (* EDI: StripBOM, bufio.Reader.Read, optionally CR and LF removal, then the delimiter scanner
     with its initial buffer of buflen bytes *)
  Definition edi_tokens_rd (ignore_crlf : bool) (N buflen : nat) (delim esc : bytes)
             (gasB gas fuel : nat) (x : St) : outcome (ioerr + (list bytes * option ioerr)) :=
    match strip_bom St sread N x with
    | Ok (inl e, _) => Ok (inl e)
    | Ok (inr b, x') =>
        let find := byte_index_with_esc delim esc in
        let r0 := b_read St sread N in
        match (if ignore_crlf
               then scan_all _ (brr_rd NL [] 4096 _ (brr_rd CR [] 4096 _ r0 gasB) gasB) find (length delim) true false
                             gas fuel (mkScan 0 [] buflen None) (brr_init, (brr_init, (b, x')))
               else scan_all _ r0 find (length delim) true false gas fuel (mkScan 0 [] buflen None) (b, x')) with
        | Ok r => Ok (inr r)
        | Panic p => Panic p
        | OutOfFuel => OutOfFuel
        end
    | Panic p => Panic p
    | OutOfFuel => OutOfFuel
    end.

  Definition a_edi_tokens (ignore_crlf : bool) (delim esc : bytes) (fuel : nat) (a : astream)
    : outcome (ioerr + (list bytes * option ioerr)) :=
    match a_strip_bom a with
    | inl e => Ok (inl e)
    | inr (data', t') =>
        let d2 := if ignore_crlf then a_replace1 NL [] (a_replace1 CR [] data') else data' in
        match a_scan_all (byte_index_with_esc delim esc) (length delim) true false fuel d2 t' with
        | Ok r => Ok (inr r)
        | Panic p => Panic p
        | OutOfFuel => OutOfFuel
        end
    end.

  Variable Rep : St -> bytes -> tail -> Prop.
  Variable wt : St -> nat.
  Variable lead : St -> nat.
  Hypothesis Hok : reader_ok St sread Rep wt lead.

  Theorem bom_lines_rd_spec N gas fuel x data t res :
    4 <= N -> Rep x data t -> wt x + 1 < gas ->
    a_bom_lines N fuel (data, t) = Ok res -> bom_lines_rd N gas fuel x = Ok res.
  Proof.
    intros HN HR Hg Ha. unfold bom_lines_rd, a_bom_lines in *.
    pose proof (strip_bom_spec St sread Rep wt lead Hok N HN x data t HR) as H.
    destruct (a_strip_bom (data, t)) as [e|a'].
    - destruct H as (x'&->). exact Ha.
    - destruct H as (b&x'&->&HBR&Hw).
      destruct (a_read_lines N fuel a') as [r| |] eqn:E; try discriminate.
      rewrite (read_lines_spec St sread Rep wt lead Hok N HN gas fuel b x' a' r HBR E); [exact Ha|lia].
  Qed.

  Lemma a_scan_all_tail find dlen incl eofd fuel : forall d t t',
    scan_terr t = scan_terr t' ->
    a_scan_all find dlen incl eofd fuel d t = a_scan_all find dlen incl eofd fuel d t'.
  Proof.
    induction fuel as [|k IH]; intros d t t' H; [reflexivity|]. cbn [a_scan_all].
    destruct (find (firstn MaxScanTokenSize d)) as [i|].
    - rewrite (IH (skipn (i + dlen) d) t t' H). reflexivity.
    - rewrite (IH [] t t' H), H. reflexivity.
  Qed.

  Lemma scan_terr_latch t : scan_terr (latch t) = scan_terr t.
  Proof. unfold scan_terr. rewrite latch_err. reflexivity. Qed.

  Theorem edi_tokens_rd_spec crlf N buflen delim esc gasB gas fuel x data t res :
    4 <= N -> buflen <= MaxScanTokenSize -> full_rune delim = true ->
    Rep x data t ->
    12 * (N + wt x) + 6 < gasB -> 12 * (N + wt x) + 6 < gas ->
    a_edi_tokens crlf delim esc fuel (data, t) = Ok res ->
    edi_tokens_rd crlf N buflen delim esc gasB gas fuel x = Ok res.
  Proof.
    intros HN Hbl Hdelim HR HgB Hg Ha. unfold edi_tokens_rd, a_edi_tokens in *.
    pose proof (strip_bom_spec St sread Rep wt lead Hok N HN x data t HR) as H.
    destruct (a_strip_bom (data, t)) as [e|[data' t']].
    - destruct H as (x'&->). exact Ha.
    - destruct H as (b&x'&->&HBR&Hw).
      destruct (find_esc_ok delim esc Hdelim) as [Hfb Hfe].
      assert (Hdl : 1 <= length delim).
      { destruct delim; [discriminate Hdelim|simpl; lia]. }
      pose proof (bufio_read_reader_ok St sread Rep wt lead Hok N HN) as Hok0.
      assert (HdN : length (b_data b) <= N) by (destruct HBR as [A _]; exact A).
      assert (Hbw : bufrd_wt St wt (b, x') <= 3 * N + 3 * wt x + 1).
      { unfold bufrd_wt. cbn [fst snd]. destruct (b_err b); lia. }
      destruct crlf.
      + pose proof (brr_reader_ok CR [] ltac:(simpl; lia) 4096 ltac:(lia) _ _ _ _ _ Hok0 gasB) as Hok1.
        pose proof (brr_reader_ok NL [] ltac:(simpl; lia) 4096 ltac:(lia) _ _ _ _ _ Hok1 gasB) as Hok2.
        destruct (a_scan_all _ _ _ _ fuel (a_replace1 NL [] (a_replace1 CR [] data')) t') as [r| |] eqn:E;
          try discriminate.
        rewrite (a_scan_all_tail _ _ _ _ fuel _ t' (latch (latch t'))) in E
          by (rewrite !scan_terr_latch; reflexivity).
        rewrite (scan_all_spec _ _ _ _ _ Hok2 _ _ true false Hdl Hfb Hfe gas fuel
                   (mkScan 0 [] buflen None) (brr_init, (brr_init, (b, x')))
                   (a_replace1 NL [] (a_replace1 CR [] data')) (latch (latch t')) r); [exact Ha| | |exact E].
        * unfold SR. cbn [s_start s_data s_buflen s_err length]. split; [lia|]. split; [exact Hbl|].
          eexists. split; [|reflexivity].
          split.
          -- unfold brr_rep. cbn [brr_init r_buf r_buf0 r_err length]. split; [reflexivity|]. split; [lia|].
             exists (a_replace1 CR [] data'), (latch t'). split; [reflexivity|]. split; [|reflexivity].
             split.
             ++ unfold brr_rep. cbn [brr_init r_buf r_buf0 r_err length]. split; [reflexivity|]. split; [lia|].
                exists data', t'. split; [reflexivity|]. split; [exact HBR|reflexivity].
             ++ unfold brr_m. cbn [fst snd brr_init r_err]. lia.
          -- unfold brr_m, brr_wt. cbn [fst snd brr_init r_err r_buf length]. lia.
        * unfold sm, brr_wt. cbn [fst snd s_err brr_init r_buf length]. lia.
      + destruct (a_scan_all _ _ _ _ fuel data' t') as [r| |] eqn:E; try discriminate.
        rewrite (scan_all_spec _ _ _ _ _ Hok0 _ _ true false Hdl Hfb Hfe gas fuel
                   (mkScan 0 [] buflen None) (b, x') data' t' r); [exact Ha| | |exact E].
        * unfold SR. cbn [s_start s_data s_buflen s_err length]. split; [lia|]. split; [exact Hbl|].
          exists data'. split; [exact HBR|reflexivity].
        * unfold sm. cbn [fst snd s_err]. lia.
  Qed.
End Stacks.

(* ---- instances: utf-8 (the source itself) and a charmap encoding (decoder over the source) ---- *)
Definition src0 (cs : list bytes) (wl : bool) (t : tail) : source := mkSrc cs wl t.

Theorem edi_stack_spec crlf N buflen delim esc gasB gas fuel cs wl t res :
  4 <= N -> buflen <= MaxScanTokenSize -> full_rune delim = true -> runs_ok cs = true ->
  12 * (N + weight cs) + 6 < gasB -> 12 * (N + weight cs) + 6 < gas ->
  a_edi_tokens crlf delim esc fuel (concat cs, t) = Ok res ->
  edi_tokens_rd source io_read crlf N buflen delim esc gasB gas fuel (mkSrc cs wl t) = Ok res.
Proof.
  intros HN Hbl Hd Hr HgB Hg Ha.
  apply (edi_tokens_rd_spec source io_read src_rep src_wt src_lead source_reader_ok crlf N buflen delim esc
           gasB gas fuel (mkSrc cs wl t) (concat cs) t res HN Hbl Hd (src_rep_mk cs wl t Hr)); auto.
Qed.

Section Encoded.
  Variable cp : byte -> bytes.
  Hypothesis Hcp : forall c, 1 <= length (cp c) <= 3.
  Variable fuelD : nat.

  Notation drd := (dec_rd cp 4096 source io_read fuelD).
  Notation dok := (dec_reader_ok cp Hcp 4096 ltac:(lia) source io_read src_rep src_wt src_lead source_reader_ok fuelD).

  Lemma dec_rep_init cs wl t :
    runs_ok cs = true -> 2 * weight cs + 4 < fuelD ->
    dec_rep_f cp 4096 source src_rep src_wt fuelD (dec_init, mkSrc cs wl t) (a_decode cp (concat cs)) (latch t).
  Proof.
    intros Hr Hf. split.
    - unfold dec_rep. cbn [dec_init d_dst d_src d_err d_complete length]. split; [lia|]. split; [lia|].
      exists (concat cs), t. repeat split; auto.
    - unfold dec_M, src_wt. cbn. lia.
  Qed.

  (* WrapEncoding -> StripBOM -> line reader *)
  Theorem lines_stack_enc_spec N gas fuel cs wl t res :
    4 <= N -> runs_ok cs = true -> 2 * weight cs + 4 < fuelD -> 6 * weight cs + 1 < gas ->
    a_bom_lines N fuel (a_decode cp (concat cs), latch t) = Ok res ->
    bom_lines_rd _ drd N gas fuel (dec_init, mkSrc cs wl t) = Ok res.
  Proof.
    intros HN Hr HfD Hg Ha.
    apply (bom_lines_rd_spec _ _ _ _ _ dok N gas fuel _ _ _ res HN (dec_rep_init cs wl t Hr HfD)); [|exact Ha].
    unfold dec_wt, src_wt. cbn. lia.
  Qed.

  (* WrapEncoding -> StripBOM -> Read -> [CR/LF removal] -> scanner *)
  Theorem edi_stack_enc_spec crlf N buflen delim esc gasB gas fuel cs wl t res :
    4 <= N -> buflen <= MaxScanTokenSize -> full_rune delim = true -> runs_ok cs = true ->
    2 * weight cs + 4 < fuelD ->
    12 * (N + 6 * weight cs) + 6 < gasB -> 12 * (N + 6 * weight cs) + 6 < gas ->
    a_edi_tokens crlf delim esc fuel (a_decode cp (concat cs), latch t) = Ok res ->
    edi_tokens_rd _ drd crlf N buflen delim esc gasB gas fuel (dec_init, mkSrc cs wl t) = Ok res.
  Proof.
    intros HN Hbl Hd Hr HfD HgB Hg Ha.
    apply (edi_tokens_rd_spec _ _ _ _ _ dok crlf N buflen delim esc gasB gas fuel _ _ _ res HN Hbl Hd
             (dec_rep_init cs wl t Hr HfD)); [| |exact Ha]; unfold dec_wt, src_wt; cbn; lia.
  Qed.
End Encoded.

(* Chunk invariance of the complete stacks: any two chunkings of the same bytes (each without 100
   consecutive empty chunks), data with or after the error, any tail. *)
Theorem stack_chunk_invariant_edi crlf N buflen delim esc gasB gas fuel cs cs' wl wl' t res :
  4 <= N -> buflen <= MaxScanTokenSize -> full_rune delim = true ->
  concat cs = concat cs' -> runs_ok cs = true -> runs_ok cs' = true ->
  12 * (N + weight cs) + 6 < gasB -> 12 * (N + weight cs) + 6 < gas ->
  12 * (N + weight cs') + 6 < gasB -> 12 * (N + weight cs') + 6 < gas ->
  a_edi_tokens crlf delim esc fuel (concat cs, t) = Ok res ->
  edi_tokens_rd source io_read crlf N buflen delim esc gasB gas fuel (mkSrc cs wl t) = Ok res /\
  edi_tokens_rd source io_read crlf N buflen delim esc gasB gas fuel (mkSrc cs' wl' t) = Ok res.
Proof.
  intros HN Hbl Hd Hc Hr Hr' H1 H2 H3 H4 Ha. split.
  - apply edi_stack_spec; assumption.
  - apply edi_stack_spec; try assumption. rewrite <- Hc. exact Ha.
Qed.

Theorem stack_chunk_invariant_enc_lines cp fuelD N gas fuel cs cs' wl wl' t res
  (Hcp : forall c, 1 <= length (cp c) <= 3) :
  4 <= N -> concat cs = concat cs' -> runs_ok cs = true -> runs_ok cs' = true ->
  2 * weight cs + 4 < fuelD -> 2 * weight cs' + 4 < fuelD ->
  6 * weight cs + 1 < gas -> 6 * weight cs' + 1 < gas ->
  a_bom_lines N fuel (a_decode cp (concat cs), latch t) = Ok res ->
  bom_lines_rd _ (dec_rd cp 4096 source io_read fuelD) N gas fuel (dec_init, mkSrc cs wl t) = Ok res /\
  bom_lines_rd _ (dec_rd cp 4096 source io_read fuelD) N gas fuel (dec_init, mkSrc cs' wl' t) = Ok res.
Proof.
  intros HN Hc Hr Hr' H1 H2 H3 H4 Ha. split.
  - apply (lines_stack_enc_spec cp Hcp); assumption.
  - apply (lines_stack_enc_spec cp Hcp); try assumption. rewrite <- Hc. exact Ha.
Qed.

Theorem stack_chunk_invariant_enc_edi cp fuelD crlf N buflen delim esc gasB gas fuel cs cs' wl wl' t res
  (Hcp : forall c, 1 <= length (cp c) <= 3) :
  4 <= N -> buflen <= MaxScanTokenSize -> full_rune delim = true ->
  concat cs = concat cs' -> runs_ok cs = true -> runs_ok cs' = true ->
  2 * weight cs + 4 < fuelD -> 2 * weight cs' + 4 < fuelD ->
  12 * (N + 6 * weight cs) + 6 < gasB -> 12 * (N + 6 * weight cs) + 6 < gas ->
  12 * (N + 6 * weight cs') + 6 < gasB -> 12 * (N + 6 * weight cs') + 6 < gas ->
  a_edi_tokens crlf delim esc fuel (a_decode cp (concat cs), latch t) = Ok res ->
  edi_tokens_rd _ (dec_rd cp 4096 source io_read fuelD) crlf N buflen delim esc gasB gas fuel (dec_init, mkSrc cs wl t) = Ok res /\
  edi_tokens_rd _ (dec_rd cp 4096 source io_read fuelD) crlf N buflen delim esc gasB gas fuel (dec_init, mkSrc cs' wl' t) = Ok res.
Proof.
  intros HN Hbl Hd Hc Hr Hr' H1 H2 H3 H4 H5 H6 Ha. split.
  - apply (edi_stack_enc_spec cp Hcp); assumption.
  - apply (edi_stack_enc_spec cp Hcp); try assumption. rewrite <- Hc. exact Ha.
Qed.

(* both utf-8 stacks at once: the full statement stack_chunk_invariant_partial left open *)
Theorem stack_chunk_invariant crlf N buflen delim esc gasB gas fuel cs cs' wl wl' t rl rt :
  4 <= N -> buflen <= MaxScanTokenSize -> full_rune delim = true ->
  concat cs = concat cs' -> runs_ok cs = true -> runs_ok cs' = true ->
  12 * (N + weight cs) + 6 < gasB -> 12 * (N + weight cs) + 6 < gas ->
  12 * (N + weight cs') + 6 < gasB -> 12 * (N + weight cs') + 6 < gas ->
  a_bom_lines N fuel (concat cs, t) = Ok rl ->
  a_edi_tokens crlf delim esc fuel (concat cs, t) = Ok rt ->
  (bom_lines N gas fuel (mkSrc cs wl t) = Ok rl /\ bom_lines N gas fuel (mkSrc cs' wl' t) = Ok rl) /\
  (edi_tokens_rd source io_read crlf N buflen delim esc gasB gas fuel (mkSrc cs wl t) = Ok rt /\
   edi_tokens_rd source io_read crlf N buflen delim esc gasB gas fuel (mkSrc cs' wl' t) = Ok rt).
Proof.
  intros. split.
  - apply stack_lines_chunk_invariant; try assumption; lia.
  - apply stack_chunk_invariant_edi; assumption.
Qed.
