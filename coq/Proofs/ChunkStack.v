(* C09 proofs, part 8: composition.  StripBOM -> bufio.Reader.Read -> CR removal -> LF removal
   (the byte stack below the EDI scanner when ignore_crlf is set) over any chunking. *)
From Coq Require Import List NArith Bool Arith Lia.
From Coq.Strings Require Import Byte.
Import ListNotations.
From OV Require Import Base.Bytes Base.Cases Base.Utf8 Model.Chunk Proofs.Chunk Proofs.ChunkLines
  Proofs.ChunkBom Proofs.ChunkTop Proofs.ChunkBRR Proofs.ChunkBufRead.

Definition edi_bytes_rd (N fuel : nat) :=
  brr_rd NL [] 4096 _ (brr_rd CR [] 4096 _ (b_read source io_read N) fuel) fuel.

Theorem stack_replacing_spec N fuel F cap cs wl t data' t' :
  4 <= N -> 0 < cap -> runs_ok cs = true ->
  12 * (N + weight cs) + 4 < fuel -> 12 * (N + weight cs) + 4 < F ->
  a_strip_bom (concat cs, t) = inr (data', t') ->
  exists b s', strip_bom source io_read N (mkSrc cs wl t) = Ok (inr b, s') /\
    drain_rd _ (edi_bytes_rd N fuel) F cap (brr_init, (brr_init, (b, s')))
    = Ok (a_replace1 NL [] (a_replace1 CR [] data'), tail_err t').
Proof.
  intros HN Hcap Hr Hfuel HF Ha.
  pose proof (strip_bom_spec source io_read src_rep src_wt src_lead source_reader_ok N HN
                (mkSrc cs wl t) (concat cs) t (src_rep_mk cs wl t Hr)) as H.
  pose (X := a_strip_bom (concat cs, t)).
  change (a_strip_bom (concat cs, t)) with X in H, Ha. clearbody X. subst X.
  destruct H as (b&s'&E&HBR&Hw). exists b, s'. split; [exact E|].
  pose proof (bufio_read_reader_ok source io_read src_rep src_wt src_lead source_reader_ok N HN) as Hok0.
  pose proof (brr_reader_ok CR [] ltac:(simpl; lia) 4096 ltac:(lia) _ _ _ _ _ Hok0 fuel) as Hok1.
  pose proof (brr_reader_ok NL [] ltac:(simpl; lia) 4096 ltac:(lia) _ _ _ _ _ Hok1 fuel) as Hok2.
  assert (HdN : length (b_data b) <= N) by (destruct HBR as [A _]; exact A).
  assert (Hbw : bufrd_wt source src_wt (b, s') <= 3 * N + 3 * weight cs + 1).
  { unfold bufrd_wt, src_wt in *. cbn [fst snd chunks] in *. destruct (b_err b); lia. }
  rewrite <- (latch_err t'), <- (latch_err (latch t')).
  unfold edi_bytes_rd.
  apply (drain_rd_spec _ _ _ _ _ Hok2 cap Hcap).
  - split.
    + unfold brr_rep. cbn [brr_init r_buf r_buf0 r_err length]. split; [reflexivity|]. split; [lia|].
      exists (a_replace1 CR [] data'), (latch t'). split; [reflexivity|]. split; [|reflexivity].
      split.
      * unfold brr_rep. cbn [brr_init r_buf r_buf0 r_err length]. split; [reflexivity|]. split; [lia|].
        exists data', t'. split; [reflexivity|]. split; [exact HBR|reflexivity].
      * unfold brr_m. cbn [fst snd brr_init r_err]. lia.
    + unfold brr_m, brr_wt. cbn [fst snd brr_init r_err r_buf length]. lia.
  - unfold brr_wt. cbn [fst snd brr_init r_buf length]. lia.
Qed.

(* Chunk invariance of the whole byte stack: two chunkings of the same bytes give the same bytes
   and the same final error to whatever reads this stack to the end. *)
Theorem stack_replacing_chunk_invariant N fuel F cap cs cs' wl wl' t data' t' :
  4 <= N -> 0 < cap -> concat cs = concat cs' -> runs_ok cs = true -> runs_ok cs' = true ->
  12 * (N + weight cs) + 4 < fuel -> 12 * (N + weight cs) + 4 < F ->
  12 * (N + weight cs') + 4 < fuel -> 12 * (N + weight cs') + 4 < F ->
  a_strip_bom (concat cs, t) = inr (data', t') ->
  exists b1 s1 b2 s2,
    strip_bom source io_read N (mkSrc cs wl t) = Ok (inr b1, s1) /\
    strip_bom source io_read N (mkSrc cs' wl' t) = Ok (inr b2, s2) /\
    drain_rd _ (edi_bytes_rd N fuel) F cap (brr_init, (brr_init, (b1, s1))) =
    drain_rd _ (edi_bytes_rd N fuel) F cap (brr_init, (brr_init, (b2, s2))).
Proof.
  intros HN Hcap Hc Hr Hr' Hf1 HF1 Hf2 HF2 Ha.
  destruct (stack_replacing_spec N fuel F cap cs wl t data' t' HN Hcap Hr Hf1 HF1 Ha) as (b1&s1&E1&D1).
  rewrite Hc in Ha.
  destruct (stack_replacing_spec N fuel F cap cs' wl' t data' t' HN Hcap Hr' Hf2 HF2 Ha) as (b2&s2&E2&D2).
  exists b1, s1, b2, s2. repeat split; auto. congruence.
Qed.
