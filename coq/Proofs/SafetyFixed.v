(* C03: lineToColumnValue (both fixed-length readers) never slices out of range, for every
   start_pos and length (any int64, not only the validated ones) and every line, and the column
   value is a contiguous piece of the line. *)
From Coq Require Import List Arith NArith ZArith Bool Lia.
Import ListNotations.
From OV Require Import Base.Bytes Base.Utf8 Model.Safety.

(* utf8.DecodeRune on a non-empty slice consumes between 1 byte and the whole slice *)
Lemma decode_rune_adv (s : bytes) : s <> [] -> 1 <= snd (decode_rune s) <= length s.
Proof.
  destruct s as [|b0 r]; [congruence|]. intros _. unfold decode_rune.
  repeat match goal with
         | |- context [if ?c then _ else _] => destruct c
         | |- context [match ?l with [] => _ | _ :: _ => _ end] => destruct l
         end; cbn [snd length]; lia.
Qed.

Lemma chop_prefix_total : forall fuel start line,
  length line < fuel ->
  exists l pre, chop_prefix fuel start line = FVal l /\ line = pre ++ l.
Proof.
  induction fuel as [|k IH]; intros start line Hf; [lia|].
  cbn [chop_prefix].
  destruct ((0 <? start)%Z && Nat.ltb 0 (length line)) eqn:Ec.
  - apply andb_true_iff in Ec as [_ El]. apply Nat.ltb_lt in El.
    assert (Hne : line <> []) by (destruct line; simpl in El; [lia|congruence]).
    pose proof (decode_rune_adv line Hne) as Ha.
    unfold slice_from. assert (Nat.leb (snd (decode_rune line)) (length line) = true) as -> by (apply Nat.leb_le; lia).
    destruct (IH (start - 1)%Z (skipn (snd (decode_rune line)) line)) as (l&pre&Hl&Hp).
    { rewrite skipn_length. lia. }
    exists l, (firstn (snd (decode_rune line)) line ++ pre). split; [exact Hl|].
    rewrite <- app_assoc, <- Hp. symmetry. apply firstn_skipn.
  - exists line, []. split; reflexivity.
Qed.

Lemma count_runes_total line : forall fuel lenCount i,
  i <= length line -> length line - i < fuel ->
  exists j, count_runes fuel lenCount i line = FVal j /\ j <= length line.
Proof.
  induction fuel as [|k IH]; intros lenCount i Hi Hf; [lia|].
  cbn [count_runes].
  destruct ((0 <? lenCount)%Z && Nat.ltb i (length line)) eqn:Ec.
  - apply andb_true_iff in Ec as [_ El]. apply Nat.ltb_lt in El.
    unfold slice_from. assert (Nat.leb i (length line) = true) as -> by (apply Nat.leb_le; lia).
    assert (Hne : skipn i line <> []).
    { intro E. apply (f_equal (@length _)) in E. rewrite skipn_length in E. simpl in E. lia. }
    pose proof (decode_rune_adv _ Hne) as Ha. rewrite skipn_length in Ha.
    apply IH; lia.
  - exists i. split; [reflexivity|exact Hi].
Qed.

Theorem fixed_slice_no_panic_lemma (start_pos len : Z) (line : bytes) :
  exists v pre post, line_to_column_value start_pos len line = FVal v /\ line = pre ++ v ++ post.
Proof.
  unfold line_to_column_value.
  destruct (chop_prefix_total (length line + 1) (wrap64 (start_pos - 1)) line) as (l&pre&Hl&Hp); [lia|].
  rewrite Hl.
  destruct (count_runes_total l (length l + 1) len 0) as (j&Hj&Hle); [lia|lia|].
  rewrite Hj. unfold slice_to. assert (Nat.leb j (length l) = true) as -> by (apply Nat.leb_le; exact Hle).
  exists (firstn j l), pre, (skipn j l). split; [reflexivity|].
  rewrite firstn_skipn. exact Hp.
Qed.
