(* Proofs about Model/Pipeline.v: list algebra, the node ID allocator invariant (IDs handed out
   are never-used-before and pairwise distinct, with or without pooling, for every schedule of
   sync.Pool choices), existence of an injective renaming between two duplicate-free labellings,
   and the main lemma [run_units_local] (record_local): under the evaluator hypotheses the
   result list of a transform is [results], a function of schema, envelope context and units
   only.  C10 / C13 / C15 are corollaries (Props/C10.v, C13.v, C15.v). *)
From Coq Require Import List NArith Bool Arith Lia Permutation.
Import ListNotations.
From OV Require Import Base.Bytes Base.Cases Base.Tree Model.Pipeline.

(* ---- list algebra ------------------------------------------------------------------------------ *)
Lemma map_permute {A B} (f : A -> B) pi l : map f (permute pi l) = permute pi (map f l).
Proof.
  unfold permute. induction pi as [|i pi IH]; simpl; [reflexivity|].
  rewrite map_app, IH. f_equal. rewrite nth_error_map.
  destruct (nth_error l i); reflexivity.
Qed.

Lemma map_replace_at {A B} (f : A -> B) i x l :
  map f (replace_at i x l) = replace_at i (f x) (map f l).
Proof.
  revert i; induction l as [|y l IH]; intros [|i]; simpl; try reflexivity.
  now rewrite IH.
Qed.

Lemma replace_at_length {A} i (x : A) l : length (replace_at i x l) = length l.
Proof. revert i; induction l as [|y l IH]; intros [|i]; simpl; auto. Qed.

Lemma nth_error_replace_at_same {A} i (x : A) l :
  i < length l -> nth_error (replace_at i x l) i = Some x.
Proof.
  revert i; induction l as [|y l IH]; intros [|i] Hi; simpl in *; try lia; auto.
  apply IH; lia.
Qed.

Lemma nth_error_replace_at_other {A} i j (x : A) l :
  i <> j -> nth_error (replace_at i x l) j = nth_error l j.
Proof.
  revert i j; induction l as [|y l IH]; intros [|i] [|j] Hij; simpl; auto; try congruence.
Qed.

Definition nofatal (l : list result) : Prop := Forall (fun r => is_fatal r = false) l.

Lemma cut_fatal_nofatal l : nofatal l -> cut_fatal l = l.
Proof.
  induction 1 as [|r l Hr _ IH]; simpl; [reflexivity|]. now rewrite Hr, IH.
Qed.

Lemma cut_fatal_app_nofatal x y : nofatal x -> cut_fatal (x ++ y) = x ++ cut_fatal y.
Proof.
  induction 1 as [|r l Hr _ IH]; simpl; [reflexivity|]. now rewrite Hr, IH.
Qed.

Lemma cut_fatal_idem l : cut_fatal (cut_fatal l) = cut_fatal l.
Proof.
  induction l as [|r l IH]; simpl; [reflexivity|].
  destruct (is_fatal r) eqn:E; simpl; rewrite E; [reflexivity|now rewrite IH].
Qed.

(* the general concatenation law: the second half is only reached if the first has no terminal
   result *)
Lemma cut_fatal_app x y : cut_fatal (x ++ y) = cut_fatal (cut_fatal x ++ cut_fatal y).
Proof.
  induction x as [|r x IH]; simpl; [now rewrite cut_fatal_idem|].
  destruct (is_fatal r) eqn:E; simpl; rewrite E; [reflexivity|now rewrite IH].
Qed.

Lemma nofatal_map_permute pi (l : list result) : nofatal l -> nofatal (permute pi l).
Proof.
  intros Hl. unfold permute, nofatal. apply Forall_forall. intros r Hr.
  apply in_flat_map in Hr as (i & _ & Hr).
  destruct (nth_error l i) eqn:E; simpl in Hr; [|contradiction].
  destruct Hr as [<-|[]]. apply nth_error_In in E.
  now apply (proj1 (Forall_forall _ _) Hl).
Qed.

(* ---- the allocator ------------------------------------------------------------------------------- *)
(* [used]: every ID that was ever handed out (monotone). *)
Definition AInv (used : list N) (a : alloc) : Prop :=
  NoDup (a_pool a) /\
  Forall (fun i => (i <= a_next a)%N) (a_pool a) /\
  Forall (fun i => (i <= a_next a)%N) used /\
  (forall i, In i used -> ~ In i (a_pool a)).

Lemma AInv_equiv used used' a :
  (forall x, In x used' -> In x used) -> AInv used a -> AInv used' a.
Proof.
  intros Hs (H1 & H2 & H3 & H4). split; [exact H1|]. split; [exact H2|]. split.
  - apply Forall_forall. intros x Hx. apply (proj1 (Forall_forall _ _) H3). auto.
  - intros i Hi. apply H4. auto.
Qed.

Lemma remove_nth_In {A} k (l : list A) x : In x (remove_nth k l) -> In x l.
Proof.
  revert k; induction l as [|y l IH]; intros [|k]; simpl; try tauto.
  intros [->|H]; [now left|right; eauto].
Qed.

Lemma remove_nth_NoDup {A} k (l : list A) : NoDup l -> NoDup (remove_nth k l).
Proof.
  revert k; induction l as [|y l IH]; intros [|k] Hn; simpl; auto.
  - now inversion Hn.
  - inversion Hn; subst. constructor; auto. intro Hx. apply remove_nth_In in Hx. auto.
Qed.

Lemma remove_nth_not_In {A} k (l : list A) x :
  NoDup l -> nth_error l k = Some x -> ~ In x (remove_nth k l).
Proof.
  revert k; induction l as [|y l IH]; intros [|k] Hn Hk; simpl in *; try discriminate.
  - inversion Hk; subst. now inversion Hn.
  - inversion Hn; subst. intros [->|Hx].
    + apply nth_error_In in Hk. auto.
    + eapply IH; eauto.
Qed.

Lemma fresh_node_spec used a ps i a' :
  AInv used a -> fresh_node a ps = (i, a') ->
  ~ In i used /\ AInv (i :: used) a' /\ a_pooling a' = a_pooling a.
Proof.
  intros (H1 & H2 & H3 & H4) E. unfold fresh_node in E. inversion E; subst; clear E.
  split; [|split; [|reflexivity]].
  - intro Hi. apply (proj1 (Forall_forall _ _) H3) in Hi. lia.
  - repeat split; simpl; auto.
    + eapply Forall_impl; [|exact H2]. simpl. intros; lia.
    + constructor; [lia|]. eapply Forall_impl; [|exact H3]. simpl. intros; lia.
    + intros j [<-|Hj]; auto. intro Hp. apply (proj1 (Forall_forall _ _) H2) in Hp. lia.
Qed.

Lemma create_node_spec used a i a' :
  AInv used a -> create_node a = (i, a') ->
  ~ In i used /\ AInv (i :: used) a' /\ a_pooling a' = a_pooling a.
Proof.
  intros Ha E. unfold create_node in E.
  destruct (a_pooling a) eqn:Ep.
  - destruct (a_picks a) as [|k ps].
    + eapply fresh_node_spec in E; eauto. rewrite Ep in E. exact E.
    + destruct (nth_error (a_pool a) k) as [j|] eqn:Ek.
      * inversion E; subst; clear E. destruct Ha as (H1 & H2 & H3 & H4).
        pose proof (nth_error_In _ _ Ek) as Hin.
        split; [|split; [|reflexivity]].
        { intro Hu. exact (H4 _ Hu Hin). }
        repeat split; simpl.
        { now apply remove_nth_NoDup. }
        { apply Forall_forall. intros x Hx. apply remove_nth_In in Hx.
          now apply (proj1 (Forall_forall _ _) H2). }
        { constructor; auto. now apply (proj1 (Forall_forall _ _) H2). }
        { intros x [<-|Hx].
          - now apply remove_nth_not_In.
          - intro Hp. apply remove_nth_In in Hp. exact (H4 _ Hx Hp). }
      * eapply fresh_node_spec in E; eauto. rewrite Ep in E. exact E.
  - eapply fresh_node_spec in E; eauto. rewrite Ep in E. exact E.
Qed.

Lemma alloc_n_spec n : forall used a l a',
  AInv used a -> alloc_n n a = (l, a') ->
  length l = n /\ NoDup l /\ (forall i, In i l -> ~ In i used) /\ AInv (l ++ used) a'
  /\ a_pooling a' = a_pooling a.
Proof.
  induction n as [|n IH]; intros used a l a' Ha E; simpl in E.
  - inversion E; subst. simpl. split; [reflexivity|]. split; [constructor|].
    split; [intros i []|]. split; [exact Ha|reflexivity].
  - destruct (create_node a) as [i a1] eqn:E1.
    destruct (alloc_n n a1) as [l1 a2] eqn:E2. inversion E; subst; clear E.
    destruct (create_node_spec _ _ _ _ Ha E1) as (Hi & Ha1 & Hp1).
    destruct (IH _ _ _ _ Ha1 E2) as (Hl & Hn & Hd & Ha2 & Hp2).
    simpl. split; [now rewrite Hl|].
    split; [constructor; auto; intro Hx; apply Hd in Hx; apply Hx; now left|].
    split; [intros j [<-|Hj]; [exact Hi|intro Hu; apply (Hd _ Hj); now right]|].
    split; [|congruence].
    eapply AInv_equiv; [|exact Ha2]. intros x Hx. simpl in Hx.
    apply in_or_app. destruct Hx as [<-|Hx]; [right; now left|].
    apply in_app_or in Hx as [Hx|Hx]; [now left|right; now right].
Qed.

Lemma release_spec n : forall used a, AInv used a -> AInv used (release n a) /\ a_pooling (release n a) = a_pooling a.
Proof.
  induction n as [|n IH]; intros used a Ha; simpl; [auto|].
  destruct (a_pooling a) eqn:Ep; [|auto].
  destruct Ha as (H1 & H2 & H3 & H4).
  destruct (IH used (mkA (N.succ (a_next a)) (N.succ (a_next a) :: a_pool a) true (a_picks a))) as [Hr Hp].
  - repeat split; simpl.
    + constructor; auto. intro Hx. apply (proj1 (Forall_forall _ _) H2) in Hx. lia.
    + constructor; [lia|]. eapply Forall_impl; [|exact H2]. simpl; intros; lia.
    + eapply Forall_impl; [|exact H3]. simpl; intros; lia.
    + intros i Hi [<-|Hp]; [|exact (H4 _ Hi Hp)].
      apply (proj1 (Forall_forall _ _) H3) in Hi. lia.
  - split; [exact Hr|]. rewrite Hp. reflexivity.
Qed.

(* ---- injective renamings between duplicate-free ID lists ------------------------------------ *)
Lemma rename_exists : forall (l l' : list N),
  length l = length l' -> NoDup l -> NoDup l' ->
  exists f, map f l = l' /\ (forall x y, In x l -> In y l -> f x = f y -> x = y).
Proof.
  induction l as [|a l IH]; intros [|a' l'] Hlen Hn Hn'; simpl in Hlen; try discriminate.
  - exists (fun x => x). split; [reflexivity|]. intros x y [].
  - inversion Hn; subst. inversion Hn'; subst.
    destruct (IH l') as (f0 & Hm & Hinj); auto.
    exists (fun x => if N.eqb x a then a' else f0 x). split.
    + simpl. rewrite N.eqb_refl. f_equal. rewrite <- Hm. apply map_ext_in.
      intros x Hx. destruct (N.eqb_spec x a); [subst; contradiction|reflexivity].
    + assert (Himg : forall x, In x l -> In (f0 x) l').
      { intros x Hx. rewrite <- Hm. now apply in_map. }
      intros x y Hx Hy. simpl in Hx, Hy.
      destruct (N.eqb_spec x a) as [->|Hxa]; destruct (N.eqb_spec y a) as [->|Hya]; auto.
      * intro E. destruct Hy as [Hy|Hy]; [congruence|]. apply Himg in Hy. congruence.
      * intro E. destruct Hx as [Hx|Hx]; [congruence|]. apply Himg in Hx. congruence.
      * intro E. destruct Hx as [Hx|Hx]; [congruence|]. destruct Hy as [Hy|Hy]; [congruence|]. auto.
Qed.

Lemma app_eq_length {A} (a a' b b' : list A) :
  length a = length a' -> a ++ b = a' ++ b' -> a = a' /\ b = b'.
Proof.
  revert a'; induction a as [|x a IH]; intros [|x' a'] Hl E; simpl in *; try discriminate; auto.
  inversion E; subst. destruct (IH a') as [-> ->]; auto.
Qed.

Lemma NoDup_app_intro {A} (a b : list A) :
  NoDup a -> NoDup b -> (forall x, In x a -> In x b -> False) -> NoDup (a ++ b).
Proof.
  induction 1 as [|x a Hx _ IH]; intros Hb Hd; simpl; [exact Hb|].
  constructor.
  - intro Hi. apply in_app_or in Hi as [Hi|Hi]; [auto|]. apply (Hd x); [now left|exact Hi].
  - apply IH; auto. intros y Hy. apply Hd. now right.
Qed.

Lemma seq_of_nat_NoDup s n : NoDup (map N.of_nat (seq s n)).
Proof.
  apply FinFun.Injective_map_NoDup; [|apply seq_NoDup].
  intros x y. apply Nat2N.inj.
Qed.

Lemma canon_world_NoDup ctx t : NoDup (w_ids (canon_world ctx t)).
Proof.
  unfold w_ids, canon_world; simpl.
  change (NoDup (map N.of_nat [1] ++ (map N.of_nat (seq 2 (ctx_size ctx)) ++ map N.of_nat (seq (2 + ctx_size ctx) (tree_size t))))).
  rewrite <- !map_app. rewrite <- seq_app.
  change ([1] ++ seq 2 (ctx_size ctx + tree_size t)) with (seq 1 (S (ctx_size ctx + tree_size t))).
  apply seq_of_nat_NoDup.
Qed.

(* ---- the main lemma --------------------------------------------------------------------------------- *)
Section Local.
  Variable schema V C : Type.
  Variable c0 : C.
  Variable eval : bool -> C -> schema -> world -> option V * C.
  Variable marshal : V -> option bytes.
  Variable marshal_err_cont : bool.
  Variable H : bytes -> bytes.
  Variable canon : tree -> bytes.

  (* cache invariant, relative to the IDs handed out so far: every node-JSON entry is filed
     under such an ID; expression / program entries are the compilation of their key; pooled
     VMs carry no user globals *)
  Variable CInv : list N -> C -> Prop.
  (* guard: under this schema the node-JSON cache is only consulted for nodes whose content
     cannot change while they keep their ID (nodes of the record itself) - DESIGN section 6 F6 *)
  Variable content_stable_per_id : schema -> Prop.

  (* Integration note (C02 builder, /work/c02 commit 102d232, Proofs/EvalCache.v): the evaluator
     there is  eval root query ... K K_eqb nid disable false d p m  with node IDs a FUNCTION
     nid : path -> K.  Conversion: world -> (root tree = T DocumentNode [] FNone (w_ctx ++ [w_rec]),
     cursor p = the last child, nid = preorder lookup in w_ids).  Then
       eval_cache_transparent = caches_invisible_eval at m = [] (disable false vs true),
       eval_id_renaming       = C02's eval_id_renaming at nid' := f o nid  (w_rename f only
                                post-composes nid; NoDup (w_ids w) gives injectivity on V),
       eval_hash_renaming     = immediate: both sides equal eval_nocache, which never reads hashes
                                (C02 models a hash as its equivalence class). *)
  Hypothesis CInv_mono : forall used used' c,
    (forall x, In x used -> In x used') -> CInv used c -> CInv used' c.
  (* C02: the per-record memo only saves work *)
  Hypothesis eval_cache_transparent : forall s w,
    content_stable_per_id s -> NoDup (w_ids w) ->
    fst (eval true c0 s w) = fst (eval false c0 s w).
  (* C02: node IDs are only compared for equality *)
  Hypothesis eval_id_renaming : forall (f : N -> N) m s w,
    content_stable_per_id s -> NoDup (w_ids w) ->
    (forall x y, In x (w_ids w) -> In y (w_ids w) -> f x = f y -> x = y) ->
    fst (eval m c0 s (w_rename f w)) = fst (eval m c0 s w).
  (* C13 cache ingredients at evaluator level (expr_cache_pure, js_isolation, node_json_fresh):
     from any cache state satisfying the invariant the result is the one with empty caches, and
     the invariant is kept, the record's IDs now counting as used *)
  Hypothesis eval_caches_sound : forall used c m s w,
    CInv used c -> (forall i, In i (w_rec_ids w) -> ~ In i used) -> content_stable_per_id s ->
    NoDup (w_ids w) ->
    fst (eval m c s w) = fst (eval m c0 s w) /\ CInv (w_rec_ids w ++ used) (snd (eval m c s w)).

  Notation run_units_st := (run_units_st schema V C eval marshal marshal_err_cont H canon).
  Notation run_env := (run_env schema V C eval marshal marshal_err_cont H canon).
  Notation after := (after schema V C eval marshal marshal_err_cont H canon).
  Notation results := (results schema V C c0 eval marshal marshal_err_cont H canon).
  Notation unit_result := (unit_result schema V C c0 eval marshal marshal_err_cont H canon).
  Notation finish := (finish V marshal marshal_err_cont H canon).

  Definition Inv (h : hid C) : Prop := exists used, AInv used (h_alloc h) /\ CInv used (h_caches h).

  Lemma eval_world_local memo s root ctx cids t ids used c :
    CInv used c -> content_stable_per_id s ->
    (forall i, In i ids -> ~ In i used) ->
    NoDup (root :: cids ++ ids) -> length cids = ctx_size ctx -> length ids = tree_size t ->
    fst (eval memo c s (mkW root ctx cids t ids)) = fst (eval false c0 s (canon_world ctx t))
    /\ CInv (ids ++ used) (snd (eval memo c s (mkW root ctx cids t ids))).
  Proof.
    intros Hc Hg Hfresh Hnd Hlc Hli.
    set (w := mkW root ctx cids t ids).
    destruct (eval_caches_sound used c memo s w Hc Hfresh Hg Hnd) as [E1 Hc1].
    split; [|exact Hc1].
    rewrite E1.
    assert (E2 : fst (eval memo c0 s w) = fst (eval false c0 s w)).
    { destruct memo; [apply eval_cache_transparent; assumption|reflexivity]. }
    rewrite E2.
    destruct (rename_exists (w_ids (canon_world ctx t)) (w_ids w)) as (f & Hm & Hinj).
    - unfold w_ids, canon_world, w; simpl. rewrite !app_length, !map_length, !seq_length. lia.
    - apply canon_world_NoDup.
    - exact Hnd.
    - assert (Ew : w = w_rename f (canon_world ctx t)).
      { unfold w_ids in Hm. simpl in Hm. rewrite map_app in Hm.
        inversion Hm as [[Hr Hrest]].
        apply app_eq_length in Hrest as [Hcs Hrs].
        - unfold w_rename, w; simpl. rewrite Hr, Hcs, Hrs. reflexivity.
        - rewrite !map_length, seq_length. lia. }
      rewrite Ew. apply eval_id_renaming; [exact Hg|apply canon_world_NoDup|exact Hinj].
  Qed.

  (* record_local: the loop started in ANY consistent hidden state yields [results], and leaves
     a consistent hidden state behind *)
  Lemma run_units_local memo s root ctx cids : content_stable_per_id s ->
    length cids = ctx_size ctx -> NoDup (root :: cids) ->
    forall us used a c prev,
      AInv used a -> CInv used c -> (forall x, In x (root :: cids) -> In x used) ->
      fst (run_units_st memo s root ctx cids a c prev us) = results s ctx us /\
      exists used', AInv used' (fst (snd (run_units_st memo s root ctx cids a c prev us))) /\
                    CInv used' (snd (snd (run_units_st memo s root ctx cids a c prev us))).
  Proof.
    intros Hg Hlc Hndc. induction us as [|u us IH]; intros used a c prev Ha Hc Henv.
    { split; [reflexivity|]. exists used. simpl. auto. }
    unfold Pipeline.results. simpl.
    destruct (release_spec prev used a Ha) as [Ha0 _].
    destruct u as [t| |]; simpl.
    - destruct (alloc_n (tree_size t) (release prev a)) as [ids a1] eqn:Eal.
      destruct (alloc_n_spec _ _ _ _ _ Ha0 Eal) as (Hl & Hnd & Hfresh & Ha1 & _).
      assert (Hndw : NoDup (root :: cids ++ ids)).
      { change (NoDup ((root :: cids) ++ ids)). apply NoDup_app_intro; auto.
        intros x Hx Hi. apply (Hfresh _ Hi). auto. }
      destruct (eval_world_local memo s root ctx cids t ids used c Hc Hg Hfresh Hndw Hlc Hl) as [E Hc1].
      destruct (eval memo c s (mkW root ctx cids t ids)) as [ov c1] eqn:Eev. simpl in E, Hc1.
      rewrite E.
      destruct (is_fatal (finish t (fst (eval false c0 s (canon_world ctx t))))).
      { split; [reflexivity|]. exists (ids ++ used). simpl. auto. }
      destruct (IH (ids ++ used) a1 c1 (tree_size t)) as [IH1 IH2]; auto.
      { intros x Hx. apply in_or_app. right. auto. }
      destruct (run_units_st memo s root ctx cids a1 c1 (tree_size t) us) as [rs st] eqn:Er.
      simpl in *. split; [now rewrite IH1|exact IH2].
    - destruct (IH used (release prev a) c 0) as [IH1 IH2]; auto.
      destruct (run_units_st memo s root ctx cids (release prev a) c 0 us) as [rs st] eqn:Er.
      simpl in *. split; [now rewrite IH1|exact IH2].
    - split; [reflexivity|]. exists used. simpl. auto.
  Qed.

  Lemma run_env_st_local h s ctx us : Inv h -> content_stable_per_id s ->
    run_env h s ctx us = results s ctx us /\ Inv (after h s ctx us).
  Proof.
    intros (used & Ha & Hc) Hg. unfold Pipeline.run_env, Pipeline.after, Pipeline.run_env_st.
    destruct (alloc_n (S (ctx_size ctx)) (h_alloc h)) as [ids a1] eqn:Eal.
    destruct (alloc_n_spec _ _ _ _ _ Ha Eal) as (Hl & Hnd & Hfresh & Ha1 & _).
    destruct ids as [|root cids]; [discriminate|].
    destruct (run_units_local (h_memo h) s root ctx cids Hg) with (us := us)
      (used := (root :: cids) ++ used) (a := a1) (c := h_caches h) (prev := 0) as [E (used' & Ha' & Hc')].
    - simpl in Hl. lia.
    - exact Hnd.
    - exact Ha1.
    - eapply CInv_mono; [|exact Hc]. intros x Hx. apply in_or_app. now right.
    - intros x Hx. apply in_or_app. now left.
    - destruct (run_units_st (h_memo h) s root ctx cids a1 (h_caches h) 0 us) as [rs [a2 c2]].
      simpl in *. split; [exact E|]. exists used'. simpl. auto.
  Qed.

  Theorem run_env_local h s ctx us : Inv h -> content_stable_per_id s ->
    run_env h s ctx us = results s ctx us.
  Proof. intros Hh Hg. apply (run_env_st_local h s ctx us Hh Hg). Qed.

  Theorem Inv_after h s ctx us : Inv h -> content_stable_per_id s -> Inv (after h s ctx us).
  Proof. intros Hh Hg. apply (run_env_st_local h s ctx us Hh Hg). Qed.

  (* ---- C13 ---- *)
  Theorem caches_invisible_env h h' s ctx us :
    Inv h -> Inv h' -> content_stable_per_id s -> run_env h s ctx us = run_env h' s ctx us.
  Proof. intros. rewrite !run_env_local; auto. Qed.

  (* ---- C15: process histories ---- *)
  Fixpoint after_history (h : hid C) (hist : list (schema * list tree * list runit)) : hid C :=
    match hist with
    | [] => h
    | (s, ctx, us) :: r => after_history (after h s ctx us) r
    end.

  Lemma Inv_after_history hist : forall h,
    Inv h -> Forall (fun x => content_stable_per_id (fst (fst x))) hist -> Inv (after_history h hist).
  Proof.
    induction hist as [|[[s ctx] us] r IH]; intros h Hh Hf; simpl; [exact Hh|].
    inversion Hf; subst. apply IH; auto. apply Inv_after; auto.
  Qed.

  Theorem run_after_history h h' hist s ctx us :
    Inv h -> Inv h' -> Forall (fun x => content_stable_per_id (fst (fst x))) hist ->
    content_stable_per_id s ->
    run_env (after_history h hist) s ctx us = run_env h' s ctx us.
  Proof.
    intros Hh Hh' Hf Hg. apply caches_invisible_env; auto. apply Inv_after_history; auto.
  Qed.

  (* ---- C10 ---- *)
  Lemma nofatal_cut l : nofatal (cut_fatal l) -> nofatal l.
  Proof.
    induction l as [|r l IH]; simpl; [auto|].
    destruct (is_fatal r) eqn:E; intro Hn.
    - inversion Hn; subst. congruence.
    - inversion Hn; subst. constructor; auto. apply IH; auto.
  Qed.

  Theorem run_app_gen h ha hb s ctx a b :
    Inv h -> Inv ha -> Inv hb -> content_stable_per_id s ->
    run_env h s ctx (a ++ b) = cut_fatal (run_env ha s ctx a ++ run_env hb s ctx b).
  Proof.
    intros. rewrite !run_env_local; auto. unfold Pipeline.results.
    rewrite map_app. apply cut_fatal_app.
  Qed.

  Theorem run_app h ha hb s ctx a b :
    Inv h -> Inv ha -> Inv hb -> content_stable_per_id s ->
    nofatal (run_env ha s ctx a) ->
    run_env h s ctx (a ++ b) = run_env ha s ctx a ++ run_env hb s ctx b.
  Proof.
    intros Hh Ha Hb Hg Hn. rewrite !run_env_local in *; auto. unfold Pipeline.results in *.
    rewrite map_app. apply nofatal_cut in Hn.
    rewrite cut_fatal_app_nofatal; auto. now rewrite (cut_fatal_nofatal _ Hn).
  Qed.

  Theorem run_perm h h' s ctx us pi :
    Inv h -> Inv h' -> content_stable_per_id s ->
    nofatal (run_env h' s ctx us) ->
    run_env h s ctx (permute pi us) = permute pi (run_env h' s ctx us).
  Proof.
    intros Hh Hh' Hg Hn. rewrite !run_env_local in *; auto. unfold Pipeline.results in *.
    apply nofatal_cut in Hn. rewrite map_permute.
    rewrite (cut_fatal_nofatal _ Hn). apply cut_fatal_nofatal. now apply nofatal_map_permute.
  Qed.

  Lemma nofatal_replace_at i r l : is_fatal r = false -> nofatal l -> nofatal (replace_at i r l).
  Proof.
    intros Hr Hl. revert i. induction Hl as [|y l Hy Hl' IH]; intros [|i]; simpl.
    - constructor.
    - constructor.
    - constructor; [exact Hr|exact Hl'].
    - constructor; [exact Hy|apply IH].
  Qed.

  Theorem run_replace_failing h h' s ctx us i t' :
    Inv h -> Inv h' -> content_stable_per_id s ->
    nofatal (run_env h' s ctx us) ->
    fst (eval false c0 s (canon_world ctx t')) = None ->
    run_env h s ctx (replace_at i (URec t') us) = replace_at i RFail (run_env h' s ctx us).
  Proof.
    intros Hh Hh' Hg Hn Hf. rewrite !run_env_local in *; auto. unfold Pipeline.results in *.
    apply nofatal_cut in Hn. rewrite map_replace_at. simpl. rewrite Hf. simpl.
    rewrite (cut_fatal_nofatal _ Hn). apply cut_fatal_nofatal. now apply nofatal_replace_at.
  Qed.

  (* every result is the reference result of its own unit *)
  Theorem record_local h s ctx us i u :
    Inv h -> content_stable_per_id s -> nofatal (run_env h s ctx us) ->
    nth_error us i = Some u -> nth_error (run_env h s ctx us) i = Some (unit_result s ctx u).
  Proof.
    intros Hh Hg Hn Hi. rewrite run_env_local in *; auto. unfold Pipeline.results in *.
    apply nofatal_cut in Hn. rewrite (cut_fatal_nofatal _ Hn).
    rewrite nth_error_map, Hi. reflexivity.
  Qed.

  (* ---- C15: checksums ---- *)
  Theorem checksum_of_record h s ctx us i t out sum :
    Inv h -> content_stable_per_id s -> nofatal (run_env h s ctx us) ->
    nth_error us i = Some (URec t) -> nth_error (run_env h s ctx us) i = Some (RRec out sum) ->
    sum = H (canon t).
  Proof.
    intros Hh Hg Hn Hi Hr. rewrite (record_local h s ctx us i _ Hh Hg Hn Hi) in Hr.
    simpl in Hr. unfold Pipeline.finish in Hr.
    destruct (fst (eval false c0 s (canon_world ctx t))); [|discriminate].
    destruct (marshal v); [congruence|]. destruct marshal_err_cont; discriminate.
  Qed.

  (* ---- C15: declaration hashes ---- *)
  (* validate.go:217-259 assigns random (uuid) hashes to declarations, equal for textually equal
     ones; [rehash g s] is s with every hash h replaced by g h *)
  Variable rehash : (N -> N) -> schema -> schema.
  Hypothesis eval_hash_renaming : forall (g : N -> N) m s w,
    (forall x y, g x = g y -> x = y) ->
    fst (eval m c0 (rehash g s) w) = fst (eval m c0 s w).
  Hypothesis guard_rehash : forall g s, content_stable_per_id s -> content_stable_per_id (rehash g s).

  Theorem hash_assignment_irrelevant h h' g s ctx us :
    Inv h -> Inv h' -> content_stable_per_id s -> (forall x y, g x = g y -> x = y) ->
    run_env h (rehash g s) ctx us = run_env h' s ctx us.
  Proof.
    intros Hh Hh' Hg Hinj. rewrite !run_env_local; auto. unfold Pipeline.results.
    f_equal. apply map_ext. intros [t| |]; simpl; auto.
    now rewrite eval_hash_renaming.
  Qed.

  (* ---- the same statements over the reader ---- *)
  Variable input : Type.
  Variable reader : input -> list tree * list runit.
  Notation run := (run schema V C eval marshal marshal_err_cont H canon input reader).

  Theorem caches_invisible h h' s i :
    Inv h -> Inv h' -> content_stable_per_id s -> run h s i = run h' s i.
  Proof.
    intros. unfold Pipeline.run. destruct (reader i) as [ctx us]. now apply caches_invisible_env.
  Qed.

  Theorem run_deterministic_history h h' hist s i :
    Inv h -> Inv h' -> Forall (fun x => content_stable_per_id (fst (fst x))) hist ->
    content_stable_per_id s ->
    run (after_history h hist) s i = run h' s i.
  Proof.
    intros. unfold Pipeline.run. destruct (reader i) as [ctx us]. now apply run_after_history.
  Qed.
End Local.
