(* C06 proofs, part 6: csv2 over arbitrary sequences of RecReader calls.  The records that
   encoding/csv returns form a stream; the reader's buffer always denotes the part of the stream
   read and not yet consumed; every delivered record node is node_spec of the next rows of the
   stream, consecutive deliveries take consecutive segments (input order, nothing skipped, nothing
   twice), and no slice index is ever out of range. *)
From Coq Require Import List NArith Bool Arith Lia.
From Coq.Strings Require Import Byte.
Import ListNotations.
From OV Require Import Base.Bytes Base.Utf8 Base.Cases Base.Tree Model.Csv Proofs.DelimUtf8 Proofs.DelimCsv
  Proofs.DelimReaders.

Section Csv2Seq.
  Variable re_match : pat -> bytes -> bool.
  Variable comma : rune.
  Variable delim : bytes.
  Notation rep := (rep delim).
  Notation node_spec := (node_spec re_match delim).

  (* the records successfully read from csv state c0 on, in order, and the state reached *)
  Inductive stream (c0 : cst) : cst -> list (list bytes) -> Prop :=
  | st_nil : stream c0 c0 []
  | st_rec c all rec c' : stream c0 c all -> csv_next comma c = (CRec rec, c') ->
                          stream c0 c' (all ++ [rec])
  | st_skip c all r c' : stream c0 c all -> csv_next comma c = (r, c') ->
                         (forall rec, r <> CRec rec) -> stream c0 c' all.

  (* all: the stream read so far; k: how many of its rows have been consumed *)
  Definition sinv (c0 : cst) (s : st2) (all : list (list bytes)) (k : nat) : Prop :=
    k <= length all /\ rep s (skipn k all) /\ stream c0 (s_c s) all.

  Definition no_panic {A} (r : res A) : Prop := forall p, r <> Err (OPanic p).

  Lemma skipn_snoc {A} k (all : list A) x : k <= length all -> skipn k (all ++ [x]) = skipn k all ++ [x].
  Proof. intro H. rewrite skipn_app. replace (k - length all) with 0 by lia. reflexivity. Qed.

  Lemma skipn_app_le {A} k (all more : list A) : k <= length all ->
    skipn k (all ++ more) = skipn k all ++ more.
  Proof. intro H. rewrite skipn_app. replace (k - length all) with 0 by lia. reflexivity. Qed.

  Lemma firstn_add {A} k n (l : list A) : firstn (k + n) l = firstn k l ++ firstn n (skipn k l).
  Proof.
    revert l. induction k as [|k IH]; intro l; [reflexivity|].
    destruct l as [|a l]; [simpl; rewrite firstn_nil; reflexivity|]. simpl. rewrite IH. reflexivity.
  Qed.

  (* ---- reader.readLine ---- *)
  Lemma readline_I c0 s all k : sinv c0 s all k ->
    exists more, sinv c0 (snd (c2_readline comma s)) (all ++ more) k
      /\ (fst (c2_readline comma s) = Ok true -> length more = 1)
      /\ (fst (c2_readline comma s) <> Ok true -> more = [])
      /\ no_panic (fst (c2_readline comma s)).
  Proof.
    intros (Hk & Hr & Hs).
    pose proof (c2_readline_rep comma delim s _ Hr) as H.
    destruct (csv_next comma (s_c s)) as [r c'] eqn:E.
    assert (Hc : s_c (snd (c2_readline comma s)) = c').
    { unfold c2_readline. rewrite E. destruct r; reflexivity. }
    destruct r as [rec| | | |].
    - destruct H as (s' & Es & H' & _). rewrite Es in *. cbn [fst snd] in *.
      exists [rec]. split; [|split; [reflexivity|split; [congruence|intros p Ep; discriminate]]].
      split; [rewrite app_length; lia|]. split; [rewrite skipn_snoc by lia; exact H'|].
      rewrite Hc. eapply st_rec; [exact Hs|exact E].
    - destruct H as (o & s' & Es & Ho & H'). rewrite Es in *. cbn [fst snd] in *.
      exists []. rewrite app_nil_r. split; [|split; [discriminate|split; [reflexivity|]]].
      + split; [exact Hk|]. split; [exact H'|]. rewrite Hc. eapply st_skip; [exact Hs|exact E|intros rec0 Er0; discriminate].
      + intros p Ep. destruct Ho as [-> | ->]; discriminate.
    - destruct H as (s' & Es & H' & _). rewrite Es in *. cbn [fst snd] in *.
      exists []. rewrite app_nil_r. split; [|split; [discriminate|split; [reflexivity|intros p Ep; discriminate]]].
      split; [exact Hk|]. split; [exact H'|]. rewrite Hc. eapply st_skip; [exact Hs|exact E|intros rec0 Er0; discriminate].
    - destruct H as (o & s' & Es & Ho & H'). rewrite Es in *. cbn [fst snd] in *.
      exists []. rewrite app_nil_r. split; [|split; [discriminate|split; [reflexivity|]]].
      + split; [exact Hk|]. split; [exact H'|]. rewrite Hc. eapply st_skip; [exact Hs|exact E|intros rec0 Er0; discriminate].
      + intros p Ep. destruct Ho as [-> | ->]; discriminate.
    - destruct H as (o & s' & Es & Ho & H'). rewrite Es in *. cbn [fst snd] in *.
      exists []. rewrite app_nil_r. split; [|split; [discriminate|split; [reflexivity|]]].
      + split; [exact Hk|]. split; [exact H'|]. rewrite Hc. eapply st_skip; [exact Hs|exact E|intros rec0 Er0; discriminate].
      + intros p Ep. destruct Ho as [-> | ->]; discriminate.
  Qed.

  Lemma I_lines c0 s all k : sinv c0 s all k -> length (s_lines s) = length all - k.
  Proof.
    intros (Hk & (Hl & _) & _). rewrite (layout_length delim _ _ _ Hl), skipn_length. reflexivity.
  Qed.

  (* ---- the outcome of one ReadAndMatch ---- *)
  Definition post (c0 : cst) (all : list (list bytes)) (k : nat) (d : rec2) (create : bool)
             (r : res (bool * option tree)) (s' : st2) : Prop :=
    exists more, let all' := all ++ more in
      no_panic r /\
      match r with
      | Ok (true, Some t) =>
          create = true /\ exists n, k + n <= length all'
            /\ t = node_spec d (firstn n (skipn k all')) /\ sinv c0 s' all' (k + n)
      | _ => sinv c0 s' all' k
      end.

  Lemma take_record2_post c0 s all k d n create : sinv c0 s all k -> k + n <= length all ->
    post c0 all k d create (fst (take_record2 re_match delim d n create s))
                           (snd (take_record2 re_match delim d n create s)).
  Proof.
    intros (Hk & Hr & Hs) Hl. exists []. cbn zeta. rewrite app_nil_r.
    destruct create.
    - destruct (take_record2_rep re_match delim d n s _ Hr ltac:(rewrite skipn_length; lia))
        as (s' & -> & H' & Hc). cbn [fst snd].
      split; [intros p E; discriminate|]. split; [reflexivity|]. exists n.
      split; [exact Hl|]. split; [reflexivity|].
      split; [lia|]. split; [rewrite <- skipn_skipn'; exact H'|]. rewrite Hc. exact Hs.
    - unfold take_record2. cbn [fst snd]. split; [intros p E; discriminate|].
      split; [exact Hk|split; [exact Hr|exact Hs]].
  Qed.

  Lemma post_more c0 all m k d create r s' : post c0 (all ++ m) k d create r s' -> post c0 all k d create r s'.
  Proof.
    intros (more & Hp & H). exists (m ++ more). cbn zeta in *. rewrite app_assoc. auto.
  Qed.

  Lemma fill_rows2_I n c0 : forall fuel s all k, sinv c0 s all k ->
    exists more, sinv c0 (snd (fill_rows2 comma fuel n s)) (all ++ more) k
      /\ (fst (fill_rows2 comma fuel n s) = Ok true -> k + n <= length (all ++ more))
      /\ no_panic (fst (fill_rows2 comma fuel n s)).
  Proof.
    induction fuel as [|fuel IH]; intros s all k H.
    - exists []. rewrite app_nil_r. cbn. split; [exact H|]. split; [discriminate|intros p E; discriminate].
    - cbn [fill_rows2]. destruct (length (s_lines s) <? n) eqn:El.
      + destruct (readline_I c0 s all k H) as (m & Hm & Hm1 & Hm2 & Hm3).
        destruct (c2_readline comma s) as [r s1]. cbn [fst snd] in *.
        destruct r as [[|]|o].
        * destruct (IH s1 _ k Hm) as (more & H1 & H2 & H3).
          exists (m ++ more). rewrite app_assoc. auto.
        * exists m. destruct (Nat.eqb (length (s_lines s1)) 0); cbn [fst snd];
            (split; [exact Hm|split; [discriminate|intros p E; discriminate]]).
        * exists m. cbn [fst snd]. split; [exact Hm|]. split; [discriminate|].
          intros p E. inversion E; subst. exact (Hm3 p eq_refl).
      + exists []. rewrite app_nil_r. cbn [fst snd]. split; [exact H|]. split; [|intros p E; discriminate].
        intros _. apply Nat.ltb_ge in El. rewrite (I_lines c0 s all k H) in El. destruct H as (Hk & _). lia.
  Qed.

  Lemma footer_loop2_post c0 d footer create : forall fuel i s all k,
    sinv c0 s all k -> k + i < length all ->
    post c0 all k d create (fst (footer_loop2 re_match comma delim fuel d footer create i s))
                           (snd (footer_loop2 re_match comma delim fuel d footer create i s)).
  Proof.
    induction fuel as [|fuel IH]; intros i s all k H Hi.
    - exists []. cbn zeta. rewrite app_nil_r. cbn. split; [intros p E; discriminate|exact H].
    - cbn [footer_loop2]. destruct H as (Hk & Hr & Hs).
      destruct (nth_error (skipn k all) i) as [row|] eqn:Er.
      2:{ apply nth_error_None in Er. rewrite skipn_length in Er. lia. }
      destruct (footer_match_rep re_match delim footer s _ i row Hr Er) as (s1 & -> & H1 & Hc1).
      assert (HI1 : sinv c0 s1 all k) by (split; [exact Hk|split; [exact H1|rewrite Hc1; exact Hs]]).
      destruct (fsel re_match delim footer row).
      + apply take_record2_post; [exact HI1|lia].
      + destruct (length (s_lines s1) - 1 <=? i) eqn:El.
        * destruct (readline_I c0 s1 all k HI1) as (m & Hm & Hm1 & Hm2 & Hm3).
          destruct (c2_readline comma s1) as [r s2]. cbn [fst snd] in *.
          destruct r as [[|]|o].
          -- apply (post_more c0 all m). apply IH; [exact Hm|].
             specialize (Hm1 eq_refl). rewrite app_length. lia.
          -- exists m. cbn zeta. cbn [fst snd]. split; [intros p E; discriminate|exact Hm].
          -- exists m. cbn zeta. cbn [fst snd]. split; [|exact Hm].
             intros p E. inversion E; subst. exact (Hm3 p eq_refl).
        * apply Nat.leb_gt in El. rewrite (I_lines c0 s1 all k HI1) in El.
          apply IH; [exact HI1|lia].
  Qed.

  Lemma read_and_match2_post c0 d create s all k : sinv c0 s all k ->
    post c0 all k d create (fst (read_and_match2 re_match comma delim d create s))
                           (snd (read_and_match2 re_match comma delim d create s)).
  Proof.
    intro H. unfold read_and_match2. destruct (q_shape d) as [n|header footer].
    - destruct (fill_rows2_I n c0 (S (n + c2_fuel s)) s all k H) as (m & Hm & Hm1 & Hm2).
      destruct (fill_rows2 comma (S (n + c2_fuel s)) n s) as [f s1]. cbn [fst snd] in *.
      destruct f as [[|]|o].
      + apply (post_more c0 all m). apply take_record2_post; [exact Hm|exact (Hm1 eq_refl)].
      + exists m. cbn zeta. cbn [fst snd]. split; [intros p E; discriminate|exact Hm].
      + exists m. cbn zeta. cbn [fst snd]. split; [|exact Hm].
        intros p E. inversion E; subst. exact (Hm2 p eq_refl).
    - assert (H0 : exists m, let '(r0, s0) := (if Nat.eqb (length (s_lines s)) 0 then c2_readline comma s else (Ok true, s)) in
                   sinv c0 s0 (all ++ m) k /\ no_panic r0 /\ (r0 = Ok true -> k < length (all ++ m))).
      { destruct (Nat.eqb (length (s_lines s)) 0) eqn:E0.
        - destruct (readline_I c0 s all k H) as (m & Hm & Hm1 & _ & Hm3). exists m.
          destruct (c2_readline comma s) as [r0 s0]. cbn [fst snd] in *.
          split; [exact Hm|]. split; [exact Hm3|]. intro E. specialize (Hm1 E).
          destruct H as (Hk & _). rewrite app_length. lia.
        - exists []. rewrite app_nil_r. split; [exact H|]. split; [intros p E; discriminate|].
          intros _. apply Nat.eqb_neq in E0. rewrite (I_lines c0 s all k H) in E0. lia. }
      destruct H0 as (m & H0).
      destruct (if Nat.eqb (length (s_lines s)) 0 then c2_readline comma s else (Ok true, s)) as [r0 s0].
      destruct H0 as (HI0 & Hp0 & Hl0). apply (post_more c0 all m).
      destruct r0 as [[|]|o].
      + specialize (Hl0 eq_refl). destruct HI0 as (Hk & Hr & Hs).
        destruct (nth_error (skipn k (all ++ m)) 0) as [row0|] eqn:Er.
        2:{ apply nth_error_None in Er. rewrite skipn_length in Er. lia. }
        destruct (match_line_rep re_match delim header s0 _ 0 row0 Hr Er) as (s1 & -> & H1 & Hc1).
        assert (HI1 : sinv c0 s1 (all ++ m) k) by (split; [exact Hk|split; [exact H1|rewrite Hc1; exact Hs]]).
        destruct (re_match header (join delim row0)).
        * apply footer_loop2_post; [exact HI1|lia].
        * exists []. cbn zeta. rewrite app_nil_r. cbn [fst snd]. split; [intros p E; discriminate|exact HI1].
      + exists []. cbn zeta. rewrite app_nil_r. cbn [fst snd]. split; [intros p E; discriminate|exact HI0].
      + exists []. cbn zeta. rewrite app_nil_r. cbn [fst snd]. split; [|exact HI0].
        intros p E. inversion E; subst. exact (Hp0 p eq_refl).
  Qed.

  Lemma more2_I c0 s all k : sinv c0 s all k ->
    exists more, sinv c0 (snd (more2 comma s)) (all ++ more) k /\ no_panic (fst (more2 comma s)).
  Proof.
    intro H. unfold more2. destruct (negb (Nat.eqb (length (s_lines s)) 0)).
    - exists []. rewrite app_nil_r. cbn. split; [exact H|intros p E; discriminate].
    - destruct (readline_I c0 s all k H) as (m & Hm & _ & _ & Hm3). exists m.
      destruct (c2_readline comma s) as [r s1]. cbn [fst snd] in *.
      destruct r as [b|o]; cbn [fst snd]; (split; [exact Hm|]).
      + intros p E; discriminate.
      + intros p E. inversion E; subst. exact (Hm3 p eq_refl).
  Qed.

  (* ---- arbitrary call sequences ---------------------------------------------------------------------- *)
  Inductive op2 := OpMore2 | OpRAM2 (d : rec2) (create : bool).

  (* one call: the error outcome if any, the delivered (declaration, node) if any, the new state *)
  Definition step2 (s : st2) (o : op2) : option outcome * option (rec2 * tree) * st2 :=
    match o with
    | OpMore2 => let '(r, s') := more2 comma s in
                 (match r with Err e => Some e | Ok _ => None end, None, s')
    | OpRAM2 d create =>
        let '(r, s') := read_and_match2 re_match comma delim d create s in
        (match r with Err e => Some e | Ok _ => None end,
         match r with Ok (true, Some t) => Some (d, t) | _ => None end, s')
    end.

  Fixpoint run2 (s : st2) (ops : list op2) : list (option outcome) * list (rec2 * tree) * st2 :=
    match ops with
    | [] => ([], [], s)
    | o :: r =>
        let '(e, dl, s1) := step2 s o in
        let '(es, dls, s2) := run2 s1 r in
        (e :: es, match dl with Some x => x :: dls | None => dls end, s2)
    end.

  Lemma run2_I c0 : forall ops s all k, sinv c0 s all k ->
    let '(es, dls, s') := run2 s ops in
    exists more segs k',
      sinv c0 s' (all ++ more) k'
      /\ Forall (fun e => forall p, e <> Some (OPanic p)) es
      /\ Forall2 (fun dt seg => snd dt = node_spec (fst dt) seg) dls segs
      /\ firstn k' (all ++ more) = firstn k all ++ concat segs.
  Proof.
    induction ops as [|o ops IH]; intros s all k H.
    - cbn [run2]. exists [], [], k. cbn [concat]. rewrite !app_nil_r. auto.
    - cbn [run2].
      assert (Hstep : let '(e, dl, s1) := step2 s o in
                      exists m k1, sinv c0 s1 (all ++ m) k1 /\ (forall p, e <> Some (OPanic p))
                        /\ match dl with
                           | Some (d, t) => exists seg, t = node_spec d seg
                                              /\ firstn k1 (all ++ m) = firstn k all ++ seg
                           | None => k1 = k
                           end).
      { destruct o as [|d create]; cbn [step2].
        - destruct (more2_I c0 s all k H) as (m & Hm & Hp). destruct (more2 comma s) as [r s1].
          cbn [fst snd] in *. exists m, k. split; [exact Hm|]. split; [|reflexivity].
          intros p E. destruct r as [b|e]; [discriminate|]. inversion E; subst. exact (Hp p eq_refl).
        - pose proof (read_and_match2_post c0 d create s all k H) as (m & Hp & Hm).
          destruct (read_and_match2 re_match comma delim d create s) as [r s1]. cbn [fst snd] in *.
          assert (Hpe : forall p, match r with Err e => Some e | Ok _ => None end <> Some (OPanic p)).
          { intros p E. destruct r as [b|e]; [discriminate|]. inversion E; subst. exact (Hp p eq_refl). }
          destruct r as [[[|] [t|]]|e]; try (exists m, k; split; [exact Hm|split; [exact Hpe|reflexivity]]).
          destruct Hm as (_ & n & Hn & Ht & HI). exists m, (k + n). split; [exact HI|]. split; [exact Hpe|].
          exists (firstn n (skipn k (all ++ m))). split; [exact Ht|].
          rewrite firstn_add. f_equal. rewrite firstn_app.
          destruct H as (Hk & _). replace (k - length all) with 0 by lia. rewrite firstn_O, app_nil_r. reflexivity. }
      destruct (step2 s o) as [[e dl] s1]. destruct Hstep as (m & k1 & HI1 & He & Hdl).
      specialize (IH s1 _ k1 HI1). destruct (run2 s1 ops) as [[es dls] s2].
      destruct IH as (more & segs & k' & HI' & Hes & Hds & Hfirst).
      rewrite <- app_assoc in HI', Hfirst.
      destruct dl as [[d t]|].
      + destruct Hdl as (seg & Ht & Hk1).
        exists (m ++ more), (seg :: segs), k'. split; [exact HI'|]. split; [constructor; assumption|].
        split; [constructor; [exact Ht|exact Hds]|].
        rewrite Hfirst. cbn [concat]. rewrite app_assoc. f_equal. exact Hk1.
      + subst k1. exists (m ++ more), segs, k'. split; [exact HI'|]. split; [constructor; assumption|].
        split; [exact Hds|]. rewrite Hfirst. f_equal.
        destruct H as (Hk & _). rewrite !firstn_app. replace (k - length all) with 0 by lia.
        rewrite !firstn_O, !app_nil_r. reflexivity.
  Qed.

  (* From a fresh reader: whatever the hierarchy reader (or anyone) calls, in whatever order - the
     delivered nodes are node_spec of consecutive segments of the record stream of the input, the
     segments concatenated are exactly the consumed prefix of the stream, and no call panics. *)
  Theorem csv2_sequence_proof replace input ops :
    let s0 := csv2_init replace input in
    let '(es, dls, s') := run2 s0 ops in
    exists all segs k,
      stream (s_c s0) (s_c s') all /\ rep s' (skipn k all)
      /\ Forall (fun e => forall p, e <> Some (OPanic p)) es
      /\ Forall2 (fun dt seg => snd dt = node_spec (fst dt) seg) dls segs
      /\ concat segs = firstn k all.
  Proof.
    cbn zeta.
    assert (H0 : sinv (s_c (csv2_init replace input)) (csv2_init replace input) [] 0).
    { split; [simpl; lia|]. split; [|constructor]. split; cbn; auto. }
    pose proof (run2_I _ ops _ _ _ H0) as H.
    destruct (run2 (csv2_init replace input) ops) as [[es dls] s'].
    destruct H as (more & segs & k' & (Hk & Hr & Hs) & Hes & Hds & Hf).
    cbn [app firstn] in *. exists more, segs, k'. auto.
  Qed.
End Csv2Seq.
