(* Proofs about Model/Stream.v, part 2: the zipper seen top-down, the reader invariant, and the
   XML reader: streaming over the events of a document delivers exactly [spec]. *)
From Coq Require Import List NArith Bool Arith Lia.
Import ListNotations.
From OV Require Import Base.Bytes Base.Cases Base.Tree Model.Stream Proofs.Stream.

(* ---- the zipper, top-down --------------------------------------------------------------------- *)
Definition opt_list {A} (o : option A) : list A := match o with Some x => [x] | None => [] end.

Fixpoint downT (f : frame) (fs : list frame) (b : option tree) : tree :=
  T (f_ty f) (f_data f) (f_fs f)
    (f_kids f ++ match fs with [] => opt_list b | g :: r => [downT g r b] end).
Definition down (fs : list frame) (b : option tree) : option tree :=
  match fs with [] => b | f :: r => Some (downT f r b) end.

Definition fname (f : frame) : name := (fs_prefix (f_fs f), f_data f).
Definition elemf (f : frame) : Prop := f_ty f = ElementNode.
Definition add_kids (f : frame) (l : list tree) : frame :=
  mkF (f_ty f) (f_data f) (f_fs f) (f_kids f ++ l).
Definition kids_len (f : frame) : nat := length (f_kids f).

Lemma add_kids_nil : forall f, add_kids f [] = f.
Proof. intros [a b c d]. unfold add_kids. simpl. rewrite app_nil_r. reflexivity. Qed.
Lemma add_kids_add_kids : forall f a b, add_kids (add_kids f a) b = add_kids f (a ++ b).
Proof. intros [x y z d] a b. unfold add_kids. simpl. rewrite app_assoc. reflexivity. Qed.
Lemma add_kid_is_add_kids : forall f t, add_kid f t = add_kids f [t].
Proof. reflexivity. Qed.
Lemma drop_last_add_kid : forall f t, drop_last_kid (add_kid f t) = f.
Proof. intros [a b c d] t. unfold drop_last_kid, add_kid. simpl. rewrite removelast_last. reflexivity. Qed.

Lemma downT_snoc : forall fs f g b,
  downT f (fs ++ [g]) b = downT f fs (Some (T (f_ty g) (f_data g) (f_fs g) (f_kids g ++ opt_list b))).
Proof.
  induction fs as [|h r IH]; intros; simpl.
  - reflexivity.
  - rewrite IH. reflexivity.
Qed.

Lemma down_snoc : forall fs g b,
  down (fs ++ [g]) b = down fs (Some (T (f_ty g) (f_data g) (f_fs g) (f_kids g ++ opt_list b))).
Proof. intros [|f r] g b; simpl; [reflexivity|]. rewrite downT_snoc. reflexivity. Qed.

Lemma zip_up_down : forall stack b, zip_up stack b = down (rev stack) b.
Proof.
  induction stack as [|f r IH]; intro b; simpl; [reflexivity|].
  rewrite IH, down_snoc. destruct b; reflexivity.
Qed.

Lemma zip_up_shape : forall stack f0 fs b,
  rev stack = f0 :: fs -> zip_up stack b = Some (downT f0 fs b).
Proof. intros. rewrite zip_up_down, H. reflexivity. Qed.

Lemma chain_of_shape : forall stack f0 fs, rev stack = f0 :: fs -> chain_of stack = map fname fs.
Proof. intros. unfold chain_of. rewrite H. reflexivity. Qed.

Lemma next_child_pos_shape : forall stack, next_child_pos stack = map kids_len (rev stack).
Proof. reflexivity. Qed.

Section Zipper.
  Variable pm : list name -> bool.

  Lemma hm_downT : forall fs f c t, Forall elemf fs ->
    has_match pm c (downT f fs (Some t)) =
    has_match pm c (downT f fs None)
    || (is_element t && has_match pm (c ++ map fname fs ++ [node_name t]) t).
  Proof.
    induction fs as [|g r IH]; intros f c t He.
    - simpl downT. rewrite !has_match_unfold, !hm_kids_app. simpl.
      destruct (pm c), (hm_kids pm c (f_kids f)), (is_element t); simpl; try reflexivity.
      rewrite orb_false_r. reflexivity.
    - inversion He as [|g' r' Hg Hr]; subst.
      cbn [downT]. rewrite !has_match_unfold, !hm_kids_app. cbn [hm_kids].
      assert (Hel : forall b, is_element (downT g r b) = true).
      { intro b. unfold is_element. destruct r; simpl; rewrite Hg; reflexivity. }
      assert (Hnm : forall b, node_name (downT g r b) = fname g).
      { intro b. destruct r; reflexivity. }
      rewrite !Hel, !Hnm. simpl andb. rewrite (IH g (c ++ [fname g]) t Hr).
      replace ((c ++ [fname g]) ++ map fname r ++ [node_name t])
        with (c ++ map fname (g :: r) ++ [node_name t])
        by (simpl; rewrite <- app_assoc; reflexivity).
      destruct (pm c), (hm_kids pm c (f_kids f)),
        (has_match pm (c ++ [fname g]) (downT g r None)); simpl; try reflexivity.
      rewrite orb_false_r. reflexivity.
  Qed.

  Lemma lookup_cons : forall c t i q,
    lookup c t (i :: q) =
    match nth_error (t_kids t) i with
    | Some k => if is_element k then lookup (c ++ [node_name k]) k q else None
    | None => None
    end.
  Proof. reflexivity. Qed.

  Lemma lookup_downT : forall fs f c t, Forall elemf fs -> is_element t = true ->
    lookup c (downT f fs (Some t)) (map kids_len (f :: fs)) =
    Some (c ++ map fname fs ++ [node_name t], t).
  Proof.
    induction fs as [|g r IH]; intros f c t He Ht.
    - simpl. unfold kids_len. rewrite nth_error_app2, Nat.sub_diag by lia. simpl.
      rewrite Ht. reflexivity.
    - inversion He as [|g' r' Hg Hr]; subst.
      assert (Hel : is_element (downT g r (Some t)) = true).
      { unfold is_element. destruct r; simpl; rewrite Hg; reflexivity. }
      assert (Hnm : node_name (downT g r (Some t)) = fname g) by (destruct r; reflexivity).
      change (map kids_len (f :: g :: r)) with (kids_len f :: map kids_len (g :: r)).
      rewrite lookup_cons. cbn [downT t_kids]. unfold kids_len at 1.
      rewrite nth_error_app2, Nat.sub_diag by lia. cbn [nth_error].
      rewrite Hel, Hnm.
      rewrite (IH g (c ++ [fname g]) t Hr Ht).
      simpl. rewrite <- app_assoc. reflexivity.
  Qed.

  (* ---- the invariant between tokens while no candidate is open ------------------------------ *)
  (* all open nodes below the root are elements, and NO node of the tree is on the path *)
  Definition Inv (stack : list frame) : Prop :=
    exists f0 fs, rev stack = f0 :: fs /\ Forall elemf fs /\
                  has_match pm [] (downT f0 fs None) = false.

  Lemma zip_add_kid : forall p up t, zip_up (add_kid p t :: up) None = zip_up (p :: up) (Some t).
  Proof. intros. simpl. rewrite app_nil_r. reflexivity. Qed.

  Lemma zip_push : forall g stack, zip_up (g :: stack) None = zip_up stack (Some (close_frame g)).
  Proof. intros. simpl. rewrite app_nil_r. reflexivity. Qed.

  Lemma chain_of_same_hdr : forall f g r,
    f_ty g = f_ty f -> f_data g = f_data f -> f_fs g = f_fs f ->
    chain_of (g :: r) = chain_of (f :: r).
  Proof.
    intros f g r H1 H2 H3. unfold chain_of. simpl.
    destruct (rev r) as [|a l]; simpl; [reflexivity|].
    rewrite !map_app. simpl. rewrite H2, H3. reflexivity.
  Qed.

  Lemma chain_of_add_kids : forall f l r, chain_of (add_kids f l :: r) = chain_of (f :: r).
  Proof. intros. apply chain_of_same_hdr; reflexivity. Qed.

  Lemma chain_of_push : forall g stack f0 fs,
    rev stack = f0 :: fs -> chain_of (g :: stack) = chain_of stack ++ [fname g].
  Proof.
    intros. unfold chain_of. simpl. rewrite H. simpl. rewrite map_app. reflexivity.
  Qed.

  Lemma inv_add_kid : forall f r t,
    Inv (f :: r) ->
    (is_element t && has_match pm (chain_of (f :: r) ++ [node_name t]) t) = false ->
    Inv (add_kid f t :: r).
  Proof.
    intros f r t (f0 & fs & Hrev & Hel & Hclean) Ht.
    assert (Hroot : zip_up (add_kid f t :: r) None = Some (downT f0 fs (Some t))).
    { rewrite zip_add_kid. apply zip_up_shape. exact Hrev. }
    assert (Hch : chain_of (f :: r) = map fname fs) by (apply (chain_of_shape _ f0); exact Hrev).
    rewrite Hch in Ht. clear Hch Hroot.
    cbn [rev] in Hrev.
    destruct (rev r) as [|a l] eqn:Hr.
    - cbn [app] in Hrev. inversion Hrev; subst f0 fs.
      exists (add_kid f t), []. split; [|split].
      + cbn [rev]. rewrite Hr. reflexivity.
      + constructor.
      + replace (downT (add_kid f t) [] None) with (downT f [] (Some t))
          by (cbn [downT add_kid f_ty f_data f_fs f_kids opt_list]; rewrite app_nil_r; reflexivity).
        rewrite hm_downT by constructor. rewrite Hclean. cbn [orb]. exact Ht.
    - cbn [app] in Hrev. inversion Hrev; subst f0 fs.
      exists a, (l ++ [add_kid f t]). split; [|split].
      + cbn [rev]. rewrite Hr. reflexivity.
      + apply Forall_app in Hel as [Hl Hf]. apply Forall_app. split; [exact Hl|].
        inversion Hf; subst. constructor; [assumption|constructor].
      + replace (downT a (l ++ [add_kid f t]) None) with (downT a (l ++ [f]) (Some t))
          by (rewrite !downT_snoc; cbn [add_kid f_ty f_data f_fs f_kids opt_list]; rewrite app_nil_r; reflexivity).
        rewrite hm_downT by exact Hel. rewrite Hclean. cbn [orb]. exact Ht.
  Qed.

  Lemma inv_add_kids_nonelem : forall l f r,
    Inv (f :: r) -> Forall (fun k => is_element k = false) l -> Inv (add_kids f l :: r).
  Proof.
    induction l as [|k l IH]; intros f r HI Hl.
    - rewrite add_kids_nil. exact HI.
    - inversion Hl; subst.
      replace (add_kids f (k :: l)) with (add_kids (add_kid f k) l)
        by (rewrite add_kid_is_add_kids, add_kids_add_kids; reflexivity).
      apply IH; [|assumption]. apply inv_add_kid; [exact HI|]. rewrite H1. reflexivity.
  Qed.

  Lemma hm_kids_nonelem : forall c l,
    Forall (fun k => is_element k = false) l -> hm_kids pm c l = false.
  Proof. induction 1; simpl; [reflexivity|]. rewrite H, IHForall. reflexivity. Qed.

  Lemma hm_close_frame : forall c g,
    elemf g -> Forall (fun k => is_element k = false) (f_kids g) ->
    is_element (close_frame g) && has_match pm (c ++ [node_name (close_frame g)]) (close_frame g)
    = pm (c ++ [fname g]).
  Proof.
    intros c g Hg Hk. unfold close_frame. rewrite has_match_unfold, hm_kids_nonelem by exact Hk.
    rewrite orb_false_r. unfold is_element. cbn [t_type]. rewrite Hg. reflexivity.
  Qed.

  (* the question the candidate check asks, answered: with a clean tree and a freshly opened
     element that has only non-element children so far, "does anything match" is "does the new
     element's own chain match" *)
  Lemma match_any_push : forall g stack,
    Inv stack -> elemf g -> Forall (fun k => is_element k = false) (f_kids g) ->
    exists root, zip_up (g :: stack) None = Some root /\
      match_any pm ptrue root = pm (chain_of stack ++ [fname g]).
  Proof.
    intros g stack (f0 & fs & Hrev & Hel & Hclean) Hg Hk.
    exists (downT f0 fs (Some (close_frame g))). split.
    - rewrite zip_push. apply zip_up_shape. exact Hrev.
    - rewrite match_any_has_match, hm_downT by exact Hel. rewrite Hclean. cbn [orb app].
      rewrite hm_close_frame by assumption. rewrite (chain_of_shape _ _ _ Hrev). reflexivity.
  Qed.

  Lemma inv_push : forall g stack,
    Inv stack -> elemf g -> Forall (fun k => is_element k = false) (f_kids g) ->
    pm (chain_of stack ++ [fname g]) = false -> Inv (g :: stack).
  Proof.
    intros g stack (f0 & fs & Hrev & Hel & Hclean) Hg Hk Hpm.
    exists f0, (fs ++ [g]). split; [|split].
    - cbn [rev]. rewrite Hrev. reflexivity.
    - apply Forall_app. split; [exact Hel|]. constructor; [exact Hg|constructor].
    - rewrite downT_snoc. cbn [opt_list]. rewrite app_nil_r.
      change (T (f_ty g) (f_data g) (f_fs g) (f_kids g)) with (close_frame g).
      rewrite hm_downT by exact Hel. rewrite Hclean. cbn [orb app].
      rewrite hm_close_frame by assumption. rewrite <- (chain_of_shape _ _ _ Hrev). exact Hpm.
  Qed.

  (* the question the closing check asks, answered: the candidate just attached as last child of
     [p] is among the matches iff its chain is on the path and it satisfies the predicates *)
  Lemma match_node_closed : forall pred p up t,
    (exists f0 fs, rev (p :: up) = f0 :: fs /\ Forall elemf fs) -> is_element t = true ->
    exists root, zip_up (add_kid p t :: up) None = Some root /\
      match_node pm pred root (next_child_pos (p :: up)) =
      pm (chain_of (p :: up) ++ [node_name t]) && pred t.
  Proof.
    intros pred p up t (f0 & fs & Hrev & Hel) Ht.
    exists (downT f0 fs (Some t)). split.
    - rewrite zip_add_kid. apply zip_up_shape. exact Hrev.
    - rewrite match_node_lookup, next_child_pos_shape, Hrev, lookup_downT by assumption.
      rewrite (chain_of_shape _ _ _ Hrev). reflexivity.
  Qed.
End Zipper.

(* ---- sizes (C17): what hangs off the root ------------------------------------------------------- *)
Definition sizes (l : list tree) : nat := fold_right (fun k n => tree_size k + n) 0 l.
Lemma tree_size_unfold : forall ty d f ks, tree_size (T ty d f ks) = S (sizes ks).
Proof. reflexivity. Qed.
Lemma sizes_app : forall a b, sizes (a ++ b) = sizes a + sizes b.
Proof. induction a; intros; simpl; [reflexivity|]. rewrite IHa. lia. Qed.

Lemma size_downT : forall fs f t,
  tree_size (downT f fs (Some t)) = tree_size (downT f fs None) + tree_size t.
Proof.
  induction fs as [|g r IH]; intros f t.
  - cbn [downT opt_list]. rewrite !tree_size_unfold, !sizes_app. simpl. lia.
  - cbn [downT]. rewrite !tree_size_unfold, !sizes_app. cbn [sizes fold_right]. rewrite IH. lia.
Qed.

Lemma rev_nonempty : forall (f : frame) r, exists f0 fs, rev (f :: r) = f0 :: fs.
Proof.
  intros. destruct (rev (f :: r)) as [|a l] eqn:E; [|eauto].
  apply (f_equal (@length frame)) in E. rewrite rev_length in E. discriminate.
Qed.

Lemma retained_add_kid : forall f r t s s',
  retained (mkS (add_kid f t :: r) None s) = retained (mkS (f :: r) None s') + tree_size t.
Proof.
  intros. destruct (rev_nonempty f r) as (f0 & fs & Hrev).
  unfold retained, root_tree. cbn [s_stack].
  rewrite zip_add_kid, (zip_up_shape _ _ _ _ Hrev), (zip_up_shape _ _ _ _ Hrev).
  apply size_downT.
Qed.

(* ---- spec / prune on trees --------------------------------------------------------------------- *)
Section SpecLemmas.
  Variable pm : list name -> bool.
  Variable pred : tree -> bool.

  Lemma spec_unfold : forall c ty d f ks,
    spec pm pred c (T ty d f ks) =
    if pm c then (if pred (T ty d f ks) then [T ty d f ks] else []) else spec_kids pm pred c ks.
  Proof.
    intros. cbn [spec]. destruct (pm c); [reflexivity|].
    induction ks as [|k r IH]; [reflexivity|]. cbn [spec_kids]. rewrite <- IH. reflexivity.
  Qed.

  Lemma prune_unfold : forall c ty d f ks,
    prune pm c (T ty d f ks) = T ty d f (prune_kids pm c ks).
  Proof.
    intros. cbn [prune]. f_equal.
    induction ks as [|k r IH]; [reflexivity|]. cbn [prune_kids]. rewrite <- IH. reflexivity.
  Qed.

  Lemma spec_kids_app : forall c l1 l2,
    spec_kids pm pred c (l1 ++ l2) = spec_kids pm pred c l1 ++ spec_kids pm pred c l2.
  Proof. induction l1; intros; simpl; [reflexivity|]. rewrite IHl1, app_assoc. reflexivity. Qed.

  Lemma prune_kids_app : forall c l1 l2,
    prune_kids pm c (l1 ++ l2) = prune_kids pm c l1 ++ prune_kids pm c l2.
  Proof.
    induction l1 as [|k r IH]; intros; simpl; [reflexivity|].
    rewrite IH. destruct (is_element k); [destruct (pm (c ++ [node_name k]))|]; reflexivity.
  Qed.

  Lemma spec_kids_nonelem : forall c l,
    Forall (fun k => is_element k = false) l -> spec_kids pm pred c l = [].
  Proof. induction 1; simpl; [reflexivity|]. rewrite H, IHForall. reflexivity. Qed.

  Lemma prune_kids_nonelem : forall c l,
    Forall (fun k => is_element k = false) l -> prune_kids pm c l = l.
  Proof. induction 1; simpl; [reflexivity|]. rewrite H, IHForall. reflexivity. Qed.

  Lemma prune_hdr : forall c t,
    is_element (prune pm c t) = is_element t /\ node_name (prune pm c t) = node_name t.
  Proof. intros c [ty d f ks]. rewrite prune_unfold. split; reflexivity. Qed.

  Lemma prune_clean : forall t c, pm c = false -> has_match pm c (prune pm c t) = false.
  Proof.
    induction t as [ty d f ks IH] using tree_ind2. intros c Hc.
    rewrite prune_unfold, has_match_unfold, Hc. simpl orb.
    induction IH as [|k r Hk _ IHr]; [reflexivity|].
    cbn [prune_kids]. destruct (is_element k) eqn:Ek.
    - destruct (pm (c ++ [node_name k])) eqn:Ep; [exact IHr|].
      cbn [hm_kids]. destruct (prune_hdr (c ++ [node_name k]) k) as [E1 E2].
      rewrite E1, E2, Ek, (Hk _ Ep). exact IHr.
    - cbn [hm_kids]. rewrite Ek. exact IHr.
  Qed.
End SpecLemmas.

(* ---- induction over XML documents ------------------------------------------------------------- *)
Section xnode_ind2.
  Variable P : xnode -> Prop.
  Hypothesis HE : forall nm fs attrs kids, Forall P kids -> P (XE nm fs attrs kids).
  Hypothesis HT : forall s, P (XT s).
  Fixpoint xnode_ind2 (x : xnode) : P x :=
    match x with
    | XE nm fs attrs kids =>
        HE nm fs attrs kids ((fix go (l : list xnode) : Forall P l :=
                                match l with
                                | [] => Forall_nil P
                                | k :: r => Forall_cons k (xnode_ind2 k) (go r)
                                end) kids)
    | XT s => HT s
    end.
End xnode_ind2.

Lemma attrs_nonelem : forall attrs, Forall (fun k => is_element k = false) (map attr_node attrs).
Proof.
  induction attrs as [|[[n f] v] r IH]; simpl; constructor; [reflexivity|exact IH].
Qed.

Lemma skipn_add : forall {A} a b (l : list A), skipn b (skipn a l) = skipn (a + b) l.
Proof.
  induction a as [|a IH]; intros b l; [reflexivity|].
  destruct l; simpl; [destruct b; reflexivity|apply IH].
Qed.

(* ---- the attribute loop of the XML reader ------------------------------------------------------- *)
(* For EVERY attribute list (empty values included) the loop leaves cur on the element, the stream
   pointer untouched, and has appended exactly one attribute node per attribute, each with one
   text child holding the value. *)
Lemma add_attr_eq : forall g rest s a,
  add_attr (mkS (g :: rest) None s) a = mkS (add_kid g (attr_node a) :: rest) None s.
Proof. intros g rest s [[n f] v]. reflexivity. Qed.

Lemma add_attrs_eq : forall attrs g rest s,
  fold_left add_attr attrs (mkS (g :: rest) None s) = mkS (add_kids g (map attr_node attrs) :: rest) None s.
Proof.
  induction attrs as [|a attrs IH]; intros g rest s.
  - cbn [fold_left map]. rewrite add_kids_nil. reflexivity.
  - cbn [fold_left map]. rewrite add_attr_eq, add_kid_is_add_kids, IH, add_kids_add_kids. reflexivity.
Qed.

Lemma xstart_eq : forall pm stack d s nm fs attrs,
  xstart pm (mkS stack d s) nm fs attrs =
  candidate_check pm (mkS (mkF ElementNode nm fs (map attr_node attrs) :: stack) None s).
Proof.
  intros. unfold xstart, push. cbn [s_stack s_stream]. rewrite add_attrs_eq. reflexivity.
Qed.

Definition prepend (L : list (tree * nat)) (r : list (tree * nat) * final) : list (tree * nat) * final :=
  (L ++ fst r, snd r).
Lemma prepend_nil : forall r, prepend [] r = r.
Proof. intros [a b]. reflexivity. Qed.
Lemma prepend_app : forall L1 L2 r, prepend L1 (prepend L2 r) = prepend (L1 ++ L2) r.
Proof. intros. unfold prepend. simpl. rewrite app_assoc. reflexivity. Qed.

Section XmlProof.
  Variable pm : list name -> bool.
  Variable pred : tree -> bool.
  Variable has_filter : bool.
  (* without a closing check the full xpath IS the path part *)
  Hypothesis Hnf : has_filter = false -> forall t, pred t = true.

  Notation run := (xrun pm pred has_filter false).

  Definition xname (x : xnode) : name :=
    match x with XE nm fs _ _ => (fs_prefix fs, nm) | XT _ => ([], []) end.
  (* what processing [x] below a node with chain [c] appends to that node's children *)
  Definition grow (c : list name) (x : xnode) : list tree :=
    match x with
    | XT s => [text_node s]
    | XE _ _ _ _ => if pm (c ++ [xname x]) then [] else [prune pm (c ++ [xname x]) (xtree x)]
    end.
  (* what it delivers *)
  Definition xspec (c : list name) (x : xnode) : list tree :=
    match x with
    | XT _ => []
    | XE _ _ _ _ => spec pm pred (c ++ [xname x]) (xtree x)
    end.

  Lemma prune_kids_xtree : forall c kids,
    prune_kids pm c (map xtree kids) = flat_map (grow c) kids.
  Proof.
    induction kids as [|k r IH]; [reflexivity|].
    cbn [map prune_kids flat_map]. rewrite IH.
    destruct k as [nm fs attrs ks|s]; [|reflexivity].
    change (is_element (xtree (XE nm fs attrs ks))) with true.
    change (node_name (xtree (XE nm fs attrs ks))) with (xname (XE nm fs attrs ks)).
    cbn [grow]. destruct (pm (c ++ [xname (XE nm fs attrs ks)])); reflexivity.
  Qed.

  Lemma spec_kids_xtree : forall c kids,
    spec_kids pm pred c (map xtree kids) = flat_map (xspec c) kids.
  Proof.
    induction kids as [|k r IH]; [reflexivity|].
    cbn [map spec_kids flat_map]. rewrite IH.
    destruct k as [nm fs attrs ks|s]; reflexivity.
  Qed.

  (* ---- inside a candidate: the subtree is built faithfully, nothing else happens ------------ *)
  Definition BuildP (x : xnode) : Prop :=
    forall f r k rel rest, k <= length (f :: r) ->
      run (mkS (f :: r) None (SOpen k)) rel (xevents x ++ rest) =
      run (mkS (add_kid f (xtree x) :: r) None (SOpen k)) rel rest.

  Lemma build_kids : forall kids, Forall BuildP kids ->
    forall g s k rel rest, k <= length (g :: s) ->
      run (mkS (g :: s) None (SOpen k)) rel (flat_map xevents kids ++ rest) =
      run (mkS (add_kids g (map xtree kids) :: s) None (SOpen k)) rel rest.
  Proof.
    induction 1 as [|x l Hx _ IH]; intros g s k rel rest Hk.
    - simpl. rewrite add_kids_nil. reflexivity.
    - cbn [flat_map map]. rewrite <- app_assoc, (Hx g s k rel _ Hk).
      rewrite add_kid_is_add_kids, IH by exact Hk. rewrite add_kids_add_kids. reflexivity.
  Qed.

  Lemma build_inside : forall x, BuildP x.
  Proof.
    induction x as [nm fs attrs kids IH|s] using xnode_ind2; intros f r k rel rest Hk.
    - cbn [xevents]. rewrite <- app_comm_cons. cbn [xrun xstep s_stack]. rewrite xstart_eq.
      unfold candidate_check. cbn [s_stream s_stack].
      rewrite <- app_assoc.
      rewrite (build_kids kids IH) by (simpl in *; lia).
      cbn [app xrun xstep]. unfold wrap_up. cbn [s_stack s_stream].
      assert (Hne : Nat.eqb k (length (add_kids (mkF ElementNode nm fs (map attr_node attrs)) (map xtree kids) :: f :: r)) = false).
      { apply Nat.eqb_neq. simpl in *. lia. }
      rewrite Hne. cbn [negb]. reflexivity.
    - reflexivity.
  Qed.

  (* ---- outside candidates ------------------------------------------------------------------- *)
  Definition RunP (x : xnode) : Prop :=
    forall f r rel rest, Inv pm (f :: r) ->
      exists L, map fst L = xspec (chain_of (f :: r)) x /\
        run (mkS (f :: r) None SNone) rel (xevents x ++ rest) =
        prepend L (run (mkS (add_kids f (grow (chain_of (f :: r)) x) :: r) None SNone)
                       (skipn (length L) rel) rest) /\
        Inv pm (add_kids f (grow (chain_of (f :: r)) x) :: r) /\
        (* C17: a node that is itself on the path is gone afterwards, and what was reachable when
           it was delivered is the tree as it was before plus the node *)
        (pm (chain_of (f :: r) ++ [xname x]) = true ->
         Forall (fun d => snd d = retained (mkS (f :: r) None SNone) + tree_size (xtree x)) L).

  Lemma run_kids : forall kids, Forall RunP kids ->
    forall g s rel rest, Inv pm (g :: s) ->
      exists L, map fst L = flat_map (xspec (chain_of (g :: s))) kids /\
        run (mkS (g :: s) None SNone) rel (flat_map xevents kids ++ rest) =
        prepend L (run (mkS (add_kids g (flat_map (grow (chain_of (g :: s))) kids) :: s) None SNone)
                       (skipn (length L) rel) rest) /\
        Inv pm (add_kids g (flat_map (grow (chain_of (g :: s))) kids) :: s).
  Proof.
    induction 1 as [|x l Hx _ IH]; intros g s rel rest HI.
    - exists []. simpl. rewrite add_kids_nil, prepend_nil. auto.
    - cbn [flat_map]. rewrite <- app_assoc.
      destruct (Hx g s rel (flat_map xevents l ++ rest) HI) as (L1 & E1 & R1 & I1 & _).
      destruct (IH _ s (skipn (length L1) rel) rest I1) as (L2 & E2 & R2 & I2).
      rewrite chain_of_add_kids in E2, R2, I2.
      exists (L1 ++ L2). split; [|split].
      + rewrite map_app, E1, E2. reflexivity.
      + rewrite R1, R2, prepend_app, add_kids_add_kids, app_length, skipn_add. reflexivity.
      + rewrite add_kids_add_kids in I2. exact I2.
  Qed.

  Lemma skipn_1 : forall (rel : list bool), skipn 1 rel = tl rel.
  Proof. destruct rel; reflexivity. Qed.

  Lemma inv_shape : forall stack, Inv pm stack ->
    exists f0 fs, rev stack = f0 :: fs /\ Forall elemf fs.
  Proof. intros stack (f0 & fs & H1 & H2 & _). eauto. Qed.

  Lemma run_node : forall x, RunP x.
  Proof.
    induction x as [nm fs attrs kids IH|s] using xnode_ind2; intros f r rel rest HI.
    - (* element *)
      set (c := chain_of (f :: r)).
      set (g := mkF ElementNode nm fs (map attr_node attrs)).
      assert (Hg : elemf g) by reflexivity.
      assert (Hgk : Forall (fun k => is_element k = false) (f_kids g)) by apply attrs_nonelem.
      destruct (match_any_push pm g (f :: r) HI Hg Hgk) as (root & Hroot & Hany).
      change (fname g) with (xname (XE nm fs attrs kids)) in Hany. fold c in Hany.
      cbn [xevents]. rewrite <- app_comm_cons. cbn [xrun xstep s_stack]. rewrite xstart_eq.
      unfold candidate_check. cbn [s_stream s_stack root_tree]. fold g.
      rewrite Hroot, Hany.
      cbn [grow xspec]. set (c' := c ++ [xname (XE nm fs attrs kids)]) in *.
      set (t := xtree (XE nm fs attrs kids)).
      destruct (pm c') eqn:Hpm.
      + (* a candidate: built, checked at its end tag, delivered or removed; state restored *)
        unfold set_stream. cbn [s_stack s_done].
        rewrite <- app_assoc.
        rewrite (build_kids kids (Forall_impl _ (fun a _ => build_inside a) IH)) by (simpl; lia).
        cbn [app xrun xstep]. unfold wrap_up. cbn [s_stack s_stream].
        rewrite Nat.eqb_refl. cbn [negb].
        change (close_frame (add_kids g (map xtree kids))) with t.
        destruct (match_node_closed pm pred f r t (inv_shape _ HI) eq_refl) as (root1 & Hr1 & Hmn).
        cbn [root_tree s_stack]. rewrite Hr1, Hmn.
        change (node_name t) with (xname (XE nm fs attrs kids)). fold c c'. rewrite Hpm. cbn [andb].
        assert (Hok : negb has_filter || pred t = pred t).
        { destruct has_filter eqn:Hf; [reflexivity|]. rewrite (Hnf eq_refl t). reflexivity. }
        rewrite Hok.
        assert (Hspec : spec pm pred c' t = if pred t then [t] else []).
        { unfold t. cbn [xtree]. rewrite spec_unfold, Hpm. reflexivity. }
        rewrite Hspec. clear Hspec.
        destruct (pred t) eqn:Hp.
        * exists [(t, retained (mkS (add_kid f t :: r) None (SOpen (length (g :: f :: r)))))].
          split; [reflexivity|]. split; [|split].
          -- unfold set_stream, release, read_prologue, remove_closed. cbn [s_stream s_stack s_done].
             assert (E : (if hd false rel
                          then Some (mkS (drop_last_kid (add_kid f t) :: r) None SNone)
                          else Some (mkS (add_kid f t :: r) None SClosed)) =
                         (if hd false rel
                          then Some (mkS (f :: r) None SNone)
                          else Some (mkS (add_kid f t :: r) None SClosed)))
               by (rewrite drop_last_add_kid; reflexivity).
             destruct (hd false rel); cbn [s_stream s_stack];
               rewrite drop_last_add_kid, add_kids_nil;
               cbn [length]; rewrite skipn_1;
               destruct (run (mkS (f :: r) None SNone) (tl rel) rest); reflexivity.
          -- rewrite add_kids_nil. exact HI.
          -- intros _. constructor; [|constructor]. cbn [snd]. apply retained_add_kid.
        * exists []. split; [reflexivity|]. split; [|split].
          -- unfold remove_closed. cbn [s_stack]. rewrite drop_last_add_kid, add_kids_nil, prepend_nil.
             reflexivity.
          -- rewrite add_kids_nil. exact HI.
          -- intros _. constructor.
      + (* not on the path: descend *)
        assert (HI1 : Inv pm (g :: f :: r)).
        { apply inv_push; assumption. }
        assert (Hc1 : chain_of (g :: f :: r) = c').
        { destruct (inv_shape _ HI) as (f0 & fs0 & Hrev & _).
          rewrite (chain_of_push g (f :: r) f0 fs0 Hrev). reflexivity. }
        rewrite <- app_assoc.
        destruct (run_kids kids IH g (f :: r) rel ([XEnd] ++ rest) HI1) as (L & EL & RL & IL).
        rewrite Hc1 in EL, RL, IL.
        exists L. split; [|split; [|split]].
        * rewrite EL. unfold t. cbn [xtree]. rewrite spec_unfold, Hpm, spec_kids_app.
          rewrite spec_kids_nonelem by apply attrs_nonelem. rewrite spec_kids_xtree. reflexivity.
        * rewrite RL. f_equal. cbn [app xrun xstep]. unfold wrap_up. cbn [s_stack s_stream negb].
          assert (Et : close_frame (add_kids g (flat_map (grow c') kids)) = prune pm c' t).
          { unfold t. cbn [xtree]. rewrite prune_unfold, prune_kids_app.
            rewrite prune_kids_nonelem by apply attrs_nonelem. rewrite prune_kids_xtree. reflexivity. }
          rewrite Et. reflexivity.
        * assert (Et : close_frame (add_kids g (flat_map (grow c') kids)) = prune pm c' t).
          { unfold t. cbn [xtree]. rewrite prune_unfold, prune_kids_app.
            rewrite prune_kids_nonelem by apply attrs_nonelem. rewrite prune_kids_xtree. reflexivity. }
          change (add_kids f [prune pm c' t]) with (add_kid f (prune pm c' t)).
          apply inv_add_kid; [exact HI|].
          destruct (prune_hdr pm c' t) as [E1 E2]. rewrite E2.
          change (node_name t) with (xname (XE nm fs attrs kids)). fold c c'.
          rewrite prune_clean by exact Hpm. apply andb_false_r.
        * intro Habs. discriminate Habs.
    - (* character data *)
      exists []. split; [reflexivity|]. split; [|split].
      + rewrite prepend_nil. reflexivity.
      + change (add_kids f (grow (chain_of (f :: r)) (XT s))) with (add_kid f (text_node s)).
        apply inv_add_kid; [exact HI|]. reflexivity.
      + intros _. constructor.
  Qed.

  (* ---- the whole document ------------------------------------------------------------------- *)
  Lemma all_RunP : forall l, Forall RunP l.
  Proof. induction l; constructor; [apply run_node|assumption]. Qed.

  Lemma xml_stream_spec : pm [] = false -> forall content rel,
    exists L, run x_init rel (xdoc_events content) = (L, FEOF) /\
              map fst L = spec pm pred [] (xdoc_tree content).
  Proof.
    intros Hroot content rel.
    set (rootf := mkF DocumentNode [] (FXml [] []) []).
    assert (HI : Inv pm [rootf]).
    { exists rootf, []. split; [reflexivity|]. split; [constructor|].
      unfold rootf. cbn [downT f_ty f_data f_fs f_kids opt_list app].
      rewrite has_match_unfold, Hroot. reflexivity. }
    destruct (run_kids content (all_RunP content) rootf [] rel [] HI) as (L & EL & RL & _).
    exists L. split.
    - unfold x_init, xdoc_events. fold rootf.
      rewrite <- (app_nil_r (flat_map xevents content)), RL.
      cbn [xrun]. unfold prepend. cbn [fst snd]. rewrite app_nil_r. reflexivity.
    - rewrite EL. unfold xdoc_tree. rewrite spec_unfold, Hroot.
      change (chain_of [rootf]) with (@nil name). rewrite spec_kids_xtree. reflexivity.
  Qed.
End XmlProof.

Theorem xml_stream_eq_select_proof :
  forall (pm : list name -> bool) (pred : tree -> bool) (has_filter : bool),
    (has_filter = false -> forall t, pred t = true) ->
    pm [] = false ->
    forall content rel,
      exists L, xrun pm pred has_filter false x_init rel (xdoc_events content) = (L, FEOF) /\
                map fst L = whole_doc_selection pm pred (xdoc_tree content).
Proof.
  intros pm pred hf Hnf Hroot content rel.
  destruct (xml_stream_spec pm pred hf Hnf Hroot content rel) as (L & H1 & H2).
  exists L. split; [exact H1|]. rewrite whole_doc_selection_is_spec. exact H2.
Qed.
