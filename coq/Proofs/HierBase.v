(* C05 proofs, part 1: well-formed hierarchies, the matchers agree on "does an instance start
   here", every instance takes at least one unit, the occurrence loop's fuel is irrelevant. *)
From Coq Require Import List Arith Bool Lia.
Import ListNotations.
From OV Require Import Base.Cases Model.Hier Model.HierSpec.

(* induction over declarations that reaches the children *)
Section decl_ind2.
  Variable P : decl -> Prop.
  Hypothesis H : forall n g t mn mx lf kids, Forall P kids -> P (D n g t mn mx lf kids).
  Fixpoint decl_ind2 (d : decl) : P d :=
    match d with
    | D n g t mn mx lf kids =>
        H n g t mn mx lf kids
          ((fix go (ks : list decl) : Forall P ks :=
              match ks with
              | [] => Forall_nil P
              | k :: r => Forall_cons k (decl_ind2 k) (go r)
              end) kids)
    end.
End decl_ind2.

Section Base.
  Variable try_leaf : leaf -> list unt -> option nat.

  (* a leaf matcher that takes at least one and at most all of the remaining units *)
  Definition leaf_sound (l : leaf) : Prop :=
    forall us n, try_leaf l us = Some n -> 1 <= n /\ n <= length us.

  (* what validation enforces (group non-empty, min <= max) + max >= 1 + sound leaves *)
  Fixpoint WF (d : decl) : Prop :=
    match d with
    | D _ g _ mn mx lf kids =>
        (if g then kids <> [] else leaf_sound lf) /\ le_max mn mx = true /\ mx <> Some 0 /\
        (fix all (ks : list decl) : Prop :=
           match ks with [] => True | k :: r => WF k /\ all r end) kids
    end.

  Lemma WF_kids : forall d, WF d -> Forall WF (d_kids d).
  Proof.
    intros [n g t mn mx lf kids] (_ & _ & _ & Hk). simpl.
    induction kids as [|k r IH]; [constructor|]. destruct Hk as [Hk Hr]. constructor; auto.
  Qed.

  Lemma WF_parts : forall d, WF d ->
    (if d_grp d then d_kids d <> [] else leaf_sound (d_leaf d)) /\
    le_max (d_min d) (d_max d) = true /\ d_max d <> Some 0.
  Proof. intros [n g t mn mx lf kids] (H1 & H2 & H3 & _). simpl. auto. Qed.

  Lemma lt_max_0 : forall d, WF d -> lt_max 0 (d_max d) = true.
  Proof.
    intros d Hd. destruct (WF_parts d Hd) as (_ & _ & H). unfold lt_max.
    destruct (d_max d) as [[|m]|]; try reflexivity. congruence.
  Qed.

  (* at max and not below min is impossible *)
  Lemma max_then_min : forall d n, WF d -> lt_max n (d_max d) = false -> (n <? d_min d) = false.
  Proof.
    intros d n Hd H. destruct (WF_parts d Hd) as (_ & Hle & _). unfold lt_max, le_max in *.
    destruct (d_max d) as [m|]; [|discriminate].
    apply Nat.ltb_ge in H. apply Nat.leb_le in Hle. apply Nat.ltb_ge. lia.
  Qed.

  (* ---- starts / read_rec ------------------------------------------------------------------ *)
  Lemma starts_first_leaf : forall d us,
    starts try_leaf d us =
      match first_leaf d with
      | Some lf => match try_leaf lf us with Some _ => true | None => false end
      | None => false
      end.
  Proof.
    induction d as [n g t mn mx lf kids IH] using decl_ind2. intros us. simpl.
    destruct g; [|reflexivity].
    destruct kids as [|k r]; [reflexivity|]. inversion IH; subst. auto.
  Qed.

  Lemma read_rec_none : forall d us,
    read_rec try_leaf d us = None <-> starts try_leaf d us = false.
  Proof.
    intros d us. rewrite starts_first_leaf. unfold read_rec.
    destruct (first_leaf d) as [lf|]; [|tauto].
    destruct (try_leaf lf us); [|tauto]. destruct (d_grp d); split; discriminate.
  Qed.

  Lemma read_rec_some : forall d us n,
    read_rec try_leaf d us = Some n ->
    starts try_leaf d us = true /\
    (if d_grp d then n = 0 else try_leaf (d_leaf d) us = Some n).
  Proof.
    intros d us n H. split.
    - destruct (starts try_leaf d us) eqn:E; [reflexivity|].
      apply read_rec_none in E. congruence.
    - unfold read_rec in H. destruct d as [nm g t mn mx lf kids]. simpl in *.
      destruct g.
      + destruct (match kids with k :: _ => first_leaf k | [] => None end); [|discriminate].
        destruct (try_leaf l us); [|discriminate]. congruence.
      + destruct (try_leaf lf us); congruence.
  Qed.

  Lemma starts_nil : forall d, WF d -> starts try_leaf d [] = false.
  Proof.
    induction d as [n g t mn mx lf kids IH] using decl_ind2. intros Hd.
    pose proof (WF_kids _ Hd) as Hk. destruct Hd as (H1 & _). simpl in *.
    destruct g.
    - destruct kids as [|k r]; [reflexivity|]. inversion IH; inversion Hk; subst. auto.
    - destruct (try_leaf lf []) eqn:E; [|reflexivity].
      apply H1 in E. simpl in E. lia.
  Qed.

  Lemma starts_kid0 : forall d k r us, d_grp d = true -> d_kids d = k :: r ->
    starts try_leaf d us = starts try_leaf k us.
  Proof. intros [n g t mn mx lf kids] k r us Hg Hk. simpl in *. subst. reflexivity. Qed.

  (* ---- every instance takes at least one unit ------------------------------------------------ *)
  Definition shrinks (inst_of : decl -> list unt -> mres inst) (d : decl) : Prop :=
    forall us e i us', inst_of d us = MOk e i us' ->
      length us' <= length us /\ (starts try_leaf d us = true -> length us' < length us).

  Section Loops.
    Variable inst_of : decl -> list unt -> mres inst.

    Lemma occ_loop_S : forall d f n us,
      occ_loop try_leaf inst_of d (S f) n us =
        if lt_max n (d_max d) && starts try_leaf d us then
          match inst_of d us with
          | MErr e t => MErr e t
          | MOk e i us' =>
              let e1 := if d_tgt d then e ++ [i] else e in
              match occ_loop try_leaf inst_of d f (S n) us' with
              | MOk e2 is us'' => MOk (e1 ++ e2) (i :: is) us''
              | MErr e2 t => MErr (e1 ++ e2) t
              end
          end
        else if n <? d_min d then MErr [] (TErrMin (d_name d) n)
        else MOk [] [] us.
    Proof. reflexivity. Qed.

    Lemma seq_loop_cons : forall d ds us,
      seq_loop try_leaf inst_of (d :: ds) us =
        match occ_loop try_leaf inst_of d (S (length us)) 0 us with
        | MErr e t => MErr e t
        | MOk e1 is1 us1 =>
            match seq_loop try_leaf inst_of ds us1 with
            | MErr e2 t => MErr (e1 ++ e2) t
            | MOk e2 is2 us2 => MOk (e1 ++ e2) (is1 ++ is2) us2
            end
        end.
    Proof. reflexivity. Qed.

    Lemma occ_loop_le : forall d, shrinks inst_of d ->
      forall f n us e is us', occ_loop try_leaf inst_of d f n us = MOk e is us' -> length us' <= length us.
    Proof.
      intros d Hd. induction f as [|f IH]; intros n us e is us' H; [discriminate|].
      rewrite occ_loop_S in H.
      destruct (lt_max n (d_max d) && starts try_leaf d us).
      - destruct (inst_of d us) as [e0 i0 us0|] eqn:Ei; [|discriminate].
        destruct (occ_loop try_leaf inst_of d f (S n) us0) as [e1 is1 us1|] eqn:Eo; [|discriminate].
        inversion H; subst. apply IH in Eo. apply Hd in Ei. lia.
      - destruct (n <? d_min d); [discriminate|]. inversion H; subst. lia.
    Qed.

    Lemma seq_loop_le : forall ds, Forall (shrinks inst_of) ds ->
      forall us e is us', seq_loop try_leaf inst_of ds us = MOk e is us' -> length us' <= length us.
    Proof.
      induction ds as [|d ds IH]; intros Hds us e is us' H.
      - inversion H; subst. lia.
      - inversion Hds; subst. rewrite seq_loop_cons in H.
        destruct (occ_loop try_leaf inst_of d (S (length us)) 0 us) as [e1 is1 us1|] eqn:Eo; [|discriminate].
        destruct (seq_loop try_leaf inst_of ds us1) as [e2 is2 us2|] eqn:Es; [|discriminate].
        inversion H; subst. apply occ_loop_le in Eo; auto. apply IH in Es; auto. lia.
    Qed.

    Lemma seq_loop_lt : forall k ds, Forall (shrinks inst_of) (k :: ds) ->
      lt_max 0 (d_max k) = true ->
      forall us e is us', starts try_leaf k us = true ->
        seq_loop try_leaf inst_of (k :: ds) us = MOk e is us' -> length us' < length us.
    Proof.
      intros k ds Hds Hmx us e is us' Hst H. inversion Hds; subst.
      rewrite seq_loop_cons, occ_loop_S, Hmx, Hst in H. cbn [andb] in H.
      destruct (inst_of k us) as [e0 i0 us0|] eqn:Ei; [|discriminate].
      destruct (occ_loop try_leaf inst_of k (length us) 1 us0) as [e1 is1 us1|] eqn:Eo; [|discriminate].
      destruct (seq_loop try_leaf inst_of ds us1) as [e2 is2 us2|] eqn:Es; [|discriminate].
      inversion H; subst. apply H2 in Ei. destruct Ei as [_ Ei]. specialize (Ei Hst).
      apply occ_loop_le in Eo; auto. apply seq_loop_le in Es; auto. lia.
    Qed.

    (* the fuel of the occurrence loop does not matter once it exceeds the number of units *)
    Lemma occ_loop_irrel : forall d, shrinks inst_of d ->
      forall f1 f2 n us, length us < f1 -> length us < f2 ->
        occ_loop try_leaf inst_of d f1 n us = occ_loop try_leaf inst_of d f2 n us.
    Proof.
      intros d Hd. induction f1 as [|f1 IH]; intros f2 n us H1 H2; [lia|].
      destruct f2 as [|f2]; [lia|]. rewrite !occ_loop_S.
      destruct (lt_max n (d_max d) && starts try_leaf d us) eqn:Eb; [|reflexivity].
      destruct (inst_of d us) as [e0 i0 us0|] eqn:Ei; [|reflexivity].
      apply andb_prop in Eb. destruct Eb as [_ Est].
      apply Hd in Ei. destruct Ei as [_ Ei]. specialize (Ei Est).
      rewrite (IH f2 (S n) us0); [reflexivity| lia | lia].
    Qed.
  End Loops.

  Arguments occ_loop : simpl never.

  Lemma skipn_length_le : forall A n (l : list A), length (skipn n l) <= length l.
  Proof. intros. rewrite skipn_length. lia. Qed.

  Lemma sp_inst_shrinks : forall d, WF d -> shrinks (sp_inst try_leaf) d.
  Proof.
    induction d as [nm g t mn mx lf kids IH] using decl_ind2. intros Hd.
    pose proof (WF_kids _ Hd) as Hk. simpl in Hk.
    assert (Hsh : Forall (shrinks (sp_inst try_leaf)) kids).
    { clear Hd. induction kids; [constructor|]. inversion IH; inversion Hk; subst. constructor; auto. }
    destruct Hd as (H1 & _ & _ & _).
    intros us e i us' H. simpl in H. destruct g.
    - destruct (seq_loop try_leaf (sp_inst try_leaf) kids us) as [e1 ks us1|] eqn:Es; [|discriminate].
      inversion H; subst. split.
      + eapply seq_loop_le; eauto.
      + intros Hst. destruct kids as [|k r]; [congruence|]. simpl in Hst.
        eapply seq_loop_lt; eauto. inversion Hk; subst. apply lt_max_0; auto.
    - destruct (try_leaf lf us) as [n|] eqn:El; [|discriminate].
      destruct (seq_loop try_leaf (sp_inst try_leaf) kids (skipn n us)) as [e1 ks us1|] eqn:Es; [|discriminate].
      inversion H; subst. apply H1 in El. apply seq_loop_le in Es; auto.
      rewrite skipn_length in Es. split; [lia|]. intros _. lia.
  Qed.
End Base.
