(* C03: integer members of file_declaration after fix 5f762bb; the query wrappers of idr/query.go
   after fix e7ccd30; the javascript result classification after fixes 5427694 / 6fe2fc5. *)
From Coq Require Import List NArith ZArith Bool Lia.
Import ListNotations.
From OV Require Import Gen.Safety Model.Safety.

(* With the json.Unmarshal error returned, an accepted integer member is stored as its own value,
   which is at least the JSON-schema minimum. *)
Lemma schema_int_checked min l v : schema_int true (Some min) l = IStored v -> (min <= v)%Z /\ v = lit_value l.
Proof.
  unfold schema_int, jsonschema_int, unmarshal_int.
  destruct (lit_integral l); simpl; [|discriminate].
  destruct (min <=? lit_value l)%Z eqn:Em; simpl; [|discriminate].
  destruct (lit_plain l), (int64_ok (lit_value l)); simpl; try discriminate.
  intro H. inversion H; subst. apply Z.leb_le in Em. split; [exact Em|reflexivity].
Qed.

(* depends on Gen/Safety.v: the three rows-based formats check the error now, minimum 1 *)
Theorem rows_validated_lemma : forall l v,
  (schema_int fixed_unmarshal_checked fixed_by_rows_min l = IStored v \/
   schema_int csv2_unmarshal_checked csv2_rows_min l = IStored v \/
   schema_int fixed2_unmarshal_checked fixed2_rows_min l = IStored v) -> (1 <= v)%Z.
Proof.
  intros l v [H|[H|H]]; apply (schema_int_checked 1 l v) in H; apply H.
Qed.

Lemma rows_zero_old_refuted_lemma :
  schema_int false (Some 1%Z) (mkLit true (10 ^ 30) false) = IStored 0         (* 1e30 *)
  /\ schema_int false (Some 1%Z) (mkLit true 1 false) = IStored 0              (* 1.0 *)
  /\ schema_int false (Some 1%Z) (mkLit true 9223372036854775808 true) = IStored 0
  /\ schema_int true (Some 1%Z) (mkLit true (10 ^ 30) false) = IRejected
  /\ schema_int true (Some 1%Z) (mkLit true 1 false) = IRejected
  /\ schema_int true (Some 1%Z) (mkLit true 3 true) = IStored 3.
Proof. vm_compute. repeat split; reflexivity. Qed.

Theorem query_wrappers_no_panic_lemma : forall e,
  match_any true e <> QPanic /\ match_single true e <> QPanic.
Proof.
  intros [|n]; split; try discriminate; simpl; try discriminate.
  destruct n as [|[|n]]; discriminate.
Qed.

Lemma query_panic_old_refuted_lemma :
  match_any false EngPanic = QPanic /\ match_single false EngPanic = QPanic
  /\ match_any true EngPanic = QBool false /\ match_single true EngPanic = QErr.
Proof. repeat split; reflexivity. Qed.

(* Under the guard js_no_map_set (the value is not a Map / Set containing itself) a javascript
   result is an error or a value. *)
Theorem javascript_result_no_panic_lemma : forall v,
  v <> JsMapSetSelf -> js_result v = JsErr \/ js_result v = JsValue.
Proof. intros [] H; simpl; auto. congruence. Qed.

Lemma javascript_mapset_refuted_lemma : js_result JsMapSetSelf = JsFatal.
Proof. reflexivity. Qed.

Lemma javascript_old_refuted_lemma :
  js_result_old true JsGetterThrows = JsPanicEscapes /\ js_result_old true JsCyclic = JsFatal
  /\ js_result JsGetterThrows = JsErr /\ js_result JsCyclic = JsErr.
Proof. repeat split; reflexivity. Qed.

(* ---- duplicated top level keys (N9) ---- *)
Lemma nodup_fold_unique : forall root a b, nodup_fold root = true ->
  In a root -> In b root -> m_fold a = m_fold b -> a = b.
Proof.
  induction root as [|m r IH]; intros a b Hn Ha Hb Hf; [destruct Ha|].
  simpl in Hn. apply andb_true_iff in Hn as [Hm Hr]. apply negb_true_iff in Hm.
  assert (Hno : forall x, In x r -> m_fold x <> m_fold m).
  { intros x Hx E. assert (existsb (fun y => Nat.eqb (m_fold y) (m_fold m)) r = true) as Hc.
    { apply existsb_exists. exists x. split; [exact Hx|apply Nat.eqb_eq; exact E]. }
    congruence. }
  destruct Ha as [<-|Ha], Hb as [<-|Hb]; try reflexivity.
  - exfalso. apply (Hno b Hb). symmetry. exact Hf.
  - exfalso. apply (Hno a Ha). exact Hf.
  - apply IH; assumption.
Qed.

Theorem dup_keys_validated_lemma : forall root name fname,
  (forall m, In m root -> m_exact m = name -> m_fold m = fname) ->
  section_accepted schema_validate_checks_top_level_keys name root = true ->
  forall m, In m (loaded fname root) -> m_valid m = true.
Proof.
  intros root name fname Hfold Hacc m Hm.
  unfold section_accepted in Hacc. apply andb_true_iff in Hacc as [Hseen Hnd].
  change (nodup_fold root = true) in Hnd.
  destruct (seen name root) as [s|] eqn:Es; [|discriminate].
  unfold seen in Es. apply find_some in Es as [Hin Hex]. apply in_rev in Hin. apply Nat.eqb_eq in Hex.
  unfold loaded in Hm. apply filter_In in Hm as [Hmin Hmf]. apply Nat.eqb_eq in Hmf.
  assert (m = s) as ->.
  { apply (nodup_fold_unique root); try assumption. rewrite Hmf. symmetry. apply Hfold; assumption. }
  exact Hseen.
Qed.

(* "file_declaration" (valid) followed by "FILE_DECLARATION" (rows 0): without the check the
   section is accepted and the invalid member is loaded *)
Lemma dup_keys_old_refuted_lemma :
  let root := [mkM 1 1 true; mkM 2 1 false] in
  section_accepted false 1 root = true /\ existsb (fun m => negb (m_valid m)) (loaded 1 root) = true
  /\ section_accepted true 1 root = false.
Proof. vm_compute. repeat split; reflexivity. Qed.
