(* C03: integer members of file_declaration after fix 5f762bb; the query wrappers of idr/query.go
   after fix e7ccd30; the javascript result classification after fixes 5427694 / 6fe2fc5. *)
From Coq Require Import List NArith ZArith Bool Lia.
Import ListNotations.
From OV Require Import Gen.Safety Model.Safety.

(* With the json.Unmarshal error returned, an accepted integer member is stored as its own value,
   which is at least the JSON-schema minimum. *)
Lemma schema_int_checked min l v : schema_int true (Some min) l = IStored v -> (min <= v)%Z /\ v = lit_value l.
Proof.
  unfold schema_int, jsonschema_int, unmarshal_int.
  destruct (lit_integral l); simpl; [|discriminate].
  destruct (min <=? lit_value l)%Z eqn:Em; simpl; [|discriminate].
  destruct (lit_plain l), (int64_ok (lit_value l)); simpl; try discriminate.
  intro H. inversion H; subst. apply Z.leb_le in Em. split; [exact Em|reflexivity].
Qed.

(* depends on Gen/Safety.v: the three rows-based formats check the error now, minimum 1 *)
Theorem rows_validated_lemma : forall l v,
  (schema_int fixed_unmarshal_checked fixed_by_rows_min l = IStored v \/
   schema_int csv2_unmarshal_checked csv2_rows_min l = IStored v \/
   schema_int fixed2_unmarshal_checked fixed2_rows_min l = IStored v) -> (1 <= v)%Z.
Proof.
  intros l v [H|[H|H]]; apply (schema_int_checked 1 l v) in H; apply H.
Qed.

Lemma rows_zero_old_refuted_lemma :
  schema_int false (Some 1%Z) (mkLit true (10 ^ 30) false) = IStored 0         (* 1e30 *)
  /\ schema_int false (Some 1%Z) (mkLit true 1 false) = IStored 0              (* 1.0 *)
  /\ schema_int false (Some 1%Z) (mkLit true 9223372036854775808 true) = IStored 0
  /\ schema_int true (Some 1%Z) (mkLit true (10 ^ 30) false) = IRejected
  /\ schema_int true (Some 1%Z) (mkLit true 1 false) = IRejected
  /\ schema_int true (Some 1%Z) (mkLit true 3 true) = IStored 3.
Proof. vm_compute. repeat split; reflexivity. Qed.

Theorem query_wrappers_no_panic_lemma : forall e,
  match_any true e <> QPanic /\ match_single true e <> QPanic.
Proof.
  intros [|n]; split; try discriminate; simpl; try discriminate.
  destruct n as [|[|n]]; discriminate.
Qed.

Lemma query_panic_old_refuted_lemma :
  match_any false EngPanic = QPanic /\ match_single false EngPanic = QPanic
  /\ match_any true EngPanic = QBool false /\ match_single true EngPanic = QErr.
Proof. repeat split; reflexivity. Qed.

(* Under the guard js_no_map_set (the value is not a Map / Set containing itself) a javascript
   result is an error or a value. *)
Theorem javascript_result_no_panic_lemma : forall v,
  v <> JsMapSetSelf -> js_result v = JsErr \/ js_result v = JsValue.
Proof. intros [] H; simpl; auto. congruence. Qed.

Lemma javascript_mapset_refuted_lemma : js_result JsMapSetSelf = JsFatal.
Proof. reflexivity. Qed.

Lemma javascript_old_refuted_lemma :
  js_result_old true JsGetterThrows = JsPanicEscapes /\ js_result_old true JsCyclic = JsFatal
  /\ js_result JsGetterThrows = JsErr /\ js_result JsCyclic = JsErr.
Proof. repeat split; reflexivity. Qed.
