(* C20 proofs: VM isolation (pooled runtimes are always indistinguishable from new ones),
   result classification, cache soundness. *)
From Coq Require Import List NArith Bool Lia.
From stdpp Require Import gmap.
From OV Require Import Base.Bytes Base.Cases Model.Js.
Import ListNotations.

(* ---- the fresh runtime ------------------------------------------------------------------------ *)
(* Facts about goja's global object that the restore logic relies on: a configurable own
   property is also writable (so re-creating it as writable+configurable is exact), and no own
   property of the global object is also inherited.  The harness reads both off the real
   runtime on every run (check_case evaluates rt_wf_b on the table it extracted). *)
Definition rt_wf (r : rt) : Prop :=
  (forall k s, rt_own r !! k = Some s -> s_c s = true -> s_w s = true) /\
  (forall k s, rt_own r !! k = Some s -> rt_proto r !! k = None).

(* [m'] differs from [m] at most on [keys], and only by arg definitions over absent or
   configurable entries *)
Definition near (m : vm) (keys : list N) (m' : vm) : Prop :=
  forall k, m' !! k = m !! k \/
    (k ∈ keys /\ (exists v, m' !! k = Some (mkSlot v true true)) /\
     (m !! k = None \/ exists s, m !! k = Some s /\ s_c s = true)).

Lemma near_refl m keys : near m keys m.
Proof. intros k; left; reflexivity. Qed.

Lemma vdefine_near m k v m' keys :
  vdefine m k v = Some m' -> near m (k :: keys) m'.
Proof.
  unfold vdefine. intros H k'.
  destruct (decide (k' = k)) as [->|Hne].
  - right. split; [set_solver|].
    destruct (m !! k) as [s|] eqn:E.
    + destruct (s_c s) eqn:Ec; [|discriminate]. inversion H; subst.
      split; [eexists; apply lookup_insert|]. right; eauto.
    + inversion H; subst. split; [eexists; apply lookup_insert|]. left; reflexivity.
  - left. destruct (m !! k) as [s|]; [destruct (s_c s); [|discriminate]|];
      inversion H; subst; rewrite lookup_insert_ne; auto.
Qed.

Lemma near_trans_define m m' k v m'' keys :
  vdefine m k v = Some m' -> near m' keys m'' -> near m (k :: keys) m''.
Proof.
  intros Hd Hn k'. pose proof (vdefine_near m k v m' keys Hd k') as H1.
  destruct (Hn k') as [Heq|(Hin & Hv & Hm')].
  - rewrite Heq. exact H1.
  - right. split; [set_solver|]. split; [exact Hv|].
    destruct H1 as [H1|(_ & _ & H1)]; [|exact H1].
    rewrite <- H1. destruct Hm' as [->|(s & -> & Hs)]; [left; reflexivity|right; eauto].
Qed.

Lemma set_args_near : forall args m m1 ok,
  set_args m args = (m1, ok) -> near m (map fst args) m1.
Proof.
  induction args as [|[k v] rest IH]; simpl; intros m m1 ok H.
  - inversion H; subst. apply near_refl.
  - destruct (vdefine m k v) as [m'|] eqn:Hd.
    + eapply near_trans_define; eauto.
    + inversion H; subst. apply near_refl.
Qed.

Lemma shadow_of_lookup r m : forall keys (acc : gmap N jsval) k,
  fold_left (fun sh k => match vget r m k with Some p => <[k := p]> sh | None => sh end) keys acc !! k
  = match (if decide (k ∈ keys) then vget r m k else None) with
    | Some p => Some p
    | None => acc !! k
    end.
Proof.
  induction keys as [|k0 rest IH]; intros acc k; simpl.
  - destruct (decide (k ∈ [])) as [H|_]; [inversion H|reflexivity].
  - rewrite IH.
    destruct (decide (k ∈ rest)) as [Hin|Hnin].
    + destruct (decide (k ∈ k0 :: rest)) as [_|Hn]; [|exfalso; apply Hn; set_solver].
      destruct (vget r m k) eqn:E; [reflexivity|].
      destruct (vget r m k0) eqn:E0; [|reflexivity].
      destruct (decide (k = k0)) as [->|Hne]; [congruence|].
      rewrite lookup_insert_ne; auto.
    + destruct (decide (k = k0)) as [->|Hne].
      * destruct (decide (k0 ∈ k0 :: rest)) as [_|Hn]; [|exfalso; apply Hn; set_solver].
        destruct (vget r m k0) eqn:E0; [rewrite lookup_insert; reflexivity|reflexivity].
      * destruct (decide (k ∈ k0 :: rest)) as [Hin|_]; [exfalso; set_solver|].
        destruct (vget r m k0) eqn:E0; [rewrite lookup_insert_ne; auto|reflexivity].
Qed.

Lemma shadow_of_spec r m keys k :
  shadow_of r m keys !! k = if decide (k ∈ keys) then vget r m k else None.
Proof.
  unfold shadow_of. rewrite shadow_of_lookup. rewrite lookup_empty.
  destruct (decide (k ∈ keys)); [destruct (vget r m k)|]; reflexivity.
Qed.

(* the shadow loop's own iteration order is irrelevant *)
Lemma shadow_of_perm r m keys keys' :
  (forall k, k ∈ keys <-> k ∈ keys') -> shadow_of r m keys = shadow_of r m keys'.
Proof.
  intros H. apply map_eq; intros k. rewrite !shadow_of_spec.
  destruct (decide (k ∈ keys)) as [a|a], (decide (k ∈ keys')) as [b|b]; try reflexivity;
    exfalso; apply H in a || apply H in b; contradiction.
Qed.

Lemma wipe_one_other r sh m k k' : k' <> k -> wipe_one r sh m k !! k' = m !! k'.
Proof.
  intros Hne. unfold wipe_one, vdelete.
  assert (Hd : (match m !! k with Some s => if s_c s then delete k m else m | None => m end) !! k' = m !! k').
  { destruct (m !! k) as [s|]; [destruct (s_c s)|]; try reflexivity. rewrite lookup_delete_ne; auto. }
  destruct (sh !! k); [|exact Hd].
  match goal with |- context [vget r ?X k] => destruct (vget r X k) end; [exact Hd|].
  rewrite lookup_insert_ne; auto.
Qed.

(* wiping key k brings the entry at k back to what the VM [m0] had, from either admissible
   state of that entry *)
Lemma wipe_one_same r sh m0 m k :
  (forall k s, m0 !! k = Some s -> s_c s = true -> s_w s = true) ->
  (forall k s, m0 !! k = Some s -> rt_proto r !! k = None) ->
  sh !! k = vget r m0 k ->
  (m !! k = m0 !! k \/
   ((exists v, m !! k = Some (mkSlot v true true)) /\
    (m0 !! k = None \/ exists s, m0 !! k = Some s /\ s_c s = true))) ->
  wipe_one r sh m k !! k = m0 !! k.
Proof.
  intros Hw Hdis Hsh Hm. unfold wipe_one, vdelete, vget in *.
  destruct (m0 !! k) as [s0|] eqn:E0.
  - pose proof (Hdis _ _ E0) as Hp. pose proof (Hw _ _ E0) as Hww.
    destruct s0 as [sv sw sc]; simpl in *. rewrite Hsh.
    destruct Hm as [Heq|((v & Hv) & [H0|(s & H0 & Hc)])]; try discriminate.
    + rewrite Heq. simpl. destruct sc.
      * rewrite lookup_delete, Hp, lookup_insert, Hww; auto.
      * rewrite Heq. exact Heq.
    + rewrite Hv. simpl. inversion H0; subst; simpl in *. subst.
      rewrite lookup_delete, Hp, lookup_insert, Hww; auto.
  - rewrite Hsh.
    destruct Hm as [Heq|((v & Hv) & [H0|(s & H0 & Hc)])]; try discriminate.
    + rewrite Heq. destruct (rt_proto r !! k) eqn:Ep; rewrite ?Heq, ?Ep; auto.
    + rewrite Hv. simpl. destruct (rt_proto r !! k) eqn:Ep; rewrite lookup_delete, ?Ep; try reflexivity.
      apply lookup_delete.
Qed.

Lemma near_mono m keys keys' m' :
  (forall k, k ∈ keys -> k ∈ keys') -> near m keys m' -> near m keys' m'.
Proof. intros H Hn k. destruct (Hn k) as [E|(Hin & Hr)]; [left; exact E|right; split; auto]. Qed.

Lemma wipe_args_restores r sh m0 : forall ord2 m,
  (forall k s, m0 !! k = Some s -> s_c s = true -> s_w s = true) ->
  (forall k s, m0 !! k = Some s -> rt_proto r !! k = None) ->
  (forall k, k ∈ ord2 -> sh !! k = vget r m0 k) ->
  near m0 ord2 m ->
  wipe_args r sh m ord2 = m0.
Proof.
  induction ord2 as [|k rest IH]; intros m Hw Hdis Hsh Hnear; simpl.
  - apply map_eq; intros k. destruct (Hnear k) as [E|(Hin & _)]; [exact E|inversion Hin].
  - apply IH; auto.
    + intros k' Hk'. apply Hsh. set_solver.
    + intros k'. destruct (decide (k' = k)) as [->|Hne].
      * left. apply wipe_one_same; auto. { apply Hsh; set_solver. }
        destruct (Hnear k) as [E|(_ & Hv & H0)]; [left; exact E|right; split; assumption].
      * rewrite wipe_one_other by exact Hne.
        destruct (Hnear k') as [E|(Hin & Hr)]; [left; exact E|right; split; [set_solver|exact Hr]].
Qed.

(* the two map iterations of one call range over the same key set *)
Definition same_keys (ord1 : list (N * jsval)) (ord2 : list N) : Prop :=
  forall k, k ∈ ord2 <-> k ∈ map fst ord1.

(* execProgram gives the runtime back exactly as new: whatever the args are named, whether the
   script returns or throws, whether defining an arg fails half-way *)
Lemma run_on_restores r ord1 ord2 s :
  rt_wf r -> same_keys ord1 ord2 ->
  fst (run_on r (fresh_vm r) ord1 ord2 s) = fresh_vm r.
Proof.
  intros [Hw Hdis] Hk. unfold run_on.
  destruct (set_args (fresh_vm r) ord1) as [m1 ok] eqn:Hs. simpl.
  pose proof (set_args_near _ _ _ _ Hs) as Hn.
  apply wipe_args_restores; auto.
  - intros k Hin. rewrite shadow_of_spec. apply Hk in Hin.
    destruct (decide (k ∈ map fst ord1)); [reflexivity|contradiction].
  - eapply near_mono; [|exact Hn]. intros k Hin. apply Hk. exact Hin.
Qed.

(* ---- the pool ---------------------------------------------------------------------------------- *)
(* invariant: every pooled runtime is indistinguishable from a new one *)
Definition pool_ok (r : rt) (pool : list vm) : Prop := Forall (fun m => m = fresh_vm r) pool.

Lemma remove_nth_ok {A} (P : A -> Prop) : forall i l, Forall P l -> Forall P (remove_nth i l).
Proof.
  induction i as [|i IH]; intros [|x l] H; simpl; auto; inversion H; subst; auto.
Qed.

Lemma pool_get_ok r ch pool :
  pool_ok r pool -> fst (pool_get r ch pool) = fresh_vm r /\ pool_ok r (snd (pool_get r ch pool)).
Proof.
  intros H. destruct ch as [|i]; simpl; [split; auto|].
  destruct (nth_error pool i) as [m|] eqn:E; simpl; [|split; auto].
  split; [|apply remove_nth_ok; exact H].
  unfold pool_ok in H. rewrite Forall_forall in H. apply H. apply elem_of_list_In.
  eapply nth_error_In; eauto.
Qed.

Definition vcall_wf (c : vcall) : Prop := same_keys (vc_args c) (vc_wipe c).

(* what the call yields on a runtime nobody has used before *)
Definition alone (r : rt) (c : vcall) : runres :=
  snd (run_on r (fresh_vm r) (vc_args c) (vc_wipe c) (vc_script c)).

Definition vcalls (es : list vevent) : list vcall :=
  omap (fun e => match e with VCall c _ => Some c | VGc _ => None end) es.

Lemma js_isolation r : rt_wf r -> forall es pool,
  pool_ok r pool -> Forall vcall_wf (vcalls es) ->
  snd (vrun r pool es) = map (alone r) (vcalls es) /\ pool_ok r (fst (vrun r pool es)).
Proof.
  intros Hwf. induction es as [|[c ch|i] t IH]; intros pool Hp Hc; simpl.
  - split; [reflexivity|exact Hp].
  - simpl in Hc. inversion Hc as [|? ? Hc1 Hc2]; subst.
    destruct (pool_get_ok r ch pool Hp) as [Hm Hp1].
    destruct (pool_get r ch pool) as [m pool1]; simpl in *. subst m.
    pose proof (run_on_restores r (vc_args c) (vc_wipe c) (vc_script c) Hwf Hc1) as Hr.
    unfold alone.
    destruct (run_on r (fresh_vm r) (vc_args c) (vc_wipe c) (vc_script c)) as [m' res]; simpl in *.
    subst m'.
    assert (Hp2 : pool_ok r (pool_put (fresh_vm r) pool1)) by (constructor; auto).
    destruct (IH _ Hp2 Hc2) as [IH1 IH2].
    destruct (vrun r (pool_put (fresh_vm r) pool1) t) as [pool2 rs]; simpl in *.
    split; [f_equal; exact IH1|exact IH2].
  - apply IH; auto. apply remove_nth_ok; exact Hp.
Qed.

(* ---- interleaved calls ------------------------------------------------------------------------- *)
Definition held_calls (t : thread) : list vcall :=
  match th_held t with Some (c, _) => [c] | None => [] end.

Definition thread_ok (r : rt) (cs : list vcall) (t : thread) : Prop :=
  (forall c m, th_held t = Some (c, m) -> m = fresh_vm r) /\
  Forall vcall_wf (held_calls t ++ th_todo t) /\
  th_out t ++ map (alone r) (held_calls t ++ th_todo t) = map (alone r) cs.

Lemma thread_step_ok r cs pool t ch :
  rt_wf r -> pool_ok r pool -> thread_ok r cs t ->
  pool_ok r (fst (thread_step r pool t ch)) /\ thread_ok r cs (snd (thread_step r pool t ch)).
Proof.
  intros Hwf Hp (Hh & Hw & Ho). unfold thread_step.
  destruct t as [todo held out]; simpl in *.
  destruct held as [[c m]|]; unfold held_calls in *; simpl in *.
  - rewrite (Hh c m eq_refl). inversion Hw as [|? ? Hw1 Hw2]; subst.
    pose proof (run_on_restores r (vc_args c) (vc_wipe c) (vc_script c) Hwf Hw1) as Hr.
    destruct (run_on r (fresh_vm r) (vc_args c) (vc_wipe c) (vc_script c)) as [m' res] eqn:E.
    simpl in *. subst m'. split; [constructor; auto|].
    split; [intros ? ? H; discriminate|]. split; [exact Hw2|].
    simpl. rewrite <- Ho. rewrite <- app_assoc. simpl. unfold alone at 2. rewrite E. reflexivity.
  - destruct todo as [|c rest]; simpl.
    + split; [exact Hp|]. split; [intros ? ? H; discriminate|]. split; auto.
    + destruct (pool_get_ok r ch pool Hp) as [Hm Hp1].
      destruct (pool_get r ch pool) as [m pool1]; simpl in *. subst m.
      split; [exact Hp1|]. split; [intros ? ? H; inversion H; reflexivity|]. split; auto.
Qed.

Lemma set_nth_Forall2 {A B} (P : A -> B -> Prop) : forall i (l : list A) (l' : list B) x y,
  Forall2 P l l' -> nth_error l' i = Some y -> P x y -> Forall2 P (set_nth i x l) l'.
Proof.
  induction i as [|i IH]; intros l l' x y H Hn Hp; destruct H as [|a b l l' Hab H]; simpl in *;
    try discriminate.
  - inversion Hn; subst. constructor; auto.
  - constructor; auto. eapply IH; eauto.
Qed.

Lemma Forall2_nth_error {A B} (P : A -> B -> Prop) : forall i (l : list A) (l' : list B) x,
  Forall2 P l l' -> nth_error l i = Some x -> exists y, nth_error l' i = Some y /\ P x y.
Proof.
  induction i as [|i IH]; intros l l' x H Hn; destruct H as [|a b l l' Hab H]; simpl in *;
    try discriminate.
  - inversion Hn; subst. eauto.
  - eapply IH; eauto.
Qed.

Lemma run_sched_ok r : rt_wf r -> forall s pool ts css,
  pool_ok r pool -> Forall2 (fun t cs => thread_ok r cs t) ts css ->
  pool_ok r (fst (run_sched r pool ts s)) /\
  Forall2 (fun t cs => thread_ok r cs t) (snd (run_sched r pool ts s)) css.
Proof.
  intros Hwf. induction s as [|[i ch|j] rest IH]; intros pool ts css Hp Ht; simpl.
  - split; auto.
  - destruct (nth_error ts i) as [t|] eqn:E; [|apply IH; auto].
    destruct (Forall2_nth_error _ _ _ _ _ Ht E) as (cs & Ecs & Hok).
    destruct (thread_step_ok r cs pool t ch Hwf Hp Hok) as [Hp' Hok'].
    destruct (thread_step r pool t ch) as [pool' t']; simpl in *.
    apply IH; auto. eapply set_nth_Forall2; eauto.
  - apply IH; auto. apply remove_nth_ok; exact Hp.
Qed.

Lemma th_init_ok r cs : Forall vcall_wf cs -> thread_ok r cs (th_init cs).
Proof.
  intros H. split; [intros ? ? E; discriminate|]. split; [exact H|reflexivity].
Qed.

(* For every schedule (which thread moves, which pooled VM each Get returns, when the pool
   drops items): what a thread has produced so far is a prefix of what its calls yield on
   runtimes nobody has used, and it is all of it once the thread has finished. *)
Lemma js_isolation_interleaved r : rt_wf r -> forall css s pool,
  pool_ok r pool -> Forall (Forall vcall_wf) css ->
  Forall2 (fun t cs =>
     (exists rest, map (alone r) cs = th_out t ++ rest) /\
     (th_todo t = [] -> th_held t = None -> th_out t = map (alone r) cs))
    (snd (run_sched r pool (map th_init css) s)) css.
Proof.
  intros Hwf css s pool Hp Hc.
  assert (H0 : Forall2 (fun t cs => thread_ok r cs t) (map th_init css) css).
  { induction Hc as [|cs css Hcs Hc IH]; simpl; constructor; auto. apply th_init_ok; exact Hcs. }
  destruct (run_sched_ok r Hwf s pool _ _ Hp H0) as [_ H].
  eapply Forall2_impl; [exact H|].
  intros t cs (_ & _ & Ho). split.
  - eexists. symmetry. exact Ho.
  - intros Ht Hh. unfold held_calls in Ho. rewrite Ht, Hh in Ho. simpl in Ho.
    rewrite app_nil_r in Ho. exact Ho.
Qed.

(* ---- what the script sees ---------------------------------------------------------------------- *)
(* args that can be defined: none names a non-configurable own global (NaN, undefined, Infinity) *)
Definition args_plain (m : vm) (args : list (N * jsval)) : Prop :=
  NoDup (map fst args) /\
  forall k s, k ∈ map fst args -> m !! k = Some s -> s_c s = true.

Lemma view_insert r (m : vm) k v :
  view r (<[k := mkSlot v true true]> m) = <[k := v]> (view r m).
Proof. unfold view. rewrite fmap_insert. simpl. symmetry. apply insert_union_l. Qed.

Lemma set_args_visible r : forall args (m : vm),
  args_plain m args ->
  exists m1, set_args m args = (m1, true) /\
             view r m1 = (list_to_map args : gmap N jsval) ∪ view r m.
Proof.
  induction args as [|[k v] rest IH]; intros m [Hnd Hc]; simpl in *.
  - eexists; split; [reflexivity|]. rewrite (left_id_L ∅ (∪)). reflexivity.
  - inversion Hnd as [|? ? Hnin Hnd']; subst.
    assert (Hd : vdefine m k v = Some (<[k := mkSlot v true true]> m)).
    { unfold vdefine. destruct (m !! k) as [s|] eqn:E; [|reflexivity].
      rewrite (Hc k s); [reflexivity| set_solver |exact E]. }
    rewrite Hd.
    destruct (IH (<[k := mkSlot v true true]> m)) as (m1 & Hs & Hv).
    { split; [exact Hnd'|]. intros k' s Hin Hl.
      destruct (decide (k' = k)) as [->|Hne]; [contradiction|].
      rewrite lookup_insert_ne in Hl by auto. apply (Hc k' s); [set_solver|exact Hl]. }
    exists m1. split; [exact Hs|]. rewrite Hv, view_insert.
    rewrite <- insert_union_r.
    + rewrite insert_union_l. reflexivity.
    + apply not_elem_of_list_to_map_1. exact Hnin.
Qed.

(* on a fresh runtime the script sees exactly its args laid over the built-in globals; in
   particular the order in which Go's map iteration sets them is irrelevant *)
Lemma js_args_visible r c :
  args_plain (fresh_vm r) (vc_args c) ->
  alone r c = RRun (vc_script c ((list_to_map (vc_args c) : gmap N jsval) ∪ view r (fresh_vm r))).
Proof.
  intros Hp. unfold alone, run_on.
  destruct (set_args_visible r _ _ Hp) as (m1 & Hs & Hv). rewrite Hs. simpl. rewrite Hv. reflexivity.
Qed.

Lemma js_args_order_irrelevant r c c' :
  args_plain (fresh_vm r) (vc_args c) -> Permutation (vc_args c) (vc_args c') ->
  vc_script c = vc_script c' -> alone r c = alone r c'.
Proof.
  intros Hp Hperm Hs.
  assert (Hp' : args_plain (fresh_vm r) (vc_args c')).
  { destruct Hp as [Hnd Hc]. split.
    - rewrite <- Hperm. exact Hnd.
    - intros k s Hin. apply Hc. rewrite Hperm. exact Hin. }
  rewrite (js_args_visible r c Hp), (js_args_visible r c' Hp'), Hs.
  f_equal. f_equal. f_equal. apply list_to_map_proper; [apply Hp|exact Hperm].
Qed.

(* ---- classification ---------------------------------------------------------------------------- *)
Definition is_error_value (v : jsval) : bool :=
  match v with
  | JNum NNaN | JNum NPosInf | JNum NNegInf | JNull | JUndef => true
  | _ => false
  end.

Lemma classify_spec : forall x,
  match x with
  | Throw _ => classify x = OErr EkThrow
  | Normal v =>
      if is_error_value v then
        exists k, classify x = OErr k /\
          match v with
          | JNum NNaN => k = EkNaN
          | JNum _ => k = EkInf
          | JNull => k = EkNull
          | _ => k = EkUndef
          end
      else classify x = OVal (export v)
  end.
Proof.
  intros [v|v]; [|reflexivity].
  destruct v as [| |b|[| | |bits]|s|l|kvs|f]; simpl; eauto.
Qed.

(* exactly the five kinds are errors *)
Lemma classify_error_iff x :
  (exists k, classify x = OErr k) <->
  match x with Throw _ => True | Normal v => is_error_value v = true end.
Proof.
  destruct x as [v|v]; simpl; [|split; eauto].
  destruct v as [| |b|[| | |bits]|s|l|kvs|f]; simpl; split; intros H; eauto;
    try (destruct H; discriminate); try discriminate.
Qed.

Lemma export_shape :
  (forall b, export (JBool b) = JsBool b) /\
  (forall n, export (JNum n) = JsNum n) /\
  (forall s, export (JStr s) = JsStr s) /\
  (forall l, export (JArr l) = JsArr (map export l)) /\
  (forall kvs, export (JObj kvs) = JsObj (map (fun '(k, x) => (k, export x)) kvs)).
Proof. repeat split. Qed.

(* ---- caches ------------------------------------------------------------------------------------ *)
Definition lru_ok {V} (P : N -> V -> Prop) (c : lru V) : Prop :=
  Forall (fun kv => P (fst kv) (snd kv)) (l_items c).

Lemma assoc_In {V} k (v : V) : forall l, assoc k l = Some v -> In (k, v) l.
Proof.
  induction l as [|[k' v'] t IH]; simpl; [discriminate|].
  destruct (N.eqb k k') eqn:E; intros H.
  - apply N.eqb_eq in E. inversion H; subst. left; reflexivity.
  - right; auto.
Qed.

Lemma assoc_del_Forall {V} (P : N * V -> Prop) k : forall l, Forall P l -> Forall P (assoc_del k l).
Proof.
  induction l as [|[k' v'] t IH]; simpl; intros H; [constructor|].
  inversion H; subst. destruct (N.eqb k k'); [assumption|constructor; auto].
Qed.

Lemma removelast_Forall {A} (P : A -> Prop) : forall l, Forall P l -> Forall P (removelast l).
Proof.
  induction l as [|x [|y t] IH]; simpl; intros H; try constructor.
  - inversion H; assumption.
  - apply IH. inversion H; assumption.
Qed.

Lemma lru_get_ok {V} (P : N -> V -> Prop) c k :
  lru_ok P c ->
  (forall v, fst (lru_get c k) = Some v -> P k v) /\ lru_ok P (snd (lru_get c k)).
Proof.
  intros H. unfold lru_get. destruct (assoc k (l_items c)) as [v|] eqn:E; simpl.
  - assert (Hp : P k v).
    { apply assoc_In in E. unfold lru_ok in H. rewrite Forall_forall in H.
      apply elem_of_list_In in E. apply (H _ E). }
    split; [intros v' Hv; inversion Hv; subst; exact Hp|].
    unfold lru_ok; simpl. constructor; [exact Hp|]. apply assoc_del_Forall. exact H.
  - split; [intros v Hv; discriminate|exact H].
Qed.

Lemma lru_add_ok {V} (P : N -> V -> Prop) c k v :
  lru_ok P c -> P k v -> lru_ok P (lru_add c k v).
Proof.
  intros H Hp. unfold lru_add.
  destruct (assoc k (l_items c)); unfold lru_ok; simpl.
  - constructor; [exact Hp|]. apply assoc_del_Forall. exact H.
  - match goal with |- context [if ?b then _ else _] => destruct b end; simpl.
    + apply (removelast_Forall _ ((k, v) :: l_items c)). constructor; auto.
    + constructor; auto.
Qed.

(* a cached program is the compilation of its text: the cache (any capacity, any eviction
   history) is invisible *)
Definition prog_ok (compile : N -> option script) (st : jsstate) : Prop :=
  lru_ok (fun js p => compile js = Some p) (st_prog st).

Lemma prog_cache_pure compile st js :
  prog_ok compile st ->
  fst (get_program compile st js) = compile js /\ prog_ok compile (snd (get_program compile st js)) /\
  st_pool (snd (get_program compile st js)) = st_pool st /\
  st_node (snd (get_program compile st js)) = st_node st /\
  st_nocache (snd (get_program compile st js)) = st_nocache st.
Proof.
  intros H. unfold get_program. destruct (st_nocache st) eqn:En; [auto|].
  destruct (lru_get_ok _ (st_prog st) js H) as [Hv Hc].
  destruct (lru_get (st_prog st) js) as [[p|] c'] eqn:E; simpl in *.
  - rewrite (Hv p eq_refl). repeat split; auto.
  - destruct (compile js) as [p|] eqn:Ec; simpl; repeat split; auto.
    apply lru_add_ok; auto.
Qed.

(* node-JSON cache: sound w.r.t. a family of calls when no call of the family carries, for a
   cached ID, a JSON text other than the cached one *)
Definition node_P (all : list call) (id : N) (b : bytes) : Prop :=
  forall c now, In c all -> c_node c = Some (id, now) -> now = b.
Definition node_ok (all : list call) (st : jsstate) : Prop := lru_ok (node_P all) (st_node st).

(* the named guard: a node ID's content does not change while the ID may be cached *)
Definition content_stable_per_id (all : list call) : Prop :=
  forall c1 c2 id b1 b2, In c1 all -> In c2 all ->
    c_node c1 = Some (id, b1) -> c_node c2 = Some (id, b2) -> b1 = b2.

Lemma get_node_json_fresh all st c id now :
  content_stable_per_id all -> In c all -> c_node c = Some (id, now) -> node_ok all st ->
  fst (get_node_json st id now) = now /\ node_ok all (snd (get_node_json st id now)) /\
  st_pool (snd (get_node_json st id now)) = st_pool st /\
  st_prog (snd (get_node_json st id now)) = st_prog st /\
  st_nocache (snd (get_node_json st id now)) = st_nocache st.
Proof.
  intros Hst Hin Hc H. unfold get_node_json. destruct (st_nocache st) eqn:En; [auto|].
  unfold loading_get.
  destruct (lru_get_ok _ (st_node st) id H) as [Hv Hk].
  destruct (lru_get (st_node st) id) as [[b|] c'] eqn:E; simpl in *.
  - split; [symmetry; eapply (Hv b eq_refl); eauto|]. repeat split; auto.
  - repeat split; auto. apply lru_add_ok; auto.
    intros c2 now2 Hin2 Hc2. exact (Hst c2 c id now2 now Hin2 Hin Hc2 Hc).
Qed.

(* ---- whole calls ------------------------------------------------------------------------------- *)
Definition st_ok (r : rt) (compile : N -> option script) (all : list call) (st : jsstate) : Prop :=
  pool_ok r (st_pool st) /\ prog_ok compile st /\ node_ok all st.

Definition with_node (c : call) (a : gmap N jsval) (j : bytes) : gmap N jsval :=
  match c_node c with Some _ => <[NODE := JStr j]> a | None => a end.

(* both iterations of the Go arg map enumerate exactly its keys *)
Definition sched_wf (a : gmap N jsval) (sc : sched) : Prop :=
  (forall k, k ∈ sc_set sc <-> is_Some (a !! k)) /\ (forall k, k ∈ sc_wipe sc <-> is_Some (a !! k)).
Definition call_wf (c : call) (sc : sched) : Prop :=
  forall a j, pair_args (c_args c) ∅ = Some a -> sched_wf (with_node c a j) sc.

Definition ord1_of (a : gmap N jsval) (sc : sched) : list (N * jsval) :=
  omap (fun k => (fun v => (k, v)) <$> a !! k) (sc_set sc).

Lemma sched_wf_same_keys a sc : sched_wf a sc -> same_keys (ord1_of a sc) (sc_wipe sc).
Proof.
  intros [H1 H2] k. rewrite H2. unfold ord1_of. rewrite elem_of_list_fmap. split.
  - intros [v Hv]. exists (k, v). split; [reflexivity|]. rewrite elem_of_list_omap.
    exists k. split; [apply H1; eauto|]. rewrite Hv. reflexivity.
  - intros ([k' v] & -> & Hin). rewrite elem_of_list_omap in Hin.
    destruct Hin as (k0 & _ & Hf). destruct (a !! k0) as [v0|] eqn:E; [|discriminate].
    simpl in Hf. inversion Hf; subst. simpl. eauto.
Qed.

(* the call as a function of its own inputs only: script text, args, the node's present JSON
   (and the iteration order of its own arg map) - no cache, no pool, no earlier call *)
Definition call_spec (r : rt) (compile : N -> option script) (c : call) (sc : sched)
  : outcome * option bytes :=
  if c_odd c then (OErr EkArgCount, None)
  else match compile (c_js c) with
       | None => (OErr EkCompile, None)
       | Some p =>
           match pair_args (c_args c) ∅ with
           | None => (OErr EkArgName, None)
           | Some a =>
               let a' := match c_node c with
                         | Some (_, now) => <[NODE := JStr now]> a
                         | None => a
                         end in
               (outcome_of (snd (run_on r (fresh_vm r) (ord1_of a' sc) (sc_wipe sc) p)),
                match c_node c with Some (_, now) => Some now | None => None end)
           end
       end.

Lemma exec_program_spec r compile all st sc p a :
  rt_wf r -> sched_wf a sc -> st_ok r compile all st ->
  snd (exec_program r st sc p a) = snd (run_on r (fresh_vm r) (ord1_of a sc) (sc_wipe sc) p) /\
  st_ok r compile all (fst (exec_program r st sc p a)).
Proof.
  intros Hwf Hs (Hp & Hg & Hn). unfold exec_program. fold (ord1_of a sc).
  destruct (st_nocache st) eqn:En; simpl; [split; [reflexivity|repeat split; auto]|].
  destruct (pool_get_ok r (sc_vm sc) (st_pool st) Hp) as [Hm Hp1].
  destruct (pool_get r (sc_vm sc) (st_pool st)) as [m pool1]; simpl in *. subst m.
  pose proof (run_on_restores r (ord1_of a sc) (sc_wipe sc) p Hwf (sched_wf_same_keys _ _ Hs)) as Hr.
  destruct (run_on r (fresh_vm r) (ord1_of a sc) (sc_wipe sc) p) as [m' res]; simpl in *. subst m'.
  split; [reflexivity|]. split; [constructor; auto|]. split; assumption.
Qed.

Lemma js_call_spec r compile all st c sc :
  rt_wf r -> content_stable_per_id all -> In c all -> call_wf c sc -> st_ok r compile all st ->
  snd (js_call r compile st c sc) = call_spec r compile c sc /\
  st_ok r compile all (fst (js_call r compile st c sc)).
Proof.
  intros Hwf Hst Hin Hcw Hok. unfold js_call, call_spec.
  destruct (c_odd c); [split; [reflexivity|exact Hok]|].
  destruct Hok as (Hp & Hg & Hn).
  destruct (prog_cache_pure compile st (c_js c) Hg) as (Hpr & Hg1 & Hpool1 & Hnode1 & Hnc1).
  destruct (get_program compile st (c_js c)) as [po st1]; simpl in *. subst po.
  assert (Hok1 : st_ok r compile all st1).
  { split; [rewrite Hpool1; exact Hp|]. split; [exact Hg1|]. unfold node_ok. rewrite Hnode1. exact Hn. }
  destruct (compile (c_js c)) as [p|]; [|split; [reflexivity|exact Hok1]].
  destruct (pair_args (c_args c) ∅) as [a|] eqn:Epa; [|split; [reflexivity|exact Hok1]].
  destruct (c_node c) as [[id now]|] eqn:Ecn.
  - destruct Hok1 as (Hp1 & Hg1' & Hn1).
    destruct (get_node_json_fresh all st1 c id now Hst Hin Ecn Hn1) as (Hj & Hn2 & Hpool2 & Hprog2 & Hnc2).
    destruct (get_node_json st1 id now) as [j st2]; simpl in *. subst j.
    assert (Hok2 : st_ok r compile all st2).
    { split; [rewrite Hpool2; exact Hp1|]. split; [unfold prog_ok; rewrite Hprog2; exact Hg1'|exact Hn2]. }
    assert (Hs : sched_wf (<[NODE := JStr now]> a) sc).
    { specialize (Hcw a now Epa). unfold with_node in Hcw. rewrite Ecn in Hcw. exact Hcw. }
    destruct (exec_program_spec r compile all st2 sc p _ Hwf Hs Hok2) as [He Hok3].
    destruct (exec_program r st2 sc p (<[NODE := JStr now]> a)) as [st3 res]; simpl in *.
    subst res. split; [reflexivity|exact Hok3].
  - assert (Hs : sched_wf a sc).
    { specialize (Hcw a [] Epa). unfold with_node in Hcw. rewrite Ecn in Hcw. exact Hcw. }
    destruct (exec_program_spec r compile all st1 sc p _ Hwf Hs Hok1) as [He Hok3].
    destruct (exec_program r st1 sc p a) as [st3 res]; simpl in *.
    subst res. split; [reflexivity|exact Hok3].
Qed.

Definition calls_of (es : list event) : list (call * sched) :=
  omap (fun e => match e with EvCall c sc => Some (c, sc) | EvGc _ => None end) es.

(* Every call of every history - whatever ran before on the pooled runtimes, whatever the caches
   hold or have evicted, whichever runtime the pool hands out, whenever it drops one - yields
   what the call yields as a function of its own inputs. *)
Lemma js_calls_as_alone r compile all : rt_wf r -> content_stable_per_id all ->
  forall es st,
  (forall c sc, In (c, sc) (calls_of es) -> In c all /\ call_wf c sc) ->
  st_ok r compile all st ->
  snd (run r compile st es) = map (fun cs => call_spec r compile (fst cs) (snd cs)) (calls_of es).
Proof.
  intros Hwf Hst. induction es as [|[c sc|i] t IH]; intros st Hall Hok; simpl; [reflexivity| |].
  - destruct (Hall c sc (or_introl eq_refl)) as [Hin Hcw].
    destruct (js_call_spec r compile all st c sc Hwf Hst Hin Hcw Hok) as [Hs Hok1].
    destruct (js_call r compile st c sc) as [st1 o]; simpl in *. subst o.
    specialize (IH st1 (fun c' sc' H => Hall c' sc' (or_intror H)) Hok1).
    destruct (run r compile st1 t) as [st2 os]; simpl in *. f_equal. exact IH.
  - assert (Hok1 : st_ok r compile all
        (mkSt (st_nocache st) (remove_nth i (st_pool st)) (st_prog st) (st_node st))).
    { destruct Hok as (Hp & Hg & Hn). split; [apply remove_nth_ok; exact Hp|split; assumption]. }
    specialize (IH _ Hall Hok1).
    destruct (run r compile _ t) as [st2 os]; simpl in *. exact IH.
Qed.

(* _node is the JSON of the node's CURRENT content, under the guard *)
Lemma node_json_fresh r compile all : rt_wf r -> content_stable_per_id all ->
  forall es st,
  (forall c sc, In (c, sc) (calls_of es) -> In c all /\ call_wf c sc) ->
  st_ok r compile all st ->
  Forall2 (fun cs o => forall j, snd o = Some j -> exists id, c_node (fst cs) = Some (id, j))
          (calls_of es) (snd (run r compile st es)).
Proof.
  intros Hwf Hst es st Hall Hok. rewrite (js_calls_as_alone r compile all Hwf Hst es st Hall Hok).
  clear Hall. induction (calls_of es) as [|[c sc] t IH]; simpl; constructor; auto.
  intros j. unfold call_spec. simpl.
  destruct (c_odd c); [discriminate|]. destruct (compile (c_js c)); [|discriminate].
  destruct (pair_args (c_args c) ∅); [|discriminate].
  destruct (c_node c) as [[id now]|]; simpl; [|discriminate].
  intros H; inversion H; subst. eauto.
Qed.

(* the spec is literally "the same call with caching and pooling switched off" *)
Lemma call_spec_is_uncached r compile c sc pc nc :
  snd (js_call r compile (st_init true pc nc) c sc) = call_spec r compile c sc.
Proof.
  unfold js_call, call_spec, get_program, get_node_json, exec_program, st_init; simpl.
  destruct (c_odd c); [reflexivity|].
  destruct (compile (c_js c)); [|reflexivity].
  destruct (pair_args (c_args c) ∅); [|reflexivity].
  destruct (c_node c) as [[id now]|]; reflexivity.
Qed.

Lemma st_init_ok r compile all nocache pc nc : st_ok r compile all (st_init nocache pc nc).
Proof. repeat split; constructor. Qed.

(* ---- executable side conditions are sound ------------------------------------------------------ *)
Lemma rt_wf_b_sound r : rt_wf_b r = true -> rt_wf r.
Proof.
  unfold rt_wf_b, rt_wf. rewrite forallb_forall. intros H.
  assert (H' : forall k s, rt_own r !! k = Some s ->
               implb (s_c s) (s_w s) && match rt_proto r !! k with None => true | Some _ => false end = true).
  { intros k s Hl. apply (H (k, s)). apply elem_of_list_In. apply elem_of_map_to_list. exact Hl. }
  split; intros k s Hl; specialize (H' k s Hl); apply andb_prop in H' as [H1 H2].
  - intros Hc. rewrite Hc in H1. exact H1.
  - destruct (rt_proto r !! k); [discriminate|reflexivity].
Qed.

Lemma nodup_b_sound : forall l, nodup_b l = true -> NoDup l.
Proof.
  induction l as [|x t IH]; simpl; intros H; [constructor|].
  apply andb_prop in H as [H1 H2]. constructor; [|auto].
  intros Hin. apply negb_true_iff in H1. apply elem_of_list_In in Hin.
  assert (existsb (N.eqb x) t = true) by (apply existsb_exists; exists x; split; [auto|apply N.eqb_refl]).
  congruence.
Qed.

Lemma enumerates_sound l (m : gmap N jsval) :
  enumerates l m = true -> forall k, k ∈ l <-> is_Some (m !! k).
Proof.
  unfold enumerates. intros H. apply andb_prop in H as [H H3]. apply andb_prop in H as [H1 H2].
  apply nodup_b_sound in H1. apply Nat.eqb_eq in H2. rewrite forallb_forall in H3.
  assert (Hsub : forall k, k ∈ l -> k ∈ dom m).
  { intros k Hin. apply elem_of_dom. apply elem_of_list_In in Hin. apply H3 in Hin.
    apply bool_decide_eq_true in Hin. exact Hin. }
  intros k. split; [intros Hin; apply elem_of_dom; auto|]. intros Hs.
  apply elem_of_dom in Hs.
  destruct (decide (k ∈ (list_to_set l : gset N))) as [Hk|Hk]; [apply elem_of_list_to_set in Hk; exact Hk|].
  exfalso.
  assert (Hsub2 : (list_to_set l : gset N) ⊆ dom m ∖ {[k]}).
  { intros x Hx. apply elem_of_difference. split.
    - apply elem_of_list_to_set in Hx. auto.
    - intros Hxk. apply elem_of_singleton in Hxk. subst x. contradiction. }
  apply subseteq_size in Hsub2. rewrite size_list_to_set in Hsub2 by exact H1.
  rewrite size_difference in Hsub2 by (apply singleton_subseteq_l; exact Hs).
  rewrite size_singleton, size_dom in Hsub2.
  assert (size (dom m) <> 0).
  { apply size_non_empty_iff. intros He. apply He in Hs. set_solver. }
  rewrite size_dom in *. lia.
Qed.

Lemma call_wf_b_sound c sc : call_wf_b c sc = true -> call_wf c sc.
Proof.
  unfold call_wf_b, call_wf, with_node. intros H a j Ha. rewrite Ha in H.
  apply andb_prop in H as [H1 H2].
  pose proof (enumerates_sound _ _ H1) as E1. pose proof (enumerates_sound _ _ H2) as E2.
  destruct (c_node c); split; intros k; rewrite ?E1, ?E2; try reflexivity;
    destruct (decide (k = NODE)) as [->|Hne]; rewrite ?lookup_insert, ?lookup_insert_ne by auto;
    split; eauto.
Qed.
