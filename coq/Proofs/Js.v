(* C20 proofs: VM isolation (pooled runtimes are always indistinguishable from new ones),
   result classification, cache soundness. *)
From Coq Require Import List NArith Bool Lia.
From stdpp Require Import gmap.
From OV Require Import Base.Bytes Base.Cases Model.Js.
Import ListNotations.

(* ---- the fresh runtime ------------------------------------------------------------------------ *)
(* Facts about goja's global object that the restore logic relies on: a configurable own
   property is also writable (so re-creating it as writable+configurable is exact), and no own
   property of the global object is also inherited.  The harness reads both off the real
   runtime on every run (check_case evaluates rt_wf_b on the table it extracted). *)
Definition rt_wf (r : rt) : Prop :=
  (forall k s, rt_own r !! k = Some s -> s_c s = true -> s_w s = true) /\
  (forall k s, rt_own r !! k = Some s -> rt_proto r !! k = None).

(* [m'] differs from [m] at most on [keys], and only by arg definitions over absent or
   configurable entries *)
Definition near (m : vm) (keys : list N) (m' : vm) : Prop :=
  forall k, m' !! k = m !! k \/
    (k ∈ keys /\ (exists v, m' !! k = Some (mkSlot v true true)) /\
     (m !! k = None \/ exists s, m !! k = Some s /\ s_c s = true)).

Lemma near_refl m keys : near m keys m.
Proof. intros k; left; reflexivity. Qed.

Lemma vdefine_near m k v m' keys :
  vdefine m k v = Some m' -> near m (k :: keys) m'.
Proof.
  unfold vdefine. intros H k'.
  destruct (decide (k' = k)) as [->|Hne].
  - right. split; [set_solver|].
    destruct (m !! k) as [s|] eqn:E.
    + destruct (s_c s) eqn:Ec; [|discriminate]. inversion H; subst.
      split; [eexists; apply lookup_insert|]. right; eauto.
    + inversion H; subst. split; [eexists; apply lookup_insert|]. left; reflexivity.
  - left. destruct (m !! k) as [s|]; [destruct (s_c s); [|discriminate]|];
      inversion H; subst; rewrite lookup_insert_ne; auto.
Qed.

Lemma near_trans_define m m' k v m'' keys :
  vdefine m k v = Some m' -> near m' keys m'' -> near m (k :: keys) m''.
Proof.
  intros Hd Hn k'. pose proof (vdefine_near m k v m' keys Hd k') as H1.
  destruct (Hn k') as [Heq|(Hin & Hv & Hm')].
  - rewrite Heq. exact H1.
  - right. split; [set_solver|]. split; [exact Hv|].
    destruct H1 as [H1|(_ & _ & H1)]; [|exact H1].
    rewrite <- H1. destruct Hm' as [->|(s & -> & Hs)]; [left; reflexivity|right; eauto].
Qed.

Lemma set_args_near : forall args m m1 ok,
  set_args m args = (m1, ok) -> near m (map fst args) m1.
Proof.
  induction args as [|[k v] rest IH]; simpl; intros m m1 ok H.
  - inversion H; subst. apply near_refl.
  - destruct (vdefine m k v) as [m'|] eqn:Hd.
    + eapply near_trans_define; eauto.
    + inversion H; subst. apply near_refl.
Qed.

Lemma shadow_of_lookup r m : forall keys (acc : gmap N jsval) k,
  fold_left (fun sh k => match vget r m k with Some p => <[k := p]> sh | None => sh end) keys acc !! k
  = match (if decide (k ∈ keys) then vget r m k else None) with
    | Some p => Some p
    | None => acc !! k
    end.
Proof.
  induction keys as [|k0 rest IH]; intros acc k; simpl.
  - destruct (decide (k ∈ [])) as [H|_]; [inversion H|reflexivity].
  - rewrite IH.
    destruct (decide (k ∈ rest)) as [Hin|Hnin].
    + destruct (decide (k ∈ k0 :: rest)) as [_|Hn]; [|exfalso; apply Hn; set_solver].
      destruct (vget r m k) eqn:E; [reflexivity|].
      destruct (vget r m k0) eqn:E0; [|reflexivity].
      destruct (decide (k = k0)) as [->|Hne]; [congruence|].
      rewrite lookup_insert_ne; auto.
    + destruct (decide (k = k0)) as [->|Hne].
      * destruct (decide (k0 ∈ k0 :: rest)) as [_|Hn]; [|exfalso; apply Hn; set_solver].
        destruct (vget r m k0) eqn:E0; [rewrite lookup_insert; reflexivity|reflexivity].
      * destruct (decide (k ∈ k0 :: rest)) as [Hin|_]; [exfalso; set_solver|].
        destruct (vget r m k0) eqn:E0; [rewrite lookup_insert_ne; auto|reflexivity].
Qed.

Lemma shadow_of_spec r m keys k :
  shadow_of r m keys !! k = if decide (k ∈ keys) then vget r m k else None.
Proof.
  unfold shadow_of. rewrite shadow_of_lookup. rewrite lookup_empty.
  destruct (decide (k ∈ keys)); [destruct (vget r m k)|]; reflexivity.
Qed.

(* the shadow loop's own iteration order is irrelevant *)
Lemma shadow_of_perm r m keys keys' :
  (forall k, k ∈ keys <-> k ∈ keys') -> shadow_of r m keys = shadow_of r m keys'.
Proof.
  intros H. apply map_eq; intros k. rewrite !shadow_of_spec.
  destruct (decide (k ∈ keys)) as [a|a], (decide (k ∈ keys')) as [b|b]; try reflexivity;
    exfalso; apply H in a || apply H in b; contradiction.
Qed.

Lemma wipe_one_other r sh m k k' : k' <> k -> wipe_one r sh m k !! k' = m !! k'.
Proof.
  intros Hne. unfold wipe_one, vdelete.
  assert (Hd : (match m !! k with Some s => if s_c s then delete k m else m | None => m end) !! k' = m !! k').
  { destruct (m !! k) as [s|]; [destruct (s_c s)|]; try reflexivity. rewrite lookup_delete_ne; auto. }
  destruct (sh !! k); [|exact Hd].
  match goal with |- context [vget r ?X k] => destruct (vget r X k) end; [exact Hd|].
  rewrite lookup_insert_ne; auto.
Qed.

(* wiping key k brings the entry at k back to what the VM [m0] had, from either admissible
   state of that entry *)
Lemma wipe_one_same r sh m0 m k :
  (forall k s, m0 !! k = Some s -> s_c s = true -> s_w s = true) ->
  (forall k s, m0 !! k = Some s -> rt_proto r !! k = None) ->
  sh !! k = vget r m0 k ->
  (m !! k = m0 !! k \/
   ((exists v, m !! k = Some (mkSlot v true true)) /\
    (m0 !! k = None \/ exists s, m0 !! k = Some s /\ s_c s = true))) ->
  wipe_one r sh m k !! k = m0 !! k.
Proof.
  intros Hw Hdis Hsh Hm. unfold wipe_one, vdelete, vget in *.
  destruct (m0 !! k) as [s0|] eqn:E0.
  - pose proof (Hdis _ _ E0) as Hp. pose proof (Hw _ _ E0) as Hww.
    destruct s0 as [sv sw sc]; simpl in *. rewrite Hsh.
    destruct Hm as [Heq|((v & Hv) & [H0|(s & H0 & Hc)])]; try discriminate.
    + rewrite Heq. simpl. destruct sc.
      * rewrite lookup_delete, Hp, lookup_insert, Hww; auto.
      * rewrite Heq. exact Heq.
    + rewrite Hv. simpl. inversion H0; subst; simpl in *. subst.
      rewrite lookup_delete, Hp, lookup_insert, Hww; auto.
  - rewrite Hsh.
    destruct Hm as [Heq|((v & Hv) & [H0|(s & H0 & Hc)])]; try discriminate.
    + rewrite Heq. destruct (rt_proto r !! k) eqn:Ep; rewrite ?Heq, ?Ep; auto.
    + rewrite Hv. simpl. destruct (rt_proto r !! k) eqn:Ep; rewrite lookup_delete, ?Ep; try reflexivity.
      apply lookup_delete.
Qed.

Lemma near_mono m keys keys' m' :
  (forall k, k ∈ keys -> k ∈ keys') -> near m keys m' -> near m keys' m'.
Proof. intros H Hn k. destruct (Hn k) as [E|(Hin & Hr)]; [left; exact E|right; split; auto]. Qed.

Lemma wipe_args_restores r sh m0 : forall ord2 m,
  (forall k s, m0 !! k = Some s -> s_c s = true -> s_w s = true) ->
  (forall k s, m0 !! k = Some s -> rt_proto r !! k = None) ->
  (forall k, k ∈ ord2 -> sh !! k = vget r m0 k) ->
  near m0 ord2 m ->
  wipe_args r sh m ord2 = m0.
Proof.
  induction ord2 as [|k rest IH]; intros m Hw Hdis Hsh Hnear; simpl.
  - apply map_eq; intros k. destruct (Hnear k) as [E|(Hin & _)]; [exact E|inversion Hin].
  - apply IH; auto.
    + intros k' Hk'. apply Hsh. set_solver.
    + intros k'. destruct (decide (k' = k)) as [->|Hne].
      * left. apply wipe_one_same; auto. { apply Hsh; set_solver. }
        destruct (Hnear k) as [E|(_ & Hv & H0)]; [left; exact E|right; split; assumption].
      * rewrite wipe_one_other by exact Hne.
        destruct (Hnear k') as [E|(Hin & Hr)]; [left; exact E|right; split; [set_solver|exact Hr]].
Qed.

(* the two map iterations of one call range over the same key set *)
Definition same_keys (ord1 : list (N * jsval)) (ord2 : list N) : Prop :=
  forall k, k ∈ ord2 <-> k ∈ map fst ord1.

(* execProgram gives the runtime back exactly as new: whatever the args are named, whether the
   script returns or throws, whether defining an arg fails half-way *)
Lemma run_on_restores r ord1 ord2 s :
  rt_wf r -> same_keys ord1 ord2 ->
  fst (run_on r (fresh_vm r) ord1 ord2 s) = fresh_vm r.
Proof.
  intros [Hw Hdis] Hk. unfold run_on.
  destruct (set_args (fresh_vm r) ord1) as [m1 ok] eqn:Hs. simpl.
  pose proof (set_args_near _ _ _ _ Hs) as Hn.
  apply wipe_args_restores; auto.
  - intros k Hin. rewrite shadow_of_spec. apply Hk in Hin.
    destruct (decide (k ∈ map fst ord1)); [reflexivity|contradiction].
  - eapply near_mono; [|exact Hn]. intros k Hin. apply Hk. exact Hin.
Qed.

(* ---- the pool ---------------------------------------------------------------------------------- *)
(* invariant: every pooled runtime is indistinguishable from a new one *)
Definition pool_ok (r : rt) (pool : list vm) : Prop := Forall (fun m => m = fresh_vm r) pool.

Lemma remove_nth_ok {A} (P : A -> Prop) : forall i l, Forall P l -> Forall P (remove_nth i l).
Proof.
  induction i as [|i IH]; intros [|x l] H; simpl; auto; inversion H; subst; auto.
Qed.

Lemma pool_get_ok r ch pool :
  pool_ok r pool -> fst (pool_get r ch pool) = fresh_vm r /\ pool_ok r (snd (pool_get r ch pool)).
Proof.
  intros H. destruct ch as [|i]; simpl; [split; auto|].
  destruct (nth_error pool i) as [m|] eqn:E; simpl; [|split; auto].
  split; [|apply remove_nth_ok; exact H].
  unfold pool_ok in H. rewrite Forall_forall in H. apply H. apply elem_of_list_In.
  eapply nth_error_In; eauto.
Qed.

Definition vcall_wf (c : vcall) : Prop := same_keys (vc_args c) (vc_wipe c).

(* what the call yields on a runtime nobody has used before *)
Definition alone (r : rt) (c : vcall) : runres :=
  snd (run_on r (fresh_vm r) (vc_args c) (vc_wipe c) (vc_script c)).

Definition vcalls (es : list vevent) : list vcall :=
  omap (fun e => match e with VCall c _ => Some c | VGc _ => None end) es.

Lemma js_isolation r : rt_wf r -> forall es pool,
  pool_ok r pool -> Forall vcall_wf (vcalls es) ->
  snd (vrun r pool es) = map (alone r) (vcalls es) /\ pool_ok r (fst (vrun r pool es)).
Proof.
  intros Hwf. induction es as [|[c ch|i] t IH]; intros pool Hp Hc; simpl.
  - split; [reflexivity|exact Hp].
  - simpl in Hc. inversion Hc as [|? ? Hc1 Hc2]; subst.
    destruct (pool_get_ok r ch pool Hp) as [Hm Hp1].
    destruct (pool_get r ch pool) as [m pool1]; simpl in *. subst m.
    pose proof (run_on_restores r (vc_args c) (vc_wipe c) (vc_script c) Hwf Hc1) as Hr.
    unfold alone.
    destruct (run_on r (fresh_vm r) (vc_args c) (vc_wipe c) (vc_script c)) as [m' res]; simpl in *.
    subst m'.
    assert (Hp2 : pool_ok r (pool_put (fresh_vm r) pool1)) by (constructor; auto).
    destruct (IH _ Hp2 Hc2) as [IH1 IH2].
    destruct (vrun r (pool_put (fresh_vm r) pool1) t) as [pool2 rs]; simpl in *.
    split; [f_equal; exact IH1|exact IH2].
  - apply IH; auto. apply remove_nth_ok; exact Hp.
Qed.

(* ---- interleaved calls ------------------------------------------------------------------------- *)
Definition held_calls (t : thread) : list vcall :=
  match th_held t with Some (c, _) => [c] | None => [] end.

Definition thread_ok (r : rt) (cs : list vcall) (t : thread) : Prop :=
  (forall c m, th_held t = Some (c, m) -> m = fresh_vm r) /\
  Forall vcall_wf (held_calls t ++ th_todo t) /\
  th_out t ++ map (alone r) (held_calls t ++ th_todo t) = map (alone r) cs.

Lemma thread_step_ok r cs pool t ch :
  rt_wf r -> pool_ok r pool -> thread_ok r cs t ->
  pool_ok r (fst (thread_step r pool t ch)) /\ thread_ok r cs (snd (thread_step r pool t ch)).
Proof.
  intros Hwf Hp (Hh & Hw & Ho). unfold thread_step.
  destruct t as [todo held out]; simpl in *.
  destruct held as [[c m]|]; unfold held_calls in *; simpl in *.
  - rewrite (Hh c m eq_refl). inversion Hw as [|? ? Hw1 Hw2]; subst.
    pose proof (run_on_restores r (vc_args c) (vc_wipe c) (vc_script c) Hwf Hw1) as Hr.
    destruct (run_on r (fresh_vm r) (vc_args c) (vc_wipe c) (vc_script c)) as [m' res] eqn:E.
    simpl in *. subst m'. split; [constructor; auto|].
    split; [intros ? ? H; discriminate|]. split; [exact Hw2|].
    simpl. rewrite <- Ho. rewrite <- app_assoc. simpl. unfold alone at 2. rewrite E. reflexivity.
  - destruct todo as [|c rest]; simpl.
    + split; [exact Hp|]. split; [intros ? ? H; discriminate|]. split; auto.
    + destruct (pool_get_ok r ch pool Hp) as [Hm Hp1].
      destruct (pool_get r ch pool) as [m pool1]; simpl in *. subst m.
      split; [exact Hp1|]. split; [intros ? ? H; inversion H; reflexivity|]. split; auto.
Qed.

Lemma set_nth_Forall2 {A B} (P : A -> B -> Prop) : forall i (l : list A) (l' : list B) x y,
  Forall2 P l l' -> nth_error l' i = Some y -> P x y -> Forall2 P (set_nth i x l) l'.
Proof.
  induction i as [|i IH]; intros l l' x y H Hn Hp; destruct H as [|a b l l' Hab H]; simpl in *;
    try discriminate.
  - inversion Hn; subst. constructor; auto.
  - constructor; auto. eapply IH; eauto.
Qed.

Lemma Forall2_nth_error {A B} (P : A -> B -> Prop) : forall i (l : list A) (l' : list B) x,
  Forall2 P l l' -> nth_error l i = Some x -> exists y, nth_error l' i = Some y /\ P x y.
Proof.
  induction i as [|i IH]; intros l l' x H Hn; destruct H as [|a b l l' Hab H]; simpl in *;
    try discriminate.
  - inversion Hn; subst. eauto.
  - eapply IH; eauto.
Qed.

Lemma run_sched_ok r : rt_wf r -> forall s pool ts css,
  pool_ok r pool -> Forall2 (fun t cs => thread_ok r cs t) ts css ->
  pool_ok r (fst (run_sched r pool ts s)) /\
  Forall2 (fun t cs => thread_ok r cs t) (snd (run_sched r pool ts s)) css.
Proof.
  intros Hwf. induction s as [|[i ch|j] rest IH]; intros pool ts css Hp Ht; simpl.
  - split; auto.
  - destruct (nth_error ts i) as [t|] eqn:E; [|apply IH; auto].
    destruct (Forall2_nth_error _ _ _ _ _ Ht E) as (cs & Ecs & Hok).
    destruct (thread_step_ok r cs pool t ch Hwf Hp Hok) as [Hp' Hok'].
    destruct (thread_step r pool t ch) as [pool' t']; simpl in *.
    apply IH; auto. eapply set_nth_Forall2; eauto.
  - apply IH; auto. apply remove_nth_ok; exact Hp.
Qed.

Lemma th_init_ok r cs : Forall vcall_wf cs -> thread_ok r cs (th_init cs).
Proof.
  intros H. split; [intros ? ? E; discriminate|]. split; [exact H|reflexivity].
Qed.

(* For every schedule (which thread moves, which pooled VM each Get returns, when the pool
   drops items): what a thread has produced so far is a prefix of what its calls yield on
   runtimes nobody has used, and it is all of it once the thread has finished. *)
Lemma js_isolation_interleaved r : rt_wf r -> forall css s pool,
  pool_ok r pool -> Forall (Forall vcall_wf) css ->
  Forall2 (fun t cs =>
     (exists rest, map (alone r) cs = th_out t ++ rest) /\
     (th_todo t = [] -> th_held t = None -> th_out t = map (alone r) cs))
    (snd (run_sched r pool (map th_init css) s)) css.
Proof.
  intros Hwf css s pool Hp Hc.
  assert (H0 : Forall2 (fun t cs => thread_ok r cs t) (map th_init css) css).
  { induction Hc as [|cs css Hcs Hc IH]; simpl; constructor; auto. apply th_init_ok; exact Hcs. }
  destruct (run_sched_ok r Hwf s pool _ _ Hp H0) as [_ H].
  eapply Forall2_impl; [exact H|].
  intros t cs (_ & _ & Ho). split.
  - eexists. symmetry. exact Ho.
  - intros Ht Hh. unfold held_calls in Ho. rewrite Ht, Hh in Ho. simpl in Ho.
    rewrite app_nil_r in Ho. exact Ho.
Qed.
