(* C12 bridge proofs, part 4: the XML and JSON stream readers of Model/Stream.v, executed on the
   node heap, only issue API calls whose preconditions hold; the heap always represents the
   abstract tree of the reader model; every delivered node is a sound subtree whose payload tree
   is the tree the abstract model delivers. *)
From Coq Require Import List NArith ZArith Bool Lia.
From stdpp Require Import pmap.
From OV Require Import Base.Bytes Base.Cases Base.Tree Model.Stream Model.Heap Model.HeapReaders
  Proofs.HeapIds Proofs.HeapTree Proofs.HeapOps Proofs.HeapPath Proofs.HeapRep Proofs.HeapRemove
  Proofs.Heap Proofs.HeapPay Proofs.HeapZip Proofs.HeapPrims.
Import ListNotations.

(* ---- abstract side ------------------------------------------------------------------------------------ *)
Lemma sim_same_stack st st' r :
  s_stack st' = s_stack st -> s_done st' = s_done st -> sim st r -> sim st' r.
Proof. unfold sim. intros -> ->. auto. Qed.

Lemma sim_set_stream st p r : sim st r -> sim (set_stream st p) r.
Proof. apply sim_same_stack; reflexivity. Qed.

Lemma sim_cc pm st r : sim st r -> sim (candidate_check pm st) r.
Proof.
  intros H. unfold candidate_check. destruct (s_stream st); auto. destruct (root_tree st); auto.
  destruct (match_any pm ptrue t); [apply sim_set_stream|]; exact H.
Qed.

Lemma sim_ne st r : sim st r -> (s_stack st <> [] <-> r_stack r <> []).
Proof.
  intros [H _]. split; intros Hne E; rewrite E in H; inversion H; congruence.
Qed.

Lemma wrap_up_eq pm pred hf oc st f rest : s_stack st = f :: rest ->
  wrap_up pm pred hf oc st =
  if negb (closing_is_stream st) then RCont (abs_up st)
  else if closing_ok pm pred hf oc st
       then RDeliver (close_frame f) (retained (abs_up st)) (set_stream (abs_up st) SClosed)
       else RCont (remove_closed (abs_up st)).
Proof.
  intros E. unfold wrap_up, closing_is_stream, closing_ok, abs_up. rewrite E. simpl.
  destruct rest; reflexivity.
Qed.

(* the attributes of a start tag, one by one, give the frame the model pushes at once *)
Definition abs_attr (st : Stream.state) (a : bytes * fspec * bytes) : Stream.state :=
  let '(n, f, v) := a in
  abs_up (add_text (Stream.push (mkF AttributeNode n f []) st) (T TextNode v (FXml [] []) [])).

Lemma abs_attrs_push st nm fs : forall attrs K,
  fold_left abs_attr attrs (Stream.push (mkF ElementNode nm fs K) st) =
  Stream.push (mkF ElementNode nm fs (K ++ map attr_node attrs)) st.
Proof.
  induction attrs as [|[[n f] v] attrs IH]; intros K; cbn [fold_left map].
  - rewrite app_nil_r. reflexivity.
  - assert (E : abs_attr (Stream.push (mkF ElementNode nm fs K) st) (n, f, v) =
               Stream.push (mkF ElementNode nm fs (K ++ [attr_node (n, f, v)])) st) by reflexivity.
    rewrite E, IH, <- app_assoc. reflexivity.
Qed.

(* ... and they are the turns of the model's attribute loop (Stream.add_attr) *)
Lemma abs_attr_is_add_attr st a : abs_attr st a = add_attr st a.
Proof. destruct a as [[n f] v]. reflexivity. Qed.

Lemma abs_attrs_fold : forall attrs st, fold_left abs_attr attrs st = fold_left add_attr attrs st.
Proof.
  induction attrs as [|a attrs IH]; intros st; cbn [fold_left]; [reflexivity|].
  rewrite abs_attr_is_add_attr. apply IH.
Qed.

(* ---- heap side ------------------------------------------------------------------------------------------ *)
Section Xml.
  Variable pm : list name -> bool.
  Variable pred : tree -> bool.
  Variable hf oc : bool.
  Variable caching : bool.
  Variable choose : st -> choice.
  Hypothesis HL : legal caching choose.

  Definition stepped (r r' : rd) : Prop :=
    good caching (r_m r') /\ wf r' /\ r_env r' = r_env r /\ ext caching (r_m r) (r_m r').

  Lemma stepped_trans r1 r2 r3 : stepped r1 r2 -> stepped r2 r3 -> stepped r1 r3.
  Proof.
    intros (_ & _ & E1 & X1) (G & W & E2 & X2). split; [auto|split; [auto|split]].
    - congruence.
    - eapply ext_trans; eauto.
  Qed.

  Lemma h_attrs_ok : forall attrs st r,
    good caching (r_m r) -> wf r -> sim st r -> r_stack r <> [] ->
    exists r', h_attrs caching choose r attrs = Some r' /\ stepped r r' /\
      sim (fold_left abs_attr attrs st) r' /\ r_stack r' <> [].
  Proof.
    induction attrs as [|[[n f] v] attrs IH]; intros st r Hg Hwf Hsim Hne; simpl.
    - exists r. split; [reflexivity|split; [|auto]]. split; [auto|split; [auto|split; [reflexivity|apply ext_refl]]].
    - destruct (new_child_ok caching choose st r AttributeNode n f true HL Hg Hwf Hsim Hne)
        as (r1 & E1 & G1 & W1 & V1 & X1 & S1). rewrite E1. simpl.
      assert (Hne1 : r_stack r1 <> []).
      { apply (sim_ne _ _ S1). simpl. discriminate. }
      destruct (new_child_ok caching choose _ r1 TextNode v (FXml [] []) false HL G1 W1 S1 Hne1)
        as (r2 & E2 & G2 & W2 & V2 & X2 & S2). rewrite E2. simpl.
      assert (Hne2 : r_stack r2 <> []).
      { apply (sim_ne _ _ S2). unfold add_text. simpl. discriminate. }
      destruct (go_up_ok _ r2 W2 S2 Hne2) as (r3 & E3 & M3 & W3 & V3 & S3 & _). rewrite E3. simpl.
      assert (G3 : good caching (r_m r3)) by (rewrite M3; exact G2).
      assert (Hne3 : r_stack r3 <> []).
      { apply (sim_ne _ _ S3). unfold abs_up, add_text. simpl.
        apply (sim_ne _ _ Hsim) in Hne. destruct (s_stack st); [congruence|discriminate]. }
      destruct (IH _ r3 G3 W3 S3 Hne3) as (r4 & E4 & (G4 & W4 & V4 & X4) & S4 & Hne4).
      exists r4. split; [exact E4|split; [|split; [exact S4|exact Hne4]]].
      split; [auto|split; [auto|split; [congruence|]]].
      eapply ext_trans; [exact X1|]. eapply ext_trans; [exact X2|]. rewrite <- M3. exact X4.
  Qed.

  Lemma h_wrap_up_ok st r f rest :
    good caching (r_m r) -> wf r -> sim st r -> s_stack st = f :: rest ->
    match wrap_up pm pred hf oc st with
    | RCont st' => exists r', h_wrap_up pm pred hf oc caching st r = Some r' /\ stepped r r' /\ sim st' r'
    | RDeliver t n st' =>
        exists r' ta, h_wrap_up pm pred hf oc caching st r = Some r' /\ stepped r r' /\ sim st' r' /\
          last_closed r' = Some ta /\ payload (heap (m_s (r_m r'))) ta = Some t
    | _ => True
    end.
  Proof.
    intros Hg Hwf Hsim Est.
    assert (Hne : r_stack r <> []) by (apply (sim_ne _ _ Hsim); rewrite Est; discriminate).
    destruct (go_up_ok st r Hwf Hsim Hne) as (r1 & E1 & M1 & W1 & V1 & S1 & (f0 & rest0 & ta & Ef & Hlast & Hpay)).
    rewrite Est in Ef. inversion Ef; subst f0 rest0.
    assert (G1 : good caching (r_m r1)) by (rewrite M1; exact Hg).
    assert (Hstep1 : stepped r r1).
    { split; [auto|split; [auto|split; [auto|rewrite M1; apply ext_refl]]]. }
    assert (Hlc : last_closed r1 = Some ta).
    { unfold last_closed. destruct (r_stack r1) as [|[p ks] up]; [exact Hlast|].
      destruct Hlast as [ks' ->]. rewrite rev_app_distr. reflexivity. }
    rewrite (wrap_up_eq pm pred hf oc st f rest Est). unfold h_wrap_up. rewrite E1. simpl.
    unfold closing_rejected. destruct (closing_is_stream st); simpl.
    - destruct (closing_ok pm pred hf oc st); simpl.
      + exists r1, ta. split; [reflexivity|split; [exact Hstep1|split; [apply sim_set_stream; exact S1|split; [exact Hlc|]]]].
        rewrite M1. exact Hpay.
      + destruct (remove_last_ok caching _ r1 G1 W1 S1) as (r2 & E2 & G2 & W2 & V2 & X2 & S2).
        { destruct (r_stack r1) as [|[p ks] up]; [eauto|]. destruct Hlast as [ks' ->]. eauto. }
        exists r2. split; [exact E2|split; [|exact S2]].
        eapply stepped_trans; [exact Hstep1|]. split; [auto|split; [auto|split; [auto|exact X2]]].
    - exists r1. split; [reflexivity|split; [exact Hstep1|exact S1]].
  Qed.

  Lemma hx_token_ok st r tk :
    good caching (r_m r) -> wf r -> sim st r ->
    match xstep pm pred hf oc st tk with
    | RCont st' => exists r', hx_token pm pred hf oc caching choose st r tk = Some r' /\ stepped r r' /\ sim st' r'
    | RDeliver t n st' =>
        exists r' ta, hx_token pm pred hf oc caching choose st r tk = Some r' /\ stepped r r' /\ sim st' r' /\
          last_closed r' = Some ta /\ payload (heap (m_s (r_m r'))) ta = Some t
    | _ => True
    end.
  Proof.
    intros Hg Hwf Hsim. destruct tk as [nm fs attrs| |s]; simpl.
    - destruct (s_stack st) as [|f rest] eqn:Est; [exact I|].
      assert (Hne : r_stack r <> []) by (apply (sim_ne _ _ Hsim); rewrite Est; discriminate).
      destruct (new_child_ok caching choose st r ElementNode nm fs true HL Hg Hwf Hsim Hne)
        as (r1 & E1 & G1 & W1 & V1 & X1 & S1). rewrite E1. simpl.
      assert (Hne1 : r_stack r1 <> []) by (apply (sim_ne _ _ S1); simpl; discriminate).
      destruct (h_attrs_ok attrs _ r1 G1 W1 S1 Hne1) as (r2 & E2 & (G2 & W2 & V2 & X2) & S2 & _).
      exists r2. split; [exact E2|split].
      + split; [auto|split; [auto|split; [congruence|eapply ext_trans; eauto]]].
      + unfold xstart. apply sim_cc. rewrite abs_attrs_fold in S2. exact S2.
    - destruct (s_stack st) as [|f rest] eqn:Est; [unfold wrap_up; rewrite Est; exact I|].
      apply (h_wrap_up_ok st r f rest Hg Hwf Hsim Est).
    - destruct (s_stack st) as [|f rest] eqn:Est; [exact I|].
      assert (Hne : r_stack r <> []) by (apply (sim_ne _ _ Hsim); rewrite Est; discriminate).
      destruct (new_child_ok caching choose st r TextNode s (FXml [] []) false HL Hg Hwf Hsim Hne)
        as (r1 & E1 & G1 & W1 & V1 & X1 & S1).
      exists r1. split; [exact E1|split; [split; auto|]].
      unfold add_text in S1. rewrite Est in S1. exact S1.
  Qed.
End Xml.

(* ---- what is handed out ------------------------------------------------------------------------------------ *)
Lemma tree_ok_azip h : forall r sub t par pv nx,
  azip r (Some sub) = Some t -> tree_ok h par pv nx t ->
  exists par' pv' nx', tree_ok h par' pv' nx' sub.
Proof.
  induction r as [|[a ks] r IH]; intros sub t par pv nx H Hok; simpl in H.
  - inversion H; subst. eauto.
  - destruct (IH _ _ _ _ _ H Hok) as (p' & v' & x' & [_ Hc]).
    exists (Some a). eapply chain_elem; [exact Hc|]. apply elem_of_app. right. apply elem_of_cons. auto.
Qed.

(* a delivered node: at that moment the state is good (Rep holds), the node's addressed subtree
   lies inside the live forest, its links are exactly those of that tree, and its payload tree is
   the abstract tree [t] *)
Definition deliv_ok (caching : bool) (d : mach * atree) (t : tree) : Prop :=
  good caching (fst d) /\
  payload (heap (m_s (fst d))) (snd d) = Some t /\
  (forall b, b ∈ addrs (snd d) -> b ∈ addrs_f (m_F (fst d))) /\
  exists par pv nx, tree_ok (heap (m_s (fst d))) par pv nx (snd d).

Lemma last_closed_ok caching r ta :
  good caching (r_m r) -> wf r -> last_closed r = Some ta ->
  (forall b, b ∈ addrs ta -> b ∈ addrs_f (m_F (r_m r))) /\
  exists par pv nx, tree_ok (heap (m_s (r_m r))) par pv nx ta.
Proof.
  intros [HR _] Hwf Hl. pose proof (R_links _ _ _ HR) as Hlinks. rewrite Forall_forall in Hlinks.
  unfold last_closed in Hl. destruct (r_stack r) as [|[p ks] up] eqn:Est.
  - assert (Hin : ta ∈ m_F (r_m r)).
    { rewrite Hwf. unfold r_forest, r_tree. rewrite Est, Hl. apply elem_of_app. right. apply elem_of_list_here. }
    split; [intros b Hb; eapply addrs_f_in; eauto|]. exists None, None, None. apply Hlinks. exact Hin.
  - destruct (rev ks) as [|k rest] eqn:Er; [discriminate|]. inversion Hl; subst k.
    assert (Eks : ks = rev rest ++ [ta]).
    { rewrite <- (rev_involutive ks), Er. reflexivity. }
    destruct (azip_some up (AT p ks)) as [t Ht].
    assert (Hin : t ∈ m_F (r_m r)).
    { rewrite Hwf. unfold r_forest, r_tree. rewrite Est, azip_cons_none, Ht. apply elem_of_app. right. apply elem_of_list_here. }
    destruct (tree_ok_azip _ _ _ _ _ _ _ Ht (Hlinks t Hin)) as (p' & v' & x' & [_ Hc]).
    assert (Hta : ta ∈ ks) by (rewrite Eks; apply elem_of_app; right; apply elem_of_list_here).
    destruct (chain_elem _ _ _ _ _ Hc Hta) as (pv & nx & Hok).
    split; [|eauto]. intros b Hb. eapply addrs_f_in; [exact Hin|].
    rewrite (azip_addrs _ _ _ Ht). apply elem_of_app. left. eapply addrs_kid_in; eauto.
Qed.

(* ---- NewXMLStreamReader / NewJSONStreamReader -------------------------------------------------------------------- *)
Lemma tree_init_ok caching choose m0 ty d fs :
  legal caching choose -> good caching m0 ->
  exists r0 n, tree_init caching choose m0 ty d fs = Some r0 /\
    good caching (r_m r0) /\ wf r0 /\ r_env r0 = m_F m0 /\ ext caching m0 (r_m r0) /\
    r_stack r0 = [(n, [])] /\ r_done r0 = None /\ n ∉ addrs_f (m_F m0) /\
    sim (mkS [mkF ty d fs []] None SNone) r0.
Proof.
  intros HL Hg.
  destruct (do_create caching choose m0 (N_of_ntype ty) d fs HL Hg)
    as (m1 & n & id & Hdo & Hg1 & HF1 & Hn & Hlog & Hnode & Hother).
  unfold tree_init. rewrite Hdo. eexists. exists n. split; [reflexivity|]. simpl.
  split; [exact Hg1|split; [|split; [reflexivity|split; [eapply do_op_ext; eauto|split; [reflexivity|split; [reflexivity|split; [exact Hn|]]]]]]].
  - unfold wf, r_forest, r_tree. simpl. exact HF1.
  - unfold sim. simpl. split; [|split; [intros E; discriminate|reflexivity]].
    constructor; [|constructor]. split; [|reflexivity]. unfold node_pay. simpl. rewrite Hnode. reflexivity.
Qed.

Lemma reader_init_ok caching choose m0 fs :
  legal caching choose -> good caching m0 ->
  exists r0, reader_init caching choose m0 fs = Some r0 /\
    good caching (r_m r0) /\ wf r0 /\ r_env r0 = m_F m0 /\ ext caching m0 (r_m r0) /\
    sim (mkS [mkF DocumentNode [] fs []] None SNone) r0.
Proof.
  intros HL Hg.
  destruct (tree_init_ok caching choose m0 DocumentNode [] fs HL Hg) as (r0 & n & E & G & W & V & X & _ & _ & _ & S).
  exists r0. auto 10.
Qed.

(* ---- the XML reader, read to the end ------------------------------------------------------------------------------ *)
Section XmlRun.
  Variable pm : list name -> bool.
  Variable pred : tree -> bool.
  Variable hf oc : bool.
  Variable caching : bool.
  Variable choose : st -> choice.
  Hypothesis HL : legal caching choose.

  Lemma deliver_closed st tk t n st' :
    xstep pm pred hf oc st tk = RDeliver t n st' -> s_stream st' = SClosed.
  Proof.
    destruct tk; simpl.
    - destruct (s_stack st); discriminate.
    - unfold wrap_up. destruct (s_stack st) as [|f rest]; [discriminate|].
      destruct (negb _); [discriminate|]. destruct (_ || _); [|discriminate].
      intros H. inversion H. reflexivity.
    - destruct (s_stack st); discriminate.
  Qed.

  Lemma hx_run_ok : forall toks st r rel,
    good caching (r_m r) -> wf r -> sim st r ->
    exists r' ds, hx_run pm pred hf oc caching choose st r rel toks = Some (r', ds) /\
      stepped caching r r' /\
      Forall2 (deliv_ok caching) ds (map fst (fst (xrun pm pred hf oc st rel toks))).
  Proof.
    induction toks as [|tk toks IH]; intros st r rel Hg Hwf Hsim; simpl.
    - exists r, []. split; [reflexivity|split; [|constructor]].
      split; [auto|split; [auto|split; [reflexivity|apply ext_refl]]].
    - pose proof (hx_token_ok pm pred hf oc caching choose HL st r tk Hg Hwf Hsim) as Htok.
      destruct (xstep pm pred hf oc st tk) as [st'|t n st'| |] eqn:Estep.
      + destruct Htok as (r1 & E1 & (G1 & W1 & V1 & X1) & S1). rewrite E1. simpl.
        destruct (IH st' r1 rel G1 W1 S1) as (r2 & ds & E2 & (G2 & W2 & V2 & X2) & Hds).
        exists r2, ds. split; [exact E2|split; [|exact Hds]].
        split; [auto|split; [auto|split; [congruence|eapply ext_trans; eauto]]].
      + destruct Htok as (r1 & ta & E1 & (G1 & W1 & V1 & X1) & S1 & Hlc & Hpay). rewrite E1. simpl.
        unfold last_closed in Hlc. rewrite Hlc.
        assert (Hd : deliv_ok caching (r_m r1, ta) t).
        { destruct (last_closed_ok caching r1 ta G1 W1 Hlc) as [Hin Hok].
          split; [exact G1|split; [exact Hpay|split; [exact Hin|exact Hok]]]. }
        destruct (match (if hd false rel then release st' else Some st') with
                  | Some s => read_prologue s | None => None end) as [st2|] eqn:Est2.
        * (* the node is removed exactly once, by Release or by the next Read *)
          assert (Es : s_stream st' = SClosed) by (eapply deliver_closed; eauto).
          assert (Est2' : st2 = remove_closed st').
          { assert (En : s_stream (remove_closed st') = SNone) by (unfold remove_closed; destruct (s_stack st'); reflexivity).
            destruct (hd false rel); unfold release, read_prologue in Est2; rewrite ?Es in Est2; simpl in Est2;
              rewrite ?En in Est2; inversion Est2; reflexivity. }
          assert (Hlast : match r_stack r1 with
                          | [] => exists ta0, r_done r1 = Some ta0
                          | (_, ks) :: _ => exists ks' ta0, ks = ks' ++ [ta0]
                          end).
          { destruct (r_stack r1) as [|[p ks] up]; [eauto|].
            destruct (rev ks) as [|k rest] eqn:Er; [discriminate|]. exists (rev rest), k.
            rewrite <- (rev_involutive ks), Er. reflexivity. }
          destruct (remove_last_ok caching st' r1 G1 W1 S1 Hlast) as (r2 & E2 & G2 & W2 & V2 & X2 & S2).
          rewrite E2. simpl.
          assert (S2' : sim st2 r2) by (rewrite Est2'; exact S2).
          destruct (IH st2 r2 (tl rel) G2 W2 S2') as (r3 & ds & E3 & (G3 & W3 & V3 & X3) & Hds).
          rewrite E3. simpl. exists r3, ((r_m r1, ta) :: ds). split; [reflexivity|split].
          -- split; [auto|split; [auto|split; [congruence|]]].
             eapply ext_trans; [exact X1|]. eapply ext_trans; eauto.
          -- destruct (xrun pm pred hf oc st2 (tl rel) toks) as [ds' fin]. simpl in *. constructor; assumption.
        * exists r1, [(r_m r1, ta)]. split; [reflexivity|split; [split; auto|]].
          simpl. constructor; [exact Hd|constructor].
      + exists r, []. split; [reflexivity|split; [|constructor]].
        split; [auto|split; [auto|split; [reflexivity|apply ext_refl]]].
      + exists r, []. split; [reflexivity|split; [|constructor]].
        split; [auto|split; [auto|split; [reflexivity|apply ext_refl]]].
  Qed.

  (* NewXMLStreamReader, then Read until the end, with or without Release calls *)
  Theorem xml_reader_pf : forall m0 rel toks,
    good caching m0 ->
    exists r0 r' ds,
      reader_init caching choose m0 (FXml [] []) = Some r0 /\
      hx_run pm pred hf oc caching choose x_init r0 rel toks = Some (r', ds) /\
      good caching (r_m r') /\ ext caching m0 (r_m r') /\
      Forall2 (deliv_ok caching) ds (map fst (fst (xrun pm pred hf oc x_init rel toks))).
  Proof.
    intros m0 rel toks Hg.
    destruct (reader_init_ok caching choose m0 (FXml [] []) HL Hg) as (r0 & E0 & G0 & W0 & V0 & X0 & S0).
    destruct (hx_run_ok toks x_init r0 rel G0 W0 S0) as (r' & ds & E1 & (G1 & W1 & V1 & X1) & Hds).
    exists r0, r', ds. split; [exact E0|split; [exact E1|split; [exact G1|split; [eapply ext_trans; eauto|exact Hds]]]].
  Qed.
End XmlRun.
