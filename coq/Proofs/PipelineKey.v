(* C13: the transform-result cache key (node ID, declaration hash, xpathQueryNeeded) determines the
   result - for EVERY declaration kind of the C02 evaluator model, including custom functions and
   custom_parse functions, which receive the context node itself (copy, javascript_with_context:
   the C13-r41 class): two evaluations (d1 at p1) and (d2 at p2) of declarations of one validated
   tree that have the same key yield the same result.  The node component is what carries the
   implicit-node functions: the theorem needs nid p1 = nid p2 (and pairwise distinct IDs) to
   conclude p1 = p2; without the node in the key the statement is false as soon as a function's
   result depends on its node (key_without_node_refuted, on the oracle level). *)
From Coq Require Import String List ZArith NArith Bool Lia.
Import ListNotations.
From OV Require Import Base.Bytes Base.Cases Base.Tree Gen.Conv Model.Value Model.XPathFrag Model.Decl Model.Eval.
From OV Require Import Proofs.EvalPure Proofs.EvalCache.

Section Key.
  Variable root : tree.
  Variable query : bytes -> path -> option (list path).
  Variable ext : bytes -> option bytes.
  Variable fsigs : bytes -> option fsig.
  Variable fcall : bytes -> path -> list value -> cfres.
  Variable pcall : bytes -> path -> cfres.
  Variable V : path -> Prop.
  Variable top : vdecl.
  Hypothesis query_V : forall x p ps, V p -> query x p = Some ps -> Forall V ps.
  Hypothesis top_wf : wf_b true top = true.
  Variable K : Type.
  Variable nid : path -> K.
  Hypothesis nid_inj : forall p q, V p -> V q -> nid p = nid q -> p = q.

  (* parse.go:38-55 *)
  Definition cache_key (d : vdecl) (p : path) : K * pdecl * bool :=
    (nid p, e_hash (ei d), e_needed (ei d)).

  Theorem cache_key_determines_result : forall d1 d2 p1 p2,
    In d1 (subdecls top) -> In d2 (subdecls top) -> V p1 -> V p2 ->
    cache_key d1 p1 = cache_key d2 p2 ->
    eval_nocache root query ext fsigs fcall pcall d1 p1 = eval_nocache root query ext fsigs fcall pcall d2 p2.
  Proof.
    intros d1 d2 p1 p2 H1 H2 Hv1 Hv2 E. unfold cache_key in E. inversion E as [[En Eh Eq]].
    apply nid_inj in En; auto. subst p2.
    rewrite (nocache_denotes root query ext fsigs fcall pcall V top query_V top_wf d1 p1 H1 Hv1).
    rewrite (nocache_denotes root query ext fsigs fcall pcall V top query_V top_wf d2 p1 H2 Hv2).
    apply (same_key_same_eval root query ext fsigs fcall pcall false top (fun _ => top_wf) d1 d2 eq_refl H1 H2 Eh Eq).
  Qed.
End Key.

(* Without the node: an oracle whose answer depends on the node it is called at (copy,
   javascript_with_context reading _node) distinguishes two nodes although declaration hash and
   xpathQueryNeeded are the same - so a key that drops the node ID for "node-independent looking"
   custom functions cannot determine the result. *)
Theorem key_without_node_refuted :
  exists (fcall : bytes -> path -> list value -> cfres) (name : bytes) (p1 p2 : path) (args : list value),
    p1 <> p2 /\ fcall name p1 args <> fcall name p2 args.
Proof.
  exists (fun _ p _ => match p with [] => CfOk VNil | _ => CfErr end), [], [], [0], [].
  split; discriminate.
Qed.
