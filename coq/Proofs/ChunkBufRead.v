(* C09 proofs, part 7: bufio.Reader.Read over a well-behaved reader is a well-behaved reader of
   the same stream (it passes empty reads through one to one and normalises "data together with
   the error" into data, then the error). *)
From Coq Require Import List NArith Bool Arith Lia.
From Coq.Strings Require Import Byte.
Import ListNotations.
From OV Require Import Base.Bytes Base.Cases Base.Utf8 Model.Chunk Proofs.Chunk Proofs.ChunkLines.

Section BufReadProofs.
  Variable St : Type.
  Variable sread : St -> nat -> rres * St.
  Variable Rep : St -> bytes -> tail -> Prop.
  Variable wt : St -> nat.
  Variable lead : St -> nat.
  Hypothesis Hok : reader_ok St sread Rep wt lead.
  Variable N : nat.
  Hypothesis HN : 4 <= N.

  Definition bufrd_rep (bx : bufrd * St) (data : bytes) (t : tail) : Prop := BR St Rep N bx (data, t).
  Definition bufrd_wt (bx : bufrd * St) : nat :=
    3 * length (b_data (fst bx)) + 3 * wt (snd bx) + (if b_err (fst bx) then 1 else 0).
  Definition bufrd_lead (bx : bufrd * St) : nat := lead (snd bx).

  Theorem bufio_read_reader_ok :
    reader_ok (bufrd * St) (b_read St sread N) bufrd_rep bufrd_wt bufrd_lead.
  Proof.
    intros [b x] data t cap HR Hcap. unfold bufrd_rep, bufrd_wt, bufrd_lead in *. cbn [fst snd].
    destruct HR as [HdN HR].
    assert (Hlead : lead x <= 99).
    { destruct (b_err b); [destruct HR as (A&_)|destruct HR as (r&A&_)];
        exact (proj1 (Hok x _ _ 1 A ltac:(lia))). }
    split; [exact Hlead|].
    unfold b_read. destruct (Nat.eqb_spec cap 0) as [|_]; [lia|].
    destruct (b_data b) as [|d0 d] eqn:Ed.
    - destruct (b_err b) as [e|] eqn:Ee.
      + (* pending error, handed out now *)
        destruct HR as (A&->&->). cbn [app].
        split; [reflexivity|]. split; [reflexivity|]. split.
        * unfold BR. cbn [b_data b_err]. split; [simpl; lia|]. exists []. auto.
        * split; [simpl; lia|]. cbn [fst snd b_data b_err length]. lia.
      + destruct HR as (rest&A&->). cbn [app].
        destruct (Nat.leb_spec N cap) as [Hbig|Hsmall].
        * (* large read: straight into p *)
          destruct (Hok x rest t cap A Hcap) as [_ H].
          destruct (sread x cap) as [[c [e|]] x'].
          -- destruct H as (->&->&A'&Hl&Hw). split; [reflexivity|]. split; [reflexivity|]. split.
             ++ unfold BR. cbn [b_data b_err]. split; [simpl; lia|]. exists []. auto.
             ++ split; [exact Hl|]. cbn [fst snd b_data b_err length]. lia.
          -- destruct H as (rest'&->&A'&Hw&Hl&Hld). exists rest'. split; [reflexivity|]. split.
             ++ unfold BR. cbn [b_data b_err]. split; [simpl; lia|]. exists rest'. auto.
             ++ cbn [fst snd b_data b_err length]. repeat split; auto. lia.
        * (* one read into the buffer, then copy out *)
          destruct (Hok x rest t N A ltac:(lia)) as [_ H].
          destruct (sread x N) as [[c oe] x'].
          destruct c as [|c0 c]; cbn [is_nil].
          -- destruct oe as [e|].
             ++ destruct H as (->&->&A'&Hl&Hw). split; [reflexivity|]. split; [reflexivity|]. split.
                ** unfold BR. cbn [b_data b_err]. split; [simpl; lia|]. exists []. auto.
                ** split; [simpl; lia|]. cbn [fst snd b_data b_err length] in *. lia.
             ++ destruct H as (rest'&->&A'&Hw&Hl&Hld). exists rest'. split; [reflexivity|]. split.
                ** unfold BR. cbn [b_data b_err]. split; [simpl; lia|]. exists rest'. auto.
                ** cbn [fst snd b_data b_err length] in *. repeat split; auto; lia.
          -- set (cc := c0 :: c) in *.
             assert (Hfl : length (firstn cap cc) = Nat.min cap (length cc)) by apply firstn_length.
             assert (Hsl : length (skipn cap cc) = length cc - cap) by apply skipn_length.
             assert (Hcc : 1 <= length cc) by (unfold cc; simpl; lia).
             destruct oe as [e|].
             ++ destruct H as (->&->&A'&Hl&Hw). exists (skipn cap cc).
                split; [symmetry; apply firstn_skipn|]. split.
                ** unfold BR. cbn [b_data b_err]. split; [lia|]. auto.
                ** cbn [fst snd b_data b_err]. split; [lia|]. split; [lia|].
                   intro E. rewrite E in Hfl. simpl in Hfl. lia.
             ++ destruct H as (rest'&->&A'&Hw&Hl&Hld). exists (skipn cap cc ++ rest').
                split; [rewrite app_assoc, firstn_skipn; reflexivity|]. split.
                ** unfold BR. cbn [b_data b_err]. split; [lia|]. exists rest'. auto.
                ** cbn [fst snd b_data b_err]. split; [lia|]. split; [lia|].
                   intro E. rewrite E in Hfl. simpl in Hfl. lia.
    - (* bytes buffered: copy out *)
      set (dd := d0 :: d) in *.
      assert (Hfl : length (firstn cap dd) = Nat.min cap (length dd)) by apply firstn_length.
      assert (Hsl : length (skipn cap dd) = length dd - cap) by apply skipn_length.
      assert (Hdd : 1 <= length dd) by (unfold dd; simpl; lia).
      assert (Hne : firstn cap dd = [] -> False).
      { intro E. rewrite E in Hfl. simpl in Hfl. lia. }
      destruct (b_err b) as [e|] eqn:Ee.
      + destruct HR as (A&->&->). exists (skipn cap dd).
        split; [symmetry; apply firstn_skipn|]. split.
        * unfold BR. cbn [b_data b_err]. try rewrite Ee. split; [lia|]. auto.
        * cbn [fst snd b_data b_err]. try rewrite Ee. split; [lia|]. split; [lia|]. intro E; destruct (Hne E).
      + destruct HR as (rest&A&->). exists (skipn cap dd ++ rest).
        split; [rewrite app_assoc, firstn_skipn; reflexivity|]. split.
        * unfold BR. cbn [b_data b_err]. try rewrite Ee. split; [lia|]. exists rest. auto.
        * cbn [fst snd b_data b_err]. try rewrite Ee. split; [lia|]. split; [lia|]. intro E; destruct (Hne E).
  Qed.
End BufReadProofs.
