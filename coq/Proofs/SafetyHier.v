(* C03, closed instance of the Read bound for a real reader: the hierarchy reader of csv2 /
   fixedlength2 / EDI as modelled and proved under C05 (Model/Hier.v, Proofs/HierTerm.v).
   The machine equals the recursive specification (C05: machine_eq_spec_full); on the
   specification, every delivered target instance is paid for by at least one consumed unit, so
   the number of deliveries is at most the number of input units (lines / segments), i.e. the
   Read that returns the terminal result is at most number units + 1. *)
From Coq Require Import List Arith Bool Lia.
Import ListNotations.
From OV Require Import Base.Cases Model.Hier Model.HierSpec Proofs.HierBase Proofs.HierInst Proofs.HierMain
  Proofs.HierTerm Model.Safety Proofs.SafetyReads.

Section Count.
  Variable try_leaf : leaf -> list unt -> option nat.

  Definition emits_of {A} (r : mres A) : list inst :=
    match r with MOk e _ _ => e | MErr e _ => e end.
  (* the emitted targets are paid for by consumed units *)
  Definition bounded {A} (us : list unt) (r : mres A) : Prop :=
    match r with
    | MOk e _ us' => length e + length us' <= length us
    | MErr e _ => length e <= length us
    end.

  Definition sum_tgt (ds : list decl) : nat := fold_right (fun k n => count_tgt k + n) 0 ds.

  Lemma count_tgt_unfold d : count_tgt d = (if d_tgt d then 1 else 0) + sum_tgt (d_kids d).
  Proof. destruct d. reflexivity. Qed.

  Section Loops.
    Variable inst_of : decl -> list unt -> mres inst.

    Definition good (d : decl) : Prop :=
      (forall us, bounded us (inst_of d us)) /\
      shrinks try_leaf inst_of d /\
      (d_tgt d = true -> forall us, emits_of (inst_of d us) = []) /\
      (count_tgt d = 0 -> forall us, emits_of (inst_of d us) = []).

    Lemma occ_loop_bounded d : good d -> forall f n us,
      bounded us (occ_loop try_leaf inst_of d f n us).
    Proof.
      intros (Hb & Hs & Ht & _). induction f as [|f IH]; intros n us; [simpl; lia|].
      rewrite occ_loop_S.
      destruct (lt_max n (d_max d) && starts try_leaf d us) eqn:Ec.
      - apply andb_prop in Ec as [_ Est].
        pose proof (Hb us) as Hbu. destruct (inst_of d us) as [e i us'|e t] eqn:Ei; [|exact Hbu].
        simpl in Hbu. destruct (Hs us e i us' Ei) as [_ Hlt]. specialize (Hlt Est).
        assert (He1 : length (if d_tgt d then e ++ [i] else e) + length us' <= length us).
        { destruct (d_tgt d) eqn:Etg; [|exact Hbu].
          pose proof (Ht eq_refl us) as H0. rewrite Ei in H0. simpl in H0. subst e. simpl. lia. }
        specialize (IH (S n) us').
        destruct (occ_loop try_leaf inst_of d f (S n) us') as [e2 is2 us2|e2 t2]; simpl in *;
          rewrite app_length; lia.
      - destruct (n <? d_min d); simpl; lia.
    Qed.

    Lemma occ_loop_silent d : good d -> count_tgt d = 0 -> forall f n us,
      emits_of (occ_loop try_leaf inst_of d f n us) = [].
    Proof.
      intros (_ & _ & _ & H0) Hc. induction f as [|f IH]; intros n us; [reflexivity|].
      rewrite occ_loop_S.
      assert (Htg : d_tgt d = false).
      { rewrite count_tgt_unfold in Hc. destruct (d_tgt d); [lia|reflexivity]. }
      destruct (lt_max n (d_max d) && starts try_leaf d us).
      - pose proof (H0 Hc us) as He. destruct (inst_of d us) as [e i us'|e t]; [|exact He].
        simpl in He. subst e. rewrite Htg. specialize (IH (S n) us').
        destruct (occ_loop try_leaf inst_of d f (S n) us'); simpl in *; rewrite IH; reflexivity.
      - destruct (n <? d_min d); reflexivity.
    Qed.

    Lemma seq_loop_bounded : forall ds, Forall good ds -> forall us,
      bounded us (seq_loop try_leaf inst_of ds us).
    Proof.
      induction ds as [|d ds IH]; intros Hg us; [simpl; lia|].
      inversion Hg as [|? ? Hd Hds]; subst. rewrite seq_loop_cons.
      pose proof (occ_loop_bounded d Hd (S (length us)) 0 us) as Ho.
      destruct (occ_loop try_leaf inst_of d (S (length us)) 0 us) as [e1 is1 us1|e1 t1]; [|exact Ho].
      simpl in Ho. specialize (IH Hds us1).
      destruct (seq_loop try_leaf inst_of ds us1) as [e2 is2 us2|e2 t2]; simpl in *; rewrite app_length; lia.
    Qed.

    Lemma seq_loop_silent : forall ds, Forall good ds -> sum_tgt ds = 0 -> forall us,
      emits_of (seq_loop try_leaf inst_of ds us) = [].
    Proof.
      induction ds as [|d ds IH]; intros Hg Hc us; [reflexivity|].
      inversion Hg as [|? ? Hd Hds]; subst. simpl in Hc. rewrite seq_loop_cons.
      pose proof (occ_loop_silent d Hd ltac:(lia) (S (length us)) 0 us) as Ho.
      destruct (occ_loop try_leaf inst_of d (S (length us)) 0 us) as [e1 is1 us1|e1 t1]; [|exact Ho].
      simpl in Ho. subst e1. specialize (IH Hds ltac:(lia) us1).
      destruct (seq_loop try_leaf inst_of ds us1); simpl in *; rewrite IH; reflexivity.
    Qed.
  End Loops.

  Lemma sum_tgt_kid ds k : In k ds -> count_tgt k <= sum_tgt ds.
  Proof. induction ds as [|d ds IH]; simpl; [intros []|]. intros [->|H]; [lia|]. specialize (IH H). lia. Qed.

  (* with at most one target in d, sp_inst is good *)
  Lemma sp_inst_good : forall d, WF try_leaf d -> count_tgt d <= 1 -> good (sp_inst try_leaf) d.
  Proof.
    induction d as [nm g t mn mx lf kids IH] using decl_ind2. intros Hd Hc.
    pose proof (WF_kids try_leaf _ Hd) as Hk. simpl in Hk.
    rewrite count_tgt_unfold in Hc. cbn [d_tgt d_kids] in Hc.
    assert (Hkg : Forall (good (sp_inst try_leaf)) kids).
    { rewrite Forall_forall in *. intros k Hin. apply IH; [exact Hin|apply Hk; exact Hin|].
      pose proof (sum_tgt_kid kids k Hin). lia. }
    assert (Hsil : (t = true \/ count_tgt (D nm g t mn mx lf kids) = 0) -> forall us,
              emits_of (seq_loop try_leaf (sp_inst try_leaf) kids us) = []).
    { intros Hor us. apply seq_loop_silent; [exact Hkg|].
      destruct Hor as [->|H0]; [lia|]. rewrite count_tgt_unfold in H0. cbn [d_kids] in H0. lia. }
    assert (Hem : (t = true \/ count_tgt (D nm g t mn mx lf kids) = 0) -> forall us,
              emits_of (sp_inst try_leaf (D nm g t mn mx lf kids) us) = []).
    { intros Hor us. simpl. destruct g.
      - pose proof (Hsil Hor us) as H. destruct (seq_loop try_leaf (sp_inst try_leaf) kids us); exact H.
      - destruct (try_leaf lf us) as [n|]; [|reflexivity].
        pose proof (Hsil Hor (skipn n us)) as H.
        destruct (seq_loop try_leaf (sp_inst try_leaf) kids (skipn n us)); exact H. }
    split; [|split; [apply sp_inst_shrinks; exact Hd|split]].
    - intros us. simpl. destruct g.
      + pose proof (seq_loop_bounded (sp_inst try_leaf) kids Hkg us) as H.
        destruct (seq_loop try_leaf (sp_inst try_leaf) kids us); exact H.
      + destruct (try_leaf lf us) as [n|]; [|simpl; lia].
        pose proof (seq_loop_bounded (sp_inst try_leaf) kids Hkg (skipn n us)) as H.
        pose proof (skipn_length_le _ n us) as Hsk.
        destruct (seq_loop try_leaf (sp_inst try_leaf) kids (skipn n us)); simpl in *; lia.
    - intros Ht. apply Hem. left. exact Ht.
    - intros H0. apply Hem. right. exact H0.
  Qed.

  Theorem spec_deliveries_le_units : forall ds us, Forall (WF try_leaf) ds -> count_tgts ds <= 1 ->
    length (fst (spec try_leaf ds us)) <= length us.
  Proof.
    intros ds us Hwf Hc.
    assert (Hg : Forall (good (sp_inst try_leaf)) ds).
    { rewrite Forall_forall in *. intros d Hin. apply sp_inst_good; [apply Hwf; exact Hin|].
      pose proof (sum_tgt_kid ds d Hin). unfold count_tgts in Hc. unfold sum_tgt in *. lia. }
    pose proof (seq_loop_bounded (sp_inst try_leaf) ds Hg us) as Hb. unfold spec.
    destruct (seq_loop try_leaf (sp_inst try_leaf) ds us) as [e is us'|e t]; simpl in *.
    - destruct us'; simpl in *; lia.
    - exact Hb.
  Qed.
End Count.

(* The Read sequence of a run: each delivery is one Read, then the Read with the terminal result
   (Model/Hier.v [run]: "Reads until the first terminal result").  As a reader in the sense of
   Model/Safety.v section 7: the state is what is still to be returned. *)
Definition run_reader (st : list inst * term) : (list inst * term) * bool :=
  match fst st with
  | [] => (st, true)
  | _ :: r => ((r, snd st), false)
  end.

Lemma run_reader_progress : forall st,
  snd (run_reader st) = false -> length (fst (fst (run_reader st))) < length (fst st).
Proof. intros [[|i r] t]; simpl; [discriminate|intros _; lia]. Qed.

(* csv2 / fixedlength2 (KHier): validated declarations, any input units *)
Theorem hier_reads_bound_lemma : forall ds us,
  forallb wfb ds = true -> count_tgts ds <= 1 ->
  exists n, reads_to_terminal _ run_reader (length (fst (run_kind KHier ds us)) + 1) (run_kind KHier ds us) = Some n
            /\ 1 <= n <= length us + 1.
Proof.
  intros ds us Hwf Hc.
  destruct (reads_bound_generic _ run_reader (fun st => length (fst st)) run_reader_progress
              (length (fst (run_kind KHier ds us)) + 1) (run_kind KHier ds us)) as (n&Hn&Hb); [lia|].
  exists n. split; [exact Hn|].
  rewrite (flat_machine_eq_spec_full ds us Hwf Hc) in Hb. unfold spec_kind in Hb.
  pose proof (spec_deliveries_le_units flat_leaf ds us (wfb_Forall_flat ds Hwf) Hc). lia.
Qed.

(* EDI, under C05's guard no_root_repeat (its known finding F14) *)
Theorem edi_reads_bound_lemma : forall ds us,
  forallb wfb ds = true -> count_tgts ds <= 1 -> no_root_repeat edi_leaf ds us ->
  exists n, reads_to_terminal _ run_reader (length (fst (run_kind KEdi ds us)) + 1) (run_kind KEdi ds us) = Some n
            /\ 1 <= n <= length us + 1.
Proof.
  intros ds us Hwf Hc Hg.
  destruct (reads_bound_generic _ run_reader (fun st => length (fst st)) run_reader_progress
              (length (fst (run_kind KEdi ds us)) + 1) (run_kind KEdi ds us)) as (n&Hn&Hb); [lia|].
  exists n. split; [exact Hn|].
  rewrite (edi_machine_eq_spec_full ds us Hwf Hc Hg) in Hb. unfold spec_kind in Hb.
  pose proof (spec_deliveries_le_units edi_leaf ds us (wfb_Forall_edi ds Hwf) Hc). lia.
Qed.
